(* Command programs over the engine and a full dump of the resulting store,
   used by the correspondence checks (the harness runs the same commands on
   transforge and compares canonicalised dumps). *)
From Coq Require Import List Arith Bool.
Import ListNotations.
From TF Require Import Base.Hier Base.Ty Infer.Store Infer.Engine.

Inductive cmd :=
| CInst (sc : schema)                 (* push TypeSchema(...).instance() *)
| CApply (f x : nat) (fixb : bool)    (* push vals[f].apply(vals[x], fix) *)
| CUnify (a b : nat) (sub : bool)     (* vals[a].unify(vals[b], subtype) *)
| CFix (a : nat) (pl : bool).         (* push vals[a].fix(prefer_lower) *)

Section Run.
  Variable H : hier.

  Definition val (vals : list tyv) (i : nat) : tyv := nth i vals (V 0).

  Definition run_cmd (fuel : nat) (c : cmd) (vals : list tyv) : M (list tyv) :=
    match c with
    | CInst sc => t <- instance H fuel sc ;; ret (vals ++ [t])
    | CApply f x fixb => t <- apply H fuel (val vals f) (val vals x) fixb ;; ret (vals ++ [t])
    | CUnify a b sub => unify H fuel sub false false (val vals a) (val vals b) ;;; ret vals
    | CFix a pl => t <- fix_ty H fuel pl (val vals a) ;; ret (vals ++ [t])
    end.

  (* run until the first error; report its command index *)
  Fixpoint run_cmds (fuel : nat) (cs : list cmd) (i : nat) (vals : list tyv) (s : store)
    : (option (err * nat)) * list tyv * store :=
    match cs with
    | [] => (None, vals, s)
    | c :: r =>
        match run_cmd fuel c vals s with
        | MOk vals' s' => run_cmds fuel r (S i) vals' s'
        | MEr e s' => (Some (e, i), vals, s')
        end
    end.

  (* ---------- dump ---------- *)
  Fixpoint enc_tyv (t : tyv) : list nat :=
    match t with
    | V v => [0; v]
    | O o args => 1 :: o :: length args :: flat_map enc_tyv args
    end.

  Definition on (x : option nat) : nat := match x with Some n => S n | None => 0 end.

  Definition err_code (e : err) : list nat :=
    match e with
    | ESubtypeMismatch => [0; 0]
    | ETypeMismatch => [1; 0]
    | EFunApp => [2; 0]
    | ERecursive => [3; 0]
    | EConstraintViolation => [4; 0]
    | ECrash site => [5; site]
    | EFuel => [6; 0]
    end.

  Fixpoint index_from {A} (i : nat) (l : list A) : list (nat * A) :=
    match l with [] => [] | x :: r => (i, x) :: index_from (S i) r end.

  Definition dump (r : (option (err * nat)) * list tyv * store) : list (list nat) :=
    let '(e, vals, s) := r in
    (match e with
     | None => [0]
     | Some (e, i) => 1 :: err_code e ++ [i]
     end)
    :: map (fun t => 10 :: enc_tyv t) vals
    ++ map (fun '(i, c) => [20; i; Nat.b2n (c_wild c); on (c_lower c); on (c_upper c); c_cs c])
           (index_from 0 (vars s))
    ++ flat_map (fun '(i, c) => match c_bound c with
                               | Some t => [21 :: i :: enc_tyv t]
                               | None => [] end) (index_from 0 (vars s))
    ++ map (fun '(i, l) => 25 :: i :: l) (index_from 0 (csets s))
    ++ flat_map (fun '(i, k) =>
                   [30; i; Nat.b2n (k_elim k); Nat.b2n (k_strict k); Nat.b2n (k_done k); length (k_alts k)]
                   :: (31 :: enc_tyv (k_ref k))
                   :: map (fun a => 32 :: enc_tyv a) (k_alts k))
                (index_from 0 (constrs s)).

  Definition run_dump (fuel : nat) (sc : list nat) (cs : list cmd) : list (list nat) :=
    dump (run_cmds fuel cs 0 [] (empty_store sc)).
End Run.
