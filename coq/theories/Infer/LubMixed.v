(* C05 for signatures with MIXED parameter contexts and a result context:

     c_1[x] ** c_2[x] ** ... ** c_n[x] ** r[x]

   applied to c_1[a_1], ..., c_n[a_n] where every c_i (and r) is an arbitrary
   one-hole context (LubCtx.octx) of its own polarity and the a_i are base
   types of one chain.  *)
From Coq Require Import List Arith Bool Lia Permutation.
Import ListNotations.
From TF Require Import Base.Hier Base.Ty Infer.Store Infer.Engine Infer.Run Infer.Lub Infer.LubCtx.

(* ------------------------------------------------------------------ *)
(* programs                                                             *)

Fixpoint sig_body_m (cs : list octx) (r : octx) : sty :=
  match cs with
  | [] => splug r (SVar 0)
  | c :: cs' => SOp Function [splug c (SVar 0); sig_body_m cs' r]
  end.
Definition sig_m (cs : list octx) (r : octx) : schema := mkSchema 1 (sig_body_m cs r) [].

Fixpoint fchain_m (cs : list octx) (r : octx) (x : tyv) : tyv :=
  match cs with
  | [] => tplug r x
  | c :: cs' => O Function [tplug c x; fchain_m cs' r x]
  end.

Fixpoint mixed_steps (cas : list (octx * nat)) (k : nat) : list cmd :=
  match cas with
  | [] => []
  | (c, a) :: rest => CInst (conc_o c a) :: CApply k (S k) true :: mixed_steps rest (S (S k))
  end.

(* the program on (context, argument) pairs *)
Definition mixed_prog_p (cas : list (octx * nat)) (r : octx) : list cmd :=
  CInst (sig_m (map fst cas) r) :: mixed_steps cas 0.

Definition mixed_prog (cs : list octx) (r : octx) (args : list nat) : list cmd :=
  mixed_prog_p (combine cs args) r.

(* what a type instance denotes in a store, one binding deep (enough for
   variables bound to base types) *)
Fixpoint zonk (s : store) (t : tyv) : tyv :=
  match t with
  | V v => follow s (V v)
  | O o args => O o (map (zonk s) args)
  end.

Lemma zonk_inj s t : zonk s (inj t) = inj t.
Proof.
  induction t as [o args IH] using ty_ind'. cbn [inj zonk]. f_equal.
  rewrite map_map. induction IH as [|x r Hx _ IHr]; cbn [map]; [reflexivity|].
  now rewrite Hx, IHr.
Qed.

Lemma zonk_tplug s c x : zonk s (tplug c x) = tplug c (zonk s x).
Proof.
  induction c as [|o b c IH a]; cbn [tplug]; [reflexivity|].
  cbn [zonk]. f_equal. rewrite map_app. cbn [map]. rewrite IH. f_equal; [|f_equal].
  - rewrite map_map. apply map_ext. intros t. apply zonk_inj.
  - rewrite map_map. apply map_ext. intros t. apply zonk_inj.
Qed.

(* is the outermost operator of the context the function arrow? *)
Definition top_fun (r : octx) : bool :=
  match r with Hole => false | Node o _ _ _ => Nat.eqb o Function end.

Lemma is_fun_tplug r v : is_fun (tplug r (V v)) = top_fun r.
Proof. destruct r; reflexivity. Qed.

(* ------------------------------------------------------------------ *)
(* the abstract state of the schematic variable                         *)

Inductive xst := XOpen (lo up : option nat) | XRes (a : nat).

Definition xlo (st : xst) : option nat := match st with XOpen lo _ => lo | XRes a => Some a end.
Definition xup (st : xst) : option nat := match st with XOpen _ up => up | XRes a => Some a end.
Definition xbound (st : xst) : option nat := match st with XOpen _ _ => None | XRes a => Some a end.
(* the bound that fix(prefer_lower = p) picks *)
Definition xpick (st : xst) (p : bool) : option nat := if p then xlo st else xup st.

Definition close (lo up : option nat) : xst :=
  match lo, up with
  | Some l, Some u => if Nat.eqb l u then XRes l else XOpen lo up
  | _, _ => XOpen lo up
  end.

Definition obase (o : option nat) : option tyv :=
  match o with Some m => Some (O m []) | None => None end.
Definition oval (o : option nat) (v : nat) : tyv :=
  match o with Some m => O m [] | None => V v end.

Section Mixed.
  Variable H : hier.
  Hypothesis W : wf_hier H.

  Notation user := (user H).
  Notation obounds_user := (obounds_user H).

  (* one argument a supplied in a position of polarity p; None = SubtypeMismatch *)
  Definition xstep (st : xst) (p : bool) (a : nat) : option xst :=
    match st with
    | XOpen lo up =>
        if p then match above_pure H lo up a with Some lo' => Some (close lo' up) | None => None end
        else match below_pure H lo up a with Some up' => Some (close lo up') | None => None end
    | XRes A =>
        if (if p then osub H false a A else osub H false A a) then Some st else None
    end.

  Fixpoint xrun (st : xst) (l : list (bool * nat)) (j : nat) : xst + nat :=
    match l with
    | [] => inl st
    | (p, a) :: r => match xstep st p a with Some st' => xrun st' r (S j) | None => inr j end
    end.

  Definition xgood (st : xst) : Prop :=
    match st with
    | XOpen lo up => obounds_user lo /\ obounds_user up /\
                     (forall x y, lo = Some x -> up = Some y -> Anc H x y /\ x <> y)
    | XRes A => user A
    end.

  Lemma xstep_good st p a st' : xgood st -> user a -> xstep st p a = Some st' -> xgood st'.
  Proof.
    intros G Ua. destruct st as [lo up|A]; cbn [xstep].
    - destruct G as (Ul & Uu & Ord). destruct p.
      + pose proof (above_pure_spec H W lo up a Ua Ul Uu) as Sp.
        destruct (above_pure H lo up a) as [lo'|]; [|discriminate]. intros [= <-].
        destruct Sp as (Hup & m & -> & Ham & Hlm & Hm).
        assert (Um : user m) by (destruct Hm as [->|E]; auto).
        unfold close. destruct up as [u|].
        * destruct (Nat.eqb m u) eqn:E; [exact Um|]. apply Nat.eqb_neq in E.
          split; [now intros ? [= <-]|]. split; [exact Uu|].
          intros x y [= <-] [= <-]. split; auto.
          destruct Hm as [->|Hm]; [now apply Hup|]. now apply (Ord m u).
        * split; [now intros ? [= <-]|]. split; [exact Uu|]. intros; discriminate.
      + pose proof (below_pure_spec H W lo up a Ua Ul Uu) as Sp.
        destruct (below_pure H lo up a) as [up'|]; [|discriminate]. intros [= <-].
        destruct Sp as (Hlo & m & -> & Hma & Hmu & Hm).
        assert (Um : user m) by (destruct Hm as [->|E]; auto).
        unfold close. destruct lo as [l|].
        * destruct (Nat.eqb l m) eqn:E; [now apply Ul|]. apply Nat.eqb_neq in E.
          split; [exact Ul|]. split; [now intros ? [= <-]|].
          intros x y [= <-] [= <-]. split; auto.
          destruct Hm as [->|Hm]; [now apply Hlo|]. now apply (Ord l m).
        * split; [exact Ul|]. split; [now intros ? [= <-]|]. intros; discriminate.
    - destruct (if p then _ else _); [|discriminate]. now intros [= <-].
  Qed.

  (* ------------------------------------------------------------------ *)
  (* the engine follows xstep                                             *)

  Definition InvX (s : store) (v i : nat) (st : xst) : Prop :=
    v < length (vars s) /\ cset_of s i = [] /\
    cell_of s v = mkCell false (obase (xbound st)) (xlo st) (xup st) i.

  Lemma user_basic a : user a -> basic H a = true.
  Proof. intros (Va & _). now apply basic_iff. Qed.

  Lemma close_cases lo up :
    (exists m, lo = Some m /\ up = Some m /\ close lo up = XRes m) \/
    (close lo up = XOpen lo up /\
     match lo, up with Some l, Some u => Nat.eqb l u = false | _, _ => True end).
  Proof.
    unfold close. destruct lo as [l|], up as [u|]; auto.
    destruct (Nat.eqb l u) eqn:E; auto. apply Nat.eqb_eq in E. subst. left. eauto.
  Qed.

  Lemma xstep_cov f s v i st a :
    InvX s v i st -> xgood st -> user a ->
    match xstep st true a with
    | Some st' => exists s', unify H (S (S (S (S f)))) true false false (O a []) (V v) s = MOk tt s' /\
                             InvX s' v i st'
    | None => exists s', unify H (S (S (S (S f)))) true false false (O a []) (V v) s
                         = MEr ESubtypeMismatch s'
    end.
  Proof.
    intros (Hv & Hcs & Hc) G Ua.
    pose proof Ua as (Va & NTa & NBa).
    assert (Ba : basic H a = true) by now apply user_basic.
    apply Nat.eqb_neq in NTa, NBa.
    destruct st as [lo up|A]; cbn [xstep]; cbn [xbound xlo xup obase] in Hc.
    - rewrite unify_basic_var; auto; try now rewrite Hc.
      rewrite (above_eval H (S f) v a s false lo up i); auto.
      destruct G as (Ul & Uu & Ord).
      pose proof (above_pure_spec H W lo up a Ua Ul Uu) as Sp.
      destruct (above_pure H lo up a) as [lo'|]; [|eauto].
      destruct Sp as (Hup & m & -> & Ham & Hlm & Hm).
      assert (Um : user m) by (destruct Hm as [->|E]; auto).
      set (s1 := set_cell s v (mkCell false None (Some m) up i)).
      assert (Hv1 : v < length (vars s1)) by (unfold s1; now rewrite vars_set_cell_length).
      assert (Hc1 : cell_of s1 v = mkCell false None (Some m) up i)
        by (unfold s1; now apply cell_of_set_same).
      assert (Hcs1 : cset_of s1 i = []) by exact Hcs.
      destruct (close_cases (Some m) up) as [(m' & [= <-] & -> & ->)|(-> & Hne)].
      + unfold above_tail, bindM, gets. rewrite Hc1. cbn [c_bound c_lower c_upper].
        rewrite Nat.eqb_refl.
        rewrite (bind_basic_eval H f v m s1 false (Some m) (Some m) i); auto;
          [|now apply user_basic].
        destruct Um as (_ & NTm & NBm). rewrite (osubT_irrefl H W m NTm NBm). cbn [orb].
        eexists; split; [reflexivity|]. unfold s1. rewrite set_cell_twice.
        split; [now rewrite vars_set_cell_length|]. split; [exact Hcs|].
        now apply cell_of_set_same.
      + rewrite (above_tail_open H _ v s1 false None (Some m) up i Hc1 Hne).
        exists s1. split; [reflexivity|]. split; [exact Hv1|]. split; [exact Hcs1|exact Hc1].
    - assert (UA : user A) by exact G. pose proof UA as (VA & NTA & NBA).
      apply Nat.eqb_neq in NTA, NBA.
      assert (E : unify H (S (S (S (S f)))) true false false (O a []) (V v) s =
                  if osub H false a A then MOk tt s else MEr ESubtypeMismatch s).
      { rewrite unify_S. unfold bindM at 1 2. unfold gets at 1 2.
        rewrite follow_O, (follow_V_bound_O s v A []) by now rewrite Hc.
        rewrite NBa, NTA, Ba. cbn [orb andb negb].
        destruct (osub H false a A); reflexivity. }
      rewrite E. destruct (osub H false a A).
      + exists s. split; [reflexivity|]. split; [exact Hv|]. split; [exact Hcs|exact Hc].
      + eexists; reflexivity.
  Qed.

  Lemma xstep_con f s v i st a :
    InvX s v i st -> xgood st -> user a ->
    match xstep st false a with
    | Some st' => exists s', unify H (S (S (S (S f)))) true false false (V v) (O a []) s = MOk tt s' /\
                             InvX s' v i st'
    | None => exists s', unify H (S (S (S (S f)))) true false false (V v) (O a []) s
                         = MEr ESubtypeMismatch s'
    end.
  Proof.
    intros (Hv & Hcs & Hc) G Ua.
    pose proof Ua as (Va & NTa & NBa).
    assert (Ba : basic H a = true) by now apply user_basic.
    apply Nat.eqb_neq in NTa, NBa.
    destruct st as [lo up|A]; cbn [xstep]; cbn [xbound xlo xup obase] in Hc.
    - rewrite unify_var_basic; auto; try now rewrite Hc.
      rewrite (below_eval H (S f) v a s false lo up i); auto.
      destruct G as (Ul & Uu & Ord).
      pose proof (below_pure_spec H W lo up a Ua Ul Uu) as Sp.
      destruct (below_pure H lo up a) as [up'|]; [|eauto].
      destruct Sp as (Hlo & m & -> & Hma & Hmu & Hm).
      assert (Um : user m) by (destruct Hm as [->|E]; auto).
      set (s1 := set_cell s v (mkCell false None lo (Some m) i)).
      assert (Hv1 : v < length (vars s1)) by (unfold s1; now rewrite vars_set_cell_length).
      assert (Hc1 : cell_of s1 v = mkCell false None lo (Some m) i)
        by (unfold s1; now apply cell_of_set_same).
      assert (Hcs1 : cset_of s1 i = []) by exact Hcs.
      destruct (close_cases lo (Some m)) as [(m' & -> & [= <-] & ->)|(-> & Hne)].
      + unfold below_tail, bindM, gets. rewrite Hc1. cbn [c_bound c_lower c_upper].
        rewrite Nat.eqb_refl.
        rewrite (bind_basic_eval H f v m s1 false (Some m) (Some m) i); auto;
          [|now apply user_basic].
        destruct Um as (_ & NTm & NBm). rewrite (osubT_irrefl H W m NTm NBm). cbn [orb].
        eexists; split; [reflexivity|]. unfold s1. rewrite set_cell_twice.
        split; [now rewrite vars_set_cell_length|]. split; [exact Hcs|].
        now apply cell_of_set_same.
      + assert (Hne' : match lo with Some l => Nat.eqb m l = false | None => True end).
        { destruct lo as [l|]; auto. now rewrite Nat.eqb_sym. }
        rewrite (below_tail_open H _ v s1 false None lo (Some m) i Hc1 Hne').
        exists s1. split; [reflexivity|]. split; [exact Hv1|]. split; [exact Hcs1|exact Hc1].
    - assert (UA : user A) by exact G. pose proof UA as (VA & NTA & NBA).
      assert (BA : basic H A = true) by now apply user_basic.
      apply Nat.eqb_neq in NTA, NBA.
      assert (E : unify H (S (S (S (S f)))) true false false (V v) (O a []) s =
                  if osub H false A a then MOk tt s else MEr ESubtypeMismatch s).
      { rewrite unify_S. unfold bindM at 1 2. unfold gets at 1 2.
        rewrite follow_O, (follow_V_bound_O s v A []) by now rewrite Hc.
        rewrite NBA, NTa, BA. cbn [orb andb negb].
        destruct (osub H false A a); reflexivity. }
      rewrite E. destruct (osub H false A a).
      + exists s. split; [reflexivity|]. split; [exact Hv|]. split; [exact Hcs|exact Hc].
      + eexists; reflexivity.
  Qed.

  (* ------------------------------------------------------------------ *)
  (* declarative reading of the abstract run                              *)

  (* an argument list: (polarity of the position, base type supplied) *)
  Definition IsLo (l : list (bool * nat)) (o : option nat) : Prop :=
    match o with
    | None => forall a, ~ In (true, a) l
    | Some m => In (true, m) l /\ forall a, In (true, a) l -> Anc H a m
    end.
  Definition IsUp (l : list (bool * nat)) (o : option nat) : Prop :=
    match o with
    | None => forall a, ~ In (false, a) l
    | Some m => In (false, m) l /\ forall a, In (false, a) l -> Anc H m a
    end.

  Definition Rep (l : list (bool * nat)) (st : xst) : Prop :=
    match st with
    | XOpen lo up => IsLo l lo /\ IsUp l up /\
                     (forall x y, lo = Some x -> up = Some y -> Anc H x y /\ x <> y)
    | XRes A => IsLo l (Some A) /\ IsUp l (Some A)
    end.

  Definition Chain (l : list (bool * nat)) : Prop :=
    (forall p a, In (p, a) l -> user a) /\
    (forall p a q b, In (p, a) l -> In (q, b) l -> Anc H a b \/ Anc H b a).

  Definition CrossOk (l : list (bool * nat)) : Prop :=
    forall a b, In (true, a) l -> In (false, b) l -> Anc H a b.

  Lemma IsLo_unique l o o' : IsLo l o -> IsLo l o' -> o = o'.
  Proof.
    destruct o as [m|], o' as [m'|]; cbn [IsLo]; auto.
    - intros (I1 & U1) (I2 & U2). f_equal. apply (Anc_antisym H W); auto.
    - intros (I1 & _) N. destruct (N _ I1).
    - intros N (I1 & _). destruct (N _ I1).
  Qed.

  Lemma IsUp_unique l o o' : IsUp l o -> IsUp l o' -> o = o'.
  Proof.
    destruct o as [m|], o' as [m'|]; cbn [IsUp]; auto.
    - intros (I1 & U1) (I2 & U2). f_equal. apply (Anc_antisym H W); auto.
    - intros (I1 & _) N. destruct (N _ I1).
    - intros N (I1 & _). destruct (N _ I1).
  Qed.

  Lemma Rep_unique l st st' : Rep l st -> Rep l st' -> st = st'.
  Proof.
    destruct st as [lo up|A], st' as [lo' up'|A']; cbn [Rep].
    - intros (L & U & _) (L' & U' & _).
      now rewrite (IsLo_unique _ _ _ L L'), (IsUp_unique _ _ _ U U').
    - intros (L & U & Ord) (L' & U').
      pose proof (IsLo_unique _ _ _ L L') as E1. pose proof (IsUp_unique _ _ _ U U') as E2.
      destruct (Ord A' A' E1 E2) as (_ & Ne). congruence.
    - intros (L' & U') (L & U & Ord).
      pose proof (IsLo_unique _ _ _ L L') as E1. pose proof (IsUp_unique _ _ _ U U') as E2.
      destruct (Ord A A E1 E2) as (_ & Ne). congruence.
    - intros (L & _) (L' & _). pose proof (IsLo_unique _ _ _ L L') as E. congruence.
  Qed.

  Lemma Rep_lo l st : Rep l st -> IsLo l (xlo st).
  Proof. destruct st; cbn [Rep xlo]; tauto. Qed.
  Lemma Rep_up l st : Rep l st -> IsUp l (xup st).
  Proof. destruct st; cbn [Rep xup]; tauto. Qed.

  Lemma Rep_order l st x y : Rep l st -> xlo st = Some x -> xup st = Some y -> Anc H x y.
  Proof.
    destruct st as [lo up|A]; cbn [Rep xlo xup].
    - intros (_ & _ & Ord) E1 E2. now apply Ord.
    - intros _ [= <-] [= <-]. constructor.
  Qed.

  Lemma Rep_cross l st : Rep l st -> CrossOk l.
  Proof.
    intros R a b Ha Hb. pose proof (Rep_lo _ _ R) as L. pose proof (Rep_up _ _ R) as U.
    destruct (xlo st) as [x|] eqn:E1; cbn [IsLo] in L; [|destruct (L _ Ha)].
    destruct (xup st) as [y|] eqn:E2; cbn [IsUp] in U; [|destruct (U _ Hb)].
    destruct L as (_ & L). destruct U as (_ & U).
    apply Anc_trans with x; auto. apply Anc_trans with y; auto.
    eapply Rep_order; eauto.
  Qed.

  Lemma Rep_good l st : Rep l st -> Chain l -> xgood st.
  Proof.
    intros R (CU & _). destruct st as [lo up|A]; cbn [Rep xgood] in *.
    - destruct R as (L & U & Ord). split; [|split; auto].
      + intros x ->. destruct L as (I & _). eapply CU; eauto.
      + intros x ->. destruct U as (I & _). eapply CU; eauto.
    - destruct R as ((I & _) & _). eapply CU; eauto.
  Qed.

  Lemma Rep_perm l l' st : Permutation l l' -> Rep l st -> Rep l' st.
  Proof.
    intros P.
    assert (I : forall x, In x l <-> In x l').
    { intros x. split; apply Permutation_in; auto. now apply Permutation_sym. }
    assert (L : forall o, IsLo l o -> IsLo l' o).
    { intros [m|]; cbn [IsLo].
      - intros (I1 & U1). split; [now apply I|]. intros a Ha. apply U1. now apply I.
      - intros N a Ha. apply (N a). now apply I. }
    assert (U : forall o, IsUp l o -> IsUp l' o).
    { intros [m|]; cbn [IsUp].
      - intros (I1 & U1). split; [now apply I|]. intros a Ha. apply U1. now apply I.
      - intros N a Ha. apply (N a). now apply I. }
    destruct st as [lo up|A]; cbn [Rep]; intuition.
  Qed.

  Lemma in_snoc {A} (x y : A) l : In x (l ++ [y]) <-> In x l \/ x = y.
  Proof. rewrite in_app_iff. cbn [In]. intuition. Qed.

  Lemma IsLo_snoc_con l o b : IsLo l o -> IsLo (l ++ [(false, b)]) o.
  Proof.
    destruct o as [m|]; cbn [IsLo].
    - intros (I1 & U1). split; [apply in_snoc; auto|].
      intros a Ha. apply in_snoc in Ha. destruct Ha as [Ha|Ha]; [auto|discriminate].
    - intros N a Ha. apply in_snoc in Ha. destruct Ha as [Ha|Ha]; [now apply (N a)|discriminate].
  Qed.

  Lemma IsUp_snoc_cov l o b : IsUp l o -> IsUp (l ++ [(true, b)]) o.
  Proof.
    destruct o as [m|]; cbn [IsUp].
    - intros (I1 & U1). split; [apply in_snoc; auto|].
      intros a Ha. apply in_snoc in Ha. destruct Ha as [Ha|Ha]; [auto|discriminate].
    - intros N a Ha. apply in_snoc in Ha. destruct Ha as [Ha|Ha]; [now apply (N a)|discriminate].
  Qed.

  (* the new maximum after a covariant argument *)
  Lemma IsLo_snoc_cov l lo a m :
    IsLo l lo -> Anc H a m -> (forall x, lo = Some x -> Anc H x m) -> (m = a \/ lo = Some m) ->
    IsLo (l ++ [(true, a)]) (Some m).
  Proof.
    intros L Ham Hlm Hm. cbn [IsLo]. split.
    - apply in_snoc. destruct Hm as [-> | ->]; [now right|left]. now destruct L.
    - intros x Hx. apply in_snoc in Hx. destruct Hx as [Hx|[= ->]]; [|exact Ham].
      destruct lo as [l0|]; cbn [IsLo] in L.
      + apply Anc_trans with l0; [now apply L|now apply Hlm].
      + destruct (L _ Hx).
  Qed.

  Lemma IsUp_snoc_con l up a m :
    IsUp l up -> Anc H m a -> (forall x, up = Some x -> Anc H m x) -> (m = a \/ up = Some m) ->
    IsUp (l ++ [(false, a)]) (Some m).
  Proof.
    intros U Hma Hmu Hm. cbn [IsUp]. split.
    - apply in_snoc. destruct Hm as [-> | ->]; [now right|left]. now destruct U.
    - intros x Hx. apply in_snoc in Hx. destruct Hx as [Hx|[= ->]]; [|exact Hma].
      destruct up as [u0|]; cbn [IsUp] in U.
      + apply Anc_trans with u0; [now apply Hmu|now apply U].
      + destruct (U _ Hx).
  Qed.

  Lemma xstep_spec pre st p a :
    Rep pre st -> Chain (pre ++ [(p, a)]) ->
    match xstep st p a with
    | Some st' => Rep (pre ++ [(p, a)]) st'
    | None => ~ CrossOk (pre ++ [(p, a)])
    end.
  Proof.
    intros R (CU & CC).
    assert (Ua : user a) by (apply (CU p); apply in_snoc; now right).
    assert (Cpre : Chain pre).
    { split.
      - intros q b Hb. apply (CU q). apply in_snoc. now left.
      - intros q b q' b' Hb Hb'. apply (CC q b q' b'); apply in_snoc; now left. }
    pose proof (Rep_good _ _ R Cpre) as G.
    assert (Last : In (p, a) (pre ++ [(p, a)])) by (apply in_snoc; now right).
    destruct st as [lo up|A]; cbn [xstep].
    - destruct R as (L & U & Ord). destruct G as (Ul & Uu & _). destruct p.
      + pose proof (above_pure_spec H W lo up a Ua Ul Uu) as Sp.
        destruct (above_pure H lo up a) as [lo'|].
        * destruct Sp as (Hup & m & -> & Ham & Hlm & Hm).
          pose proof (IsLo_snoc_cov pre lo a m L Ham Hlm Hm) as L1.
          pose proof (IsUp_snoc_cov pre up a U) as U1.
          destruct (close_cases (Some m) up) as [(m' & [= <-] & -> & ->)|(-> & Hne)].
          -- split; assumption.
          -- split; [exact L1|]. split; [exact U1|]. intros x y [= <-] ->.
             apply Nat.eqb_neq in Hne. split; auto.
             destruct Hm as [->|Hm]; [now apply Hup|]. now apply (Ord m y).
        * intros CO. destruct Sp as [(u & -> & NA)|(l0 & -> & N1 & N2)].
          -- apply NA. apply CO; [exact Last|]. apply in_snoc. left. now destruct U.
          -- destruct L as (I0 & _).
             destruct (CC true a true l0 Last) as [A1|A1]; auto. apply in_snoc. now left.
      + pose proof (below_pure_spec H W lo up a Ua Ul Uu) as Sp.
        destruct (below_pure H lo up a) as [up'|].
        * destruct Sp as (Hlo & m & -> & Hma & Hmu & Hm).
          pose proof (IsUp_snoc_con pre up a m U Hma Hmu Hm) as U1.
          pose proof (IsLo_snoc_con pre lo a L) as L1.
          destruct (close_cases lo (Some m)) as [(m' & -> & [= <-] & ->)|(-> & Hne)].
          -- split; assumption.
          -- split; [exact L1|]. split; [exact U1|]. intros x y -> [= <-].
             apply Nat.eqb_neq in Hne. split; auto.
             destruct Hm as [->|Hm]; [now apply Hlo|]. now apply (Ord x m).
        * intros CO. destruct Sp as [(l0 & -> & NA)|(u & -> & N1 & N2)].
          -- apply NA. apply CO; [|exact Last]. apply in_snoc. left. now destruct L.
          -- destruct U as (I0 & _).
             destruct (CC false a false u Last) as [A1|A1]; auto. apply in_snoc. now left.
    - destruct R as (L & U). assert (UA : user A) by exact G. destruct p.
      + destruct (osub H false a A) eqn:E.
        * apply (user_osubF H W) in E; auto. split.
          -- apply (IsLo_snoc_cov pre (Some A) a A L E); auto.
             intros x [= <-]. constructor.
          -- now apply IsUp_snoc_cov.
        * intros CO. assert (A1 : Anc H a A).
          { apply CO; [exact Last|]. apply in_snoc. left. now destruct U. }
          apply (user_osubF H W) in A1; auto. congruence.
      + destruct (osub H false A a) eqn:E.
        * apply (user_osubF H W) in E; auto. split.
          -- now apply IsLo_snoc_con.
          -- apply (IsUp_snoc_con pre (Some A) a A U E); auto.
             intros x [= <-]. constructor.
        * intros CO. assert (A1 : Anc H A a).
          { apply CO; [|exact Last]. apply in_snoc. left. now destruct L. }
          apply (user_osubF H W) in A1; auto. congruence.
  Qed.

  Lemma Chain_app_l l1 l2 : Chain (l1 ++ l2) -> Chain l1.
  Proof.
    intros (CU & CC). split.
    - intros p a Ha. apply (CU p). apply in_app_iff. now left.
    - intros p a q b Ha Hb. apply (CC p a q b); apply in_app_iff; now left.
  Qed.

  Lemma app_snoc {A} (l : list A) x r : (l ++ [x]) ++ r = l ++ x :: r.
  Proof. now rewrite <- app_assoc. Qed.

  (* the abstract run succeeds iff no covariant argument exceeds a
     contravariant one; it stops at the first argument that crosses *)
  Lemma xrun_spec : forall l pre st, Rep pre st -> Chain (pre ++ l) ->
    match xrun st l (length pre) with
    | inl st' => Rep (pre ++ l) st'
    | inr j => length pre <= j < length (pre ++ l) /\
               CrossOk (firstn j (pre ++ l)) /\ ~ CrossOk (firstn (S j) (pre ++ l))
    end.
  Proof.
    induction l as [|[p a] r IH]; intros pre st R C; cbn [xrun].
    - now rewrite app_nil_r.
    - rewrite <- app_snoc in C.
      pose proof (xstep_spec pre st p a R (Chain_app_l _ _ C)) as Sp.
      destruct (xstep st p a) as [st'|].
      + specialize (IH (pre ++ [(p, a)]) st' Sp C).
        rewrite app_length in IH. cbn [length] in IH. rewrite Nat.add_1_r in IH.
        rewrite app_snoc in IH.
        destruct (xrun st' r (S (length pre))) as [st2|j]; [exact IH|].
        destruct IH as (Hj & IH). split; [lia|exact IH].
      + rewrite app_length. cbn [length]. split; [lia|]. split.
        * replace (length pre) with (length pre + 0) by lia.
          rewrite firstn_app_2. cbn [firstn]. rewrite app_nil_r. eapply Rep_cross; eauto.
        * replace (S (length pre)) with (length pre + 1) by lia.
          rewrite firstn_app_2. cbn [firstn]. exact Sp.
  Qed.

  (* ------------------------------------------------------------------ *)
  (* fix descends through a context to the hole                            *)

  Lemma fgo_hole_gen f pl vs b a x s :
    length b < length vs -> tys_height b <= f -> tys_height a <= f ->
    fgo H f pl vs (map inj b ++ x :: map inj a) s =
      (fix_ty H f (if nth (length b) vs true then pl else negb pl) x ;;; ret tt) s.
  Proof.
    revert vs. induction b as [|t r IH]; intros vs Hl Hb Ha.
    - destruct vs as [|v0 vs]; [cbn [length] in Hl; lia|]. cbn [map app length nth].
      rewrite fgo_cons. unfold bindM.
      destruct (fix_ty H f (if v0 then pl else negb pl) x s) as [t s'|e s']; [|reflexivity].
      now apply fgo_sibs.
    - destruct vs as [|v0 vs]; [cbn [length] in Hl; lia|]. cbn [map app length nth].
      rewrite fgo_cons. cbn [tys_height fold_right] in Hb. unfold bindM at 1.
      rewrite fix_inj by lia. apply IH; [cbn [length] in Hl; lia| |auto].
      unfold tys_height. lia.
  Qed.

  Definition hole_pl (c : octx) (pl : bool) : bool := if pol H c then pl else negb pl.

  Lemma hole_pl_node o b c a pl :
    hole_pl (Node o b c a) pl =
      hole_pl c (if nth (length b) (variance H o) true then pl else negb pl).
  Proof.
    unfold hole_pl. cbn [pol].
    destruct (nth (length b) (variance H o) true), (pol H c), pl; reflexivity.
  Qed.

  Lemma fix_octx_res c :
    wf_octx H c -> forall f pl x s, octx_depth c + octx_sib c <= f ->
    fix_ty H f pl (tplug c x) s =
      match fix_ty H (f - octx_depth c) (hole_pl c pl) x s with
      | MOk t s' => MOk (match c with Hole => t | _ => tplug c x end) s'
      | MEr e s' => MEr e s'
      end.
  Proof.
    induction c as [|o b c IH a]; intros Wc f pl x s Hf.
    - cbn [tplug octx_depth]. rewrite Nat.sub_0_r. unfold hole_pl. cbn [pol].
      now destruct (fix_ty H f pl x s).
    - destruct (wf_octx_node_var H _ _ _ _ Wc) as (Vo & Lb).
      cbn [wf_octx] in Wc. destruct Wc as (_ & _ & _ & Wc).
      cbn [octx_depth octx_sib] in Hf.
      destruct f as [|f]; [lia|]. rewrite hole_pl_node.
      cbn [tplug octx_depth Nat.sub]. rewrite fix_node. unfold bindM at 1.
      rewrite fgo_hole_gen by (auto; lia). unfold bindM at 1.
      rewrite (IH Wc) by lia.
      destruct (fix_ty H (f - octx_depth c) _ x s) as [t s'|e s']; reflexivity.
  Qed.

  Lemma follow_oval s v fb :
    c_bound (cell_of s v) = obase fb -> follow s (V v) = oval fb v.
  Proof.
    destruct fb as [m|]; cbn [obase oval]; intros E.
    - now apply follow_V_bound_O.
    - now apply follow_V_unbound.
  Qed.

  Lemma zonk_oval s v fb :
    c_bound (cell_of s v) = obase fb -> zonk s (oval fb v) = oval fb v.
  Proof.
    destruct fb as [m|]; cbn [obase oval zonk map]; intros E; [reflexivity|].
    now apply follow_V_unbound.
  Qed.

  (* fix on the variable itself picks the lower or the upper bound *)
  Lemma fix_hole f pl s v i st :
    InvX s v i st -> xgood st ->
    exists s', fix_ty H (S (S (S f))) pl (V v) s = MOk (oval (xpick st pl) v) s' /\
               v < length (vars s') /\ cset_of s' i = [] /\
               cell_of s' v = mkCell false (obase (xpick st pl)) (xlo st) (xup st) i.
  Proof.
    intros (Hv & Hcs & Hc) G. destruct st as [lo up|A]; cbn [xbound xlo xup obase] in Hc.
    - destruct G as (Ul & Uu & Ord). unfold xpick. cbn [xlo xup].
      destruct pl.
      + destruct lo as [l|].
        * destruct (Ul l eq_refl) as (Vl & NTl & NBl).
          rewrite (fix_var_lower H f v s false l up i); auto.
          -- eexists. split; [reflexivity|]. split; [now rewrite vars_set_cell_length|].
             split; [exact Hcs|]. now apply cell_of_set_same.
          -- now apply basic_iff.
          -- now apply osubT_irrefl.
          -- destruct up as [u|]; auto. destruct (Ord l u eq_refl eq_refl) as (Alu & Ne).
             destruct (osub H true u l) eqn:E; auto.
             apply (user_osubT H W) in E; auto. destruct E as (Aul & _).
             exfalso. apply Ne. now apply (Anc_antisym H W).
        * rewrite fix_var_nolower by now rewrite Hc. exists s. cbn [oval obase]. auto.
      + destruct up as [u|].
        * destruct (Uu u eq_refl) as (Vu & NTu & NBu).
          rewrite (fix_var_upper H f v s false lo u i); auto.
          -- eexists. split; [reflexivity|]. split; [now rewrite vars_set_cell_length|].
             split; [exact Hcs|]. now apply cell_of_set_same.
          -- now apply basic_iff.
          -- now apply osubT_irrefl.
          -- destruct lo as [l|]; auto. destruct (Ord l u eq_refl eq_refl) as (Alu & Ne).
             destruct (osub H true u l) eqn:E; auto.
             apply (user_osubT H W) in E; auto. destruct E as (Aul & _).
             exfalso. apply Ne. now apply (Anc_antisym H W).
        * rewrite fix_var_noupper by now rewrite Hc. exists s. cbn [oval obase]. auto.
    - exists s. rewrite (fix_to_basic H _ pl (V v) A s)
        by (apply follow_V_bound_O; now rewrite Hc).
      unfold xpick. cbn [xlo xup]. destruct pl; cbn [oval obase]; auto.
  Qed.

  (* ------------------------------------------------------------------ *)
  (* the schema                                                           *)

  Lemma eval_sig_body_m cs r v s :
    c_bound (cell_of s v) = None ->
    eval_sty [V v] (sig_body_m cs r) s = MOk (fchain_m cs r (V v)) s.
  Proof.
    intros Eb. induction cs as [|c cs IH]; cbn [sig_body_m fchain_m].
    - apply eval_splug. now apply eval_svar0.
    - rewrite eval_sop. cbn [elist]. unfold bindM at 1 2.
      rewrite (eval_splug [V v] c (SVar 0) (V v) s (eval_svar0 v s Eb)).
      unfold bindM at 1 2. rewrite IH. reflexivity.
  Qed.

  Definition cbound (d : nat) (c : octx) : Prop :=
    wf_octx H c /\ octx_depth c + octx_sib c <= d.

  Lemma fix_fchain_m d r v s :
    cbound d r ->
    c_bound (cell_of s v) = None -> c_lower (cell_of s v) = None ->
    c_upper (cell_of s v) = None ->
    forall cs f pl, Forall (cbound d) cs -> length cs + d < f ->
      fix_ty H f pl (fchain_m cs r (V v)) s = MOk (fchain_m cs r (V v)) s.
  Proof.
    intros (Wr & Hr) Eb El Eu. induction cs as [|c cs IH]; intros f pl Hcs Hf.
    - cbn [fchain_m]. apply fix_tplug; auto; [cbn [length] in Hf; lia|].
      intros. now apply fix_var_free.
    - inversion Hcs as [|? ? (Wc & Hc) Hcs']; subst. cbn [length] in Hf.
      destruct f as [|f]; [lia|]. cbn [fchain_m]. rewrite fix_node, (wf_fun H W).
      rewrite !fgo_cons. unfold bindM.
      rewrite (fix_tplug H c (V v) Wc) by (try lia; intros; now apply fix_var_free).
      rewrite (IH f pl) by (auto; lia). reflexivity.
  Qed.

  Lemma instance_sig_m d cs r fuel s :
    cbound d r -> Forall (cbound d) cs -> length cs + d < fuel ->
    instance H fuel (sig_m cs r) s = MOk (fchain_m cs r (V (length (vars s)))) (fresh_store s).
  Proof.
    intros Hr Hcs Hf. unfold instance, sig_m. cbn [s_n s_body s_constrs fresh_list forM].
    unfold bindM at 1 2 3. unfold fresh at 1. cbn [alloc_var].
    unfold bindM at 1. unfold ret at 1 2.
    change (mkStore _ _ _ _) with (fresh_store s).
    assert (Eb : cell_of (fresh_store s) (length (vars s)) = _) by apply fresh_store_cell.
    rewrite eval_sig_body_m by now rewrite Eb.
    unfold bindM. unfold ret at 1.
    apply (fix_fchain_m d); auto; now rewrite Eb.
  Qed.

  (* ------------------------------------------------------------------ *)
  (* the argument loop                                                    *)

  Definition pols (cas : list (octx * nat)) : list (bool * nat) :=
    map (fun ca => (pol H (fst ca), snd ca)) cas.

  Definition okpair (d : nat) (ca : octx * nat) : Prop := cbound d (fst ca) /\ user (snd ca).

  (* what is observed at the end: the bound picked by the final fix (none when
     the result is itself a function type: apply does not fix then) *)
  Definition final_bound (r : octx) (st : xst) : option nat :=
    if top_fun r then xbound st else xpick st (pol H r).

  Definition FinalX (r : octx) (v i : nat) (s : store) (vals : list tyv) (st : xst) : Prop :=
    cell_of s v = mkCell false (obase (final_bound r st)) (xlo st) (xup st) i /\
    zonk s (last vals (V 0)) = tplug r (oval (final_bound r st) v).

  Lemma run_step_eq fuel c a prog k idx vals s v rty :
    wf_octx H c -> octx_depth c + octx_sib c < fuel -> length vals = S k ->
    nth k vals (V 0) = O Function [tplug c (V v); rty] ->
    run_cmds H fuel (CInst (conc_o c a) :: CApply k (S k) true :: prog) idx vals s =
      match (if pol H c
             then unify H (fuel - octx_depth c) true false false (O a []) (V v)
             else unify H (fuel - octx_depth c) true false false (V v) (O a [])) s with
      | MEr e s1 => (Some (e, S idx), vals ++ [tplug c (O a [])], s1)
      | MOk _ s1 =>
          match (if negb (is_fun rty) then fix_ty H fuel true rty else ret rty) s1 with
          | MOk t s2 => run_cmds H fuel prog (S (S idx)) ((vals ++ [tplug c (O a [])]) ++ [t]) s2
          | MEr e s2 => (Some (e, S idx), vals ++ [tplug c (O a [])], s2)
          end
      end.
  Proof.
    intros Wc Hf Hlen Hnth.
    cbn [run_cmds]. unfold run_cmd at 1. unfold bindM at 1.
    rewrite instance_conc_o by (auto; lia). unfold ret at 1.
    unfold run_cmd at 1. unfold val.
    rewrite app_nth1 by lia. rewrite Hnth.
    rewrite app_nth2 by lia. replace (S k - length vals) with 0 by lia.
    cbn [nth].
    unfold bindM at 1. rewrite (apply_step_o H W) by (auto; lia).
    unfold bindM at 1.
    match goal with |- context [match ?m s with MOk _ _ => _ | MEr _ _ => _ end] =>
      destruct (m s) as [[] s1|e s1]; [|reflexivity] end.
    match goal with |- context [match ?m s1 with MOk _ _ => _ | MEr _ _ => _ end] =>
      destruct (m s1) as [t s2|e s2]; reflexivity end.
  Qed.

  Lemma run_mixed_steps r d fuel v i :
    cbound d r -> d + 4 <= fuel ->
    forall cas st vals s idx k j0,
      Forall (okpair d) cas -> cas <> [] -> length vals = S k ->
      nth k vals (V 0) = fchain_m (map fst cas) r (V v) ->
      InvX s v i st -> xgood st -> idx = 2 * j0 + 1 ->
      match xrun st (pols cas) j0 with
      | inl st' => exists vals' s',
          run_cmds H fuel (mixed_steps cas k) idx vals s = (None, vals', s') /\
          FinalX r v i s' vals' st'
      | inr j => exists vals' s',
          run_cmds H fuel (mixed_steps cas k) idx vals s =
            (Some (ESubtypeMismatch, 2 * j + 2), vals', s')
      end.
  Proof.
    intros (Wr & Hr) Hf.
    induction cas as [|[c a] rest IH]; intros st vals s idx k j0 Hok Hne Hlen Hnth HInv HG Hidx;
      [congruence|].
    inversion Hok as [|? ? ((Wc & Hd) & Ua) Hok']; subst. cbn [fst snd] in Wc, Hd, Ua.
    unfold pols. cbn [map xrun fst snd]. fold (pols rest).
    assert (Hf4 : exists f, fuel - octx_depth c = S (S (S (S f))))
      by (exists (fuel - octx_depth c - 4); lia).
    destruct Hf4 as (f & Ef).
    cbn [mixed_steps]. cbn [map fst fchain_m] in Hnth.
    rewrite (run_step_eq fuel c a _ k _ vals s v (fchain_m (map fst rest) r (V v)) Wc) by (auto; lia).
    rewrite Ef.
    assert (Step : match xstep st (pol H c) a with
                   | Some st1 => exists s1,
                       (if pol H c
                        then unify H (S (S (S (S f)))) true false false (O a []) (V v)
                        else unify H (S (S (S (S f)))) true false false (V v) (O a [])) s
                       = MOk tt s1 /\ InvX s1 v i st1
                   | None => exists s1,
                       (if pol H c
                        then unify H (S (S (S (S f)))) true false false (O a []) (V v)
                        else unify H (S (S (S (S f)))) true false false (V v) (O a [])) s
                       = MEr ESubtypeMismatch s1
                   end).
    { destruct (pol H c); [now apply xstep_cov|now apply xstep_con]. }
    destruct (xstep st (pol H c) a) as [st1|] eqn:Ex.
    - destruct Step as (s1 & E1 & HInv1). rewrite E1.
      pose proof (xstep_good _ _ _ _ HG Ua Ex) as HG1.
      destruct rest as [|[c' a'] rest'].
      + cbn [map fchain_m pols xrun mixed_steps]. rewrite is_fun_tplug.
        unfold FinalX, final_bound.
        destruct (top_fun r) eqn:Etf; cbn [negb].
        * unfold ret. cbn [run_cmds]. do 2 eexists. split; [reflexivity|].
          rewrite last_last. destruct HInv1 as (Hv1 & Hcs1 & Hc1). split; [exact Hc1|].
          rewrite zonk_tplug. cbn [zonk]. f_equal. apply follow_oval. now rewrite Hc1.
        * rewrite (fix_octx_res r Wr) by lia.
          assert (Hf3 : exists f', fuel - octx_depth r = S (S (S f')))
            by (exists (fuel - octx_depth r - 3); lia).
          destruct Hf3 as (f' & Ef'). rewrite Ef'.
          assert (Epl : hole_pl r true = pol H r) by (unfold hole_pl; now destruct (pol H r)).
          rewrite Epl.
          destruct (fix_hole f' (pol H r) s1 v i st1 HInv1 HG1) as (s2 & E2 & Hv2 & Hcs2 & Hc2).
          rewrite E2. cbn [run_cmds]. do 2 eexists. split; [reflexivity|].
          rewrite last_last. split; [exact Hc2|].
          destruct r as [|o b r' a0].
          -- cbn [tplug]. apply zonk_oval. now rewrite Hc2.
          -- rewrite zonk_tplug. cbn [zonk]. f_equal. apply follow_oval. now rewrite Hc2.
      + cbn [map fst fchain_m is_fun negb Nat.eqb Function]. unfold ret.
        apply IH; auto; try discriminate; try lia.
        * rewrite !app_length. cbn [length]. lia.
        * rewrite app_nth2 by (rewrite app_length; cbn [length]; lia).
          rewrite app_length. cbn [length].
          replace (S (S k) - (length vals + 1)) with 0 by lia. reflexivity.
    - destruct Step as (s1 & E1). rewrite E1.
      do 2 eexists. f_equal. f_equal. f_equal. f_equal. lia.
  Qed.

  (* ------------------------------------------------------------------ *)
  (* whole programs                                                       *)

  Definition run_mixed (fuel : nat) (cas : list (octx * nat)) (r : octx) :=
    run_cmds H fuel (mixed_prog_p cas r) 0 [] (empty_store []).

  Lemma InvX_start : InvX (fresh_store (empty_store [])) 0 0 (XOpen None None).
  Proof. split; [|split]; reflexivity || (cbn; lia). Qed.

  Lemma xgood_start : xgood (XOpen None None).
  Proof. repeat split; intros; discriminate. Qed.

  Theorem mixed_compute d cas r fuel :
    cbound d r -> Forall (okpair d) cas -> cas <> [] -> d + length cas + 3 <= fuel ->
    match xrun (XOpen None None) (pols cas) 0 with
    | inl st => exists vals s, run_mixed fuel cas r = (None, vals, s) /\ FinalX r 0 0 s vals st
    | inr j => exists vals s,
        run_mixed fuel cas r = (Some (ESubtypeMismatch, 2 * j + 2), vals, s)
    end.
  Proof.
    intros Hr Hok Hne Hf.
    assert (Hn : 1 <= length cas) by (destruct cas; [congruence|cbn [length]; lia]).
    assert (E : run_mixed fuel cas r =
                run_cmds H fuel (mixed_steps cas 0) 1 [fchain_m (map fst cas) r (V 0)]
                         (fresh_store (empty_store []))).
    { unfold run_mixed, mixed_prog_p. cbn [run_cmds]. unfold run_cmd at 1. unfold bindM at 1.
      rewrite (instance_sig_m d); auto.
      - apply Forall_forall. intros c Hc. apply in_map_iff in Hc.
        destruct Hc as (ca & <- & Hca). rewrite Forall_forall in Hok. now apply Hok.
      - rewrite map_length. lia. }
    rewrite E.
    apply (run_mixed_steps r d fuel 0 0 Hr); auto; try lia.
    - apply InvX_start.
    - apply xgood_start.
  Qed.

  (* ---------- hypotheses and conclusions on (context, argument) pairs ---------- *)

  Definition ChainC (cas : list (octx * nat)) : Prop :=
    (forall c a, In (c, a) cas -> user a) /\
    (forall c a c' b, In (c, a) cas -> In (c', b) cas -> Anc H a b \/ Anc H b a).

  Definition CrossC (cas : list (octx * nat)) : Prop :=
    forall c a c' b, In (c, a) cas -> In (c', b) cas ->
      pol H c = true -> pol H c' = false -> Anc H a b.

  (* lo = the greatest argument supplied in covariant position (None: there is none) *)
  Definition IsLoC (cas : list (octx * nat)) (lo : option nat) : Prop :=
    match lo with
    | Some L => (exists c, In (c, L) cas /\ pol H c = true) /\
                (forall c a, In (c, a) cas -> pol H c = true -> Anc H a L)
    | None => forall c a, In (c, a) cas -> pol H c = false
    end.
  (* up = the least argument supplied in contravariant position *)
  Definition IsUpC (cas : list (octx * nat)) (up : option nat) : Prop :=
    match up with
    | Some U => (exists c, In (c, U) cas /\ pol H c = false) /\
                (forall c a, In (c, a) cas -> pol H c = false -> Anc H U a)
    | None => forall c a, In (c, a) cas -> pol H c = true
    end.

  Lemma in_pols p a cas : In (p, a) (pols cas) <-> exists c, In (c, a) cas /\ pol H c = p.
  Proof.
    unfold pols. rewrite in_map_iff. split.
    - intros ([c a'] & [= <- <-] & Hin). eauto.
    - intros (c & Hin & <-). exists (c, a). auto.
  Qed.

  Lemma Chain_pols cas : ChainC cas -> Chain (pols cas).
  Proof.
    intros (CU & CC). split.
    - intros p a Ha. apply in_pols in Ha. destruct Ha as (c & Hc & _). eauto.
    - intros p a q b Ha Hb. apply in_pols in Ha, Hb.
      destruct Ha as (c & Hc & _). destruct Hb as (c' & Hc' & _). eauto.
  Qed.

  Lemma CrossOk_pols cas : CrossOk (pols cas) <-> CrossC cas.
  Proof.
    split.
    - intros CO c a c' b Ha Hb Pa Pb. apply CO; apply in_pols; eauto.
    - intros CC a b Ha Hb. apply in_pols in Ha, Hb.
      destruct Ha as (c & Hc & Pc). destruct Hb as (c' & Hc' & Pc'). eauto.
  Qed.

  Lemma IsLo_pols cas lo : IsLo (pols cas) lo <-> IsLoC cas lo.
  Proof.
    destruct lo as [L|]; cbn [IsLo IsLoC].
    - rewrite in_pols. split; intros (I1 & U1); (split; [exact I1|]).
      + intros c a Ha Pa. apply U1. apply in_pols. eauto.
      + intros a Ha. apply in_pols in Ha. destruct Ha as (c & Hc & Pc). eauto.
    - split.
      + intros N c a Ha. destruct (pol H c) eqn:Pc; auto.
        destruct (N a). apply in_pols. eauto.
      + intros N a Ha. apply in_pols in Ha. destruct Ha as (c & Hc & Pc).
        rewrite (N _ _ Hc) in Pc. discriminate.
  Qed.

  Lemma IsUp_pols cas up : IsUp (pols cas) up <-> IsUpC cas up.
  Proof.
    destruct up as [U|]; cbn [IsUp IsUpC].
    - rewrite in_pols. split; intros (I1 & U1); (split; [exact I1|]).
      + intros c a Ha Pa. apply U1. apply in_pols. eauto.
      + intros a Ha. apply in_pols in Ha. destruct Ha as (c & Hc & Pc). eauto.
    - split.
      + intros N c a Ha. destruct (pol H c) eqn:Pc; auto.
        destruct (N a). apply in_pols. eauto.
      + intros N a Ha. apply in_pols in Ha. destruct Ha as (c & Hc & Pc).
        rewrite (N _ _ Hc) in Pc. discriminate.
  Qed.

  Lemma pols_firstn j cas : firstn j (pols cas) = pols (firstn j cas).
  Proof. unfold pols. apply firstn_map. Qed.

  Lemma In_firstn_in {A} (x : A) n l : In x (firstn n l) -> In x l.
  Proof. intros Hx. rewrite <- (firstn_skipn n l). apply in_or_app. now left. Qed.

  Lemma CrossC_firstn j cas : CrossC cas -> CrossC (firstn j cas).
  Proof. intros CC c a c' b Ha Hb. apply CC; eapply In_firstn_in; eauto. Qed.

  Definition okC (d : nat) (cas : list (octx * nat)) : Prop :=
    forall c a, In (c, a) cas -> wf_octx H c /\ octx_depth c + octx_sib c <= d /\ user a.

  Lemma okC_Forall d cas : okC d cas -> Forall (okpair d) cas.
  Proof.
    intros Hok. apply Forall_forall. intros [c a] Hin. destruct (Hok c a Hin) as (Wc & Hd & Ua).
    split; [split|]; assumption.
  Qed.

  Lemma okC_ChainC d cas :
    okC d cas ->
    (forall c a c' b, In (c, a) cas -> In (c', b) cas -> Anc H a b \/ Anc H b a) -> ChainC cas.
  Proof. intros Hok CC. split; auto. intros c a Hin. now destruct (Hok c a Hin) as (_ & _ & Ua). Qed.

  (* The central statement: the run either succeeds in the state that
     represents the arguments, or stops with SubtypeMismatch at the first
     argument that crosses an earlier one. *)
  Theorem mixed_run_spec d cas r fuel :
    cbound d r -> okC d cas -> ChainC cas -> cas <> [] -> d + length cas + 3 <= fuel ->
    (exists st vals s, Rep (pols cas) st /\ run_mixed fuel cas r = (None, vals, s) /\
                       FinalX r 0 0 s vals st) \/
    (exists j vals s, run_mixed fuel cas r = (Some (ESubtypeMismatch, 2 * j + 2), vals, s) /\
                      j < length cas /\ CrossC (firstn j cas) /\ ~ CrossC (firstn (S j) cas)).
  Proof.
    intros Hr Hok HC Hne Hf.
    pose proof (mixed_compute d cas r fuel Hr (okC_Forall _ _ Hok) Hne Hf) as Cp.
    assert (R0 : Rep [] (XOpen None None)).
    { cbn [Rep IsLo IsUp]. repeat split; auto; intros; discriminate. }
    pose proof (xrun_spec (pols cas) [] (XOpen None None) R0 (Chain_pols _ HC)) as Sp.
    cbn [app length] in Sp.
    destruct (xrun (XOpen None None) (pols cas) 0) as [st|j].
    - left. destruct Cp as (vals & s & E & F). exists st, vals, s. auto.
    - right. destruct Cp as (vals & s & E). destruct Sp as (Hj & C1 & C2).
      exists j, vals, s. split; [exact E|].
      unfold pols in Hj. rewrite map_length in Hj. split; [lia|].
      rewrite !pols_firstn, !CrossOk_pols in *. auto.
  Qed.

  (* the bounds meet *)
  Definition met (lo up : option nat) : option nat :=
    match lo, up with
    | Some l, Some u => if Nat.eqb l u then Some l else None
    | _, _ => None
    end.

  (* what the variable is bound to at the end, from the extremal arguments *)
  Definition fbound (r : octx) (lo up : option nat) : option nat :=
    if top_fun r then met lo up else if pol H r then lo else up.

  Lemma Rep_bounds l st lo up :
    Rep l st -> IsLo l lo -> IsUp l up ->
    xlo st = lo /\ xup st = up /\ xbound st = met lo up.
  Proof.
    intros R L U.
    pose proof (IsLo_unique _ _ _ (Rep_lo _ _ R) L) as E1.
    pose proof (IsUp_unique _ _ _ (Rep_up _ _ R) U) as E2.
    split; [exact E1|]. split; [exact E2|].
    destruct st as [lo0 up0|A]; cbn [xlo xup xbound Rep] in *; subst.
    - unfold met. destruct lo as [x|], up as [y|]; auto.
      destruct R as (_ & _ & Ord). destruct (Ord x y eq_refl eq_refl) as (_ & Ne).
      apply Nat.eqb_neq in Ne. now rewrite Ne.
    - unfold met. now rewrite Nat.eqb_refl.
  Qed.

  Lemma final_fbound r st lo up :
    xlo st = lo -> xup st = up -> xbound st = met lo up ->
    final_bound r st = fbound r lo up.
  Proof. intros <- <- E. unfold final_bound, fbound, xpick. now rewrite E. Qed.

  Lemma LU_cross cas lo up :
    IsLoC cas lo -> IsUpC cas up ->
    (CrossC cas <-> (forall L U, lo = Some L -> up = Some U -> Anc H L U)).
  Proof.
    intros L U. split.
    - intros CC x y -> ->. destruct L as ((c & Hc & Pc) & _). destruct U as ((c' & Hc' & Pc') & _).
      eapply CC; eauto.
    - intros Ord c a c' b Ha Hb Pa Pb.
      destruct lo as [x|]; cbn [IsLoC] in L; [|rewrite (L _ _ Ha) in Pa; discriminate].
      destruct up as [y|]; cbn [IsUpC] in U; [|rewrite (U _ _ Hb) in Pb; discriminate].
      destruct L as (_ & L). destruct U as (_ & U).
      apply Anc_trans with x; [eauto|]. apply Anc_trans with y; [now apply Ord|eauto].
  Qed.

  Lemma CrossC_firstn_inv j cas : ~ CrossC (firstn j cas) -> ~ CrossC cas.
  Proof. intros N CC. apply N. now apply CrossC_firstn. Qed.

  Section Stmts.
  Variables (d : nat) (cas : list (octx * nat)) (r : octx) (fuel : nat).
  Hypothesis Hr : cbound d r.
  Hypothesis Hok : okC d cas.
  Hypothesis HC : ChainC cas.
  Hypothesis Hne : cas <> [].
  Hypothesis Hf : d + length cas + 3 <= fuel.

  (* (i) success iff no covariant argument exceeds a contravariant one *)
  Theorem mixed_iff :
    (exists vals s, run_mixed fuel cas r = (None, vals, s)) <-> CrossC cas.
  Proof.
    destruct (mixed_run_spec d cas r fuel Hr Hok HC Hne Hf)
      as [(st & vals & s & R & E & F)|(j & vals & s & E & Hj & C1 & C2)].
    - split; [|eauto]. intros _. apply CrossOk_pols. eapply Rep_cross; eauto.
    - split.
      + intros (vals' & s' & E'). rewrite E in E'. discriminate.
      + intros CC. destruct (CrossC_firstn_inv _ _ C2 CC).
  Qed.

  Theorem mixed_iff_LU L U :
    IsLoC cas (Some L) -> IsUpC cas (Some U) ->
    ((exists vals s, run_mixed fuel cas r = (None, vals, s)) <-> Anc H L U).
  Proof.
    intros HL HU. rewrite mixed_iff, (LU_cross cas _ _ HL HU). split.
    - intros Ord. now apply Ord.
    - intros A x y [= <-] [= <-]. exact A.
  Qed.

  (* (i) failure: SubtypeMismatch at the application of the first argument that crosses *)
  Theorem mixed_fail :
    ~ CrossC cas ->
    exists j vals s,
      run_mixed fuel cas r = (Some (ESubtypeMismatch, 2 * j + 2), vals, s) /\
      j < length cas /\ CrossC (firstn j cas) /\ ~ CrossC (firstn (S j) cas).
  Proof.
    intros N.
    destruct (mixed_run_spec d cas r fuel Hr Hok HC Hne Hf)
      as [(st & vals & s & R & E & F)|(j & vals & s & E & Hj & C1 & C2)].
    - destruct N. apply CrossOk_pols. eapply Rep_cross; eauto.
    - exists j, vals, s. auto.
  Qed.

  (* (ii) on success: bounds, binding and result *)
  Theorem mixed_success lo up :
    IsLoC cas lo -> IsUpC cas up ->
    (forall L U, lo = Some L -> up = Some U -> Anc H L U) ->
    exists vals s,
      run_mixed fuel cas r = (None, vals, s) /\
      cell_of s 0 = mkCell false (obase (fbound r lo up)) lo up 0 /\
      zonk s (last vals (V 0)) = tplug r (oval (fbound r lo up) 0).
  Proof.
    intros HL HU Ord.
    assert (CC : CrossC cas) by now apply (LU_cross cas lo up HL HU).
    destruct (mixed_run_spec d cas r fuel Hr Hok HC Hne Hf)
      as [(st & vals & s & R & E & (F1 & F2))|(j & vals & s & E & Hj & C1 & C2)].
    - exists vals, s. split; [exact E|].
      apply IsLo_pols in HL. apply IsUp_pols in HU.
      destruct (Rep_bounds _ _ _ _ R HL HU) as (E1 & E2 & E3).
      rewrite (final_fbound r st lo up E1 E2 E3) in F1, F2. rewrite E1, E2 in F1. auto.
    - destruct (CrossC_firstn_inv _ _ C2 CC).
  Qed.
  End Stmts.

  (* (iii) permuting the (context, argument) pairs *)
  Theorem mixed_perm d cas cas' r fuel :
    cbound d r -> okC d cas -> ChainC cas -> cas <> [] -> d + length cas + 3 <= fuel ->
    Permutation cas cas' ->
    (exists vals s vals' s',
       run_mixed fuel cas r = (None, vals, s) /\ run_mixed fuel cas' r = (None, vals', s') /\
       cell_of s 0 = cell_of s' 0 /\
       zonk s (last vals (V 0)) = zonk s' (last vals' (V 0))) \/
    (exists j j' vals s vals' s',
       run_mixed fuel cas r = (Some (ESubtypeMismatch, 2 * j + 2), vals, s) /\
       run_mixed fuel cas' r = (Some (ESubtypeMismatch, 2 * j' + 2), vals', s')).
  Proof.
    intros Hr Hok HC Hne Hf P.
    assert (I : forall x, In x cas' -> In x cas).
    { intros x. apply Permutation_in. now apply Permutation_sym. }
    assert (Hok' : okC d cas') by (intros c a Hin; apply Hok; auto).
    assert (HC' : ChainC cas').
    { destruct HC as (CU & CC). split.
      - intros c a Hin. eapply CU; eauto.
      - intros c a c' b Ha Hb. eapply CC; eauto. }
    assert (Hne' : cas' <> []) by (intros ->; apply Permutation_sym, Permutation_nil in P; auto).
    assert (Hf' : d + length cas' + 3 <= fuel) by now rewrite <- (Permutation_length P).
    assert (PP : Permutation (pols cas) (pols cas')) by now apply Permutation_map.
    assert (CP : CrossC cas <-> CrossC cas').
    { split; intros CC c a c' b Ha Hb; apply CC; auto;
        eapply Permutation_in; eauto. }
    destruct (mixed_run_spec d cas r fuel Hr Hok HC Hne Hf)
      as [(st & vals & s & R & E & (F1 & F2))|(j & vals & s & E & Hj & C1 & C2)];
    destruct (mixed_run_spec d cas' r fuel Hr Hok' HC' Hne' Hf')
      as [(st' & vals' & s' & R' & E' & (F1' & F2'))|(j' & vals' & s' & E' & Hj' & C1' & C2')].
    - left. exists vals, s, vals', s'.
      pose proof (Rep_unique _ _ _ (Rep_perm _ _ _ PP R) R') as <-.
      repeat split; auto; congruence.
    - exfalso. apply (CrossC_firstn_inv _ _ C2'). apply CP.
      apply CrossOk_pols. eapply Rep_cross; eauto.
    - exfalso. apply (CrossC_firstn_inv _ _ C2). apply CP.
      apply CrossOk_pols. eapply Rep_cross; eauto.
    - right. exists j, j', vals, s, vals', s'. auto.
  Qed.

  (* ------------------------------------------------------------------ *)
  (* specialising arguments: c_i[a_i'] a subtype of c_i[a_i], i.e. a_i' below
     a_i in covariant and above a_i in contravariant position             *)

  Definition SpecArg (ca' ca : octx * nat) : Prop :=
    fst ca' = fst ca /\
    if pol H (fst ca) then Anc H (snd ca') (snd ca) else Anc H (snd ca) (snd ca').

  Lemma spec_in_l cas' cas c a' :
    Forall2 SpecArg cas' cas -> In (c, a') cas' ->
    exists a, In (c, a) cas /\ if pol H c then Anc H a' a else Anc H a a'.
  Proof.
    intros F Hin. destruct (Forall2_In_l _ _ _ _ F Hin) as ([c0 a] & Hin' & E & Ha).
    cbn [fst snd] in E, Ha. subst c0. eauto.
  Qed.

  Lemma spec_in_r cas' cas c a :
    Forall2 SpecArg cas' cas -> In (c, a) cas ->
    exists a', In (c, a') cas' /\ if pol H c then Anc H a' a else Anc H a a'.
  Proof.
    intros F Hin. destruct (Forall2_In_r _ _ _ _ F Hin) as ([c0 a'] & Hin' & E & Ha).
    cbn [fst snd] in E, Ha. subst c0. eauto.
  Qed.

  Lemma spec_cross cas' cas : Forall2 SpecArg cas' cas -> CrossC cas -> CrossC cas'.
  Proof.
    intros F CC c a' c2 b' Ha Hb Pa Pb.
    destruct (spec_in_l _ _ _ _ F Ha) as (a & Ia & Ra). rewrite Pa in Ra.
    destruct (spec_in_l _ _ _ _ F Hb) as (b & Ib & Rb). rewrite Pb in Rb.
    apply Anc_trans with a; auto. apply Anc_trans with b; auto. eapply CC; eauto.
  Qed.

  Lemma spec_lo cas' cas L lo' :
    Forall2 SpecArg cas' cas -> IsLoC cas (Some L) -> IsLoC cas' lo' ->
    exists L', lo' = Some L' /\ Anc H L' L.
  Proof.
    intros F ((c & Hc & Pc) & UL) L'.
    destruct (spec_in_r _ _ _ _ F Hc) as (a' & Ia' & Ra').
    destruct lo' as [x|]; cbn [IsLoC] in L'; [|rewrite (L' _ _ Ia') in Pc; discriminate].
    exists x. split; auto. destruct L' as ((c2 & Hc2 & Pc2) & _).
    destruct (spec_in_l _ _ _ _ F Hc2) as (a2 & Ia2 & Ra2). rewrite Pc2 in Ra2.
    apply Anc_trans with a2; eauto.
  Qed.

  Lemma spec_up cas' cas U up' :
    Forall2 SpecArg cas' cas -> IsUpC cas (Some U) -> IsUpC cas' up' ->
    exists U', up' = Some U' /\ Anc H U U'.
  Proof.
    intros F ((c & Hc & Pc) & UU) U'.
    destruct (spec_in_r _ _ _ _ F Hc) as (a' & Ia' & Ra').
    destruct up' as [x|]; cbn [IsUpC] in U'; [|rewrite (U' _ _ Ia') in Pc; discriminate].
    exists x. split; auto. destruct U' as ((c2 & Hc2 & Pc2) & _).
    destruct (spec_in_l _ _ _ _ F Hc2) as (a2 & Ia2 & Ra2). rewrite Pc2 in Ra2.
    apply Anc_trans with a2; eauto.
  Qed.

  Theorem mixed_mono d cas cas' r fuel :
    cbound d r -> okC d cas -> ChainC cas -> okC d cas' -> ChainC cas' -> cas <> [] ->
    d + length cas + 3 <= fuel -> Forall2 SpecArg cas' cas ->
    forall vals s, run_mixed fuel cas r = (None, vals, s) ->
    exists vals' s',
      run_mixed fuel cas' r = (None, vals', s') /\
      (forall L, c_lower (cell_of s 0) = Some L ->
         exists L', c_lower (cell_of s' 0) = Some L' /\ Anc H L' L) /\
      (forall U, c_upper (cell_of s 0) = Some U ->
         exists U', c_upper (cell_of s' 0) = Some U' /\ Anc H U U') /\
      (top_fun r = false -> forall M, c_bound (cell_of s 0) = Some (O M []) ->
         exists M', c_bound (cell_of s' 0) = Some (O M' []) /\
                    (if pol H r then Anc H M' M else Anc H M M') /\
                    zonk s (last vals (V 0)) = tplug r (O M []) /\
                    zonk s' (last vals' (V 0)) = tplug r (O M' [])).
  Proof.
    intros Hr Hok HC Hok' HC' Hne Hf F vals s E.
    assert (Hlen : length cas' = length cas) by (eapply Forall2_len; eauto).
    assert (Hne' : cas' <> []) by (intros ->; destruct cas; [congruence|discriminate]).
    assert (Hf' : d + length cas' + 3 <= fuel) by now rewrite Hlen.
    destruct (mixed_run_spec d cas r fuel Hr Hok HC Hne Hf)
      as [(st & vals0 & s0 & R & E0 & (F1 & F2))|(j & vals0 & s0 & E0 & _)];
      [|rewrite E in E0; discriminate].
    rewrite E in E0. injection E0 as <- <-.
    assert (CC : CrossC cas) by (apply CrossOk_pols; eapply Rep_cross; eauto).
    destruct (mixed_run_spec d cas' r fuel Hr Hok' HC' Hne' Hf')
      as [(st' & vals' & s' & R' & E' & (F1' & F2'))|(j & vals' & s' & _ & _ & _ & C2)];
      [|destruct (CrossC_firstn_inv _ _ C2 (spec_cross _ _ F CC))].
    exists vals', s'. split; [exact E'|].
    pose proof (proj1 (IsLo_pols _ _) (Rep_lo _ _ R)) as HL.
    pose proof (proj1 (IsUp_pols _ _) (Rep_up _ _ R)) as HU.
    pose proof (proj1 (IsLo_pols _ _) (Rep_lo _ _ R')) as HL'.
    pose proof (proj1 (IsUp_pols _ _) (Rep_up _ _ R')) as HU'.
    rewrite F1, F1'. cbn [c_lower c_upper c_bound].
    assert (ML : forall L, xlo st = Some L -> exists L', xlo st' = Some L' /\ Anc H L' L).
    { intros L EL. rewrite EL in HL. exact (spec_lo _ _ _ _ F HL HL'). }
    assert (MU : forall U, xup st = Some U -> exists U', xup st' = Some U' /\ Anc H U U').
    { intros U EU. rewrite EU in HU. exact (spec_up _ _ _ _ F HU HU'). }
    split; [exact ML|]. split; [exact MU|].
    intros Etf M EM. rewrite F2, F2'. unfold final_bound in *. rewrite Etf in *.
    assert (EP : xpick st (pol H r) = Some M).
    { destruct (xpick st (pol H r)); cbn [obase] in EM; congruence. }
    unfold xpick in *. destruct (pol H r).
    - destruct (ML M EP) as (M' & EM' & A). exists M'. rewrite EM', EP. cbn [obase oval]. auto.
    - destruct (MU M EP) as (M' & EM' & A). exists M'. rewrite EM', EP. cbn [obase oval]. auto.
  Qed.
End Mixed.

(* ---------------------------------------------------------------------- *)
(* the program on separate lists of contexts and arguments                  *)

Lemma mixed_prog_pairs (cas : list (octx * nat)) r :
  mixed_prog (map fst cas) r (map snd cas) = mixed_prog_p cas r.
Proof.
  unfold mixed_prog. f_equal. induction cas as [|[c a] rest IH]; cbn [map combine fst snd];
    [reflexivity|now rewrite IH].
Qed.

(* ---------------------------------------------------------------------- *)
(* spelled-out statements (no auxiliary predicates) exported by
   props/C05_mixed.v                                                        *)

Theorem mixed_success_stmt : forall H, wf_hier H ->
  forall (cas : list (octx * nat)) (r : octx) (d fuel : nat) (lo up : option nat),
  wf_octx H r -> octx_depth r + octx_sib r <= d ->
  (forall c a, In (c, a) cas ->
     wf_octx H c /\ octx_depth c + octx_sib c <= d /\
     variance H a = [] /\ a <> Top /\ a <> Bottom) ->
  (forall c a c' b, In (c, a) cas -> In (c', b) cas -> Anc H a b \/ Anc H b a) ->
  cas <> [] ->
  match lo with
  | Some L => (exists c, In (c, L) cas /\ pol H c = true) /\
              (forall c a, In (c, a) cas -> pol H c = true -> Anc H a L)
  | None => forall c a, In (c, a) cas -> pol H c = false
  end ->
  match up with
  | Some U => (exists c, In (c, U) cas /\ pol H c = false) /\
              (forall c a, In (c, a) cas -> pol H c = false -> Anc H U a)
  | None => forall c a, In (c, a) cas -> pol H c = true
  end ->
  (forall L U, lo = Some L -> up = Some U -> Anc H L U) ->
  d + length cas + 3 <= fuel ->
  exists vals s,
    run_cmds H fuel (mixed_prog_p cas r) 0 [] (empty_store []) = (None, vals, s) /\
    let fb := if top_fun r
              then match lo, up with
                   | Some l, Some u => if Nat.eqb l u then Some l else None
                   | _, _ => None
                   end
              else if pol H r then lo else up in
    cell_of s 0 = mkCell false (match fb with Some m => Some (O m []) | None => None end) lo up 0 /\
    zonk s (last vals (V 0)) = tplug r (match fb with Some m => O m [] | None => V 0 end).
Proof.
  intros H W cas r d fuel lo up Wr Hr Hok CC Hne HL HU Ord Hf.
  exact (mixed_success H W d cas r fuel (conj Wr Hr) Hok (okC_ChainC H d cas Hok CC) Hne Hf
                       lo up HL HU Ord).
Qed.

Theorem mixed_iff_stmt : forall H, wf_hier H ->
  forall (cas : list (octx * nat)) (r : octx) (d fuel : nat),
  wf_octx H r -> octx_depth r + octx_sib r <= d ->
  (forall c a, In (c, a) cas ->
     wf_octx H c /\ octx_depth c + octx_sib c <= d /\
     variance H a = [] /\ a <> Top /\ a <> Bottom) ->
  (forall c a c' b, In (c, a) cas -> In (c', b) cas -> Anc H a b \/ Anc H b a) ->
  cas <> [] ->
  d + length cas + 3 <= fuel ->
  ((exists vals s,
      run_cmds H fuel (mixed_prog_p cas r) 0 [] (empty_store []) = (None, vals, s)) <->
   (forall c a c' b, In (c, a) cas -> In (c', b) cas ->
      pol H c = true -> pol H c' = false -> Anc H a b)).
Proof.
  intros H W cas r d fuel Wr Hr Hok CC Hne Hf.
  exact (mixed_iff H W d cas r fuel (conj Wr Hr) Hok (okC_ChainC H d cas Hok CC) Hne Hf).
Qed.

Theorem mixed_iff_LU_stmt : forall H, wf_hier H ->
  forall (cas : list (octx * nat)) (r : octx) (d fuel L U : nat),
  wf_octx H r -> octx_depth r + octx_sib r <= d ->
  (forall c a, In (c, a) cas ->
     wf_octx H c /\ octx_depth c + octx_sib c <= d /\
     variance H a = [] /\ a <> Top /\ a <> Bottom) ->
  (forall c a c' b, In (c, a) cas -> In (c', b) cas -> Anc H a b \/ Anc H b a) ->
  cas <> [] ->
  d + length cas + 3 <= fuel ->
  (exists c, In (c, L) cas /\ pol H c = true) ->
  (forall c a, In (c, a) cas -> pol H c = true -> Anc H a L) ->
  (exists c, In (c, U) cas /\ pol H c = false) ->
  (forall c a, In (c, a) cas -> pol H c = false -> Anc H U a) ->
  ((exists vals s,
      run_cmds H fuel (mixed_prog_p cas r) 0 [] (empty_store []) = (None, vals, s)) <->
   Anc H L U).
Proof.
  intros H W cas r d fuel L U Wr Hr Hok CC Hne Hf L1 L2 U1 U2.
  exact (mixed_iff_LU H W d cas r fuel (conj Wr Hr) Hok (okC_ChainC H d cas Hok CC) Hne Hf
                      L U (conj L1 L2) (conj U1 U2)).
Qed.

Theorem mixed_fail_stmt : forall H, wf_hier H ->
  forall (cas : list (octx * nat)) (r : octx) (d fuel : nat),
  wf_octx H r -> octx_depth r + octx_sib r <= d ->
  (forall c a, In (c, a) cas ->
     wf_octx H c /\ octx_depth c + octx_sib c <= d /\
     variance H a = [] /\ a <> Top /\ a <> Bottom) ->
  (forall c a c' b, In (c, a) cas -> In (c', b) cas -> Anc H a b \/ Anc H b a) ->
  cas <> [] ->
  d + length cas + 3 <= fuel ->
  ~ (forall c a c' b, In (c, a) cas -> In (c', b) cas ->
       pol H c = true -> pol H c' = false -> Anc H a b) ->
  exists j vals s,
    run_cmds H fuel (mixed_prog_p cas r) 0 [] (empty_store [])
      = (Some (ESubtypeMismatch, 2 * j + 2), vals, s) /\
    j < length cas /\
    (forall c a c' b, In (c, a) (firstn j cas) -> In (c', b) (firstn j cas) ->
       pol H c = true -> pol H c' = false -> Anc H a b) /\
    ~ (forall c a c' b, In (c, a) (firstn (S j) cas) -> In (c', b) (firstn (S j) cas) ->
         pol H c = true -> pol H c' = false -> Anc H a b).
Proof.
  intros H W cas r d fuel Wr Hr Hok CC Hne Hf N.
  exact (mixed_fail H W d cas r fuel (conj Wr Hr) Hok (okC_ChainC H d cas Hok CC) Hne Hf N).
Qed.

Theorem mixed_perm_stmt : forall H, wf_hier H ->
  forall (cas cas' : list (octx * nat)) (r : octx) (d fuel : nat),
  wf_octx H r -> octx_depth r + octx_sib r <= d ->
  (forall c a, In (c, a) cas ->
     wf_octx H c /\ octx_depth c + octx_sib c <= d /\
     variance H a = [] /\ a <> Top /\ a <> Bottom) ->
  (forall c a c' b, In (c, a) cas -> In (c', b) cas -> Anc H a b \/ Anc H b a) ->
  cas <> [] ->
  d + length cas + 3 <= fuel ->
  Permutation cas cas' ->
  (exists vals s vals' s',
     run_cmds H fuel (mixed_prog_p cas r) 0 [] (empty_store []) = (None, vals, s) /\
     run_cmds H fuel (mixed_prog_p cas' r) 0 [] (empty_store []) = (None, vals', s') /\
     cell_of s 0 = cell_of s' 0 /\
     zonk s (last vals (V 0)) = zonk s' (last vals' (V 0))) \/
  (exists j j' vals s vals' s',
     run_cmds H fuel (mixed_prog_p cas r) 0 [] (empty_store [])
       = (Some (ESubtypeMismatch, 2 * j + 2), vals, s) /\
     run_cmds H fuel (mixed_prog_p cas' r) 0 [] (empty_store [])
       = (Some (ESubtypeMismatch, 2 * j' + 2), vals', s')).
Proof.
  intros H W cas cas' r d fuel Wr Hr Hok CC Hne Hf P.
  exact (mixed_perm H W d cas cas' r fuel (conj Wr Hr) Hok (okC_ChainC H d cas Hok CC) Hne Hf P).
Qed.

Theorem mixed_mono_stmt : forall H, wf_hier H ->
  forall (cas cas' : list (octx * nat)) (r : octx) (d fuel : nat),
  wf_octx H r -> octx_depth r + octx_sib r <= d ->
  (forall c a, In (c, a) cas ->
     wf_octx H c /\ octx_depth c + octx_sib c <= d /\
     variance H a = [] /\ a <> Top /\ a <> Bottom) ->
  (forall c a c' b, In (c, a) cas -> In (c', b) cas -> Anc H a b \/ Anc H b a) ->
  (forall c a, In (c, a) cas' ->
     wf_octx H c /\ octx_depth c + octx_sib c <= d /\
     variance H a = [] /\ a <> Top /\ a <> Bottom) ->
  (forall c a c' b, In (c, a) cas' -> In (c', b) cas' -> Anc H a b \/ Anc H b a) ->
  cas <> [] ->
  d + length cas + 3 <= fuel ->
  Forall2 (fun ca' ca => fst ca' = fst ca /\
             if pol H (fst ca) then Anc H (snd ca') (snd ca) else Anc H (snd ca) (snd ca'))
          cas' cas ->
  forall vals s,
  run_cmds H fuel (mixed_prog_p cas r) 0 [] (empty_store []) = (None, vals, s) ->
  exists vals' s',
    run_cmds H fuel (mixed_prog_p cas' r) 0 [] (empty_store []) = (None, vals', s') /\
    (forall L, c_lower (cell_of s 0) = Some L ->
       exists L', c_lower (cell_of s' 0) = Some L' /\ Anc H L' L) /\
    (forall U, c_upper (cell_of s 0) = Some U ->
       exists U', c_upper (cell_of s' 0) = Some U' /\ Anc H U U') /\
    (top_fun r = false -> forall M, c_bound (cell_of s 0) = Some (O M []) ->
       exists M', c_bound (cell_of s' 0) = Some (O M' []) /\
                  (if pol H r then Anc H M' M else Anc H M M') /\
                  zonk s (last vals (V 0)) = tplug r (O M []) /\
                  zonk s' (last vals' (V 0)) = tplug r (O M' [])).
Proof.
  intros H W cas cas' r d fuel Wr Hr Hok CC Hok' CC' Hne Hf F vals s E.
  exact (mixed_mono H W d cas cas' r fuel (conj Wr Hr) Hok (okC_ChainC H d cas Hok CC)
                    Hok' (okC_ChainC H d cas' Hok' CC') Hne Hf F vals s E).
Qed.
