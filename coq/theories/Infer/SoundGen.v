(* C03 (general constraints): forward soundness of the inference-engine model
   for programs whose schemas carry ARBITRARY subtype and elimination
   constraints: references and targets / alternatives are any well-scoped,
   arity-correct schematic types (variables, wildcards, compound and function
   types included).

   The main clause of C03 - every accepted application step has a witnessing
   instantiation under every grounding that satisfies the final store - does not
   depend on what the constraints SAY: fulfilling a constraint only ever calls
   match (a pure reader), fix_ty, unify and updates of the constraint record,
   and all of these only refine the store.  So the induction on fuel of
   Infer/Sound.v / Infer/SoundElimS.v is redone here with
     - a forward invariant [JG] = [Jv] (cells: bindings well-scoped and
       arity-correct, bounds proper base operators, lower <= upper) + [CWg]
       (every constraint object: reference and every alternative well-scoped
       and arity-correct, [tg]);
     - the postcondition [goodG s R s'] = JG s' /\ le s s' /\ fr s s' /\
       forall th, sat th s' -> R th  of Sound.v (no semantic clause about the
       constraints themselves);
     - unify specified for BOTH values of skip_basic (the subtype constraint
       calls unify(ref, target, subtype, skip_basic)): with skip_basic the
       postcondition is refinement only, without it also
       Sub (den th a) (den th b);
     - check_constraints, fulfill (both kinds) and minimize specified as
       "refines the store and keeps the invariant".
   Program class [progG]: CInst of any well-scoped schema, CApply, CUnify in
   subtype mode, CFix.  (CUnify with subtype=False is NOT sound for [le]: bind
   only rejects a base type that is STRICTLY on the wrong side of a bound, see
   the comment at [Sound.cmpb].) *)
From Coq Require Import List Arith Bool Lia Permutation.
Import ListNotations.
From TF Require Import Base.Hier Base.Ty Sub.SubSpec Infer.Store Infer.Engine Infer.Run
  Infer.Witness Infer.Check Infer.Sched Infer.Inv Infer.Sound Infer.SchedIndep Infer.SoundSub
  Infer.SoundElimS Infer.SoundElimK Infer.SoundElim Infer.ExprSound.
From TF Require Infer.Lub Infer.FitsEngineList.

Module FLg := TF.Infer.FitsEngineList.

Unset Implicit Arguments.

Section SoundG.
Variable H : hier.
Hypothesis W : wf_hier H.
Local Notation ole := (Lub.ole H).
Local Notation len s := (length (vars s)).
Local Notation tg := (Sound.tg H).
Local Notation sat := (Sound.sat H).
Local Notation le := (Sound.le H).
Local Notation fr := (Sound.fr H).
Local Notation bok := (Sound.bok H).
Local Notation lbo := (Sound.lbo H).
Local Notation ubo := (Sound.ubo H).
Local Notation inb := (Sound.inb H).
Local Notation cmpb := (Sound.cmpb H).
Local Notation osubF_true := (Sound.osubF_true H W).
Local Notation osubF_neg := (Sound.osubF_neg H W).
Local Notation ole_trans := (Sound.ole_trans H W).
Local Notation osubT_false_cmp := (Sound.osubT_false_cmp H W).
Local Notation osubT_true_ole := (Sound.osubT_true_ole H W).
Local Notation lbo_trans := (Sound.lbo_trans H W).
Local Notation ubo_trans := (Sound.ubo_trans H W).
Local Notation var_top := (SubSpec.var_top H W).
Local Notation var_bot := (SubSpec.var_bot H W).
Local Notation var_fun := (Sound.var_fun H W).

(* shape of a constraint object: reference and alternatives well-scoped and
   arity-correct - nothing else *)
Definition cwg (n : nat) (k : constr) : Prop :=
  tg n (k_ref k) /\ Forall (tg n) (k_alts k).

Definition CWg (s : store) : Prop := forall c, c < length (constrs s) -> cwg (len s) (constr_of s c).

Definition JG (s : store) : Prop := Jv H s /\ CWg s.

Lemma JG_sc s : JG s -> forall v t, c_bound (cell_of s v) = Some t -> tg (len s) t.
Proof. intros I. apply (proj1 (proj1 I)). Qed.

Lemma JG_b s : JG s -> forall v, bok (cell_of s v).
Proof. intros I. apply (proj2 (proj1 I)). Qed.

Lemma cwg_mono n m k : n <= m -> cwg n k -> cwg m k.
Proof.
  intros L (T & S). split; [eapply tg_mono; eauto|].
  eapply Forall_impl; [|exact S]. intros t. apply tg_mono. exact L.
Qed.

Lemma JG_semeq s s' : semeq s s' -> constrs s' = constrs s -> JG s -> JG s'.
Proof.
  intros [L C] Ek ((A & B) & Cw). split; [split|].
  - intros v t Hv. destruct (C v) as (Eb & _). rewrite Eb in Hv. rewrite L. eapply A; eauto.
  - intros v. destruct (C v) as (_ & El & Eu). pose proof (B v) as Bv.
    unfold Sound.bok in *. rewrite El, Eu. exact Bv.
  - intros c Lc. unfold constr_of. rewrite Ek, L. apply Cw. rewrite <- Ek. exact Lc.
Qed.

Lemma tg_followG_f s : JG s -> forall fuel t, tg (len s) t -> tg (len s) (follow_f fuel s t).
Proof.
  intros I. induction fuel as [|f IH]; intros [v|o args] Ht; cbn [follow_f]; auto.
  - destruct (c_bound (cell_of s v)); auto.
  - destruct (c_bound (cell_of s v)) as [t'|] eqn:Hv; auto. apply IH. eapply JG_sc; eauto.
Qed.

Lemma tg_follow s t : JG s -> tg (len s) t -> tg (len s) (follow s t).
Proof. intros I. apply tg_followG_f. exact I. Qed.

(* the standard postcondition: as Sound.good, with JG *)
Definition goodG (s : store) (R : (nat -> ty) -> Prop) (s' : store) : Prop :=
  JG s' /\ le s s' /\ fr s s' /\ forall th, sat th s' -> R th.

Lemma goodG_refl s (R : (nat -> ty) -> Prop) : JG s -> (forall th, sat th s -> R th) -> goodG s R s.
Proof. intros I HR. split; [auto|split; [apply le_refl|split; [apply fr_refl|auto]]]. Qed.

Lemma goodG_trans s s1 s2 (R1 R2 R : (nat -> ty) -> Prop) :
  goodG s R1 s1 -> goodG s1 R2 s2 ->
  (forall th, sat th s2 -> sat th s1 -> sat th s -> R1 th -> R2 th -> R th) -> goodG s R s2.
Proof.
  intros (I1 & L1 & F1 & H1) (I2 & L2 & F2 & H2) K.
  split; [auto|split; [eapply le_trans; eauto|split; [eapply fr_trans; eauto; apply L2|]]].
  intros th S2. pose proof (proj2 L2 th S2) as S1. pose proof (proj2 L1 th S1) as S0. apply K; auto.
Qed.

Lemma goodG_semeq s s' (R : (nat -> ty) -> Prop) :
  JG s -> semeq s s' -> constrs s' = constrs s -> (forall th, sat th s -> R th) -> goodG s R s'.
Proof.
  intros I E Ek HR.
  split; [eapply JG_semeq; eauto|split; [apply le_semeq; auto|split; [apply fr_semeq; auto|]]].
  intros th S. apply HR. eapply sat_semeq; eauto.
Qed.

Lemma goodG_weaken s s' (R1 R : (nat -> ty) -> Prop) :
  goodG s R1 s' -> (forall th, sat th s' -> R1 th -> R th) -> goodG s R s'.
Proof. intros (I & L & F & HR) K. split; [auto|split; [auto|split; [auto|]]]. intros th S. apply K; auto. Qed.

Lemma goodG_True s s' R : goodG s R s' -> goodG s (fun _ => True) s'.
Proof. intros G. eapply goodG_weaken; [exact G|auto]. Qed.

Lemma JG_set_cell s v c' : JG s -> bok c' ->
  (forall t, c_bound c' = Some t -> tg (len s) t) -> JG (set_cell s v c').
Proof.
  intros ((A & B) & Cw) Bc Ht. split; [split|].
  - intros w t. cbn [vars set_cell]. rewrite upd_length.
    destruct (cell_of_set_cell s v c' w) as [(E & -> & L)|E]; rewrite E; auto. apply A.
  - intros w. destruct (cell_of_set_cell s v c' w) as [(E & -> & L)|E]; rewrite E; auto.
  - intros c Lc. cbn [vars set_cell]. rewrite upd_length. apply Cw. exact Lc.
Qed.

Lemma forM_set_csG iv : forall vs s,
  tr (forM vs (fun w => set_cs w iv)) s (fun _ s' => semeq s s' /\ constrs s' = constrs s).
Proof.
  induction vs as [|w vs IH]; intros s; cbn [forM].
  - apply tr_ret. split; [apply semeq_refl|reflexivity].
  - unfold set_cs at 1. apply tr_upd_cell.
    eapply tr_conseq; [apply IH|]. cbv beta. intros _ s1 [E C]. split.
    + eapply semeq_trans; [|exact E]. apply semeq_set_cell. repeat split.
    + rewrite C. reflexivity.
Qed.

(* ------------------------------------------------------------------ *)
(* specifications                                                       *)
(* ------------------------------------------------------------------ *)
(* unify in subtype mode, with or without skip_basic *)
Definition spec_unify f := forall skb a b s, JG s -> tg (len s) a -> tg (len s) b ->
  tr (unify H f true skb false a b) s
     (fun _ s' => goodG s (fun th => skb = false -> Sub H (den th a) (den th b)) s').

Definition spec_bind f := forall v t s, JG s -> v < len s -> tg (len s) t ->
  (forall o args, t = O o args -> basic H o = true -> cmpb (cell_of s v) o) ->
  tr (bind H f v t) s (fun _ s' => goodG s (fun th => th v = den th t) s').

Definition spec_above f := forall v new s, JG s -> v < len s -> variance H new = [] -> new <> Bottom ->
  tr (above H f v new) s (fun _ s' => goodG s (fun th => lbo new (th v)) s').

Definition spec_below f := forall v new s, JG s -> v < len s -> variance H new = [] -> new <> Top ->
  tr (below H f v new) s (fun _ s' => goodG s (fun th => ubo new (th v)) s').

Definition spec_fix f := forall pl t s, JG s -> tg (len s) t ->
  tr (fix_ty H f pl t) s
     (fun r s' => tg (len s') r /\ goodG s (fun th => den th r = den th t) s').

Definition spec_cc f := forall v s, JG s ->
  tr (check_constraints H f v) s (fun _ s' => goodG s (fun _ => True) s').

Definition spec_fulfill f := forall c s, JG s ->
  tr (fulfill H f c) s (fun _ s' => goodG s (fun _ => True) s').

Definition spec_minimize f := forall c s, JG s ->
  tr (minimize H f c) s (fun _ s' => goodG s (fun _ => True) s').

Definition specs f := spec_unify f /\ spec_bind f /\ spec_above f /\ spec_below f /\ spec_fix f /\
  spec_cc f /\ spec_fulfill f /\ spec_minimize f.

Lemma specs_0 : specs 0.
Proof.
  unfold specs, spec_unify, spec_bind, spec_above, spec_below, spec_fix, spec_cc, spec_fulfill, spec_minimize.
  repeat apply conj; intros; intros ? ? E; inversion E.
Qed.

(* ---- bind ---- *)
Lemma bind_step f : spec_above f -> spec_below f -> spec_cc f -> spec_bind (S f).
Proof.
  intros Ab Be CC v t s I Lv Tt Cmp. rewrite bind_S. apply tr_gets.
  destruct (c_bound (cell_of s v)) eqn:Hb; [apply tr_fail|].
  unfold set_wild at 1. apply tr_upd_cell. rewrite Hb.
  set (c := cell_of s v) in *.
  set (s1 := set_cell s v (mkCell false None (c_lower c) (c_upper c) (c_cs c))).
  assert (E1 : semeq s s1). { apply semeq_set_cell. unfold cell_sem. cbn [c_bound c_lower c_upper]. fold c. rewrite Hb. auto. }
  assert (K1 : constrs s1 = constrs s) by reflexivity.
  assert (I1 : JG s1). { eapply JG_semeq; eauto. }
  assert (L1 : len s1 = len s) by apply E1.
  assert (C1 : cell_of s1 v = mkCell false None (c_lower c) (c_upper c) (c_cs c)).
  { unfold s1. rewrite cell_of_set_cell_same by exact Lv. reflexivity. }
  assert (BS : forall wld cs th, sat th (set_cell s1 v (mkCell wld (Some t) (c_lower c) (c_upper c) cs)) ->
               th v = den th t /\ (inb c (th v) -> sat th s)).
  { intros wld cs th S2. split.
    - apply sat_at_set_cell in S2; [exact S2|lia].
    - intros Hin. eapply sat_semeq; [exact E1|]. eapply sat_set_cell_back; [exact S2|].
      rewrite C1. cbn [c_bound]. exact Hin. }
  assert (IS : forall wld cs, JG (set_cell s1 v (mkCell wld (Some t) (c_lower c) (c_upper c) cs))).
  { intros wld cs. apply JG_set_cell; auto.
    - pose proof (JG_b s I v) as B. exact B.
    - cbn [c_bound]. intros t' [= <-]. rewrite L1. exact Tt. }
  assert (CS : forall wld cs, let s2 := set_cell s1 v (mkCell wld (Some t) (c_lower c) (c_upper c) cs) in
               (forall x, x <> v -> cell_sem (cell_of s x) (cell_of s2 x)) /\
               c_bound (cell_of s2 v) = Some t /\ c_lower (cell_of s2 v) = c_lower c /\
               c_upper (cell_of s2 v) = c_upper c).
  { intros wld cs s2. split; [|unfold s2; rewrite cell_of_set_cell_same by lia; cbn; auto].
    intros x Ne. unfold s2. rewrite cell_of_set_cell_other by exact Ne. apply (proj2 E1). }
  clearbody s1.
  destruct t as [w|o args].
  - destruct (Nat.eqb v w) eqn:Evw.
    + apply tr_ret. apply Nat.eqb_eq in Evw. subst w.
      apply goodG_semeq; auto.
    + apply Nat.eqb_neq in Evw. unfold set_bound. apply tr_upd_cell. rewrite C1. cbn [c_wild c_lower c_upper c_cs].
      set (s2 := set_cell s1 v (mkCell false (Some (V w)) (c_lower c) (c_upper c) (c_cs c))).
      specialize (BS false (c_cs c)). specialize (IS false (c_cs c)). fold s2 in BS, IS.
      specialize (CS false (c_cs c)). cbv zeta in CS. fold s2 in CS. destruct CS as (Cx & Cb & Clo & Cup).
      assert (L2 : len s2 = len s1) by (unfold s2; cbn; apply upd_length).
      assert (K2 : constrs s2 = constrs s) by (rewrite <- K1; reflexivity).
      clearbody s2.
      apply tr_modify.
      set (s3 := set_cset s2 _ _).
      assert (E3 : semeq s2 s3) by apply semeq_set_cset.
      assert (K3 : constrs s3 = constrs s) by (rewrite <- K2; reflexivity).
      clearbody s3. apply tr_gets. unfold set_cs. apply tr_upd_cell.
      set (s4 := set_cell s3 v _).
      assert (E4 : semeq s3 s4) by (apply semeq_set_cell; repeat split).
      assert (K4 : constrs s4 = constrs s) by (rewrite <- K3; reflexivity).
      clearbody s4. unfold set_wild. apply tr_upd_cell.
      set (s5 := set_cell s4 w _).
      assert (E5 : semeq s4 s5) by (apply semeq_set_cell; repeat split).
      assert (K5 : constrs s5 = constrs s) by (rewrite <- K4; reflexivity).
      clearbody s5.
      assert (E25 : semeq s2 s5) by (eapply semeq_trans; [exact E3|eapply semeq_trans; eauto]).
      assert (I5 : JG s5) by (eapply JG_semeq; [exact E25|congruence|exact IS]).
      assert (L5 : len s5 = len s) by (destruct E25 as [L _]; lia).
      assert (Lw : w < len s) by (inversion Tt; auto).
      pose proof (JG_b s I v) as (Bl & Bu & _). fold c in Bl, Bu.
      eapply tr_bind with (Q1 := fun _ s6 => goodG s5 (fun th => forall l, c_lower c = Some l -> lbo l (th w)) s6).
      { destruct (c_lower c) as [l|] eqn:El.
        - destruct (Bl l eq_refl) as (Vl & NB & _).
          eapply tr_conseq; [apply Ab; auto; lia|]. cbv beta. intros _ s6 G.
          eapply goodG_weaken; [exact G|]. intros th _ Hl l' [= <-]. exact Hl.
        - apply tr_ret. apply goodG_refl; auto. intros th _ l' [=]. }
      intros _ s6 G6.
      eapply tr_bind with (Q1 := fun _ s7 => goodG s6 (fun th => forall u, c_upper c = Some u -> ubo u (th w)) s7).
      { destruct G6 as (I6 & [L6 _] & _). destruct (c_upper c) as [u|] eqn:Eu.
        - destruct (Bu u eq_refl) as (Vu & NT & _).
          eapply tr_conseq; [apply Be; auto; lia|]. cbv beta. intros _ s7 G.
          eapply goodG_weaken; [exact G|]. intros th _ Hu u' [= <-]. exact Hu.
        - apply tr_ret. apply goodG_refl; auto. intros th _ u' [=]. }
      intros _ s7 G7.
      eapply tr_conseq; [apply CC; apply G7|]. cbv beta. intros _ s8 G8.
      pose proof (goodG_trans _ _ _ _ _ (fun th => (forall l, c_lower c = Some l -> lbo l (th w)) /\
                                               (forall u, c_upper c = Some u -> ubo u (th w)))
                             G6 G7) as G57.
      assert (G58 : goodG s5 (fun th => (forall l, c_lower c = Some l -> lbo l (th w)) /\
                                        (forall u, c_upper c = Some u -> ubo u (th w))) s8).
      { eapply goodG_trans; [apply G57; intros; split; assumption|exact G8|]. cbv beta. intros; assumption. }
      clear G57. destruct G58 as (I7 & [L7 M7] & F57 & R7).
      assert (M07 : forall th, sat th s8 -> sat th s).
      { intros th S7. pose proof (M7 th S7) as S5. destruct (R7 th S7) as [Rl Ru].
        assert (S2 : sat th s2) by (eapply sat_semeq; eauto).
        destruct (BS th S2) as [Ev Back]. apply Back. cbn [den] in Ev. rewrite Ev.
        split; assumption. }
      split; [exact I7|split; [split; [lia|exact M07]|split]].
      * apply (fr_bind H s s2 s5 s8 v (V w) Hb Cx Cb Clo Cup E25 F57 M07).
      * intros th S7. pose proof (M7 th S7) as S5.
        assert (S2 : sat th s2) by (eapply sat_semeq; eauto).
        destruct (BS th S2) as [Ev _]. exact Ev.
  - unfold set_bound. apply tr_upd_cell. rewrite C1. cbn [c_wild c_lower c_upper c_cs].
    set (s2 := set_cell s1 v (mkCell false (Some (O o args)) (c_lower c) (c_upper c) (c_cs c))).
    specialize (BS false (c_cs c)). specialize (IS false (c_cs c)). fold s2 in BS, IS.
    specialize (CS false (c_cs c)). cbv zeta in CS. fold s2 in CS. destruct CS as (Cx & Cb & Clo & Cup).
    assert (L2 : len s2 = len s1) by (unfold s2; cbn; apply upd_length).
    assert (K2 : constrs s2 = constrs s) by (rewrite <- K1; reflexivity).
    clearbody s2.
    eapply tr_bind with (Q1 := fun _ s3 => JG s3 /\ semeq s2 s3 /\ constrs s3 = constrs s /\
                                           forall th, inb c (den th (O o args))).
    + destruct (basic H o) eqn:Eb.
      * destruct (Cmp o args eq_refl Eb) as [Cl Cu]. fold c in Cl, Cu.
        destruct (match c_lower c with Some l => osub H true o l | None => false end) eqn:Kl; [apply tr_fail|].
        destruct (match c_upper c with Some u => osub H true u o | None => false end) eqn:Ku; [apply tr_fail|].
        apply tr_ret. split; [exact IS|split; [apply semeq_refl|split; [exact K2|]]]. intros th.
        inversion Tt as [|? ? La _]; subst. rewrite (basic_var H o Eb) in La.
        destruct args; [|discriminate]. cbn [den map]. split.
        -- intros l El. rewrite El in Kl. exists o. split; [reflexivity|].
           apply osubT_false_cmp; auto.
        -- intros u Eu. rewrite Eu in Ku. exists o. split; [reflexivity|].
           destruct (Cu u Eu) as [C|C]; [|exact C].
           apply osubT_false_cmp; auto.
      * destruct (c_lower c) eqn:El; [apply tr_fail|].
        destruct (c_upper c) eqn:Eu; [apply tr_fail|].
        apply tr_lift. intros vs _. apply tr_modify.
        set (s3 := set_cset s2 _ _).
        assert (E3 : semeq s2 s3) by apply semeq_set_cset.
        assert (K3 : constrs s3 = constrs s) by (rewrite <- K2; reflexivity).
        clearbody s3. apply tr_gets.
        eapply tr_conseq; [apply forM_set_csE|]. cbv beta. intros _ s4 [E4 C4].
        assert (E24 : semeq s2 s4) by (eapply semeq_trans; eauto).
        split; [eapply JG_semeq; [exact E24|congruence|exact IS]|].
        split; [exact E24|split; [congruence|]]. intros th. split; intros x Hx; congruence.
    + intros _ s3 (I3 & E23 & K3 & Hin).
      eapply tr_conseq; [apply CC; exact I3|]. cbv beta. intros _ s4 G4.
      destruct G4 as (I4 & [L4 M4] & F4 & _).
      assert (M03 : forall th, sat th s4 -> sat th s).
      { intros th S4. pose proof (M4 th S4) as S3. assert (S2 : sat th s2) by (eapply sat_semeq; eauto).
        destruct (BS th S2) as [Ev Back]. apply Back. rewrite Ev. apply Hin. }
      split; [exact I4|split; [split; [destruct E23 as [L _]; lia|exact M03]|split]].
      * apply (fr_bind H s s2 s3 s4 v (O o args) Hb Cx Cb Clo Cup E23 F4 M03).
      * intros th S4. pose proof (M4 th S4) as S3. assert (S2 : sat th s2) by (eapply sat_semeq; eauto).
        destruct (BS th S2) as [Ev _]. exact Ev.
Qed.

(* ---- above ---- *)
Lemma set_lower_good f v new s : spec_cc f -> JG s -> v < len s ->
  variance H new = [] -> new <> Bottom -> new <> Top -> c_bound (cell_of s v) = None ->
  (forall l, c_lower (cell_of s v) = Some l -> ole l new) ->
  (forall u, c_upper (cell_of s v) = Some u -> ole new u) ->
  tr (set_lower v (Some new) ;;; check_constraints H f v) s
     (fun _ s' => goodG s (fun th => lbo new (th v)) s').
Proof.
  intros CC I Lv Vn NB NT Hb Hl Hu. unfold set_lower. apply tr_upd_cell.
  set (c := cell_of s v) in *. rewrite Hb.
  set (s1 := set_cell s v _).
  assert (I1 : JG s1).
  { apply JG_set_cell; auto; [|cbn; discriminate].
    pose proof (JG_b s I v) as (Bl & Bu & Bc). fold c in Bl, Bu, Bc.
    split; [|split]; cbn [c_lower c_upper].
    - intros l [= <-]. auto.
    - exact Bu.
    - intros l u [= <-] Eu. auto. }
  assert (K : forall th, sat th s1 -> lbo new (th v)).
  { intros th S1. apply sat_at_set_cell in S1; [|exact Lv]. cbn [c_bound] in S1.
    destruct S1 as [Sl _]. apply Sl. reflexivity. }
  assert (G1 : goodG s (fun th => lbo new (th v)) s1).
  { split; [exact I1|split; [split|split; [apply fr_set_cell_unb; auto|exact K]]].
    - unfold s1; cbn; rewrite upd_length; lia.
    - intros th S1. eapply sat_set_cell_back; [exact S1|]. fold c. rewrite Hb.
      pose proof (K th S1) as Kl. apply sat_at_set_cell in S1; [|exact Lv]. cbn [c_bound] in S1.
      destruct S1 as [_ Su]. split.
      + intros l El. eapply lbo_trans; [apply Hl; exact El|exact Kl].
      + exact Su. }
  eapply tr_conseq; [apply CC; exact I1|]. cbv beta. intros _ s' G.
  eapply goodG_trans; [exact G1|exact G|]. cbv beta. auto.
Qed.

Lemma keep_lower_good v new l s : JG s -> c_bound (cell_of s v) = None ->
  c_lower (cell_of s v) = Some l -> osub H true new l = true ->
  goodG s (fun th => lbo new (th v)) s.
Proof.
  intros I Hb El Eo. apply goodG_refl; auto. intros th S.
  destruct (S v) as [_ Sv]. rewrite Hb in Sv. destruct Sv as [Sl _].
  eapply lbo_trans; [|apply Sl; exact El]. apply osubT_true_ole. exact Eo.
Qed.

Lemma above_step f : spec_unify f -> spec_bind f -> spec_cc f -> spec_above (S f).
Proof.
  intros U B CC v new s I Lv Vn NB. rewrite above_S.
  destruct (Nat.eqb new Top) eqn:Et.
  - apply Nat.eqb_eq in Et. subst new.
    eapply tr_conseq; [apply B; auto|].
    + apply tg_O0. exact Vn.
    + intros o args [= <- <-] _. split; intros x _; left; apply ole_top.
    + cbv beta. intros _ s' G. eapply goodG_weaken; [exact G|]. intros th _ E. cbn in E.
      exists Top. split; [exact E|apply ole_refl].
  - apply Nat.eqb_neq in Et. unfold set_wild. apply tr_upd_cell.
    set (c := cell_of s v).
    set (s1 := set_cell s v _).
    assert (E1 : semeq s s1). { apply semeq_set_cell. unfold cell_sem. cbn. auto. }
    assert (I1 : JG s1). { eapply JG_semeq; [exact E1|reflexivity|exact I]. }
    assert (L1 : len s1 = len s) by apply E1.
    assert (G01 : goodG s (fun _ => True) s1) by (apply goodG_semeq; auto).
    clearbody s1. apply tr_gets.
    destruct (c_bound (cell_of s1 v)) as [t|] eqn:Hb.
    + eapply tr_conseq; [apply U; auto|].
      * apply tg_O0. exact Vn.
      * eapply JG_sc; eauto.
      * cbv beta. intros _ s' G. eapply goodG_trans; [exact G01|exact G|]. cbv beta.
        intros th _ S1 _ _ Sb. cbn [den map] in Sb.
        destruct (S1 v) as [_ Sv]. rewrite Hb in Sv. rewrite Sv.
        apply Sub_lbo; auto.
    + eapply tr_bind with (Q1 := fun _ s2 => goodG s1 (fun th => lbo new (th v)) s2).
      * pose proof (set_lower_good f v new s1 CC I1) as SL.
        pose proof (keep_lower_good v new) as KL.
        destruct (c_upper (cell_of s1 v)) as [u|] eqn:Eu; destruct (c_lower (cell_of s1 v)) as [l|] eqn:El;
          repeat match goal with |- tr (if ?c then _ else _) _ _ => destruct c eqn:? end;
          try apply tr_fail; try (apply tr_ret; eapply KL; eauto; fail);
          apply SL; auto; try lia; try (intros x [= <-]); try (intros x [=]);
          try (apply osubF_true; assumption); try (apply osubF_neg; assumption).
      * intros _ s2 G2. apply tr_gets. pose proof G2 as (I2 & [L2 M2] & _).
        assert (Gret : goodG s (fun th => lbo new (th v)) s2).
        { eapply goodG_trans; [exact G01|exact G2|]. cbv beta. auto. }
        destruct (c_bound (cell_of s2 v)) eqn:Hb2; [apply tr_ret; exact Gret|].
        destruct (c_lower (cell_of s2 v)) as [l|] eqn:El2; [|apply tr_ret; exact Gret].
        destruct (c_upper (cell_of s2 v)) as [u|] eqn:Eu2; [|apply tr_ret; exact Gret].
        destruct (Nat.eqb l u) eqn:Elu; [|apply tr_ret; exact Gret].
        apply Nat.eqb_eq in Elu. subst u.
        pose proof (JG_b s2 I2 v) as (Bl & _). destruct (Bl l El2) as (Vl & _).
        eapply tr_conseq; [apply B; auto; try lia|].
        -- apply tg_O0. exact Vl.
        -- intros o args [= <- <-] _. split; intros x Ex; left.
           ++ rewrite El2 in Ex. injection Ex as <-. apply ole_refl.
           ++ rewrite Eu2 in Ex. injection Ex as <-. apply ole_refl.
        -- cbv beta. intros _ s' G. eapply goodG_trans; [exact Gret|exact G|]. cbv beta. auto.
Qed.

(* ---- below ---- *)
Lemma set_upper_good f v new s : spec_cc f -> JG s -> v < len s ->
  variance H new = [] -> new <> Top -> new <> Bottom -> c_bound (cell_of s v) = None ->
  (forall l, c_lower (cell_of s v) = Some l -> ole l new) ->
  (forall u, c_upper (cell_of s v) = Some u -> ole new u) ->
  tr (set_upper v (Some new) ;;; check_constraints H f v) s
     (fun _ s' => goodG s (fun th => ubo new (th v)) s').
Proof.
  intros CC I Lv Vn NT NB Hb Hl Hu. unfold set_upper. apply tr_upd_cell.
  set (c := cell_of s v) in *. rewrite Hb.
  set (s1 := set_cell s v _).
  assert (I1 : JG s1).
  { apply JG_set_cell; auto; [|cbn; discriminate].
    pose proof (JG_b s I v) as (Bl & Bu & Bc). fold c in Bl, Bu, Bc.
    split; [|split]; cbn [c_lower c_upper].
    - exact Bl.
    - intros u [= <-]. auto.
    - intros l u El [= <-]. auto. }
  assert (K : forall th, sat th s1 -> ubo new (th v)).
  { intros th S1. apply sat_at_set_cell in S1; [|exact Lv]. cbn [c_bound] in S1.
    destruct S1 as [_ Su]. apply Su. reflexivity. }
  assert (G1 : goodG s (fun th => ubo new (th v)) s1).
  { split; [exact I1|split; [split|split; [apply fr_set_cell_unb; auto|exact K]]].
    - unfold s1; cbn; rewrite upd_length; lia.
    - intros th S1. eapply sat_set_cell_back; [exact S1|]. fold c. rewrite Hb.
      pose proof (K th S1) as Ku. apply sat_at_set_cell in S1; [|exact Lv]. cbn [c_bound] in S1.
      destruct S1 as [Sl _]. split.
      + exact Sl.
      + intros u Eu. eapply ubo_trans; [apply Hu; exact Eu|exact Ku]. }
  eapply tr_conseq; [apply CC; exact I1|]. cbv beta. intros _ s' G.
  eapply goodG_trans; [exact G1|exact G|]. cbv beta. auto.
Qed.

Lemma keep_upper_good v new u s : JG s -> c_bound (cell_of s v) = None ->
  c_upper (cell_of s v) = Some u -> osub H true u new = true ->
  goodG s (fun th => ubo new (th v)) s.
Proof.
  intros I Hb Eu Eo. apply goodG_refl; auto. intros th S.
  destruct (S v) as [_ Sv]. rewrite Hb in Sv. destruct Sv as [_ Su].
  eapply ubo_trans; [|apply Su; exact Eu]. apply osubT_true_ole. exact Eo.
Qed.

Lemma below_step f : spec_unify f -> spec_bind f -> spec_cc f -> spec_below (S f).
Proof.
  intros U B CC v new s I Lv Vn NT. rewrite below_S.
  destruct (Nat.eqb new Bottom) eqn:Et.
  - apply Nat.eqb_eq in Et. subst new.
    eapply tr_conseq; [apply B; auto|].
    + apply tg_O0. exact Vn.
    + intros o args [= <- <-] _. split; intros x _; right; apply ole_bot.
    + cbv beta. intros _ s' G. eapply goodG_weaken; [exact G|]. intros th _ E. cbn in E.
      exists Bottom. split; [exact E|apply ole_refl].
  - apply Nat.eqb_neq in Et. unfold set_wild. apply tr_upd_cell.
    set (c := cell_of s v).
    set (s1 := set_cell s v _).
    assert (E1 : semeq s s1). { apply semeq_set_cell. unfold cell_sem. cbn. auto. }
    assert (I1 : JG s1). { eapply JG_semeq; [exact E1|reflexivity|exact I]. }
    assert (L1 : len s1 = len s) by apply E1.
    assert (G01 : goodG s (fun _ => True) s1) by (apply goodG_semeq; auto).
    clearbody s1. apply tr_gets.
    destruct (c_bound (cell_of s1 v)) as [t|] eqn:Hb.
    + eapply tr_conseq; [apply U; auto|].
      * eapply JG_sc; eauto.
      * apply tg_O0. exact Vn.
      * cbv beta. intros _ s' G. eapply goodG_trans; [exact G01|exact G|]. cbv beta.
        intros th _ S1 _ _ Sb. cbn [den map] in Sb.
        destruct (S1 v) as [_ Sv]. rewrite Hb in Sv. rewrite Sv.
        apply Sub_ubo; auto.
    + eapply tr_bind with (Q1 := fun _ s2 => goodG s1 (fun th => ubo new (th v)) s2).
      * pose proof (set_upper_good f v new s1 CC I1) as SL.
        pose proof (keep_upper_good v new) as KL.
        destruct (c_lower (cell_of s1 v)) as [l|] eqn:El; destruct (c_upper (cell_of s1 v)) as [u|] eqn:Eu;
          repeat match goal with |- tr (if ?c then _ else _) _ _ => destruct c eqn:? end;
          try apply tr_fail; try (apply tr_ret; eapply KL; eauto; fail);
          apply SL; auto; try lia; try (intros x [= <-]); try (intros x [=]);
          try (apply osubF_true; assumption); try (apply osubF_neg; assumption).
      * intros _ s2 G2. apply tr_gets. pose proof G2 as (I2 & [L2 M2] & _).
        assert (Gret : goodG s (fun th => ubo new (th v)) s2).
        { eapply goodG_trans; [exact G01|exact G2|]. cbv beta. auto. }
        destruct (c_bound (cell_of s2 v)) eqn:Hb2; [apply tr_ret; exact Gret|].
        destruct (c_upper (cell_of s2 v)) as [u|] eqn:Eu2; [|apply tr_ret; exact Gret].
        destruct (c_lower (cell_of s2 v)) as [l|] eqn:El2; [|apply tr_ret; exact Gret].
        destruct (Nat.eqb u l) eqn:Elu; [|apply tr_ret; exact Gret].
        apply Nat.eqb_eq in Elu. subst l.
        pose proof (JG_b s2 I2 v) as (_ & Bu & _). destruct (Bu u Eu2) as (Vu & _).
        eapply tr_conseq; [apply B; auto; try lia|].
        -- apply tg_O0. exact Vu.
        -- intros o args [= <- <-] _. split; intros x Ex; left.
           ++ rewrite El2 in Ex. injection Ex as <-. apply ole_refl.
           ++ rewrite Eu2 in Ex. injection Ex as <-. apply ole_refl.
        -- cbv beta. intros _ s' G. eapply goodG_trans; [exact Gret|exact G|]. cbv beta. auto.
Qed.

(* ---- fix_ty ---- *)
Lemma fix_args f pl : spec_fix f -> forall ps vs s, JG s -> Forall (tg (len s)) ps ->
  tr ((fix go (vs : list bool) (ps : list tyv) : M unit :=
         match vs, ps with
         | v :: vs', p :: ps' =>
             fix_ty H f (if v then pl else negb pl) p ;;; go vs' ps'
         | _, _ => ret tt
         end) vs ps) s (fun _ s' => goodG s (fun _ => True) s').
Proof.
  intros Fx. induction ps as [|p ps IH]; intros vs s I Fp; destruct vs as [|b vs];
    try (apply tr_ret; apply goodG_refl; auto).
  inversion Fp as [|? ? Tp Fp']; subst.
  eapply tr_bind; [apply Fx; auto|]. cbv beta. intros r s1 (_ & G1).
  pose proof G1 as (I1 & [L1 M1] & _).
  eapply tr_conseq; [apply IH; auto; eapply Forall_tg_mono; eauto|].
  cbv beta. intros _ s2 G2.
  eapply goodG_trans; [exact G1|exact G2|auto].
Qed.

Lemma fix_step f : spec_bind f -> spec_fix f -> spec_fix (S f).
Proof.
  intros B Fx pl t s I Tt. rewrite fix_ty_S. apply tr_gets.
  pose proof (tg_follow s t I Tt) as Ta.
  assert (Da : forall th, sat th s -> den th (follow s t) = den th t) by (intros; apply (den_follow H); auto).
  set (a := follow s t) in *. clearbody a.
  eapply tr_bind with (Q1 := fun _ s1 => goodG s (fun _ => True) s1).
  - destruct a as [v|o args].
    + apply tr_gets. assert (Lv : v < len s) by (inversion Ta; auto).
      pose proof (JG_b s I v) as (Bl & Bu & Bc).
      destruct pl.
      * destruct (c_lower (cell_of s v)) as [l|] eqn:El; [|apply tr_ret; apply goodG_refl; auto].
        destruct (Bl l eq_refl) as (Vl & _).
        eapply tr_conseq; [apply B; auto|].
        -- apply tg_O0. exact Vl.
        -- intros o args [= <- <-] _. split; intros x Ex.
           ++ rewrite El in Ex. injection Ex as <-. left. apply ole_refl.
           ++ right. apply Bc; auto.
        -- cbv beta. intros _ s1 G. eapply goodG_weaken; [exact G|auto].
      * destruct (c_upper (cell_of s v)) as [u|] eqn:Eu; [|apply tr_ret; apply goodG_refl; auto].
        destruct (Bu u eq_refl) as (Vu & _).
        eapply tr_conseq; [apply B; auto|].
        -- apply tg_O0. exact Vu.
        -- intros o args [= <- <-] _. split; intros x Ex.
           ++ left. apply Bc; auto.
           ++ rewrite Eu in Ex. injection Ex as <-. left. apply ole_refl.
        -- cbv beta. intros _ s1 G. eapply goodG_weaken; [exact G|auto].
    + apply fix_args; auto. apply (tg_args H _ _ _ Ta).
  - intros _ s1 G1. apply tr_gets_end. pose proof G1 as (I1 & [L1 M1] & F1 & _).
    split.
    + apply tg_follow; auto. eapply tg_mono; eauto.
    + split; [auto|split; [split; auto|split; [auto|]]]. intros th S1.
      rewrite (den_follow H) by exact S1. apply Da. auto.
Qed.

(* ---- unify ---- *)
Lemma unify_args f skb : spec_unify f -> forall vs xs ys s, JG s ->
  Forall (tg (len s)) xs -> Forall (tg (len s)) ys -> length xs = length vs -> length ys = length vs ->
  tr ((fix go (vs : list bool) (xs ys : list tyv) : M unit :=
         match vs, xs, ys with
         | v :: vs', x :: xs', y :: ys' =>
             (if v then unify H f true skb false x y else unify H f true skb false y x) ;;;
             go vs' xs' ys'
         | _, _, _ => ret tt
         end) vs xs ys) s
     (fun _ s' => goodG s (fun th => skb = false -> ArgsRel (Sub H) vs (map (den th) xs) (map (den th) ys)) s').
Proof.
  intros U. induction vs as [|v vs IH]; intros xs ys s I Fx Fy Lx Ly.
  - destruct xs; [|discriminate]. destruct ys; [|discriminate].
    apply tr_ret. apply goodG_refl; auto. intros th _ _. constructor.
  - destruct xs as [|x xs]; [discriminate|]. destruct ys as [|y ys]; [discriminate|].
    inversion Fx as [|? ? Tx Fx']; subst. inversion Fy as [|? ? Ty Fy']; subst.
    eapply tr_bind with (Q1 := fun _ s1 => goodG s (fun th => skb = false -> if v then Sub H (den th x) (den th y)
                                                         else Sub H (den th y) (den th x)) s1).
    + destruct v; apply U; auto.
    + intros _ s1 G1. pose proof G1 as (I1 & [L1 M1] & R1).
      eapply tr_conseq; [apply IH; auto; try (eapply Forall_tg_mono; eauto); cbn in *; lia|].
      cbv beta. intros _ s2 G2. eapply goodG_trans; [exact G1|exact G2|]. cbv beta.
      intros th _ _ _ Hv Hr Es. cbn [map]. specialize (Hv Es). specialize (Hr Es). apply AR_cons; auto.
Qed.

Lemma goodG_lenle s R s' : goodG s R s' -> len s <= len s'.
Proof. intros (_ & [L _] & _). exact L. Qed.

(* allocation *)
Lemma JG_alloc s w : JG s -> JG (snd (alloc_var s w)).
Proof.
  intros ((A & B) & Cw). split; [split|].
  - intros v t. rewrite alloc_var_bound, alloc_var_length. intros Hv.
    eapply tg_mono; [|eapply A; eauto]. lia.
  - intros v. pose proof (B v) as Bv. unfold Sound.bok in *.
    rewrite alloc_var_lower, alloc_var_upper. exact Bv.
  - intros c Lc. rewrite alloc_var_length. eapply cwg_mono; [|apply (Cw c Lc)]. lia.
Qed.

Definition lefG (s s' : store) : Prop := le s s' /\ fr s s'.

Lemma lefG_refl s : lefG s s.
Proof. split; [apply le_refl|apply fr_refl]. Qed.

Lemma lefG_trans s1 s2 s3 : lefG s1 s2 -> lefG s2 s3 -> lefG s1 s3.
Proof.
  intros (L1 & F1) (L2 & F2).
  split; [eapply le_trans; eauto|eapply fr_trans; eauto; apply L2].
Qed.

Lemma lefG_len s s' : lefG s s' -> len s <= len s'.
Proof. intros ([L _] & _). exact L. Qed.

Lemma goodG_lefG s R s' : goodG s R s' -> lefG s s'.
Proof. intros (_ & L & F & _). split; auto. Qed.

Lemma lefG_alloc s w : lefG s (snd (alloc_var s w)).
Proof. split; [apply le_alloc|apply fr_alloc]. Qed.

Lemma goodG_of_lefG s s' (R : (nat -> ty) -> Prop) :
  JG s' -> lefG s s' -> (forall th, sat th s' -> R th) -> goodG s R s'.
Proof. intros I (L & F) HR. split; [auto|split; [auto|split; auto]]. Qed.

Lemma fresh_list_goodG n : forall s, JG s ->
  tr (fresh_list n) s (fun env s' => JG s' /\ lefG s s' /\ Forall (isvar (len s')) env /\ length env = n).
Proof.
  induction n as [|n IH]; intros s I; cbn [fresh_list].
  - apply tr_ret. split; [auto|split; [apply lefG_refl|split; [constructor|reflexivity]]].
  - apply Sound.tr_fresh. pose proof (JG_alloc s false I) as I1. pose proof (lefG_alloc s false) as L1.
    pose proof (alloc_var_length s false) as Ln.
    set (s1 := snd (alloc_var s false)) in *. clearbody s1.
    eapply tr_bind; [apply IH; exact I1|]. cbv beta. intros r s2 (I2 & L2 & F2 & N2).
    apply tr_ret. split; [auto|split; [eapply lefG_trans; eauto|split]].
    + constructor; auto. exists (len s). split; [reflexivity|]. apply lefG_len in L2. lia.
    + cbn. lia.
Qed.

(* the skip_basic detour of unify: bind the variable to the operator applied to
   fresh variables, then unify again *)
Lemma unify_skb_detour f v o (ys : list tyv) (a b : tyv) s : spec_unify f -> spec_bind f ->
  JG s -> v < len s -> basic H o = false -> length ys = length (variance H o) ->
  tg (len s) a -> tg (len s) b ->
  tr (fr0 <- fresh_list (length ys) ;; bind H f v (O o fr0) ;;; unify H f true true false a b) s
     (fun _ s' => goodG s (fun _ => True) s').
Proof.
  intros U B I Lv Nb Ly Ta Tb.
  eapply tr_bind; [apply fresh_list_goodG; exact I|]. cbv beta. intros fr0 s1 (I1 & L1 & Fv & Nf).
  pose proof (lefG_len _ _ L1) as Ll1.
  assert (Tf : tg (len s1) (O o fr0)).
  { constructor; [congruence|]. eapply Forall_impl; [|exact Fv]. intros t. apply isvar_tg. }
  eapply tr_bind; [apply B; auto; [lia|intros o' args' [= <- <-] Eb; congruence]|].
  cbv beta. intros _ s2 G2. pose proof (goodG_lenle _ _ _ G2) as Ll2.
  eapply tr_conseq; [apply U; [apply G2|eapply tg_mono; [|exact Ta]; lia|eapply tg_mono; [|exact Tb]; lia]|].
  cbv beta. intros _ s3 G3.
  eapply (goodG_trans s1 s2 s3 _ _ (fun _ => True)) in G3; [|exact G2|auto].
  apply goodG_of_lefG; [apply G3| |auto].
  eapply lefG_trans; [exact L1|eapply goodG_lefG; exact G3].
Qed.

Lemma unify_step f : spec_unify f -> spec_bind f -> spec_above f -> spec_below f -> spec_unify (S f).
Proof.
  intros U B Ab Be skb a0 b0 s I Ta0 Tb0. rewrite unify_S. apply tr_gets. apply tr_gets.
  pose proof (tg_follow s a0 I Ta0) as Ta. pose proof (tg_follow s b0 I Tb0) as Tb.
  assert (Da : forall th, sat th s -> den th (follow s a0) = den th a0) by (intros; apply (den_follow H); auto).
  assert (Db : forall th, sat th s -> den th (follow s b0) = den th b0) by (intros; apply (den_follow H); auto).
  set (a := follow s a0) in *. set (b := follow s b0) in *. clearbody a b.
  assert (Fin : forall s' (R : (nat -> ty) -> Prop), goodG s R s' ->
            (forall th, sat th s' -> R th -> skb = false -> Sub H (den th a) (den th b)) ->
            goodG s (fun th => skb = false -> Sub H (den th a0) (den th b0)) s').
  { intros s' R G K. eapply goodG_weaken; [exact G|]. intros th S' HR Es.
    destruct G as (_ & [_ M] & _). rewrite <- Da, <- Db by auto. auto. }
  destruct a as [va|oa xs]; destruct b as [vb|ob ys].
  - apply tr_gets. apply tr_gets. cbn [negb orb].
    eapply tr_conseq; [apply B; auto; [inversion Ta; auto|intros; discriminate]|].
    cbv beta. intros _ s' G. eapply Fin; [exact G|]. cbv beta. intros th S' E _. cbn [den] in *.
    rewrite E. apply Sub_refl; auto. apply (sat_wf H th s' S').
  - destruct (Nat.eqb ob Top) eqn:Et.
    + apply Nat.eqb_eq in Et. subst ob. apply tr_ret. eapply Fin; [apply (goodG_refl s (fun _ => True)); auto|].
      cbv beta. intros th S _ _. erewrite (den_O_wf H th _ Top ys); eauto using sat_wf, var_top. apply SubTop.
    + apply Nat.eqb_neq in Et. apply tr_lift. intros oc _. destruct oc; [apply tr_fail|].
      assert (Lv : va < len s) by (inversion Ta; auto).
      destruct (basic H ob) eqn:Eb.
      * apply tr_gets. cbn [andb]. rewrite orb_false_r.
        destruct skb; [apply tr_ret; eapply Fin; [apply (goodG_refl s (fun _ => True)); auto|intros; discriminate]|].
        cbn [orb andb].
        eapply tr_conseq; [apply Be; auto; apply basic_var; auto|].
        cbv beta. intros _ s' G. eapply Fin; [exact G|]. cbv beta. intros th S' (bb & E & Lb) _.
        erewrite (den_O_wf H th _ ob ys); eauto using sat_wf, basic_var. cbn [den]. rewrite E.
        apply ole_Sub; auto. apply wf_base. rewrite <- E. apply (sat_wf H th s' S').
      * cbn [orb]. destruct skb.
        -- eapply tr_conseq; [apply (unify_skb_detour f va ob ys (V va) (O ob ys) s); auto; apply (tg_args H _ _ _ Tb)|].
           cbv beta. intros _ s' G. eapply Fin; [exact G|intros; discriminate].
        -- eapply tr_conseq; [apply B; auto; intros o args [= <- <-]; congruence|].
           cbv beta. intros _ s' G. eapply Fin; [exact G|]. cbv beta. intros th S' E _.
           change (den th (V va)) with (th va). rewrite E. apply Sub_refl; auto.
           rewrite <- E. apply (sat_wf H th s' S').
  - destruct (Nat.eqb oa Bottom) eqn:Et.
    + apply Nat.eqb_eq in Et. subst oa. apply tr_ret. eapply Fin; [apply (goodG_refl s (fun _ => True)); auto|].
      cbv beta. intros th S _ _. erewrite (den_O_wf H th _ Bottom xs); eauto using sat_wf, var_bot. apply SubBot.
    + apply Nat.eqb_neq in Et. apply tr_lift. intros oc _. destruct oc; [apply tr_fail|].
      assert (Lv : vb < len s) by (inversion Tb; auto).
      destruct (basic H oa) eqn:Eb.
      * apply tr_gets. cbn [andb]. rewrite orb_false_r.
        destruct skb; [apply tr_ret; eapply Fin; [apply (goodG_refl s (fun _ => True)); auto|intros; discriminate]|].
        cbn [orb andb].
        eapply tr_conseq; [apply Ab; auto; apply basic_var; auto|].
        cbv beta. intros _ s' G. eapply Fin; [exact G|]. cbv beta. intros th S' (bb & E & Lb) _.
        erewrite (den_O_wf H th _ oa xs); eauto using sat_wf, basic_var. cbn [den]. rewrite E.
        apply ole_Sub; auto. apply basic_var; auto.
      * cbn [orb]. destruct skb.
        -- eapply tr_conseq; [apply (unify_skb_detour f vb oa xs (V vb) (V vb) s); auto; apply (tg_args H _ _ _ Ta)|].
           cbv beta. intros _ s' G. eapply Fin; [exact G|intros; discriminate].
        -- eapply tr_conseq; [apply B; auto; intros o args [= <- <-]; congruence|].
           cbv beta. intros _ s' G. eapply Fin; [exact G|]. cbv beta. intros th S' E _.
           change (den th (V vb)) with (th vb). rewrite E. apply Sub_refl; auto.
           rewrite <- E. apply (sat_wf H th s' S').
  - destruct (Nat.eqb oa Bottom || Nat.eqb ob Top) eqn:E1.
    { apply tr_ret. eapply Fin; [apply (goodG_refl s (fun _ => True)); auto|]. cbv beta. intros th S _ _.
      apply orb_true_iff in E1. destruct E1 as [E|E]; apply Nat.eqb_eq in E; subst.
      - erewrite (den_O_wf H th _ Bottom xs); eauto using sat_wf, var_bot. apply SubBot.
      - erewrite (den_O_wf H th _ Top ys); eauto using sat_wf, var_top. apply SubTop. }
    apply orb_false_iff in E1. destruct E1 as [NB NT]. apply Nat.eqb_neq in NB, NT.
    destruct (basic H oa) eqn:Eb.
    { destruct skb; [apply tr_ret; eapply Fin; [apply (goodG_refl s (fun _ => True)); auto|intros; discriminate]|].
      cbn [negb andb orb].
      destruct (negb (osub H false oa ob)) eqn:Eo; [apply tr_fail|].
      apply tr_ret. eapply Fin; [apply (goodG_refl s (fun _ => True)); auto|]. cbv beta. intros th S _ _.
      apply osubF_neg in Eo. destruct Eo as [E|[E|A]]; try congruence.
      pose proof (basic_var H oa Eb) as Va.
      assert (Vb : variance H ob = []).
      { destruct (Anc_inv H W _ _ A) as [<-|(_ & Vb & _)]; auto. }
      erewrite (den_O_wf H th _ oa xs); eauto using sat_wf.
      erewrite (den_O_wf H th _ ob ys); eauto using sat_wf.
      apply SubBase; auto. }
    destruct (Nat.eqb oa ob) eqn:Eab; [|apply tr_fail].
    apply Nat.eqb_eq in Eab. subst ob.
    destruct (tg_args H _ _ _ Ta) as [Lx Fx]. destruct (tg_args H _ _ _ Tb) as [Ly Fy].
    eapply tr_conseq; [apply unify_args; auto|].
    cbv beta. intros _ s' G. eapply Fin; [exact G|]. cbv beta. intros th S' AR Es. cbn [den].
    apply SubComp; auto. intros V0. apply var_basic in V0. congruence.
Qed.

(* ---- stores that differ in one constraint object ---- *)
Lemma semeq_vars_eqG s s' : vars s' = vars s -> semeq s s'.
Proof.
  intros E. split; [rewrite E; reflexivity|]. intros v. unfold cell_of. rewrite E. repeat split.
Qed.

Lemma JG_set_constr s c k' : JG s -> (c < length (constrs s) -> cwg (len s) k') -> JG (set_constr s c k').
Proof.
  intros (Jv0 & Cw) Ck. split; [exact Jv0|]. intros c' Lc'.
  change (len (set_constr s c k')) with (len s).
  unfold set_constr in Lc'. cbn [constrs] in Lc'. rewrite upd_length in Lc'.
  destruct (constr_of_set_constr s c k' c') as [(E & -> & L)|E]; rewrite E; [apply Ck; exact L|].
  apply Cw. exact Lc'.
Qed.

Lemma goodG_set_constr s c k' : JG s -> (c < length (constrs s) -> cwg (len s) k') ->
  goodG s (fun _ => True) (set_constr s c k').
Proof.
  intros I Ck.
  assert (E : semeq s (set_constr s c k')) by (apply semeq_vars_eqG; reflexivity).
  split; [apply JG_set_constr; auto|split; [apply le_semeq; exact E|split; [apply fr_semeq; exact E|auto]]].
Qed.

Lemma JG_cwg s c : JG s -> c < length (constrs s) -> cwg (len s) (constr_of s c).
Proof. intros (_ & Cw). apply Cw. Qed.

(* ---- check_constraints ---- *)
Lemma body_good f v c : spec_fulfill f -> forall s, JG s ->
  tr (body H f v c) s (fun _ s' => goodG s (fun _ => True) s').
Proof.
  intros F s I. unfold body. eapply tr_bind; [apply F; exact I|]. cbv beta. intros d s1 G1.
  destruct d.
  - apply tr_modify_end. eapply (goodG_trans _ _ _ _ (fun _ => True)); [exact G1| |auto].
    apply goodG_semeq; [apply G1|apply semeq_set_cset|reflexivity|auto].
  - apply tr_ret. exact G1.
Qed.

Lemma loop_good f v : spec_fulfill f -> forall l s, JG s ->
  tr (loop H f v l) s (fun _ s' => goodG s (fun _ => True) s').
Proof.
  intros F. induction l as [|c l IH]; intros s I; unfold loop; cbn [forM].
  - apply tr_ret. apply goodG_refl; auto.
  - eapply tr_bind; [apply body_good; auto|]. cbv beta. intros _ s1 G1.
    change (forM l (body H f v)) with (loop H f v l).
    eapply tr_conseq; [apply IH; apply G1|]. cbv beta. intros _ s2 G2.
    eapply goodG_trans; [exact G1|exact G2|auto].
Qed.

Lemma cc_step f : spec_fulfill f -> spec_cc (S f).
Proof.
  intros F v s I a s' E. rewrite cc_S_eq in E. cbv zeta in E.
  destruct (2 <=? length (cset_of s (c_cs (cell_of s v)))).
  - destruct (sched s) as [|r rest].
    + eapply loop_good; eauto.
    + set (s0 := mkStore (vars s) (csets s) (constrs s) rest) in *.
      assert (G0 : goodG s (fun _ => True) s0).
      { apply goodG_semeq; auto. apply semeq_vars_eqG. reflexivity. }
      eapply goodG_trans; [exact G0|eapply loop_good; [exact F|apply G0|exact E]|auto].
  - eapply loop_good; eauto.
Qed.

(* ---- the filter of fulfill returns a sub-list ---- *)
Lemma filt_Forall (P : tyv -> Prop) f s r : forall l l', FLg.filt H f s r l = Ok l' ->
  Forall P l -> Forall P l'.
Proof.
  induction l as [|t l IH]; intros l' E Fl.
  - rewrite FLg.filt_nil in E. inversion E; subst. constructor.
  - inversion Fl as [|? ? Pt Fl']; subst. rewrite FLg.filt_cons in E.
    destruct (match_f H f s true true r t) as [[[|]|]|e]; try discriminate.
    + destruct (FLg.filt H f s r l) as [r'|e]; [|discriminate]. inversion E; subst.
      constructor; auto.
    + apply IH; auto.
    + destruct (FLg.filt H f s r l) as [r'|e]; [|discriminate]. inversion E; subst.
      constructor; auto.
Qed.

(* ---- fulfill ---- *)
Lemma fulfill_step f : spec_unify f -> spec_minimize f -> spec_fulfill (S f).
Proof.
  intros U Mi c s I. rewrite FLg.fulfill_S'. apply tr_gets.
  destruct (k_elim (constr_of s c)) eqn:Ee.
  - (* elimination constraint *)
    destruct (k_done (constr_of s c)) eqn:Ed; [apply tr_ret; apply goodG_refl; auto|].
    eapply tr_bind; [apply Mi; exact I|]. cbv beta. intros _ s1 G1.
    pose proof G1 as (I1 & _).
    apply tr_gets. apply tr_gets.
    match goal with |- tr (if negb ?n then _ else _) _ _ => destruct n end; [|apply tr_fail].
    cbn [negb]. apply tr_lift. intros alts Ea.
    destruct (Nat.lt_ge_cases c (length (constrs s1))) as [Lc|Lc].
    2:{ rewrite (@constr_of_oob s1 c Lc) in Ea. cbn [k_alts dconstr] in Ea. rewrite FLg.filt_nil in Ea.
        inversion Ea; subst alts. unfold upd_constr at 1. apply tr_modify. apply tr_fail. }
    destruct (JG_cwg s1 c I1 Lc) as (Tr & Ta).
    pose proof (filt_Forall (tg (len s1)) _ _ _ _ _ Ea Ta) as Tal.
    set (k1 := constr_of s1 c) in *.
    unfold upd_constr at 1. apply tr_modify. fold k1.
    set (s2 := set_constr s1 c _).
    assert (G2 : goodG s1 (fun _ => True) s2).
    { apply goodG_set_constr; auto. intros _. split; [exact Tr|exact Tal]. }
    assert (L2 : len s2 = len s1) by reflexivity.
    assert (Lc2 : c < length (constrs s2)) by (unfold s2, set_constr; cbn [constrs]; rewrite upd_length; exact Lc).
    assert (C2 : constr_of s2 c = mkConstr true (k_ref k1) alts (k_strict k1) (k_done k1)).
    { unfold s2. apply constr_of_set_constr_same. exact Lc. }
    clearbody s2.
    assert (G02 : goodG s (fun _ => True) s2) by (eapply goodG_trans; [exact G1|exact G2|auto]).
    destruct alts as [|t [|t2 rest]].
    + apply tr_fail.
    + unfold upd_constr at 1. apply tr_modify. rewrite C2. cbn [k_ref k_alts k_strict].
      set (s3 := set_constr s2 c _).
      assert (G3 : goodG s2 (fun _ => True) s3).
      { apply goodG_set_constr; [apply G2|]. intros _. rewrite L2. split; [exact Tr|exact Tal]. }
      assert (L3 : len s3 = len s1) by (rewrite <- L2; reflexivity).
      clearbody s3.
      inversion Tal as [|? ? Tt _]; subst.
      eapply tr_bind; [apply U; [apply G3|rewrite L3; exact Tr|rewrite L3; exact Tt]|].
      cbv beta. intros _ s4 G4. apply tr_gets. apply tr_ret.
      apply goodG_True in G4.
      eapply goodG_trans; [exact G02|eapply (goodG_trans s2 s3 s4 _ _ (fun _ => True)); [exact G3|exact G4|auto]|auto].
    + apply tr_gets. apply tr_ret. exact G02.
  - (* subtype constraint *)
    destruct (k_alts (constr_of s c)) as [|target [|t2 rest]] eqn:Ea; try apply tr_fail.
    assert (Lc : c < length (constrs s)).
    { destruct (Nat.lt_ge_cases c (length (constrs s))) as [L|L]; [exact L|].
      rewrite (@constr_of_oob s c L) in Ea. discriminate. }
    destruct (JG_cwg s c I Lc) as (Tr & Ta). rewrite Ea in Ta. inversion Ta as [|? ? Tt _]; subst.
    eapply tr_bind; [apply U; auto|]. cbv beta. intros _ s1 G1. apply goodG_True in G1.
    apply tr_lift. intros r _.
    destruct r as [[|]|]; [|apply tr_fail|apply tr_gets; apply tr_ret; exact G1].
    eapply tr_bind with (Q1 := fun _ s2 => s2 = s1).
    { destruct (k_strict (constr_of s c)); [|apply tr_ret; reflexivity].
      intros x s' E. unfold lift in E. destruct (match_f H f s1 false false (k_ref (constr_of s c)) target); inversion E; reflexivity. }
    cbv beta. intros same s2 ->.
    destruct same as [[|]|]; [apply tr_fail| |apply tr_gets; apply tr_ret; exact G1].
    unfold upd_constr at 1. apply tr_modify. apply tr_ret.
    eapply goodG_trans; [exact G1| |auto].
    apply goodG_set_constr; [apply G1|]. intros Lc1.
    destruct (JG_cwg s1 c (proj1 G1) Lc1) as (Tr1 & Ta1). split; assumption.
Qed.

(* ---- minimize ---- *)
Lemma inner_good f obj s : JG s -> tg (len s) obj -> forall post pre add,
  Forall (tg (len s)) pre -> Forall (tg (len s)) post ->
  tr (FLg.min_inner H f obj pre post add) s (fun r s' => s' = s /\ Forall (tg (len s)) (fst r)).
Proof.
  intros I To. induction post as [|mi post IH]; intros pre add Fp Fq.
  - rewrite FLg.min_inner_nil. apply tr_ret. split; [reflexivity|exact Fp].
  - inversion Fq as [|? ? Tm Fq']; subst. rewrite FLg.min_inner_cons.
    apply tr_lift. intros r1 _.
    eapply tr_bind with (Q1 := fun mi' s' => s' = s /\ tg (len s) mi').
    { destruct r1 as [[|]|]; try (apply tr_ret; split; [reflexivity|exact Tm]).
      apply tr_gets_end. split; [reflexivity|]. apply tg_follow; auto. }
    cbv beta. intros mi' s' (-> & Tm'). apply tr_lift. intros r2 _.
    apply IH; auto. apply Forall_app. split; [exact Fp|constructor; auto].
Qed.

Lemma outer_good f : spec_fix f -> forall objs mins s, JG s ->
  Forall (tg (len s)) objs -> Forall (tg (len s)) mins ->
  tr (FLg.min_outer H f objs mins) s
     (fun r s' => goodG s (fun _ => True) s' /\ Forall (tg (len s')) r).
Proof.
  intros Fx. induction objs as [|obj rest IH]; intros mins s I Fo Fm.
  - rewrite FLg.min_outer_nil. apply tr_ret. split; [apply goodG_refl; auto|exact Fm].
  - inversion Fo as [|? ? To Fo']; subst. rewrite FLg.min_outer_cons.
    eapply tr_bind; [apply inner_good; auto|]. cbv beta. intros [mins' add] s' (-> & Fm').
    cbn [fst] in Fm'. destruct add.
    + apply tr_gets.
      eapply tr_bind; [apply Fx; [exact I|apply tg_follow; auto]|]. cbv beta.
      intros o' s1 (To' & G1). pose proof (goodG_lenle _ _ _ G1) as L1.
      eapply tr_conseq; [apply IH; [apply G1|eapply Forall_tg_mono; eauto|]|].
      * apply Forall_app. split; [eapply Forall_tg_mono; eauto|constructor; auto].
      * cbv beta. intros r s2 (G2 & Fr). split; [|exact Fr].
        eapply goodG_trans; [exact G1|exact G2|auto].
    + apply IH; auto.
Qed.

Lemma minimize_step f : spec_fix f -> spec_minimize (S f).
Proof.
  intros Fx c s I. rewrite FLg.minimize_S'. apply tr_gets.
  destruct (Nat.lt_ge_cases c (length (constrs s))) as [Lc|Lc].
  - destruct (JG_cwg s c I Lc) as (Tr & Ta).
    eapply tr_bind; [apply outer_good; auto|]. cbv beta. intros mins s1 (G1 & Fm).
    apply tr_gets. apply tr_gets. unfold upd_constr. apply tr_modify_end.
    eapply goodG_trans; [exact G1| |auto].
    apply goodG_set_constr; [apply G1|]. intros _. split; cbn [k_ref k_alts].
    + apply tg_follow; [apply G1|]. eapply tg_mono; [apply (goodG_lenle _ _ _ G1)|exact Tr].
    + apply Forall_forall. intros x Hx. apply in_map_iff in Hx. destruct Hx as (y & <- & Hy).
      apply tg_follow; [apply G1|]. rewrite Forall_forall in Fm. apply Fm. exact Hy.
  - rewrite (@constr_of_oob s c Lc). cbn [k_alts dconstr]. rewrite FLg.min_outer_nil.
    apply Sound.tr_ret_bind. apply tr_gets. apply tr_gets. unfold upd_constr. apply tr_modify_end.
    unfold set_constr. rewrite si_upd_oob by exact Lc. destruct s; apply goodG_refl; auto.
Qed.

(* ---- the induction on fuel ---- *)
Theorem specs_all : forall f, specs f.
Proof.
  induction f as [|f (U & B & Ab & Be & Fx & CC & Fu & Mi)]; [apply specs_0|].
  unfold specs. repeat apply conj.
  - apply unify_step; auto.
  - apply bind_step; auto.
  - apply above_step; auto.
  - apply below_step; auto.
  - apply fix_step; auto.
  - apply cc_step; auto.
  - apply fulfill_step; auto.
  - apply minimize_step; auto.
Qed.

Lemma unify_soundG f : spec_unify f. Proof. apply specs_all. Qed.
Lemma bind_soundG f : spec_bind f. Proof. apply specs_all. Qed.
Lemma above_soundG f : spec_above f. Proof. apply specs_all. Qed.
Lemma below_soundG f : spec_below f. Proof. apply specs_all. Qed.
Lemma fix_soundG f : spec_fix f. Proof. apply specs_all. Qed.
Lemma cc_soundG f : spec_cc f. Proof. apply specs_all. Qed.
Lemma fulfill_soundG f : spec_fulfill f. Proof. apply specs_all. Qed.
Lemma minimize_soundG f : spec_minimize f. Proof. apply specs_all. Qed.

(* ------------------------------------------------------------------ *)
(* schemas, instance, apply                                             *)
(* ------------------------------------------------------------------ *)
Definition ev_postG (s : store) : tyv -> store -> Prop :=
  fun r s' => JG s' /\ lefG s s' /\ tg (len s') r.

Lemma eval_sty_goodG env : forall t s, JG s -> Forall (tg (len s)) env -> styg H (length env) t ->
  tr (eval_sty env t) s (ev_postG s).
Proof.
  induction t as [i| |o args IH] using sty_ind'; intros s I Fe St; cbn [eval_sty].
  - apply tr_gets_end. split; [auto|split; [apply lefG_refl|]]. apply tg_follow; auto.
    inversion St; subst. rewrite Forall_forall in Fe. apply Fe. apply nth_In. auto.
  - apply Sound.tr_fresh. apply tr_ret. split; [apply JG_alloc; auto|split; [apply lefG_alloc|]].
    constructor. rewrite alloc_var_length. lia.
  - inversion St as [| |? ? La Fa]; subst.
    eapply tr_bind with (Q1 := fun xs s1 => JG s1 /\ lefG s s1 /\ Forall (tg (len s1)) xs /\
                                            length xs = length args).
    + clear La St. revert s I Fe.
      induction IH as [|a r Ha Hr IHr]; intros s I Fe;
        [apply tr_ret; split; [auto|split; [apply lefG_refl|split; [constructor|reflexivity]]]|].
      inversion Fa as [|? ? Sa Sr]; subst.
      eapply tr_bind; [apply Ha; auto|]. cbv beta. intros x s1 (I1 & L1 & Tx).
      assert (Fe1 : Forall (tg (len s1)) env) by (eapply Forall_tg_mono; [apply (lefG_len _ _ L1)|exact Fe]).
      eapply tr_bind; [apply IHr; auto|]. cbv beta. intros xs s2 (I2 & L2 & Fx & Nx).
      apply tr_ret. split; [auto|split; [eapply lefG_trans; eauto|split]].
      * constructor; auto. eapply tg_mono; [apply (lefG_len _ _ L2)|exact Tx].
      * cbn. lia.
    + cbv beta. intros xs s1 (I1 & L1 & Fx & Nx). apply tr_ret.
      split; [auto|split; [auto|]]. constructor; auto. congruence.
Qed.

Lemma eval_list_goodG env : forall l s, JG s -> Forall (tg (len s)) env -> Forall (styg H (length env)) l ->
  tr (FLg.eval_list env l) s (fun xs s' => JG s' /\ lefG s s' /\ Forall (tg (len s')) xs).
Proof.
  induction l as [|a l IH]; intros s I Fe Fl.
  - apply tr_ret. split; [auto|split; [apply lefG_refl|constructor]].
  - inversion Fl as [|? ? Sa Sl]; subst.
    change (FLg.eval_list env (a :: l)) with
      (x <- eval_sty env a ;; xs <- FLg.eval_list env l ;; ret (x :: xs)).
    eapply tr_bind; [apply eval_sty_goodG; auto|]. cbv beta. intros x s1 (I1 & L1 & Tx).
    assert (Fe1 : Forall (tg (len s1)) env) by (eapply Forall_tg_mono; [apply (lefG_len _ _ L1)|exact Fe]).
    eapply tr_bind; [apply IH; auto|]. cbv beta. intros xs s2 (I2 & L2 & Fx).
    apply tr_ret. split; [auto|split; [eapply lefG_trans; eauto|]].
    constructor; auto. eapply tg_mono; [apply (lefG_len _ _ L2)|exact Tx].
Qed.

(* ---- new constraints ---- *)
Lemma alloc_constr_JG s k : JG s -> cwg (len s) k -> JG (snd (alloc_constr s k)).
Proof.
  intros (Jv0 & Cw) Ck. split; [exact Jv0|]. intros c Lc.
  change (len (snd (alloc_constr s k))) with (len s).
  rewrite alloc_constr_length in Lc.
  destruct (Nat.eq_dec c (length (constrs s))) as [->|Nc].
  - rewrite alloc_constr_new. exact Ck.
  - rewrite alloc_constr_old by lia. apply Cw. lia.
Qed.

Lemma alloc_constr_lefG s k : lefG s (snd (alloc_constr s k)).
Proof.
  assert (E : semeq s (snd (alloc_constr s k))) by (apply semeq_vars_eqG; reflexivity).
  split; [apply le_semeq; exact E|apply fr_semeq; exact E].
Qed.

Lemma new_constraint_goodG fuel k s : JG s -> cwg (len s) k ->
  tr (new_constraint H fuel k) s (fun _ s' => JG s' /\ lefG s s').
Proof.
  intros I Ck u s' E. unfold new_constraint in E.
  unfold bindM at 1 in E. cbn [alloc_constr] in E.
  set (c := length (constrs s)) in *.
  set (s1 := {| vars := vars s; csets := csets s; constrs := constrs s ++ [k]; sched := sched s |}) in *.
  assert (I1 : JG s1) by (apply (alloc_constr_JG s k I Ck)).
  assert (L1 : lefG s s1) by (apply (alloc_constr_lefG s k)).
  unfold bindM at 1 in E. unfold lift at 1 in E.
  destruct (closure_f fuel s1 (constr_terms k) []) as [vs|e]; [|discriminate].
  unfold bindM at 1 in E.
  match type of E with match forM ?vs ?f ?s with _ => _ end = _ =>
    change f with (inform c) in E; destruct (forM vs (inform c) s) as [u2 s2|e s2] eqn:E2; [|discriminate] end.
  destruct (inform_facts c vs s1 u2 s2 E2) as (Ev2 & Ek2 & _ & _).
  assert (E12 : semeq s1 s2) by (apply semeq_vars_eqG; exact Ev2).
  assert (G12 : goodG s1 (fun _ => True) s2) by (apply goodG_semeq; auto).
  unfold bindM at 1 in E.
  destruct (fulfill H fuel c s2) as [d s3|e s3] eqn:E3; [|discriminate].
  inversion E; subst s'. clear E.
  pose proof (fulfill_soundG fuel c s2 (proj1 G12) d s3 E3) as G23.
  pose proof (goodG_trans _ _ _ _ _ (fun _ => True) G12 G23 (fun _ _ _ _ _ _ => Logic.I)) as G13.
  split; [apply G13|eapply lefG_trans; [exact L1|eapply goodG_lefG; exact G13]].
Qed.

(* ---- the program class ---- *)
(* a schema constraint with ARBITRARY well-scoped, arity-correct reference and
   target / alternatives *)
Definition scg (n : nat) (sc : sconstr) : Prop :=
  match sc with
  | SCSub r t _ => styg H n r /\ styg H n t
  | SCElim r alts => styg H n r /\ Forall (styg H n) alts
  end.

Inductive cmdG (n : nat) : cmd -> Prop :=
| cG_inst sc : styg H (s_n sc) (s_body sc) -> Forall (scg (s_n sc)) (s_constrs sc) -> cmdG n (CInst sc)
| cG_apply f x b : f < n -> x < n -> cmdG n (CApply f x b)
| cG_unify a b : a < n -> b < n -> cmdG n (CUnify a b true)
| cG_fix a pl : a < n -> cmdG n (CFix a pl).

(* n = number of values pushed so far *)
Fixpoint progG (n : nat) (cs : list cmd) : Prop :=
  match cs with
  | [] => True
  | c :: r => cmdG n c /\ progG (nxt c n) r
  end.

Lemma eval_constr_goodG fuel env sc s : JG s -> Forall (tg (len s)) env -> scg (length env) sc ->
  tr (eval_constr H fuel env sc) s (fun _ s' => JG s' /\ lefG s s').
Proof.
  intros I Fe Pc. destruct sc as [r t strict|r alts]; cbn [scg] in Pc; destruct Pc as (Sr & St).
  - cbn [eval_constr].
    eapply tr_bind; [apply eval_sty_goodG; auto|]. cbv beta. intros r' s1 (I1 & L1 & Tr).
    assert (Fe1 : Forall (tg (len s1)) env) by (eapply Forall_tg_mono; [apply (lefG_len _ _ L1)|exact Fe]).
    eapply tr_bind; [apply eval_sty_goodG; auto|]. cbv beta. intros t' s2 (I2 & L2 & Tt).
    apply tr_gets. apply tr_gets.
    eapply tr_conseq; [apply new_constraint_goodG; auto|].
    + split; cbn [k_ref k_alts].
      * apply tg_follow; auto. eapply tg_mono; [apply (lefG_len _ _ L2)|exact Tr].
      * constructor; [|constructor]. apply tg_follow; auto.
    + cbv beta. intros _ s3 (I3 & L3). split; [exact I3|].
      eapply lefG_trans; [exact L1|eapply lefG_trans; eauto].
  - rewrite FLg.eval_constr_elim.
    eapply tr_bind; [apply eval_sty_goodG; auto|]. cbv beta. intros r' s1 (I1 & L1 & Tr).
    assert (Fe1 : Forall (tg (len s1)) env) by (eapply Forall_tg_mono; [apply (lefG_len _ _ L1)|exact Fe]).
    eapply tr_bind; [apply eval_list_goodG; auto|]. cbv beta. intros alts' s2 (I2 & L2 & Ta).
    apply tr_gets. apply tr_gets.
    eapply tr_conseq; [apply new_constraint_goodG; auto|].
    + split; cbn [k_ref k_alts].
      * apply tg_follow; auto. eapply tg_mono; [apply (lefG_len _ _ L2)|exact Tr].
      * apply Forall_forall. intros x Hx. apply in_map_iff in Hx. destruct Hx as (y & <- & Hy).
        apply tg_follow; auto. rewrite Forall_forall in Ta. apply Ta. exact Hy.
    + cbv beta. intros _ s3 (I3 & L3). split; [exact I3|].
      eapply lefG_trans; [exact L1|eapply lefG_trans; eauto].
Qed.

Lemma instance_goodG fuel sc s : JG s -> styg H (s_n sc) (s_body sc) -> Forall (scg (s_n sc)) (s_constrs sc) ->
  tr (instance H fuel sc) s (fun r s' => JG s' /\ lefG s s' /\ tg (len s') r).
Proof.
  intros I Sb Pc. unfold instance.
  eapply tr_bind; [apply fresh_list_goodG; auto|]. cbv beta. intros env s1 (I1 & L1 & Fe & Ne).
  assert (Fe1 : Forall (tg (len s1)) env).
  { eapply Forall_impl; [|exact Fe]. intros t. apply isvar_tg. }
  eapply tr_bind; [apply eval_sty_goodG; auto|].
  { rewrite Ne. exact Sb. }
  cbv beta. intros body s2 (I2 & L2 & Tb).
  assert (G : forall cs s3, JG s3 -> len s2 <= len s3 -> Forall (scg (length env)) cs ->
            tr (forM cs (eval_constr H fuel env)) s3 (fun _ s4 => JG s4 /\ lefG s3 s4)).
  { induction cs as [|c cs IH]; intros s3 I3 L3 Fc; cbn [forM].
    - apply tr_ret. split; [auto|apply lefG_refl].
    - inversion Fc as [|? ? Pc1 Fc']; subst.
      eapply tr_bind; [apply eval_constr_goodG; auto|].
      { eapply Forall_tg_mono; [|exact Fe1]. pose proof (lefG_len _ _ L2). lia. }
      cbv beta. intros _ s4 (I4 & L4).
      eapply tr_conseq; [apply IH; auto|].
      { pose proof (lefG_len _ _ L4). lia. }
      cbv beta. intros _ s5 (I5 & L5).
      split; [auto|eapply lefG_trans; eauto]. }
  eapply tr_bind; [apply G; auto|].
  { rewrite Ne. exact Pc. }
  cbv beta. intros _ s3 (I3 & L3).
  eapply tr_conseq; [apply fix_soundG; auto|].
  { eapply tg_mono; [apply (lefG_len _ _ L3)|exact Tb]. }
  cbv beta. intros r s4 (Tr & G4).
  split; [apply G4|split; [|exact Tr]].
  eapply lefG_trans; [exact L1|]. eapply lefG_trans; [exact L2|]. eapply lefG_trans; [exact L3|].
  eapply goodG_lefG; eauto.
Qed.

Local Notation StepSem := (Sound.StepSem H).

Lemma unify_plain f a b s : JG s -> tg (len s) a -> tg (len s) b ->
  tr (unify H f true false false a b) s
     (fun _ s' => goodG s (fun th => Sub H (den th a) (den th b)) s').
Proof.
  intros I Ta Tb. eapply tr_conseq; [apply unify_soundG; auto|]. cbv beta. intros _ s' G.
  eapply goodG_weaken; [exact G|]. cbv beta. auto.
Qed.

Lemma apply_goodG fuel f0 x0 fixb s : JG s -> tg (len s) f0 -> tg (len s) x0 ->
  tr (apply H fuel f0 x0 fixb) s
     (fun r s' => tg (len s') r /\ goodG s (fun th => StepSem th f0 x0 r) s').
Proof.
  intros I Tf0 Tx0. unfold apply. apply tr_gets. apply tr_gets.
  pose proof (tg_follow s f0 I Tf0) as Tf. pose proof (tg_follow s x0 I Tx0) as Tx.
  assert (Df : forall th, sat th s -> den th (follow s f0) = den th f0) by (intros; apply (den_follow H); auto).
  assert (Dx : forall th, sat th s -> den th (follow s x0) = den th x0) by (intros; apply (den_follow H); auto).
  set (f := follow s f0) in *. set (x := follow s x0) in *. clearbody f x.
  eapply tr_bind with (Q1 := fun f' s1 => tg (len s1) f' /\ goodG s (fun th => den th f' = den th f) s1).
  - destruct f as [vf|o args]; [|apply tr_ret; split; [auto|apply goodG_refl; auto]].
    apply Sound.tr_fresh. pose proof (JG_alloc s false I) as I1. pose proof (lefG_alloc s false) as L1.
    pose proof (alloc_var_length s false) as N1.
    set (s1 := snd (alloc_var s false)) in *. clearbody s1.
    apply Sound.tr_fresh. pose proof (JG_alloc s1 false I1) as I2. pose proof (lefG_alloc s1 false) as L2.
    pose proof (alloc_var_length s1 false) as N2.
    set (s2 := snd (alloc_var s1 false)) in *. clearbody s2.
    assert (Lv : vf < len s) by (inversion Tf; auto).
    eapply tr_bind; [apply bind_soundG; auto; try lia|].
    + constructor; [rewrite var_fun; reflexivity|].
      constructor; [constructor; lia|constructor; [constructor; lia|constructor]].
    + intros o args [= <- <-] Eb. apply basic_var in Eb. rewrite var_fun in Eb. discriminate.
    + cbv beta. intros _ s3 G3. apply tr_gets_end.
      assert (L03 : lefG s s3) by (eapply lefG_trans; [exact L1|eapply lefG_trans; [exact L2|eapply goodG_lefG; eauto]]).
      split.
      * apply tg_follow; [apply G3|]. constructor. apply lefG_len in L03. lia.
      * apply goodG_of_lefG; [apply G3|exact L03|].
        intros th S3. apply (den_follow H). exact S3.
  - cbv beta. intros f' s1 (Tf' & G1). pose proof G1 as (I1 & [L1 M1] & F1 & R1).
    assert (Tx1 : tg (len s1) x) by (eapply tg_mono; eauto).
    assert (TopCase : forall args, tg (len s1) (O Top args) -> f' = O Top args ->
              tg (len s1) (O Top []) /\ goodG s (fun th => StepSem th f0 x0 (O Top [])) s1).
    { intros args Ta ->. split; [apply tg_O0; apply var_top; auto|].
      eapply goodG_weaken; [exact G1|]. intros th S1 E. right. split; [|reflexivity].
      rewrite <- Df, <- E by auto. eapply den_O_wf; eauto using sat_wf, var_top. }
    destruct f' as [v|o [|lft [|rgt [|z r]]]]; try apply tr_fail.
    + destruct (Nat.eqb o Top) eqn:Et; [|apply tr_fail]. apply Nat.eqb_eq in Et. subst o.
      apply tr_ret. eapply TopCase; eauto.
    + destruct (Nat.eqb o Top) eqn:Et; [|apply tr_fail]. apply Nat.eqb_eq in Et. subst o.
      apply tr_ret. eapply TopCase; eauto.
    + destruct (Nat.eqb o Function) eqn:Ef.
      * apply Nat.eqb_eq in Ef. subst o.
        destruct (tg_args H _ _ _ Tf') as [_ Fa]. inversion Fa as [|? ? Tl Fa']; subst.
        inversion Fa' as [|? ? Tr _]; subst.
        eapply tr_bind; [apply unify_plain; auto|]. cbv beta. intros _ s2 G2.
        pose proof G2 as (I2 & [L2 M2] & F2 & R2).
        assert (Fin : forall r s3, tg (len s3) r -> goodG s2 (fun th => den th r = den th rgt) s3 ->
                  tg (len s3) r /\ goodG s (fun th => StepSem th f0 x0 r) s3).
        { intros r s3 Trr G3. split; [exact Trr|].
          eapply goodG_trans; [exact G1|eapply goodG_trans; [exact G2|exact G3|]|].
          - cbv beta. intros th _ _ _ A B. exact (conj A B).
          - cbv beta. intros th _ S1 S0 E [Sb Er]. left.
            exists (den th lft), (den th rgt). rewrite <- Df, <- E by auto. split; [reflexivity|].
            split; [|exact Er]. rewrite <- Dx by auto. exact Sb. }
        destruct (fixb && negb (is_fun rgt)).
        -- eapply tr_conseq; [apply fix_soundG; auto; eapply tg_mono; eauto|].
           cbv beta. intros r s3 (Trr & G3). apply Fin; auto.
        -- apply tr_ret. apply Fin; [eapply tg_mono; eauto|]. apply goodG_refl; auto.
      * destruct (Nat.eqb o Top) eqn:Et; [|apply tr_fail]. apply Nat.eqb_eq in Et. subst o.
        apply tr_ret. eapply TopCase; eauto.
    + destruct (Nat.eqb o Top) eqn:Et; [|apply tr_fail]. apply Nat.eqb_eq in Et. subst o.
      apply tr_ret. eapply TopCase; eauto.
Qed.


(* ------------------------------------------------------------------ *)
(* command programs                                                     *)
(* ------------------------------------------------------------------ *)
(* the meaning of a command in a final state (instances carry no clause here) *)
Definition cmd_semG (th : nat -> ty) (vals : list tyv) (c : cmd) (n : nat) : Prop :=
  match c with
  | CInst sc => True
  | CApply f x _ => StepSem th (val vals f) (val vals x) (val vals n)
  | CUnify a b _ => Sub H (den th (val vals a)) (den th (val vals b))
  | CFix a _ => den th (val vals n) = den th (val vals a)
  end.

Fixpoint prog_semG (th : nat -> ty) (vals : list tyv) (cs : list cmd) (n : nat) : Prop :=
  match cs with
  | [] => True
  | c :: r => cmd_semG th vals c n /\ prog_semG th vals r (nxt c n)
  end.

Lemma cmd_semG_ext th vals ext c n : cmdG n c -> nxt c n <= length vals ->
  cmd_semG th vals c n -> cmd_semG th (vals ++ ext) c n.
Proof.
  intros [sc Sb Pc|f x b Lf Lx|a b La Lb|a pl La] L; cbn [cmd_semG nxt] in *;
    rewrite ?val_app_l by lia; auto.
Qed.

Lemma run_cmd_goodG fuel c vals s : JG s -> Forall (tg (len s)) vals -> cmdG (length vals) c ->
  tr (run_cmd H fuel c vals) s
     (fun vals' s' => (exists ext, vals' = vals ++ ext) /\ length vals' = nxt c (length vals) /\
        Forall (tg (len s')) vals' /\ JG s' /\ lefG s s' /\
        forall th, sat th s' -> cmd_semG th vals' c (length vals)).
Proof.
  intros I Fv Pc.
  assert (Push : forall t s', tg (len s') t -> lefG s s' ->
            (exists ext, vals ++ [t] = vals ++ ext) /\ length (vals ++ [t]) = S (length vals) /\
            Forall (tg (len s')) (vals ++ [t])).
  { intros t s' Tt L. split; [eexists; reflexivity|]. split; [rewrite app_length; cbn; lia|].
    apply Forall_app. split; [eapply Forall_tg_mono; [apply (lefG_len _ _ L)|exact Fv]|constructor; auto]. }
  destruct Pc as [sc Sb Pc|f x b Lf Lx|a b La Lb|a pl La]; cbn [run_cmd nxt cmd_semG].
  - eapply tr_bind; [apply instance_goodG; auto|].
    cbv beta. intros t s1 (I1 & L1 & Tt). apply tr_ret.
    destruct (Push t s1 Tt L1) as (A & B & C). split; [exact A|split; [exact B|split; [exact C|]]].
    split; [exact I1|split; [exact L1|]]. intros th S1. exact Logic.I.
  - eapply tr_bind; [apply apply_goodG; auto using tg_val|]. cbv beta. intros t s1 (Tt & G1).
    apply tr_ret. pose proof (goodG_lefG _ _ _ G1) as L1.
    destruct (Push t s1 Tt L1) as (A & B & C). split; [exact A|split; [exact B|split; [exact C|]]].
    split; [apply G1|split; [exact L1|]]. intros th S1.
    rewrite val_app_new, !val_app_l by lia. apply G1. exact S1.
  - eapply tr_bind; [apply unify_plain; auto using tg_val|]. cbv beta. intros _ s1 G1.
    apply tr_ret. pose proof (goodG_lefG _ _ _ G1) as L1.
    split; [exists []; rewrite app_nil_r; reflexivity|split; [reflexivity|]].
    split; [eapply Forall_tg_mono; [apply (lefG_len _ _ L1)|exact Fv]|].
    split; [apply G1|split; [exact L1|]]. intros th S1. apply G1. exact S1.
  - eapply tr_bind; [apply fix_soundG; auto using tg_val|]. cbv beta. intros t s1 (Tt & G1).
    apply tr_ret. pose proof (goodG_lefG _ _ _ G1) as L1.
    destruct (Push t s1 Tt L1) as (A & B & C). split; [exact A|split; [exact B|split; [exact C|]]].
    split; [apply G1|split; [exact L1|]]. intros th S1.
    rewrite val_app_new, val_app_l by lia. apply G1. exact S1.
Qed.

Theorem run_cmds_goodG fuel : forall cs i vals s vals' s', JG s -> Forall (tg (len s)) vals ->
  progG (length vals) cs -> run_cmds H fuel cs i vals s = (None, vals', s') ->
  JG s' /\ lefG s s' /\ Forall (tg (len s')) vals' /\ (exists ext, vals' = vals ++ ext) /\
  length vals' = nxts cs (length vals) /\
  forall th, sat th s' -> prog_semG th vals' cs (length vals).
Proof.
  induction cs as [|c cs IH]; intros i vals s vals' s' I Fv P R; cbn [run_cmds] in R.
  - inversion R; subst. split; [auto|split; [apply lefG_refl|split; [auto|split]]].
    + exists []. rewrite app_nil_r. reflexivity.
    + split; [reflexivity|]. intros th _. exact Logic.I.
  - destruct P as [Pc Pr].
    pose proof (run_cmd_goodG fuel c vals s I Fv Pc) as T. unfold tr in T.
    destruct (run_cmd H fuel c vals s) as [vals1 s1|e s1] eqn:Ec; [|discriminate].
    destruct (T vals1 s1 eq_refl) as ((ext1 & E1) & Ln & Fv1 & I1 & L1 & Sem1).
    rewrite <- Ln in Pr.
    destruct (IH (S i) vals1 s1 vals' s' I1 Fv1 Pr R) as (I' & L' & Fv' & (ext & ->) & Ln' & Sem').
    split; [auto|split; [eapply lefG_trans; eauto|split; [auto|split]]].
    + exists (ext1 ++ ext). rewrite E1, app_assoc. reflexivity.
    + split; [cbn [nxts]; rewrite <- Ln; exact Ln'|].
      intros th S'. cbn [prog_semG]. split.
      * apply cmd_semG_ext; [exact Pc|lia|]. apply Sem1. apply L'. exact S'.
      * rewrite <- Ln. apply Sem'. exact S'.
Qed.

Lemma prog_semG_obs th vals : forall cs n, prog_semG th vals cs n ->
  (forall f x r, In (f, x, r) (steps_of cs n) ->
     StepSem th (val vals f) (val vals x) (val vals r)) /\
  (forall a b, In (a, b) (unifs_of cs) -> Sub H (den th (val vals a)) (den th (val vals b))) /\
  (forall a r, In (a, r) (fixes_of cs n) -> den th (val vals r) = den th (val vals a)).
Proof.
  induction cs as [|c cs IH]; intros n S.
  - cbn. repeat split; intros; contradiction.
  - cbn [prog_semG] in S. destruct S as [Sc Sr]. destruct (IH _ Sr) as (A & C & D).
    destruct c as [sc|f x b|a b sub|a pl]; cbn [steps_of unifs_of fixes_of nxt cmd_semG] in *;
      (split; [|split]); auto.
    + intros f' x' r' [[= <- <- <-]|Hin]; auto.
    + intros a' b' [[= <- <-]|Hin]; auto.
    + intros a' r' [[= <- <-]|Hin]; auto.
Qed.

Lemma JG_empty sc : JG (empty_store sc).
Proof.
  split; [split|].
  - intros v t. unfold cell_of. cbn. destruct v; discriminate.
  - intros v. unfold cell_of. cbn. split; [|split]; intros; destruct v; discriminate.
  - intros c Lc. cbn in Lc. lia.
Qed.

(* ---- the class is well-scoped in the sense of Infer/Inv.v ---- *)
Lemma scg_wf n sc : scg n sc -> sconstr_wf n sc.
Proof.
  destruct sc as [r t st|r alts]; cbn [scg sconstr_wf]; intros (A & B).
  - split; apply (styg_wf H); assumption.
  - split; [apply (styg_wf H); assumption|]. eapply Forall_impl; [|exact B]. intros t. apply (styg_wf H).
Qed.

Lemma progG_wf : forall cs n, progG n cs -> prog_wf n cs.
Proof.
  induction cs as [|c cs IH]; intros n P; cbn [prog_wf]; [exact Logic.I|].
  destruct P as [Pc Pr]. split; [|apply IH; exact Pr].
  destruct Pc as [sc Sb Pc|f x b Lf Lx|a b La Lb|a pl La]; cbn [cmd_wf]; auto.
  split; [apply (styg_wf H); exact Sb|]. eapply Forall_impl; [|exact Pc]. intros k. apply scg_wf.
Qed.

(* ---- the existing classes are sub-classes ---- *)
Lemma psc_scg n sc : psc H n sc -> scg n sc.
Proof.
  destruct sc as [r t st|r alts]; cbn [psc scg]; [|tauto].
  destruct r as [i| |]; try tauto. destruct t as [| |a [|x xs]]; try tauto. intros (Li & Va).
  split; [constructor; exact Li|]. constructor; [rewrite Va; reflexivity|constructor].
Qed.

Lemma pec_scg n sc : pec H n sc -> scg n sc.
Proof.
  destruct sc as [r t st|r alts]; cbn [pec scg]; [tauto|].
  destruct r as [i| |]; try tauto. intros (Li & l & Gl & ->).
  split; [constructor; exact Li|]. apply Forall_forall. intros x Hx. apply in_map_iff in Hx.
  destruct Hx as (b & <- & Hb). rewrite Forall_forall in Gl. destruct (Gl b Hb) as (Vb & _).
  unfold FLg.sb. constructor; [rewrite Vb; reflexivity|constructor].
Qed.

Lemma progE_progG : forall cs n, progE H n cs -> progG n cs.
Proof.
  induction cs as [|c cs IH]; intros n P; cbn [progG]; [exact Logic.I|].
  destruct P as [Pc Pr]. destruct Pc as [sc Sb Pc|f x b Lf Lx]; cbn [nxt].
  - split; [|apply IH; exact Pr]. constructor; [exact Sb|].
    eapply Forall_impl; [|exact Pc]. intros k [Pk|Pk]; [apply psc_scg|apply pec_scg]; exact Pk.
  - split; [|apply IH; exact Pr]. constructor; auto.
Qed.

Lemma progS_progG : forall cs n, progS H n cs -> progG n cs.
Proof.
  induction cs as [|c cs IH]; intros n P; cbn [progG]; [exact Logic.I|].
  destruct P as [Pc Pr]. destruct Pc as [sc Sb Pc|f x b Lf Lx]; cbn [nxt].
  - split; [|apply IH; exact Pr]. constructor; [exact Sb|].
    eapply Forall_impl; [|exact Pc]. intros k Pk. apply psc_scg; exact Pk.
  - split; [|apply IH; exact Pr]. constructor; auto.
Qed.

Lemma progP_progG : forall cs n, progP H n cs -> progG n cs.
Proof.
  induction cs as [|c cs IH]; intros n P; cbn [progG]; [exact Logic.I|].
  destruct P as [Pc Pr]. destruct Pc as [sc Nc Sb|f x b Lf Lx]; cbn [nxt].
  - split; [|apply IH; exact Pr]. constructor; [exact Sb|rewrite Nc; constructor].
  - split; [|apply IH; exact Pr]. constructor; auto.
Qed.

(* ------------------------------------------------------------------ *)
(* the final theorems                                                   *)
(* ------------------------------------------------------------------ *)
Theorem gen_final fuel sc prog vals s : progG 0 prog ->
  run_cmds H fuel prog 0 [] (empty_store sc) = (None, vals, s) ->
  JG s /\ lefG (empty_store sc) s /\ Forall (tg (len s)) vals /\ inv s /\
  forall th, sat th s -> prog_semG th vals prog 0.
Proof.
  intros P R.
  destruct (run_cmds_goodG fuel prog 0 [] (empty_store sc) vals s (JG_empty sc) (Forall_nil _) P R)
    as (I & L & Fv & _ & _ & Sem).
  destruct (engine_inv H fuel sc prog (progG_wf _ _ P) R) as (Iv & _).
  split; [exact I|split; [exact L|split; [exact Fv|split; [exact Iv|exact Sem]]]].
Qed.

(* (i)+(ii): every accepted application step is well typed under EVERY grounding
   that satisfies the final store *)
Theorem gen_sound fuel sc prog vals s : progG 0 prog ->
  run_cmds H fuel prog 0 [] (empty_store sc) = (None, vals, s) ->
  forall th, sat th s -> forall f x r, In (f, x, r) (steps_of prog 0) ->
    StepSem th (val vals f) (val vals x) (val vals r).
Proof.
  intros P R th S. destruct (gen_final fuel sc prog vals s P R) as (_ & _ & _ & _ & Sem).
  apply (prog_semG_obs th vals prog 0 (Sem th S)).
Qed.

(* the unify and fix commands *)
Theorem gen_sound_cmds fuel sc prog vals s : progG 0 prog ->
  run_cmds H fuel prog 0 [] (empty_store sc) = (None, vals, s) ->
  forall th, sat th s ->
  (forall a b, In (a, b) (unifs_of prog) -> Sub H (den th (val vals a)) (den th (val vals b))) /\
  (forall a r, In (a, r) (fixes_of prog 0) -> den th (val vals r) = den th (val vals a)).
Proof.
  intros P R th S. destruct (gen_final fuel sc prog vals s P R) as (_ & _ & _ & _ & Sem).
  apply (prog_semG_obs th vals prog 0 (Sem th S)).
Qed.

(* satisfiability: every assignment of the unresolved variables within their
   reported bounds extends to a grounding that satisfies the final store *)
Theorem JG_extend s g : inv s -> JG s ->
  (forall v, c_bound (cell_of s v) = None -> wf_ty H (g v) /\ inb (cell_of s v) (g v)) ->
  exists th, sat th s /\ forall v, c_bound (cell_of s v) = None -> th v = g v.
Proof.
  intros I (Jv0 & _) Gok.
  assert (J0 : J H (strip s)) by (apply (J_of_Jv H s (strip s) Jv0 eq_refl (nocs_strip s))).
  destruct (sat_extend H W (strip s) g (wsc_strip s (proj2 I eq_refl)) J0 Gok) as (th & S & C).
  exists th. split; [apply (sat_vars H th s (strip s) eq_refl); exact S|exact C].
Qed.

Theorem gen_extend fuel sc prog vals s : progG 0 prog ->
  run_cmds H fuel prog 0 [] (empty_store sc) = (None, vals, s) ->
  forall g, (forall v, c_bound (cell_of s v) = None -> wf_ty H (g v) /\ inb (cell_of s v) (g v)) ->
  exists th, sat th s /\ forall v, c_bound (cell_of s v) = None -> th v = g v.
Proof.
  intros P R g Gok. destruct (gen_final fuel sc prog vals s P R) as (I & _ & _ & Iv & _).
  apply JG_extend; auto.
Qed.

Theorem gen_satisfiable fuel sc prog vals s : progG 0 prog ->
  run_cmds H fuel prog 0 [] (empty_store sc) = (None, vals, s) ->
  exists th, sat th s /\ forall v, c_bound (cell_of s v) = None -> th v = canon s v.
Proof.
  intros P R. destruct (gen_final fuel sc prog vals s P R) as ((Jv0 & _) & _ & _ & Iv & _).
  assert (J0 : J H (strip s)) by (apply (J_of_Jv H s (strip s) Jv0 eq_refl (nocs_strip s))).
  destruct (satisfiable H W (strip s) (wsc_strip s (proj2 Iv eq_refl)) J0) as (th & S & C).
  exists th. split; [apply (sat_vars H th s (strip s) eq_refl); exact S|exact C].
Qed.

(* (iv): a variable that carries a base-type bound is never resolved to a
   compound type *)
Theorem gen_bounded fuel sc prog vals s : progG 0 prog ->
  run_cmds H fuel prog 0 [] (empty_store sc) = (None, vals, s) ->
  forall v t o args, c_bound (cell_of s v) = Some t ->
    (c_lower (cell_of s v) <> None \/ c_upper (cell_of s v) <> None) ->
    follow s t = O o args -> args = [].
Proof.
  intros P R v t o args Hv Hb Ef.
  destruct (gen_final fuel sc prog vals s P R) as (_ & (_ & Fr) & _).
  destruct (gen_satisfiable fuel sc prog vals s P R) as (th & S & _).
  assert (B : isbase (th v)).
  { apply (fr_new _ _ _ Fr v); auto; [|congruence].
    unfold cell_of. cbn. destruct v; reflexivity. }
  destruct (S v) as [_ Sv]. rewrite Hv in Sv.
  rewrite <- (den_follow H th s t S), Ef in Sv. cbn [den] in Sv.
  destruct B as (b & Eb). rewrite Eb in Sv. injection Sv as _ Em.
  destruct args; [reflexivity|discriminate].
Qed.

(* the final store: cells and constraint objects *)
Theorem gen_final_cells fuel sc prog vals s : progG 0 prog ->
  run_cmds H fuel prog 0 [] (empty_store sc) = (None, vals, s) ->
  (forall v t, c_bound (cell_of s v) = Some t -> tg (len s) t) /\
  (forall v, bok (cell_of s v)) /\
  (forall c, c < length (constrs s) ->
     tg (len s) (k_ref (constr_of s c)) /\ Forall (tg (len s)) (k_alts (constr_of s c))) /\
  Forall (tg (len s)) vals.
Proof.
  intros P R. destruct (gen_final fuel sc prog vals s P R) as (((A & B) & Cw) & _ & Fv & _).
  split; [exact A|split; [exact B|split; [exact Cw|exact Fv]]].
Qed.

End SoundG.
