(* C16: the result of running a program on the engine model does not depend on
   what the store already contains (the frame property).

   [glue s0 s] is the store s0 extended by the image of s under the index
   shift (variables by |vars s0|, constraint sets by |csets s0|, constraints
   by |constrs s0|).  Every engine operation commutes with [glue s0]:
   running the operation with shifted arguments in [glue s0 s] gives the
   shifted result and the store [glue s0 s'], where s' is what the operation
   leaves when run in s - on success and on failure alike, with the same
   error.  s0 is completely arbitrary (no invariant is needed for the old
   part: nothing in the shifted image refers to it).  The small store s has
   to satisfy the invariant [inv] of Infer/Inv.v ([follow] uses a fuel that
   depends on the size of the store, and out-of-range indices read default
   values that do not shift), so the simulation carries [inv] along, in the
   style of the program logic of Inv.v: [sim] = [ok] + the commutation
   equation.  One induction on fuel over the conjunction of the simulation
   statements for unify / bind / above / below / check_constraints / fulfill /
   minimize / fix_ty, then instance, apply, run_cmd, run_cmds. *)
From Coq Require Import List Arith Bool Lia.
Import ListNotations.
From TF Require Import Base.Hier Base.Ty Infer.Store Infer.Engine Infer.Run Infer.Inv.

(* ------------------------------------------------------------------ *)
(* shifting                                                             *)
(* ------------------------------------------------------------------ *)
Fixpoint shift_tyv (d : nat) (t : tyv) : tyv :=
  match t with
  | V v => V (d + v)
  | O o args => O o (map (shift_tyv d) args)
  end.

Definition shift_cell (d e : nat) (c : cell) : cell :=
  mkCell (c_wild c) (option_map (shift_tyv d) (c_bound c)) (c_lower c) (c_upper c) (e + c_cs c).

Definition shift_constr (d : nat) (k : constr) : constr :=
  mkConstr (k_elim k) (shift_tyv d (k_ref k)) (map (shift_tyv d) (k_alts k)) (k_strict k) (k_done k).

Definition shift_cset (e : nat) (l : list nat) : list nat := map (Nat.add e) l.

(* s0 extended by the shifted image of s *)
Definition glue (s0 s : store) : store :=
  mkStore (vars s0 ++ map (shift_cell (length (vars s0)) (length (csets s0))) (vars s))
          (csets s0 ++ map (shift_cset (length (constrs s0))) (csets s))
          (constrs s0 ++ map (shift_constr (length (vars s0))) (constrs s))
          (sched s).

(* [Ext s0 s1 s2]: s1 is s0 extended by the shifted image of s2 *)
Record Ext (s0 s1 s2 : store) : Prop := mkExt' {
  Ext_vars : vars s1 = vars s0 ++ map (shift_cell (length (vars s0)) (length (csets s0))) (vars s2);
  Ext_csets : csets s1 = csets s0 ++ map (map (Nat.add (length (constrs s0)))) (csets s2);
  Ext_constrs : constrs s1 = constrs s0 ++ map (shift_constr (length (vars s0))) (constrs s2);
  Ext_sched : sched s1 = sched s2
}.

Lemma Ext_glue s0 s : Ext s0 (glue s0 s) s.
Proof. constructor; reflexivity. Qed.

Lemma Ext_is_glue s0 s1 s2 : Ext s0 s1 s2 -> s1 = glue s0 s2.
Proof. intros [a b c d]. destruct s1; cbn in *; subst. reflexivity. Qed.

Definition rmap {A B} (f : A -> B) (r : res A) : res B :=
  match r with Ok a => Ok (f a) | Er e => Er e end.

(* ------------------------------------------------------------------ *)
(* list facts                                                           *)
(* ------------------------------------------------------------------ *)
Lemma nth_glue {A} (f : A -> A) (d : A) (l0 l : list A) i :
  i < length l -> nth (length l0 + i) (l0 ++ map f l) d = f (nth i l d).
Proof.
  intros L. rewrite app_nth2 by lia. replace (length l0 + i - length l0) with i by lia.
  rewrite (nth_indep _ d (f d)) by (rewrite map_length; exact L). apply map_nth.
Qed.

Lemma nth_glue_oob {A} (f : A -> A) (d : A) (l0 l : list A) i :
  length l <= i -> nth (length l0 + i) (l0 ++ map f l) d = d.
Proof. intros L. apply nth_overflow. rewrite app_length, map_length. lia. Qed.

Lemma upd_app_r {A} (x : A) : forall l0 l i, upd (length l0 + i) x (l0 ++ l) = l0 ++ upd i x l.
Proof. induction l0 as [|y l0 IH]; intros l i; cbn; [reflexivity|]. destruct l0; cbn in *; f_equal; apply IH. Qed.

Lemma upd_map {A} (f : A -> A) (x : A) : forall l i, upd i (f x) (map f l) = map f (upd i x l).
Proof. induction l as [|y l IH]; intros [|i]; cbn; auto. f_equal. apply IH. Qed.

Lemma upd_glue {A} (f : A -> A) (x : A) l0 l i :
  upd (length l0 + i) (f x) (l0 ++ map f l) = l0 ++ map f (upd i x l).
Proof. rewrite upd_app_r, upd_map. reflexivity. Qed.

Lemma upd_oob {A} (x : A) : forall l i, length l <= i -> upd i x l = l.
Proof. induction l as [|y l IH]; intros [|i] L; cbn in *; auto; try lia. f_equal. apply IH. lia. Qed.

Lemma ins_shift d x : forall l, ins (d + x) (map (Nat.add d) l) = map (Nat.add d) (ins x l).
Proof.
  induction l as [|y l IH]; cbn [ins map]; [reflexivity|].
  replace (d + x <? d + y) with (x <? y)
    by (destruct (Nat.ltb_spec x y), (Nat.ltb_spec (d + x) (d + y)); auto; lia).
  replace (d + x =? d + y) with (x =? y)
    by (destruct (Nat.eqb_spec x y), (Nat.eqb_spec (d + x) (d + y)); auto; lia).
  destruct (x <? y); [reflexivity|]. destruct (x =? y); [reflexivity|].
  cbn [map]. f_equal. exact IH.
Qed.

Lemma union_shift d : forall a b,
  union (map (Nat.add d) a) (map (Nat.add d) b) = map (Nat.add d) (union a b).
Proof.
  unfold union. induction a as [|x a IH]; intros b; cbn [map fold_right]; [reflexivity|].
  rewrite IH. apply ins_shift.
Qed.

Lemma remove_nat_shift d x l :
  remove_nat (d + x) (map (Nat.add d) l) = map (Nat.add d) (remove_nat x l).
Proof.
  unfold remove_nat. induction l as [|y l IH]; cbn [map filter]; [reflexivity|].
  replace (d + x =? d + y) with (x =? y)
    by (destruct (Nat.eqb_spec x y), (Nat.eqb_spec (d + x) (d + y)); auto; lia).
  destruct (x =? y); cbn [negb map]; [exact IH|f_equal; exact IH].
Qed.

Lemma mem_shift d x l : mem (d + x) (map (Nat.add d) l) = mem x l.
Proof.
  unfold mem. induction l as [|y l IH]; cbn [map existsb]; [reflexivity|].
  replace (d + x =? d + y) with (x =? y)
    by (destruct (Nat.eqb_spec x y), (Nat.eqb_spec (d + x) (d + y)); auto; lia).
  rewrite IH. reflexivity.
Qed.

Lemma remove_nth_map {A B} (f : A -> B) : forall l i, remove_nth i (map f l) = map f (remove_nth i l).
Proof. induction l as [|y l IH]; intros [|i]; cbn; auto. f_equal. apply IH. Qed.

Lemma permute_S f r (l : list nat) : l <> [] ->
  permute (S f) r l = nth (r mod length l) l 0 :: permute f (r / length l) (remove_nth (r mod length l) l).
Proof. destruct l; [congruence|reflexivity]. Qed.

Lemma permute_shift d : forall fuel r l,
  permute fuel r (map (Nat.add d) l) = map (Nat.add d) (permute fuel r l).
Proof.
  induction fuel as [|f IH]; intros r l; [reflexivity|].
  destruct l as [|x l']; [reflexivity|].
  set (l := x :: l').
  assert (Hn : length l <> 0) by (subst l; cbn; lia).
  rewrite (permute_S f r l) by (subst l; discriminate).
  rewrite permute_S by (subst l; discriminate).
  rewrite map_length. cbn [map]. f_equal.
  - rewrite (nth_indep _ 0 (d + 0)) by (rewrite map_length; apply Nat.mod_upper_bound; exact Hn).
    apply map_nth.
  - rewrite remove_nth_map. apply IH.
Qed.

Lemma filter_map_comm {A B} (f : A -> B) (p : B -> bool) (q : A -> bool) l :
  (forall x, p (f x) = q x) -> filter p (map f l) = map f (filter q l).
Proof.
  intros E. induction l as [|y l IH]; cbn; [reflexivity|]. rewrite E.
  destruct (q y); cbn; [f_equal|]; exact IH.
Qed.

Lemma flat_map_map_in {A B C} (f : A -> A) (h : B -> C) (g' : A -> list C) (g : A -> list B) : forall l,
  (forall x, In x l -> g' (f x) = map h (g x)) -> flat_map g' (map f l) = map h (flat_map g l).
Proof.
  induction l as [|y l IH]; intros E; cbn; [reflexivity|].
  rewrite map_app, E by (left; reflexivity). f_equal. apply IH. intros x Hx. apply E. right. exact Hx.
Qed.

(* ------------------------------------------------------------------ *)
(* the store primitives commute with the extension                      *)
(* ------------------------------------------------------------------ *)
Section Frame.
Variable s0 : store.
Notation dv := (length (vars s0)).
Notation dc := (length (csets s0)).
Notation dk := (length (constrs s0)).
Notation sh := (shift_tyv dv).
Notation shc := (shift_cell dv dc).
Notation shk := (shift_constr dv).
Notation G := (glue s0).

Lemma vars_G s : vars (G s) = vars s0 ++ map shc (vars s). Proof. reflexivity. Qed.
Lemma len_vars_G s : length (vars (G s)) = dv + length (vars s).
Proof. cbn. rewrite app_length, map_length. reflexivity. Qed.
Lemma len_csets_G s : length (csets (G s)) = dc + length (csets s).
Proof. cbn. rewrite app_length, map_length. reflexivity. Qed.
Lemma len_constrs_G s : length (constrs (G s)) = dk + length (constrs s).
Proof. cbn. rewrite app_length, map_length. reflexivity. Qed.

Lemma cell_G s v : v < length (vars s) -> cell_of (G s) (dv + v) = shc (cell_of s v).
Proof. intros L. unfold cell_of. cbn [vars glue]. apply nth_glue. exact L. Qed.

Lemma cell_G_oob s v : length (vars s) <= v -> cell_of (G s) (dv + v) = dcell.
Proof. intros L. unfold cell_of. cbn [vars glue]. apply nth_glue_oob. exact L. Qed.

(* all fields but c_cs shift unconditionally *)
Lemma bound_G s v : c_bound (cell_of (G s) (dv + v)) = option_map sh (c_bound (cell_of s v)).
Proof.
  destruct (Nat.lt_ge_cases v (length (vars s))) as [L|L].
  - rewrite cell_G by exact L. reflexivity.
  - rewrite cell_G_oob, cell_of_oob by exact L. reflexivity.
Qed.
Lemma wild_G s v : c_wild (cell_of (G s) (dv + v)) = c_wild (cell_of s v).
Proof.
  destruct (Nat.lt_ge_cases v (length (vars s))) as [L|L].
  - rewrite cell_G by exact L. reflexivity.
  - rewrite cell_G_oob, cell_of_oob by exact L. reflexivity.
Qed.
Lemma lower_G s v : c_lower (cell_of (G s) (dv + v)) = c_lower (cell_of s v).
Proof.
  destruct (Nat.lt_ge_cases v (length (vars s))) as [L|L].
  - rewrite cell_G by exact L. reflexivity.
  - rewrite cell_G_oob, cell_of_oob by exact L. reflexivity.
Qed.
Lemma upper_G s v : c_upper (cell_of (G s) (dv + v)) = c_upper (cell_of s v).
Proof.
  destruct (Nat.lt_ge_cases v (length (vars s))) as [L|L].
  - rewrite cell_G by exact L. reflexivity.
  - rewrite cell_G_oob, cell_of_oob by exact L. reflexivity.
Qed.
Lemma cs_G s v : v < length (vars s) -> c_cs (cell_of (G s) (dv + v)) = dc + c_cs (cell_of s v).
Proof. intros L. rewrite cell_G by exact L. reflexivity. Qed.

Lemma cset_G s i : cset_of (G s) (dc + i) = shift_cset dk (cset_of s i).
Proof.
  unfold cset_of. cbn [csets glue].
  destruct (Nat.lt_ge_cases i (length (csets s))) as [L|L].
  - apply nth_glue. exact L.
  - rewrite nth_glue_oob by exact L. rewrite (nth_overflow (csets s)) by exact L. reflexivity.
Qed.

Lemma constr_G s c : c < length (constrs s) -> constr_of (G s) (dk + c) = shk (constr_of s c).
Proof. intros L. unfold constr_of. cbn [constrs glue]. apply nth_glue. exact L. Qed.

Lemma set_cell_G s v c : set_cell (G s) (dv + v) (shc c) = G (set_cell s v c).
Proof. unfold set_cell, glue. cbn [vars csets constrs sched]. rewrite upd_glue. reflexivity. Qed.

Lemma set_cell_oob s v c : length (vars s) <= v -> set_cell s v c = s.
Proof. intros L. unfold set_cell. rewrite upd_oob by exact L. destruct s; reflexivity. Qed.

Lemma set_cset_G s i l : set_cset (G s) (dc + i) (shift_cset dk l) = G (set_cset s i l).
Proof. unfold set_cset, glue. cbn [vars csets constrs sched]. rewrite upd_glue. reflexivity. Qed.

Lemma set_constr_G s c k : set_constr (G s) (dk + c) (shk k) = G (set_constr s c k).
Proof. unfold set_constr, glue. cbn [vars csets constrs sched]. rewrite upd_glue. reflexivity. Qed.

Lemma set_constr_oob s c k : length (constrs s) <= c -> set_constr s c k = s.
Proof. intros L. unfold set_constr. rewrite upd_oob by exact L. destruct s; reflexivity. Qed.

(* an update of a cell by a function that commutes with the shift *)
Lemma upd_cell_G (g g' : cell -> cell) s v :
  (forall c, g' (shc c) = shc (g c)) ->
  set_cell (G s) (dv + v) (g' (cell_of (G s) (dv + v))) = G (set_cell s v (g (cell_of s v))).
Proof.
  intros E. destruct (Nat.lt_ge_cases v (length (vars s))) as [L|L].
  - rewrite cell_G by exact L. rewrite E. apply set_cell_G.
  - rewrite (set_cell_oob s) by exact L. apply set_cell_oob. rewrite len_vars_G. lia.
Qed.

Lemma upd_constr_G (g g' : constr -> constr) s c :
  (forall k, g' (shk k) = shk (g k)) ->
  set_constr (G s) (dk + c) (g' (constr_of (G s) (dk + c))) = G (set_constr s c (g (constr_of s c))).
Proof.
  intros E. destruct (Nat.lt_ge_cases c (length (constrs s))) as [L|L].
  - rewrite constr_G by exact L. rewrite E. apply set_constr_G.
  - rewrite (set_constr_oob s) by exact L. apply set_constr_oob. rewrite len_constrs_G. lia.
Qed.

Lemma alloc_var_G s w :
  alloc_var (G s) w = (dv + length (vars s), G (snd (alloc_var s w))).
Proof.
  unfold alloc_var. rewrite len_vars_G, len_csets_G. cbn [snd]. f_equal.
  unfold glue. cbn [vars csets constrs sched]. rewrite !map_app, !app_assoc. reflexivity.
Qed.

Lemma alloc_constr_G s k :
  alloc_constr (G s) (shk k) = (dk + length (constrs s), G (snd (alloc_constr s k))).
Proof.
  unfold alloc_constr. rewrite len_constrs_G. cbn [snd]. f_equal.
  unfold glue. cbn [vars csets constrs sched]. rewrite !map_app, !app_assoc. reflexivity.
Qed.

Lemma sched_G s : sched (G s) = sched s. Proof. reflexivity. Qed.

Lemma G_sched s r :
  mkStore (vars (G s)) (csets (G s)) (constrs (G s)) r = G (mkStore (vars s) (csets s) (constrs s) r).
Proof. reflexivity. Qed.

(* the old part is literally untouched *)
Lemma cell_G_old s v : v < dv -> cell_of (G s) v = cell_of s0 v.
Proof. intros L. unfold cell_of. cbn [vars glue]. apply app_nth1. exact L. Qed.
Lemma cset_G_old s i : i < dc -> cset_of (G s) i = cset_of s0 i.
Proof. intros L. unfold cset_of. cbn [csets glue]. apply app_nth1. exact L. Qed.
Lemma constr_G_old s c : c < dk -> constr_of (G s) c = constr_of s0 c.
Proof. intros L. unfold constr_of. cbn [constrs glue]. apply app_nth1. exact L. Qed.

(* ------------------------------------------------------------------ *)
(* the pure readers                                                     *)
(* ------------------------------------------------------------------ *)
Lemma follow_f_G s : forall fuel t, follow_f fuel (G s) (sh t) = sh (follow_f fuel s t).
Proof.
  induction fuel as [|f IH]; intros [v|o args]; cbn [follow_f shift_tyv]; try reflexivity.
  - rewrite bound_G. destruct (c_bound (cell_of s v)); reflexivity.
  - rewrite bound_G. destruct (c_bound (cell_of s v)) as [t'|]; cbn [option_map]; [apply IH|reflexivity].
Qed.

Lemma follow_f_enough s t l : chainl s t l -> forall f1 f2, length l <= f1 -> length l <= f2 ->
  follow_f f1 s t = follow_f f2 s t.
Proof.
  induction 1 as [v Hv|v t l Hv Hc IH|o args]; intros f1 f2 L1 L2.
  - destruct f1, f2; cbn; rewrite Hv; reflexivity.
  - destruct f1 as [|f1], f2 as [|f2]; cbn in L1, L2; try lia. cbn. rewrite Hv. apply IH; lia.
  - destruct f1, f2; reflexivity.
Qed.

Lemma follow_G s t : core s -> follow (G s) (sh t) = sh (follow s t).
Proof.
  intros C. unfold follow. rewrite follow_f_G. f_equal. rewrite len_vars_G.
  destruct t as [v|o args]; [|reflexivity].
  destruct (core_chain C v) as (l & Cl). pose proof (chainl_length Cl).
  eapply follow_f_enough; eauto; lia.
Qed.

Lemma map_follow_G s l : core s -> map (follow (G s)) (map sh l) = map sh (map (follow s) l).
Proof.
  intros C. rewrite !map_map. apply map_ext. intros t. apply follow_G. exact C.
Qed.

Section Readers.
Variable H : hier.

Lemma eqb_shift a b : (dv + a =? dv + b) = (a =? b).
Proof. destruct (Nat.eqb_spec a b), (Nat.eqb_spec (dv + a) (dv + b)); auto; lia. Qed.

Lemma match_f_G s : core s -> forall fuel sub aw a b,
  match_f H fuel (G s) sub aw (sh a) (sh b) = match_f H fuel s sub aw a b.
Proof.
  intros C. induction fuel as [|f IH]; intros sub aw a b; cbn [match_f]; [reflexivity|].
  rewrite !follow_G by exact C.
  destruct (follow s a) as [va|oa xs]; destruct (follow s b) as [vb|ob ys]; cbn [shift_tyv].
  - rewrite !wild_G, lower_G, upper_G, eqb_shift. reflexivity.
  - rewrite !wild_G, lower_G, upper_G. reflexivity.
  - rewrite !wild_G, lower_G, upper_G. reflexivity.
  - destruct (sub && ((oa =? Bottom) || (ob =? Top))); [reflexivity|].
    destruct (basic H oa); [reflexivity|]. destruct (negb (oa =? ob)); [reflexivity|].
    generalize (Some true) as acc. generalize (variance H oa) as vs. revert ys.
    induction xs as [|x xs IHx]; intros ys vs acc; destruct vs as [|v vs]; try reflexivity;
      destruct ys as [|y ys]; try reflexivity.
    cbn [map]. destruct v; rewrite IH.
    + destruct (match_f H f s sub aw x y) as [[[|]|]|]; auto.
    + destruct (match_f H f s sub aw y x) as [[[|]|]|]; auto.
Qed.

Lemma occurs_f_G s : core s -> forall fuel a b,
  occurs_f H fuel (G s) (sh a) (sh b) = occurs_f H fuel s a b.
Proof.
  intros C. induction fuel as [|f IH]; intros a b; cbn [occurs_f]; [reflexivity|].
  rewrite !follow_G by exact C. rewrite match_f_G by exact C.
  destruct (match_f H f s false false (follow s a) (follow s b)) as [r|e]; [|reflexivity].
  assert (E : match sh (follow s a) with
       | V _ => Ok false
       | O _ args =>
           (fix go (l : list tyv) : res bool :=
              match l with
              | [] => Ok false
              | t :: r0 =>
                  match occurs_f H f (G s) t (sh (follow s b)) with
                  | Ok true => Ok true
                  | Ok false => go r0
                  | Er e0 => Er e0
                  end
              end) args
       end = match follow s a with
       | V _ => Ok false
       | O _ args =>
           (fix go (l : list tyv) : res bool :=
              match l with
              | [] => Ok false
              | t :: r0 =>
                  match occurs_f H f s t (follow s b) with
                  | Ok true => Ok true
                  | Ok false => go r0
                  | Er e0 => Er e0
                  end
              end) args
       end).
  { destruct (follow s a) as [va|oa xs]; cbn [shift_tyv]; [reflexivity|].
    induction xs as [|x xs IHx]; [reflexivity|]. cbn [map]. rewrite IH.
    destruct (occurs_f H f s x (follow s b)) as [[|]|]; auto. }
  destruct r as [[|]|]; auto.
Qed.

Notation shv := (map (Nat.add dv)).

Lemma vars_f_G s : core s -> forall fuel t acc,
  vars_f fuel (G s) (sh t) (shv acc) = rmap shv (vars_f fuel s t acc).
Proof.
  intros C. induction fuel as [|f IH]; intros t acc; cbn [vars_f]; [reflexivity|].
  rewrite follow_G by exact C.
  destruct (follow s t) as [v|o args]; cbn [shift_tyv].
  - cbn [rmap]. rewrite ins_shift. reflexivity.
  - revert acc. induction args as [|x xs IHx]; intros acc; [reflexivity|].
    cbn [map]. rewrite IH. destruct (vars_f f s x acc) as [acc'|e]; cbn [rmap]; [apply IHx|reflexivity].
Qed.

(* the variables found are in scope *)
Lemma vars_f_scope s : wsc s -> forall fuel t acc r,
  tsc (length (vars s)) t -> Forall (fun v => v < length (vars s)) acc ->
  vars_f fuel s t acc = Ok r -> Forall (fun v => v < length (vars s)) r.
Proof.
  intros W. induction fuel as [|f IH]; intros t acc r St Sa; cbn [vars_f]; [discriminate|].
  pose proof (follow_f_tsc W (S (length (vars s))) St) as Sf. fold (follow s t) in Sf.
  destruct (follow s t) as [v|o args].
  - intros X; inversion X; subst. apply Forall_ins; auto. apply tsc_var. exact Sf.
  - apply tsc_args in Sf. revert acc Sa. induction Sf as [|x xs Sx Sxs IHx]; intros acc Sa.
    + intros X; inversion X; subst; auto.
    + destruct (vars_f f s x acc) as [acc'|e'] eqn:E; [|discriminate]. apply IHx. eapply IH; eauto.
Qed.

Lemma constr_terms_shk k : constr_terms (shk k) = map sh (constr_terms k).
Proof. reflexivity. Qed.

Lemma closure_f_G s : inv s -> forall fuel todo seen,
  Forall (tsc (length (vars s))) todo ->
  closure_f fuel (G s) (map sh todo) (shv seen) = rmap shv (closure_f fuel s todo seen).
Proof.
  intros I. pose proof (inv_core I) as C. pose proof (inv_wsc I) as W.
  induction fuel as [|f IH]; intros todo seen St; [reflexivity|].
  cbn [closure_f]. destruct todo as [|t rest]; [reflexivity|]. cbn [map].
  inversion St as [|? ? St1 St2]; subst.
  change (@nil nat) with (shv []) at 1. rewrite vars_f_G by exact C.
  destruct (vars_f (S f) s t []) as [vs|e] eqn:Ev; cbn [rmap]; [|reflexivity].
  assert (Sv : Forall (fun v => v < length (vars s)) vs).
  { eapply vars_f_scope; eauto. }
  rewrite (filter_map_comm (Nat.add dv) _ (fun v => negb (mem v seen))) by (intros x; rewrite mem_shift; reflexivity).
  rewrite union_shift.
  set (new := filter (fun v => negb (mem v seen)) vs).
  assert (Sn : Forall (fun v => v < length (vars s)) new).
  { unfold new. rewrite Forall_forall in *. intros x Hx. apply filter_In in Hx. apply Sv. tauto. }
  rewrite (flat_map_map_in (Nat.add dv) sh _
            (fun v => flat_map (fun c => constr_terms (constr_of s c)) (cset_of s (c_cs (cell_of s v))))).
  2:{ intros v Hv. rewrite Forall_forall in Sn. rewrite cs_G by (apply Sn; exact Hv).
      rewrite cset_G. unfold shift_cset.
      apply flat_map_map_in. intros c Hc. rewrite constr_G by (eapply (core_cs C); eauto).
      apply constr_terms_shk. }
  rewrite <- map_app. apply IH.
  apply Forall_app. split; [|exact St2].
  rewrite Forall_forall. intros x Hx. apply in_flat_map in Hx. destruct Hx as (v & Hv & Hx).
  apply in_flat_map in Hx. destruct Hx as (c & Hc & Hx).
  pose proof (sc_constr W (c := c)) as F. rewrite Forall_forall in F. apply F; auto.
  eapply (core_cs C); eauto.
Qed.
End Readers.


(* ------------------------------------------------------------------ *)
(* the simulation logic: [ok] of Inv.v plus the commutation equation    *)
(* ------------------------------------------------------------------ *)
Section Sim.
Variable H : hier.
Local Notation inv := (invb true).
Local Notation sct := (Inv.sct true).
Local Notation scv := (Inv.scv true).
Local Notation noccb := (Inv.noccb true).
Local Notation shv := (map (Nat.add dv)).
Local Notation shks := (map (Nat.add dk)).

(* [sim f sb m m' Q s]: m run in s ends in a store s' that satisfies the
   invariant and extends sb (and Q on success), and m' run in [G s] ends the
   same way, in [G s'], with the result mapped by f *)
Definition sim {A} (f : A -> A) (sb : store) (m m' : M A) (Q : A -> store -> Prop) (s : store) : Prop :=
  match m s with
  | MOk a s' => inv s' /\ ext sb s' /\ Q a s' /\ m' (G s) = MOk (f a) (G s')
  | MEr e s' => inv s' /\ ext sb s' /\ m' (G s) = MEr e (G s')
  end.

Lemma sim_ret {A} (f : A -> A) sb (a : A) (Q : A -> store -> Prop) s :
  inv s -> ext sb s -> Q a s -> sim f sb (ret a) (ret (f a)) Q s.
Proof. unfold sim, ret. auto. Qed.

Lemma sim_fail {A} (f : A -> A) sb e (Q : A -> store -> Prop) s :
  inv s -> ext sb s -> sim f sb (fail e) (fail e) Q s.
Proof. unfold sim, fail. auto. Qed.

Lemma sim_bind {A B} (fA : A -> A) (fB : B -> B) sb (m m' : M A) (k k' : A -> M B) Q1
    (Q : B -> store -> Prop) s :
  sim fA sb m m' Q1 s ->
  (forall a s1, inv s1 -> ext sb s1 -> Q1 a s1 -> sim fB sb (k a) (k' (fA a)) Q s1) ->
  sim fB sb (bindM m k) (bindM m' k') Q s.
Proof.
  unfold sim, bindM. destruct (m s) as [a s1|e s1].
  - intros (I & E & HQ & ->) K. apply K; auto.
  - intros (I & E & ->) K. auto.
Qed.

Lemma sim_bind_id {A B} (fB : B -> B) sb (m m' : M A) (k k' : A -> M B) Q1
    (Q : B -> store -> Prop) s :
  sim (fun x => x) sb m m' Q1 s ->
  (forall a s1, inv s1 -> ext sb s1 -> Q1 a s1 -> sim fB sb (k a) (k' a) Q s1) ->
  sim fB sb (bindM m k) (bindM m' k') Q s.
Proof. intros M1 K. eapply sim_bind; [exact M1|exact K]. Qed.

Lemma sim_conseq {A} (f : A -> A) sb (m m' : M A) (Q1 Q : A -> store -> Prop) s :
  sim f sb m m' Q1 s -> (forall a s1, inv s1 -> ext sb s1 -> Q1 a s1 -> Q a s1) -> sim f sb m m' Q s.
Proof.
  unfold sim. destruct (m s) as [a s1|e s1]; [|auto]. intros (I & E & HQ & Eq) K. auto.
Qed.

Lemma sim_gets {A B} (fB : B -> B) sb (g g' : store -> A) (k k' : A -> M B) (Q : B -> store -> Prop) s :
  sim fB sb (k (g s)) (k' (g' (G s))) Q s -> sim fB sb (bindM (gets g) k) (bindM (gets g') k') Q s.
Proof. unfold sim, bindM, gets. auto. Qed.

Lemma sim_gets_end {A} (f : A -> A) sb (g g' : store -> A) (Q : A -> store -> Prop) s :
  inv s -> ext sb s -> Q (g s) s -> g' (G s) = f (g s) -> sim f sb (gets g) (gets g') Q s.
Proof. unfold sim, gets. intros I E HQ ->. auto. Qed.

Lemma sim_modify {B} (fB : B -> B) sb (g g' : store -> store) (k k' : unit -> M B) (Q : B -> store -> Prop) s :
  g' (G s) = G (g s) -> sim fB sb (k tt) (k' tt) Q (g s) ->
  sim fB sb (bindM (modify g) k) (bindM (modify g') k') Q s.
Proof. unfold sim, bindM, modify. intros ->. auto. Qed.

Lemma sim_modify_end sb (g g' : store -> store) (Q : unit -> store -> Prop) s :
  g' (G s) = G (g s) -> inv (g s) -> ext sb (g s) -> Q tt (g s) ->
  sim (fun x => x) sb (modify g) (modify g') Q s.
Proof. unfold sim, modify. intros ->. auto. Qed.

Lemma sim_lift {A B} (fA : A -> A) (fB : B -> B) sb (r r' : store -> res A) (k k' : A -> M B)
    (Q : B -> store -> Prop) s :
  inv s -> ext sb s -> r' (G s) = rmap fA (r s) ->
  (forall a, r s = Ok a -> sim fB sb (k a) (k' (fA a)) Q s) ->
  sim fB sb (bindM (lift r) k) (bindM (lift r') k') Q s.
Proof.
  unfold sim, bindM, lift. intros I E -> K. destruct (r s) as [a|e]; cbn [rmap].
  - apply K. reflexivity.
  - auto.
Qed.

Lemma rmap_id {A} (r : res A) : rmap (fun x => x) r = r.
Proof. destruct r; reflexivity. Qed.

Lemma sim_lift_id {A B} (fB : B -> B) sb (r r' : store -> res A) (k k' : A -> M B)
    (Q : B -> store -> Prop) s :
  inv s -> ext sb s -> r' (G s) = r s ->
  (forall a, r s = Ok a -> sim fB sb (k a) (k' a) Q s) ->
  sim fB sb (bindM (lift r) k) (bindM (lift r') k') Q s.
Proof.
  intros I E Er K. apply sim_lift with (fA := fun x => x); auto. rewrite rmap_id. exact Er.
Qed.

Lemma sim_lift_end {A} (fA : A -> A) sb (r r' : store -> res A) (Q : A -> store -> Prop) s :
  inv s -> ext sb s -> r' (G s) = rmap fA (r s) ->
  (forall a, r s = Ok a -> Q a s) -> sim fA sb (lift r) (lift r') Q s.
Proof.
  unfold sim, lift. intros I E -> K. destruct (r s) as [a|e]; cbn [rmap]; auto.
Qed.

Lemma sim_forM {A} (fx : A -> A) sb (J : store -> Prop) (f f' : A -> M unit) : forall l s,
  inv s -> ext sb s -> J s ->
  (forall x s1, In x l -> inv s1 -> ext sb s1 -> J s1 ->
     sim (fun u => u) sb (f x) (f' (fx x)) (fun _ s2 => J s2) s1) ->
  sim (fun u => u) sb (forM l f) (forM (map fx l) f') (fun _ s2 => J s2) s.
Proof.
  induction l as [|x l IH]; intros s I E HJ F; cbn [forM map].
  - apply (sim_ret (fun u => u)); auto.
  - eapply sim_bind_id; [apply F; cbn; auto|].
    intros u s1 I1 E1 J1. apply IH; auto. intros y s2 Hy. apply F. cbn; auto.
Qed.

Lemma sim_use {A} (f : A -> A) sb (m m' : M A) (Q : A -> store -> Prop) s :
  ext sb s -> sim f s m m' Q s -> sim f sb m m' (fun a s' => Q a s' /\ ext s s') s.
Proof.
  unfold sim. intros E. destruct (m s) as [a s1|e s1].
  - intros (I1 & E1 & HQ & Eq). repeat split; auto. eapply ext_trans; eauto.
  - intros (I1 & E1 & Eq). repeat split; auto. eapply ext_trans; eauto.
Qed.

Lemma sim_next_choice {B} (fB : B -> B) sb (k k' : nat -> M B) (Q : B -> store -> Prop) s :
  inv s -> ext sb s ->
  (forall r s1, inv s1 -> ext sb s1 -> ext s s1 -> vars s1 = vars s -> csets s1 = csets s ->
                constrs s1 = constrs s -> sim fB sb (k r) (k' r) Q s1) ->
  sim fB sb (bindM next_choice k) (bindM next_choice k') Q s.
Proof.
  intros I E K. unfold sim, bindM, next_choice. rewrite sched_G. destruct (sched s) as [|r rest].
  - apply K; auto using ext_refl.
  - rewrite G_sched. apply K; auto using inv_sched, ext_sched. eapply ext_trans; eauto using ext_sched.
Qed.

Lemma sim_upd_cell {B} (fB : B -> B) sb v g g' (k k' : unit -> M B) (Q : B -> store -> Prop) s :
  inv s -> ext sb s -> (forall c, c_bound (g c) = c_bound c) -> (forall c, c_cs (g c) = c_cs c) ->
  c_lower (g (cell_of s v)) <> Some Top -> c_upper (g (cell_of s v)) <> Some Bottom ->
  (forall c, g' (shc c) = shc (g c)) ->
  (forall s1, s1 = set_cell s v (g (cell_of s v)) -> inv s1 -> ext sb s1 -> ext s s1 ->
              sim fB sb (k tt) (k' tt) Q s1) ->
  sim fB sb (bindM (upd_cell v g) k) (bindM (upd_cell (dv + v) g') k') Q s.
Proof.
  intros I E Hb Hc Hl Hu Hg K. unfold upd_cell. apply sim_modify; [apply upd_cell_G; exact Hg|].
  assert (E1 : ext s (set_cell s v (g (cell_of s v)))).
  { apply ext_set_cell. intros t. rewrite Hb. auto. }
  apply K; auto.
  - apply inv_set_cell; auto.
    + intros t. rewrite Hb. apply sct_of_bound. exact I.
    + intros Bt L. rewrite Hc. apply (sc_cs (proj2 I Bt)). exact L.
  - eapply ext_trans; [exact E|exact E1].
Qed.

Lemma sim_set_cs {B} (fB : B -> B) sb v i (k k' : unit -> M B) (Q : B -> store -> Prop) s :
  inv s -> ext sb s -> i < length (csets s) ->
  (forall s1, inv s1 -> ext sb s1 -> ext s s1 -> sim fB sb (k tt) (k' tt) Q s1) ->
  sim fB sb (bindM (set_cs v i) k) (bindM (set_cs (dv + v) (dc + i)) k') Q s.
Proof.
  intros I E Hi K. unfold set_cs, upd_cell. apply sim_modify; [apply upd_cell_G; reflexivity|].
  assert (E1 : ext s (set_cell s v (mkCell (c_wild (cell_of s v)) (c_bound (cell_of s v))
                 (c_lower (cell_of s v)) (c_upper (cell_of s v)) i))).
  { apply ext_set_cell. cbn. auto. }
  apply K; auto using inv_set_cs. eapply ext_trans; eauto.
Qed.

Lemma sim_set_cs_end sb v i (Q : unit -> store -> Prop) s :
  inv s -> ext sb s -> i < length (csets s) ->
  (forall s1, inv s1 -> ext sb s1 -> ext s s1 -> Q tt s1) ->
  sim (fun u => u) sb (set_cs v i) (set_cs (dv + v) (dc + i)) Q s.
Proof.
  intros I E Hi K. unfold set_cs, upd_cell.
  assert (E1 : ext s (set_cell s v (mkCell (c_wild (cell_of s v)) (c_bound (cell_of s v))
                 (c_lower (cell_of s v)) (c_upper (cell_of s v)) i))).
  { apply ext_set_cell. cbn. auto. }
  apply sim_modify_end; [apply upd_cell_G; reflexivity|auto using inv_set_cs| |].
  - eapply ext_trans; eauto.
  - apply K; auto using inv_set_cs. eapply ext_trans; eauto.
Qed.

Lemma sim_fresh {B} (fB : B -> B) sb w (k k' : nat -> M B) (Q : B -> store -> Prop) s :
  inv s -> ext sb s ->
  (forall s1, s1 = snd (alloc_var s w) -> inv s1 -> ext sb s1 -> ext s s1 ->
              sim fB sb (k (length (vars s))) (k' (dv + length (vars s))) Q s1) ->
  sim fB sb (bindM (fresh w) k) (bindM (fresh w) k') Q s.
Proof.
  intros I E K. unfold sim, bindM, fresh. rewrite alloc_var_G. cbn [alloc_var].
  apply (K (snd (alloc_var s w))); auto using inv_alloc_var, ext_alloc_var.
  eapply ext_trans; [exact E|apply ext_alloc_var].
Qed.

Lemma sim_alloc_constr {B} (fB : B -> B) sb k (K K' : nat -> M B) (Q : B -> store -> Prop) s :
  inv s -> ext sb s -> (k_elim k = false -> length (k_alts k) = 1) ->
  Forall (sct s) (constr_terms k) ->
  (forall s1, s1 = snd (alloc_constr s k) -> inv s1 -> ext sb s1 -> ext s s1 ->
              sim fB sb (K (length (constrs s))) (K' (dk + length (constrs s))) Q s1) ->
  sim fB sb (bindM (fun s => let (c, s') := alloc_constr s k in MOk c s') K)
            (bindM (fun s => let (c, s') := alloc_constr s (shk k) in MOk c s') K') Q s.
Proof.
  intros I E A Sk HK. unfold sim, bindM. rewrite alloc_constr_G. cbn [alloc_constr].
  apply (HK (snd (alloc_constr s k))); auto using inv_alloc_constr, ext_alloc_constr.
  eapply ext_trans; [exact E|apply ext_alloc_constr].
Qed.

End Sim.
End Frame.
