(* C16: the result of running a program on the engine model does not depend on
   what the store already contains (the frame property).

   [glue s0 s] is the store s0 extended by the image of s under the index
   shift (variables by |vars s0|, constraint sets by |csets s0|, constraints
   by |constrs s0|).  Every engine operation commutes with [glue s0]:
   running the operation with shifted arguments in [glue s0 s] gives the
   shifted result and the store [glue s0 s'], where s' is what the operation
   leaves when run in s - on success and on failure alike, with the same
   error.  s0 is completely arbitrary (no invariant is needed for the old
   part: nothing in the shifted image refers to it).  The small store s has
   to satisfy the invariant [inv] of Infer/Inv.v ([follow] uses a fuel that
   depends on the size of the store, and out-of-range indices read default
   values that do not shift), so the simulation carries [inv] along, in the
   style of the program logic of Inv.v: [sim] = [ok] + the commutation
   equation.  One induction on fuel over the conjunction of the simulation
   statements for unify / bind / above / below / check_constraints / fulfill /
   minimize / fix_ty, then instance, apply, run_cmd, run_cmds. *)
From Coq Require Import List Arith Bool Lia.
Import ListNotations.
From TF Require Import Base.Hier Base.Ty Infer.Store Infer.Engine Infer.Run Infer.Inv.

(* ------------------------------------------------------------------ *)
(* shifting                                                             *)
(* ------------------------------------------------------------------ *)
Fixpoint shift_tyv (d : nat) (t : tyv) : tyv :=
  match t with
  | V v => V (d + v)
  | O o args => O o (map (shift_tyv d) args)
  end.

Definition shift_cell (d e : nat) (c : cell) : cell :=
  mkCell (c_wild c) (option_map (shift_tyv d) (c_bound c)) (c_lower c) (c_upper c) (e + c_cs c).

Definition shift_constr (d : nat) (k : constr) : constr :=
  mkConstr (k_elim k) (shift_tyv d (k_ref k)) (map (shift_tyv d) (k_alts k)) (k_strict k) (k_done k).

Definition shift_cset (e : nat) (l : list nat) : list nat := map (Nat.add e) l.

(* s0 extended by the shifted image of s *)
Definition glue (s0 s : store) : store :=
  mkStore (vars s0 ++ map (shift_cell (length (vars s0)) (length (csets s0))) (vars s))
          (csets s0 ++ map (shift_cset (length (constrs s0))) (csets s))
          (constrs s0 ++ map (shift_constr (length (vars s0))) (constrs s))
          (sched s).

(* [Ext s0 s1 s2]: s1 is s0 extended by the shifted image of s2 *)
Record Ext (s0 s1 s2 : store) : Prop := mkExt' {
  Ext_vars : vars s1 = vars s0 ++ map (shift_cell (length (vars s0)) (length (csets s0))) (vars s2);
  Ext_csets : csets s1 = csets s0 ++ map (map (Nat.add (length (constrs s0)))) (csets s2);
  Ext_constrs : constrs s1 = constrs s0 ++ map (shift_constr (length (vars s0))) (constrs s2);
  Ext_sched : sched s1 = sched s2
}.

Lemma Ext_glue s0 s : Ext s0 (glue s0 s) s.
Proof. constructor; reflexivity. Qed.

Lemma Ext_is_glue s0 s1 s2 : Ext s0 s1 s2 -> s1 = glue s0 s2.
Proof. intros [a b c d]. destruct s1; cbn in *; subst. reflexivity. Qed.

Definition rmap {A B} (f : A -> B) (r : res A) : res B :=
  match r with Ok a => Ok (f a) | Er e => Er e end.

(* ------------------------------------------------------------------ *)
(* list facts                                                           *)
(* ------------------------------------------------------------------ *)
Lemma nth_glue {A} (f : A -> A) (d : A) (l0 l : list A) i :
  i < length l -> nth (length l0 + i) (l0 ++ map f l) d = f (nth i l d).
Proof.
  intros L. rewrite app_nth2 by lia. replace (length l0 + i - length l0) with i by lia.
  rewrite (nth_indep _ d (f d)) by (rewrite map_length; exact L). apply map_nth.
Qed.

Lemma nth_glue_oob {A} (f : A -> A) (d : A) (l0 l : list A) i :
  length l <= i -> nth (length l0 + i) (l0 ++ map f l) d = d.
Proof. intros L. apply nth_overflow. rewrite app_length, map_length. lia. Qed.

Lemma upd_app_r {A} (x : A) : forall l0 l i, upd (length l0 + i) x (l0 ++ l) = l0 ++ upd i x l.
Proof. induction l0 as [|y l0 IH]; intros l i; cbn; [reflexivity|]. destruct l0; cbn in *; f_equal; apply IH. Qed.

Lemma upd_map {A} (f : A -> A) (x : A) : forall l i, upd i (f x) (map f l) = map f (upd i x l).
Proof. induction l as [|y l IH]; intros [|i]; cbn; auto. f_equal. apply IH. Qed.

Lemma upd_glue {A} (f : A -> A) (x : A) l0 l i :
  upd (length l0 + i) (f x) (l0 ++ map f l) = l0 ++ map f (upd i x l).
Proof. rewrite upd_app_r, upd_map. reflexivity. Qed.

Lemma upd_oob {A} (x : A) : forall l i, length l <= i -> upd i x l = l.
Proof. induction l as [|y l IH]; intros [|i] L; cbn in *; auto; try lia. f_equal. apply IH. lia. Qed.

Lemma ins_shift d x : forall l, ins (d + x) (map (Nat.add d) l) = map (Nat.add d) (ins x l).
Proof.
  induction l as [|y l IH]; cbn [ins map]; [reflexivity|].
  replace (d + x <? d + y) with (x <? y)
    by (destruct (Nat.ltb_spec x y), (Nat.ltb_spec (d + x) (d + y)); auto; lia).
  replace (d + x =? d + y) with (x =? y)
    by (destruct (Nat.eqb_spec x y), (Nat.eqb_spec (d + x) (d + y)); auto; lia).
  destruct (x <? y); [reflexivity|]. destruct (x =? y); [reflexivity|].
  cbn [map]. f_equal. exact IH.
Qed.

Lemma union_shift d : forall a b,
  union (map (Nat.add d) a) (map (Nat.add d) b) = map (Nat.add d) (union a b).
Proof.
  unfold union. induction a as [|x a IH]; intros b; cbn [map fold_right]; [reflexivity|].
  rewrite IH. apply ins_shift.
Qed.

Lemma remove_nat_shift d x l :
  remove_nat (d + x) (map (Nat.add d) l) = map (Nat.add d) (remove_nat x l).
Proof.
  unfold remove_nat. induction l as [|y l IH]; cbn [map filter]; [reflexivity|].
  replace (d + x =? d + y) with (x =? y)
    by (destruct (Nat.eqb_spec x y), (Nat.eqb_spec (d + x) (d + y)); auto; lia).
  destruct (x =? y); cbn [negb map]; [exact IH|f_equal; exact IH].
Qed.

Lemma mem_shift d x l : mem (d + x) (map (Nat.add d) l) = mem x l.
Proof.
  unfold mem. induction l as [|y l IH]; cbn [map existsb]; [reflexivity|].
  replace (d + x =? d + y) with (x =? y)
    by (destruct (Nat.eqb_spec x y), (Nat.eqb_spec (d + x) (d + y)); auto; lia).
  rewrite IH. reflexivity.
Qed.

Lemma remove_nth_map {A B} (f : A -> B) : forall l i, remove_nth i (map f l) = map f (remove_nth i l).
Proof. induction l as [|y l IH]; intros [|i]; cbn; auto. f_equal. apply IH. Qed.

Lemma permute_S f r (l : list nat) : l <> [] ->
  permute (S f) r l = nth (r mod length l) l 0 :: permute f (r / length l) (remove_nth (r mod length l) l).
Proof. destruct l; [congruence|reflexivity]. Qed.

Lemma permute_shift d : forall fuel r l,
  permute fuel r (map (Nat.add d) l) = map (Nat.add d) (permute fuel r l).
Proof.
  induction fuel as [|f IH]; intros r l; [reflexivity|].
  destruct l as [|x l']; [reflexivity|].
  set (l := x :: l').
  assert (Hn : length l <> 0) by (subst l; cbn; lia).
  rewrite (permute_S f r l) by (subst l; discriminate).
  rewrite permute_S by (subst l; discriminate).
  rewrite map_length. cbn [map]. f_equal.
  - rewrite (nth_indep _ 0 (d + 0)) by (rewrite map_length; apply Nat.mod_upper_bound; exact Hn).
    apply map_nth.
  - rewrite remove_nth_map. apply IH.
Qed.

Lemma filter_map_comm {A B} (f : A -> B) (p : B -> bool) (q : A -> bool) l :
  (forall x, p (f x) = q x) -> filter p (map f l) = map f (filter q l).
Proof.
  intros E. induction l as [|y l IH]; cbn; [reflexivity|]. rewrite E.
  destruct (q y); cbn; [f_equal|]; exact IH.
Qed.

Lemma flat_map_map_in {A B C} (f : A -> A) (h : B -> C) (g' : A -> list C) (g : A -> list B) : forall l,
  (forall x, In x l -> g' (f x) = map h (g x)) -> flat_map g' (map f l) = map h (flat_map g l).
Proof.
  induction l as [|y l IH]; intros E; cbn; [reflexivity|].
  rewrite map_app, E by (left; reflexivity). f_equal. apply IH. intros x Hx. apply E. right. exact Hx.
Qed.

(* ------------------------------------------------------------------ *)
(* the store primitives commute with the extension                      *)
(* ------------------------------------------------------------------ *)
Section Frame.
Variable s0 : store.
Notation dv := (length (vars s0)).
Notation dc := (length (csets s0)).
Notation dk := (length (constrs s0)).
Notation sh := (shift_tyv dv).
Notation shc := (shift_cell dv dc).
Notation shk := (shift_constr dv).
Notation G := (glue s0).

Lemma vars_G s : vars (G s) = vars s0 ++ map shc (vars s). Proof. reflexivity. Qed.
Lemma len_vars_G s : length (vars (G s)) = dv + length (vars s).
Proof. cbn. rewrite app_length, map_length. reflexivity. Qed.
Lemma len_csets_G s : length (csets (G s)) = dc + length (csets s).
Proof. cbn. rewrite app_length, map_length. reflexivity. Qed.
Lemma len_constrs_G s : length (constrs (G s)) = dk + length (constrs s).
Proof. cbn. rewrite app_length, map_length. reflexivity. Qed.

Lemma cell_G s v : v < length (vars s) -> cell_of (G s) (dv + v) = shc (cell_of s v).
Proof. intros L. unfold cell_of. cbn [vars glue]. apply nth_glue. exact L. Qed.

Lemma cell_G_oob s v : length (vars s) <= v -> cell_of (G s) (dv + v) = dcell.
Proof. intros L. unfold cell_of. cbn [vars glue]. apply nth_glue_oob. exact L. Qed.

(* all fields but c_cs shift unconditionally *)
Lemma bound_G s v : c_bound (cell_of (G s) (dv + v)) = option_map sh (c_bound (cell_of s v)).
Proof.
  destruct (Nat.lt_ge_cases v (length (vars s))) as [L|L].
  - rewrite cell_G by exact L. reflexivity.
  - rewrite cell_G_oob, cell_of_oob by exact L. reflexivity.
Qed.
Lemma wild_G s v : c_wild (cell_of (G s) (dv + v)) = c_wild (cell_of s v).
Proof.
  destruct (Nat.lt_ge_cases v (length (vars s))) as [L|L].
  - rewrite cell_G by exact L. reflexivity.
  - rewrite cell_G_oob, cell_of_oob by exact L. reflexivity.
Qed.
Lemma lower_G s v : c_lower (cell_of (G s) (dv + v)) = c_lower (cell_of s v).
Proof.
  destruct (Nat.lt_ge_cases v (length (vars s))) as [L|L].
  - rewrite cell_G by exact L. reflexivity.
  - rewrite cell_G_oob, cell_of_oob by exact L. reflexivity.
Qed.
Lemma upper_G s v : c_upper (cell_of (G s) (dv + v)) = c_upper (cell_of s v).
Proof.
  destruct (Nat.lt_ge_cases v (length (vars s))) as [L|L].
  - rewrite cell_G by exact L. reflexivity.
  - rewrite cell_G_oob, cell_of_oob by exact L. reflexivity.
Qed.
Lemma cs_G s v : v < length (vars s) -> c_cs (cell_of (G s) (dv + v)) = dc + c_cs (cell_of s v).
Proof. intros L. rewrite cell_G by exact L. reflexivity. Qed.

Lemma cset_G s i : cset_of (G s) (dc + i) = shift_cset dk (cset_of s i).
Proof.
  unfold cset_of. cbn [csets glue].
  destruct (Nat.lt_ge_cases i (length (csets s))) as [L|L].
  - apply nth_glue. exact L.
  - rewrite nth_glue_oob by exact L. rewrite (nth_overflow (csets s)) by exact L. reflexivity.
Qed.

Lemma constr_G s c : c < length (constrs s) -> constr_of (G s) (dk + c) = shk (constr_of s c).
Proof. intros L. unfold constr_of. cbn [constrs glue]. apply nth_glue. exact L. Qed.

Lemma set_cell_G s v c : set_cell (G s) (dv + v) (shc c) = G (set_cell s v c).
Proof. unfold set_cell, glue. cbn [vars csets constrs sched]. rewrite upd_glue. reflexivity. Qed.

Lemma set_cell_oob s v c : length (vars s) <= v -> set_cell s v c = s.
Proof. intros L. unfold set_cell. rewrite upd_oob by exact L. destruct s; reflexivity. Qed.

Lemma set_cset_G s i l : set_cset (G s) (dc + i) (shift_cset dk l) = G (set_cset s i l).
Proof. unfold set_cset, glue. cbn [vars csets constrs sched]. rewrite upd_glue. reflexivity. Qed.

Lemma set_constr_G s c k : set_constr (G s) (dk + c) (shk k) = G (set_constr s c k).
Proof. unfold set_constr, glue. cbn [vars csets constrs sched]. rewrite upd_glue. reflexivity. Qed.

Lemma set_constr_oob s c k : length (constrs s) <= c -> set_constr s c k = s.
Proof. intros L. unfold set_constr. rewrite upd_oob by exact L. destruct s; reflexivity. Qed.

(* an update of a cell by a function that commutes with the shift *)
Lemma upd_cell_G (g g' : cell -> cell) s v :
  (forall c, g' (shc c) = shc (g c)) ->
  set_cell (G s) (dv + v) (g' (cell_of (G s) (dv + v))) = G (set_cell s v (g (cell_of s v))).
Proof.
  intros E. destruct (Nat.lt_ge_cases v (length (vars s))) as [L|L].
  - rewrite cell_G by exact L. rewrite E. apply set_cell_G.
  - rewrite (set_cell_oob s) by exact L. apply set_cell_oob. rewrite len_vars_G. lia.
Qed.

Lemma upd_constr_G (g g' : constr -> constr) s c :
  (forall k, g' (shk k) = shk (g k)) ->
  set_constr (G s) (dk + c) (g' (constr_of (G s) (dk + c))) = G (set_constr s c (g (constr_of s c))).
Proof.
  intros E. destruct (Nat.lt_ge_cases c (length (constrs s))) as [L|L].
  - rewrite constr_G by exact L. rewrite E. apply set_constr_G.
  - rewrite (set_constr_oob s) by exact L. apply set_constr_oob. rewrite len_constrs_G. lia.
Qed.

Lemma alloc_var_G s w :
  alloc_var (G s) w = (dv + length (vars s), G (snd (alloc_var s w))).
Proof.
  unfold alloc_var. rewrite len_vars_G, len_csets_G. cbn [snd]. f_equal.
  unfold glue. cbn [vars csets constrs sched]. rewrite !map_app, !app_assoc. reflexivity.
Qed.

Lemma alloc_constr_G s k :
  alloc_constr (G s) (shk k) = (dk + length (constrs s), G (snd (alloc_constr s k))).
Proof.
  unfold alloc_constr. rewrite len_constrs_G. cbn [snd]. f_equal.
  unfold glue. cbn [vars csets constrs sched]. rewrite !map_app, !app_assoc. reflexivity.
Qed.

Lemma sched_G s : sched (G s) = sched s. Proof. reflexivity. Qed.

Lemma G_sched s r :
  mkStore (vars (G s)) (csets (G s)) (constrs (G s)) r = G (mkStore (vars s) (csets s) (constrs s) r).
Proof. reflexivity. Qed.

(* the old part is literally untouched *)
Lemma cell_G_old s v : v < dv -> cell_of (G s) v = cell_of s0 v.
Proof. intros L. unfold cell_of. cbn [vars glue]. apply app_nth1. exact L. Qed.
Lemma cset_G_old s i : i < dc -> cset_of (G s) i = cset_of s0 i.
Proof. intros L. unfold cset_of. cbn [csets glue]. apply app_nth1. exact L. Qed.
Lemma constr_G_old s c : c < dk -> constr_of (G s) c = constr_of s0 c.
Proof. intros L. unfold constr_of. cbn [constrs glue]. apply app_nth1. exact L. Qed.

(* ------------------------------------------------------------------ *)
(* the pure readers                                                     *)
(* ------------------------------------------------------------------ *)
Lemma follow_f_G s : forall fuel t, follow_f fuel (G s) (sh t) = sh (follow_f fuel s t).
Proof.
  induction fuel as [|f IH]; intros [v|o args]; cbn [follow_f shift_tyv]; try reflexivity.
  - rewrite bound_G. destruct (c_bound (cell_of s v)); reflexivity.
  - rewrite bound_G. destruct (c_bound (cell_of s v)) as [t'|]; cbn [option_map]; [apply IH|reflexivity].
Qed.

Lemma follow_f_enough s t l : chainl s t l -> forall f1 f2, length l <= f1 -> length l <= f2 ->
  follow_f f1 s t = follow_f f2 s t.
Proof.
  induction 1 as [v Hv|v t l Hv Hc IH|o args]; intros f1 f2 L1 L2.
  - destruct f1, f2; cbn; rewrite Hv; reflexivity.
  - destruct f1 as [|f1], f2 as [|f2]; cbn in L1, L2; try lia. cbn. rewrite Hv. apply IH; lia.
  - destruct f1, f2; reflexivity.
Qed.

Lemma follow_G s t : core s -> follow (G s) (sh t) = sh (follow s t).
Proof.
  intros C. unfold follow. rewrite follow_f_G. f_equal. rewrite len_vars_G.
  destruct t as [v|o args]; [|reflexivity].
  destruct (core_chain C v) as (l & Cl). pose proof (chainl_length Cl).
  eapply follow_f_enough; eauto; lia.
Qed.

Lemma map_follow_G s l : core s -> map (follow (G s)) (map sh l) = map sh (map (follow s) l).
Proof.
  intros C. rewrite !map_map. apply map_ext. intros t. apply follow_G. exact C.
Qed.

Section Readers.
Variable H : hier.

Lemma eqb_shift a b : (dv + a =? dv + b) = (a =? b).
Proof. destruct (Nat.eqb_spec a b), (Nat.eqb_spec (dv + a) (dv + b)); auto; lia. Qed.

Lemma match_f_G s : core s -> forall fuel sub aw a b,
  match_f H fuel (G s) sub aw (sh a) (sh b) = match_f H fuel s sub aw a b.
Proof.
  intros C. induction fuel as [|f IH]; intros sub aw a b; cbn [match_f]; [reflexivity|].
  rewrite !follow_G by exact C.
  destruct (follow s a) as [va|oa xs]; destruct (follow s b) as [vb|ob ys]; cbn [shift_tyv].
  - rewrite !wild_G, lower_G, upper_G, eqb_shift. reflexivity.
  - rewrite !wild_G, lower_G, upper_G. reflexivity.
  - rewrite !wild_G, lower_G, upper_G. reflexivity.
  - destruct (sub && ((oa =? Bottom) || (ob =? Top))); [reflexivity|].
    destruct (basic H oa); [reflexivity|]. destruct (negb (oa =? ob)); [reflexivity|].
    generalize (Some true) as acc. generalize (variance H oa) as vs. revert ys.
    induction xs as [|x xs IHx]; intros ys vs acc; destruct vs as [|v vs]; try reflexivity;
      destruct ys as [|y ys]; try reflexivity.
    cbn [map]. destruct v; rewrite IH.
    + destruct (match_f H f s sub aw x y) as [[[|]|]|]; auto.
    + destruct (match_f H f s sub aw y x) as [[[|]|]|]; auto.
Qed.

Lemma occurs_f_G s : core s -> forall fuel a b,
  occurs_f H fuel (G s) (sh a) (sh b) = occurs_f H fuel s a b.
Proof.
  intros C. induction fuel as [|f IH]; intros a b; cbn [occurs_f]; [reflexivity|].
  rewrite !follow_G by exact C. rewrite match_f_G by exact C.
  destruct (match_f H f s false false (follow s a) (follow s b)) as [r|e]; [|reflexivity].
  assert (E : match sh (follow s a) with
       | V _ => Ok false
       | O _ args =>
           (fix go (l : list tyv) : res bool :=
              match l with
              | [] => Ok false
              | t :: r0 =>
                  match occurs_f H f (G s) t (sh (follow s b)) with
                  | Ok true => Ok true
                  | Ok false => go r0
                  | Er e0 => Er e0
                  end
              end) args
       end = match follow s a with
       | V _ => Ok false
       | O _ args =>
           (fix go (l : list tyv) : res bool :=
              match l with
              | [] => Ok false
              | t :: r0 =>
                  match occurs_f H f s t (follow s b) with
                  | Ok true => Ok true
                  | Ok false => go r0
                  | Er e0 => Er e0
                  end
              end) args
       end).
  { destruct (follow s a) as [va|oa xs]; cbn [shift_tyv]; [reflexivity|].
    induction xs as [|x xs IHx]; [reflexivity|]. cbn [map]. rewrite IH.
    destruct (occurs_f H f s x (follow s b)) as [[|]|]; auto. }
  destruct r as [[|]|]; auto.
Qed.

Notation shv := (map (Nat.add dv)).

Lemma vars_f_G s : core s -> forall fuel t acc,
  vars_f fuel (G s) (sh t) (shv acc) = rmap shv (vars_f fuel s t acc).
Proof.
  intros C. induction fuel as [|f IH]; intros t acc; cbn [vars_f]; [reflexivity|].
  rewrite follow_G by exact C.
  destruct (follow s t) as [v|o args]; cbn [shift_tyv].
  - cbn [rmap]. rewrite ins_shift. reflexivity.
  - revert acc. induction args as [|x xs IHx]; intros acc; [reflexivity|].
    cbn [map]. rewrite IH. destruct (vars_f f s x acc) as [acc'|e]; cbn [rmap]; [apply IHx|reflexivity].
Qed.

(* the variables found are in scope *)
Lemma vars_f_scope s : wsc s -> forall fuel t acc r,
  tsc (length (vars s)) t -> Forall (fun v => v < length (vars s)) acc ->
  vars_f fuel s t acc = Ok r -> Forall (fun v => v < length (vars s)) r.
Proof.
  intros W. induction fuel as [|f IH]; intros t acc r St Sa; cbn [vars_f]; [discriminate|].
  pose proof (follow_f_tsc W (S (length (vars s))) St) as Sf. fold (follow s t) in Sf.
  destruct (follow s t) as [v|o args].
  - intros X; inversion X; subst. apply Forall_ins; auto. apply tsc_var. exact Sf.
  - apply tsc_args in Sf. revert acc Sa. induction Sf as [|x xs Sx Sxs IHx]; intros acc Sa.
    + intros X; inversion X; subst; auto.
    + destruct (vars_f f s x acc) as [acc'|e'] eqn:E; [|discriminate]. apply IHx. eapply IH; eauto.
Qed.

Lemma constr_terms_shk k : constr_terms (shk k) = map sh (constr_terms k).
Proof. reflexivity. Qed.

Lemma closure_f_G s : inv s -> forall fuel todo seen,
  Forall (tsc (length (vars s))) todo ->
  closure_f fuel (G s) (map sh todo) (shv seen) = rmap shv (closure_f fuel s todo seen).
Proof.
  intros I. pose proof (inv_core I) as C. pose proof (inv_wsc I) as W.
  induction fuel as [|f IH]; intros todo seen St; [reflexivity|].
  cbn [closure_f]. destruct todo as [|t rest]; [reflexivity|]. cbn [map].
  inversion St as [|? ? St1 St2]; subst.
  change (@nil nat) with (shv []) at 1. rewrite vars_f_G by exact C.
  destruct (vars_f (S f) s t []) as [vs|e] eqn:Ev; cbn [rmap]; [|reflexivity].
  assert (Sv : Forall (fun v => v < length (vars s)) vs).
  { eapply vars_f_scope; eauto. }
  rewrite (filter_map_comm (Nat.add dv) _ (fun v => negb (mem v seen))) by (intros x; rewrite mem_shift; reflexivity).
  rewrite union_shift.
  set (new := filter (fun v => negb (mem v seen)) vs).
  assert (Sn : Forall (fun v => v < length (vars s)) new).
  { unfold new. rewrite Forall_forall in *. intros x Hx. apply filter_In in Hx. apply Sv. tauto. }
  rewrite (flat_map_map_in (Nat.add dv) sh _
            (fun v => flat_map (fun c => constr_terms (constr_of s c)) (cset_of s (c_cs (cell_of s v))))).
  2:{ intros v Hv. rewrite Forall_forall in Sn. rewrite cs_G by (apply Sn; exact Hv).
      rewrite cset_G. unfold shift_cset.
      apply flat_map_map_in. intros c Hc. rewrite constr_G by (eapply (core_cs C); eauto).
      apply constr_terms_shk. }
  rewrite <- map_app. apply IH.
  apply Forall_app. split; [|exact St2].
  rewrite Forall_forall. intros x Hx. apply in_flat_map in Hx. destruct Hx as (v & Hv & Hx).
  apply in_flat_map in Hx. destruct Hx as (c & Hc & Hx).
  pose proof (sc_constr W (c := c)) as F. rewrite Forall_forall in F. apply F; auto.
  eapply (core_cs C); eauto.
Qed.
End Readers.


(* ------------------------------------------------------------------ *)
(* the simulation logic: [ok] of Inv.v plus the commutation equation    *)
(* ------------------------------------------------------------------ *)
Section Sim.
Variable H : hier.
Local Notation inv := (invb true).
Local Notation sct := (Inv.sct true).
Local Notation scv := (Inv.scv true).
Local Notation noccb := (Inv.noccb true).
Local Notation shv := (map (Nat.add dv)).
Local Notation shks := (map (Nat.add dk)).

(* [sim f sb m m' Q s]: m run in s ends in a store s' that satisfies the
   invariant and extends sb (and Q on success), and m' run in [G s] ends the
   same way, in [G s'], with the result mapped by f *)
Definition sim {A} (f : A -> A) (sb : store) (m m' : M A) (Q : A -> store -> Prop) (s : store) : Prop :=
  match m s with
  | MOk a s' => inv s' /\ ext sb s' /\ Q a s' /\ m' (G s) = MOk (f a) (G s')
  | MEr e s' => inv s' /\ ext sb s' /\ m' (G s) = MEr e (G s')
  end.

Lemma sim_ret {A} (f : A -> A) sb (a : A) (Q : A -> store -> Prop) s :
  inv s -> ext sb s -> Q a s -> sim f sb (ret a) (ret (f a)) Q s.
Proof. unfold sim, ret. auto. Qed.

Lemma sim_fail {A} (f : A -> A) sb e (Q : A -> store -> Prop) s :
  inv s -> ext sb s -> sim f sb (fail e) (fail e) Q s.
Proof. unfold sim, fail. auto. Qed.

Lemma sim_bind {A B} (fA : A -> A) (fB : B -> B) sb (m m' : M A) (k k' : A -> M B) Q1
    (Q : B -> store -> Prop) s :
  sim fA sb m m' Q1 s ->
  (forall a s1, inv s1 -> ext sb s1 -> Q1 a s1 -> sim fB sb (k a) (k' (fA a)) Q s1) ->
  sim fB sb (bindM m k) (bindM m' k') Q s.
Proof.
  unfold sim, bindM. destruct (m s) as [a s1|e s1].
  - intros (I & E & HQ & ->) K. apply K; auto.
  - intros (I & E & ->) K. auto.
Qed.

Lemma sim_bind_id {A B} (fB : B -> B) sb (m m' : M A) (k k' : A -> M B) Q1
    (Q : B -> store -> Prop) s :
  sim (fun x => x) sb m m' Q1 s ->
  (forall a s1, inv s1 -> ext sb s1 -> Q1 a s1 -> sim fB sb (k a) (k' a) Q s1) ->
  sim fB sb (bindM m k) (bindM m' k') Q s.
Proof. intros M1 K. eapply sim_bind; [exact M1|exact K]. Qed.

Lemma sim_conseq {A} (f : A -> A) sb (m m' : M A) (Q1 Q : A -> store -> Prop) s :
  sim f sb m m' Q1 s -> (forall a s1, inv s1 -> ext sb s1 -> Q1 a s1 -> Q a s1) -> sim f sb m m' Q s.
Proof.
  unfold sim. destruct (m s) as [a s1|e s1]; [|auto]. intros (I & E & HQ & Eq) K. auto.
Qed.

Lemma sim_gets {A B} (fB : B -> B) sb (g g' : store -> A) (k k' : A -> M B) (Q : B -> store -> Prop) s :
  sim fB sb (k (g s)) (k' (g' (G s))) Q s -> sim fB sb (bindM (gets g) k) (bindM (gets g') k') Q s.
Proof. unfold sim, bindM, gets. auto. Qed.

Lemma sim_gets_end {A} (f : A -> A) sb (g g' : store -> A) (Q : A -> store -> Prop) s :
  inv s -> ext sb s -> Q (g s) s -> g' (G s) = f (g s) -> sim f sb (gets g) (gets g') Q s.
Proof. unfold sim, gets. intros I E HQ ->. auto. Qed.

Lemma sim_modify {B} (fB : B -> B) sb (g g' : store -> store) (k k' : unit -> M B) (Q : B -> store -> Prop) s :
  g' (G s) = G (g s) -> sim fB sb (k tt) (k' tt) Q (g s) ->
  sim fB sb (bindM (modify g) k) (bindM (modify g') k') Q s.
Proof. unfold sim, bindM, modify. intros ->. auto. Qed.

Lemma sim_modify_end sb (g g' : store -> store) (Q : unit -> store -> Prop) s :
  g' (G s) = G (g s) -> inv (g s) -> ext sb (g s) -> Q tt (g s) ->
  sim (fun x => x) sb (modify g) (modify g') Q s.
Proof. unfold sim, modify. intros ->. auto. Qed.

Lemma sim_lift {A B} (fA : A -> A) (fB : B -> B) sb (r r' : store -> res A) (k k' : A -> M B)
    (Q : B -> store -> Prop) s :
  inv s -> ext sb s -> r' (G s) = rmap fA (r s) ->
  (forall a, r s = Ok a -> sim fB sb (k a) (k' (fA a)) Q s) ->
  sim fB sb (bindM (lift r) k) (bindM (lift r') k') Q s.
Proof.
  unfold sim, bindM, lift. intros I E -> K. destruct (r s) as [a|e]; cbn [rmap].
  - apply K. reflexivity.
  - auto.
Qed.

Lemma rmap_id {A} (r : res A) : rmap (fun x => x) r = r.
Proof. destruct r; reflexivity. Qed.

Lemma sim_lift_id {A B} (fB : B -> B) sb (r r' : store -> res A) (k k' : A -> M B)
    (Q : B -> store -> Prop) s :
  inv s -> ext sb s -> r' (G s) = r s ->
  (forall a, r s = Ok a -> sim fB sb (k a) (k' a) Q s) ->
  sim fB sb (bindM (lift r) k) (bindM (lift r') k') Q s.
Proof.
  intros I E Er K. apply sim_lift with (fA := fun x => x); auto. rewrite rmap_id. exact Er.
Qed.

Lemma sim_lift_end {A} (fA : A -> A) sb (r r' : store -> res A) (Q : A -> store -> Prop) s :
  inv s -> ext sb s -> r' (G s) = rmap fA (r s) ->
  (forall a, r s = Ok a -> Q a s) -> sim fA sb (lift r) (lift r') Q s.
Proof.
  unfold sim, lift. intros I E -> K. destruct (r s) as [a|e]; cbn [rmap]; auto.
Qed.

Lemma sim_forM {A} (fx : A -> A) sb (J : store -> Prop) (f f' : A -> M unit) : forall l s,
  inv s -> ext sb s -> J s ->
  (forall x s1, In x l -> inv s1 -> ext sb s1 -> J s1 ->
     sim (fun u => u) sb (f x) (f' (fx x)) (fun _ s2 => J s2) s1) ->
  sim (fun u => u) sb (forM l f) (forM (map fx l) f') (fun _ s2 => J s2) s.
Proof.
  induction l as [|x l IH]; intros s I E HJ F; cbn [forM map].
  - apply (sim_ret (fun u => u)); auto.
  - eapply sim_bind_id; [apply F; cbn; auto|].
    intros u s1 I1 E1 J1. apply IH; auto. intros y s2 Hy. apply F. cbn; auto.
Qed.

Lemma sim_use {A} (f : A -> A) sb (m m' : M A) (Q : A -> store -> Prop) s :
  ext sb s -> sim f s m m' Q s -> sim f sb m m' (fun a s' => Q a s' /\ ext s s') s.
Proof.
  unfold sim. intros E. destruct (m s) as [a s1|e s1].
  - intros (I1 & E1 & HQ & Eq). split; [exact I1|split; [eapply ext_trans; eauto|auto]].
  - intros (I1 & E1 & Eq). split; [exact I1|split; [eapply ext_trans; eauto|auto]].
Qed.

Lemma sim_next_choice {B} (fB : B -> B) sb (k k' : nat -> M B) (Q : B -> store -> Prop) s :
  inv s -> ext sb s ->
  (forall r s1, inv s1 -> ext sb s1 -> ext s s1 -> vars s1 = vars s -> csets s1 = csets s ->
                constrs s1 = constrs s -> sim fB sb (k r) (k' r) Q s1) ->
  sim fB sb (bindM next_choice k) (bindM next_choice k') Q s.
Proof.
  intros I E K. unfold sim, bindM, next_choice. rewrite sched_G. destruct (sched s) as [|r rest].
  - apply K; auto using ext_refl.
  - rewrite G_sched. apply K; auto using inv_sched, ext_sched. eapply ext_trans; eauto using ext_sched.
Qed.

Lemma sim_upd_cell {B} (fB : B -> B) sb v g g' (k k' : unit -> M B) (Q : B -> store -> Prop) s :
  inv s -> ext sb s -> (forall c, c_bound (g c) = c_bound c) -> (forall c, c_cs (g c) = c_cs c) ->
  c_lower (g (cell_of s v)) <> Some Top -> c_upper (g (cell_of s v)) <> Some Bottom ->
  (forall c, g' (shc c) = shc (g c)) ->
  (forall s1, s1 = set_cell s v (g (cell_of s v)) -> inv s1 -> ext sb s1 -> ext s s1 ->
              sim fB sb (k tt) (k' tt) Q s1) ->
  sim fB sb (bindM (upd_cell v g) k) (bindM (upd_cell (dv + v) g') k') Q s.
Proof.
  intros I E Hb Hc Hl Hu Hg K. unfold upd_cell. apply sim_modify; [apply upd_cell_G; exact Hg|].
  assert (E1 : ext s (set_cell s v (g (cell_of s v)))).
  { apply ext_set_cell. intros t. rewrite Hb. auto. }
  apply K; auto.
  - apply inv_set_cell; auto.
    + intros t. rewrite Hb. apply sct_of_bound. exact I.
    + intros Bt L. rewrite Hc. apply (sc_cs (proj2 I Bt)). exact L.
  - eapply ext_trans; [exact E|exact E1].
Qed.

Lemma set_cs_G s v i :
  set_cell (G s) (dv + v) (mkCell (c_wild (cell_of (G s) (dv + v))) (c_bound (cell_of (G s) (dv + v)))
     (c_lower (cell_of (G s) (dv + v))) (c_upper (cell_of (G s) (dv + v))) (dc + i)) =
  G (set_cell s v (mkCell (c_wild (cell_of s v)) (c_bound (cell_of s v))
     (c_lower (cell_of s v)) (c_upper (cell_of s v)) i)).
Proof.
  apply (upd_cell_G (fun c => mkCell (c_wild c) (c_bound c) (c_lower c) (c_upper c) i)
                    (fun c => mkCell (c_wild c) (c_bound c) (c_lower c) (c_upper c) (dc + i))).
  reflexivity.
Qed.

Lemma sim_set_cs {B} (fB : B -> B) sb v i (k k' : unit -> M B) (Q : B -> store -> Prop) s :
  inv s -> ext sb s -> i < length (csets s) ->
  (forall s1, inv s1 -> ext sb s1 -> ext s s1 -> sim fB sb (k tt) (k' tt) Q s1) ->
  sim fB sb (bindM (set_cs v i) k) (bindM (set_cs (dv + v) (dc + i)) k') Q s.
Proof.
  intros I E Hi K. unfold set_cs, upd_cell. apply sim_modify; [apply set_cs_G|].
  assert (E1 : ext s (set_cell s v (mkCell (c_wild (cell_of s v)) (c_bound (cell_of s v))
                 (c_lower (cell_of s v)) (c_upper (cell_of s v)) i))).
  { apply ext_set_cell. cbn. auto. }
  apply K; auto using inv_set_cs. eapply ext_trans; eauto.
Qed.

Lemma sim_set_cs_end sb v i (Q : unit -> store -> Prop) s :
  inv s -> ext sb s -> i < length (csets s) ->
  (forall s1, inv s1 -> ext sb s1 -> ext s s1 -> Q tt s1) ->
  sim (fun u => u) sb (set_cs v i) (set_cs (dv + v) (dc + i)) Q s.
Proof.
  intros I E Hi K. unfold set_cs, upd_cell.
  assert (E1 : ext s (set_cell s v (mkCell (c_wild (cell_of s v)) (c_bound (cell_of s v))
                 (c_lower (cell_of s v)) (c_upper (cell_of s v)) i))).
  { apply ext_set_cell. cbn. auto. }
  apply sim_modify_end; [apply set_cs_G|auto using inv_set_cs| |].
  - eapply ext_trans; eauto.
  - apply K; auto using inv_set_cs. eapply ext_trans; eauto.
Qed.

Lemma sim_fresh {B} (fB : B -> B) sb w (k k' : nat -> M B) (Q : B -> store -> Prop) s :
  inv s -> ext sb s ->
  (forall s1, s1 = snd (alloc_var s w) -> inv s1 -> ext sb s1 -> ext s s1 ->
              sim fB sb (k (length (vars s))) (k' (dv + length (vars s))) Q s1) ->
  sim fB sb (bindM (fresh w) k) (bindM (fresh w) k') Q s.
Proof.
  intros I E K. unfold sim, bindM, fresh. rewrite alloc_var_G. cbn [alloc_var].
  apply (K (snd (alloc_var s w))); auto using inv_alloc_var, ext_alloc_var.
  eapply ext_trans; [exact E|apply ext_alloc_var].
Qed.

Lemma sim_alloc_constr {B} (fB : B -> B) sb k (K K' : nat -> M B) (Q : B -> store -> Prop) s :
  inv s -> ext sb s -> (k_elim k = false -> length (k_alts k) = 1) ->
  Forall (sct s) (constr_terms k) ->
  (forall s1, s1 = snd (alloc_constr s k) -> inv s1 -> ext sb s1 -> ext s s1 ->
              sim fB sb (K (length (constrs s))) (K' (dk + length (constrs s))) Q s1) ->
  sim fB sb (bindM (fun s => let (c, s') := alloc_constr s k in MOk c s') K)
            (bindM (fun s => let (c, s') := alloc_constr s (shk k) in MOk c s') K') Q s.
Proof.
  intros I E A Sk HK. unfold sim, bindM. rewrite alloc_constr_G. cbn [alloc_constr].
  apply (HK (snd (alloc_constr s k))); auto using inv_alloc_constr, ext_alloc_constr.
  eapply ext_trans; [exact E|apply ext_alloc_constr].
Qed.


(* ------------------------------------------------------------------ *)
(* simulation statements for the mutually recursive core                *)
(* ------------------------------------------------------------------ *)
Ltac sdone_ret := apply (sim_ret (fun x => x)); unfold T; auto using ext_refl.
Ltac sdone_fail := apply sim_fail; auto using ext_refl.
Ltac suse X := eapply sim_conseq;
  [apply sim_use; [first [eassumption|apply ext_refl]|apply X; auto]|unfold T; auto].
Ltac suse' X := eapply sim_conseq; [apply sim_use; [first [eassumption|apply ext_refl]|apply X]|].
Ltac break_if := repeat match goal with |- context[if ?c then _ else _] => destruct c eqn:? end.

Definition sspec_unify f := forall sub skb skw a b0 s, inv s -> sct s a -> sct s b0 ->
  sim (fun x => x) s (unify H f sub skb skw a b0) (unify H f sub skb skw (sh a) (sh b0)) T s.
Definition sspec_bind f := forall v t s, inv s ->
  c_bound (cell_of s v) = None -> nb s t -> scv s v -> sct s t -> noccb s v t ->
  sim (fun x => x) s (bind H f v t) (bind H f (dv + v) (sh t)) T s.
Definition sspec_above f := forall v new s, inv s ->
  (new = Top -> c_bound (cell_of s v) = None) -> scv s v ->
  sim (fun x => x) s (above H f v new) (above H f (dv + v) new) T s.
Definition sspec_below f := forall v new s, inv s ->
  (new = Bottom -> c_bound (cell_of s v) = None) -> scv s v ->
  sim (fun x => x) s (below H f v new) (below H f (dv + v) new) T s.
Definition sspec_cc f := forall v s, inv s -> scv s v ->
  sim (fun x => x) s (check_constraints H f v) (check_constraints H f (dv + v)) T s.
Definition sspec_fulfill f := forall c s, inv s -> c < length (constrs s) ->
  sim (fun x => x) s (fulfill H f c) (fulfill H f (dk + c)) T s.
Definition sspec_minimize f := forall c s, inv s -> k_elim (constr_of s c) = true ->
  sim (fun x => x) s (minimize H f c) (minimize H f (dk + c))
      (fun _ s' => Forall (nb s') (constr_terms (constr_of s' c))) s.
Definition sspec_fix f := forall pl t s, inv s -> sct s t ->
  sim sh s (fix_ty H f pl t) (fix_ty H f pl (sh t)) (fun r s' => nb s' r /\ sct s' r) s.

Definition sspecs f :=
  sspec_unify f /\ sspec_bind f /\ sspec_above f /\ sspec_below f /\
  sspec_cc f /\ sspec_fulfill f /\ sspec_minimize f /\ sspec_fix f.

Lemma sspecs_0 : sspecs 0.
Proof.
  unfold sspecs, sspec_unify, sspec_bind, sspec_above, sspec_below, sspec_cc, sspec_fulfill,
    sspec_minimize, sspec_fix.
  repeat apply conj; intros; apply sim_fail; auto using ext_refl.
Qed.

Lemma inv_csF s i : inv s -> Forall (fun c => c < length (constrs s)) (cset_of s i).
Proof. apply inv_cs_Forall. Qed.

Lemma follow_unb s t : inv s -> nb s (follow s t).
Proof. apply follow_unbound. Qed.

Lemma scv_lt s v : scv s v -> v < length (vars s).
Proof. intros Sv. apply Sv. reflexivity. Qed.
Arguments scv_lt [s v] _.

(* ---- check_constraints ---- *)
Lemma cc_sstep f : sspec_fulfill f -> sspec_cc (S f).
Proof.
  intros F v s I Sv. rewrite !check_constraints_S. apply sim_gets.
  rewrite cs_G by (apply scv_lt; exact Sv). rewrite cset_G. unfold shift_cset.
  set (pending := cset_of s (c_cs (cell_of s v))).
  assert (FP : Forall (fun c => c < length (constrs s)) pending) by (apply inv_csF; auto).
  rewrite map_length.
  eapply sim_bind with (fA := shks)
    (Q1 := fun order s1 => Forall (fun c => c < length (constrs s1)) order).
  - destruct (2 <=? length pending).
    + apply sim_next_choice; auto using ext_refl. intros r s1 I1 E1 _ _ _ Hc.
      rewrite permute_shift. apply sim_ret; auto. apply Forall_permute. rewrite Hc. exact FP.
    + apply sim_ret; auto using ext_refl.
  - intros order s1 I1 E1 FO.
    eapply sim_conseq;
      [apply sim_forM with (J := fun s2 => ext s1 s2) (fx := Nat.add dk); auto using ext_refl|unfold T; auto].
    intros c s2 Hc I2 E2 E12. cbv beta.
    assert (Lc : c < length (constrs s2)).
    { rewrite Forall_forall in FO. specialize (FO c Hc). pose proof (ext_constrs E12). lia. }
    eapply sim_bind_id; [apply sim_use; [exact E2|apply F; auto]|].
    intros d s3 I3 E3 (_ & E23). destruct d.
    + assert (Lv : v < length (vars s3)).
      { pose proof (scv_lt Sv). pose proof (ext_vars E3). lia. }
      apply sim_modify_end.
      * cbv beta zeta. rewrite cs_G by exact Lv. rewrite cset_G. unfold shift_cset.
        rewrite remove_nat_shift. apply set_cset_G.
      * apply inv_set_cset; auto. apply Forall_remove_nat. apply inv_csF; auto.
      * eapply ext_trans; [exact E3|apply ext_set_cset].
      * eapply ext_trans; [exact E12|]. eapply ext_trans; [exact E23|apply ext_set_cset].
    + sdone_ret. eapply ext_trans; eauto.
Qed.

(* ---- fix_ty ---- *)
Lemma fix_sstep f : sspec_bind f -> sspec_fix f -> sspec_fix (S f).
Proof.
  intros B Fx pl t s I St. rewrite !fix_ty_S. apply sim_gets. rewrite follow_G by apply I.
  pose proof (follow_unbound t I) as N. pose proof (follow_sct I St) as Sa.
  destruct (follow s t) as [v|o args] eqn:Ef; cbn [shift_tyv].
  - eapply sim_bind_id with (Q1 := T).
    + apply sim_gets. rewrite lower_G, upper_G. destruct pl.
      * destruct (c_lower (cell_of s v));
          [apply (B v (O n [])); cbn; auto using sct_V, sct_O0, noccb_O0|sdone_ret].
      * destruct (c_upper (cell_of s v));
          [apply (B v (O n [])); cbn; auto using sct_V, sct_O0, noccb_O0|sdone_ret].
    + intros u s1 I1 E1 _. apply sim_gets_end; [exact I1|exact E1| |].
      * split; [apply follow_unb; auto|]. apply follow_sct; auto. eapply sct_ext; eauto.
      * apply (follow_G s1 (V v)). apply I1.
  - eapply sim_bind_id with (Q1 := T).
    + apply sct_args in Sa. clear Ef N St.
      assert (G : forall vs s1, inv s1 -> ext s s1 ->
                sim (fun x => x) s1 ((fix go (vs : list bool) (ps : list tyv) : M unit :=
                   match vs, ps with
                   | v :: vs', p :: ps' =>
                       Engine.fix_ty H f (if v then pl else negb pl) p ;;; go vs' ps'
                   | _, _ => ret tt
                   end) vs args)
                   ((fix go (vs : list bool) (ps : list tyv) : M unit :=
                   match vs, ps with
                   | v :: vs', p :: ps' =>
                       Engine.fix_ty H f (if v then pl else negb pl) p ;;; go vs' ps'
                   | _, _ => ret tt
                   end) vs (map sh args)) T s1); [|apply G; auto using ext_refl].
      induction args as [|p ps IHp]; intros vs s1 I1 E1; destruct vs as [|b' vs]; try sdone_ret.
      inversion Sa; subst. cbn [map].
      eapply sim_bind with (fA := sh) (Q1 := T); [suse Fx; eapply sct_ext; eauto|]. intros r s2 I2 E2 _.
      suse IHp. eapply ext_trans; eauto.
    + intros u s1 I1 E1 _. apply sim_gets_end; [exact I1|exact E1| |].
      * split; [exact Logic.I|]. apply follow_sct; auto. eapply sct_ext; eauto.
      * apply (follow_G s1 (O o args)). apply I1.
Qed.

(* ---- above / below ---- *)
Lemma above_sstep f : sspec_unify f -> sspec_bind f -> sspec_cc f -> sspec_above (S f).
Proof.
  intros U B C v new s I P Sv. rewrite !above_S. destruct (Nat.eqb new Top) eqn:Et.
  - apply Nat.eqb_eq in Et. apply (B v (O Top [])); cbn; auto using sct_O0, noccb_O0.
  - apply Nat.eqb_neq in Et. unfold set_wild.
    apply sim_upd_cell; auto using ext_refl; cbn [c_lower c_upper]; try apply (inv_lo I); try apply (inv_up I).
    intros s1 _ I1 E1 _. apply sim_gets. rewrite bound_G, !lower_G, !upper_G.
    destruct (c_bound (cell_of s1 v)) as [t|] eqn:Eb; cbn [option_map];
      [suse (U true false false (O new []) t); eauto using sct_O0, sct_of_bound|].
    assert (Sv1 : scv s1 v) by (eapply scv_ext; eauto).
    assert (SL : sim (fun x => x) s (set_lower v (Some new);;; Engine.check_constraints H f v)
                   (set_lower (dv + v) (Some new);;; Engine.check_constraints H f (dv + v)) T s1).
    { unfold set_lower. apply sim_upd_cell; auto; cbn [c_lower c_upper]; try apply (inv_up I1); try congruence.
      intros s2 _ I2 E2 E12. suse C. eapply scv_ext; eauto. }
    eapply sim_bind_id with (Q1 := T).
    + destruct (c_upper (cell_of s1 v)), (c_lower (cell_of s1 v)); break_if;
        try exact SL; try sdone_ret; try sdone_fail.
    + intros u s2 I2 E2 _. apply sim_gets. rewrite bound_G, !lower_G, !upper_G.
      destruct (c_bound (cell_of s2 v)) eqn:Eb2; cbn [option_map]; try sdone_ret.
      destruct (c_lower (cell_of s2 v)) as [l|]; try sdone_ret.
      destruct (c_upper (cell_of s2 v)); try sdone_ret.
      break_if; try sdone_ret. suse (B v (O l [])); cbn; eauto using sct_O0, scv_ext, noccb_O0.
Qed.

Lemma below_sstep f : sspec_unify f -> sspec_bind f -> sspec_cc f -> sspec_below (S f).
Proof.
  intros U B C v new s I P Sv. rewrite !below_S. destruct (Nat.eqb new Bottom) eqn:Et.
  - apply Nat.eqb_eq in Et. apply (B v (O Bottom [])); cbn; auto using sct_O0, noccb_O0.
  - apply Nat.eqb_neq in Et. unfold set_wild.
    apply sim_upd_cell; auto using ext_refl; cbn [c_lower c_upper]; try apply (inv_lo I); try apply (inv_up I).
    intros s1 _ I1 E1 _. apply sim_gets. rewrite bound_G, !lower_G, !upper_G.
    destruct (c_bound (cell_of s1 v)) as [t|] eqn:Eb; cbn [option_map];
      [suse (U true false false t (O new [])); eauto using sct_O0, sct_of_bound|].
    assert (Sv1 : scv s1 v) by (eapply scv_ext; eauto).
    assert (SL : sim (fun x => x) s (set_upper v (Some new);;; Engine.check_constraints H f v)
                   (set_upper (dv + v) (Some new);;; Engine.check_constraints H f (dv + v)) T s1).
    { unfold set_upper. apply sim_upd_cell; auto; cbn [c_lower c_upper]; try apply (inv_lo I1); try congruence.
      intros s2 _ I2 E2 E12. suse C. eapply scv_ext; eauto. }
    eapply sim_bind_id with (Q1 := T).
    + destruct (c_upper (cell_of s1 v)), (c_lower (cell_of s1 v)); break_if;
        try exact SL; try sdone_ret; try sdone_fail.
    + intros u s2 I2 E2 _. apply sim_gets. rewrite bound_G, !lower_G, !upper_G.
      destruct (c_bound (cell_of s2 v)) eqn:Eb2; cbn [option_map]; try sdone_ret.
      destruct (c_upper (cell_of s2 v)) as [l|]; try sdone_ret.
      destruct (c_lower (cell_of s2 v)); try sdone_ret.
      break_if; try sdone_ret. suse (B v (O l [])); cbn; eauto using sct_O0, scv_ext, noccb_O0.
Qed.

(* ---- minimize ---- *)
Lemma map_snoc_sh l x : map sh l ++ [sh x] = map sh (l ++ [x]).
Proof. rewrite map_app. reflexivity. Qed.

Lemma minimize_sstep f : sspec_fix f -> sspec_minimize (S f).
Proof.
  intros Fx c s I Ke. rewrite !minimize_S. apply sim_gets.
  pose proof (elim_in_range _ _ Ke) as Lc.
  rewrite constr_G by exact Lc.
  pose proof (scts_of_constr I Lc) as Sk. unfold constr_terms in Sk.
  inversion Sk as [|? ? Sref Salts]; subst.
  cbn [shift_constr k_alts k_ref].
  eapply sim_bind with (fA := map sh) (Q1 := fun r s2 => Forall (sct s2) r).
  - match goal with |- sim _ _ (?outer _ _) _ _ _ =>
      assert (OL : forall objs mins s1, inv s1 -> Forall (sct s1) objs -> Forall (sct s1) mins ->
                   sim (map sh) s1 (outer objs mins) (outer (map sh objs) (map sh mins))
                       (fun r s2 => Forall (sct s2) r) s1) end.
    { induction objs as [|obj rest IHo]; intros mins s1 I1 So Sm; [apply sim_ret; auto using ext_refl|].
      cbn [map]. cbv beta iota fix. inversion So as [|? ? Sobj Srest]; subst.
      eapply sim_bind with (fA := fun r : list tyv * bool => (map sh (fst r), snd r))
                           (Q1 := fun r s2 => Forall (sct s2) (fst r)).
      - match goal with |- sim _ _ (?inner _ _ _) (?inner' _ _ _) _ _ =>
          assert (IL : forall post pre add s2, inv s2 -> sct s2 obj -> Forall (sct s2) pre ->
                       Forall (sct s2) post ->
                       sim (fun r : list tyv * bool => (map sh (fst r), snd r)) s2
                           (inner pre post add) (inner' (map sh pre) (map sh post) add)
                           (fun r s3 => Forall (sct s3) (fst r)) s2) end.
        { induction post as [|mi post IHp]; intros pre add s2 I2 Sob Spre Spost;
            [apply (sim_ret (fun r : list tyv * bool => (map sh (fst r), snd r))); auto using ext_refl|].
          cbn [map]. cbv beta iota fix. inversion Spost as [|? ? Smi Spost']; subst.
          apply sim_lift_id; auto using ext_refl; [apply match_f_G; apply I2|]. intros r1 _.
          eapply sim_bind with (fA := sh) (Q1 := fun mi' s3 => sct s3 mi').
          - destruct r1 as [[|]|].
            + apply sim_gets_end; auto using ext_refl, follow_sct. apply follow_G. apply I2.
            + apply sim_ret; auto using ext_refl.
            + apply sim_ret; auto using ext_refl.
          - intros mi' s3 I3 E3 Smi'.
            apply sim_lift_id; auto; [apply match_f_G; apply I3|]. intros r2 _.
            rewrite map_snoc_sh.
            suse' IHp; auto.
            + eapply sct_ext; eauto.
            + apply Forall_snoc; auto. eapply scts_ext; eauto.
            + eapply scts_ext; eauto.
            + cbv beta. intros a s4 _ _ (Q4 & _). exact Q4. }
        apply (IL mins [] true); auto.
      - intros [mins' add] s2 I2 E2 Sm'. cbv beta. cbn [fst snd] in *. destruct add.
        + apply sim_gets. rewrite follow_G by apply I2.
          eapply sim_bind with (fA := sh) (Q1 := fun o' s3 => sct s3 o' /\ ext s2 s3).
          * suse' Fx; auto.
            -- apply follow_sct; auto. eapply sct_ext; eauto.
            -- cbv beta. intros a s3 _ _ ((_ & Q3) & E23). auto.
          * intros o' s3 I3 E3 (So' & E23). rewrite map_snoc_sh.
            suse' IHo; auto.
            -- eapply scts_ext; [|exact Srest]. exact E3.
            -- apply Forall_snoc; auto. eapply scts_ext; eauto.
            -- cbv beta. intros a s4 _ _ (Q4 & _). exact Q4.
        + suse' IHo; auto.
          * eapply scts_ext; eauto.
          * cbv beta. intros a s4 _ _ (Q4 & _). exact Q4. }
    apply (OL (k_alts (constr_of s c)) []); auto.
  - intros mins s1 I1 E1 Sm. apply sim_gets. apply sim_gets.
    rewrite follow_G, map_follow_G by apply I1. unfold upd_constr.
    assert (Lc1 : c < length (constrs s1)) by (pose proof (ext_constrs E1); lia).
    assert (Ke1 : k_elim (constr_of s1 c) = true) by (rewrite (ext_elim E1) by exact Lc; exact Ke).
    apply sim_modify_end.
    + apply (upd_constr_G
        (fun k => mkConstr (k_elim k) (follow s1 (k_ref (constr_of s c))) (map (follow s1) mins) (k_strict k) (k_done k))
        (fun k => mkConstr (k_elim k) (sh (follow s1 (k_ref (constr_of s c)))) (map sh (map (follow s1) mins))
                           (k_strict k) (k_done k))).
      reflexivity.
    + apply inv_set_constr; auto. cbn [k_elim]. congruence.
      unfold constr_terms. cbn [k_ref k_alts]. constructor.
      * apply follow_sct; auto. eapply sct_ext; eauto.
      * rewrite Forall_forall in *. intros x Hx. apply in_map_iff in Hx. destruct Hx as (y & <- & Hy).
        apply follow_sct; auto.
    + eapply ext_trans; [exact E1|]. apply ext_set_constr. reflexivity.
    + rewrite constr_of_set_constr_same by exact Lc1. unfold constr_terms. cbn [k_ref k_alts].
      constructor.
      * apply (follow_unb _ (k_ref (constr_of s c)) I1).
      * rewrite Forall_forall. intros x Hx. apply in_map_iff in Hx. destruct Hx as (y & <- & _).
        apply (follow_unb _ y I1).
Qed.

(* ---- fulfill ---- *)
Lemma norm_G s l :
  forallb (fun t => match t with
                    | V v => match c_bound (cell_of (G s) v) with Some _ => false | None => true end
                    | O _ _ => true end) (map sh l) =
  forallb (fun t => match t with
                    | V v => match c_bound (cell_of s v) with Some _ => false | None => true end
                    | O _ _ => true end) l.
Proof.
  induction l as [|[v|o args] l IH]; cbn [map forallb shift_tyv]; [reflexivity| |exact IH].
  rewrite bound_G, IH. destruct (c_bound (cell_of s v)); reflexivity.
Qed.

Lemma alts_G s fuel ref : core s -> forall l,
  (fix go (l : list tyv) : res (list tyv) :=
     match l with
     | [] => Ok []
     | t :: r =>
         match match_f H fuel (G s) true true (sh ref) t with
         | Er e => Er e
         | Ok (Some false) => go r
         | Ok _ => match go r with Er e => Er e | Ok r' => Ok (t :: r') end
         end
     end) (map sh l) =
  rmap (map sh)
  ((fix go (l : list tyv) : res (list tyv) :=
     match l with
     | [] => Ok []
     | t :: r =>
         match match_f H fuel s true true ref t with
         | Er e => Er e
         | Ok (Some false) => go r
         | Ok _ => match go r with Er e => Er e | Ok r' => Ok (t :: r') end
         end
     end) l).
Proof.
  intros C. induction l as [|t l IH]; [reflexivity|]. cbn [map]. rewrite match_f_G by exact C.
  destruct (match_f H fuel s true true ref t) as [[[|]|]|e]; try reflexivity; try exact IH;
    rewrite IH;
    (destruct ((fix go (l : list tyv) : res (list tyv) := _) l); reflexivity).
Qed.

Lemma done_G s c : c < length (constrs s) -> k_done (constr_of (G s) (dk + c)) = k_done (constr_of s c).
Proof. intros L. rewrite constr_G by exact L. reflexivity. Qed.

Lemma fulfill_sstep f : sspec_unify f -> sspec_minimize f -> sspec_fulfill (S f).
Proof.
  intros U Mn c s I Lc. rewrite !fulfill_S. apply sim_gets. rewrite constr_G by exact Lc.
  cbn [shift_constr k_elim k_done k_alts k_ref k_strict].
  destruct (k_elim (constr_of s c)) eqn:Ke.
  - destruct (k_done (constr_of s c)); [sdone_ret|].
    eapply sim_bind_id; [apply Mn; auto|]. intros u s1 I1 E1 N1. apply sim_gets. apply sim_gets.
    assert (Lc1 : c < length (constrs s1)) by (pose proof (ext_constrs E1); lia).
    assert (Ke1 : k_elim (constr_of s1 c) = true) by (rewrite (ext_elim E1) by exact Lc; exact Ke).
    rewrite constr_G by exact Lc1. rewrite constr_terms_shk, norm_G.
    match goal with |- context[negb ?b] => assert (Hn : b = true) end.
    { apply forallb_forall. intros x Hx. rewrite Forall_forall in N1. specialize (N1 x Hx).
      destruct x; cbn in N1; [rewrite N1|]; reflexivity. }
    rewrite Hn. cbn [negb].
    pose proof (scts_of_constr I1 Lc1) as Sk1. unfold constr_terms in Sk1.
    inversion Sk1 as [|? ? Sref1 Salts1]; subst.
    cbn [shift_constr k_elim k_done k_alts k_ref k_strict].
    apply sim_lift with (fA := map sh); auto.
    { apply alts_G. apply I1. }
    intros alts Halts.
    assert (Salts : Forall (sct s1) alts).
    { revert alts Halts Salts1. generalize (k_alts (constr_of s1 c)) as l.
      induction l as [|t l IHl]; intros alts Halts Sl.
      - inversion Halts; subst. constructor.
      - inversion Sl as [|? ? St Sl']; subst.
        destruct (Engine.match_f H f s1 true true (k_ref (constr_of s1 c)) t) as [[[|]|]|e'] eqn:Em;
          try discriminate; try (apply IHl; auto; fail);
          (destruct ((fix go (l : list tyv) : res (list tyv) := _) l) as [r'|] eqn:Eg; [|discriminate];
           inversion Halts; subst; constructor; auto). }
    clear Halts.
    unfold upd_constr. apply sim_modify.
    { apply (upd_constr_G (fun k => mkConstr true (k_ref k) alts (k_strict k) (k_done k))
                          (fun k => mkConstr true (k_ref k) (map sh alts) (k_strict k) (k_done k))).
      reflexivity. }
    match goal with |- sim _ _ _ _ _ ?s' => set (s2 := s') end.
    assert (I2 : inv s2).
    { apply inv_set_constr; auto; [cbn; discriminate|]. unfold constr_terms. cbn [k_ref k_alts]. auto. }
    assert (E12 : ext s1 s2) by (apply ext_set_constr; intros _; cbn; congruence).
    assert (E2 : ext s s2) by (eapply ext_trans; eauto).
    assert (Lc2 : c < length (constrs s2)) by (pose proof (ext_constrs E12); lia).
    assert (Ke2 : k_elim (constr_of s2 c) = true).
    { unfold s2. rewrite constr_of_set_constr_same by exact Lc1. reflexivity. }
    clearbody s2.
    destruct alts as [|t [|t2 r]]; cbn [map].
    + sdone_fail.
    + apply sim_modify.
      { apply (upd_constr_G (fun k => mkConstr true (k_ref k) (k_alts k) (k_strict k) true)
                            (fun k => mkConstr true (k_ref k) (k_alts k) (k_strict k) true)).
        reflexivity. }
      match goal with |- sim _ _ _ _ _ ?s' => set (s3 := s') end.
      assert (E23 : ext s2 s3) by (apply ext_set_constr; intros _; cbn; congruence).
      assert (I3 : inv s3).
      { apply inv_set_constr; auto; [cbn; discriminate|]. apply (scts_of_constr I2 Lc2). }
      assert (E3 : ext s s3) by (eapply ext_trans; eauto).
      clearbody s3.
      inversion Salts as [|? ? St _]; subst.
      assert (E13 : ext s1 s3) by (eapply ext_trans; eauto).
      eapply sim_bind_id with (Q1 := T); [suse U; eapply sct_ext; eassumption|].
      intros u' s4 I4 E4 _. apply sim_gets.
      rewrite done_G by (pose proof (ext_constrs E4); lia). sdone_ret.
    + apply sim_gets. rewrite done_G by exact Lc2. sdone_ret.
  - pose proof (inv_ar I Lc Ke) as La.
    pose proof (scts_of_constr I Lc) as Sk. unfold constr_terms in Sk.
    destruct (k_alts (constr_of s c)) as [|target [|]] eqn:Ea; cbn in La; try discriminate.
    cbn [map].
    inversion Sk as [|? ? Sref Salts]; subst. inversion Salts as [|? ? Star _]; subst.
    eapply sim_bind_id with (Q1 := T); [suse U|]. intros u s1 I1 E1 _.
    apply sim_lift_id; auto; [apply match_f_G; apply I1|]. intros r _.
    assert (Lc1 : c < length (constrs s1)) by (pose proof (ext_constrs E1); lia).
    destruct r as [[|]|]; [|sdone_fail|apply sim_gets; rewrite done_G by exact Lc1; sdone_ret].
    eapply sim_bind_id with (Q1 := T).
    + destruct (k_strict (constr_of s c)); [|sdone_ret].
      apply (sim_lift_end (fun x => x)); unfold T; auto. rewrite rmap_id. apply match_f_G. apply I1.
    + intros same s2 I2 E2 _.
      assert (Lc2 : c < length (constrs s2)) by (pose proof (ext_constrs E2); lia).
      destruct same as [[|]|]; [sdone_fail| |apply sim_gets; rewrite done_G by exact Lc2; sdone_ret].
      assert (Ke2 : k_elim (constr_of s2 c) = false) by (rewrite (ext_elim E2) by exact Lc; exact Ke).
      unfold upd_constr. apply sim_modify.
      { apply (upd_constr_G (fun k => mkConstr false (k_ref k) (k_alts k) (k_strict k) true)
                            (fun k => mkConstr false (k_ref k) (k_alts k) (k_strict k) true)).
        reflexivity. }
      apply (sim_ret (fun x => x)); unfold T; auto.
      * apply inv_set_constr; auto.
        -- cbn. intros _. apply (inv_ar I2); auto.
        -- apply (scts_of_constr I2 Lc2).
      * eapply ext_trans; [exact E2|]. apply ext_set_constr. intros _. cbn. congruence.
Qed.

(* ---- bind ---- *)
Lemma fold_union_G s base : forall vs, Forall (fun v => v < length (vars s)) vs ->
  fold_right (fun w acc => union (cset_of (G s) (c_cs (cell_of (G s) w))) acc) (shks base) (shv vs) =
  shks (fold_right (fun w acc => union (cset_of s (c_cs (cell_of s w))) acc) base vs).
Proof.
  induction vs as [|w vs IH]; intros F; cbn [map fold_right]; [reflexivity|].
  inversion F; subst. rewrite IH by assumption. rewrite cs_G by assumption. rewrite cset_G.
  unfold shift_cset. apply union_shift.
Qed.

Lemma bind_sstep f : sspec_above f -> sspec_below f -> sspec_cc f -> sspec_bind (S f).
Proof.
  intros Ab Be C v t s I Hv Nt Sv St No. rewrite !bind_S. apply sim_gets.
  rewrite bound_G, Hv. cbn [option_map]. rewrite ?lower_G, ?upper_G.
  unfold set_wild.
  apply sim_upd_cell; auto using ext_refl; cbn [c_lower c_upper]; try apply (inv_lo I); try apply (inv_up I).
  intros s1 Es1 I1 E1 _.
  assert (B1 : forall w, c_bound (cell_of s1 w) = c_bound (cell_of s w)).
  { subst s1. apply bound_set_cell_same. reflexivity. }
  assert (Hv1 : c_bound (cell_of s1 v) = None) by (rewrite B1; exact Hv).
  assert (Nt1 : nb s1 t) by (eapply nb_bound_eq; [exact B1|exact Nt]).
  assert (Sv1 : scv s1 v) by (eapply scv_ext; eauto).
  assert (St1 : sct s1 t) by (eapply sct_ext; eauto).
  assert (No1 : t <> V v -> nocc s1 v t).
  { intros Ne. destruct (No eq_refl) as [->|N]; [congruence|].
    eapply nocc_bound_eq; [exact B1|exact N]. }
  clear Es1.
  assert (SB : forall wld, let s2 := set_cell s1 v (mkCell wld (Some t) (c_lower (cell_of s1 v))
                                  (c_upper (cell_of s1 v)) (c_cs (cell_of s1 v))) in
               t <> V v -> inv s2 /\ ext s1 s2).
  { intros wld s2 Ne. split.
    - apply inv_set_cell; auto; cbn [c_lower c_upper c_bound c_cs]; try apply (inv_lo I1); try apply (inv_up I1).
      + right. split; auto. exists t. split; [reflexivity|split; [exact Nt1|split; [exact Ne|auto]]].
      + intros t' Ht'. inversion Ht'; subst. exact St1.
      + intros Bt L. apply (sc_cs (proj2 I1 Bt)). exact L.
    - apply ext_set_cell. intros t'. rewrite Hv1. discriminate. }
  destruct t as [w|o args]; cbn [shift_tyv].
  - rewrite eqb_shift. destruct (Nat.eqb v w) eqn:Evw; [sdone_ret|]. apply Nat.eqb_neq in Evw.
    unfold set_bound, upd_cell. apply sim_modify.
    { apply (upd_cell_G (fun c => mkCell (c_wild c) (Some (V w)) (c_lower c) (c_upper c) (c_cs c))
                        (fun c => mkCell (c_wild c) (Some (V (dv + w))) (c_lower c) (c_upper c) (c_cs c))).
      reflexivity. }
    match goal with |- sim _ _ _ _ _ ?s' => set (s2 := s') end.
    destruct (SB (c_wild (cell_of s1 v))) as (I2 & E12); [congruence|]. fold s2 in I2, E12.
    assert (E2 : ext s s2) by (eapply ext_trans; eauto).
    clearbody s2.
    assert (Sw1 : scv s1 w) by (apply sct_V; exact St1).
    assert (Lv2 : v < length (vars s2)) by (pose proof (scv_lt Sv1); pose proof (ext_vars E12); lia).
    assert (Lw2 : w < length (vars s2)) by (pose proof (scv_lt Sw1); pose proof (ext_vars E12); lia).
    apply sim_modify.
    { cbv beta zeta. rewrite !cs_G by assumption. rewrite !cset_G. unfold shift_cset.
      rewrite union_shift. apply set_cset_G. }
    match goal with |- sim _ _ _ _ _ ?s' => set (s3 := s') end.
    assert (I3 : inv s3).
    { apply inv_set_cset; auto. apply Forall_union; apply inv_csF; auto. }
    assert (E23 : ext s2 s3) by apply ext_set_cset.
    assert (E3 : ext s s3) by (eapply ext_trans; [exact E2|exact E23]).
    clearbody s3.
    assert (Lw3 : w < length (vars s3)) by (pose proof (ext_vars E23); lia).
    assert (Sw3 : scv s3 w) by (intros _; exact Lw3).
    apply sim_gets. rewrite cs_G by exact Lw3.
    apply sim_set_cs; auto. { apply (sc_cs (proj2 I3 eq_refl)). exact Lw3. }
    intros s4 I4 E4 _.
    apply sim_upd_cell with (g := fun c => mkCell false (c_bound c) (c_lower c) (c_upper c) (c_cs c))
                            (g' := fun c => mkCell false (c_bound c) (c_lower c) (c_upper c) (c_cs c));
      auto; cbn [c_lower c_upper]; try apply (inv_lo I4); try apply (inv_up I4).
    intros s5 _ I5 E5 _.
    assert (Sw5 : scv s5 w) by (apply sct_V; eapply sct_ext; eauto).
    eapply sim_bind_id with (Q1 := T).
    { destruct (c_lower (cell_of s v)) as [l|] eqn:El; [|sdone_ret].
      suse Ab. intros ->. exfalso. eapply (inv_lo I); eauto. }
    intros u s6 I6 E6 _.
    eapply sim_bind_id with (Q1 := T).
    { destruct (c_upper (cell_of s v)) as [l|] eqn:El; [|sdone_ret].
      suse Be. intros ->. exfalso. eapply (inv_up I); eauto.
      apply sct_V; eapply sct_ext; eauto. }
    intros u' s7 I7 E7 _. suse C. eapply scv_ext; eauto.
  - unfold set_bound, upd_cell. apply sim_modify.
    { apply (upd_cell_G (fun c => mkCell (c_wild c) (Some (O o args)) (c_lower c) (c_upper c) (c_cs c))
                        (fun c => mkCell (c_wild c) (Some (O o (map sh args))) (c_lower c) (c_upper c) (c_cs c))).
      reflexivity. }
    match goal with |- sim _ _ _ _ _ ?s' => set (s2 := s') end.
    destruct (SB (c_wild (cell_of s1 v))) as (I2 & E12); [discriminate|]. fold s2 in I2, E12.
    assert (E2 : ext s s2) by (eapply ext_trans; eauto).
    clearbody s2.
    assert (Lv2 : v < length (vars s2)) by (pose proof (scv_lt Sv1); pose proof (ext_vars E12); lia).
    eapply sim_bind_id with (Q1 := T); [|intros u s3 I3 E3 _; suse C; eapply scv_ext; eauto].
    destruct (Engine.basic H o).
    + break_if; try sdone_fail; sdone_ret.
    + match goal with |- context[if ?c then _ else _] => destruct c end; [sdone_fail|].
      apply sim_lift with (fA := shv); auto.
      { apply (vars_f_G s2 (proj1 I2) f (O o args) []). }
      intros vs Hvs.
      assert (Fvs : Forall (fun w => w < length (vars s2)) vs).
      { eapply (vars_f_scope s2 (proj2 I2 eq_refl)); [| |exact Hvs]; [|constructor].
        eapply sct_ext; [exact E12|exact St1|reflexivity]. }
      apply sim_modify.
      { cbv beta zeta. rewrite cs_G by exact Lv2. rewrite cset_G. unfold shift_cset.
        rewrite fold_union_G by exact Fvs. apply set_cset_G. }
      match goal with |- sim _ _ _ _ _ ?s' => set (s3 := s') end.
      assert (I3 : inv s3).
      { apply inv_set_cset; auto. apply Forall_fold_union with (g := fun w => cset_of s2 (c_cs (cell_of s2 w)));
          intros; apply inv_csF; auto. }
      assert (E23 : ext s2 s3) by apply ext_set_cset.
      assert (E3 : ext s s3) by (eapply ext_trans; [exact E2|exact E23]).
      assert (Lv3 : v < length (vars s3)) by (pose proof (ext_vars E23); lia).
      assert (Li : c_cs (cell_of s3 v) < length (csets s3)).
      { apply (sc_cs (proj2 I3 eq_refl)). exact Lv3. }
      clearbody s3.
      apply sim_gets. rewrite cs_G by exact Lv3.
      eapply sim_conseq;
        [apply sim_forM with (J := fun s4 => ext s3 s4) (fx := Nat.add dv); auto using ext_refl|unfold T; auto].
      intros w s4 _ I4 E4 E34. cbv beta.
      apply sim_set_cs_end; auto.
      * pose proof (ext_csets E34). lia.
      * intros s5 _ _ E45. eapply ext_trans; eauto.
Qed.

(* ---- allocation ---- *)
Lemma fresh_list_sim n : forall s, inv s ->
  sim (map sh) s (fresh_list n) (fresh_list n)
     (fun fr s1 => (forall w, c_bound (cell_of s1 w) = c_bound (cell_of s w)) /\
                   Forall (sct s1) fr /\ length fr = n /\ Forall (is_fresh s) fr) s.
Proof.
  induction n as [|n IH]; intros s I; cbn [fresh_list].
  - apply (sim_ret (map sh)); auto using ext_refl.
  - apply sim_fresh; auto using ext_refl. intros s1 Es1 I1 E1 _.
    eapply sim_bind with (fA := map sh); [apply sim_use; [exact E1|apply IH; auto]|].
    intros r s2 I2 E2 ((B2 & S2 & L2 & F2) & E12).
    apply (sim_ret (map sh) _ (V (length (vars s)) :: r)); auto.
    split; [|split; [|split]].
    + intros w. rewrite B2. subst s1. apply alloc_var_bound.
    + constructor; auto. apply scv_V. intros _.
      pose proof (ext_vars E12) as Lv. subst s1. rewrite alloc_var_length in Lv. lia.
    + cbn. lia.
    + constructor.
      * exists (length (vars s)). auto.
      * eapply Forall_impl; [|exact F2]. intros t (w & -> & Lw). exists w. split; auto.
        subst s1. rewrite alloc_var_length in Lw. lia.
Qed.

(* ---- unify ---- *)
Lemma unify_sstep f :
  sspec_unify f -> sspec_bind f -> sspec_above f -> sspec_below f -> sspec_unify (S f).
Proof.
  intros U B Ab Be sub skb skw a0 b0 s I Sa0 Sb0. rewrite !unify_S. apply sim_gets. apply sim_gets.
  rewrite !follow_G by apply I.
  pose proof (follow_unb _ a0 I) as Na. pose proof (follow_unb _ b0 I) as Nb.
  pose proof (follow_sct I Sa0) as Sa. pose proof (follow_sct I Sb0) as Sb.
  destruct (follow s a0) as [va|oa xs]; destruct (follow s b0) as [vb|ob ys]; cbn [shift_tyv].
  - apply sim_gets. apply sim_gets. rewrite !wild_G.
    break_if; [apply (B va (V vb)); auto using sct_V, noccb_var|sdone_ret].
  - destruct (Nat.eqb ob Top); [sdone_ret|].
    apply sim_lift_id; auto using ext_refl.
    { apply (occurs_f_G H s (proj1 I) f (O ob ys) (V va)). }
    intros oc Hoc. destruct oc; [sdone_fail|].
    assert (No : noccb s va (O ob ys)).
    { intros _. right. eapply occurs_false_nocc; eauto. apply I. }
    destruct (Engine.basic H ob).
    + apply sim_gets. rewrite wild_G.
      break_if; [sdone_ret|apply Be; auto using sct_V|apply (B va (O ob ys)); auto using sct_V].
    + destruct (skw || skb); [|apply (B va (O ob ys)); auto using sct_V].
      rewrite map_length.
      eapply sim_bind with (fA := map sh); [apply fresh_list_sim; auto|].
      intros fr s1 I1 E1 (B1 & S1 & _ & F1).
      eapply sim_bind_id with (Q1 := T).
      * suse (B va (O ob fr)); [rewrite B1; auto|apply sct_V; eapply sct_ext; eauto|apply sct_O; auto|].
        intros Bt. right. eapply nocc_fresh; eauto. apply (sct_V Sa Bt).
      * intros u s2 I2 E2 _. suse (U sub skb skw (V va) (O ob ys)); eapply sct_ext; eauto.
  - destruct (Nat.eqb oa Bottom); [sdone_ret|].
    apply sim_lift_id; auto using ext_refl.
    { apply (occurs_f_G H s (proj1 I) f (O oa xs) (V vb)). }
    intros oc Hoc. destruct oc; [sdone_fail|].
    assert (No : noccb s vb (O oa xs)).
    { intros _. right. eapply occurs_false_nocc; eauto. apply I. }
    destruct (Engine.basic H oa).
    + apply sim_gets. rewrite wild_G.
      break_if; [sdone_ret|apply Ab; auto using sct_V|apply (B vb (O oa xs)); auto using sct_V].
    + destruct (skw || skb); [|apply (B vb (O oa xs)); auto using sct_V].
      rewrite map_length.
      eapply sim_bind with (fA := map sh); [apply fresh_list_sim; auto|].
      intros fr s1 I1 E1 (B1 & S1 & _ & F1).
      eapply sim_bind_id with (Q1 := T).
      * suse (B vb (O oa fr)); [rewrite B1; auto|apply sct_V; eapply sct_ext; eauto|apply sct_O; auto|].
        intros Bt. right. eapply nocc_fresh; eauto. apply (sct_V Sb Bt).
      * intros u s2 I2 E2 _. suse (U sub skb skw (V vb) (V vb)); eapply sct_ext; eauto.
  - break_if; try sdone_ret; try sdone_fail.
    apply sct_args in Sa. apply sct_args in Sb.
    clear Na Nb Sa0 Sb0.
    assert (G : forall vs ys s1, inv s1 -> ext s s1 -> Forall (sct s) ys ->
              sim (fun x => x) s1 ((fix go (vs : list bool) (xs ys : list tyv) : M unit :=
                 match vs, xs, ys with
                 | v :: vs', x :: xs', y :: ys' =>
                     (if v then Engine.unify H f sub skb skw x y else Engine.unify H f sub skb skw y x) ;;;
                     go vs' xs' ys'
                 | _, _, _ => ret tt
                 end) vs xs ys)
                 ((fix go (vs : list bool) (xs ys : list tyv) : M unit :=
                 match vs, xs, ys with
                 | v :: vs', x :: xs', y :: ys' =>
                     (if v then Engine.unify H f sub skb skw x y else Engine.unify H f sub skb skw y x) ;;;
                     go vs' xs' ys'
                 | _, _, _ => ret tt
                 end) vs (map sh xs) (map sh ys)) T s1); [|apply G; auto using ext_refl].
    induction xs as [|x xs IHx]; intros vs ys' s1 I1 E1 Sy; destruct vs as [|b' vs]; try sdone_ret;
      destruct ys' as [|y ys']; try sdone_ret.
    inversion Sa; subst. inversion Sy; subst. cbn [map].
    eapply sim_bind_id with (Q1 := T).
    + destruct b'; apply U; auto; eapply sct_ext; eauto.
    + intros u s2 I2 E2 _. suse IHx. eapply ext_trans; eauto.
Qed.

(* ---- the induction on fuel ---- *)
Theorem sspecs_all : forall f, sspecs f.
Proof.
  induction f as [|f (U & B & Ab & Be & C & F & Mn & Fx)]; [apply sspecs_0|].
  unfold sspecs. repeat apply conj.
  - apply unify_sstep; auto.
  - apply bind_sstep; auto.
  - apply above_sstep; auto.
  - apply below_sstep; auto.
  - apply cc_sstep; auto.
  - apply fulfill_sstep; auto.
  - apply minimize_sstep; auto.
  - apply fix_sstep; auto.
Qed.

Lemma unify_sim f : sspec_unify f. Proof. apply sspecs_all. Qed.
Lemma bind_sim f : sspec_bind f. Proof. apply sspecs_all. Qed.
Lemma fulfill_sim f : sspec_fulfill f. Proof. apply sspecs_all. Qed.
Lemma fix_sim f : sspec_fix f. Proof. apply sspecs_all. Qed.

(* ---- schemas ---- *)
Lemma nth_map_sh env i : i < length env -> nth i (map sh env) (V 0) = sh (nth i env (V 0)).
Proof.
  intros L. rewrite (nth_indep _ (V 0) (sh (V 0))) by (rewrite map_length; exact L). apply map_nth.
Qed.

Lemma eval_sty_sim env : forall t s, inv s -> Forall (sct s) env -> sty_wf (length env) t ->
  sim sh s (eval_sty env t) (eval_sty (map sh env) t) (fun r s1 => sct s1 r) s.
Proof.
  induction t as [i| |o args IH] using sty_ind'; intros s I Se Wf; cbn [eval_sty].
  - inversion Wf; subst.
    apply sim_gets_end; auto using ext_refl.
    + apply follow_sct; auto. rewrite Forall_forall in Se. apply Se. apply nth_In. auto.
    + rewrite nth_map_sh by assumption. apply follow_G. apply I.
  - apply sim_fresh; auto using ext_refl. intros s1 Es1 I1 E1 _.
    apply (sim_ret sh _ (V (length (vars s)))); auto.
    apply scv_V. intros _. subst s1. rewrite alloc_var_length. lia.
  - eapply sim_bind with (fA := map sh) (Q1 := fun xs s1 => Forall (sct s1) xs);
      [|intros xs s1 I1 E1 Sx; apply (sim_ret sh _ (O o xs)); auto using sct_O].
    assert (Wa : Forall (sty_wf (length env)) args) by (inversion Wf; auto).
    clear Wf. revert s I Se. induction IH as [|a r Ha Hr IHr]; intros s I Se;
      [apply (sim_ret (map sh) _ []); auto using ext_refl|].
    inversion Wa; subst.
    eapply sim_bind with (fA := sh); [apply Ha; auto|].
    intros x s1 I1 E1 Sx.
    assert (Se1 : Forall (sct s1) env) by (eapply scts_ext; eauto).
    eapply sim_bind with (fA := map sh) (Q1 := fun xs s2 => Forall (sct s2) xs /\ ext s1 s2).
    + suse' IHr; auto; try (cbv beta; auto).
    + intros xs s2 I2 E2 (Sxs & E12). apply (sim_ret (map sh) _ (x :: xs)); auto.
      constructor; auto. eapply sct_ext; eauto.
Qed.

Lemma eval_sty_list_sim env : forall l s, inv s -> Forall (sct s) env ->
  Forall (sty_wf (length env)) l ->
  sim (map sh) s
     ((fix go (l : list sty) : M (list tyv) :=
           match l with
           | [] => ret []
           | a :: rest => x <- eval_sty env a ;; xs <- go rest ;; ret (x :: xs)
           end) l)
     ((fix go (l : list sty) : M (list tyv) :=
           match l with
           | [] => ret []
           | a :: rest => x <- eval_sty (map sh env) a ;; xs <- go rest ;; ret (x :: xs)
           end) l) (fun r s1 => Forall (sct s1) r) s.
Proof.
  induction l as [|a r IH]; intros s I Se Wl; [apply (sim_ret (map sh) _ []); auto using ext_refl|].
  inversion Wl; subst.
  eapply sim_bind with (fA := sh); [apply eval_sty_sim; auto|].
  intros x s1 I1 E1 Sx.
  assert (Se1 : Forall (sct s1) env) by (eapply scts_ext; eauto).
  eapply sim_bind with (fA := map sh) (Q1 := fun xs s2 => Forall (sct s2) xs /\ ext s1 s2).
  - suse' IH; auto; try (cbv beta; auto).
  - intros xs s2 I2 E2 (Sxs & E12). apply (sim_ret (map sh) _ (x :: xs)); auto.
    constructor; auto. eapply sct_ext; eauto.
Qed.

Lemma closure_f_scope s : inv s -> forall fuel todo seen r,
  Forall (tsc (length (vars s))) todo -> Forall (fun v => v < length (vars s)) seen ->
  closure_f fuel s todo seen = Ok r -> Forall (fun v => v < length (vars s)) r.
Proof.
  intros I. pose proof (inv_core I) as C. pose proof (inv_wsc I) as W.
  induction fuel as [|f IH]; intros todo seen r St Ss; [cbn; discriminate|].
  cbn [closure_f]. destruct todo as [|t rest]; [intros X; inversion X; subst; auto|].
  inversion St as [|? ? St1 St2]; subst.
  destruct (vars_f (S f) s t []) as [vs|e'] eqn:E; [|discriminate].
  assert (Sv : Forall (fun v => v < length (vars s)) vs).
  { eapply (vars_f_scope s W); [exact St1|constructor|exact E]. }
  apply IH.
  - apply Forall_app. split; [|exact St2].
    rewrite Forall_forall. intros x Hx. apply in_flat_map in Hx. destruct Hx as (v & Hv & Hx).
    apply in_flat_map in Hx. destruct Hx as (c & Hc & Hx).
    pose proof (sc_constr W (c := c)) as F. rewrite Forall_forall in F. apply F; auto.
    eapply (core_cs C); eauto.
  - apply Forall_union; auto.
    rewrite Forall_forall in *. intros x Hx. apply filter_In in Hx. apply Sv. tauto.
Qed.

Lemma sim_forM_same {A} sb (J : store -> Prop) (f f' : A -> M unit) : forall l s,
  inv s -> ext sb s -> J s ->
  (forall x s1, In x l -> inv s1 -> ext sb s1 -> J s1 ->
     sim (fun u => u) sb (f x) (f' x) (fun _ s2 => J s2) s1) ->
  sim (fun u => u) sb (forM l f) (forM l f') (fun _ s2 => J s2) s.
Proof.
  induction l as [|x l IH]; intros s I E HJ F; cbn [forM].
  - apply (sim_ret (fun u => u)); auto.
  - eapply sim_bind_id; [apply F; cbn; auto|].
    intros u s1 I1 E1 J1. apply IH; auto. intros y s2 Hy. apply F. cbn; auto.
Qed.

Lemma new_constraint_sim fuel k s :
  inv s -> (k_elim k = false -> length (k_alts k) = 1) -> Forall (sct s) (constr_terms k) ->
  sim (fun x => x) s (new_constraint H fuel k) (new_constraint H fuel (shk k)) T s.
Proof.
  intros I A Sk. unfold new_constraint.
  apply sim_alloc_constr; auto using ext_refl. intros s1 Es1 I1 E1 _.
  set (c := length (constrs s)).
  assert (Lc : c < length (constrs s1)) by (subst s1; rewrite alloc_constr_length; unfold c; lia).
  assert (Sk1 : Forall (tsc (length (vars s1))) (constr_terms k)).
  { rewrite Forall_forall in *. intros x Hx. eapply sct_ext; [exact E1|apply Sk; exact Hx|reflexivity]. }
  clear Es1.
  apply sim_lift with (fA := shv); auto.
  { apply (closure_f_G s1 I1 fuel (constr_terms k) [] Sk1). }
  intros vs Hvs.
  pose proof (closure_f_scope s1 I1 fuel _ _ _ Sk1 (Forall_nil _) Hvs) as Svs.
  apply closure_f_unbound in Hvs; auto; [|apply I1].
  eapply sim_bind_id.
  - apply sim_forM with (fx := Nat.add dv)
      (J := fun s2 => (forall w, c_bound (cell_of s2 w) = c_bound (cell_of s1 w)) /\ ext s1 s2);
      auto using ext_refl.
    intros v s2 Hv I2 E2 (B2 & E12). cbv beta. apply sim_gets.
    rewrite bound_G, B2. rewrite Forall_forall in Hvs. rewrite (Hvs v Hv). cbn [option_map].
    assert (Lv : v < length (vars s2)).
    { rewrite Forall_forall in Svs. pose proof (Svs v Hv). pose proof (ext_vars E12). lia. }
    apply sim_modify_end.
    + cbv beta zeta. rewrite cs_G by exact Lv. rewrite cset_G. unfold shift_cset.
      rewrite ins_shift. apply set_cset_G.
    + apply inv_set_cset; auto. apply Forall_ins; [|apply inv_csF; auto].
      pose proof (ext_constrs E12). lia.
    + eapply ext_trans; [exact E2|apply ext_set_cset].
    + split; [exact B2|]. eapply ext_trans; [exact E12|apply ext_set_cset].
  - intros u s2 I2 E2 (B2 & E12).
    eapply sim_bind_id with (Q1 := T); [suse fulfill_sim; pose proof (ext_constrs E12); lia|].
    intros d s3 I3 E3 _. sdone_ret.
Qed.

Lemma eval_constr_sim fuel env sc s : inv s -> Forall (sct s) env ->
  sconstr_wf (length env) sc ->
  sim (fun x => x) s (eval_constr H fuel env sc) (eval_constr H fuel (map sh env) sc) T s.
Proof.
  intros I Se Wf. destruct sc as [r t strict|r alts]; cbn [eval_constr].
  - eapply sim_bind with (fA := sh); [apply eval_sty_sim; auto; apply Wf|].
    intros r' s1 I1 E1 Sr.
    eapply sim_bind with (fA := sh) (Q1 := fun t' s2 => sct s2 t' /\ ext s1 s2).
    { assert (Se1 : Forall (sct s1) env) by (eapply scts_ext; eauto).
      assert (Wt : sty_wf (length env) t) by apply Wf.
      suse' eval_sty_sim; auto; try (cbv beta; auto). }
    intros t' s2 I2 E2 (St & E12).
    apply sim_gets. apply sim_gets. rewrite !follow_G by apply I2.
    suse (new_constraint_sim fuel (mkConstr false (follow s2 r') [follow s2 t'] strict false)).
    unfold constr_terms; cbn [k_ref k_alts].
    constructor; [|constructor; [|constructor]]; apply follow_sct; auto.
    eapply sct_ext; eauto.
  - eapply sim_bind with (fA := sh); [apply eval_sty_sim; auto; apply Wf|].
    intros r' s1 I1 E1 Sr.
    eapply sim_bind with (fA := map sh) (Q1 := fun t' s2 => Forall (sct s2) t' /\ ext s1 s2).
    { assert (Se1 : Forall (sct s1) env) by (eapply scts_ext; eauto).
      assert (Wt : Forall (sty_wf (length env)) alts) by apply Wf.
      suse' eval_sty_list_sim; auto; try (cbv beta; auto). }
    intros alts' s2 I2 E2 (St & E12).
    apply sim_gets. apply sim_gets. rewrite follow_G, map_follow_G by apply I2.
    suse (new_constraint_sim fuel (mkConstr true (follow s2 r') (map (follow s2) alts') false false)).
    { cbn. discriminate. }
    unfold constr_terms; cbn [k_ref k_alts]. constructor.
    + apply follow_sct; auto. eapply sct_ext; eauto.
    + rewrite Forall_forall in *. intros x Hx. apply in_map_iff in Hx. destruct Hx as (y & <- & Hy).
      apply follow_sct; auto.
Qed.

Lemma instance_sim fuel sc s : inv s -> schema_wf sc ->
  sim sh s (instance H fuel sc) (instance H fuel sc) (fun r s1 => sct s1 r) s.
Proof.
  intros I Wf. unfold instance.
  eapply sim_bind with (fA := map sh); [apply fresh_list_sim; auto|].
  intros env s1 I1 E1 (_ & Se & Le & _).
  eapply sim_bind with (fA := sh) (Q1 := fun t' s2 => sct s2 t' /\ ext s1 s2).
  { assert (Wb : sty_wf (length env) (s_body sc)) by (rewrite Le; apply Wf).
    suse' eval_sty_sim; auto; try (cbv beta; auto). }
  intros body s2 I2 E2 (Sb & E12).
  eapply sim_bind_id with (Q1 := fun _ s3 => ext s2 s3).
  - apply sim_forM_same with (J := fun s3 => ext s2 s3); auto using ext_refl.
    intros c s3 Hc I3 E3 E23.
    assert (Se3 : Forall (sct s3) env).
    { eapply scts_ext; [|exact Se]. eapply ext_trans; eauto. }
    assert (Wc : sconstr_wf (length env) c).
    { rewrite Le. destruct Wf as (_ & Wc). rewrite Forall_forall in Wc. auto. }
    suse' eval_constr_sim; auto.
    cbv beta. intros u s4 _ _ (_ & E34). eapply ext_trans; eauto.
  - intros u s3 I3 E3 E23.
    assert (Sb3 : sct s3 body) by (eapply sct_ext; eauto).
    suse' fix_sim; auto.
    cbv beta. intros r s4 _ _ ((_ & Sr) & _). exact Sr.
Qed.

Lemma is_fun_sh t : is_fun (sh t) = is_fun t.
Proof. destruct t; reflexivity. Qed.

Lemma apply_sim fuel f0 x0 fixb s : inv s -> sct s f0 -> sct s x0 ->
  sim sh s (apply H fuel f0 x0 fixb) (apply H fuel (sh f0) (sh x0) fixb) (fun r s1 => sct s1 r) s.
Proof.
  intros I Sf0 Sx0. unfold apply. apply sim_gets. apply sim_gets. rewrite !follow_G by apply I.
  pose proof (follow_unb _ f0 I) as Nf.
  pose proof (follow_sct I Sf0) as Sf. pose proof (follow_sct I Sx0) as Sx.
  eapply sim_bind with (fA := sh) (Q1 := fun f' s1 => sct s1 f').
  - destruct (follow s f0) as [vf|o args]; cbn [shift_tyv];
      [|apply (sim_ret sh _ (O o args)); auto using ext_refl].
    apply sim_fresh; auto using ext_refl. intros s1 Es1 I1 E1 _.
    apply sim_fresh; auto. intros s2 Es2 I2 E2 E12.
    eapply sim_bind_id with (Q1 := T).
    + suse (bind_sim fuel vf (O Function [V (length (vars s)); V (length (vars s1))])).
      5:{ intros Bt. right. pose proof (sct_V Sf Bt) as Lvf.
          apply nocc_op. intros x [<-|[<-|[]]];
            (apply nocc_unb; [|subst s2 s1; rewrite !alloc_var_bound; rewrite cell_of_oob; [reflexivity|]]);
            try (subst s1; rewrite alloc_var_length); try rewrite alloc_var_length; lia. }
      * subst s2 s1. rewrite !alloc_var_bound. exact Nf.
      * exact Logic.I.
      * apply sct_V. eapply sct_ext; [exact E2|exact Sf].
      * apply sct_O. constructor; [|constructor; [|constructor]]; apply scv_V; intros _.
        -- pose proof (ext_vars E12) as L. subst s1. rewrite alloc_var_length in L. lia.
        -- subst s2. rewrite alloc_var_length. lia.
    + intros u s3 I3 E3 _. apply sim_gets_end; [exact I3|exact E3| |].
      * apply follow_sct; auto. eapply sct_ext; eauto.
      * apply (follow_G s3 (V vf)). apply I3.
  - intros f' s1 I1 E1 Sf'.
    destruct f' as [v|o [|lft [|rgt [|z r]]]]; cbn [shift_tyv map]; rewrite ?is_fun_sh;
      try sdone_fail; break_if; try sdone_fail;
      try (apply (sim_ret sh _ (O Top [])); auto using sct_O0; fail).
    + apply sct_args in Sf'. inversion Sf' as [|? ? Sl Sr']; subst. inversion Sr' as [|? ? Sr _]; subst.
      assert (Sx1 : sct s1 (follow s x0)) by (eapply sct_ext; eauto).
      eapply sim_bind_id with (Q1 := fun _ s2 => ext s1 s2).
      { suse' unify_sim; auto. cbv beta. intros ? ? ? ? (_ & ?); auto. }
      intros u s2 I2 E2 E12.
      assert (Sr2 : sct s2 rgt) by (eapply sct_ext; eauto).
      suse' fix_sim; auto.
      cbv beta. intros r s4 _ _ ((_ & Sr4) & _). exact Sr4.
    + apply sct_args in Sf'. inversion Sf' as [|? ? Sl Sr']; subst. inversion Sr' as [|? ? Sr _]; subst.
      assert (Sx1 : sct s1 (follow s x0)) by (eapply sct_ext; eauto).
      eapply sim_bind_id with (Q1 := fun _ s2 => ext s1 s2).
      { suse' unify_sim; auto. cbv beta. intros ? ? ? ? (_ & ?); auto. }
      intros u s2 I2 E2 E12. apply (sim_ret sh _ rgt); auto. eapply sct_ext; eauto.
Qed.

(* ---- command programs ---- *)
Definition shift_cmd (m : nat) (c : cmd) : cmd :=
  match c with
  | CInst sc => CInst sc
  | CApply f x fixb => CApply (m + f) (m + x) fixb
  | CUnify a b0 sub => CUnify (m + a) (m + b0) sub
  | CFix a pl => CFix (m + a) pl
  end.

Lemma val_glue pre vals i : i < length vals ->
  val (pre ++ map sh vals) (length pre + i) = sh (val vals i).
Proof.
  intros L. unfold val. rewrite app_nth2 by lia.
  replace (length pre + i - length pre) with i by lia. apply nth_map_sh. exact L.
Qed.

Lemma snoc_glue (pre vals : list tyv) t :
  (pre ++ map sh vals) ++ [sh t] = pre ++ map sh (vals ++ [t]).
Proof. rewrite map_app, app_assoc. reflexivity. Qed.

Lemma run_cmd_sim pre fuel c vals s : inv s -> Forall (sct s) vals -> cmd_wf (length vals) c ->
  sim (fun vs => pre ++ map sh vs) s (run_cmd H fuel c vals)
      (run_cmd H fuel (shift_cmd (length pre) c) (pre ++ map sh vals)) (vals_post true c vals) s.
Proof.
  intros I Sv Wf. unfold vals_post.
  destruct c as [sc|f x fixb|a b0 sub|a pl]; cbn [run_cmd shift_cmd cmd_wf] in *.
  - eapply sim_bind with (fA := sh); [apply instance_sim; auto|]. intros t s1 I1 E1 St.
    rewrite snoc_glue. apply (sim_ret (fun vs => pre ++ map sh vs) _ (vals ++ [t])); auto.
    split; [apply Forall_snoc; auto; eapply scts_ext; eauto|rewrite app_length; cbn; lia].
  - destruct Wf as (Lf & Lx). rewrite !val_glue by assumption.
    eapply sim_bind with (fA := sh); [apply apply_sim; auto; apply sct_val; auto|].
    intros t s1 I1 E1 St.
    rewrite snoc_glue. apply (sim_ret (fun vs => pre ++ map sh vs) _ (vals ++ [t])); auto.
    split; [apply Forall_snoc; auto; eapply scts_ext; eauto|rewrite app_length; cbn; lia].
  - destruct Wf as (La & Lb). rewrite !val_glue by assumption.
    eapply sim_bind_id with (Q1 := T); [apply unify_sim; auto; apply sct_val; auto|].
    intros t s1 I1 E1 _. apply (sim_ret (fun vs => pre ++ map sh vs) _ vals); auto.
    split; auto. eapply scts_ext; eauto.
  - rewrite !val_glue by assumption.
    eapply sim_bind with (fA := sh); [apply fix_sim; auto; apply sct_val; auto|].
    intros t s1 I1 E1 (_ & St).
    rewrite snoc_glue. apply (sim_ret (fun vs => pre ++ map sh vs) _ (vals ++ [t])); auto.
    split; [apply Forall_snoc; auto; eapply scts_ext; eauto|rewrite app_length; cbn; lia].
Qed.

Definition glue_res (pre : list tyv) (r : option (err * nat) * list tyv * store)
  : option (err * nat) * list tyv * store :=
  let '(e, vals, s) := r in (e, pre ++ map sh vals, G s).

Theorem run_cmds_sim pre fuel : forall cs i vals s, inv s -> Forall (sct s) vals ->
  prog_wf (length vals) cs ->
  run_cmds H fuel (map (shift_cmd (length pre)) cs) i (pre ++ map sh vals) (G s) =
  glue_res pre (run_cmds H fuel cs i vals s).
Proof.
  induction cs as [|c cs IH]; intros i vals s I Sv Wf; cbn [run_cmds map]; [reflexivity|].
  destruct Wf as (Wc & Wr).
  pose proof (run_cmd_sim pre fuel c vals s I Sv Wc) as K. unfold sim in K.
  destruct (run_cmd H fuel c vals s) as [vals' s'|e s'].
  - destruct K as (I' & E' & (Sv' & Lv') & ->).
    apply IH; auto. rewrite Lv'. exact Wr.
  - destruct K as (I' & E' & ->). reflexivity.
Qed.

End Sim.
End Frame.

(* ------------------------------------------------------------------ *)
(* the exported statements                                              *)
(* ------------------------------------------------------------------ *)
Lemma shift_cmd_0 c : shift_cmd 0 c = c.
Proof. destruct c; reflexivity. Qed.

Lemma map_shift_cmd_0 p : map (shift_cmd 0) p = p.
Proof. induction p as [|c p IH]; cbn [map]; [reflexivity|]. rewrite shift_cmd_0, IH. reflexivity. Qed.

Lemma glue_empty s0 sc : glue s0 (empty_store sc) = mkStore (vars s0) (csets s0) (constrs s0) sc.
Proof. unfold glue, empty_store. cbn [vars csets constrs sched map]. rewrite !app_nil_r. reflexivity. Qed.

Lemma glue_empty_self s0 : glue s0 (empty_store (sched s0)) = s0.
Proof. rewrite glue_empty. destruct s0; reflexivity. Qed.

(* The main theorem.  s0 is ANY store (in particular whatever any earlier
   history, failed or not, left behind; no invariant on s0 is needed). *)
Theorem history : forall H fuel s0 sc prog r vals s2, prog_wf 0 prog ->
  run_cmds H fuel prog 0 [] (empty_store sc) = (r, vals, s2) ->
  exists s1,
    run_cmds H fuel prog 0 [] (mkStore (vars s0) (csets s0) (constrs s0) sc)
      = (r, map (shift_tyv (length (vars s0))) vals, s1) /\
    Ext s0 s1 s2.
Proof.
  intros H fuel s0 sc prog r vals s2 Wf R. exists (glue s0 s2). split; [|apply Ext_glue].
  pose proof (run_cmds_sim s0 H [] fuel prog 0 [] (empty_store sc) (inv_empty true sc)
                (Forall_nil _) Wf) as K.
  cbn [length app map] in K. rewrite map_shift_cmd_0, glue_empty, R in K. exact K.
Qed.

(* what [Ext] says about the old part: it is literally unchanged *)
Lemma Ext_frame s0 s1 s2 : Ext s0 s1 s2 ->
  (forall v, v < length (vars s0) -> cell_of s1 v = cell_of s0 v) /\
  (forall i, i < length (csets s0) -> cset_of s1 i = cset_of s0 i) /\
  (forall c, c < length (constrs s0) -> constr_of s1 c = constr_of s0 c) /\
  length (vars s1) = length (vars s0) + length (vars s2) /\
  length (csets s1) = length (csets s0) + length (csets s2) /\
  length (constrs s1) = length (constrs s0) + length (constrs s2).
Proof.
  intros E. rewrite (Ext_is_glue _ _ _ E). repeat apply conj.
  - intros v L. apply cell_G_old. exact L.
  - intros i L. apply cset_G_old. exact L.
  - intros c L. apply constr_G_old. exact L.
  - apply len_vars_G.
  - apply len_csets_G.
  - apply len_constrs_G.
Qed.

(* ... and about the new part: it is the shifted image of s2 *)
Lemma Ext_new s0 s1 s2 : Ext s0 s1 s2 ->
  (forall v, v < length (vars s2) ->
     cell_of s1 (length (vars s0) + v) = shift_cell (length (vars s0)) (length (csets s0)) (cell_of s2 v)) /\
  (forall i, cset_of s1 (length (csets s0) + i) = map (Nat.add (length (constrs s0))) (cset_of s2 i)) /\
  (forall c, c < length (constrs s2) ->
     constr_of s1 (length (constrs s0) + c) = shift_constr (length (vars s0)) (constr_of s2 c)).
Proof.
  intros E. rewrite (Ext_is_glue _ _ _ E). repeat apply conj.
  - intros v L. apply cell_G. exact L.
  - intros i. apply cset_G.
  - intros c L. apply constr_G. exact L.
Qed.

Theorem frame : forall H fuel s0 sc prog r vals s2, prog_wf 0 prog ->
  run_cmds H fuel prog 0 [] (empty_store sc) = (r, vals, s2) ->
  forall r1 vals1 s1,
  run_cmds H fuel prog 0 [] (mkStore (vars s0) (csets s0) (constrs s0) sc) = (r1, vals1, s1) ->
  (forall v, v < length (vars s0) -> cell_of s1 v = cell_of s0 v) /\
  (forall i, i < length (csets s0) -> cset_of s1 i = cset_of s0 i) /\
  (forall c, c < length (constrs s0) -> constr_of s1 c = constr_of s0 c).
Proof.
  intros H fuel s0 sc prog r vals s2 Wf R r1 vals1 s1 R1.
  destruct (history H fuel s0 sc prog r vals s2 Wf R) as (s1' & R1' & E).
  rewrite R1 in R1'. inversion R1'; subst.
  destruct (Ext_frame _ _ _ E) as (a & b & c & _). auto.
Qed.

(* ---- the probe after a history ---- *)
Lemma run_cmds_index H fuel : forall cs k i vals s,
  run_cmds H fuel cs (k + i) vals s =
  (let '(r, v, s') := run_cmds H fuel cs i vals s in
   (option_map (fun p : err * nat => (fst p, k + snd p)) r, v, s')).
Proof.
  induction cs as [|c cs IH]; intros k i vals s; cbn [run_cmds]; [reflexivity|].
  destruct (run_cmd H fuel c vals s) as [vals' s'|e s']; [|reflexivity].
  rewrite <- Nat.add_succ_r. apply IH.
Qed.

Lemma run_cmds_app H fuel : forall h q i vals s,
  run_cmds H fuel (h ++ q) i vals s =
  match run_cmds H fuel h i vals s with
  | (None, v, s') => run_cmds H fuel q (i + length h) v s'
  | (Some e, v, s') => (Some e, v, s')
  end.
Proof.
  induction h as [|c h IH]; intros q i vals s; cbn [app run_cmds length].
  - rewrite Nat.add_0_r. reflexivity.
  - destruct (run_cmd H fuel c vals s) as [vals' s'|e s']; [|reflexivity].
    rewrite IH. rewrite Nat.add_succ_r. reflexivity.
Qed.

(* the history h has been run (successfully or not) and left s0; the probe p
   run in s0 gives the shifted image of p run alone, with the same error *)
Theorem probe_after_history : forall H fuelh fuel sch h p rh vh s0 r vals s2,
  prog_wf 0 h -> prog_wf 0 p ->
  run_cmds H fuelh h 0 [] (empty_store sch) = (rh, vh, s0) ->
  run_cmds H fuel p 0 [] (empty_store (sched s0)) = (r, vals, s2) ->
  exists s1,
    run_cmds H fuel p 0 [] s0 = (r, map (shift_tyv (length (vars s0))) vals, s1) /\
    Ext s0 s1 s2 /\ inv s0.
Proof.
  intros H fuelh fuel sch h p rh vh s0 r vals s2 Wh Wp Rh Rp.
  destruct (history H fuel s0 (sched s0) p r vals s2 Wp Rp) as (s1 & R1 & E).
  exists s1. split; [|split; [exact E|]].
  - replace (mkStore (vars s0) (csets s0) (constrs s0) (sched s0)) with s0 in R1 by (destruct s0; reflexivity).
    exact R1.
  - apply (proj1 (engine_inv H fuelh sch h Wh Rh)).
Qed.

(* the same inside one program: h followed by p (p's value indices moved
   past the values of h) *)
Theorem probe_in_program : forall H fuel sch h p vh s0 r vals s2,
  prog_wf 0 h -> prog_wf 0 p ->
  run_cmds H fuel h 0 [] (empty_store sch) = (None, vh, s0) ->
  run_cmds H fuel p 0 [] (empty_store (sched s0)) = (r, vals, s2) ->
  exists s1,
    run_cmds H fuel (h ++ map (shift_cmd (length vh)) p) 0 [] (empty_store sch)
      = (option_map (fun e : err * nat => (fst e, length h + snd e)) r,
         vh ++ map (shift_tyv (length (vars s0))) vals, s1) /\
    Ext s0 s1 s2.
Proof.
  intros H fuel sch h p vh s0 r vals s2 Wh Wp Rh Rp.
  exists (glue s0 s2). split; [|apply Ext_glue].
  rewrite run_cmds_app, Rh. cbn [Nat.add].
  pose proof (run_cmds_sim s0 H vh fuel p (length h) [] (empty_store (sched s0))
                (inv_empty true _) (Forall_nil _) Wp) as K.
  cbn [map] in K. rewrite app_nil_r, glue_empty_self in K. rewrite K.
  replace (length h) with (length h + 0) at 1 by lia.
  rewrite run_cmds_index, Rp. reflexivity.
Qed.

(* the pure readers give shift-related results *)
Lemma readers_G : forall s0 H s, inv s ->
  (forall t, follow (glue s0 s) (shift_tyv (length (vars s0)) t) = shift_tyv (length (vars s0)) (follow s t)) /\
  (forall fuel sub aw a b,
     match_f H fuel (glue s0 s) sub aw (shift_tyv (length (vars s0)) a) (shift_tyv (length (vars s0)) b)
     = match_f H fuel s sub aw a b) /\
  (forall fuel a b,
     occurs_f H fuel (glue s0 s) (shift_tyv (length (vars s0)) a) (shift_tyv (length (vars s0)) b)
     = occurs_f H fuel s a b) /\
  (forall fuel t acc,
     vars_f fuel (glue s0 s) (shift_tyv (length (vars s0)) t) (map (Nat.add (length (vars s0))) acc)
     = rmap (map (Nat.add (length (vars s0)))) (vars_f fuel s t acc)) /\
  (forall fuel todo seen, Forall (tsc (length (vars s))) todo ->
     closure_f fuel (glue s0 s) (map (shift_tyv (length (vars s0))) todo) (map (Nat.add (length (vars s0))) seen)
     = rmap (map (Nat.add (length (vars s0)))) (closure_f fuel s todo seen)).
Proof.
  intros s0 H s I. pose proof (inv_core I) as C. repeat apply conj.
  - intros t. apply follow_G. exact C.
  - apply match_f_G. exact C.
  - apply occurs_f_G. exact C.
  - apply vars_f_G. exact C.
  - apply closure_f_G. exact I.
Qed.
