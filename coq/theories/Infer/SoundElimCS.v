(* C03 (concrete alternatives), part S: forward soundness of the inference-engine
   model on stores whose constraints have CONCRETE (variable-free) targets /
   alternatives of any shape:
        x <= T,  x < T     T any well-formed concrete type (F(A), A ** B, ...)
        x << [T1..Tn]      every Ti a well-formed concrete type.
   Adapted from Infer/SoundElimS.v (base alternatives) and Infer/SoundGen.v
   (arbitrary constraints, skip_basic unification):
     - [JC] = [Jv] (cells) + [CWc] (every constraint: reference well-scoped and
       arity-correct, alternatives [map inj l] with every element of l
       well-formed, one target for a subtype constraint) + [chains] (following
       terminates: needed to read the verdicts of match soundly);
     - [goodC s R s'] = JC s', le, fr, [cx] (kinds fixed; a FULFILLED constraint
       of either kind is never touched again; reference, target and strictness
       of a subtype constraint never change; every constraint fulfilled on the
       way satisfies its DONE CLAUSE [dcl]: one alternative B left and under
       EVERY satisfying grounding the reference is below B, and different from
       B for a strict subtype constraint), and R for every satisfying grounding.
   The done clause of an elimination constraint comes from the unify that
   fulfill runs with the last alternative; that of a subtype constraint from the
   soundness of the verdicts of match against a concrete type
   (ConcMatch.match_true_sound / match_strict_sound). *)
From Coq Require Import List Arith Bool Lia Permutation.
Import ListNotations.
From TF Require Import Base.Hier Base.Ty Sub.SubSpec Infer.Store Infer.Engine Infer.Run
  Infer.Witness Infer.Check Infer.Sched Infer.Inv Infer.Sound Infer.SchedIndep Infer.SoundSub
  Infer.Fits Infer.ConcMatch.
From TF Require Infer.Lub Infer.FitsEngineList Infer.FitsEnginePat.

Unset Implicit Arguments.

Section SoundC.
Variable H : hier.
Hypothesis W : wf_hier H.

Local Notation ole := (Lub.ole H).
Local Notation len s := (length (vars s)).
Local Notation tg := (Sound.tg H).
Local Notation sat := (Sound.sat H).
Local Notation le := (Sound.le H).
Local Notation fr := (Sound.fr H).
Local Notation bok := (Sound.bok H).
Local Notation lbo := (Sound.lbo H).
Local Notation ubo := (Sound.ubo H).
Local Notation inb := (Sound.inb H).
Local Notation cmpb := (Sound.cmpb H).
Local Notation osubF_true := (Sound.osubF_true H W).
Local Notation osubF_neg := (Sound.osubF_neg H W).
Local Notation ole_trans := (Sound.ole_trans H W).
Local Notation osubT_false_cmp := (Sound.osubT_false_cmp H W).
Local Notation osubT_true_ole := (Sound.osubT_true_ole H W).
Local Notation lbo_trans := (Sound.lbo_trans H W).
Local Notation ubo_trans := (Sound.ubo_trans H W).
Local Notation var_top := (SubSpec.var_top H W).
Local Notation var_bot := (SubSpec.var_bot H W).
Local Notation var_fun := (Sound.var_fun H W).

#[local] Hint Extern 1 (nb _ (O _ _)) => exact Logic.I : core.

(* shape of a constraint object: concrete well-formed alternatives; one target
   for a subtype constraint *)
Definition shpS (k : constr) : Prop :=
  exists l, k_alts k = map inj l /\ Forall (wf_ty H) l /\ (k_elim k = false -> length l = 1).

Definition cwc (n : nat) (k : constr) : Prop := tg n (k_ref k) /\ shpS k.

Definition CWc (s : store) : Prop := forall c, c < length (constrs s) -> cwc (len s) (constr_of s c).

Definition chains (s : store) : Prop := forall v, chain s (V v).

Definition JC (s : store) : Prop := Jv H s /\ CWc s /\ chains s.

Lemma JC_sc s : JC s -> forall v t, c_bound (cell_of s v) = Some t -> tg (len s) t.
Proof. intros I. apply (proj1 (proj1 I)). Qed.

Lemma JC_b s : JC s -> forall v, bok (cell_of s v).
Proof. intros I. apply (proj2 (proj1 I)). Qed.

Lemma JC_ch s : JC s -> chains s.
Proof. intros I. apply I. Qed.

Lemma cwc_mono n m k : n <= m -> cwc n k -> cwc m k.
Proof. intros L (T & S). split; [eapply tg_mono; eauto|exact S]. Qed.

Lemma chains_bound_eq s s' : (forall v, c_bound (cell_of s' v) = c_bound (cell_of s v)) -> chains s -> chains s'.
Proof. intros E C v. eapply chain_bound_eq; [exact E|apply C]. Qed.

Lemma chains_semeq s s' : semeq s s' -> chains s -> chains s'.
Proof. intros [_ C]. apply chains_bound_eq. intros v. apply (C v). Qed.

Lemma JC_semeq s s' : semeq s s' -> constrs s' = constrs s -> JC s -> JC s'.
Proof.
  intros [L C] Ek ((A & B) & Cw & Ch). split; [split|split].
  - intros v t Hv. destruct (C v) as (Eb & _). rewrite Eb in Hv. rewrite L. eapply A; eauto.
  - intros v. destruct (C v) as (_ & El & Eu). pose proof (B v) as Bv.
    unfold Sound.bok in *. rewrite El, Eu. exact Bv.
  - intros c Lc. unfold constr_of. rewrite Ek, L. apply Cw. rewrite <- Ek. exact Lc.
  - eapply chains_semeq; [split; eauto|exact Ch].
Qed.

Lemma tg_followC_f s : JC s -> forall fuel t, tg (len s) t -> tg (len s) (follow_f fuel s t).
Proof.
  intros I. induction fuel as [|f IH]; intros [v|o args] Ht; cbn [follow_f]; auto.
  - destruct (c_bound (cell_of s v)); auto.
  - destruct (c_bound (cell_of s v)) as [t'|] eqn:Hv; auto. apply IH. eapply JC_sc; eauto.
Qed.

Lemma tg_follow s t : JC s -> tg (len s) t -> tg (len s) (follow s t).
Proof. intros I. apply tg_followC_f. exact I. Qed.

Lemma follow_nbC s t : JC s -> nb s (follow s t).
Proof.
  intros I. apply follow_nb_chain. destruct t as [v|o args]; [apply (JC_ch s I)|exists []; constructor].
Qed.

(* the done clause of a fulfilled constraint *)
Definition dcl (s : store) (c : nat) : Prop :=
  exists B, k_alts (constr_of s c) = [inj B] /\
    forall th, sat th s ->
      Sub H (den th (k_ref (constr_of s c))) B /\
      (k_elim (constr_of s c) = false -> k_strict (constr_of s c) = true ->
       den th (k_ref (constr_of s c)) <> B).

Record cfr (s s' : store) : Prop := mkCfr {
  cfr_len : length (constrs s) <= length (constrs s');
  cfr_kind : forall c, c < length (constrs s) -> k_elim (constr_of s' c) = k_elim (constr_of s c);
  cfr_frz : forall c, k_done (constr_of s c) = true -> constr_of s' c = constr_of s c;
  cfr_sub : forall c, c < length (constrs s) -> k_elim (constr_of s c) = false ->
              k_ref (constr_of s' c) = k_ref (constr_of s c) /\
              k_alts (constr_of s' c) = k_alts (constr_of s c) /\
              k_strict (constr_of s' c) = k_strict (constr_of s c)
}.

Definition nd (s s' : store) : Prop :=
  forall c, k_done (constr_of s' c) = true -> k_done (constr_of s c) = false -> dcl s' c.

(* what a step does to the constraint objects *)
Definition cx (s s' : store) : Prop := cfr s s' /\ nd s s'.

Lemma cfr_refl s : cfr s s.
Proof. constructor; auto. Qed.

Lemma cfr_trans s1 s2 s3 : cfr s1 s2 -> cfr s2 s3 -> cfr s1 s3.
Proof.
  intros [L1 K1 F1 S1] [L2 K2 F2 S2]. constructor.
  - lia.
  - intros c Lc. rewrite K2 by lia. apply K1. exact Lc.
  - intros c Ed. pose proof (F1 c Ed) as E1. rewrite <- E1 in Ed. rewrite (F2 c Ed). exact E1.
  - intros c Lc Ee. destruct (S1 c Lc Ee) as (A1 & B1 & C1).
    assert (Ee2 : k_elim (constr_of s2 c) = false) by (rewrite K1 by exact Lc; exact Ee).
    destruct (S2 c ltac:(lia) Ee2) as (A2 & B2 & C2). repeat split; congruence.
Qed.

Lemma cx_same s s' : constrs s' = constrs s -> cx s s'.
Proof.
  intros E. assert (Ec : forall c, constr_of s' c = constr_of s c) by (intros c; unfold constr_of; rewrite E; reflexivity).
  split.
  - constructor; [rewrite E; auto| | |]; intros c; rewrite Ec; auto.
  - intros c Ed Ed'. rewrite Ec in Ed. congruence.
Qed.

Lemma cx_refl s : cx s s.
Proof. apply cx_same. reflexivity. Qed.

Lemma done_in_range s c : k_done (constr_of s c) = true -> c < length (constrs s).
Proof.
  intros E. destruct (Nat.lt_ge_cases c (length (constrs s))) as [L|L]; [exact L|].
  rewrite constr_of_oob in E by exact L. discriminate.
Qed.

Lemma dcl_frz s s' c : dcl s c -> constr_of s' c = constr_of s c -> (forall th, sat th s' -> sat th s) -> dcl s' c.
Proof.
  intros (B & Ea & Hb) E M. exists B. rewrite E. split; [exact Ea|]. intros th S'. apply Hb. apply M. exact S'.
Qed.

Lemma cx_trans s1 s2 s3 : cx s1 s2 -> cx s2 s3 -> (forall th, sat th s3 -> sat th s2) -> cx s1 s3.
Proof.
  intros [C1 N1] [C2 N2] M. split; [eapply cfr_trans; eauto|].
  intros c Ed Ed1. destruct (k_done (constr_of s2 c)) eqn:D2.
  - eapply dcl_frz; [apply (N1 c D2 Ed1)|apply (cfr_frz _ _ C2 c D2)|exact M].
  - apply N2; auto.
Qed.

(* the standard postcondition *)
Definition goodC (s : store) (R : (nat -> ty) -> Prop) (s' : store) : Prop :=
  JC s' /\ le s s' /\ fr s s' /\ (cx s s' /\ length (constrs s') = length (constrs s)) /\
  forall th, sat th s' -> R th.

Lemma goodC_refl s (R : (nat -> ty) -> Prop) : JC s -> (forall th, sat th s -> R th) -> goodC s R s.
Proof.
  intros I HR. split; [auto|split; [apply le_refl|split; [apply fr_refl|split; [split; [apply cx_refl|reflexivity]|auto]]]].
Qed.

Lemma goodC_trans s s1 s2 (R1 R2 R : (nat -> ty) -> Prop) :
  goodC s R1 s1 -> goodC s1 R2 s2 ->
  (forall th, sat th s2 -> sat th s1 -> sat th s -> R1 th -> R2 th -> R th) -> goodC s R s2.
Proof.
  intros (I1 & L1 & F1 & (X1 & N1) & H1) (I2 & L2 & F2 & (X2 & N2) & H2) K.
  split; [auto|split; [eapply le_trans; eauto|split; [eapply fr_trans; eauto; apply L2|split]]].
  - split; [eapply cx_trans; eauto; apply L2|congruence].
  - intros th S2. pose proof (proj2 L2 th S2) as S1. pose proof (proj2 L1 th S1) as S0. apply K; auto.
Qed.

Lemma goodC_semeq s s' (R : (nat -> ty) -> Prop) :
  JC s -> semeq s s' -> constrs s' = constrs s -> (forall th, sat th s -> R th) -> goodC s R s'.
Proof.
  intros I E Ek HR.
  split; [eapply JC_semeq; eauto|split; [apply le_semeq; auto|split; [apply fr_semeq; auto|split]]].
  - split; [apply cx_same; exact Ek|rewrite Ek; reflexivity].
  - intros th S. apply HR. eapply sat_semeq; eauto.
Qed.

Lemma goodC_weaken s s' (R1 R : (nat -> ty) -> Prop) :
  goodC s R1 s' -> (forall th, sat th s' -> R1 th -> R th) -> goodC s R s'.
Proof. intros (I & L & F & X & HR) K. split; [auto|split; [auto|split; [auto|split; [auto|]]]]. intros th S. apply K; auto. Qed.

Lemma goodC_True s s' R : goodC s R s' -> goodC s (fun _ => True) s'.
Proof. intros G. eapply goodC_weaken; [exact G|auto]. Qed.

(* writing a cell: the binding stays, or an unbound variable is bound to a
   followed term other than itself *)
Lemma JC_set_cell s v c' : JC s -> bok c' ->
  (forall t, c_bound c' = Some t -> tg (len s) t) ->
  (c_bound c' = c_bound (cell_of s v) \/
   (c_bound (cell_of s v) = None /\ exists t, c_bound c' = Some t /\ nb s t /\ t <> V v)) ->
  JC (set_cell s v c').
Proof.
  intros ((A & B) & Cw & Ch) Bc Ht Hc. split; [split|split].
  - intros w t. cbn [vars set_cell]. rewrite upd_length.
    destruct (cell_of_set_cell s v c' w) as [(E & -> & L)|E]; rewrite E; auto. apply A.
  - intros w. destruct (cell_of_set_cell s v c' w) as [(E & -> & L)|E]; rewrite E; auto.
  - intros c Lc. cbn [vars set_cell]. rewrite upd_length. apply Cw. exact Lc.
  - destruct Hc as [Hc|(Hv & t & Hc & Nt & Ne)].
    + eapply chains_bound_eq; [|exact Ch]. intros w.
      destruct (cell_of_set_cell s v c' w) as [(E & -> & L)|E]; rewrite E; auto.
    + intros w. eapply chain_set_bound; eauto.
Qed.

Lemma forM_set_csC iv : forall vs s,
  tr (forM vs (fun w => set_cs w iv)) s (fun _ s' => semeq s s' /\ constrs s' = constrs s).
Proof.
  induction vs as [|w vs IH]; intros s; cbn [forM].
  - apply tr_ret. split; [apply semeq_refl|reflexivity].
  - unfold set_cs at 1. apply tr_upd_cell.
    eapply tr_conseq; [apply IH|]. cbv beta. intros _ s1 [E C]. split.
    + eapply semeq_trans; [|exact E]. apply semeq_set_cell. repeat split.
    + rewrite C. reflexivity.
Qed.

(* ------------------------------------------------------------------ *)
(* specifications                                                       *)
(* ------------------------------------------------------------------ *)
(* unify in subtype mode, with or without skip_basic *)
Definition spec_unify f := forall skb a b s, JC s -> tg (len s) a -> tg (len s) b ->
  tr (unify H f true skb false a b) s
     (fun _ s' => goodC s (fun th => skb = false -> Sub H (den th a) (den th b)) s').

Definition spec_bind f := forall v t s, JC s -> v < len s -> tg (len s) t -> nb s t ->
  (forall o args, t = O o args -> basic H o = true -> cmpb (cell_of s v) o) ->
  tr (bind H f v t) s (fun _ s' => goodC s (fun th => th v = den th t) s').

Definition spec_above f := forall v new s, JC s -> v < len s -> variance H new = [] -> new <> Bottom ->
  tr (above H f v new) s (fun _ s' => goodC s (fun th => lbo new (th v)) s').

Definition spec_below f := forall v new s, JC s -> v < len s -> variance H new = [] -> new <> Top ->
  tr (below H f v new) s (fun _ s' => goodC s (fun th => ubo new (th v)) s').

Definition spec_fix f := forall pl t s, JC s -> tg (len s) t ->
  tr (fix_ty H f pl t) s
     (fun r s' => tg (len s') r /\ goodC s (fun th => den th r = den th t) s').

Definition spec_cc f := forall v s, JC s ->
  tr (check_constraints H f v) s (fun _ s' => goodC s (fun _ => True) s').

Definition spec_fulfill f := forall c s, JC s ->
  tr (fulfill H f c) s (fun _ s' => goodC s (fun _ => True) s').

Definition specs f := spec_unify f /\ spec_bind f /\ spec_above f /\ spec_below f /\ spec_fix f /\
  spec_cc f /\ spec_fulfill f.

Lemma specs_0 : specs 0.
Proof.
  unfold specs, spec_unify, spec_bind, spec_above, spec_below, spec_fix, spec_cc, spec_fulfill.
  repeat apply conj; intros; intros ? ? E; inversion E.
Qed.


(* ---- bind ---- *)
Lemma bind_step f : spec_above f -> spec_below f -> spec_cc f -> spec_bind (S f).
Proof.
  intros Ab Be CC v t s I Lv Tt Nt Cmp. rewrite bind_S. apply tr_gets.
  destruct (c_bound (cell_of s v)) eqn:Hb; [apply tr_fail|].
  unfold set_wild at 1. apply tr_upd_cell. rewrite Hb.
  set (c := cell_of s v) in *.
  set (s1 := set_cell s v (mkCell false None (c_lower c) (c_upper c) (c_cs c))).
  assert (E1 : semeq s s1). { apply semeq_set_cell. unfold cell_sem. cbn [c_bound c_lower c_upper]. fold c. rewrite Hb. auto. }
  assert (K1 : constrs s1 = constrs s) by reflexivity.
  assert (I1 : JC s1). { eapply JC_semeq; eauto. }
  assert (L1 : len s1 = len s) by apply E1.
  assert (C1 : cell_of s1 v = mkCell false None (c_lower c) (c_upper c) (c_cs c)).
  { unfold s1. rewrite cell_of_set_cell_same by exact Lv. reflexivity. }
  assert (BS : forall wld cs th, sat th (set_cell s1 v (mkCell wld (Some t) (c_lower c) (c_upper c) cs)) ->
               th v = den th t /\ (inb c (th v) -> sat th s)).
  { intros wld cs th S2. split.
    - apply sat_at_set_cell in S2; [exact S2|lia].
    - intros Hin. eapply sat_semeq; [exact E1|]. eapply sat_set_cell_back; [exact S2|].
      rewrite C1. cbn [c_bound]. exact Hin. }
  assert (IS : t <> V v -> forall wld cs, JC (set_cell s1 v (mkCell wld (Some t) (c_lower c) (c_upper c) cs))).
  { intros Ne wld cs. apply JC_set_cell; auto.
    - pose proof (JC_b s I v) as B. exact B.
    - cbn [c_bound]. intros t' [= <-]. rewrite L1. exact Tt.
    - right. rewrite C1. split; [reflexivity|]. exists t. cbn [c_bound]. split; [reflexivity|split; [|exact Ne]].
      eapply nb_bound_eq; [|exact Nt]. intros w. apply (proj2 E1 w). }
  assert (CS : forall wld cs, let s2 := set_cell s1 v (mkCell wld (Some t) (c_lower c) (c_upper c) cs) in
               (forall x, x <> v -> cell_sem (cell_of s x) (cell_of s2 x)) /\
               c_bound (cell_of s2 v) = Some t /\ c_lower (cell_of s2 v) = c_lower c /\
               c_upper (cell_of s2 v) = c_upper c).
  { intros wld cs s2. split; [|unfold s2; rewrite cell_of_set_cell_same by lia; cbn; auto].
    intros x Ne. unfold s2. rewrite cell_of_set_cell_other by exact Ne. apply (proj2 E1). }
  clearbody s1.
  destruct t as [w|o args].
  - destruct (Nat.eqb v w) eqn:Evw.
    + apply tr_ret. apply Nat.eqb_eq in Evw. subst w.
      apply goodC_semeq; auto.
    + apply Nat.eqb_neq in Evw. unfold set_bound. apply tr_upd_cell. rewrite C1. cbn [c_wild c_lower c_upper c_cs].
      set (s2 := set_cell s1 v (mkCell false (Some (V w)) (c_lower c) (c_upper c) (c_cs c))).
      specialize (BS false (c_cs c)). specialize (IS ltac:(congruence) false (c_cs c)). fold s2 in BS, IS.
      specialize (CS false (c_cs c)). cbv zeta in CS. fold s2 in CS. destruct CS as (Cx & Cb & Clo & Cup).
      assert (L2 : len s2 = len s1) by (unfold s2; cbn; apply upd_length).
      assert (K2 : constrs s2 = constrs s) by (rewrite <- K1; reflexivity).
      clearbody s2.
      apply tr_modify.
      set (s3 := set_cset s2 _ _).
      assert (E3 : semeq s2 s3) by apply semeq_set_cset.
      assert (K3 : constrs s3 = constrs s) by (rewrite <- K2; reflexivity).
      clearbody s3. apply tr_gets. unfold set_cs. apply tr_upd_cell.
      set (s4 := set_cell s3 v _).
      assert (E4 : semeq s3 s4) by (apply semeq_set_cell; repeat split).
      assert (K4 : constrs s4 = constrs s) by (rewrite <- K3; reflexivity).
      clearbody s4. unfold set_wild. apply tr_upd_cell.
      set (s5 := set_cell s4 w _).
      assert (E5 : semeq s4 s5) by (apply semeq_set_cell; repeat split).
      assert (K5 : constrs s5 = constrs s) by (rewrite <- K4; reflexivity).
      clearbody s5.
      assert (E25 : semeq s2 s5) by (eapply semeq_trans; [exact E3|eapply semeq_trans; eauto]).
      assert (I5 : JC s5) by (eapply JC_semeq; [exact E25|congruence|exact IS]).
      assert (L5 : len s5 = len s) by (destruct E25 as [L _]; lia).
      assert (Lw : w < len s) by (inversion Tt; auto).
      pose proof (JC_b s I v) as (Bl & Bu & _). fold c in Bl, Bu.
      eapply tr_bind with (Q1 := fun _ s6 => goodC s5 (fun th => forall l, c_lower c = Some l -> lbo l (th w)) s6).
      { destruct (c_lower c) as [l|] eqn:El.
        - destruct (Bl l eq_refl) as (Vl & NB & _).
          eapply tr_conseq; [apply Ab; auto; lia|]. cbv beta. intros _ s6 G.
          eapply goodC_weaken; [exact G|]. intros th _ Hl l' [= <-]. exact Hl.
        - apply tr_ret. apply goodC_refl; auto. intros th _ l' [=]. }
      intros _ s6 G6.
      eapply tr_bind with (Q1 := fun _ s7 => goodC s6 (fun th => forall u, c_upper c = Some u -> ubo u (th w)) s7).
      { destruct G6 as (I6 & [L6 _] & _). destruct (c_upper c) as [u|] eqn:Eu.
        - destruct (Bu u eq_refl) as (Vu & NT & _).
          eapply tr_conseq; [apply Be; auto; lia|]. cbv beta. intros _ s7 G.
          eapply goodC_weaken; [exact G|]. intros th _ Hu u' [= <-]. exact Hu.
        - apply tr_ret. apply goodC_refl; auto. intros th _ u' [=]. }
      intros _ s7 G7.
      eapply tr_conseq; [apply CC; apply G7|]. cbv beta. intros _ s8 G8.
      pose proof (goodC_trans _ _ _ _ _ (fun th => (forall l, c_lower c = Some l -> lbo l (th w)) /\
                                               (forall u, c_upper c = Some u -> ubo u (th w)))
                             G6 G7) as G57.
      assert (G58 : goodC s5 (fun th => (forall l, c_lower c = Some l -> lbo l (th w)) /\
                                        (forall u, c_upper c = Some u -> ubo u (th w))) s8).
      { eapply goodC_trans; [apply G57; intros; split; assumption|exact G8|]. cbv beta. intros; assumption. }
      clear G57. destruct G58 as (I7 & [L7 M7] & F57 & (X57 & N57) & R7).
      assert (M07 : forall th, sat th s8 -> sat th s).
      { intros th S7. pose proof (M7 th S7) as S5. destruct (R7 th S7) as [Rl Ru].
        assert (S2 : sat th s2) by (eapply sat_semeq; eauto).
        destruct (BS th S2) as [Ev Back]. apply Back. cbn [den] in Ev. rewrite Ev.
        split; assumption. }
      split; [exact I7|split; [split; [lia|exact M07]|split; [|split]]].
      * apply (fr_bind H s s2 s5 s8 v (V w) Hb Cx Cb Clo Cup E25 F57 M07).
      * split; [|congruence]. eapply cx_trans; [apply cx_same; exact K5|exact X57|exact M7].
      * intros th S7. pose proof (M7 th S7) as S5.
        assert (S2 : sat th s2) by (eapply sat_semeq; eauto).
        destruct (BS th S2) as [Ev _]. exact Ev.
  - unfold set_bound. apply tr_upd_cell. rewrite C1. cbn [c_wild c_lower c_upper c_cs].
    set (s2 := set_cell s1 v (mkCell false (Some (O o args)) (c_lower c) (c_upper c) (c_cs c))).
    specialize (BS false (c_cs c)). specialize (IS ltac:(congruence) false (c_cs c)). fold s2 in BS, IS.
    specialize (CS false (c_cs c)). cbv zeta in CS. fold s2 in CS. destruct CS as (Cx & Cb & Clo & Cup).
    assert (L2 : len s2 = len s1) by (unfold s2; cbn; apply upd_length).
    assert (K2 : constrs s2 = constrs s) by (rewrite <- K1; reflexivity).
    clearbody s2.
    eapply tr_bind with (Q1 := fun _ s3 => JC s3 /\ semeq s2 s3 /\ constrs s3 = constrs s /\
                                           forall th, inb c (den th (O o args))).
    + destruct (basic H o) eqn:Eb.
      * destruct (Cmp o args eq_refl Eb) as [Cl Cu]. fold c in Cl, Cu.
        destruct (match c_lower c with Some l => osub H true o l | None => false end) eqn:Kl; [apply tr_fail|].
        destruct (match c_upper c with Some u => osub H true u o | None => false end) eqn:Ku; [apply tr_fail|].
        apply tr_ret. split; [exact IS|split; [apply semeq_refl|split; [exact K2|]]]. intros th.
        inversion Tt as [|? ? La _]; subst. rewrite (basic_var H o Eb) in La.
        destruct args; [|discriminate]. cbn [den map]. split.
        -- intros l El. rewrite El in Kl. exists o. split; [reflexivity|].
           apply osubT_false_cmp; auto.
        -- intros u Eu. rewrite Eu in Ku. exists o. split; [reflexivity|].
           destruct (Cu u Eu) as [C|C]; [|exact C].
           apply osubT_false_cmp; auto.
      * destruct (c_lower c) eqn:El; [apply tr_fail|].
        destruct (c_upper c) eqn:Eu; [apply tr_fail|].
        apply tr_lift. intros vs _. apply tr_modify.
        set (s3 := set_cset s2 _ _).
        assert (E3 : semeq s2 s3) by apply semeq_set_cset.
        assert (K3 : constrs s3 = constrs s) by (rewrite <- K2; reflexivity).
        clearbody s3. apply tr_gets.
        eapply tr_conseq; [apply forM_set_csC|]. cbv beta. intros _ s4 [E4 C4].
        assert (E24 : semeq s2 s4) by (eapply semeq_trans; eauto).
        split; [eapply JC_semeq; [exact E24|congruence|exact IS]|].
        split; [exact E24|split; [congruence|]]. intros th. split; intros x Hx; congruence.
    + intros _ s3 (I3 & E23 & K3 & Hin).
      eapply tr_conseq; [apply CC; exact I3|]. cbv beta. intros _ s4 G4.
      destruct G4 as (I4 & [L4 M4] & F4 & (X4 & N4) & _).
      assert (M03 : forall th, sat th s4 -> sat th s).
      { intros th S4. pose proof (M4 th S4) as S3. assert (S2 : sat th s2) by (eapply sat_semeq; eauto).
        destruct (BS th S2) as [Ev Back]. apply Back. rewrite Ev. apply Hin. }
      split; [exact I4|split; [split; [destruct E23 as [L _]; lia|exact M03]|split; [|split]]].
      * apply (fr_bind H s s2 s3 s4 v (O o args) Hb Cx Cb Clo Cup E23 F4 M03).
      * split; [|congruence]. eapply cx_trans; [apply cx_same; exact K3|exact X4|exact M4].
      * intros th S4. pose proof (M4 th S4) as S3. assert (S2 : sat th s2) by (eapply sat_semeq; eauto).
        destruct (BS th S2) as [Ev _]. exact Ev.
Qed.

(* ---- above ---- *)
Lemma set_lower_good f v new s : spec_cc f -> JC s -> v < len s ->
  variance H new = [] -> new <> Bottom -> new <> Top -> c_bound (cell_of s v) = None ->
  (forall l, c_lower (cell_of s v) = Some l -> ole l new) ->
  (forall u, c_upper (cell_of s v) = Some u -> ole new u) ->
  tr (set_lower v (Some new) ;;; check_constraints H f v) s
     (fun _ s' => goodC s (fun th => lbo new (th v)) s').
Proof.
  intros CC I Lv Vn NB NT Hb Hl Hu. unfold set_lower. apply tr_upd_cell.
  set (c := cell_of s v) in *. rewrite Hb.
  set (s1 := set_cell s v _).
  assert (I1 : JC s1).
  { apply JC_set_cell; auto; [|cbn; discriminate].
    pose proof (JC_b s I v) as (Bl & Bu & Bc). fold c in Bl, Bu, Bc.
    split; [|split]; cbn [c_lower c_upper].
    - intros l [= <-]. auto.
    - exact Bu.
    - intros l u [= <-] Eu. auto. }
  assert (K : forall th, sat th s1 -> lbo new (th v)).
  { intros th S1. apply sat_at_set_cell in S1; [|exact Lv]. cbn [c_bound] in S1.
    destruct S1 as [Sl _]. apply Sl. reflexivity. }
  assert (G1 : goodC s (fun th => lbo new (th v)) s1).
  { split; [exact I1|split; [split|split; [apply fr_set_cell_unb; auto|split; [split; [apply cx_same; reflexivity|reflexivity]|exact K]]]].
    - unfold s1; cbn; rewrite upd_length; lia.
    - intros th S1. eapply sat_set_cell_back; [exact S1|]. fold c. rewrite Hb.
      pose proof (K th S1) as Kl. apply sat_at_set_cell in S1; [|exact Lv]. cbn [c_bound] in S1.
      destruct S1 as [_ Su]. split.
      + intros l El. eapply lbo_trans; [apply Hl; exact El|exact Kl].
      + exact Su. }
  eapply tr_conseq; [apply CC; exact I1|]. cbv beta. intros _ s' G.
  eapply goodC_trans; [exact G1|exact G|]. cbv beta. auto.
Qed.

Lemma keep_lower_good v new l s : JC s -> c_bound (cell_of s v) = None ->
  c_lower (cell_of s v) = Some l -> osub H true new l = true ->
  goodC s (fun th => lbo new (th v)) s.
Proof.
  intros I Hb El Eo. apply goodC_refl; auto. intros th S.
  destruct (S v) as [_ Sv]. rewrite Hb in Sv. destruct Sv as [Sl _].
  eapply lbo_trans; [|apply Sl; exact El]. apply osubT_true_ole. exact Eo.
Qed.

Lemma above_step f : spec_unify f -> spec_bind f -> spec_cc f -> spec_above (S f).
Proof.
  intros U B CC v new s I Lv Vn NB. rewrite above_S.
  destruct (Nat.eqb new Top) eqn:Et.
  - apply Nat.eqb_eq in Et. subst new.
    eapply tr_conseq; [apply B; auto|].
    + apply tg_O0. exact Vn.
    + intros o args [= <- <-] _. split; intros x _; left; apply ole_top.
    + cbv beta. intros _ s' G. eapply goodC_weaken; [exact G|]. intros th _ E. cbn in E.
      exists Top. split; [exact E|apply ole_refl].
  - apply Nat.eqb_neq in Et. unfold set_wild. apply tr_upd_cell.
    set (c := cell_of s v).
    set (s1 := set_cell s v _).
    assert (E1 : semeq s s1). { apply semeq_set_cell. unfold cell_sem. cbn. auto. }
    assert (I1 : JC s1). { eapply JC_semeq; [exact E1|reflexivity|exact I]. }
    assert (L1 : len s1 = len s) by apply E1.
    assert (G01 : goodC s (fun _ => True) s1) by (apply goodC_semeq; auto).
    clearbody s1. apply tr_gets.
    destruct (c_bound (cell_of s1 v)) as [t|] eqn:Hb.
    + eapply tr_conseq; [apply U; auto|].
      * apply tg_O0. exact Vn.
      * eapply JC_sc; eauto.
      * cbv beta. intros _ s' G. eapply goodC_trans; [exact G01|exact G|]. cbv beta.
        intros th _ S1 _ _ Sb. cbn [den map] in Sb.
        destruct (S1 v) as [_ Sv]. rewrite Hb in Sv. rewrite Sv.
        apply Sub_lbo; auto.
    + eapply tr_bind with (Q1 := fun _ s2 => goodC s1 (fun th => lbo new (th v)) s2).
      * pose proof (set_lower_good f v new s1 CC I1) as SL.
        pose proof (keep_lower_good v new) as KL.
        destruct (c_upper (cell_of s1 v)) as [u|] eqn:Eu; destruct (c_lower (cell_of s1 v)) as [l|] eqn:El;
          repeat match goal with |- tr (if ?c then _ else _) _ _ => destruct c eqn:? end;
          try apply tr_fail; try (apply tr_ret; eapply KL; eauto; fail);
          apply SL; auto; try lia; try (intros x [= <-]); try (intros x [=]);
          try (apply osubF_true; assumption); try (apply osubF_neg; assumption).
      * intros _ s2 G2. apply tr_gets. pose proof G2 as (I2 & [L2 M2] & _).
        assert (Gret : goodC s (fun th => lbo new (th v)) s2).
        { eapply goodC_trans; [exact G01|exact G2|]. cbv beta. auto. }
        destruct (c_bound (cell_of s2 v)) eqn:Hb2; [apply tr_ret; exact Gret|].
        destruct (c_lower (cell_of s2 v)) as [l|] eqn:El2; [|apply tr_ret; exact Gret].
        destruct (c_upper (cell_of s2 v)) as [u|] eqn:Eu2; [|apply tr_ret; exact Gret].
        destruct (Nat.eqb l u) eqn:Elu; [|apply tr_ret; exact Gret].
        apply Nat.eqb_eq in Elu. subst u.
        pose proof (JC_b s2 I2 v) as (Bl & _). destruct (Bl l El2) as (Vl & _).
        eapply tr_conseq; [apply B; auto; try lia|].
        -- apply tg_O0. exact Vl.
        -- intros o args [= <- <-] _. split; intros x Ex; left.
           ++ rewrite El2 in Ex. injection Ex as <-. apply ole_refl.
           ++ rewrite Eu2 in Ex. injection Ex as <-. apply ole_refl.
        -- cbv beta. intros _ s' G. eapply goodC_trans; [exact Gret|exact G|]. cbv beta. auto.
Qed.

(* ---- below ---- *)
Lemma set_upper_good f v new s : spec_cc f -> JC s -> v < len s ->
  variance H new = [] -> new <> Top -> new <> Bottom -> c_bound (cell_of s v) = None ->
  (forall l, c_lower (cell_of s v) = Some l -> ole l new) ->
  (forall u, c_upper (cell_of s v) = Some u -> ole new u) ->
  tr (set_upper v (Some new) ;;; check_constraints H f v) s
     (fun _ s' => goodC s (fun th => ubo new (th v)) s').
Proof.
  intros CC I Lv Vn NT NB Hb Hl Hu. unfold set_upper. apply tr_upd_cell.
  set (c := cell_of s v) in *. rewrite Hb.
  set (s1 := set_cell s v _).
  assert (I1 : JC s1).
  { apply JC_set_cell; auto; [|cbn; discriminate].
    pose proof (JC_b s I v) as (Bl & Bu & Bc). fold c in Bl, Bu, Bc.
    split; [|split]; cbn [c_lower c_upper].
    - exact Bl.
    - intros u [= <-]. auto.
    - intros l u El [= <-]. auto. }
  assert (K : forall th, sat th s1 -> ubo new (th v)).
  { intros th S1. apply sat_at_set_cell in S1; [|exact Lv]. cbn [c_bound] in S1.
    destruct S1 as [_ Su]. apply Su. reflexivity. }
  assert (G1 : goodC s (fun th => ubo new (th v)) s1).
  { split; [exact I1|split; [split|split; [apply fr_set_cell_unb; auto|split; [split; [apply cx_same; reflexivity|reflexivity]|exact K]]]].
    - unfold s1; cbn; rewrite upd_length; lia.
    - intros th S1. eapply sat_set_cell_back; [exact S1|]. fold c. rewrite Hb.
      pose proof (K th S1) as Ku. apply sat_at_set_cell in S1; [|exact Lv]. cbn [c_bound] in S1.
      destruct S1 as [Sl _]. split.
      + exact Sl.
      + intros u Eu. eapply ubo_trans; [apply Hu; exact Eu|exact Ku]. }
  eapply tr_conseq; [apply CC; exact I1|]. cbv beta. intros _ s' G.
  eapply goodC_trans; [exact G1|exact G|]. cbv beta. auto.
Qed.

Lemma keep_upper_good v new u s : JC s -> c_bound (cell_of s v) = None ->
  c_upper (cell_of s v) = Some u -> osub H true u new = true ->
  goodC s (fun th => ubo new (th v)) s.
Proof.
  intros I Hb Eu Eo. apply goodC_refl; auto. intros th S.
  destruct (S v) as [_ Sv]. rewrite Hb in Sv. destruct Sv as [_ Su].
  eapply ubo_trans; [|apply Su; exact Eu]. apply osubT_true_ole. exact Eo.
Qed.

Lemma below_step f : spec_unify f -> spec_bind f -> spec_cc f -> spec_below (S f).
Proof.
  intros U B CC v new s I Lv Vn NT. rewrite below_S.
  destruct (Nat.eqb new Bottom) eqn:Et.
  - apply Nat.eqb_eq in Et. subst new.
    eapply tr_conseq; [apply B; auto|].
    + apply tg_O0. exact Vn.
    + intros o args [= <- <-] _. split; intros x _; right; apply ole_bot.
    + cbv beta. intros _ s' G. eapply goodC_weaken; [exact G|]. intros th _ E. cbn in E.
      exists Bottom. split; [exact E|apply ole_refl].
  - apply Nat.eqb_neq in Et. unfold set_wild. apply tr_upd_cell.
    set (c := cell_of s v).
    set (s1 := set_cell s v _).
    assert (E1 : semeq s s1). { apply semeq_set_cell. unfold cell_sem. cbn. auto. }
    assert (I1 : JC s1). { eapply JC_semeq; [exact E1|reflexivity|exact I]. }
    assert (L1 : len s1 = len s) by apply E1.
    assert (G01 : goodC s (fun _ => True) s1) by (apply goodC_semeq; auto).
    clearbody s1. apply tr_gets.
    destruct (c_bound (cell_of s1 v)) as [t|] eqn:Hb.
    + eapply tr_conseq; [apply U; auto|].
      * eapply JC_sc; eauto.
      * apply tg_O0. exact Vn.
      * cbv beta. intros _ s' G. eapply goodC_trans; [exact G01|exact G|]. cbv beta.
        intros th _ S1 _ _ Sb. cbn [den map] in Sb.
        destruct (S1 v) as [_ Sv]. rewrite Hb in Sv. rewrite Sv.
        apply Sub_ubo; auto.
    + eapply tr_bind with (Q1 := fun _ s2 => goodC s1 (fun th => ubo new (th v)) s2).
      * pose proof (set_upper_good f v new s1 CC I1) as SL.
        pose proof (keep_upper_good v new) as KL.
        destruct (c_lower (cell_of s1 v)) as [l|] eqn:El; destruct (c_upper (cell_of s1 v)) as [u|] eqn:Eu;
          repeat match goal with |- tr (if ?c then _ else _) _ _ => destruct c eqn:? end;
          try apply tr_fail; try (apply tr_ret; eapply KL; eauto; fail);
          apply SL; auto; try lia; try (intros x [= <-]); try (intros x [=]);
          try (apply osubF_true; assumption); try (apply osubF_neg; assumption).
      * intros _ s2 G2. apply tr_gets. pose proof G2 as (I2 & [L2 M2] & _).
        assert (Gret : goodC s (fun th => ubo new (th v)) s2).
        { eapply goodC_trans; [exact G01|exact G2|]. cbv beta. auto. }
        destruct (c_bound (cell_of s2 v)) eqn:Hb2; [apply tr_ret; exact Gret|].
        destruct (c_upper (cell_of s2 v)) as [u|] eqn:Eu2; [|apply tr_ret; exact Gret].
        destruct (c_lower (cell_of s2 v)) as [l|] eqn:El2; [|apply tr_ret; exact Gret].
        destruct (Nat.eqb u l) eqn:Elu; [|apply tr_ret; exact Gret].
        apply Nat.eqb_eq in Elu. subst l.
        pose proof (JC_b s2 I2 v) as (_ & Bu & _). destruct (Bu u Eu2) as (Vu & _).
        eapply tr_conseq; [apply B; auto; try lia|].
        -- apply tg_O0. exact Vu.
        -- intros o args [= <- <-] _. split; intros x Ex; left.
           ++ rewrite El2 in Ex. injection Ex as <-. apply ole_refl.
           ++ rewrite Eu2 in Ex. injection Ex as <-. apply ole_refl.
        -- cbv beta. intros _ s' G. eapply goodC_trans; [exact Gret|exact G|]. cbv beta. auto.
Qed.

(* ---- fix_ty ---- *)
Lemma fix_args f pl : spec_fix f -> forall ps vs s, JC s -> Forall (tg (len s)) ps ->
  tr ((fix go (vs : list bool) (ps : list tyv) : M unit :=
         match vs, ps with
         | v :: vs', p :: ps' =>
             fix_ty H f (if v then pl else negb pl) p ;;; go vs' ps'
         | _, _ => ret tt
         end) vs ps) s (fun _ s' => goodC s (fun _ => True) s').
Proof.
  intros Fx. induction ps as [|p ps IH]; intros vs s I Fp; destruct vs as [|b vs];
    try (apply tr_ret; apply goodC_refl; auto).
  inversion Fp as [|? ? Tp Fp']; subst.
  eapply tr_bind; [apply Fx; auto|]. cbv beta. intros r s1 (_ & G1).
  pose proof G1 as (I1 & [L1 M1] & _).
  eapply tr_conseq; [apply IH; auto; eapply Forall_tg_mono; eauto|].
  cbv beta. intros _ s2 G2.
  eapply goodC_trans; [exact G1|exact G2|auto].
Qed.

Lemma fix_step f : spec_bind f -> spec_fix f -> spec_fix (S f).
Proof.
  intros B Fx pl t s I Tt. rewrite fix_ty_S. apply tr_gets.
  pose proof (tg_follow s t I Tt) as Ta.
  assert (Da : forall th, sat th s -> den th (follow s t) = den th t) by (intros; apply (den_follow H); auto).
  set (a := follow s t) in *. clearbody a.
  eapply tr_bind with (Q1 := fun _ s1 => goodC s (fun _ => True) s1).
  - destruct a as [v|o args].
    + apply tr_gets. assert (Lv : v < len s) by (inversion Ta; auto).
      pose proof (JC_b s I v) as (Bl & Bu & Bc).
      destruct pl.
      * destruct (c_lower (cell_of s v)) as [l|] eqn:El; [|apply tr_ret; apply goodC_refl; auto].
        destruct (Bl l eq_refl) as (Vl & _).
        eapply tr_conseq; [apply B; auto|].
        -- apply tg_O0. exact Vl.
        -- intros o args [= <- <-] _. split; intros x Ex.
           ++ rewrite El in Ex. injection Ex as <-. left. apply ole_refl.
           ++ right. apply Bc; auto.
        -- cbv beta. intros _ s1 G. eapply goodC_weaken; [exact G|auto].
      * destruct (c_upper (cell_of s v)) as [u|] eqn:Eu; [|apply tr_ret; apply goodC_refl; auto].
        destruct (Bu u eq_refl) as (Vu & _).
        eapply tr_conseq; [apply B; auto|].
        -- apply tg_O0. exact Vu.
        -- intros o args [= <- <-] _. split; intros x Ex.
           ++ left. apply Bc; auto.
           ++ rewrite Eu in Ex. injection Ex as <-. left. apply ole_refl.
        -- cbv beta. intros _ s1 G. eapply goodC_weaken; [exact G|auto].
    + apply fix_args; auto. apply (tg_args H _ _ _ Ta).
  - intros _ s1 G1. apply tr_gets_end. pose proof G1 as (I1 & [L1 M1] & F1 & X1 & _).
    split.
    + apply tg_follow; auto. eapply tg_mono; eauto.
    + split; [auto|split; [split; auto|split; [auto|split; [auto|]]]]. intros th S1.
      rewrite (den_follow H) by exact S1. apply Da. auto.
Qed.

Definition lefC (s s' : store) : Prop := le s s' /\ fr s s' /\ cx s s'.

Lemma lefC_refl s : lefC s s.
Proof. split; [apply le_refl|split; [apply fr_refl|apply cx_refl]]. Qed.

Lemma lefC_trans s1 s2 s3 : lefC s1 s2 -> lefC s2 s3 -> lefC s1 s3.
Proof.
  intros (L1 & F1 & X1) (L2 & F2 & X2).
  split; [eapply le_trans; eauto|split; [eapply fr_trans; eauto; apply L2|eapply cx_trans; eauto; apply L2]].
Qed.

Lemma lefC_len s s' : lefC s s' -> len s <= len s'.
Proof. intros ([L _] & _). exact L. Qed.

Lemma goodC_lefC s R s' : goodC s R s' -> lefC s s'.
Proof. intros (_ & L & F & (X & _) & _). split; [auto|split; auto]. Qed.

Lemma goodC_cnt s R s' : goodC s R s' -> length (constrs s') = length (constrs s).
Proof. intros (_ & _ & _ & (_ & N) & _). exact N. Qed.

Lemma JC_alloc s w : JC s -> JC (snd (alloc_var s w)).
Proof.
  intros ((A & B) & Cw & Ch). split; [split|split].
  - intros v t. rewrite alloc_var_bound, alloc_var_length. intros Hv.
    eapply tg_mono; [|eapply A; eauto]. lia.
  - intros v. pose proof (B v) as Bv. unfold Sound.bok in *.
    rewrite alloc_var_lower, alloc_var_upper. exact Bv.
  - intros c Lc. rewrite alloc_var_length. eapply cwc_mono; [|apply (Cw c Lc)]. lia.
  - eapply chains_bound_eq; [|exact Ch]. intros v. apply alloc_var_bound.
Qed.

Lemma lefC_alloc s w : lefC s (snd (alloc_var s w)).
Proof. split; [apply le_alloc|split; [apply fr_alloc|apply cx_same; reflexivity]]. Qed.

Lemma fresh_list_goodC n : forall s, JC s ->
  tr (fresh_list n) s (fun env s' => JC s' /\ lefC s s' /\ Forall (isvar (len s')) env /\ length env = n /\
                                     constrs s' = constrs s).
Proof.
  induction n as [|n IH]; intros s I; cbn [fresh_list].
  - apply tr_ret. split; [auto|split; [apply lefC_refl|split; [constructor|split; reflexivity]]].
  - apply Sound.tr_fresh. pose proof (JC_alloc s false I) as I1. pose proof (lefC_alloc s false) as L1.
    pose proof (alloc_var_length s false) as Ln.
    assert (K1 : constrs (snd (alloc_var s false)) = constrs s) by reflexivity.
    set (s1 := snd (alloc_var s false)) in *. clearbody s1.
    eapply tr_bind; [apply IH; exact I1|]. cbv beta. intros r s2 (I2 & L2 & F2 & N2 & K2).
    apply tr_ret. split; [auto|split; [eapply lefC_trans; eauto|split; [|split]]].
    + constructor; auto. exists (len s). split; [reflexivity|]. apply lefC_len in L2. lia.
    + cbn. lia.
    + congruence.
Qed.

Lemma goodC_of_lefC s s' (R : (nat -> ty) -> Prop) :
  JC s' -> lefC s s' -> length (constrs s') = length (constrs s) ->
  (forall th, sat th s' -> R th) -> goodC s R s'.
Proof. intros I (L & F & X) N HR. split; [auto|split; [auto|split; [auto|split; auto]]]. Qed.

Lemma goodC_lenle s R s' : goodC s R s' -> len s <= len s'.
Proof. intros (_ & [L _] & _). exact L. Qed.


(* ---- unify ---- *)
Lemma unify_args f skb : spec_unify f -> forall vs xs ys s, JC s ->
  Forall (tg (len s)) xs -> Forall (tg (len s)) ys -> length xs = length vs -> length ys = length vs ->
  tr ((fix go (vs : list bool) (xs ys : list tyv) : M unit :=
         match vs, xs, ys with
         | v :: vs', x :: xs', y :: ys' =>
             (if v then unify H f true skb false x y else unify H f true skb false y x) ;;;
             go vs' xs' ys'
         | _, _, _ => ret tt
         end) vs xs ys) s
     (fun _ s' => goodC s (fun th => skb = false -> ArgsRel (Sub H) vs (map (den th) xs) (map (den th) ys)) s').
Proof.
  intros U. induction vs as [|v vs IH]; intros xs ys s I Fx Fy Lx Ly.
  - destruct xs; [|discriminate]. destruct ys; [|discriminate].
    apply tr_ret. apply goodC_refl; auto. intros th _ _. constructor.
  - destruct xs as [|x xs]; [discriminate|]. destruct ys as [|y ys]; [discriminate|].
    inversion Fx as [|? ? Tx Fx']; subst. inversion Fy as [|? ? Ty Fy']; subst.
    eapply tr_bind with (Q1 := fun _ s1 => goodC s (fun th => skb = false -> if v then Sub H (den th x) (den th y)
                                                         else Sub H (den th y) (den th x)) s1).
    + destruct v; apply U; auto.
    + intros _ s1 G1. pose proof G1 as (I1 & [L1 M1] & R1).
      eapply tr_conseq; [apply IH; auto; try (eapply Forall_tg_mono; eauto); cbn in *; lia|].
      cbv beta. intros _ s2 G2. eapply goodC_trans; [exact G1|exact G2|]. cbv beta.
      intros th _ _ _ Hv Hr Es. cbn [map]. specialize (Hv Es). specialize (Hr Es). apply AR_cons; auto.
Qed.

(* the skip_basic detour of unify: bind the variable to the operator applied to
   fresh variables, then unify again *)
Lemma unify_skb_detour f v o (ys : list tyv) (a b : tyv) s : spec_unify f -> spec_bind f ->
  JC s -> v < len s -> basic H o = false -> length ys = length (variance H o) ->
  tg (len s) a -> tg (len s) b ->
  tr (fr0 <- fresh_list (length ys) ;; bind H f v (O o fr0) ;;; unify H f true true false a b) s
     (fun _ s' => goodC s (fun _ => True) s').
Proof.
  intros U B I Lv Nb Ly Ta Tb.
  eapply tr_bind; [apply fresh_list_goodC; exact I|]. cbv beta. intros fr0 s1 (I1 & L1 & Fv & Nf & K1).
  pose proof (lefC_len _ _ L1) as Ll1.
  assert (Tf : tg (len s1) (O o fr0)).
  { constructor; [congruence|]. eapply Forall_impl; [|exact Fv]. intros t. apply isvar_tg. }
  eapply tr_bind; [apply B; auto; [lia|intros o' args' [= <- <-] Eb; congruence]|].
  cbv beta. intros _ s2 G2. pose proof (goodC_lenle _ _ _ G2) as Ll2.
  eapply tr_conseq; [apply U; [apply G2|eapply tg_mono; [|exact Ta]; lia|eapply tg_mono; [|exact Tb]; lia]|].
  cbv beta. intros _ s3 G3.
  eapply (goodC_trans s1 s2 s3 _ _ (fun _ => True)) in G3; [|exact G2|auto].
  apply goodC_of_lefC; [apply G3| | |auto].
  - eapply lefC_trans; [exact L1|eapply goodC_lefC; exact G3].
  - rewrite (goodC_cnt _ _ _ G3). congruence.
Qed.

Lemma unify_step f : spec_unify f -> spec_bind f -> spec_above f -> spec_below f -> spec_unify (S f).
Proof.
  intros U B Ab Be skb a0 b0 s I Ta0 Tb0. rewrite unify_S. apply tr_gets. apply tr_gets.
  pose proof (tg_follow s a0 I Ta0) as Ta. pose proof (tg_follow s b0 I Tb0) as Tb.
  assert (Da : forall th, sat th s -> den th (follow s a0) = den th a0) by (intros; apply (den_follow H); auto).
  assert (Db : forall th, sat th s -> den th (follow s b0) = den th b0) by (intros; apply (den_follow H); auto).
  pose proof (follow_nbC s a0 I) as Na. pose proof (follow_nbC s b0 I) as Nb.
  set (a := follow s a0) in *. set (b := follow s b0) in *. clearbody a b.
  assert (Fin : forall s' (R : (nat -> ty) -> Prop), goodC s R s' ->
            (forall th, sat th s' -> R th -> skb = false -> Sub H (den th a) (den th b)) ->
            goodC s (fun th => skb = false -> Sub H (den th a0) (den th b0)) s').
  { intros s' R G K. eapply goodC_weaken; [exact G|]. intros th S' HR Es.
    destruct G as (_ & [_ M] & _). rewrite <- Da, <- Db by auto. auto. }
  destruct a as [va|oa xs]; destruct b as [vb|ob ys].
  - apply tr_gets. apply tr_gets. cbn [negb orb].
    eapply tr_conseq; [apply B; auto; [inversion Ta; auto|intros; discriminate]|].
    cbv beta. intros _ s' G. eapply Fin; [exact G|]. cbv beta. intros th S' E _. cbn [den] in *.
    rewrite E. apply Sub_refl; auto. apply (sat_wf H th s' S').
  - destruct (Nat.eqb ob Top) eqn:Et.
    + apply Nat.eqb_eq in Et. subst ob. apply tr_ret. eapply Fin; [apply (goodC_refl s (fun _ => True)); auto|].
      cbv beta. intros th S _ _. erewrite (den_O_wf H th _ Top ys); eauto using sat_wf, var_top. apply SubTop.
    + apply Nat.eqb_neq in Et. apply tr_lift. intros oc _. destruct oc; [apply tr_fail|].
      assert (Lv : va < len s) by (inversion Ta; auto).
      destruct (basic H ob) eqn:Eb.
      * apply tr_gets. cbn [andb]. rewrite orb_false_r.
        destruct skb; [apply tr_ret; eapply Fin; [apply (goodC_refl s (fun _ => True)); auto|intros; discriminate]|].
        cbn [orb andb].
        eapply tr_conseq; [apply Be; auto; apply basic_var; auto|].
        cbv beta. intros _ s' G. eapply Fin; [exact G|]. cbv beta. intros th S' (bb & E & Lb) _.
        erewrite (den_O_wf H th _ ob ys); eauto using sat_wf, basic_var. cbn [den]. rewrite E.
        apply ole_Sub; auto. apply wf_base. rewrite <- E. apply (sat_wf H th s' S').
      * cbn [orb]. destruct skb.
        -- eapply tr_conseq; [apply (unify_skb_detour f va ob ys (V va) (O ob ys) s); auto; apply (tg_args H _ _ _ Tb)|].
           cbv beta. intros _ s' G. eapply Fin; [exact G|intros; discriminate].
        -- eapply tr_conseq; [apply B; auto; intros o args [= <- <-]; congruence|].
           cbv beta. intros _ s' G. eapply Fin; [exact G|]. cbv beta. intros th S' E _.
           change (den th (V va)) with (th va). rewrite E. apply Sub_refl; auto.
           rewrite <- E. apply (sat_wf H th s' S').
  - destruct (Nat.eqb oa Bottom) eqn:Et.
    + apply Nat.eqb_eq in Et. subst oa. apply tr_ret. eapply Fin; [apply (goodC_refl s (fun _ => True)); auto|].
      cbv beta. intros th S _ _. erewrite (den_O_wf H th _ Bottom xs); eauto using sat_wf, var_bot. apply SubBot.
    + apply Nat.eqb_neq in Et. apply tr_lift. intros oc _. destruct oc; [apply tr_fail|].
      assert (Lv : vb < len s) by (inversion Tb; auto).
      destruct (basic H oa) eqn:Eb.
      * apply tr_gets. cbn [andb]. rewrite orb_false_r.
        destruct skb; [apply tr_ret; eapply Fin; [apply (goodC_refl s (fun _ => True)); auto|intros; discriminate]|].
        cbn [orb andb].
        eapply tr_conseq; [apply Ab; auto; apply basic_var; auto|].
        cbv beta. intros _ s' G. eapply Fin; [exact G|]. cbv beta. intros th S' (bb & E & Lb) _.
        erewrite (den_O_wf H th _ oa xs); eauto using sat_wf, basic_var. cbn [den]. rewrite E.
        apply ole_Sub; auto. apply basic_var; auto.
      * cbn [orb]. destruct skb.
        -- eapply tr_conseq; [apply (unify_skb_detour f vb oa xs (V vb) (V vb) s); auto; apply (tg_args H _ _ _ Ta)|].
           cbv beta. intros _ s' G. eapply Fin; [exact G|intros; discriminate].
        -- eapply tr_conseq; [apply B; auto; intros o args [= <- <-]; congruence|].
           cbv beta. intros _ s' G. eapply Fin; [exact G|]. cbv beta. intros th S' E _.
           change (den th (V vb)) with (th vb). rewrite E. apply Sub_refl; auto.
           rewrite <- E. apply (sat_wf H th s' S').
  - destruct (Nat.eqb oa Bottom || Nat.eqb ob Top) eqn:E1.
    { apply tr_ret. eapply Fin; [apply (goodC_refl s (fun _ => True)); auto|]. cbv beta. intros th S _ _.
      apply orb_true_iff in E1. destruct E1 as [E|E]; apply Nat.eqb_eq in E; subst.
      - erewrite (den_O_wf H th _ Bottom xs); eauto using sat_wf, var_bot. apply SubBot.
      - erewrite (den_O_wf H th _ Top ys); eauto using sat_wf, var_top. apply SubTop. }
    apply orb_false_iff in E1. destruct E1 as [NB NT]. apply Nat.eqb_neq in NB, NT.
    destruct (basic H oa) eqn:Eb.
    { destruct skb; [apply tr_ret; eapply Fin; [apply (goodC_refl s (fun _ => True)); auto|intros; discriminate]|].
      cbn [negb andb orb].
      destruct (negb (osub H false oa ob)) eqn:Eo; [apply tr_fail|].
      apply tr_ret. eapply Fin; [apply (goodC_refl s (fun _ => True)); auto|]. cbv beta. intros th S _ _.
      apply osubF_neg in Eo. destruct Eo as [E|[E|A]]; try congruence.
      pose proof (basic_var H oa Eb) as Va.
      assert (Vb : variance H ob = []).
      { destruct (Anc_inv H W _ _ A) as [<-|(_ & Vb & _)]; auto. }
      erewrite (den_O_wf H th _ oa xs); eauto using sat_wf.
      erewrite (den_O_wf H th _ ob ys); eauto using sat_wf.
      apply SubBase; auto. }
    destruct (Nat.eqb oa ob) eqn:Eab; [|apply tr_fail].
    apply Nat.eqb_eq in Eab. subst ob.
    destruct (tg_args H _ _ _ Ta) as [Lx Fx]. destruct (tg_args H _ _ _ Tb) as [Ly Fy].
    eapply tr_conseq; [apply unify_args; auto|].
    cbv beta. intros _ s' G. eapply Fin; [exact G|]. cbv beta. intros th S' AR Es. cbn [den].
    apply SubComp; auto. intros V0. apply var_basic in V0. congruence.
Qed.

(* ---- stores that differ in one constraint object ---- *)
Lemma semeq_vars_eq s s' : vars s' = vars s -> semeq s s'.
Proof.
  intros E. split; [rewrite E; reflexivity|]. intros v. unfold cell_of. rewrite E. repeat split.
Qed.

Lemma JC_set_constr s c k' : JC s -> (c < length (constrs s) -> cwc (len s) k') -> JC (set_constr s c k').
Proof.
  intros (Jv0 & Cw & Ch) Ck. split; [exact Jv0|split; [|eapply chains_bound_eq; [|exact Ch]; intros v; reflexivity]]. intros c' Lc'.
  change (len (set_constr s c k')) with (len s).
  unfold set_constr in Lc'. cbn [constrs] in Lc'. rewrite upd_length in Lc'.
  destruct (constr_of_set_constr s c k' c') as [(E & -> & L)|E]; rewrite E; [apply Ck; exact L|].
  apply Cw. exact Lc'.
Qed.

Lemma cfr_set_constr s c k' : k_elim k' = k_elim (constr_of s c) ->
  (k_done (constr_of s c) = true -> k' = constr_of s c) ->
  (k_elim (constr_of s c) = false ->
     k_ref k' = k_ref (constr_of s c) /\ k_alts k' = k_alts (constr_of s c) /\
     k_strict k' = k_strict (constr_of s c)) ->
  cfr s (set_constr s c k').
Proof.
  intros Ek Fz Sb. constructor.
  - unfold set_constr. cbn [constrs]. rewrite upd_length. auto.
  - intros c' _. destruct (constr_of_set_constr s c k' c') as [(E & -> & L)|E]; rewrite E; auto.
  - intros c' Ed. destruct (constr_of_set_constr s c k' c') as [(E & -> & L)|E]; [|exact E].
    rewrite E. apply Fz. exact Ed.
  - intros c' _ Ee. destruct (constr_of_set_constr s c k' c') as [(E & -> & L)|E]; rewrite E; auto.
Qed.

Lemma nd_set_constr s c k' :
  (k_done k' = true -> k_done (constr_of s c) = false -> c < length (constrs s) ->
   dcl (set_constr s c k') c) ->
  nd s (set_constr s c k').
Proof.
  intros Nk c' Ed Ed0.
  destruct (constr_of_set_constr s c k' c') as [(E & -> & L)|E]; rewrite E in Ed; [auto|congruence].
Qed.

Lemma goodC_set_constr s c k' : JC s -> (c < length (constrs s) -> cwc (len s) k') ->
  k_elim k' = k_elim (constr_of s c) ->
  (k_done (constr_of s c) = true -> k' = constr_of s c) ->
  (k_elim (constr_of s c) = false ->
     k_ref k' = k_ref (constr_of s c) /\ k_alts k' = k_alts (constr_of s c) /\
     k_strict k' = k_strict (constr_of s c)) ->
  (k_done k' = true -> k_done (constr_of s c) = false -> c < length (constrs s) ->
   dcl (set_constr s c k') c) ->
  goodC s (fun _ => True) (set_constr s c k').
Proof.
  intros I Ck Ek Fz Sb Nk.
  assert (E : semeq s (set_constr s c k')) by (apply semeq_vars_eq; reflexivity).
  split; [apply JC_set_constr; auto|split; [apply le_semeq; exact E|split; [apply fr_semeq; exact E|split; [|auto]]]].
  split; [split; [apply cfr_set_constr; auto|apply nd_set_constr; auto]|].
  unfold set_constr. cbn [constrs]. apply upd_length.
Qed.

(* ---- check_constraints ---- *)
Lemma body_good f v c : spec_fulfill f -> forall s, JC s ->
  tr (body H f v c) s (fun _ s' => goodC s (fun _ => True) s').
Proof.
  intros F s I. unfold body. eapply tr_bind; [apply F; exact I|]. cbv beta. intros d s1 G1.
  destruct d.
  - apply tr_modify_end. eapply (goodC_trans _ _ _ _ (fun _ => True)); [exact G1| |auto].
    apply goodC_semeq; [apply G1|apply semeq_set_cset|reflexivity|auto].
  - apply tr_ret. exact G1.
Qed.

Lemma loop_good f v : spec_fulfill f -> forall l s, JC s ->
  tr (loop H f v l) s (fun _ s' => goodC s (fun _ => True) s').
Proof.
  intros F. induction l as [|c l IH]; intros s I; unfold loop; cbn [forM].
  - apply tr_ret. apply goodC_refl; auto.
  - eapply tr_bind; [apply body_good; auto|]. cbv beta. intros _ s1 G1.
    change (forM l (body H f v)) with (loop H f v l).
    eapply tr_conseq; [apply IH; apply G1|]. cbv beta. intros _ s2 G2.
    eapply goodC_trans; [exact G1|exact G2|auto].
Qed.

Lemma cc_step f : spec_fulfill f -> spec_cc (S f).
Proof.
  intros F v s I a s' E. rewrite cc_S_eq in E. cbv zeta in E.
  destruct (2 <=? length (cset_of s (c_cs (cell_of s v)))).
  - destruct (sched s) as [|r rest].
    + eapply loop_good; eauto.
    + set (s0 := mkStore (vars s) (csets s) (constrs s) rest) in *.
      assert (G0 : goodC s (fun _ => True) s0).
      { apply goodC_semeq; auto. apply semeq_vars_eq. reflexivity. }
      eapply goodC_trans; [exact G0|eapply loop_good; [exact F|apply G0|exact E]|auto].
  - eapply loop_good; eauto.
Qed.

(* ---- fulfill ---- *)
Lemma done_record k : k_elim k = false -> k_done k = true ->
  mkConstr false (k_ref k) (k_alts k) (k_strict k) true = k.
Proof. destruct k; cbn; intros -> ->; reflexivity. Qed.

(* a subtype constraint with a concrete target *)
Lemma fulfill_sub_step f : spec_unify f -> forall c s, JC s -> k_elim (constr_of s c) = false ->
  tr (fulfill H (S f) c) s (fun _ s' => goodC s (fun _ => True) s').
Proof.
  intros U c s I Ee. rewrite FLc.fulfill_S'. apply tr_gets. rewrite Ee.
  set (k := constr_of s c) in *.
  destruct (k_alts k) as [|target [|t2 rest]] eqn:Ea; try apply tr_fail.
  assert (Lc : c < length (constrs s)).
  { destruct (Nat.lt_ge_cases c (length (constrs s))) as [L|L]; [exact L|].
    unfold k in Ea. rewrite (@constr_of_oob s c L) in Ea. discriminate. }
  destruct (proj1 (proj2 I) c Lc) as (Tr & (l & El & Wl & Ln)). fold k in Tr, El, Ln.
  specialize (Ln Ee). destruct l as [|B [|B2 l']]; try discriminate. clear Ln.
  rewrite Ea in El. cbn [map] in El. injection El as ->. inversion Wl as [|? ? WB _]; subst.
  eapply tr_bind; [apply (U true); auto; apply tg_inj; auto|]. cbv beta. intros _ s1 G1. apply goodC_True in G1.
  pose proof G1 as (I1 & [L1 M1] & F1 & ((Cf1 & Nd1) & N1) & _).
  destruct (cfr_sub _ _ Cf1 c Lc Ee) as (Er1 & Ea1 & Es1). fold k in Er1, Ea1, Es1.
  pose proof (cfr_kind _ _ Cf1 c Lc) as Ee1. fold k in Ee1. rewrite Ee in Ee1.
  assert (Lc1 : c < length (constrs s1)) by (rewrite N1; exact Lc).
  apply tr_lift. intros r Er.
  destruct r as [[|]|]; [|apply tr_fail|apply tr_gets; apply tr_ret; exact G1].
  eapply tr_bind with (Q1 := fun same s2 => s2 = s1 /\
       (k_strict k = true -> match_f H f s1 false false (k_ref k) (inj B) = Ok same)).
  { destruct (k_strict k).
    - intros x s2 E. unfold lift in E.
      destruct (match_f H f s1 false false (k_ref k) (inj B)) as [y|e]; inversion E; subst. auto.
    - apply tr_ret. split; [reflexivity|discriminate]. }
  cbv beta. intros same s2 (-> & Hs).
  destruct same as [[|]|]; [apply tr_fail| |apply tr_gets; apply tr_ret; exact G1].
  unfold upd_constr at 1. apply tr_modify. apply tr_ret.
  eapply goodC_trans; [exact G1| |auto].
  apply goodC_set_constr; auto.
  - intros _. destruct (proj1 (proj2 I1) c Lc1) as (Tr1 & (l1 & El1 & Wl1 & Ln1)).
    split; [exact Tr1|]. exists l1. cbn [k_alts k_elim]. auto.
  - intros Ed. apply done_record; auto.
  - intros _ Ed1 _. exists B. rewrite constr_of_set_constr_same by exact Lc1. cbn [k_alts k_ref k_elim k_strict].
    split; [rewrite Ea1; exact Ea|]. intros th S1. change (sat th s1) in S1.
    rewrite Er1.
    assert (Wr : wf_ty H (den th (k_ref k))).
    { apply (Sound.wf_den H th (len s1)); [apply (sat_wf H th s1 S1)|eapply tg_mono; [exact L1|exact Tr]]. }
    assert (Wb : wf_ty H (den th (inj B))) by (rewrite den_inj; exact WB).
    assert (Cb : conc (k_ref k) \/ conc (inj B)) by (right; exists B; reflexivity).
    split.
    + rewrite <- (den_inj th B). eapply (match_true_sound H W); eauto.
    + intros _ Est. rewrite Es1 in Est. rewrite <- (den_inj th B).
      eapply (match_strict_sound H W); eauto. apply (JC_ch s1 I1).
Qed.

(* an elimination constraint with concrete alternatives *)
Lemma fulfill_elim_step f : spec_unify f -> forall c s, JC s -> k_elim (constr_of s c) = true ->
  tr (fulfill H (S f) c) s (fun _ s' => goodC s (fun _ => True) s').
Proof.
  intros U c s I Ee b s' E.
  pose proof (@elim_in_range s c Ee) as Lc.
  destruct (proj1 (proj2 I) c Lc) as (Tr & (l & Ea & Wl & _)).
  destruct (k_done (constr_of s c)) eqn:Ed.
  - rewrite FLc.fulfill_S' in E. unfold bindM at 1 in E. unfold gets at 1 in E. rewrite Ee, Ed in E.
    inversion E; subst. apply goodC_refl; auto.
  - pose proof (tg_follow s _ I Tr) as Tr0.
    destruct (fulfill_elim_conc H f c s l b s' Ee Ed Ea Lc E) as (l1 & l2 & Il1 & Il2 & _ & Cases).
    assert (Wl2 : Forall (wf_ty H) l2).
    { apply incl_Forall with (l1 := l); [|exact Wl]. intros x Hx. apply Il1, Il2. exact Hx. }
    set (k := constr_of s c) in *. set (r0 := follow s (k_ref k)) in *.
    destruct Cases as [(m1 & m2 & rest & El2 & -> & ->)|(m & u & El2 & Eu & ->)].
    + apply goodC_set_constr; auto.
      * intros _. split; [exact Tr0|]. exists l2. cbn [set_altsC k_alts k_elim].
        split; [reflexivity|split; [exact Wl2|discriminate]].
      * intros X. unfold k in Ed. congruence.
      * intros X. unfold k in Ee. congruence.
      * cbn [set_altsC k_done]. discriminate.
    + set (s3 := set_constr s c (set_altsC k r0 [inj m] true)) in *.
      assert (Wm : wf_ty H m) by (subst l2; inversion Wl2; assumption).
      assert (E3 : semeq s s3) by (apply semeq_vars_eq; reflexivity).
      assert (I3 : JC s3).
      { apply JC_set_constr; auto. intros _. split; [exact Tr0|]. exists [m]. cbn [set_altsC k_alts k_elim map].
        split; [reflexivity|split; [constructor; [exact Wm|constructor]|discriminate]]. }
      assert (C3 : constr_of s3 c = set_altsC k r0 [inj m] true).
      { unfold s3. apply constr_of_set_constr_same. exact Lc. }
      assert (Tm : tg (len s3) (inj m)) by (apply tg_inj; auto).
      pose proof (U false r0 (inj m) s3 I3 Tr0 Tm u s' Eu) as (I' & L' & F' & ((Cf' & Nd') & Ln') & R').
      assert (Cf3 : cfr s s3).
      { apply cfr_set_constr.
        - cbn [set_altsC k_elim]. unfold k in Ee. congruence.
        - intros X. unfold k in Ed. congruence.
        - intros X. unfold k in Ee. congruence. }
      split; [exact I'|split; [eapply le_trans; [apply le_semeq; exact E3|exact L']|split; [|split; [|auto]]]].
      * eapply fr_trans; [apply fr_semeq; exact E3|exact F'|apply L'].
      * split; [split; [eapply cfr_trans; eauto|]|].
        -- intros c' Ed' Ed0. destruct (Nat.eq_dec c' c) as [->|Nc].
           ++ assert (E' : constr_of s' c = constr_of s3 c).
              { apply (cfr_frz _ _ Cf'); rewrite C3; reflexivity. }
              exists m. rewrite E', C3. cbn [set_altsC k_alts k_ref k_elim]. split; [reflexivity|].
              intros th S'. split; [|discriminate].
              rewrite <- (den_inj th m). apply (R' th S'). reflexivity.
           ++ apply Nd'; auto.
              destruct (constr_of_set_constr s c (set_altsC k r0 [inj m] true) c') as [(_ & X & _)|X]; [congruence|].
              unfold s3. rewrite X. exact Ed0.
        -- rewrite Ln'. unfold s3, set_constr. cbn [constrs]. apply upd_length.
Qed.

Lemma fulfill_step f : spec_unify f -> spec_fulfill (S f).
Proof.
  intros U c s I. destruct (k_elim (constr_of s c)) eqn:Ee.
  - apply fulfill_elim_step; auto.
  - apply fulfill_sub_step; auto.
Qed.

(* ---- the induction on fuel ---- *)
Theorem specs_all : forall f, specs f.
Proof.
  induction f as [|f (U & B & Ab & Be & Fx & CC & Fu)]; [apply specs_0|].
  unfold specs. repeat apply conj.
  - apply unify_step; auto.
  - apply bind_step; auto.
  - apply above_step; auto.
  - apply below_step; auto.
  - apply fix_step; auto.
  - apply cc_step; auto.
  - apply fulfill_step; auto.
Qed.

Lemma unify_soundC f : spec_unify f. Proof. apply specs_all. Qed.
Lemma bind_soundC f : spec_bind f. Proof. apply specs_all. Qed.
Lemma above_soundC f : spec_above f. Proof. apply specs_all. Qed.
Lemma below_soundC f : spec_below f. Proof. apply specs_all. Qed.
Lemma fix_soundC f : spec_fix f. Proof. apply specs_all. Qed.
Lemma cc_soundC f : spec_cc f. Proof. apply specs_all. Qed.
Lemma fulfill_soundC f : spec_fulfill f. Proof. apply specs_all. Qed.

Lemma unify_plainC f a b s : JC s -> tg (len s) a -> tg (len s) b ->
  tr (unify H f true false false a b) s
     (fun _ s' => goodC s (fun th => Sub H (den th a) (den th b)) s').
Proof.
  intros I Ta Tb. eapply tr_conseq; [apply unify_soundC; auto|]. cbv beta. intros _ s' G.
  eapply goodC_weaken; [exact G|]. cbv beta. auto.
Qed.

Definition ev_postC (s : store) : tyv -> store -> Prop :=
  fun r s' => JC s' /\ lefC s s' /\ tg (len s') r /\ constrs s' = constrs s.

Lemma eval_sty_goodC env : forall t s, JC s -> Forall (tg (len s)) env -> styg H (length env) t ->
  tr (eval_sty env t) s (ev_postC s).
Proof.
  induction t as [i| |o args IH] using sty_ind'; intros s I Fe St; cbn [eval_sty].
  - apply tr_gets_end. split; [auto|split; [apply lefC_refl|split; [|reflexivity]]]. apply tg_follow; auto.
    inversion St; subst. rewrite Forall_forall in Fe. apply Fe. apply nth_In. auto.
  - apply Sound.tr_fresh. apply tr_ret. split; [apply JC_alloc; auto|split; [apply lefC_alloc|split; [|reflexivity]]].
    constructor. rewrite alloc_var_length. lia.
  - inversion St as [| |? ? La Fa]; subst.
    eapply tr_bind with (Q1 := fun xs s1 => JC s1 /\ lefC s s1 /\ Forall (tg (len s1)) xs /\
                                            length xs = length args /\ constrs s1 = constrs s).
    + clear La St. revert s I Fe.
      induction IH as [|a r Ha Hr IHr]; intros s I Fe;
        [apply tr_ret; split; [auto|split; [apply lefC_refl|split; [constructor|split; reflexivity]]]|].
      inversion Fa as [|? ? Sa Sr]; subst.
      eapply tr_bind; [apply Ha; auto|]. cbv beta. intros x s1 (I1 & L1 & Tx & K1).
      assert (Fe1 : Forall (tg (len s1)) env) by (eapply Forall_tg_mono; [apply (lefC_len _ _ L1)|exact Fe]).
      eapply tr_bind; [apply IHr; auto|]. cbv beta. intros xs s2 (I2 & L2 & Fx & Nx & K2).
      apply tr_ret. split; [auto|split; [eapply lefC_trans; eauto|split; [|split]]].
      * constructor; auto. eapply tg_mono; [apply (lefC_len _ _ L2)|exact Tx].
      * cbn. lia.
      * congruence.
    + cbv beta. intros xs s1 (I1 & L1 & Fx & Nx & K1). apply tr_ret.
      split; [auto|split; [auto|split; [|exact K1]]]. constructor; auto. congruence.
Qed.

(* ---- new constraints ---- *)
Lemma alloc_constr_JC s k : JC s -> cwc (len s) k -> JC (snd (alloc_constr s k)).
Proof.
  intros (Jv0 & Cw & Ch) Ck. split; [exact Jv0|split; [|eapply chains_bound_eq; [|exact Ch]; intros v; reflexivity]].
  intros c Lc. change (len (snd (alloc_constr s k))) with (len s).
  rewrite alloc_constr_length in Lc.
  destruct (Nat.eq_dec c (length (constrs s))) as [->|Nc].
  - rewrite alloc_constr_new. exact Ck.
  - rewrite alloc_constr_old by lia. apply Cw. lia.
Qed.

Lemma alloc_constr_lefC s k : k_done k = false -> lefC s (snd (alloc_constr s k)).
Proof.
  intros Dk. assert (E : semeq s (snd (alloc_constr s k))) by (apply semeq_vars_eq; reflexivity).
  split; [apply le_semeq; exact E|split; [apply fr_semeq; exact E|split]].
  - constructor.
    + rewrite alloc_constr_length. lia.
    + intros c Lc. rewrite alloc_constr_old by exact Lc. reflexivity.
    + intros c Ed. rewrite alloc_constr_old; [reflexivity|]. apply done_in_range. exact Ed.
    + intros c Lc _. rewrite alloc_constr_old by exact Lc. auto.
  - intros c Ed Ed0. exfalso.
    destruct (Nat.lt_ge_cases c (length (constrs s))) as [L|L].
    + rewrite alloc_constr_old in Ed by exact L. congruence.
    + destruct (Nat.eq_dec c (length (constrs s))) as [->|Nc].
      * rewrite alloc_constr_new in Ed. congruence.
      * rewrite constr_of_oob in Ed; [discriminate|]. rewrite alloc_constr_length. lia.
Qed.

Lemma new_constraint_goodC fuel k s : JC s -> cwc (len s) k -> k_done k = false ->
  tr (new_constraint H fuel k) s
     (fun _ s' => JC s' /\ lefC s s' /\ length (constrs s') = S (length (constrs s))).
Proof.
  intros I Ck Dk u s' E. unfold new_constraint in E.
  unfold bindM at 1 in E. cbn [alloc_constr] in E.
  set (c := length (constrs s)) in *.
  set (s1 := {| vars := vars s; csets := csets s; constrs := constrs s ++ [k]; sched := sched s |}) in *.
  assert (I1 : JC s1) by (apply (alloc_constr_JC s k I Ck)).
  assert (L1 : lefC s s1) by (apply (alloc_constr_lefC s k Dk)).
  assert (N1 : length (constrs s1) = S c) by (unfold s1, c; cbn [constrs]; rewrite app_length; cbn; lia).
  unfold bindM at 1 in E. unfold lift at 1 in E.
  destruct (closure_f fuel s1 (constr_terms k) []) as [vs|e]; [|discriminate].
  unfold bindM at 1 in E.
  match type of E with match forM ?vs ?f ?s with _ => _ end = _ =>
    change f with (inform c) in E; destruct (forM vs (inform c) s) as [u2 s2|e s2] eqn:E2; [|discriminate] end.
  destruct (inform_facts c vs s1 u2 s2 E2) as (Ev2 & Ek2 & _ & _).
  assert (E12 : semeq s1 s2) by (apply semeq_vars_eq; exact Ev2).
  assert (G12 : goodC s1 (fun _ => True) s2) by (apply goodC_semeq; auto).
  unfold bindM at 1 in E.
  destruct (fulfill H fuel c s2) as [d s3|e s3] eqn:E3; [|discriminate].
  inversion E; subst s'. clear E.
  pose proof (fulfill_soundC fuel c s2 (proj1 G12) d s3 E3) as G23.
  pose proof (goodC_trans _ _ _ _ _ (fun _ => True) G12 G23 (fun _ _ _ _ _ _ => Logic.I)) as G13.
  split; [apply G13|split; [eapply lefC_trans; [exact L1|eapply goodC_lefC; exact G13]|]].
  rewrite (goodC_cnt _ _ _ G13). exact N1.
Qed.

(* ---- the program class ---- *)
(* x <= T / x < T and x << [T1..Tn] with x a schematic variable of the schema
   and T, T1..Tn well-formed CONCRETE types of any shape *)
Definition pcc (n : nat) (sc : sconstr) : Prop :=
  match sc with
  | SCSub (SVar i) t _ => i < n /\ exists B, wf_ty H B /\ t = sconc B
  | SCElim (SVar i) alts => i < n /\ exists l, Forall (wf_ty H) l /\ alts = map sconc l
  | _ => False
  end.

Inductive cmdC (n : nat) : cmd -> Prop :=
| cC_inst sc : styg H (s_n sc) (s_body sc) -> Forall (pcc (s_n sc)) (s_constrs sc) -> cmdC n (CInst sc)
| cC_apply f x b : f < n -> x < n -> cmdC n (CApply f x b).

(* n = number of values pushed so far *)
Fixpoint progC (n : nat) (cs : list cmd) : Prop :=
  match cs with
  | [] => True
  | c :: r => cmdC n c /\ progC (S n) r
  end.

(* the constraint object a schema constraint creates *)
Definition sub_constrC (s : store) (env : list tyv) (i : nat) (B : ty) (strict : bool) : constr :=
  mkConstr false (follow s (follow s (nth i env (V 0)))) [inj B] strict false.
Definition elim_constrC (s : store) (env : list tyv) (i : nat) (l : list ty) : constr :=
  mkConstr true (follow s (follow s (nth i env (V 0)))) (map inj l) false false.

Lemma eval_constr_subC fuel env i B strict s :
  eval_constr H fuel env (SCSub (SVar i) (sconc B) strict) s = new_constraint H fuel (sub_constrC s env i B strict) s.
Proof.
  cbn [eval_constr]. unfold bindM at 1. cbn [eval_sty]. unfold gets at 1.
  unfold bindM at 1. rewrite FPc.eval_sty_sconc. unfold bindM, gets. rewrite follow_inj. reflexivity.
Qed.

Lemma eval_list_sconc env s : forall l, FLc.eval_list env (map sconc l) s = MOk (map inj l) s.
Proof.
  induction l as [|a l IH]; [reflexivity|]. cbn [map].
  rewrite FPc.eval_list_cons, FPc.eval_sty_sconc, IH. reflexivity.
Qed.

Lemma eval_constr_elimC fuel env i l s :
  eval_constr H fuel env (SCElim (SVar i) (map sconc l)) s = new_constraint H fuel (elim_constrC s env i l) s.
Proof.
  rewrite FLc.eval_constr_elim. cbn [eval_sty]. unfold bindM at 1. unfold gets at 1.
  unfold bindM at 1. rewrite eval_list_sconc. unfold bindM at 1. unfold gets at 1.
  unfold bindM at 1. unfold gets at 1. rewrite map_follow_inj. reflexivity.
Qed.

Lemma eval_constr_goodC fuel env sc s : JC s -> Forall (tg (len s)) env -> pcc (length env) sc ->
  tr (eval_constr H fuel env sc) s
     (fun _ s' => JC s' /\ lefC s s' /\ length (constrs s') = S (length (constrs s))).
Proof.
  intros I Fe Pc.
  assert (Tn : forall i, i < length env -> tg (len s) (follow s (follow s (nth i env (V 0))))).
  { intros i Li. apply tg_follow; auto. apply tg_follow; auto.
    rewrite Forall_forall in Fe. apply Fe. apply nth_In. exact Li. }
  destruct sc as [r t strict|r alts]; cbn [pcc] in Pc.
  - destruct r as [i| |]; try tauto. destruct Pc as (Li & B & WB & ->).
    intros u s' E. rewrite eval_constr_subC in E. revert u s' E. apply new_constraint_goodC; auto.
    split; [apply Tn; exact Li|]. exists [B]. cbn [sub_constrC k_elim k_alts map length].
    split; [reflexivity|split; [constructor; [exact WB|constructor]|reflexivity]].
  - destruct r as [i| |]; try tauto. destruct Pc as (Li & l & Wl & ->).
    intros u s' E. rewrite eval_constr_elimC in E. revert u s' E. apply new_constraint_goodC; auto.
    split; [apply Tn; exact Li|]. exists l. cbn [elim_constrC k_elim k_alts].
    split; [reflexivity|split; [exact Wl|discriminate]].
Qed.

Definition ncon (c : cmd) : nat := match c with CInst sc => length (s_constrs sc) | _ => 0 end.

Lemma instance_goodC fuel sc s : JC s -> styg H (s_n sc) (s_body sc) -> Forall (pcc (s_n sc)) (s_constrs sc) ->
  tr (instance H fuel sc) s
     (fun r s' => JC s' /\ lefC s s' /\ tg (len s') r /\
                  length (constrs s') = length (constrs s) + length (s_constrs sc)).
Proof.
  intros I Sb Pc. unfold instance.
  eapply tr_bind; [apply fresh_list_goodC; auto|]. cbv beta. intros env s1 (I1 & L1 & Fe & Ne & K1).
  assert (Fe1 : Forall (tg (len s1)) env).
  { eapply Forall_impl; [|exact Fe]. intros t. apply isvar_tg. }
  eapply tr_bind; [apply eval_sty_goodC; auto|].
  { rewrite Ne. exact Sb. }
  cbv beta. intros body s2 (I2 & L2 & Tb & K2).
  assert (G : forall cs s3, JC s3 -> len s2 <= len s3 -> Forall (pcc (length env)) cs ->
            tr (forM cs (eval_constr H fuel env)) s3
               (fun _ s4 => JC s4 /\ lefC s3 s4 /\ length (constrs s4) = length (constrs s3) + length cs)).
  { induction cs as [|c cs IH]; intros s3 I3 L3 Fc; cbn [forM].
    - apply tr_ret. split; [auto|split; [apply lefC_refl|cbn; lia]].
    - inversion Fc as [|? ? Pc1 Fc']; subst.
      eapply tr_bind; [apply eval_constr_goodC; auto|].
      { eapply Forall_tg_mono; [|exact Fe1]. pose proof (lefC_len _ _ L2). lia. }
      cbv beta. intros _ s4 (I4 & L4 & N4).
      eapply tr_conseq; [apply IH; auto|].
      { pose proof (lefC_len _ _ L4). lia. }
      cbv beta. intros _ s5 (I5 & L5 & N5).
      split; [auto|split; [eapply lefC_trans; eauto|cbn; lia]]. }
  eapply tr_bind; [apply G; auto|].
  { rewrite Ne. exact Pc. }
  cbv beta. intros _ s3 (I3 & L3 & N3).
  eapply tr_conseq; [apply fix_soundC; auto|].
  { eapply tg_mono; [apply (lefC_len _ _ L3)|exact Tb]. }
  cbv beta. intros r s4 (Tr & G4).
  split; [apply G4|split; [|split; [exact Tr|]]].
  - eapply lefC_trans; [exact L1|]. eapply lefC_trans; [exact L2|]. eapply lefC_trans; [exact L3|].
    eapply goodC_lefC; eauto.
  - rewrite (goodC_cnt _ _ _ G4). rewrite N3. congruence.
Qed.

Local Notation StepSem := (Sound.StepSem H).

Lemma apply_goodC fuel f0 x0 fixb s : JC s -> tg (len s) f0 -> tg (len s) x0 ->
  tr (apply H fuel f0 x0 fixb) s
     (fun r s' => tg (len s') r /\ goodC s (fun th => StepSem th f0 x0 r) s').
Proof.
  intros I Tf0 Tx0. unfold apply. apply tr_gets. apply tr_gets.
  pose proof (tg_follow s f0 I Tf0) as Tf. pose proof (tg_follow s x0 I Tx0) as Tx.
  assert (Df : forall th, sat th s -> den th (follow s f0) = den th f0) by (intros; apply (den_follow H); auto).
  assert (Dx : forall th, sat th s -> den th (follow s x0) = den th x0) by (intros; apply (den_follow H); auto).
  set (f := follow s f0) in *. set (x := follow s x0) in *. clearbody f x.
  eapply tr_bind with (Q1 := fun f' s1 => tg (len s1) f' /\ goodC s (fun th => den th f' = den th f) s1).
  - destruct f as [vf|o args]; [|apply tr_ret; split; [auto|apply goodC_refl; auto]].
    apply Sound.tr_fresh. pose proof (JC_alloc s false I) as I1. pose proof (lefC_alloc s false) as L1.
    pose proof (alloc_var_length s false) as N1.
    assert (K1 : constrs (snd (alloc_var s false)) = constrs s) by reflexivity.
    set (s1 := snd (alloc_var s false)) in *. clearbody s1.
    apply Sound.tr_fresh. pose proof (JC_alloc s1 false I1) as I2. pose proof (lefC_alloc s1 false) as L2.
    pose proof (alloc_var_length s1 false) as N2.
    assert (K2 : constrs (snd (alloc_var s1 false)) = constrs s1) by reflexivity.
    set (s2 := snd (alloc_var s1 false)) in *. clearbody s2.
    assert (Lv : vf < len s) by (inversion Tf; auto).
    eapply tr_bind; [apply bind_soundC; auto; try lia|].
    + constructor; [rewrite var_fun; reflexivity|].
      constructor; [constructor; lia|constructor; [constructor; lia|constructor]].
    + intros o args [= <- <-] Eb. apply basic_var in Eb. rewrite var_fun in Eb. discriminate.
    + cbv beta. intros _ s3 G3. apply tr_gets_end.
      assert (L03 : lefC s s3) by (eapply lefC_trans; [exact L1|eapply lefC_trans; [exact L2|eapply goodC_lefC; eauto]]).
      split.
      * apply tg_follow; [apply G3|]. constructor. apply lefC_len in L03. lia.
      * apply goodC_of_lefC; [apply G3|exact L03|rewrite (goodC_cnt _ _ _ G3); congruence|].
        intros th S3. apply (den_follow H). exact S3.
  - cbv beta. intros f' s1 (Tf' & G1). pose proof G1 as (I1 & [L1 M1] & F1 & X1 & R1).
    assert (Tx1 : tg (len s1) x) by (eapply tg_mono; eauto).
    assert (TopCase : forall args, tg (len s1) (O Top args) -> f' = O Top args ->
              tg (len s1) (O Top []) /\ goodC s (fun th => StepSem th f0 x0 (O Top [])) s1).
    { intros args Ta ->. split; [apply tg_O0; apply var_top; auto|].
      eapply goodC_weaken; [exact G1|]. intros th S1 E. right. split; [|reflexivity].
      rewrite <- Df, <- E by auto. eapply den_O_wf; eauto using sat_wf, var_top. }
    destruct f' as [v|o [|lft [|rgt [|z r]]]]; try apply tr_fail.
    + destruct (Nat.eqb o Top) eqn:Et; [|apply tr_fail]. apply Nat.eqb_eq in Et. subst o.
      apply tr_ret. eapply TopCase; eauto.
    + destruct (Nat.eqb o Top) eqn:Et; [|apply tr_fail]. apply Nat.eqb_eq in Et. subst o.
      apply tr_ret. eapply TopCase; eauto.
    + destruct (Nat.eqb o Function) eqn:Ef.
      * apply Nat.eqb_eq in Ef. subst o.
        destruct (tg_args H _ _ _ Tf') as [_ Fa]. inversion Fa as [|? ? Tl Fa']; subst.
        inversion Fa' as [|? ? Tr _]; subst.
        eapply tr_bind; [apply unify_plainC; auto|]. cbv beta. intros _ s2 G2.
        pose proof G2 as (I2 & [L2 M2] & F2 & X2 & R2).
        assert (Fin : forall r s3, tg (len s3) r -> goodC s2 (fun th => den th r = den th rgt) s3 ->
                  tg (len s3) r /\ goodC s (fun th => StepSem th f0 x0 r) s3).
        { intros r s3 Trr G3. split; [exact Trr|].
          eapply goodC_trans; [exact G1|eapply goodC_trans; [exact G2|exact G3|]|].
          - cbv beta. intros th _ _ _ A B. exact (conj A B).
          - cbv beta. intros th _ S1 S0 E [Sb Er]. left.
            exists (den th lft), (den th rgt). rewrite <- Df, <- E by auto. split; [reflexivity|].
            split; [|exact Er]. rewrite <- Dx by auto. exact Sb. }
        destruct (fixb && negb (is_fun rgt)).
        -- eapply tr_conseq; [apply fix_soundC; auto; eapply tg_mono; eauto|].
           cbv beta. intros r s3 (Trr & G3). apply Fin; auto.
        -- apply tr_ret. apply Fin; [eapply tg_mono; eauto|]. apply goodC_refl; auto.
      * destruct (Nat.eqb o Top) eqn:Et; [|apply tr_fail]. apply Nat.eqb_eq in Et. subst o.
        apply tr_ret. eapply TopCase; eauto.
    + destruct (Nat.eqb o Top) eqn:Et; [|apply tr_fail]. apply Nat.eqb_eq in Et. subst o.
      apply tr_ret. eapply TopCase; eauto.
Qed.

(* ------------------------------------------------------------------ *)
(* command programs                                                     *)
(* ------------------------------------------------------------------ *)
Lemma run_cmd_goodC fuel c vals s : JC s -> Forall (tg (len s)) vals -> cmdC (length vals) c ->
  tr (run_cmd H fuel c vals) s
     (fun vals' s' => exists t, vals' = vals ++ [t] /\ tg (len s') t /\ JC s' /\ lefC s s' /\
        length (constrs s') = length (constrs s) + ncon c /\
        forall th, sat th s' -> forall f x r, In (f, x, r) (step_of_cmd c (length vals)) ->
                            StepSem th (val vals f) (val vals x) t).
Proof.
  intros I Fv Pc. destruct Pc as [sc Sb Pcs|f x b Lf Lx]; cbn [run_cmd].
  - eapply tr_bind; [apply instance_goodC; auto|]. cbv beta. intros t s1 (I1 & L1 & Tt & N1).
    apply tr_ret. exists t. split; [reflexivity|split; [exact Tt|split; [exact I1|split; [exact L1|split; [exact N1|]]]]].
    intros th _ f x r [].
  - eapply tr_bind; [apply apply_goodC; auto using tg_val|]. cbv beta. intros t s1 (Tt & G1).
    apply tr_ret. exists t. split; [reflexivity|split; [exact Tt|split; [apply G1|split; [eapply goodC_lefC; eauto|split]]]].
    + rewrite (goodC_cnt _ _ _ G1). cbn. lia.
    + destruct G1 as (_ & _ & _ & _ & R1). intros th S1 f' x' r' [[= <- <- <-]|[]]. apply R1. exact S1.
Qed.

Lemma steps_of_consC c cs n : cmdC n c ->
  steps_of (c :: cs) n = step_of_cmd c n ++ steps_of cs (S n).
Proof. intros [sc _ _|f x b _ _]; reflexivity. Qed.

Fixpoint ncons (cs : list cmd) : nat := match cs with [] => 0 | c :: r => ncon c + ncons r end.

Theorem run_cmds_goodC fuel : forall cs i vals s vals' s', JC s -> Forall (tg (len s)) vals ->
  progC (length vals) cs -> run_cmds H fuel cs i vals s = (None, vals', s') ->
  JC s' /\ lefC s s' /\ Forall (tg (len s')) vals' /\ (exists ext, vals' = vals ++ ext) /\
  length (constrs s') = length (constrs s) + ncons cs /\
  forall th, sat th s' -> forall f x r, In (f, x, r) (steps_of cs (length vals)) ->
    StepSem th (val vals' f) (val vals' x) (val vals' r).
Proof.
  induction cs as [|c cs IH]; intros i vals s vals' s' I Fv P R; cbn [run_cmds] in R.
  - inversion R; subst. split; [auto|split; [apply lefC_refl|split; [auto|split; [|split]]]].
    + exists []. rewrite app_nil_r. reflexivity.
    + cbn. lia.
    + intros th _ f x r [].
  - destruct P as [Pc Pr].
    pose proof (run_cmd_goodC fuel c vals s I Fv Pc) as T. unfold tr in T.
    destruct (run_cmd H fuel c vals s) as [vals1 s1|e s1] eqn:Ec; [|discriminate].
    destruct (T vals1 s1 eq_refl) as (t & -> & Tt & I1 & L1 & N1 & R1).
    assert (Fv1 : Forall (tg (len s1)) (vals ++ [t])).
    { apply Forall_app. split; [eapply Forall_tg_mono; [apply (lefC_len _ _ L1)|exact Fv]|constructor; auto]. }
    assert (Pr1 : progC (length (vals ++ [t])) cs) by (rewrite app_length; cbn; rewrite Nat.add_1_r; exact Pr).
    destruct (IH (S i) (vals ++ [t]) s1 vals' s' I1 Fv1 Pr1 R) as (I' & L' & Fv' & (ext & ->) & N' & R').
    split; [auto|split; [eapply lefC_trans; eauto|split; [auto|split; [|split]]]].
    + exists ([t] ++ ext). rewrite app_assoc. reflexivity.
    + cbn [ncons]. lia.
    + intros th S' f x r Hin. rewrite steps_of_consC in Hin by exact Pc.
      apply in_app_or in Hin. destruct Hin as [Hin|Hin].
      * pose proof (proj2 (proj1 L') th S') as S1. specialize (R1 th S1 f x r Hin).
        destruct Pc as [sc _ _|f' x' b Lf Lx]; cbn in Hin; [destruct Hin|].
        destruct Hin as [[= <- <- <-]|[]].
        rewrite <- app_assoc. change ([t] ++ ext) with (t :: ext). rewrite !val_app_l by lia. rewrite val_app_new. exact R1.
      * apply R'; [exact S'|]. rewrite app_length. cbn. rewrite Nat.add_1_r. exact Hin.
Qed.

(* every fulfilled elimination constraint satisfies its done clause *)
Definition dn (s : store) : Prop :=
  forall c, k_done (constr_of s c) = true -> dcl s c.

Lemma dn_lefC s s' : dn s -> lefC s s' -> dn s'.
Proof.
  intros D (L & _ & (Cf & Nd)) c Ed. destruct (k_done (constr_of s c)) eqn:D0.
  - eapply dcl_frz; [apply (D c D0)|apply (cfr_frz _ _ Cf c D0)|apply L].
  - apply Nd; auto.
Qed.

Lemma JC_empty sc : JC (empty_store sc).
Proof.
  split; [split|split].
  - intros v t. unfold cell_of. cbn. destruct v; discriminate.
  - intros v. unfold cell_of. cbn. split; [|split]; intros; destruct v; discriminate.
  - intros c Lc. cbn in Lc. lia.
  - intros v. exists []. constructor. unfold cell_of. cbn. destruct v; reflexivity.
Qed.

Lemma dn_empty sc : dn (empty_store sc).
Proof. intros c Ed. unfold constr_of in Ed. cbn in Ed. destruct c; discriminate. Qed.

Theorem concS_final fuel sc prog vals s : progC 0 prog ->
  run_cmds H fuel prog 0 [] (empty_store sc) = (None, vals, s) ->
  JC s /\ lefC (empty_store sc) s /\ dn s /\ Forall (tg (len s)) vals /\
  length (constrs s) = ncons prog /\
  forall th, sat th s -> forall f x r, In (f, x, r) (steps_of prog 0) ->
    StepSem th (val vals f) (val vals x) (val vals r).
Proof.
  intros P R.
  destruct (run_cmds_goodC fuel prog 0 [] (empty_store sc) vals s (JC_empty sc) (Forall_nil _) P R)
    as (I & L & Fv & _ & N & St).
  split; [exact I|split; [exact L|split; [|split; [exact Fv|split; [exact N|exact St]]]]].
  eapply dn_lefC; [apply dn_empty|exact L].
Qed.

End SoundC.
