(* C06: when does a concrete argument fit an alternative of an elimination
   constraint `a << {alt1, alt2, ...}`?

   Alternatives are the schematic types [sty] of Infer/Engine.v (SVar i = another
   variable of the signature, SWild = `_`, SOp o args).  This file gives

   - the declarative specification [Fits H x alt]: some well-formed instantiation
     of the variables and of every wildcard occurrence makes the argument a
     subtype (Sub/SubSpec.v) of the instantiated alternative;
   - the executable one-way matcher [fitsb H x alt], which follows the filter of
     EliminationConstraint.fulfill (transforge/type.py:1051-1086), i.e.
     `ref.match(alt, subtype=True, accept_wildcard=True) is not False` of
     TypeInstance.match (type.py:496-554) for a concrete [ref];
   - the proof that they coincide on linear alternatives, that the matcher
     over-approximates on non-linear ones, and order properties of fitting;
   - [accept_spec], what the harness compares the implementation with. *)
From Coq Require Import List Arith Bool Lia.
Import ListNotations.
From TF Require Import Base.Hier Base.Ty Sub.Match Sub.SubSpec Sub.SubProofs
  Infer.Store Infer.Engine.

(* ---------- patterns ---------- *)

Section sty_ind'.
  Variable P : sty -> Prop.
  Hypothesis HV : forall i, P (SVar i).
  Hypothesis HW : P SWild.
  Hypothesis HO : forall o args, Forall P args -> P (SOp o args).
  Fixpoint sty_ind' (t : sty) : P t :=
    match t with
    | SVar i => HV i
    | SWild => HW
    | SOp o args =>
        HO o args ((fix go (l : list sty) : Forall P l :=
                      match l with
                      | [] => Forall_nil P
                      | x :: r => Forall_cons x (sty_ind' x) (go r)
                      end) args)
    end.
End sty_ind'.

(* number of wildcard occurrences *)
Fixpoint nwild (p : sty) : nat :=
  match p with
  | SVar _ => 0
  | SWild => 1
  | SOp _ args => list_sum (map nwild args)
  end.

(* schematic variables, left to right, with repetitions *)
Fixpoint svars (p : sty) : list nat :=
  match p with
  | SVar i => [i]
  | SWild => []
  | SOp _ args => flat_map svars args
  end.

(* every schematic variable occurs at most once *)
Definition linear (p : sty) : Prop := NoDup (svars p).

Fixpoint nodupb (l : list nat) : bool :=
  match l with
  | [] => true
  | x :: r => negb (existsb (Nat.eqb x) r) && nodupb r
  end.
Definition linearb (p : sty) : bool := nodupb (svars p).

(* well-formed pattern: operator nodes have as many parameters as the arity *)
Fixpoint wf_sty (H : hier) (p : sty) : Prop :=
  match p with
  | SVar _ => True
  | SWild => True
  | SOp o args => length args = length (variance H o) /\ All (wf_sty H) args
  end.

Fixpoint wf_styb (H : hier) (p : sty) : bool :=
  match p with
  | SVar _ => true
  | SWild => true
  | SOp o args => Nat.eqb (length args) (length (variance H o)) && forallb (wf_styb H) args
  end.

(* a concrete type as a (variable-free) pattern *)
Fixpoint sconc (t : ty) : sty :=
  match t with TOp o args => SOp o (map sconc args) end.

(* ---------- instantiation ---------- *)

Section SubstArgs.
  Variable f : list ty -> sty -> ty.
  Fixpoint subst_args (omega : list ty) (ps : list sty) {struct ps} : list ty :=
    match ps with
    | [] => []
    | p :: r => f (firstn (nwild p) omega) p :: subst_args (skipn (nwild p) omega) r
    end.
End SubstArgs.

(* [subst sigma omega p]: schematic variable i becomes [sigma i]; the k-th
   wildcard occurrence (left to right) becomes the k-th element of [omega]
   (Top when [omega] is too short). *)
Fixpoint subst (sigma : nat -> ty) (omega : list ty) (p : sty) {struct p} : ty :=
  match p with
  | SVar i => sigma i
  | SWild => hd (TOp Top []) omega
  | SOp o args => TOp o (subst_args (fun om q => subst sigma om q) omega args)
  end.

(* THE SPECIFICATION: x fits alt *)
Definition Fits (H : hier) (x : ty) (alt : sty) : Prop :=
  exists (sigma : nat -> ty) (omega : list ty),
    (forall i, wf_ty H (sigma i)) /\ Forall (wf_ty H) omega /\
    Sub H x (subst sigma omega alt).

(* ---------- the matcher ---------- *)

Section FArgs.
  Variable f : bool -> ty -> sty -> bool.
  Fixpoint fargs (d : bool) (vs : list bool) (xs : list ty) (ps : list sty) {struct ps} : bool :=
    match ps, vs, xs with
    | p :: ps', v :: vs', x :: xs' =>
        f (if v then d else negb d) x p && fargs d vs' xs' ps'
    | _, _, _ => true
    end.
End FArgs.

(* [fitsb_dir H true x p]: "x <= p" may hold, i.e. x.match(p, subtype=True,
   accept_wildcard=True) is not False; [fitsb_dir H false x p]: "p <= x" may
   hold, i.e. p.match(x, ...) is not False (the code swaps its operands at
   contravariant positions).  [l] is the operator on the left of the code's
   call, [r] the one on the right; a variable or wildcard never answers False
   against a concrete type (it has no bounds when the constraint is filtered). *)
Fixpoint fitsb_dir (H : hier) (d : bool) (x : ty) (p : sty) {struct p} : bool :=
  match p with
  | SVar _ => true
  | SWild => true
  | SOp op ps =>
      match x with
      | TOp ox xs =>
          let l := if d then ox else op in
          let r := if d then op else ox in
          if Nat.eqb l Bottom || Nat.eqb r Top then true
          else if Nat.eqb (arity H l) 0 then Nat.eqb l r || op_subtype H false l r
          else if negb (Nat.eqb l r) then false
          else fargs (fun d' x' p' => fitsb_dir H d' x' p') d (variance H op) xs ps
      end
  end.

Definition fitsb (H : hier) (x : ty) (alt : sty) : bool := fitsb_dir H true x alt.

(* what the engine should answer for `a ** r(b) [a << alts]` applied to x *)
Definition accept_spec (H : hier) (x : ty) (alts : list sty) : bool :=
  existsb (fitsb H x) alts.

(* ---------- small list facts ---------- *)

Ltac split3 := split; [|split].

Lemma NoDup_app_inv {A} (l1 l2 : list A) : NoDup (l1 ++ l2) ->
  NoDup l1 /\ NoDup l2 /\ (forall a, In a l1 -> ~ In a l2).
Proof.
  induction l1 as [|a l1 IH]; cbn; intros N.
  - repeat split; auto. constructor.
  - inversion N as [|? ? Na N']; subst. destruct (IH N') as (N1 & N2 & D).
    repeat split; auto.
    + constructor; auto. intros I. apply Na. apply in_or_app. now left.
    + intros b [<-|Ib]; auto. intros I. apply Na. apply in_or_app. now right.
Qed.

Lemma nodupb_spec l : nodupb l = true <-> NoDup l.
Proof.
  induction l as [|x r IH]; cbn [nodupb].
  - split; auto. constructor.
  - rewrite andb_true_iff, negb_true_iff, IH. split.
    + intros [E N]. constructor; auto. intros I.
      assert (existsb (Nat.eqb x) r = true) by (apply existsb_exists; exists x; split; auto; apply Nat.eqb_refl).
      congruence.
    + intros N. inversion N as [|? ? Nx N']; subst. split; auto.
      destruct (existsb (Nat.eqb x) r) eqn:E; auto.
      apply existsb_exists in E. destruct E as (y & Iy & E). apply Nat.eqb_eq in E. subst y. contradiction.
Qed.

Lemma linearb_spec p : linearb p = true <-> linear p.
Proof. apply nodupb_spec. Qed.

Lemma wf_sty_unfold H o args :
  wf_sty H (SOp o args) <-> length args = length (variance H o) /\ Forall (wf_sty H) args.
Proof. cbn [wf_sty]. now rewrite All_Forall. Qed.

Lemma wf_styb_spec H p : wf_styb H p = true <-> wf_sty H p.
Proof.
  induction p as [i| |o args IH] using sty_ind'; try (cbn; tauto).
  rewrite wf_sty_unfold. cbn [wf_styb].
  rewrite andb_true_iff, Nat.eqb_eq, forallb_forall, Forall_forall.
  rewrite Forall_forall in IH. split; intros [L F]; split; auto; intros x Hx; apply IH; auto.
Qed.

(* ---------- instantiation as a relation ---------- *)

(* [Inst H sigma p t]: t arises from p by replacing SVar i with sigma i and each
   wildcard occurrence by some well-formed type *)
Inductive Inst (H : hier) (sigma : nat -> ty) : sty -> ty -> Prop :=
| InstVar i : Inst H sigma (SVar i) (sigma i)
| InstWild t : wf_ty H t -> Inst H sigma SWild t
| InstOp o ps ts : Forall2 (Inst H sigma) ps ts -> Inst H sigma (SOp o ps) (TOp o ts).

Section Fits.
  Variable H : hier.
  Hypothesis W : wf_hier H.

  Lemma wf_top_ty : wf_ty H (TOp Top []).
  Proof. apply wf_ty_unfold. rewrite (var_top H W). split; auto. Qed.

  Lemma Forall_firstn {A} (P : A -> Prop) n l : Forall P l -> Forall P (firstn n l).
  Proof.
    intros F. rewrite Forall_forall in *. intros x Hx. apply F.
    rewrite <- (firstn_skipn n l). apply in_or_app. now left.
  Qed.
  Lemma Forall_skipn {A} (P : A -> Prop) n l : Forall P l -> Forall P (skipn n l).
  Proof.
    intros F. rewrite Forall_forall in *. intros x Hx. apply F.
    rewrite <- (firstn_skipn n l). apply in_or_app. now right.
  Qed.

  (* every substitution instance is an instance *)
  Lemma subst_Inst sigma p : forall omega, Forall (wf_ty H) omega ->
    Inst H sigma p (subst sigma omega p).
  Proof.
    induction p as [i| |o args IH] using sty_ind'; intros omega F; cbn [subst].
    - constructor.
    - constructor. destruct omega as [|t r]; cbn [hd]; [apply wf_top_ty|now inversion F].
    - constructor. revert omega F.
      induction IH as [|a args Ha _ IHargs]; intros omega F; cbn [subst_args]; constructor.
      + apply Ha. now apply Forall_firstn.
      + apply IHargs. now apply Forall_skipn.
  Qed.

  (* and every instance is a substitution instance *)
  Lemma Inst_subst sigma p : forall t, Inst H sigma p t ->
    exists omega, length omega = nwild p /\ Forall (wf_ty H) omega /\ subst sigma omega p = t.
  Proof.
    induction p as [i| |o args IH] using sty_ind'; intros t I; inversion I as [|t' Wt|o' ps ts F2]; subst.
    - exists []. repeat split; auto.
    - exists [t]. repeat split; auto.
    - assert (X : exists omega, length omega = list_sum (map nwild args) /\ Forall (wf_ty H) omega /\
                  subst_args (fun om q => subst sigma om q) omega args = ts).
      { clear I. revert ts F2.
        induction IH as [|a args Ha _ IHargs]; intros ts F2; inversion F2 as [|? t ? ts' Ia F2']; subst.
        - exists []. repeat split; auto.
        - destruct (Ha _ Ia) as (o1 & L1 & F1 & E1).
          destruct (IHargs _ F2') as (o2 & L2 & F2'' & E2).
          exists (o1 ++ o2). cbn [map list_sum subst_args]. split; [|split].
          + rewrite app_length, L1, L2. reflexivity.
          + apply Forall_app. auto.
          + rewrite <- L1. rewrite firstn_app, Nat.sub_diag, firstn_all. cbn [firstn]. rewrite app_nil_r.
            rewrite skipn_app, Nat.sub_diag, skipn_all. cbn [skipn app].
            now rewrite E1, E2. }
      destruct X as (omega & L & F & E). exists omega. cbn [nwild subst]. repeat split; auto. now rewrite E.
  Qed.

  Definition FitsI (x : ty) (p : sty) : Prop :=
    exists sigma t, (forall i, wf_ty H (sigma i)) /\ Inst H sigma p t /\ Sub H x t.

  Lemma Fits_FitsI x p : Fits H x p <-> FitsI x p.
  Proof.
    split.
    - intros (sigma & omega & Ws & Wo & S). exists sigma, (subst sigma omega p).
      split3; auto. now apply subst_Inst.
    - intros (sigma & t & Ws & I & S). apply Inst_subst in I. destruct I as (omega & _ & Wo & <-).
      exists sigma, omega. auto.
  Qed.

  (* instances depend only on the variables that occur *)
  Lemma Inst_ext s1 s2 p : forall t, (forall i, In i (svars p) -> s1 i = s2 i) ->
    Inst H s1 p t -> Inst H s2 p t.
  Proof.
    induction p as [i| |o args IH] using sty_ind'; intros t E I; inversion I as [|t' Wt|o' ps ts F2]; subst.
    - rewrite (E i) by (cbn; auto). constructor.
    - now constructor.
    - constructor. cbn [svars] in E. clear I. revert ts F2.
      induction IH as [|a args Ha _ IHargs]; intros ts F2; inversion F2 as [|? t ? ts' Ia F2']; subst; constructor.
      + apply Ha; auto. intros i Hi. apply E. cbn. apply in_or_app. now left.
      + apply IHargs; auto. intros i Hi. apply E. cbn. apply in_or_app. now right.
  Qed.

  Lemma Forall2_Inst_ext s1 s2 ps : forall ts,
    (forall i, In i (flat_map svars ps) -> s1 i = s2 i) ->
    Forall2 (Inst H s1) ps ts -> Forall2 (Inst H s2) ps ts.
  Proof.
    intros ts E F2. assert (I : Inst H s2 (SOp 0 ps) (TOp 0 ts)).
    { eapply Inst_ext; [|constructor; exact F2]. exact E. }
    now inversion I.
  Qed.

  (* ---------- completeness: whatever fits is accepted by the matcher ---------- *)

  Lemma fargs_complete (f : bool -> ty -> sty -> bool) sigma d ps : forall ts,
    Forall2 (Inst H sigma) ps ts ->
    Forall (fun p => forall d' x t, Inst H sigma p t -> dirSub H d' x t -> f d' x p = true) ps ->
    forall vs xs, dirArgs H d vs xs ts -> fargs f d vs xs ps = true.
  Proof.
    induction 1 as [|p t ps ts Ip _ IH]; intros F vs xs A; [reflexivity|].
    inversion F as [|? ? Fp F']; subst.
    assert (X : exists v vs' x xs', vs = v :: vs' /\ xs = x :: xs' /\
                 dirSub H (if v then d else negb d) x t /\ dirArgs H d vs' xs' ts).
    { destruct d; cbn in A; inversion A; subst; eexists _, _, _, _; repeat split; eauto. }
    destruct X as (v & vs' & x & xs' & -> & -> & S & A').
    cbn [fargs]. rewrite (Fp _ _ _ Ip S). cbn [andb]. now apply IH.
  Qed.

  Lemma Sub_inv l ls r rs : Sub H (TOp l ls) (TOp r rs) ->
    l = Bottom \/ r = Top \/ (variance H l = [] /\ Anc H l r) \/
    (l = r /\ variance H l <> [] /\ ArgsRel (Sub H) (variance H l) ls rs).
  Proof. intros S. inversion S; subst; auto 10. Qed.

  Theorem fits_complete sigma p : forall d x t,
    Inst H sigma p t -> dirSub H d x t -> fitsb_dir H d x p = true.
  Proof.
    induction p as [i| |op ps IH] using sty_ind'; intros d x t I S; try reflexivity.
    inversion I as [| |o' ps' ts F2]; subst. destruct x as [ox xs].
    cbn [fitsb_dir].
    set (l := if d then ox else op). set (r := if d then op else ox).
    set (ls := if d then xs else ts). set (rs := if d then ts else xs).
    assert (S' : Sub H (TOp l ls) (TOp r rs)) by (destruct d; exact S).
    destruct (Nat.eqb l Bottom || Nat.eqb r Top) eqn:E1; [reflexivity|].
    apply orb_false_iff in E1. destruct E1 as [NB NT]. apply Nat.eqb_neq in NB, NT.
    unfold arity.
    destruct (Sub_inv _ _ _ _ S') as [E|[E|[[Va A]|(Elr & Vo & AR)]]]; try congruence.
    - (* base types *)
      rewrite Va. cbn [length Nat.eqb].
      apply orb_true_iff. right. apply op_subtype_ns_spec; auto.
    - (* same compound operator *)
      assert (Eop : op = l) by (destruct d; subst l r; congruence).
      rewrite <- Elr, Nat.eqb_refl. cbn [negb].
      destruct (Nat.eqb (length (variance H l)) 0) eqn:E2.
      { apply Nat.eqb_eq in E2. destruct (variance H l); [congruence|discriminate]. }
      rewrite Eop.
      eapply fargs_complete; [exact F2|exact IH|].
      unfold dirArgs. destruct d; subst ls rs; exact AR.
  Qed.

  (* ---------- soundness on linear patterns ---------- *)

  Definition sigma0 : nat -> ty := fun _ => TOp Top [].
  Lemma sigma0_wf i : wf_ty H (sigma0 i).
  Proof. apply wf_top_ty. Qed.

  Definition sound_at (f : bool -> ty -> sty -> bool) (p : sty) : Prop :=
    forall d x, wf_sty H p -> NoDup (svars p) -> wf_ty H x -> f d x p = true ->
    exists sigma t, (forall i, wf_ty H (sigma i)) /\ Inst H sigma p t /\ dirSub H d x t.

  Lemma fargs_sound (f : bool -> ty -> sty -> bool) d ps :
    Forall (sound_at f) ps -> forall vs xs,
    length xs = length vs -> length ps = length vs ->
    Forall (wf_sty H) ps -> NoDup (flat_map svars ps) -> Forall (wf_ty H) xs ->
    fargs f d vs xs ps = true ->
    exists sigma ts, (forall i, wf_ty H (sigma i)) /\ Forall2 (Inst H sigma) ps ts /\
                     dirArgs H d vs xs ts.
  Proof.
    induction 1 as [|p ps Sp _ IH]; intros vs xs Lx Lp Wp N Wx E.
    - destruct vs; [|discriminate]. destruct xs; [|discriminate].
      exists sigma0, []. split3; auto using sigma0_wf. destruct d; constructor.
    - destruct vs as [|v vs]; [discriminate|]. destruct xs as [|x xs]; [discriminate|].
      cbn in Lx, Lp. cbn [fargs] in E. apply andb_true_iff in E. destruct E as [E1 E2].
      inversion Wp as [|? ? Wp1 Wp2]; subst. inversion Wx as [|? ? Wx1 Wx2]; subst.
      cbn [flat_map] in N. apply NoDup_app_inv in N. destruct N as (N1 & N2 & D).
      destruct (Sp _ _ Wp1 N1 Wx1 E1) as (s1 & t1 & Ws1 & I1 & S1).
      destruct (IH vs xs) as (s2 & ts & Ws2 & I2 & A2); auto.
      exists (fun i => if existsb (Nat.eqb i) (svars p) then s1 i else s2 i), (t1 :: ts).
      split; [|split].
      + intros i. destruct (existsb _ _); auto.
      + constructor.
        * eapply Inst_ext; [|exact I1]. intros i Hi. cbn.
          assert (X : existsb (Nat.eqb i) (svars p) = true)
            by (apply existsb_exists; exists i; split; auto; apply Nat.eqb_refl).
          now rewrite X.
        * eapply Forall2_Inst_ext; [|exact I2]. intros i Hi. cbn.
          destruct (existsb (Nat.eqb i) (svars p)) eqn:X; auto.
          apply existsb_exists in X. destruct X as (j & Ij & Ej). apply Nat.eqb_eq in Ej. subst j.
          exfalso. eapply D; eauto.
      + unfold dirArgs, dirSub in *. destruct d, v; cbn in *; constructor; auto.
  Qed.

  Lemma nil_len0 {A} (l : list A) : length l = 0 -> l = [].
  Proof. destruct l; [auto|discriminate]. Qed.

  Theorem fits_sound p : sound_at (fitsb_dir H) p.
  Proof.
    induction p as [i| |op ps IH] using sty_ind'; intros d x Wp N Wx E.
    - (* a variable: instantiate it with the argument itself *)
      exists (fun _ => x), x. split3; auto; [constructor|].
      destruct d; cbn; now apply Sub_refl.
    - exists sigma0, x. split3; auto using sigma0_wf; [now constructor|].
      destruct d; cbn; now apply Sub_refl.
    - destruct x as [ox xs].
      apply wf_sty_unfold in Wp. destruct Wp as [Lp Fp].
      apply wf_ty_unfold in Wx. destruct Wx as [Lx Fx].
      cbn [fitsb_dir] in E.
      set (l := if d then ox else op) in *. set (r := if d then op else ox) in *.
      (* the default instance, used when the answer does not depend on the parameters *)
      pose (t0 := subst sigma0 [] (SOp op ps)).
      assert (I0 : Inst H sigma0 (SOp op ps) t0) by (apply subst_Inst; constructor).
      destruct (Nat.eqb l Bottom || Nat.eqb r Top) eqn:E1.
      { exists sigma0, t0. split3; auto using sigma0_wf.
        apply orb_true_iff in E1. destruct E1 as [E1|E1]; apply Nat.eqb_eq in E1;
          destruct d; subst l r; cbn [dirSub]; subst.
        - rewrite (var_bot H W) in Lx. apply nil_len0 in Lx. subst. constructor.
        - rewrite (var_bot H W) in Lp. apply nil_len0 in Lp. subst. cbn. constructor.
        - rewrite (var_top H W) in Lp. apply nil_len0 in Lp. subst. cbn. constructor.
        - rewrite (var_top H W) in Lx. apply nil_len0 in Lx. subst. constructor. }
      apply orb_false_iff in E1. destruct E1 as [NB NT]. apply Nat.eqb_neq in NB, NT.
      unfold arity in E.
      destruct (Nat.eqb (length (variance H l)) 0) eqn:E2.
      { apply Nat.eqb_eq in E2. assert (Vl : variance H l = []) by now apply nil_len0.
        assert (A : Anc H l r).
        { apply orb_true_iff in E. destruct E as [E|E].
          - apply Nat.eqb_eq in E. rewrite E. constructor.
          - apply op_subtype_ns_spec in E; auto. destruct E as [E|[E|E]]; auto; contradiction. }
        assert (Vr : variance H r = []).
        { destruct (Anc_inv H W _ _ A) as [<-|(_&V&_)]; auto. }
        assert (Vop : variance H op = []) by (destruct d; subst l r; auto).
        assert (Vox : variance H ox = []) by (destruct d; subst l r; auto).
        rewrite Vop in Lp. rewrite Vox in Lx. apply nil_len0 in Lp, Lx. subst ps xs.
        exists sigma0, (TOp op []). split3; [apply sigma0_wf|constructor; constructor|].
        destruct d; subst l r; cbn [dirSub]; now constructor. }
      destruct (Nat.eqb l r) eqn:E3; cbn [negb] in E; [|discriminate].
      apply Nat.eqb_eq in E3.
      assert (Eo : ox = op) by (destruct d; subst l r; auto). subst ox.
      assert (El : l = op) by (destruct d; reflexivity). rewrite El in *.
      cbn [svars] in N.
      destruct (fargs_sound (fitsb_dir H) d ps) with (vs := variance H op) (xs := xs)
        as (sigma & ts & Ws & I & A); auto.
      exists sigma, (TOp op ts). split3; auto; [now constructor|].
      assert (Vne : variance H op <> []).
      { intros V. rewrite V in E2. discriminate. }
      unfold dirSub, dirArgs in *. destruct d; now apply SubComp.
  Qed.

  (* ---------- the exported statements ---------- *)

  Theorem fitsb_spec x alt : wf_ty H x -> wf_sty H alt -> linear alt ->
    (fitsb H x alt = true <-> Fits H x alt).
  Proof.
    intros Wx Wp L. rewrite Fits_FitsI. unfold fitsb. split.
    - intros E. destruct (fits_sound alt true x Wp L Wx E) as (sigma & t & Ws & I & S).
      exists sigma, t. auto.
    - intros (sigma & t & Ws & I & S). eapply fits_complete; eauto.
  Qed.

  (* without linearity (and without any well-formedness) the matcher still
     accepts everything that fits: it over-approximates *)
  Theorem fitsb_complete x alt : Fits H x alt -> fitsb H x alt = true.
  Proof.
    rewrite Fits_FitsI. intros (sigma & t & Ws & I & S). eapply fits_complete; eauto.
  Qed.

  Theorem accept_spec_iff x alts : wf_ty H x ->
    Forall (wf_sty H) alts -> Forall linear alts ->
    (accept_spec H x alts = true <-> exists alt, In alt alts /\ Fits H x alt).
  Proof.
    intros Wx Wa La. unfold accept_spec. rewrite existsb_exists.
    rewrite Forall_forall in *.
    split; intros (alt & Ia & F); exists alt; split; auto; apply fitsb_spec; auto.
  Qed.

  Theorem Fits_mono x x' alt : Sub H x' x -> Fits H x alt -> Fits H x' alt.
  Proof.
    intros S (sigma & omega & Ws & Wo & S'). exists sigma, omega. split3; auto.
    eapply Sub_trans; eauto.
  Qed.

  Lemma subst_sconc sigma t : forall omega, subst sigma omega (sconc t) = t.
  Proof.
    induction t as [o args IH] using ty_ind'. intros omega. cbn [sconc subst]. f_equal.
    revert omega. induction IH as [|a args Ha _ IHargs]; intros omega; cbn [map subst_args]; [reflexivity|].
    now rewrite Ha, IHargs.
  Qed.

  Theorem Fits_concrete x t : Fits H x (sconc t) <-> Sub H x t.
  Proof.
    split.
    - intros (sigma & omega & _ & _ & S). now rewrite subst_sconc in S.
    - intros S. exists sigma0, []. split3; auto using sigma0_wf. now rewrite subst_sconc.
  Qed.

  (* the variable-free patterns are exactly the images of concrete types *)
  Lemma closed_sconc p : svars p = [] -> nwild p = 0 -> exists t, p = sconc t.
  Proof.
    induction p as [i| |o args IH] using sty_ind'; cbn [svars nwild]; try discriminate.
    intros Ev Ew.
    assert (X : exists ts, args = map sconc ts).
    { induction IH as [|a args Ha _ IHargs]; [exists []; reflexivity|].
      cbn [flat_map map] in Ev, Ew. apply app_eq_nil in Ev. destruct Ev as [Ev1 Ev2].
      change (list_sum (nwild a :: map nwild args)) with (nwild a + list_sum (map nwild args)) in Ew.
      destruct Ha as [t ->]; auto; [lia|]. destruct IHargs as [ts ->]; auto; [lia|].
      exists (t :: ts). reflexivity. }
    destruct X as [ts ->]. exists (TOp o ts). reflexivity.
  Qed.

  Theorem Fits_closed x p : svars p = [] -> nwild p = 0 ->
    exists t, p = sconc t /\ (Fits H x p <-> Sub H x t).
  Proof.
    intros Ev Ew. destruct (closed_sconc p Ev Ew) as [t ->]. exists t. split; auto.
    apply Fits_concrete.
  Qed.
End Fits.

(* ---------- non-linear alternatives: the matcher over-approximates ---------- *)

(* two unrelated base types 5 and 6; the alternative (b -> b) mentions b twice;
   the argument (5 -> 6) passes the matcher although no instantiation of b makes
   it a subtype: that needs b <= 5 and 6 <= b, hence 6 <= 5. *)
Definition nlH : hier := mk_hier [] [].
Lemma nlH_wf : wf_hier nlH.
Proof.
  split.
  - intros o p. cbn. discriminate.
  - intros o p. cbn. discriminate.
  - split; reflexivity.
  - split; reflexivity.
  - reflexivity.
Qed.
Definition nl_alt : sty := SOp Function [SVar 0; SVar 0].
Definition nl_x : ty := TOp Function [TOp 5 []; TOp 6 []].

Theorem nonlinear_overapprox :
  wf_hier nlH /\ wf_ty nlH nl_x /\ wf_sty nlH nl_alt /\ ~ linear nl_alt /\
  fitsb nlH nl_x nl_alt = true /\ ~ Fits nlH nl_x nl_alt.
Proof.
  split; [exact nlH_wf|]. split; [apply wf_tyb_spec; reflexivity|].
  split; [apply wf_styb_spec; reflexivity|].
  split; [intros L; apply linearb_spec in L; discriminate|].
  split; [vm_compute; reflexivity|].
  intros (sigma & omega & Ws & _ & S). cbn in S.
  inversion S as [| | |o xs ys Vo AR]; subst.
  change (variance nlH Function) with [false; true] in AR.
  inversion AR as [| |vs x y xs' ys' S1 AR']; subst.
  inversion AR' as [|vs x y xs' ys' S2 AR''|]; subst.
  assert (S3 : Sub nlH (TOp 6 []) (TOp 5 [])) by (eapply (Sub_trans nlH nlH_wf); eauto).
  apply (match3_exact nlH nlH_wf) in S3; try (apply wf_tyb_spec; reflexivity).
  vm_compute in S3. discriminate.
Qed.
