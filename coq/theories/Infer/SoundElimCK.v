(* C03 (concrete alternatives), part K: the constraint invariant.
   Generalises [Kp] of Infer/SoundElimK.v (base alternatives) to constraints
   whose targets / alternatives are concrete types of any shape, where the
   reference of a pending constraint may be PARTIALLY resolved (x := F(y)).

   [cstC D s pend c k], the state of constraint number c (object k):
     shape   the alternatives are [map inj l] with l among the DECLARED ones
             [nth c (fst D) []], all well-formed; a subtype constraint has one
             target and its reference is the one it was created with
             ([nth c (snd D) (V 0)]: subtype constraints are never rewritten);
     (A)     not fulfilled: c is ATTACHED to the constraint set of EVERY
             unbound variable reachable from the reference through bindings
             and parameters ([reach]);
     (G)     reference fully resolved ([grd], value T well-formed): [okg]:
             subtype: fulfilled;  elimination: fulfilled, or the alternatives
             are non-empty and T is a subtype of every one of them
             - or c is not fulfilled and in [pend] (waiting for its re-check in
             an enclosing round).
   Preserved by the whole engine: one induction on fuel over unify (with and
   without skip_basic) / bind / above / below / fix_ty / check_constraints /
   fulfill in the program logic [ok] of Infer/Inv.v. *)
From Coq Require Import List Arith Bool Lia Permutation.
Import ListNotations.
From TF Require Import Base.Hier Base.Ty Sub.SubSpec Infer.Store Infer.Engine Infer.Run
  Infer.Witness Infer.Check Infer.Sched Infer.Inv Infer.Sound Infer.SchedIndep Infer.SoundSub
  Infer.Fits Infer.ConcMatch Infer.SoundElimCS.
From TF Require Infer.Lub Infer.FitsEngineList Infer.FitsEnginePat.

Unset Implicit Arguments.

(* ================================================================== *)
(* unbound variables reachable from a term                              *)
(* ================================================================== *)
Inductive reach (s : store) : tyv -> nat -> Prop :=
| re_unb v : c_bound (cell_of s v) = None -> reach s (V v) v
| re_bnd v t u : c_bound (cell_of s v) = Some t -> reach s t u -> reach s (V v) u
| re_arg o args x u : In x args -> reach s x u -> reach s (O o args) u.

Lemma reach_bound_eq s s' : (forall v, c_bound (cell_of s' v) = c_bound (cell_of s v)) ->
  forall t u, reach s t u -> reach s' t u.
Proof.
  intros E t u R. induction R as [v Hv|v t u Hv R IH|o args x u Hx R IH].
  - constructor. rewrite E. exact Hv.
  - econstructor; [rewrite E; exact Hv|exact IH].
  - econstructor; eauto.
Qed.

Lemma reach_unb s t u : reach s t u -> c_bound (cell_of s u) = None.
Proof. induction 1; auto. Qed.

Lemma reach_follow_f s u : forall fuel t, reach s (follow_f fuel s t) u <-> reach s t u.
Proof.
  induction fuel as [|f IH]; intros [v|o args]; cbn [follow_f]; try tauto.
  - destruct (c_bound (cell_of s v)); tauto.
  - destruct (c_bound (cell_of s v)) as [t'|] eqn:Hv; [|tauto]. rewrite IH. split.
    + intros R. econstructor; eauto.
    + intros R. inversion R as [v' Hv'|v' t'' u' Hv' R'|]; subst; [congruence|].
      rewrite Hv in Hv'. injection Hv' as <-. exact R'.
Qed.

Lemma reach_follow s t u : reach s (follow s t) u <-> reach s t u.
Proof. apply reach_follow_f. Qed.

Lemma reach_range s n t u : wsc s -> n = length (vars s) -> tsc n t -> reach s t u -> u < n.
Proof.
  intros Ws -> Ts R. induction R as [v Hv|v t u Hv R IH|o args x u Hx R IH].
  - inversion Ts; assumption.
  - apply IH. eapply sc_bound; eauto.
  - apply IH. apply tsc_args in Ts. rewrite Forall_forall in Ts. auto.
Qed.

(* binding the unbound variable v to t *)
Lemma reach_rebind s s2 v t :
  c_bound (cell_of s v) = None -> c_bound (cell_of s2 v) = Some t ->
  (forall y, y <> v -> c_bound (cell_of s2 y) = c_bound (cell_of s y)) ->
  forall r u, reach s2 r u -> (reach s r u /\ u <> v) \/ (reach s r v /\ reach s2 t u).
Proof.
  intros Hv Ht Ho r u R. induction R as [x Hx|x t' u Hx R IH|o args x u Hx R IH].
  - left. assert (Ne : x <> v) by (intros ->; congruence).
    split; [|exact Ne]. constructor. rewrite <- (Ho x Ne). exact Hx.
  - destruct (Nat.eq_dec x v) as [->|Ne].
    + right. rewrite Ht in Hx. injection Hx as <-. split; [constructor; exact Hv|exact R].
    + rewrite (Ho x Ne) in Hx. destruct IH as [(R0 & Nu)|(R0 & Rt)].
      * left. split; [econstructor; eauto|exact Nu].
      * right. split; [econstructor; eauto|exact Rt].
  - destruct IH as [(R0 & Nu)|(R0 & Rt)].
    + left. split; [econstructor; eauto|exact Nu].
    + right. split; [econstructor; eauto|exact Rt].
Qed.

Lemma grd_unbound s v T : c_bound (cell_of s v) = None -> ~ grd s (V v) T.
Proof. intros Hv G. inversion G; subst. congruence. Qed.

Lemma grd_rebind s s2 v t :
  c_bound (cell_of s v) = None -> c_bound (cell_of s2 v) = Some t ->
  (forall y, y <> v -> c_bound (cell_of s2 y) = c_bound (cell_of s y)) ->
  forall r T, grd s2 r T -> grd s r T \/ (reach s r v /\ exists T', grd s2 t T').
Proof.
  intros Hv Ht Ho r T G. induction G as [x t' T Hx G IH|o args Ts F IH] using grd_ind'.
  - destruct (Nat.eq_dec x v) as [->|Ne].
    + right. rewrite Ht in Hx. injection Hx as <-. split; [constructor; exact Hv|eauto].
    + rewrite (Ho x Ne) in Hx. destruct IH as [G0|(R0 & Gt)].
      * left. econstructor; eauto.
      * right. split; [econstructor; eauto|exact Gt].
  - assert (D : Forall2 (grd s) args Ts \/ exists x, In x args /\ reach s x v /\ exists T', grd s2 t T').
    { clear F. induction IH as [|x y l L [Gx|(Rx & Gt)] _ IHl].
      - left. constructor.
      - destruct IHl as [Fl|(x' & Hx' & Rx' & Gt')].
        + left. constructor; auto.
        + right. exists x'. split; [right; exact Hx'|auto].
      - right. exists x. split; [left; reflexivity|auto]. }
    destruct D as [Fl|(x & Hx & Rx & Gt)].
    + left. constructor. exact Fl.
    + right. split; [econstructor; eauto|exact Gt].
Qed.

Lemma In_insK x y l : In x (ins y l) <-> x = y \/ In x l.
Proof. apply In_ins. Qed.

(* vars_f collects every reachable unbound variable *)
Lemma vars_f_reach s : core s -> forall fuel t acc vs, vars_f fuel s t acc = Ok vs ->
  (forall x, In x acc -> In x vs) /\ (forall u, reach s t u -> In u vs).
Proof.
  intros C. induction fuel as [|f IH]; intros t acc vs E; [discriminate|].
  cbn [vars_f] in E. pose proof (follow_unbound_core t C) as Nb.
  assert (Rf : forall u, reach s t u -> reach s (follow s t) u) by (intros u; apply reach_follow).
  destruct (follow s t) as [v|o args].
  - inversion E; subst. split.
    + intros x Hx. apply In_ins. right. exact Hx.
    + intros u R. apply Rf in R. inversion R as [v' Hv'|v' t' u' Hv' R'|]; subst.
      * apply In_ins. left. reflexivity.
      * cbn [nb] in Nb. congruence.
  - assert (G : forall l acc0 vs0,
      (fix go (l : list tyv) (acc : list nat) : res (list nat) :=
         match l with
         | [] => Ok acc
         | t :: r => match vars_f f s t acc with Er e => Er e | Ok acc' => go r acc' end
         end) l acc0 = Ok vs0 ->
      (forall x, In x acc0 -> In x vs0) /\ (forall x u, In x l -> reach s x u -> In u vs0)).
    { induction l as [|a l IHl]; intros acc0 vs0 E0.
      - inversion E0; subst. split; [auto|intros x u []].
      - destruct (vars_f f s a acc0) as [acc'|e] eqn:Ea; [|discriminate].
        destruct (IH a acc0 acc' Ea) as (Ia & Ra). destruct (IHl acc' vs0 E0) as (Il & Rl).
        split; [intros x Hx; apply Il, Ia, Hx|].
        intros x u [<-|Hx] R; [apply Il, (Ra u R)|eapply Rl; eauto]. }
    destruct (G args acc vs E) as (Ia & Ra). split; [exact Ia|].
    intros u R. apply Rf in R. inversion R as [| |o' args' x u' Hx R']; subst. eapply Ra; eauto.
Qed.

(* closure_f collects every unbound variable reachable from the terms *)
Lemma closure_reach s : core s -> forall fuel todo seen vs, closure_f fuel s todo seen = Ok vs ->
  forall t u, In t todo -> reach s t u -> In u vs.
Proof.
  intros C. induction fuel as [|f IH]; intros todo seen vs E t u Ht R; [discriminate|].
  cbn [closure_f] in E. destruct todo as [|t0 rest]; [destruct Ht|].
  destruct (vars_f (S f) s t0 []) as [vs0|e] eqn:Ev; [|discriminate].
  destruct Ht as [<-|Ht].
  - destruct (vars_f_reach s C _ _ _ _ Ev) as (_ & Rv). specialize (Rv u R).
    apply (closure_mono s _ _ _ _ E). apply In_union.
    destruct (mem u seen) eqn:Em.
    + right. unfold mem in Em. apply existsb_exists in Em. destruct Em as (y & Hy & Ey).
      apply Nat.eqb_eq in Ey. subst y. exact Hy.
    + left. apply filter_In. split; [exact Rv|]. rewrite Em. reflexivity.
  - eapply IH; [exact E| |exact R]. apply in_or_app. right. exact Ht.
Qed.

(* the redirect loop of bind *)
Lemma forM_set_cs_keep iv w : forall vs s u s', forM vs (fun x => set_cs x iv) s = MOk u s' ->
  length (vars s') = length (vars s) /\ (c_cs (cell_of s w) = iv -> c_cs (cell_of s' w) = iv).
Proof.
  induction vs as [|x vs IH]; intros s u s' E; cbn [forM] in E.
  - inversion E; subst. auto.
  - unfold bindM at 1, set_cs at 1, upd_cell, modify in E.
    apply IH in E. destruct E as (L & K). split.
    + rewrite L. cbn. apply upd_length.
    + intros Ew. apply K.
      destruct (cell_of_set_cell s x (mkCell (c_wild (cell_of s x)) (c_bound (cell_of s x))
                 (c_lower (cell_of s x)) (c_upper (cell_of s x)) iv) w) as [(E0 & _)|E0]; rewrite E0; auto.
Qed.

Lemma forM_set_cs_all iv : forall vs s u s', forM vs (fun x => set_cs x iv) s = MOk u s' ->
  forall w, In w vs -> w < length (vars s) -> c_cs (cell_of s' w) = iv.
Proof.
  induction vs as [|x vs IH]; intros s u s' E w Hw Lw; [destruct Hw|].
  cbn [forM] in E. unfold bindM at 1, set_cs at 1, upd_cell, modify in E.
  match type of E with forM _ _ ?sx = _ => set (s1 := sx) in * end.
  destruct Hw as [<-|Hw].
  - apply (forM_set_cs_keep iv x vs s1 u s' E). unfold s1. rewrite cell_of_set_cell_same by exact Lw. reflexivity.
  - apply (IH s1 u s' E w Hw). unfold s1. cbn. rewrite upd_length. exact Lw.
Qed.

Lemma ok_conj {A} s0 (m : M A) (Q Q' : A -> store -> Prop) s :
  ok true s0 m Q s -> ok true s0 m Q' s -> ok true s0 m (fun a s' => Q a s' /\ Q' a s') s.
Proof. unfold ok. destruct (m s); tauto. Qed.

Section KC.
Variable H : hier.
Hypothesis W : wf_hier H.
Local Notation inv := (invb true).
Implicit Types pend : nat -> Prop.

(* the ghost context: the declared alternatives and the reference each
   constraint was created with, in creation order *)
Definition dctx : Type := (list (list ty) * list tyv)%type.
Definition dsnoc (D : dctx) (dk : list ty) (r : tyv) : dctx := (fst D ++ [dk], snd D ++ [r]).

Definition shpK (D : dctx) (c : nat) (k : constr) : Prop :=
  exists l, k_alts k = map inj l /\ incl l (nth c (fst D) []) /\ Forall (wf_ty H) l /\
    (k_elim k = false -> length l = 1 /\ k_ref k = nth c (snd D) (V 0)).

(* the fully resolved reference (value T) fits *)
Definition okg (k : constr) (T : ty) : Prop :=
  if k_elim k then k_done k = true \/ (k_alts k <> [] /\ forall B, In (inj B) (k_alts k) -> Sub H T B)
  else k_done k = true.

Definition cstC (D : dctx) (s : store) pend (c : nat) (k : constr) : Prop :=
  shpK D c k /\
  (k_done k = false -> forall u, reach s (k_ref k) u -> In c (cset_of s (c_cs (cell_of s u)))) /\
  (forall T, grd s (k_ref k) T -> wf_ty H T -> okg k T \/ (k_done k = false /\ pend c)).

Definition Kc (D : dctx) pend (s : store) : Prop :=
  forall c, c < length (constrs s) -> cstC D s pend c (constr_of s c).

Definition none : nat -> Prop := fun _ => False.
Definition minus pend (c : nat) : nat -> Prop := fun x => pend x /\ x <> c.
Definition plus pend (l : list nat) : nat -> Prop := fun x => pend x \/ In x l.

Lemma okg_done k T : k_done k = true -> okg k T.
Proof. unfold okg. destruct (k_elim k); auto. Qed.

(* ---- transfer between stores that agree on what cstC reads ---- *)
Lemma cstC_transfer D s s' pend pend' c k :
  (forall y, c_bound (cell_of s' y) = c_bound (cell_of s y)) ->
  (forall u, reach s (k_ref k) u -> k_done k = false ->
     In c (cset_of s (c_cs (cell_of s u))) -> In c (cset_of s' (c_cs (cell_of s' u)))) ->
  (pend c -> pend' c) ->
  cstC D s pend c k -> cstC D s' pend' c k.
Proof.
  intros Eb Ec Ep (Sh & Ha & Hg). split; [exact Sh|split].
  - intros Ed u R. assert (R0 : reach s (k_ref k) u).
    { eapply reach_bound_eq; [|exact R]. intros v. symmetry. apply Eb. }
    apply Ec; auto.
  - intros T G WT. assert (G0 : grd s (k_ref k) T).
    { eapply grd_bound_eq; [|exact G]. intros v. symmetry. apply Eb. }
    destruct (Hg T G0 WT) as [Ok|(Ed & Hp)]; [left; exact Ok|right; auto].
Qed.

Lemma Kc_mono D pend pend' s : (forall c, pend c -> pend' c) -> Kc D pend s -> Kc D pend' s.
Proof.
  intros M Kk c Lc. eapply cstC_transfer; [| |apply M|apply Kk; exact Lc]; auto.
Qed.

(* a variable reachable from the reference of a constraint is in range *)
Lemma reach_ref_range s c u : inv s -> c < length (constrs s) ->
  reach s (k_ref (constr_of s c)) u -> u < length (vars s).
Proof.
  intros I Lc R0. eapply (reach_range s); [apply (proj2 I eq_refl)|reflexivity| |exact R0].
  pose proof (sc_constr (proj2 I eq_refl) Lc) as F. inversion F; assumption.
Qed.

Lemma Kc_eq D pend s s' : inv s ->
  (forall y, c_bound (cell_of s' y) = c_bound (cell_of s y)) ->
  length (constrs s') = length (constrs s) ->
  (forall c, c < length (constrs s) -> constr_of s' c = constr_of s c) ->
  (forall u, u < length (vars s) -> c_bound (cell_of s u) = None ->
     incl (cset_of s (c_cs (cell_of s u))) (cset_of s' (c_cs (cell_of s' u)))) ->
  Kc D pend s -> Kc D pend s'.
Proof.
  intros I Eb El Ek Ec Kk c Lc. rewrite El in Lc. rewrite (Ek c Lc).
  eapply cstC_transfer; [exact Eb| |intros X; exact X|apply Kk; exact Lc].
  intros u R0 _ Hin. apply Ec; [eapply reach_ref_range; eauto|apply (reach_unb _ _ _ R0)|exact Hin].
Qed.

(* ---- binding an unbound variable ---- *)
Lemma Kc_rebind D pend pend' s s2 v t : inv s -> Kc D pend s ->
  c_bound (cell_of s v) = None -> c_bound (cell_of s2 v) = Some t ->
  (forall y, y <> v -> c_bound (cell_of s2 y) = c_bound (cell_of s y)) ->
  length (constrs s2) = length (constrs s) ->
  (forall c, c < length (constrs s) -> constr_of s2 c = constr_of s c) ->
  (forall u, u < length (vars s) -> u <> v -> c_bound (cell_of s u) = None ->
     incl (cset_of s (c_cs (cell_of s u))) (cset_of s2 (c_cs (cell_of s2 u)))) ->
  (forall c, pend c -> pend' c) ->
  (forall u, reach s2 t u -> incl (cset_of s (c_cs (cell_of s v))) (cset_of s2 (c_cs (cell_of s2 u)))) ->
  ((exists T, grd s2 t T) -> forall c, In c (cset_of s (c_cs (cell_of s v))) -> pend' c) ->
  Kc D pend' s2.
Proof.
  intros I Kk Hv Ht Ho El Ek Ec Mp Ev Eg c Lc. rewrite El in Lc. rewrite (Ek c Lc).
  destruct (Kk c Lc) as (Sh & Ha & Hg). split; [exact Sh|split].
  - intros Ed u R2.
    destruct (reach_rebind s s2 v t Hv Ht Ho _ _ R2) as [(R0 & Nu)|(R0 & Rt)].
    + apply Ec; auto; [eapply reach_ref_range; eauto|apply (reach_unb _ _ _ R0)].
    + apply (Ev u Rt). apply Ha; auto.
  - intros T G2 WT.
    destruct (grd_rebind s s2 v t Hv Ht Ho _ _ G2) as [G0|(R0 & Gt)].
    + destruct (Hg T G0 WT) as [Ok|(Ed & Hp)]; [left; exact Ok|right; auto].
    + destruct (k_done (constr_of s c)) eqn:Ed; [left; apply okg_done; exact Ed|].
      right. split; [reflexivity|]. apply (Eg Gt). apply Ha; auto.
Qed.

Lemma Kc_set_cell D pend s v c' : inv s ->
  c_bound c' = c_bound (cell_of s v) -> c_cs c' = c_cs (cell_of s v) ->
  Kc D pend s -> Kc D pend (set_cell s v c').
Proof.
  intros I Gb Gc. apply Kc_eq; auto.
  - intros y. destruct (cell_of_set_cell s v c' y) as [(E & -> & L)|E]; rewrite E; auto.
  - intros u _ _. change (cset_of (set_cell s v c')) with (cset_of s).
    destruct (cell_of_set_cell s v c' u) as [(E & -> & L)|E]; rewrite E; [rewrite Gc|];
      apply incl_refl.
Qed.

Lemma Kc_set_cell_bound D pend s v c' : inv s ->
  c_bound c' = c_bound (cell_of s v) -> c_bound (cell_of s v) <> None ->
  Kc D pend s -> Kc D pend (set_cell s v c').
Proof.
  intros I Gb Nb. apply Kc_eq; auto.
  - intros y. destruct (cell_of_set_cell s v c' y) as [(E & -> & L)|E]; rewrite E; auto.
  - intros u _ Hu. change (cset_of (set_cell s v c')) with (cset_of s).
    rewrite cell_of_set_cell_other by (intros ->; congruence). apply incl_refl.
Qed.

(* removing a fulfilled constraint from a constraint set *)
Lemma Kc_remove D pend s i x : k_done (constr_of s x) = true -> Kc D pend s ->
  Kc D pend (set_cset s i (remove_nat x (cset_of s i))).
Proof.
  intros Dx Kk c Lc. change (constr_of (set_cset s i (remove_nat x (cset_of s i))) c) with (constr_of s c).
  eapply cstC_transfer; [| |intros X; exact X|apply Kk; exact Lc]; auto.
  intros u _ Ed Hin. change (cell_of (set_cset s i (remove_nat x (cset_of s i))) u) with (cell_of s u).
  destruct (cset_of_set_cset s i (remove_nat x (cset_of s i)) (c_cs (cell_of s u))) as [(E & Ej & _)|E]; rewrite E; [|exact Hin].
  apply In_remove_nat. split; [rewrite <- Ej; exact Hin|]. intros ->. congruence.
Qed.

Lemma Kc_sched D pend s r : Kc D pend s -> Kc D pend (mkStore (vars s) (csets s) (constrs s) r).
Proof.
  intros Kk c Lc. change (constr_of (mkStore (vars s) (csets s) (constrs s) r) c) with (constr_of s c).
  eapply cstC_transfer; [| |intros X; exact X|apply Kk; exact Lc]; auto.
Qed.


(* ================================================================== *)
(* the invariant is preserved by the engine                             *)
(* ================================================================== *)
Definition KQc (D : dctx) pend {A} : A -> store -> Prop := fun _ s => Kc D pend s.

#[local] Hint Resolve not_crash_EFuel not_crash_sub not_crash_ty not_crash_rec not_crash_cv
  not_crash_fun : core.

Ltac done_ret := apply ok_ret; unfold KQc; auto using ext_refl.
Ltac done_fail := apply ok_fail; auto using ext_refl.
Ltac useK X := eapply ok_conseq;
  [apply ok_use; [first [eassumption|apply ext_refl]|apply X; auto]
  |cbv beta; unfold KQc; intros ? ? ? ? (? & ?); auto].
#[local] Hint Extern 1 (forall o args, O _ [] = O o args -> _ -> args = []) =>
  (let E := fresh in intros ? ? E _; injection E as <- <-; reflexivity) : core.
#[local] Hint Extern 1 (forall o args, V _ = O o args -> _ -> args = []) =>
  (intros ? ? [=]) : core.
Ltac break_if := repeat match goal with |- context[if ?c then _ else _] => destruct c eqn:? end.

Definition spec_unifyK f := forall D pend skb a b0 s, inv s -> Kc D pend s -> sct true s a -> sct true s b0 ->
  ok true s (unify H f true skb false a b0) (KQc D pend) s.
(* in subtype mode a base operator is only ever bound without parameters *)
Definition spec_bindK f := forall D pend v t s, inv s -> Kc D pend s ->
  c_bound (cell_of s v) = None -> nb s t -> scv true s v -> sct true s t -> noccb true s v t ->
  (forall o args, t = O o args -> basic H o = true -> args = []) ->
  ok true s (bind H f v t) (KQc D pend) s.
Definition spec_aboveK f := forall D pend v new s, inv s -> Kc D pend s ->
  (new = Top -> c_bound (cell_of s v) = None) -> scv true s v -> ok true s (above H f v new) (KQc D pend) s.
Definition spec_belowK f := forall D pend v new s, inv s -> Kc D pend s ->
  (new = Bottom -> c_bound (cell_of s v) = None) -> scv true s v -> ok true s (below H f v new) (KQc D pend) s.
Definition spec_fixK f := forall D pend pl t s, inv s -> Kc D pend s -> sct true s t ->
  ok true s (fix_ty H f pl t) (fun r s' => Kc D pend s' /\ nb s' r /\ sct true s' r) s.
Definition spec_ccK f := forall D pend v s, inv s ->
  Kc D (plus pend (cset_of s (c_cs (cell_of s v)))) s ->
  ok true s (check_constraints H f v) (KQc D pend) s.
Definition spec_fulfillK f := forall D pend c s, inv s -> Kc D pend s -> c < length (constrs s) ->
  ok true s (fulfill H f c)
     (fun b s' => Kc D (minus pend c) s' /\ (b = true -> k_done (constr_of s' c) = true)) s.

Definition specsK f :=
  spec_unifyK f /\ spec_bindK f /\ spec_aboveK f /\ spec_belowK f /\ spec_fixK f /\
  spec_ccK f /\ spec_fulfillK f.

Lemma specsK_0 : specsK 0.
Proof.
  unfold specsK, spec_unifyK, spec_bindK, spec_aboveK, spec_belowK, spec_fixK, spec_ccK, spec_fulfillK.
  repeat apply conj; intros; apply ok_fail; auto using ext_refl.
Qed.

Lemma Kc_plus D pend l s : Kc D pend s -> Kc D (plus pend l) s.
Proof. apply Kc_mono. intros c Hc. left. exact Hc. Qed.

(* ---- fix_ty ---- *)
Lemma fixK_step f : spec_bindK f -> spec_fixK f -> spec_fixK (S f).
Proof.
  intros B Fx D pend pl t s I Kk St. rewrite fix_ty_S. apply ok_gets.
  pose proof (follow_unbound t I) as N. pose proof (follow_sct I St) as Sa.
  destruct (follow s t) as [v|o args] eqn:Ef.
  - eapply ok_bind with (Q1 := KQc D pend).
    + apply ok_gets. destruct pl.
      * destruct (c_lower (cell_of s v)); [apply B; cbn; auto using sct_V, sct_O0, noccb_O0|done_ret].
      * destruct (c_upper (cell_of s v)); [apply B; cbn; auto using sct_V, sct_O0, noccb_O0|done_ret].
    + intros u s1 I1 E1 K1. apply ok_gets_end; auto. split; [exact K1|split].
      * apply (follow_unbound _ I1).
      * apply follow_sct; auto. eapply sct_ext; eauto.
  - eapply ok_bind with (Q1 := KQc D pend).
    + apply sct_args in Sa. clear Ef N St.
      assert (G : forall vs s1, inv s1 -> Kc D pend s1 -> ext s s1 ->
                ok true s1 ((fix go (vs : list bool) (ps : list tyv) : M unit :=
                   match vs, ps with
                   | v :: vs', p :: ps' =>
                       Engine.fix_ty H f (if v then pl else negb pl) p ;;; go vs' ps'
                   | _, _ => ret tt
                   end) vs args) (KQc D pend) s1); [|apply G; auto using ext_refl].
      induction args as [|p ps IHp]; intros vs s1 I1 K1 E1; destruct vs as [|b' vs]; try done_ret.
      inversion Sa; subst.
      eapply ok_bind with (Q1 := KQc D pend).
      { eapply ok_conseq; [apply (Fx D pend); auto; eapply sct_ext; eauto|].
        cbv beta. unfold KQc. intros ? ? ? ? (? & ?). auto. }
      intros r s2 I2 E2 K2.
      useK IHp. eapply ext_trans; eauto.
    + intros u s1 I1 E1 K1. apply ok_gets_end; auto. split; [exact K1|split; [exact Logic.I|]].
      apply follow_sct; auto. eapply sct_ext; eauto.
Qed.

(* ---- above / below ---- *)
Lemma aboveK_step f : spec_unifyK f -> spec_bindK f -> spec_ccK f -> spec_aboveK (S f).
Proof.
  intros U B CC D pend v new s I Kk P Sv. rewrite above_S. destruct (Nat.eqb new Top) eqn:Et.
  - apply Nat.eqb_eq in Et. apply B; cbn; auto using sct_O0, noccb_O0.
  - apply Nat.eqb_neq in Et. unfold set_wild.
    apply ok_upd_cell; auto using ext_refl; cbn [c_lower c_upper]; try apply (inv_lo I); try apply (inv_up I).
    intros s1 Es1 I1 E1 _.
    assert (K1 : Kc D pend s1) by (subst s1; apply Kc_set_cell; auto).
    apply ok_gets.
    destruct (c_bound (cell_of s1 v)) as [t|] eqn:Eb; [useK (U D pend false); eauto using sct_O0, sct_of_bound|].
    assert (SL : ok true s (set_lower v (Some new);;; Engine.check_constraints H f v) (KQc D pend) s1).
    { unfold set_lower. apply ok_upd_cell; auto; cbn [c_lower c_upper]; try apply (inv_up I1); try congruence.
      intros s2 Es2 I2 E2 _. useK (CC D pend). apply Kc_plus. subst s2. apply Kc_set_cell; auto. }
    eapply ok_bind with (Q1 := KQc D pend).
    + destruct (c_upper (cell_of s1 v)), (c_lower (cell_of s1 v)); break_if;
        try exact SL; try done_ret; try done_fail.
    + intros u s2 I2 E2 K2. apply ok_gets.
      destruct (c_bound (cell_of s2 v)) eqn:Eb2; try done_ret.
      destruct (c_lower (cell_of s2 v)); try done_ret.
      destruct (c_upper (cell_of s2 v)); try done_ret.
      break_if; try done_ret. useK (B D pend); cbn; eauto using sct_O0, scv_ext, noccb_O0.
Qed.

Lemma belowK_step f : spec_unifyK f -> spec_bindK f -> spec_ccK f -> spec_belowK (S f).
Proof.
  intros U B CC D pend v new s I Kk P Sv. rewrite below_S. destruct (Nat.eqb new Bottom) eqn:Et.
  - apply Nat.eqb_eq in Et. apply B; cbn; auto using sct_O0, noccb_O0.
  - apply Nat.eqb_neq in Et. unfold set_wild.
    apply ok_upd_cell; auto using ext_refl; cbn [c_lower c_upper]; try apply (inv_lo I); try apply (inv_up I).
    intros s1 Es1 I1 E1 _.
    assert (K1 : Kc D pend s1) by (subst s1; apply Kc_set_cell; auto).
    apply ok_gets.
    destruct (c_bound (cell_of s1 v)) as [t|] eqn:Eb; [useK (U D pend false); eauto using sct_O0, sct_of_bound|].
    assert (SL : ok true s (set_upper v (Some new);;; Engine.check_constraints H f v) (KQc D pend) s1).
    { unfold set_upper. apply ok_upd_cell; auto; cbn [c_lower c_upper]; try apply (inv_lo I1); try congruence.
      intros s2 Es2 I2 E2 _. useK (CC D pend). apply Kc_plus. subst s2. apply Kc_set_cell; auto. }
    eapply ok_bind with (Q1 := KQc D pend).
    + destruct (c_upper (cell_of s1 v)), (c_lower (cell_of s1 v)); break_if;
        try exact SL; try done_ret; try done_fail.
    + intros u s2 I2 E2 K2. apply ok_gets.
      destruct (c_bound (cell_of s2 v)) eqn:Eb2; try done_ret.
      destruct (c_upper (cell_of s2 v)); try done_ret.
      destruct (c_lower (cell_of s2 v)); try done_ret.
      break_if; try done_ret. useK (B D pend); cbn; eauto using sct_O0, scv_ext, noccb_O0.
Qed.


Lemma ccK_use f D pend v s0 s : spec_ccK f -> inv s -> ext s0 s ->
  Kc D (plus pend (cset_of s (c_cs (cell_of s v)))) s ->
  ok true s0 (check_constraints H f v) (KQc D pend) s.
Proof.
  intros CC I E Kk. eapply ok_conseq; [apply ok_use; [exact E|apply (CC D pend); auto]|].
  cbv beta. unfold KQc. intros ? ? ? ? (? & ?). auto.
Qed.
(* ---- bind ---- *)
Lemma bindK_step f : spec_aboveK f -> spec_belowK f -> spec_ccK f -> spec_bindK (S f).
Proof.
  intros Ab Be CC D pend v t s I Kk Hv Nt Sv St No Ba. rewrite bind_S. apply ok_gets. rewrite Hv.
  unfold set_wild at 1.
  apply ok_upd_cell; auto using ext_refl; cbn [c_lower c_upper]; try apply (inv_lo I); try apply (inv_up I).
  intros s1 Es1 I1 E1 _.
  assert (K1 : Kc D pend s1) by (subst s1; apply Kc_set_cell; auto).
  assert (B1 : forall w, c_bound (cell_of s1 w) = c_bound (cell_of s w)).
  { subst s1. apply bound_set_cell_same. reflexivity. }
  assert (Hv1 : c_bound (cell_of s1 v) = None) by (rewrite B1; exact Hv).
  assert (Nt1 : nb s1 t) by (eapply nb_bound_eq; [exact B1|exact Nt]).
  assert (Sv1 : scv true s1 v) by (eapply scv_ext; eauto).
  assert (St1 : sct true s1 t) by (eapply sct_ext; eauto).
  assert (No1 : t <> V v -> nocc s1 v t).
  { intros Ne. destruct (No eq_refl) as [->|N]; [congruence|].
    eapply nocc_bound_eq; [exact B1|exact N]. }
  assert (Lv1 : v < length (vars s1)) by (apply Sv1; reflexivity).
  clear Es1.
  assert (SB : forall wld, let s2 := set_cell s1 v (mkCell wld (Some t) (c_lower (cell_of s1 v))
                                  (c_upper (cell_of s1 v)) (c_cs (cell_of s1 v))) in
               t <> V v -> inv s2 /\ ext s1 s2).
  { intros wld s2 Ne. split.
    - apply inv_set_cell; auto; cbn [c_lower c_upper c_bound c_cs]; try apply (inv_lo I1); try apply (inv_up I1).
      + right. split; auto. exists t. split; [reflexivity|split; [exact Nt1|split; [exact Ne|auto]]].
      + intros t' Ht'. inversion Ht'; subst. exact St1.
      + intros Bt L. apply (sc_cs (proj2 I1 Bt)). exact L.
    - apply ext_set_cell. intros t'. rewrite Hv1. discriminate. }
  assert (C2 : forall wld, let s2 := set_cell s1 v (mkCell wld (Some t) (c_lower (cell_of s1 v))
                                  (c_upper (cell_of s1 v)) (c_cs (cell_of s1 v))) in
               c_bound (cell_of s2 v) = Some t /\ c_cs (cell_of s2 v) = c_cs (cell_of s1 v) /\
               forall y, y <> v -> cell_of s2 y = cell_of s1 y).
  { intros wld s2. unfold s2. rewrite cell_of_set_cell_same by exact Lv1. cbn [c_bound c_cs].
    split; [reflexivity|split; [reflexivity|]]. intros y Ny. apply cell_of_set_cell_other. exact Ny. }
  destruct t as [w|o args].
  - destruct (Nat.eqb v w) eqn:Evw; [done_ret|]. apply Nat.eqb_neq in Evw.
    unfold set_bound, upd_cell. apply ok_modify.
    match goal with |- ok _ _ _ _ ?s' => set (s2 := s') end.
    destruct (SB (c_wild (cell_of s1 v))) as (I2 & E12); [congruence|]. fold s2 in I2, E12.
    destruct (C2 (c_wild (cell_of s1 v))) as (Cb2 & Cc2 & Co2). fold s2 in Cb2, Cc2, Co2.
    assert (E2 : ext s s2) by (eapply ext_trans; eauto).
    assert (Lw1 : w < length (vars s1)) by (apply (sct_V St1); reflexivity).
    assert (Ek2 : constrs s2 = constrs s1) by reflexivity.
    assert (Ec2 : forall j, cset_of s2 j = cset_of s1 j) by reflexivity.
    assert (Lc2 : length (csets s2) = length (csets s1)) by reflexivity.
    clearbody s2.
    apply ok_modify.
    match goal with |- ok _ _ _ _ ?s' => set (s3 := s') end.
    assert (I3 : inv s3).
    { apply inv_set_cset; auto. apply Forall_union; apply (inv_cs_Forall _ I2). }
    assert (E3 : ext s s3) by (eapply ext_trans; [exact E2|apply ext_set_cset]).
    assert (Liw : c_cs (cell_of s1 w) < length (csets s1)) by (apply (sc_cs (proj2 I1 eq_refl)); exact Lw1).
    assert (K3 : Kc D pend s3).
    { assert (Hw3 : c_bound (cell_of s3 w) = None).
      { change (cell_of s3 w) with (cell_of s2 w). rewrite Co2 by congruence. exact Nt1. }
      apply (Kc_rebind D pend pend s1 s3 v (V w) I1 K1 Hv1 Cb2).
      - intros y Ny. change (cell_of s3 y) with (cell_of s2 y). rewrite (Co2 y Ny). reflexivity.
      - change (constrs s3) with (constrs s2). rewrite Ek2. reflexivity.
      - intros c _. change (constr_of s3 c) with (constr_of s2 c). unfold constr_of. rewrite Ek2. reflexivity.
      - intros u _ Nu _. change (cell_of s3 u) with (cell_of s2 u). rewrite (Co2 u Nu).
        rewrite <- Ec2. unfold s3. apply cset_set_cset_incl. intros x Hx. apply In_union. right. exact Hx.
      - auto.
      - intros u Ru. inversion Ru as [w' Hw'|w' t' u' Hw' Ru'|]; subst; [|congruence].
        change (cell_of s3 u) with (cell_of s2 u). rewrite Co2 by congruence.
        unfold s3. rewrite Cc2. rewrite (Co2 u) by congruence.
        rewrite cset_set_cset_same by (rewrite Lc2; exact Liw).
        rewrite !Ec2. intros x Hx. apply In_union. left. exact Hx.
      - intros (T & G). exfalso. eapply grd_unbound; eauto. }
    assert (Cb3 : forall y, cell_of s3 y = cell_of s2 y) by reflexivity.
    clearbody s3.
    assert (Sw3 : scv true s3 w) by (apply sct_V; eapply sct_ext; eauto).
    apply ok_gets.
    apply ok_set_cs'; auto. { apply (sc_cs (proj2 I3 eq_refl)). apply Sw3. reflexivity. }
    intros s4 Es4 I4 E4 _. unfold set_wild.
    assert (K4 : Kc D pend s4).
    { subst s4. apply Kc_set_cell_bound; auto. rewrite Cb3, Cb2. discriminate. }
    apply ok_upd_cell; auto; cbn [c_lower c_upper]; try apply (inv_lo I4); try apply (inv_up I4).
    intros s5 Es5 I5 E5 _.
    assert (K5 : Kc D pend s5) by (subst s5; apply Kc_set_cell; auto).
    assert (Sw5 : scv true s5 w) by (apply sct_V; eapply sct_ext; eauto).
    eapply ok_bind with (Q1 := KQc D pend).
    { destruct (c_lower (cell_of s v)) as [l|] eqn:El; [|done_ret].
      useK (Ab D pend). intros ->. exfalso. eapply (inv_lo I); eauto. }
    intros u s6 I6 E6 K6.
    eapply ok_bind with (Q1 := KQc D pend).
    { destruct (c_upper (cell_of s v)) as [l|] eqn:El; [|done_ret].
      useK (Be D pend). intros ->. exfalso. eapply (inv_up I); eauto.
      apply sct_V; eapply sct_ext; eauto. }
    intros u' s7 I7 E7 K7. apply ccK_use; auto. apply Kc_plus. exact K7.
  - unfold set_bound, upd_cell. apply ok_modify.
    match goal with |- ok _ _ _ _ ?s' => set (s2 := s') end.
    destruct (SB (c_wild (cell_of s1 v))) as (I2 & E12); [discriminate|]. fold s2 in I2, E12.
    destruct (C2 (c_wild (cell_of s1 v))) as (Cb2 & Cc2 & Co2). fold s2 in Cb2, Cc2, Co2.
    assert (E2 : ext s s2) by (eapply ext_trans; eauto).
    assert (Ek2 : constrs s2 = constrs s1) by reflexivity.
    assert (Ec2 : forall j, cset_of s2 j = cset_of s1 j) by reflexivity.
    assert (Lc2 : length (csets s2) = length (csets s1)) by reflexivity.
    assert (Lv2 : length (vars s2) = length (vars s1)) by (unfold s2; cbn; apply upd_length).
    clearbody s2.
    eapply ok_bind with (Q1 := fun _ s3 => Kc D (plus pend (cset_of s3 (c_cs (cell_of s3 v)))) s3);
      [|intros u s3 I3 E3 K3; apply ccK_use; auto].
    destruct (Engine.basic H o) eqn:Eb.
    + assert (K2 : Kc D (plus pend (cset_of s2 (c_cs (cell_of s2 v)))) s2).
      { assert (Ea : args = []) by (apply (Ba o args eq_refl Eb)). subst args.
        apply (Kc_rebind D pend _ s1 s2 v (O o []) I1 K1 Hv1 Cb2).
        - intros y Ny. rewrite (Co2 y Ny). reflexivity.
        - rewrite Ek2. reflexivity.
        - intros c _. unfold constr_of. rewrite Ek2. reflexivity.
        - intros u _ Nu _. rewrite (Co2 u Nu). rewrite Ec2. apply incl_refl.
        - intros c Hc. left. exact Hc.
        - intros u Ru. inversion Ru as [| |o' args' x u' Hx Rx]; subst. destruct Hx.
        - intros _ c Hc. right. rewrite Cc2, Ec2. exact Hc. }
      break_if; try done_fail; apply ok_ret; auto.
    + match goal with |- context[if ?c then _ else _] => destruct c end; [done_fail|].
      apply ok_lift; auto; [intros e; apply vars_f_err|]. intros vs Hvs.
      apply ok_modify.
      match goal with |- ok _ _ _ _ ?s' => set (s3 := s') end.
      assert (I3 : inv s3).
      { apply inv_set_cset; auto. apply Forall_fold_union with (g := fun w => cset_of s2 (c_cs (cell_of s2 w)));
          intros; apply (inv_cs_Forall _ I2). }
      assert (E3 : ext s s3) by (eapply ext_trans; [exact E2|apply ext_set_cset]).
      assert (Li : c_cs (cell_of s3 v) < length (csets s3)).
      { apply (sc_cs (proj2 I3 eq_refl)). eapply scv_ext; eauto. }
      set (iv := c_cs (cell_of s2 v)) in *.
      assert (Liv : iv < length (csets s2)).
      { apply (sc_cs (proj2 I2 eq_refl)). rewrite Lv2. exact Lv1. }
      assert (C3 : cset_of s3 iv = fold_right (fun w acc => union (cset_of s2 (c_cs (cell_of s2 w))) acc)
                                              (cset_of s2 iv) vs).
      { unfold s3. apply cset_set_cset_same. exact Liv. }
      assert (Mg : forall w, In w vs -> incl (cset_of s3 (c_cs (cell_of s3 w))) (cset_of s3 iv)).
      { intros w Hw. change (cell_of s3 w) with (cell_of s2 w). rewrite C3. intros x Hx.
        apply In_fold_union.
        destruct (cset_of_set_cset s2 iv
                    (fold_right (fun w acc => union (cset_of s2 (c_cs (cell_of s2 w))) acc) (cset_of s2 iv) vs)
                    (c_cs (cell_of s2 w))) as [(E0 & E1' & _)|E0]; unfold s3 in Hx; rewrite E0 in Hx.
        - apply In_fold_union in Hx. exact Hx.
        - right. exists w. auto. }
      assert (Cv3 : c_cs (cell_of s3 v) = iv) by reflexivity.
      assert (Inc3 : forall j, incl (cset_of s2 j) (cset_of s3 j)).
      { intros j. unfold s3. apply cset_set_cset_incl. intros x Hx. apply In_fold_union. left. exact Hx. }
      assert (B3 : forall y, c_bound (cell_of s3 y) = c_bound (cell_of s2 y)) by reflexivity.
      assert (K3c : constrs s3 = constrs s2) by reflexivity.
      assert (V3 : length (vars s3) = length (vars s2)) by reflexivity.
      assert (Cs3 : forall y, c_cs (cell_of s3 y) = c_cs (cell_of s2 y)) by reflexivity.
      clearbody s3.
      apply ok_gets. rewrite Cv3.
      eapply ok_conseq;
        [apply ok_and;
          [apply ok_forM with (J := fun s4 => ext s3 s4 /\ (forall j, cset_of s4 j = cset_of s3 j) /\
              (forall y, c_bound (cell_of s4 y) = c_bound (cell_of s3 y)) /\ constrs s4 = constrs s3 /\
              c_cs (cell_of s4 v) = iv /\
              (forall y, c_cs (cell_of s4 y) = c_cs (cell_of s3 y) \/ (c_cs (cell_of s4 y) = iv /\ In y vs)));
             auto using ext_refl
          |intros u s4 E4; exact (forM_set_cs_all iv vs s3 u s4 E4)]|].
      * split; [apply ext_refl|split; [reflexivity|split; [reflexivity|split; [reflexivity|split; [exact Cv3|auto]]]]].
      * intros w s4 Hw I4 E4 (E34 & C4 & B4 & K4 & Cv4 & Cy4).
        apply ok_set_cs_end'; auto.
        { pose proof (ext_csets E34). rewrite Cv3 in Li. lia. }
        intros s5 Es5 I5 E5 E45. split; [eapply ext_trans; eauto|]. subst s5.
        split; [|split; [|split; [|split]]].
        -- intros j. change (cset_of (set_cell s4 w (cs_cell s4 w iv)) j) with (cset_of s4 j). apply C4.
        -- intros y. rewrite <- B4. apply bound_set_cell_same. reflexivity.
        -- exact K4.
        -- destruct (cell_of_set_cell s4 w (cs_cell s4 w iv) v) as [(E0 & _)|E0]; rewrite E0; auto.
        -- intros y. destruct (cell_of_set_cell s4 w (cs_cell s4 w iv) y) as [(E0 & -> & _)|E0]; rewrite E0; auto.
      * cbv beta. intros _ s4 I4 E4 ((E34 & C4 & B4 & K4 & Cv4 & Cy4) & All4). rewrite Cv4.
        assert (Rvs : forall u, reach s4 (O o args) u -> In u vs /\ u < length (vars s3)).
        { intros u Ru.
          assert (Ru2 : reach s2 (O o args) u).
          { eapply reach_bound_eq; [|exact Ru]. intros y. rewrite B4, B3. reflexivity. }
          split; [apply (proj2 (vars_f_reach s2 (proj1 I2) _ _ _ _ Hvs) u Ru2)|].
          rewrite V3. eapply (reach_range s2); [apply (proj2 I2 eq_refl)|reflexivity| |exact Ru2].
          apply (sct_ext E12 St1). reflexivity. }
        apply (Kc_rebind D pend _ s1 s4 v (O o args) I1 K1 Hv1).
        -- rewrite B4, B3. exact Cb2.
        -- intros y Ny. rewrite B4, B3. rewrite (Co2 y Ny). reflexivity.
        -- rewrite K4, K3c, Ek2. reflexivity.
        -- intros c _. unfold constr_of. rewrite K4, K3c, Ek2. reflexivity.
        -- intros u _ Nu _. rewrite C4. destruct (Cy4 u) as [E0|(E0 & Hu)]; rewrite E0.
           ++ rewrite Cs3, (Co2 u Nu). rewrite <- Ec2. apply Inc3.
           ++ intros x Hx. apply (Mg u Hu). rewrite Cs3, (Co2 u Nu). apply Inc3. rewrite Ec2. exact Hx.
        -- intros c Hc. left. exact Hc.
        -- intros u Ru. destruct (Rvs u Ru) as (Hu & Lu). rewrite (All4 u Hu Lu), C4, C3.
           intros x Hx. apply In_fold_union. left. rewrite Cc2, Ec2. exact Hx.
        -- intros _ c Hc. right. rewrite C4, C3. apply In_fold_union. left. rewrite Cc2, Ec2. exact Hc.
Qed.

(* ================================================================== *)
(* allocation, new constraints, instance, apply, programs               *)
(* ================================================================== *)
Local Notation len s := (length (vars s)).
Local Notation tg := (Sound.tg H).
Local Notation JC := (SoundElimCS.JC H).
Local Notation lefC := (SoundElimCS.lefC H).
Local Notation goodC := (SoundElimCS.goodC H).

Lemma tg_tsc n : forall t, tg n t -> tsc n t.
Proof.
  induction t as [v|o args IH] using tyv_ind'; intros Ht; inversion Ht; subst; constructor; auto.
  rewrite Forall_forall in *. auto.
Qed.

Lemma tg_sct s t : tg (len s) t -> sct true s t.
Proof. intros Ht _. apply tg_tsc. exact Ht. Qed.

Lemma tgs_scts s l : Forall (tg (len s)) l -> Forall (sct true s) l.
Proof. apply Forall_impl. intros t. apply tg_sct. Qed.

Lemma Kc_alloc_var D pend s w : inv s -> Kc D pend s -> Kc D pend (snd (alloc_var s w)).
Proof.
  intros I. apply Kc_eq; auto.
  - intros y. apply alloc_var_bound.
  - intros u Lu _. rewrite alloc_var_cs_old by exact Lu. intros x Hx. rewrite alloc_var_cset. exact Hx.
Qed.

Lemma fresh_listK D pend n : forall s, inv s -> Kc D pend s ->
  ok true s (fresh_list n) (fun fr s1 => Kc D pend s1) s.
Proof.
  induction n as [|n IH]; intros s I Kk; cbn [fresh_list].
  - apply ok_ret; auto using ext_refl.
  - apply ok_fresh; auto using ext_refl. intros s1 Es1 I1 E1 _.
    assert (K1 : Kc D pend s1) by (subst s1; apply Kc_alloc_var; auto).
    eapply ok_bind; [apply ok_use; [exact E1|apply IH; auto]|].
    intros r s2 I2 E2 (K2 & E12). apply ok_ret; auto.
Qed.



(* ---- unify (subtype mode, with or without skip_basic) ---- *)
Lemma unifyK_step f :
  spec_unifyK f -> spec_bindK f -> spec_aboveK f -> spec_belowK f -> spec_unifyK (S f).
Proof.
  intros U B Ab Be D pend skb a0 b0 s I Kk Sa0 Sb0. rewrite unify_S. apply ok_gets. apply ok_gets.
  pose proof (follow_unbound a0 I) as Na. pose proof (follow_unbound b0 I) as Nb.
  pose proof (follow_sct I Sa0) as Sa. pose proof (follow_sct I Sb0) as Sb.
  destruct (follow s a0) as [va|oa xs]; destruct (follow s b0) as [vb|ob ys].
  - apply ok_gets. apply ok_gets. cbn [negb orb]. apply B; auto using sct_V, noccb_var.
  - destruct (Nat.eqb ob Top); [done_ret|].
    apply ok_lift; auto using ext_refl; [intros e; apply occurs_f_err|]. intros oc Hoc.
    destruct oc; [done_fail|].
    assert (No : noccb true s va (O ob ys)).
    { intros _. right. eapply occurs_false_nocc; eauto. apply I. }
    destruct (Engine.basic H ob) eqn:Eb.
    + apply ok_gets. cbn [andb]. rewrite orb_false_r. destruct skb; [done_ret|].
      apply Be; auto using sct_V; intros ->; exact Na.
    + cbn [orb]. destruct skb.
      * eapply ok_bind; [apply ok_conj; [apply fresh_list_spec; auto|apply (fresh_listK D pend); auto]|].
        intros fr s1 I1 E1 ((B1 & S1 & _ & F1) & K1).
        eapply ok_bind with (Q1 := KQc D pend).
        -- useK (B D pend); [rewrite B1; auto|apply sct_V; eapply sct_ext; eauto|apply sct_O; auto| |].
           ++ intros Bt. right. eapply nocc_fresh; eauto. apply (sct_V Sa Bt).
           ++ intros o' args' [= <- <-] Eb'. congruence.
        -- intros u s2 I2 E2 K2. useK (U D pend true); eapply sct_ext; eauto.
      * apply B; auto using sct_V. intros o' args' [= <- <-] Eb'. congruence.
  - destruct (Nat.eqb oa Bottom); [done_ret|].
    apply ok_lift; auto using ext_refl; [intros e; apply occurs_f_err|]. intros oc Hoc.
    destruct oc; [done_fail|].
    assert (No : noccb true s vb (O oa xs)).
    { intros _. right. eapply occurs_false_nocc; eauto. apply I. }
    destruct (Engine.basic H oa) eqn:Eb.
    + apply ok_gets. cbn [andb]. rewrite orb_false_r. destruct skb; [done_ret|].
      apply Ab; auto using sct_V; intros ->; exact Nb.
    + cbn [orb]. destruct skb.
      * eapply ok_bind; [apply ok_conj; [apply fresh_list_spec; auto|apply (fresh_listK D pend); auto]|].
        intros fr s1 I1 E1 ((B1 & S1 & _ & F1) & K1).
        eapply ok_bind with (Q1 := KQc D pend).
        -- useK (B D pend); [rewrite B1; auto|apply sct_V; eapply sct_ext; eauto|apply sct_O; auto| |].
           ++ intros Bt. right. eapply nocc_fresh; eauto. apply (sct_V Sb Bt).
           ++ intros o' args' [= <- <-] Eb'. congruence.
        -- intros u s2 I2 E2 K2. useK (U D pend true); eapply sct_ext; eauto.
      * apply B; auto using sct_V. intros o' args' [= <- <-] Eb'. congruence.
  - break_if; try done_ret; try done_fail.
    apply sct_args in Sa. apply sct_args in Sb.
    clear Na Nb Sa0 Sb0.
    assert (G : forall vs ys s1, inv s1 -> Kc D pend s1 -> ext s s1 -> Forall (sct true s) ys ->
              ok true s1 ((fix go (vs : list bool) (xs ys : list tyv) : M unit :=
                 match vs, xs, ys with
                 | v :: vs', x :: xs', y :: ys' =>
                     (if v then Engine.unify H f true skb false x y else Engine.unify H f true skb false y x) ;;;
                     go vs' xs' ys'
                 | _, _, _ => ret tt
                 end) vs xs ys) (KQc D pend) s1); [|apply G; auto using ext_refl].
    induction xs as [|x xs IHx]; intros vs ys' s1 I1 K1 E1 Sy; destruct vs as [|b' vs]; try done_ret;
      destruct ys' as [|y ys']; try done_ret.
    inversion Sa; subst. inversion Sy; subst.
    eapply ok_bind with (Q1 := KQc D pend).
    + destruct b'; apply U; auto; eapply sct_ext; eauto.
    + intros u s2 I2 E2 K2. useK IHx. eapply ext_trans; eauto.
Qed.

(* ---- check_constraints ---- *)
Lemma Kc_eqv D pend s s1 : vars s1 = vars s -> csets s1 = csets s -> constrs s1 = constrs s ->
  Kc D pend s -> Kc D pend s1.
Proof.
  intros Ev Ec Ek Kk c Lc. rewrite Ek in Lc.
  assert (Ecell : forall y, cell_of s1 y = cell_of s y) by (intros y; unfold cell_of; rewrite Ev; reflexivity).
  unfold constr_of at 1. rewrite Ek. fold (constr_of s c).
  eapply cstC_transfer; [| |intros X; exact X|apply Kk; exact Lc].
  - intros y. rewrite Ecell. reflexivity.
  - intros u _ _ Hin. rewrite Ecell. unfold cset_of. rewrite Ec. exact Hin.
Qed.

Lemma loopK f D pend v s0 : spec_fulfillK f -> forall l s, inv s -> ext s0 s ->
  Forall (fun c => c < length (constrs s)) l -> Kc D (plus pend l) s ->
  ok true s0 (forM l (fun c =>
      done <- fulfill H f c ;;
      if done then modify (fun s => let i := c_cs (cell_of s v) in set_cset s i (remove_nat c (cset_of s i)))
      else ret tt)) (KQc D pend) s.
Proof.
  intros F. induction l as [|x l IH]; intros s I E Fl Kk; cbn [forM].
  - apply ok_ret; auto. unfold KQc. eapply Kc_mono; [|exact Kk]. intros c [Hc|[]]. exact Hc.
  - inversion Fl as [|? ? Lx Fl']; subst.
    eapply ok_bind with (Q1 := fun _ s2 => Kc D (plus pend l) s2 /\ ext s s2).
    + eapply ok_bind.
      * apply ok_use; [exact E|apply (F D (plus pend (x :: l)) x s I Kk Lx)].
      * intros d s1 I1 E1 ((K1 & Dn) & E01).
        assert (K1' : Kc D (plus pend l) s1).
        { eapply Kc_mono; [|exact K1]. intros c ([Hc|[<-|Hc]] & Ne); [left; auto|congruence|right; auto]. }
        destruct d.
        -- apply ok_modify_end.
           ++ apply inv_set_cset; auto. apply Forall_remove_nat. apply (inv_cs_Forall _ I1).
           ++ eapply ext_trans; [exact E1|apply ext_set_cset].
           ++ split; [apply Kc_remove; auto|eapply ext_trans; [exact E01|apply ext_set_cset]].
        -- apply ok_ret; auto.
    + intros u s2 I2 E2 (K2 & E02). apply IH; auto.
      eapply Forall_impl; [|exact Fl']. intros c Lc. pose proof (ext_constrs E02). cbv beta in Lc. lia.
Qed.

Lemma ccK_step f : spec_fulfillK f -> spec_ccK (S f).
Proof.
  intros F D pend v s I Kk. rewrite check_constraints_S. apply ok_gets.
  set (pending := cset_of s (c_cs (cell_of s v))) in *.
  assert (FP : Forall (fun c => c < length (constrs s)) pending) by (apply (inv_cs_Forall _ I)).
  eapply ok_bind with (Q1 := fun order s1 => Forall (fun c => c < length (constrs s1)) order /\
                                             Kc D (plus pend order) s1).
  - destruct (2 <=? length pending) eqn:E2.
    + apply ok_next_choice; auto using ext_refl. intros r s1 I1 E1 _ Hv Hcs Hc.
      apply ok_ret; auto. split.
      * apply Forall_permute. rewrite Hc. exact FP.
      * apply (Kc_eqv D _ s s1 Hv Hcs Hc). eapply Kc_mono; [|exact Kk].
        intros c [Hp|Hin]; [left; exact Hp|right].
        eapply Permutation_in; [apply Permutation_sym; apply permute_perm; lia|exact Hin].
    + apply ok_ret; auto using ext_refl.
  - intros order s1 I1 E1 (FO & K1). apply loopK; auto.
Qed.
(* ---- fulfill ---- *)
Lemma Kc_upd D pend s c k' : Kc D pend s -> c < length (constrs s) ->
  cstC D (set_constr s c k') (minus pend c) c k' -> Kc D (minus pend c) (set_constr s c k').
Proof.
  intros Kk Lc Ck c' Lc'. unfold set_constr in Lc'. cbn [constrs] in Lc'. rewrite upd_length in Lc'.
  destruct (Nat.eq_dec c' c) as [->|Nc].
  - rewrite constr_of_set_constr_same by exact Lc. exact Ck.
  - assert (E : constr_of (set_constr s c k') c' = constr_of s c').
    { unfold constr_of, set_constr. cbn [constrs]. apply nth_upd_other. exact Nc. }
    rewrite E. eapply cstC_transfer; [| | |apply Kk; exact Lc']; auto.
    intros Hp. split; auto.
Qed.

Lemma Kc_minus_self D pend s c : Kc D pend s -> c < length (constrs s) ->
  cstC D s (minus pend c) c (constr_of s c) -> Kc D (minus pend c) s.
Proof.
  intros Kk Lc Ck c' Lc'. destruct (Nat.eq_dec c' c) as [->|Nc]; [exact Ck|].
  eapply cstC_transfer; [| | |apply Kk; exact Lc']; auto. intros Hp. split; auto.
Qed.

Lemma tsc_inj n : forall B, tsc n (inj B).
Proof.
  induction B as [o args IH] using ty_ind'. cbn [inj]. constructor.
  rewrite Forall_forall in *. intros x Hx. apply in_map_iff in Hx. destruct Hx as (y & <- & Hy). auto.
Qed.

Lemma sct_inj s B : sct true s (inj B).
Proof. intros _. apply tsc_inj. Qed.

Lemma chains_inv s : inv s -> forall v, chain s (V v).
Proof. intros I. apply (core_chain (proj1 I)). Qed.

Lemma chains_set_constr s c k : (forall v, chain s (V v)) -> forall v, chain (set_constr s c k) (V v).
Proof. intros Ch v. eapply chain_bound_eq; [|apply Ch]. intros w. reflexivity. Qed.

(* a fully resolved reference is never left undecided by match *)
Lemma ground_not_None s f sub aw r B T : inv s -> grd s r T -> wf_ty H T -> wf_ty H B ->
  match_f H f s sub aw r (inj B) = Ok None -> False.
Proof.
  intros I G WT WB E.
  destruct (match_ground H W s f sub aw r (inj B) T B None (chains_inv s I) G (grd_inj s B) WT WB E) as (bb & Eb & _).
  discriminate.
Qed.

Lemma fulfillK_step f : spec_unifyK f -> spec_fulfillK (S f).
Proof.
  intros U D pend c s I Kk Lc.
  destruct (Kk c Lc) as (Sh & Ha & Hg). destruct Sh as (l & Ea & Il & Wl & Hs).
  set (k := constr_of s c) in *.
  destruct (k_elim k) eqn:Ee.
  - (* elimination constraint *)
    eapply ok_conseq; [apply ok_and; [apply (@fulfill_ok H true (S f) c s I Lc)|]|].
    2:{ cbv beta. intros b s' _ _ (_ & X). exact X. }
    intros b s' E.
    destruct (k_done k) eqn:Ed.
    + rewrite FLc.fulfill_S' in E. unfold bindM at 1 in E. unfold gets at 1 in E. fold k in E. rewrite Ee, Ed in E.
      inversion E; subst. split; [|intros _; exact Ed].
      apply Kc_minus_self; auto. fold k. split; [|split].
      * exists l. split; [exact Ea|split; [exact Il|split; [exact Wl|intros X; rewrite Ee in X; discriminate]]].
      * intros X. rewrite Ed in X. discriminate.
      * intros T G WT. left. apply okg_done. exact Ed.
    + destruct (fulfill_elim_conc H f c s l b s' Ee Ed Ea Lc E) as (l1 & l2 & Il1 & Il2 & Hm & Cases).
      fold k in Hm, Cases. set (r0 := follow s (k_ref k)) in *.
      assert (Il2' : incl l2 (nth c (fst D) [])) by (intros x Hx; apply Il, Il1, Il2; exact Hx).
      assert (Wl2 : Forall (wf_ty H) l2).
      { apply incl_Forall with (l1 := l); [|exact Wl]. intros x Hx. apply Il1, Il2. exact Hx. }
      assert (Att : forall k', k_ref k' = r0 -> forall u, reach (set_constr s c k') (k_ref k') u ->
                In c (cset_of (set_constr s c k') (c_cs (cell_of (set_constr s c k') u)))).
      { intros k' Er u R. rewrite Er in R.
        change (In c (cset_of s (c_cs (cell_of s u)))). apply (Ha eq_refl).
        apply reach_follow. eapply reach_bound_eq; [|exact R]. intros v. reflexivity. }
      destruct Cases as [(m1 & m2 & rest & El2 & -> & ->)|(m & u & El2 & Eu & Eb)].
      * split; [|discriminate]. apply Kc_upd; auto. split; [|split].
        -- exists l2. cbn [set_altsC k_alts k_elim]. split; [reflexivity|split; [exact Il2'|split; [exact Wl2|discriminate]]].
        -- intros _ u R. apply (Att (set_altsC k r0 (map inj l2) false) eq_refl u R).
        -- intros T G WT. left. unfold okg. cbn [set_altsC k_elim k_done k_alts k_ref] in *. right. split.
           ++ rewrite El2. discriminate.
           ++ intros B HB. apply In_map_inj in HB. destruct (Hm B HB) as (x & Ex & Nx).
              set (s1 := set_constr s c (set_altsC k r0 (map inj l1) false)) in *.
              assert (G1 : grd s1 r0 T) by (eapply grd_bound_eq; [|exact G]; intros v; reflexivity).
              assert (WB : wf_ty H B) by (rewrite Forall_forall in Wl2; apply Wl2; exact HB).
              destruct (match_ground H W s1 f true true r0 (inj B) T B x
                          (chains_set_constr s c _ (chains_inv s I)) G1 (grd_inj s1 B) WT WB Ex) as (bb & -> & Sb).
              destruct bb; [apply Sb; reflexivity|congruence].
      * assert (Hm' : In m l2) by (rewrite El2; left; reflexivity).
        set (s3 := set_constr s c (set_altsC k r0 [inj m] true)) in *.
        assert (K3 : Kc D (minus pend c) s3).
        { apply Kc_upd; auto. split; [|split].
          - exists [m]. cbn [set_altsC k_alts k_elim map]. split; [reflexivity|split; [|split; [|discriminate]]].
            + intros x [<-|[]]. apply Il2'. exact Hm'.
            + constructor; [|constructor]. rewrite Forall_forall in Wl2. apply Wl2. exact Hm'.
          - cbn [set_altsC k_done]. discriminate.
          - intros T G WT. left. apply okg_done. reflexivity. }
        assert (Sr0 : sct true s r0).
        { unfold r0. apply follow_sct; auto.
          pose proof (scts_of_constr I Lc) as F. inversion F; assumption. }
        assert (I3 : inv s3).
        { apply inv_set_constr.
          - exact I.
          - cbn. discriminate.
          - unfold constr_terms. cbn [set_altsC k_ref k_alts].
            constructor; [exact Sr0|constructor; [apply sct_inj|constructor]]. }
        pose proof (U D (minus pend c) false r0 (inj m) s3 I3 K3 Sr0 (sct_inj s3 m)) as O3. unfold ok in O3.
        rewrite Eu in O3. destruct O3 as (I' & E' & K'). split; [exact K'|].
        intros X. rewrite <- Eb. exact X.
  - (* subtype constraint *)
    destruct (Hs eq_refl) as (Ln & Er).
    destruct l as [|B [|B2 l']]; try discriminate. clear Ln.
    inversion Wl as [|? ? WB _]; subst.
    rewrite FLc.fulfill_S'. apply ok_gets. fold k. rewrite Ee, Ea. cbn [map].
    assert (Sr : sct true s (k_ref k)).
    { pose proof (scts_of_constr I Lc) as F. inversion F; assumption. }
    eapply ok_bind with (Q1 := KQc D pend).
    { apply (U D pend true); auto. apply sct_inj. }
    intros u s1 I1 E1 K1. unfold KQc in K1.
    assert (Lc1 : c < length (constrs s1)) by (pose proof (ext_constrs E1); lia).
    destruct (K1 c Lc1) as (Sh1 & Ha1 & Hg1).
    assert (Ee1 : k_elim (constr_of s1 c) = false) by (rewrite (ext_elim E1 Lc); exact Ee).
    destruct Sh1 as (l1 & Ea1 & Il1 & Wl1 & Hs1). destruct (Hs1 Ee1) as (Ln1 & Er1).
    assert (Erk : k_ref (constr_of s1 c) = k_ref k) by congruence.
    (* the constraint keeps its state when match is undecided: its reference is not fully resolved *)
    assert (Keep : forall sub aw, match_f H f s1 sub aw (k_ref k) (inj B) = Ok None ->
              Kc D (minus pend c) s1).
    { intros sub aw En. apply Kc_minus_self; auto. split; [exists l1; auto|split; [exact Ha1|]].
      intros T G WT. exfalso. rewrite Erk in G.
      exact (ground_not_None s1 f sub aw (k_ref k) B T I1 G WT WB En). }
    apply ok_lift; auto; [intros e; apply match_f_err|]. intros r Er'.
    destruct r as [[|]|].
    + eapply ok_bind with (Q1 := fun same s2 => s2 = s1 /\
          (same = None -> match_f H f s1 false false (k_ref k) (inj B) = Ok None)).
      { destruct (k_strict k).
        - apply ok_lift_end; auto; [intros e; apply match_f_err|]. intros a Ea'. split; [reflexivity|]. intros ->. exact Ea'.
        - apply ok_ret; auto. split; [reflexivity|discriminate]. }
      intros same s2 I2 E2 (-> & Hsame).
      destruct same as [[|]|].
      * done_fail.
      * unfold upd_constr. apply ok_modify. set (k1 := constr_of s1 c) in *.
        assert (I3 : inv (set_constr s1 c (mkConstr false (k_ref k1) (k_alts k1) (k_strict k1) true))).
        { apply inv_set_constr; auto.
          - intros _. cbn [k_alts]. apply (inv_ar I1 Lc1 Ee1).
          - pose proof (scts_of_constr I1 Lc1) as F. exact F. }
        apply ok_ret; auto.
        { eapply ext_trans; [exact E2|apply ext_set_constr]. cbn [k_elim]. intros _. symmetry. exact Ee1. }
        split; [|intros _; rewrite constr_of_set_constr_same by exact Lc1; reflexivity].
        apply Kc_upd; auto. split; [|split].
        -- exists l1. cbn [k_alts k_elim k_ref]. auto.
        -- cbn [k_done]. discriminate.
        -- intros T G WT. left. apply okg_done. reflexivity.
      * apply ok_gets. apply ok_ret; auto. split; [|intros X; exact X].
        apply (Keep false false). apply Hsame. reflexivity.
    + done_fail.
    + apply ok_gets. apply ok_ret; auto. split; [|intros X; exact X].
      apply (Keep true false). exact Er'.
Qed.

Theorem specsK_all : forall f, specsK f.
Proof.
  induction f as [|f (U & B & Ab & Be & Fx & CC & Fu)]; [apply specsK_0|].
  unfold specsK. repeat apply conj.
  - apply unifyK_step; auto.
  - apply bindK_step; auto.
  - apply aboveK_step; auto.
  - apply belowK_step; auto.
  - apply fixK_step; auto.
  - apply ccK_step; auto.
  - apply fulfillK_step; auto.
Qed.

Lemma unifyK f : spec_unifyK f. Proof. apply specsK_all. Qed.
Lemma bindK f : spec_bindK f. Proof. apply specsK_all. Qed.
Lemma fixK f : spec_fixK f. Proof. apply specsK_all. Qed.
Lemma fulfillK f : spec_fulfillK f. Proof. apply specsK_all. Qed.


Lemma new_constraintK fuel D dk k s : inv s -> Kc D none s ->
  length (fst D) = length (constrs s) -> length (snd D) = length (constrs s) ->
  shpK (dsnoc D dk (k_ref k)) (length (constrs s)) k -> k_done k = false ->
  (k_elim k = false -> length (k_alts k) = 1) -> Forall (sct true s) (constr_terms k) ->
  ok true s (new_constraint H fuel k) (fun _ s' => Kc (dsnoc D dk (k_ref k)) none s') s.
Proof.
  intros I Kk LD LR Sh Dk Ar Sk. unfold new_constraint.
  apply ok_alloc_constr; auto using ext_refl. intros s1 Es1 I1 E1 _.
  set (c := length (constrs s)) in *.
  set (D' := dsnoc D dk (k_ref k)) in *.
  assert (Lc : c < length (constrs s1)) by (subst s1; rewrite alloc_constr_length; unfold c; lia).
  assert (N1 : length (constrs s1) = S c) by (subst s1; rewrite alloc_constr_length; reflexivity).
  assert (Ck1 : constr_of s1 c = k) by (subst s1; apply alloc_constr_new).
  assert (Old1 : forall c', c' < c -> constr_of s1 c' = constr_of s c') by (intros c' L; subst s1; apply alloc_constr_old; exact L).
  assert (Ev1 : vars s1 = vars s) by (subst s1; reflexivity).
  assert (Ec1 : csets s1 = csets s) by (subst s1; reflexivity).
  clear Es1.
  apply ok_lift; auto; [intros e; apply closure_f_err|]. intros vs Hvs.
  pose proof Hvs as Hvs0. apply closure_f_unbound in Hvs; auto; [|apply I1].
  eapply ok_bind with (Q1 := fun _ s2 =>
      ((forall w, c_bound (cell_of s2 w) = c_bound (cell_of s1 w)) /\ ext s1 s2) /\
      (vars s2 = vars s1 /\ constrs s2 = constrs s1 /\ (forall j, incl (cset_of s1 j) (cset_of s2 j)) /\
       forall v, In v vs -> c_cs (cell_of s1 v) < length (csets s1) -> In c (cset_of s2 (c_cs (cell_of s2 v))))).
  - match goal with |- ok _ _ (forM _ ?f) _ _ => change f with (inform c) end.
    apply ok_and; [|intros u s2 E2; exact (inform_facts c vs s1 u s2 E2)].
    unfold inform.
    apply ok_forM with (J := fun s2 => (forall w, c_bound (cell_of s2 w) = c_bound (cell_of s1 w)) /\ ext s1 s2);
      auto using ext_refl.
    intros v s2 Hv I2 E2 (B2 & E12). apply ok_gets.
    rewrite B2. rewrite Forall_forall in Hvs. rewrite (Hvs v Hv).
    apply ok_modify_end.
    + apply inv_set_cset; auto. apply Forall_ins; [|apply (inv_cs_Forall _ I2)].
      pose proof (ext_constrs E12). lia.
    + eapply ext_trans; [exact E2|apply ext_set_cset].
    + split; [exact B2|]. eapply ext_trans; [exact E12|apply ext_set_cset].
  - intros u s2 I2 E2 ((B2 & E12) & (Ev2 & Ek2 & Ec2 & Hin)).
    assert (Lc2 : c < length (constrs s2)) by (rewrite Ek2; exact Lc).
    assert (Ecell : forall y, cell_of s2 y = cell_of s y).
    { intros y. unfold cell_of. rewrite Ev2, Ev1. reflexivity. }
    assert (K2 : Kc D' (fun x => x = c) s2).
    { intros c' Lc'. rewrite Ek2, N1 in Lc'. unfold constr_of at 1. rewrite Ek2. fold (constr_of s1 c').
      destruct (Nat.eq_dec c' c) as [->|Nc].
      - rewrite Ck1. split; [exact Sh|split].
        + intros _ x R.
          assert (R1 : reach s1 (k_ref k) x).
          { eapply reach_bound_eq; [|exact R]. intros y. symmetry. apply B2. }
          apply Hin.
          * apply (closure_reach s1 (proj1 I1) _ _ _ _ Hvs0 (k_ref k)); [left; reflexivity|exact R1].
          * assert (Lx : x < length (vars s)).
            { eapply (reach_range s); [apply (proj2 I eq_refl)|reflexivity| |].
              - apply (Forall_inv Sk). reflexivity.
              - eapply reach_bound_eq; [|exact R1]. intros y. unfold cell_of. rewrite Ev1. reflexivity. }
            unfold cell_of, cset_of. rewrite Ev1, Ec1. apply (sc_cs (proj2 I eq_refl)). exact Lx.
        + intros T G WT. right. split; [exact Dk|reflexivity].
      - assert (L : c' < c) by lia. rewrite (Old1 c' L).
        destruct (Kk c' L) as (Sh' & Ha' & Hg'). split; [|split].
        + destruct Sh' as (l & Ea & Il & Wl & Hs). exists l. unfold D', dsnoc. cbn [fst snd].
          rewrite !app_nth1 by (try rewrite LD; try rewrite LR; exact L). auto.
        + intros Ed x R.
          assert (R0 : reach s (k_ref (constr_of s c')) x).
          { eapply reach_bound_eq; [|exact R]. intros y. rewrite Ecell. reflexivity. }
          rewrite Ecell. apply Ec2. unfold cset_of. rewrite Ec1. apply (Ha' Ed x R0).
        + intros T G WT.
          assert (G0 : grd s (k_ref (constr_of s c')) T).
          { eapply grd_bound_eq; [|exact G]. intros y. rewrite Ecell. reflexivity. }
          destruct (Hg' T G0 WT) as [Ok|(_ & [])]. left. exact Ok. }
    eapply ok_bind with (Q1 := fun _ s3 => Kc D' none s3); [|intros d s3 I3 E3 K3; done_ret].
    eapply ok_conseq; [apply ok_use; [exact E2|apply (fulfillK fuel D' (fun x => x = c) c s2 I2 K2 Lc2)]|].
    cbv beta. intros d s3 _ _ ((K3 & _) & _). eapply Kc_mono; [|exact K3]. intros x (-> & Ne). congruence.
Qed.


Lemma eval_styK D pend env : forall t s, inv s -> Kc D pend s -> Forall (sct true s) env -> sty_wf (length env) t ->
  ok true s (eval_sty env t) (fun r s1 => Kc D pend s1 /\ sct true s1 r) s.
Proof.
  induction t as [i| |o args IH] using sty_ind'; intros s I Kk Se Wf; cbn [eval_sty].
  - apply ok_gets_end; auto using ext_refl. split; [exact Kk|]. apply follow_sct; auto.
    inversion Wf; subst. rewrite Forall_forall in Se. apply Se; auto. apply nth_In. auto.
  - apply ok_fresh; auto using ext_refl. intros s1 Es1 I1 E1 _. apply ok_ret; auto. split.
    + subst s1. apply Kc_alloc_var; auto.
    + apply scv_V. intros _. subst s1. rewrite alloc_var_length. lia.
  - eapply ok_bind with (Q1 := fun xs s1 => Kc D pend s1 /\ Forall (sct true s1) xs);
      [|intros xs s1 I1 E1 (K1 & Sx); apply ok_ret; auto using sct_O].
    assert (Wa : Forall (sty_wf (length env)) args) by (inversion Wf; auto).
    clear Wf. revert s I Kk Se. induction IH as [|a r Ha Hr IHr]; intros s I Kk Se; [apply ok_ret; auto using ext_refl|].
    inversion Wa as [|? ? Wa1 Wr]; subst.
    eapply ok_bind; [apply Ha; auto|].
    intros x s1 I1 E1 (K1 & Sx).
    assert (Se1 : Forall (sct true s1) env) by (eapply scts_ext; eauto).
    eapply ok_bind with (Q1 := fun xs s2 => (Kc D pend s2 /\ Forall (sct true s2) xs) /\ ext s1 s2).
    + apply ok_use; [exact E1|]. apply IHr; auto.
    + intros xs s2 I2 E2 ((K2 & Sxs) & E12). apply ok_ret; auto. split; [exact K2|].
      constructor; auto. eapply sct_ext; eauto.
Qed.

(* the declared alternatives of a schema constraint *)
Fixpoint unconc (t : sty) : ty :=
  match t with SOp o args => TOp o (map unconc args) | _ => TOp Top [] end.

Lemma unconc_sconc : forall B, unconc (sconc B) = B.
Proof.
  induction B as [o args IH] using ty_ind'. cbn [sconc unconc]. f_equal.
  rewrite map_map. rewrite <- (map_id args) at 2. apply map_ext_in.
  intros x Hx. rewrite Forall_forall in IH. apply IH. exact Hx.
Qed.

Lemma map_unconc_sconc l : map unconc (map sconc l) = l.
Proof. rewrite map_map. rewrite <- (map_id l) at 2. apply map_ext. apply unconc_sconc. Qed.

Definition declC (sc : sconstr) : list ty :=
  match sc with SCSub _ t _ => [unconc t] | SCElim _ alts => map unconc alts end.

(* the declared context grows by l *)
Definition dext (D D' : dctx) (l : list (list ty)) : Prop :=
  fst D' = fst D ++ l /\ length (snd D') = length (snd D) + length l.

Lemma dext_refl D : dext D D [].
Proof. split; [rewrite app_nil_r; reflexivity|cbn; lia]. Qed.

Lemma dext_snoc D dk r : dext D (dsnoc D dk r) [dk].
Proof. split; [reflexivity|]. unfold dsnoc. cbn [snd]. rewrite app_length. reflexivity. Qed.

Lemma dext_trans D1 D2 D3 l1 l2 : dext D1 D2 l1 -> dext D2 D3 l2 -> dext D1 D3 (l1 ++ l2).
Proof.
  intros (A1 & B1) (A2 & B2). split; [rewrite A2, A1, app_assoc; reflexivity|rewrite app_length; lia].
Qed.

Definition dlen (D : dctx) (n : nat) : Prop := length (fst D) = n /\ length (snd D) = n.

Lemma dlen_ext D D' l n : dlen D n -> dext D D' l -> dlen D' (n + length l).
Proof. intros (A & B) (E & L). split; [rewrite E, app_length; lia|lia]. Qed.

Lemma eval_constrK fuel D env sc s : inv s -> JC s -> Kc D none s -> dlen D (length (constrs s)) ->
  Forall (tg (len s)) env -> pcc H (length env) sc ->
  ok true s (eval_constr H fuel env sc)
     (fun _ s' => (exists D', dext D D' [declC sc] /\ Kc D' none s') /\ JC s' /\ lefC s s' /\
                  length (constrs s') = S (length (constrs s))) s.
Proof.
  intros I J0 Kk (LD & LR) Fe Pc.
  eapply ok_conseq;
    [apply ok_and; [|intros u s' E; exact (eval_constr_goodC H W fuel env sc s J0 Fe Pc u s' E)]
    |cbv beta; intros u s' _ _ (X & Y); exact (conj X Y)].
  assert (Sn : forall i, i < length env -> sct true s (follow s (follow s (nth i env (V 0))))).
  { intros i Li. apply follow_sct; auto. apply follow_sct; auto. apply tg_sct.
    rewrite Forall_forall in Fe. apply Fe. apply nth_In. exact Li. }
  destruct sc as [r t strict|r alts]; cbn [pcc] in Pc.
  - destruct r as [i| |]; try tauto. destruct Pc as (Li & B & WB & ->).
    unfold ok. rewrite eval_constr_subC. cbn [declC]. rewrite unconc_sconc.
    set (k := sub_constrC s env i B strict).
    eapply ok_conseq; [apply (new_constraintK fuel D [B] k s); auto|].
    + exists [B]. cbn [k sub_constrC k_alts k_elim k_ref map]. unfold dsnoc. cbn [fst snd].
      rewrite !app_nth2 by lia. rewrite LD, LR, Nat.sub_diag. cbn [nth].
      split; [reflexivity|split; [apply incl_refl|split; [constructor; [exact WB|constructor]|auto]]].
    + unfold constr_terms. cbn [k sub_constrC k_ref k_alts].
      constructor; [apply Sn; exact Li|constructor; [apply sct_inj|constructor]].
    + cbv beta. intros u s' _ _ K'. exists (dsnoc D [B] (k_ref k)). split; [apply dext_snoc|exact K'].
  - destruct r as [i| |]; try tauto. destruct Pc as (Li & l & Wl & ->).
    unfold ok. rewrite eval_constr_elimC. cbn [declC]. rewrite map_unconc_sconc.
    set (k := elim_constrC s env i l).
    eapply ok_conseq; [apply (new_constraintK fuel D l k s); auto|].
    + exists l. cbn [k elim_constrC k_alts k_elim k_ref]. unfold dsnoc. cbn [fst snd].
      rewrite app_nth2 by lia. rewrite LD, Nat.sub_diag. cbn [nth].
      split; [reflexivity|split; [apply incl_refl|split; [exact Wl|discriminate]]].
    + cbn. discriminate.
    + unfold constr_terms. cbn [k elim_constrC k_ref k_alts]. constructor; [apply Sn; exact Li|].
      rewrite Forall_forall. intros x Hx. apply in_map_iff in Hx. destruct Hx as (m & <- & _). apply sct_inj.
    + cbv beta. intros u s' _ _ K'. exists (dsnoc D l (k_ref k)). split; [apply dext_snoc|exact K'].
Qed.

Lemma constrsK fuel env : forall cs D s, inv s -> JC s -> Kc D none s -> dlen D (length (constrs s)) ->
  Forall (tg (len s)) env -> Forall (pcc H (length env)) cs ->
  ok true s (forM cs (eval_constr H fuel env))
     (fun _ s' => (exists D', dext D D' (map declC cs) /\ Kc D' none s') /\ JC s' /\ lefC s s' /\
                  length (constrs s') = length (constrs s) + length cs) s.
Proof.
  induction cs as [|c cs IH]; intros D s I J0 Kk LD Fe Fc; cbn [forM map].
  - apply ok_ret; auto using ext_refl.
    split; [exists D; split; [apply dext_refl|exact Kk]|split; [exact J0|split; [apply lefC_refl|cbn; lia]]].
  - inversion Fc as [|? ? Pc Fc']; subst.
    eapply ok_bind; [apply eval_constrK; eauto|].
    intros u s1 I1 E1 ((D1 & X1 & K1) & J1 & L1 & N1).
    eapply ok_conseq; [apply ok_use; [exact E1|apply (IH D1 s1); auto]|].
    + rewrite N1. replace (S (length (constrs s))) with (length (constrs s) + length [declC c]) by (cbn; lia).
      eapply dlen_ext; eauto.
    + eapply Forall_tg_mono; [apply (lefC_len H _ _ L1)|exact Fe].
    + cbv beta. intros u' s2 _ _ (((D2 & X2 & K2) & J2 & L2 & N2) & _).
      split; [exists D2; split; [apply (dext_trans _ _ _ _ _ X1 X2)|exact K2]|].
      split; [exact J2|split; [eapply lefC_trans; eauto|cbn; lia]].
Qed.

Lemma instanceK fuel D sc s : inv s -> JC s -> Kc D none s -> dlen D (length (constrs s)) ->
  styg H (s_n sc) (s_body sc) -> Forall (pcc H (s_n sc)) (s_constrs sc) ->
  ok true s (instance H fuel sc)
     (fun r s' => (exists D', dext D D' (map declC (s_constrs sc)) /\ Kc D' none s') /\ JC s' /\ tg (len s') r /\
                  length (constrs s') = length (constrs s) + length (s_constrs sc)) s.
Proof.
  intros I J0 Kk LD Sb Pc.
  eapply ok_conseq; [apply ok_and; [|intros r s' E; exact (instance_goodC H W fuel sc s J0 Sb Pc r s' E)]|].
  2:{ cbv beta. intros r s' _ _ (K' & (J' & _ & T' & N')).
      split; [exact K'|split; [exact J'|split; [exact T'|exact N']]]. }
  unfold instance.
  eapply ok_bind.
  { apply ok_and; [apply (fresh_listK D none (s_n sc) s I Kk)
                  |intros env s1 E; exact (fresh_list_goodC H (s_n sc) s J0 env s1 E)]. }
  intros env s1 I1 E1 (K1 & (J1 & L1 & Fe & Ne & Ek1)).
  assert (Fe1 : Forall (tg (len s1)) env) by (eapply Forall_impl; [|exact Fe]; intros t; apply isvar_tg).
  assert (Sb' : styg H (length env) (s_body sc)) by (rewrite Ne; exact Sb).
  eapply ok_bind.
  { apply ok_use; [exact E1|].
    apply ok_and; [apply (eval_styK D none env (s_body sc) s1 I1 K1)
                  |intros b s2 E; exact (eval_sty_goodC H env (s_body sc) s1 J1 Fe1 Sb' b s2 E)].
    - apply tgs_scts. exact Fe1.
    - apply (styg_wf H). exact Sb'. }
  intros body s2 I2 E2 (((K2 & Sbd) & (J2 & L2 & Tb & Ek2)) & E12).
  eapply ok_bind.
  { apply ok_use; [exact E2|]. apply (constrsK fuel env (s_constrs sc) D s2); auto.
    - rewrite Ek2, Ek1. exact LD.
    - eapply Forall_tg_mono; [apply (lefC_len H _ _ L2)|exact Fe1].
    - rewrite Ne. exact Pc. }
  intros u s3 I3 E3 (((D3 & X3 & K3) & J3 & L3 & N3) & E23).
  eapply ok_conseq; [apply ok_use; [exact E3|apply (fixK fuel D3 none true body s3 I3 K3)]|].
  - apply tg_sct. eapply tg_mono; [apply (lefC_len H _ _ L3)|exact Tb].
  - cbv beta. intros r s4 _ _ ((K4 & _) & _). exists D3. split; [exact X3|exact K4].
Qed.

Lemma applyK fuel D f0 x0 fixb s : inv s -> Kc D none s -> sct true s f0 -> sct true s x0 ->
  ok true s (apply H fuel f0 x0 fixb) (fun r s1 => Kc D none s1 /\ sct true s1 r) s.
Proof.
  intros I Kk Sf0 Sx0. unfold apply. apply ok_gets. apply ok_gets.
  pose proof (follow_unbound f0 I) as Nf.
  pose proof (follow_sct I Sf0) as Sf. pose proof (follow_sct I Sx0) as Sx.
  eapply ok_bind with (Q1 := fun f' s1 => Kc D none s1 /\ sct true s1 f').
  - destruct (follow s f0) as [vf|o args]; [|apply ok_ret; auto using ext_refl].
    apply ok_fresh; auto using ext_refl. intros s1 Es1 I1 E1 _.
    assert (K1 : Kc D none s1) by (subst s1; apply Kc_alloc_var; auto).
    apply ok_fresh; auto. intros s2 Es2 I2 E2 E12.
    assert (K2 : Kc D none s2) by (subst s2; apply Kc_alloc_var; auto).
    eapply ok_bind with (Q1 := KQc D none).
    + useK (bindK fuel D none).
      6:{ intros o' args' [= <- <-] Eb'. apply (Sound.basic_var H) in Eb'.
          rewrite (Sound.var_fun H W) in Eb'. discriminate. }
      5:{ intros Bt. right. pose proof (sct_V Sf Bt) as Lvf.
          apply nocc_op. intros x [<-|[<-|[]]];
            (apply nocc_unb; [|subst s2 s1; rewrite !alloc_var_bound; rewrite cell_of_oob; [reflexivity|]]);
            try (subst s1; rewrite alloc_var_length); try rewrite alloc_var_length; lia. }
      * subst s2 s1. rewrite !alloc_var_bound. exact Nf.
      * exact Logic.I.
      * apply sct_V. eapply sct_ext; [exact E2|exact Sf].
      * apply sct_O. constructor; [|constructor; [|constructor]]; apply scv_V; intros _.
        -- pose proof (ext_vars E12) as L. subst s1. rewrite alloc_var_length in L. lia.
        -- subst s2. rewrite alloc_var_length. lia.
    + intros u s3 I3 E3 K3. apply ok_gets_end; auto. split; [exact K3|].
      apply follow_sct; auto. eapply sct_ext; eauto.
  - intros f' s1 I1 E1 (K1 & Sf').
    destruct f' as [v|o [|lft [|rgt [|z r]]]]; try done_fail; break_if; try done_fail;
      try (apply ok_ret; auto using sct_O0; fail).
    + apply sct_args in Sf'. inversion Sf' as [|? ? Sl Sr']; subst. inversion Sr' as [|? ? Sr _]; subst.
      assert (Sx1 : sct true s1 (follow s x0)) by (eapply sct_ext; eauto).
      eapply ok_bind with (Q1 := fun _ s2 => Kc D none s2 /\ ext s1 s2).
      { eapply ok_conseq; [apply ok_use; [exact E1|apply (unifyK fuel D none false); auto]|]. cbv beta. auto. }
      intros u s2 I2 E2 (K2 & E12).
      assert (Sr2 : sct true s2 rgt) by (eapply sct_ext; eauto).
      eapply ok_conseq; [apply ok_use; [exact E2|apply (fixK fuel D none); auto]|].
      cbv beta. intros r s4 _ _ ((K4 & _ & Sr4) & _). auto.
    + apply sct_args in Sf'. inversion Sf' as [|? ? Sl Sr']; subst. inversion Sr' as [|? ? Sr _]; subst.
      assert (Sx1 : sct true s1 (follow s x0)) by (eapply sct_ext; eauto).
      eapply ok_bind with (Q1 := fun _ s2 => Kc D none s2 /\ ext s1 s2).
      { eapply ok_conseq; [apply ok_use; [exact E1|apply (unifyK fuel D none false); auto]|]. cbv beta. auto. }
      intros u s2 I2 E2 (K2 & E12). apply ok_ret; auto. split; [exact K2|]. eapply sct_ext; eauto.
Qed.



Definition declsC_cmd (c : cmd) : list (list ty) :=
  match c with CInst sc => map declC (s_constrs sc) | _ => [] end.
Fixpoint declsC (cs : list cmd) : list (list ty) :=
  match cs with [] => [] | c :: r => declsC_cmd c ++ declsC r end.

Lemma run_cmdK fuel D c vals s : inv s -> JC s -> Kc D none s -> dlen D (length (constrs s)) ->
  Forall (tg (len s)) vals -> cmdC H (length vals) c ->
  ok true s (run_cmd H fuel c vals)
     (fun vals' s' => (exists D', dext D D' (declsC_cmd c) /\ Kc D' none s') /\ JC s' /\
                      length (constrs s') = length (constrs s) + length (declsC_cmd c) /\
                      Forall (tg (len s')) vals' /\ length vals' = S (length vals)) s.
Proof.
  intros I J0 Kk LD Fv Pc.
  eapply ok_conseq;
    [apply ok_and; [|intros v' s' E; exact (run_cmd_goodC H W fuel c vals s J0 Fv Pc v' s' E)]|].
  2:{ cbv beta. intros v' s' _ _ (K' & (t & Ev & Tt & J' & L' & N' & _)).
      split; [exact K'|]. subst v'. split; [exact J'|split; [|split]].
      - rewrite N'. f_equal. destruct c; cbn [declsC_cmd ncon]; try reflexivity. rewrite map_length. reflexivity.
      - apply Forall_app. split; [eapply Forall_tg_mono; [apply (lefC_len H _ _ L')|exact Fv]|constructor; auto].
      - rewrite app_length. cbn. lia. }
  destruct Pc as [sc Sb Pcs|f x b Lf Lx]; cbn [run_cmd declsC_cmd].
  - eapply ok_bind; [apply instanceK; eauto|]. intros t s1 I1 E1 (K1 & _). apply ok_ret; auto.
  - eapply ok_bind; [apply (applyK fuel D); auto; apply tg_sct; apply tg_val; auto|].
    intros t s1 I1 E1 (K1 & _). apply ok_ret; auto. exists D. split; [apply dext_refl|exact K1].
Qed.

Theorem run_cmdsK fuel : forall cs i vals D s vals' s', inv s -> JC s -> Kc D none s ->
  dlen D (length (constrs s)) -> Forall (tg (len s)) vals ->
  progC H (length vals) cs -> run_cmds H fuel cs i vals s = (None, vals', s') ->
  inv s' /\ exists D', dext D D' (declsC cs) /\ Kc D' none s'.
Proof.
  induction cs as [|c cs IH]; intros i vals D s vals' s' I J0 Kk LD Fv P R; cbn [run_cmds declsC] in *.
  - inversion R; subst. split; [exact I|]. exists D. split; [apply dext_refl|exact Kk].
  - destruct P as [Pc Pr].
    pose proof (run_cmdK fuel D c vals s I J0 Kk LD Fv Pc) as O. unfold ok in O.
    destruct (run_cmd H fuel c vals s) as [vals1 s1|e s1]; [|discriminate].
    destruct O as (I1 & E1 & (D1 & X1 & K1) & J1 & N1 & Fv1 & L1).
    destruct (IH (S i) vals1 D1 s1 vals' s' I1 J1 K1) as (I' & D' & X' & K'); auto.
    + rewrite N1. eapply dlen_ext; eauto.
    + rewrite L1. exact Pr.
    + split; [exact I'|]. exists D'. split; [apply (dext_trans _ _ _ _ _ X1 X')|exact K'].
Qed.

Lemma Kc_empty D sc : Kc D none (empty_store sc).
Proof. intros c Lc. cbn in Lc. lia. Qed.

Theorem concK_final fuel sc prog vals s : progC H 0 prog ->
  run_cmds H fuel prog 0 [] (empty_store sc) = (None, vals, s) ->
  inv s /\ exists R, length R = length (declsC prog) /\ Kc (declsC prog, R) none s.
Proof.
  intros P R.
  destruct (run_cmdsK fuel prog 0 [] ([], []) (empty_store sc) vals s (inv_empty true sc) (JC_empty H sc)
           (Kc_empty _ sc) (conj eq_refl eq_refl) (Forall_nil _) P R) as (I & D' & (E1 & E2) & K').
  split; [exact I|]. destruct D' as [D1 R1]. cbn [fst snd] in *. subst D1.
  exists R1. split; [exact E2|exact K'].
Qed.

End KC.
