(* C18 for the class progE, part I: TypeSchema.instance keeps the invariant GI of
   Infer/SchedIndepElimP.v, hence every store reached by a progE program satisfies
   it ([reach_GI]).

   - [PI_mins_of]: the first minimize() of any list of user base operators leaves
     a list whose comparable members are equal;
   - the closure Constraint.variables(indirect=True) of a fresh schematic variable
     is that variable alone (locality invariant [Loc] / [ownr] of Infer/TermElim.v
     part 4, here in partial-correctness form for every fuel);
   - creating a constraint ([new_constraint_GI]): the new constraint is attached
     to the set of its schematic variable only; if it stays pending it is either
     settled or (duplicates among its minimized alternatives) unsettled but unique
     ([uq]). *)
From Coq Require Import List Arith Bool Lia Permutation.
Import ListNotations.
From TF Require Import Base.Hier Base.Ty Sub.SubSpec Infer.Store Infer.Engine Infer.Run
  Infer.Sched Infer.Inv Infer.Sound Infer.FixLeast Infer.TermP Infer.SchedIndep Infer.SoundSub
  Infer.TermSub Infer.SoundElimS Infer.SoundElimK Infer.SoundElim Infer.TermElim
  Infer.SchedIndepElimA Infer.SchedIndepElimR Infer.SchedIndepElim Infer.SchedIndepElimP.
From TF Require Infer.Lub Infer.FitsEngineList.

Unset Implicit Arguments.

Section I.
Variable H : hier.
Hypothesis W : wf_hier H.
Local Notation inv := (invb true).
Local Notation len s := (length (vars s)).
Local Notation gd := (FL.good H).
Local Notation mins_of := (FL.mins_of H).
Local Notation cs s v := (c_cs (cell_of s v)).

(* ------------------------------------------------------------------ *)
(* the first minimize                                                   *)
(* ------------------------------------------------------------------ *)
Lemma min_step_PI_gen ms b : Forall gd ms -> gd b -> PI H ms -> PI H (FL.min_step H ms b).
Proof.
  intros Gm Gb P. unfold FL.min_step.
  set (ms' := map (FL.repl H b) ms).
  assert (Gr : forall m, In m ms -> gd (FL.repl H b m)).
  { intros m Hm. rewrite Forall_forall in Gm. destruct (FL.repl_cases H b m) as [-> | ->]; auto. }
  assert (P' : PI H ms').
  { intros x' y' Hx Hy Le. unfold ms' in Hx, Hy. apply in_map_iff in Hx, Hy.
    destruct Hx as (x & <- & Hx), Hy as (y & <- & Hy). rewrite Forall_forall in Gm.
    unfold FL.repl in *. destruct (FL.le H x b) eqn:Lx, (FL.le H y b) eqn:Ly; auto.
    - (* x' = b, y' = y *) exfalso.
      assert (L : FL.le H x y = true) by (apply (FL.le_trans H W x b y); auto).
      rewrite (P x y Hx Hy L) in Lx. congruence.
    - (* x' = x, y' = b *) congruence. }
  destruct (existsb (FL.le H b) ms') eqn:Ex; [exact P'|].
  intros x y Hx Hy Le. apply in_app_iff in Hx, Hy.
  destruct Hx as [Hx|[<-|[]]], Hy as [Hy|[<-|[]]]; auto.
  - (* x in ms', y = b *) unfold ms' in Hx. apply in_map_iff in Hx. destruct Hx as (m & <- & Hm).
    unfold FL.repl in *. destruct (FL.le H m b) eqn:Lm; [reflexivity|congruence].
  - (* x = b, y in ms' *) exfalso. assert (existsb (FL.le H b) ms' = true); [|congruence].
    apply existsb_exists. eauto.
Qed.

Lemma PI_mins_of l : Forall gd l -> PI H (mins_of l).
Proof.
  intros G. unfold FL.mins_of.
  assert (K : forall ms, Forall gd ms -> PI H ms -> PI H (fold_left (FL.min_step H) l ms)).
  { induction l as [|b l IH]; intros ms Gm P; cbn [fold_left]; [exact P|].
    inversion G; subst. apply IH; auto; [apply FL.min_step_good; auto|apply min_step_PI_gen; auto]. }
  apply K; [constructor|]. intros x y [].
Qed.

(* ------------------------------------------------------------------ *)
(* the closure of a variable all of whose pending constraints refer to it *)
(* ------------------------------------------------------------------ *)
Lemma closure_inert' s seen : forall todo f r, Forall (inert s seen) todo ->
  closure_f f s todo seen = Ok r -> r = seen.
Proof.
  induction todo as [|t rest IH]; intros f r Fi E; (destruct f as [|f]; [discriminate|]).
  - cbn in E. congruence.
  - inversion Fi as [|? ? It Fr]; subst. rewrite closure_S in E.
    destruct It as [(a & ->)|(y & -> & Hy & My)].
    + rewrite vars_f_base in E. cbn [filter flat_map app] in E. apply (IH f r Fr E).
    + rewrite vars_f_unb in E by exact Hy. cbn [filter] in E. rewrite My in E. cbn [negb flat_map app] in E.
      apply (IH f r Fr E).
Qed.


(* ------------------------------------------------------------------ *)
(* adding one constraint record                                         *)
(* ------------------------------------------------------------------ *)
Lemma GI_add s s' k' x i0 : GI H nop s ->
  vars s' = vars s -> constrs s' = constrs s ++ [k'] ->
  (forall j, j <> i0 -> cset_of s' j = cset_of s j) ->
  (forall c', In c' (cset_of s i0) -> In c' (cset_of s' i0)) ->
  (forall c', In c' (cset_of s' i0) -> c' = length (constrs s) \/ In c' (cset_of s i0)) ->
  inv s' -> tg H (len s) (k_ref k') -> shape H k' ->
  (k_elim k' = true -> forall l, k_alts k' = FL.obs l -> PI H l) ->
  (k_elim k' = true -> k_done k' = false -> forall w, follow s (k_ref k') = V w ->
     w = x /\ cs s x = i0 /\ In (length (constrs s)) (cset_of s' i0) /\
     (forall y, y < len s -> c_bound (cell_of s y) = None -> cs s y = i0 -> y = x)) ->
  (k_elim k' = false -> k_done k' = true -> pfc H 4 s' k' = PDone) ->
  GI H nop s'.
Proof.
  intros (J & I & Pi & Se & Sd) Ev Ek Cj Ci1 Ci2 I' Tk Shk Pk Sk Dk.
  set (c := length (constrs s)) in *.
  assert (Old : forall c', c' < c -> constr_of s' c' = constr_of s c').
  { intros c' Lc'. unfold constr_of. rewrite Ek. apply app_nth1. exact Lc'. }
  assert (New : constr_of s' c = k').
  { unfold constr_of. rewrite Ek. unfold c. rewrite app_nth2 by lia. rewrite Nat.sub_diag. reflexivity. }
  assert (N1 : length (constrs s') = S c) by (rewrite Ek, app_length; cbn; unfold c; lia).
  assert (Fo : forall r, follow s' r = follow s r) by (intros r; apply follow_vars; exact Ev).
  assert (Ce : forall y, cell_of s' y = cell_of s y) by (intros y; apply cell_of_vars; exact Ev).
  assert (Sup : forall j c', In c' (cset_of s j) -> In c' (cset_of s' j)).
  { intros j c' Hc. destruct (Nat.eq_dec j i0) as [->|Nj]; [apply Ci1; exact Hc|rewrite (Cj j Nj); exact Hc]. }
  assert (Sub : forall j c', c' < c -> In c' (cset_of s' j) -> In c' (cset_of s j)).
  { intros j c' Lc' Hc. destruct (Nat.eq_dec j i0) as [->|Nj]; [|rewrite (Cj j Nj) in Hc; exact Hc].
    destruct (Ci2 c' Hc) as [X|X]; [lia|exact X]. }
  split; [|split; [exact I'|split; [|split]]].
  - destruct J as ((A & B) & Cw). split; [split|].
    + intros v t. rewrite Ce, Ev. apply A.
    + intros v. rewrite Ce. apply B.
    + intros c' Lc'. rewrite N1 in Lc'. rewrite Ev. destruct (Nat.eq_dec c' c) as [->|Ne].
      * rewrite New. split; [exact Tk|exact Shk].
      * rewrite Old by lia. apply Cw. unfold c in *. lia.
  - intros c' l Lc'. rewrite N1 in Lc'. destruct (Nat.eq_dec c' c) as [->|Ne].
    + rewrite New. intros E Ea. apply (Pk E l Ea).
    + rewrite Old by lia. apply Pi. unfold c in *. lia.
  - intros c' w Lc'. rewrite N1 in Lc'. destruct (Nat.eq_dec c' c) as [->|Ne].
    + rewrite New, Fo. intros E D Ef. destruct (Sk E D w Ef) as (-> & Cx & Hin & Uq).
      unfold uq. rewrite !Ce, Cx. split; [exact Hin|right; right]. split.
      * intros j Hj. destruct (Nat.eq_dec j i0) as [->|Nj]; [reflexivity|exfalso].
        rewrite (Cj j Nj) in Hj. pose proof (inv_cs I _ _ Hj). unfold c in *. lia.
      * intros y Ly Uy Ey. rewrite Ce in Uy. rewrite Ev in Ly. apply Uq; auto. rewrite <- Ce. exact Ey.
    + assert (Lc0 : c' < c) by lia. rewrite (Old c' Lc0), Fo. intros E D Ef.
      destruct (Se c' w Lc0 E D Ef) as (At & Dj). rewrite Ce. split; [apply Sup; exact At|].
      destruct Dj as [[]|[X|X]]; [right; left|right; right].
      * apply (stlE_same H s s' c' Ev (Old c' Lc0) X).
      * destruct X as (X1 & X2). split.
        -- intros j Hj. rewrite Ce. apply X1. apply (Sub j c' Lc0 Hj).
        -- intros y Ly Uy Ey. rewrite !Ce in Ey. rewrite Ce in Uy. rewrite Ev in Ly. apply X2; auto.
  - intros c' Lc'. rewrite N1 in Lc'. destruct (Nat.eq_dec c' c) as [->|Ne].
    + rewrite New. apply Dk.
    + assert (Lc0 : c' < c) by lia. rewrite (Old c' Lc0). intros E D.
      rewrite (pfc_vars H 4 s' s (constr_of s c') (constr_of s c') Ev); auto.
Qed.


(* ------------------------------------------------------------------ *)
(* creating a constraint on a variable x of that kind                   *)
(* ------------------------------------------------------------------ *)
Lemma upd_last {A} (l : list A) (a b : A) : upd (length l) b (l ++ [a]) = l ++ [b].
Proof. induction l as [|y l IH]; cbn; [reflexivity|f_equal; exact IH]. Qed.

Lemma FrB_same s s' : vars s' = vars s -> FrB s s'.
Proof.
  intros Ev. split; [rewrite Ev; reflexivity|]. intros y. rewrite (cell_of_vars s' s y Ev). repeat split; auto.
Qed.

Section NewC.
Variables x i0 A : nat.
Variable own : nat -> Prop.

Lemma new_constraint_GI F k s :
  GI H nop s -> Loc H x i0 A own s -> x < len s ->
  (forall y, y < len s -> c_bound (cell_of s y) = None -> cs s y = i0 -> y = x) ->
  kfc H x A k -> k_done k = false ->
  (c_bound (cell_of s x) = None -> k_ref k = V x) ->
  (forall o, c_bound (cell_of s x) = Some (O o []) -> k_ref k = O o []) ->
  tr (new_constraint H F k) s
     (fun _ s' => GI H nop s' /\ NC H x i0 A (fun c => own c \/ c = length (constrs s)) s s' /\ FrB s s').
Proof.
  intros G L Lx Uq Kk Dk Hr1 Hr2 u s' E.
  set (own' := fun c => own c \/ c = length (constrs s)).
  unfold new_constraint, bindM in E. cbn [alloc_constr] in E.
  set (c := length (constrs s)) in *.
  set (s1 := {| vars := vars s; csets := csets s; constrs := constrs s ++ [k]; sched := sched s |}) in *.
  destruct Kk as (Rk & Sk & Ak). pose proof G as (J & I & Pi & Se & Sd).
  assert (Old : forall c', c' < c -> constr_of s1 c' = constr_of s c').
  { intros c' Lc'. unfold constr_of, s1. cbn [constrs]. apply app_nth1. exact Lc'. }
  assert (New : constr_of s1 c = k).
  { unfold constr_of, s1, c. cbn [constrs]. rewrite app_nth2 by lia. rewrite Nat.sub_diag. reflexivity. }
  assert (N1 : length (constrs s1) = S c) by (unfold s1, c; cbn [constrs]; rewrite app_length; cbn; lia).
  assert (OwnR : forall c', own c' -> c' < c) by (intros c' Oc'; apply (lo_own _ _ _ _ _ _ L c' Oc')).
  assert (Tk : tg H (len s) (k_ref k)).
  { destruct (lo_b _ _ _ _ _ _ L) as [Hx|(o' & Hx)].
    - rewrite (Hr1 Hx). constructor. exact Lx.
    - rewrite (Hr2 o' Hx). apply (JE_sc H s J x _ Hx). }
  assert (Sct : Forall (sct true s) (constr_terms k)).
  { unfold constr_terms. constructor; [apply (tg_sct H); exact Tk|].
    pose proof (shape_isb H k Sk) as Fb. eapply Forall_impl; [|exact Fb]. intros t (a & ->) _. constructor. constructor. }
  assert (Ar : k_elim k = false -> length (k_alts k) = 1).
  { intros Ek. unfold shape in Sk. rewrite Ek in Sk. destruct Sk as (a & -> & _). reflexivity. }
  assert (I1 : inv s1) by (apply (inv_alloc_constr I Ar Sct)).
  assert (Lo1 : Loc H x i0 A own' s1).
  { destruct L as [a b cc d]. constructor; auto.
    - intros c' [Oc' | ->].
      + destruct (cc c' Oc') as (Lc' & K'). split; [rewrite N1; unfold c; lia|]. rewrite Old by exact Lc'. exact K'.
      + split; [rewrite N1; lia|]. rewrite New. split; [exact Rk|split; [exact Sk|exact Ak]].
    - intros c' Hc'. left. apply d. exact Hc'. }
  unfold lift in E. destruct (closure_f F s1 (constr_terms k) []) as [vs|e] eqn:Ec; [|discriminate].
  (* the state after inform *)
  match type of E with context[forM vs ?f s1] => set (inf := f) in * end.
  assert (G2 : exists s2, forM vs inf s1 = MOk tt s2 /\
               ((c_bound (cell_of s x) = None /\ s2 = set_cset s1 i0 (ins c (cset_of s1 i0))) \/
                ((exists o, c_bound (cell_of s x) = Some (O o [])) /\ s2 = s1))).
  { destruct (lo_b _ _ _ _ _ _ L) as [Hx|(o & Hx)].
    - assert (vs = [x]).
      { unfold constr_terms in Ec. rewrite (Hr1 Hx) in Ec. destruct F as [|F']; [discriminate|].
        rewrite closure_S in Ec. rewrite vars_f_unb in Ec by exact Hx.
        cbn [filter mem existsb negb flat_map] in Ec. rewrite app_nil_r in Ec.
        change (union [x] []) with [x] in Ec.
        apply (closure_inert' s1 [x] _ F' vs) in Ec; [exact Ec|].
        apply Forall_app. split.
        - change (cell_of s1 x) with (cell_of s x). rewrite (lo_cs _ _ _ _ _ _ L).
          change (flat_map (fun c0 => constr_terms (constr_of s1 c0)) (cset_of s1 i0)) with (tws i0 s1).
          eapply Forall_impl; [|apply (tws_inert H x i0 A own' s1 Lo1 Hx)]. intros t Ht. exact Ht.
        - eapply Forall_impl; [|apply (shape_isb H k Sk)]. intros t Ht. left. exact Ht. }
      subst vs. exists (set_cset s1 i0 (ins c (cset_of s1 i0))). split; [|left; auto].
      cbn [forM]. unfold inf, bindM, gets, modify, ret. change (cell_of s1 x) with (cell_of s x). rewrite Hx.
      rewrite (lo_cs _ _ _ _ _ _ Lo1). reflexivity.
    - assert (vs = []).
      { apply (closure_inert' s1 [] _ F vs) in Ec; [exact Ec|].
        unfold constr_terms. rewrite (Hr2 o Hx). constructor; [left; eauto|].
        eapply Forall_impl; [|apply (shape_isb H k Sk)]. intros t Ht. left. exact Ht. }
      subst vs. exists s1. split; [reflexivity|right; eauto]. }
  destruct G2 as (s2 & Ef & Hs2). rewrite Ef in E.
  destruct (fulfill H F c s2) as [d s3|e s3] eqn:E3; [|discriminate]. inversion E; subst u s'. clear E.
  (* the store after inform *)
  assert (Li0 : c_bound (cell_of s x) = None -> i0 < length (csets s)).
  { intros _. rewrite <- (lo_cs _ _ _ _ _ _ L). apply (sc_cs (proj2 I eq_refl)). exact Lx. }
  assert (Ev2 : vars s2 = vars s) by (destruct Hs2 as [(_ & ->)|(_ & ->)]; reflexivity).
  assert (Ek2 : constrs s2 = constrs s ++ [k]) by (destruct Hs2 as [(_ & ->)|(_ & ->)]; reflexivity).
  assert (C2 : forall j, j <> i0 -> cset_of s2 j = cset_of s j).
  { intros j Nj. destruct Hs2 as [(_ & ->)|(_ & ->)]; [|reflexivity].
    destruct (cset_of_set_cset s1 i0 (ins c (cset_of s1 i0)) j) as [(_ & X & _)|X]; [congruence|exact X]. }
  assert (Ci2 : forall c', In c' (cset_of s2 i0) <-> (c_bound (cell_of s x) = None /\ c' = c) \/ In c' (cset_of s i0)).
  { intros c'. destruct Hs2 as [(Hx & ->)|((o & Hx) & ->)].
    - unfold cset_of at 1. cbn [csets set_cset]. rewrite nth_upd_same by (apply Li0; exact Hx).
      rewrite In_ins. change (cset_of s1 i0) with (cset_of s i0). tauto.
    - change (cset_of s1 i0) with (cset_of s i0). split; [auto|]. intros [(X & _)|X]; [congruence|exact X]. }
  assert (I2 : inv s2).
  { destruct Hs2 as [(Hx & ->)|(_ & ->)]; [|exact I1]. apply inv_set_cset; [exact I1|].
    apply Forall_ins; [rewrite N1; lia|]. apply (@inv_cs_Forall true s1). exact I1. }
  assert (Lo2 : Loc H x i0 A own' s2).
  { destruct Hs2 as [(Hx & ->)|(_ & ->)]; [|exact Lo1]. destruct Lo1 as [a b cc dd]. constructor; auto.
    intros c' Hc'. destruct (cset_of_set_cset s1 i0 (ins c (cset_of s1 i0)) i0) as [(E0 & _ & _)|E0]; rewrite E0 in Hc'.
    - apply In_ins in Hc'. destruct Hc' as [->|Hc']; [right; reflexivity|apply dd; exact Hc'].
    - apply dd. exact Hc'. }
  assert (Ck2 : constr_of s2 c = k) by (unfold constr_of; rewrite Ek2; unfold c; rewrite app_nth2 by lia; rewrite Nat.sub_diag; reflexivity).
  assert (Lc2 : c < length (constrs s2)) by (rewrite Ek2, app_length; cbn; unfold c; lia).
  (* locality *)
  destruct (Ls_all H x i0 A own' F) as (_ & _ & _ & _ & LFf).
  destruct (LFf c s2 Lo2 (or_intror eq_refl) d s3 E3) as (F3 & Lo3).
  assert (Nc : NC H x i0 A own' s s3).
  { destruct F3 as [fa fb fc fd fe ff fg]. constructor.
    - intros y Ny. rewrite fa by exact Ny. apply cell_of_vars. exact Ev2.
    - intros j Nj. rewrite fb by exact Nj. apply C2. exact Nj.
    - rewrite fc, Ev2. reflexivity.
    - rewrite fd. destruct Hs2 as [(_ & ->)|(_ & ->)]; [cbn; apply upd_length|reflexivity].
    - rewrite fe, Ek2, app_length. cbn. lia.
    - intros c' Nc' Lc'. rewrite ff by exact Nc'. unfold constr_of. rewrite Ek2. apply app_nth1. exact Lc'.
    - assert (length (cset_of s2 i0) <= S (length (cset_of s i0))); [|lia].
      destruct Hs2 as [(Hx & ->)|(_ & ->)]; [|change (cset_of s1 i0) with (cset_of s i0); lia].
      unfold cset_of at 1. cbn [csets set_cset]. rewrite nth_upd_same by (apply Li0; exact Hx). apply length_ins.
    - exact Lo3. }
  (* a general way to get GI of a store that differs from s2 in the record of c *)
  assert (Rf : forall y, follow s (k_ref k) = V y -> y = x /\ c_bound (cell_of s x) = None).
  { intros y Ey. destruct (lo_b _ _ _ _ _ _ L) as [Hx|(o & Hx)].
    - rewrite (Hr1 Hx) in Ey. rewrite Lub.follow_V_unbound in Ey by exact Hx. injection Ey as <-. auto.
    - rewrite (Hr2 o Hx), Lub.follow_O in Ey. discriminate. }
  assert (Rn : follow s (k_ref k) = k_ref k).
  { destruct (lo_b _ _ _ _ _ _ L) as [Hx|(o & Hx)]; [rewrite (Hr1 Hx); apply Lub.follow_V_unbound; exact Hx|rewrite (Hr2 o Hx); apply Lub.follow_O]. }
  assert (ADD : forall k', k_ref k' = k_ref k -> shape H k' ->
            (k_elim k' = true -> forall l, k_alts k' = FL.obs l -> PI H l) ->
            (k_elim k' = false -> k_done k' = true -> pfc H 4 s2 k' = PDone) ->
            (k_elim k' = false -> length (k_alts k') = 1) ->
            GI H nop (set_constr s2 c k')).
  { intros k' Er Shk' Pk' Dk' Ar'.
    apply (GI_add s (set_constr s2 c k') k' x i0 G); auto.
    - cbn. rewrite Ek2. apply upd_last.
    - intros c' Hc'. apply (proj2 (Ci2 c')). right. exact Hc'.
    - intros c' Hc'. destruct (proj1 (Ci2 c') Hc') as [(_ & X)|X]; auto.
    - apply inv_set_constr; [exact I2|exact Ar'|]. unfold constr_terms. rewrite Er.
      pose proof (Forall_inv Sct) as St. constructor; [intros Bt; rewrite Ev2; apply St; exact Bt|].
      pose proof (shape_isb H k' Shk') as Fb. eapply Forall_impl; [|exact Fb]. intros t (a & ->) _. constructor. constructor.
    - rewrite Er. exact Tk.
    - intros _ _ w Ew. rewrite Er in Ew. destruct (Rf w Ew) as (-> & Hx).
      split; [reflexivity|split; [apply (lo_cs _ _ _ _ _ _ L)|split; [|exact Uq]]].
      apply (proj2 (Ci2 c)). left. auto.
    - intros E' D'. rewrite (pfc_vars H 4 (set_constr s2 c k') s2 k' k'); auto. }
  assert (Same : set_constr s2 c k = s2) by (rewrite <- Ck2 at 1; apply set_constr_same; exact Lc2).
  assert (Fr2 : FrB s s2) by (apply FrB_same; exact Ev2).
  assert (GF : GI H nop s3 /\ FrB s s3).
  { destruct (k_elim k) eqn:Ee.
    - (* an elimination constraint *)
      pose proof Sk as Sk'. unfold shape in Sk'. rewrite Ee in Sk'. destruct Sk' as (l & Gl & Ea).
      destruct F as [|f]; [rewrite fulfill_0 in E3; discriminate|].
      destruct (fulfill_elim_form H f c s2 l d s3) as (_ & Cases); try (rewrite Ck2; assumption); auto.
      rewrite Ck2 in Cases. rewrite (follow_vars s2 s _ Ev2), Rn in Cases.
      set (l2 := filter (keep H f (set_constr s2 c (set_alts k (k_ref k) (FL.obs (mins_of l)) false)) (k_ref k)) (mins_of l)) in *.
      assert (G2l : Forall gd l2).
      { apply incl_Forall with (l1 := mins_of l); [apply incl_filter|apply FL.mins_of_good; exact Gl]. }
      assert (P2l : PI H l2).
      { eapply PI_incl; [apply incl_filter|apply PI_mins_of; exact Gl]. }
      destruct Cases as [(m1 & m2 & rest & El2 & -> & _)|(m & u0 & El2 & Eu & _)].
      + split; [|apply FrB_same; cbn; exact Ev2]. apply ADD; auto.
        * unfold shape. cbn. eauto.
        * intros _ l' El'. cbn in El'. apply obs_inj in El'. subst l'. exact P2l.
        * discriminate.
        * discriminate.
      + set (s3a := set_constr s2 c (set_alts k (k_ref k) [FL.ob m] true)) in *.
        assert (Gm : gd m) by (rewrite El2 in G2l; inversion G2l; assumption).
        assert (G3a : GI H nop s3a).
        { apply ADD; auto.
          - unfold shape. cbn. exists [m]. split; [constructor; [exact Gm|constructor]|reflexivity].
          - intros _ l' El'. cbn in El'. change [FL.ob m] with (FL.obs [m]) in El'. apply obs_inj in El'. subst l'.
            intros a b [<-|[]] [<-|[]] _. reflexivity.
          - discriminate. }
        assert (L3a : len s3a = len s) by (unfold s3a; cbn; rewrite Ev2; reflexivity).
        assert (Tm : tg H (len s3a) (FL.ob m)) by (apply (tg_O0 H); apply Gm).
        split.
        * apply (GS_unify_all H W f (k_ref k) (FL.ob m) s3a G3a ltac:(rewrite L3a; exact Tk) Tm u0 s3 Eu).
        * eapply FrB_trans; [apply (FrB_same s s3a); unfold s3a; cbn; exact Ev2|].
          destruct (lo_b _ _ _ _ _ _ L) as [Hx|(o & Hx)].
          -- rewrite (Hr1 Hx) in Eu. change (FL.ob m) with (O m []) in Eu.
             assert (Ux : c_bound (cell_of s3a x) = None) by (unfold s3a; rewrite (cell_of_vars _ s x); [exact Hx|cbn; exact Ev2]).
             destruct (unify_var_form H f s3a (V x) x m (@inv_chain true s3a (proj1 (proj2 G3a))) (Lub.follow_V_unbound s3a x Ux) Gm) as [(sx & Ex)|(g & -> & Ex)];
               [rewrite Ex in Eu; discriminate|].
             rewrite Ex in Eu.
             destruct (GS_below H W g nop x m s3a G3a (share_nop s3a x) ltac:(rewrite L3a; exact Lx) (or_introl Ux) (proj1 Gm) (proj1 (proj2 Gm)) u0 s3 Eu) as (_ & Fb).
             exact Fb.
          -- rewrite (Hr2 o Hx) in Eu. change (FL.ob m) with (O m []) in Eu.
             assert (Bm : basic H m = true) by (unfold basic, arity; rewrite (proj1 Gm); reflexivity).
             rewrite (unify_OO_same_r H f m o s3a u0 s3 Bm Eu). apply FrB_refl.
    - (* a subtype constraint *)
      pose proof (shape_pureK H k Ee Sk) as Pk.
      rewrite (fulfill_pure H F c s2) in E3 by (rewrite Ck2; exact Pk). rewrite Ck2 in E3.
      pose proof Sk as Sk'. unfold shape in Sk'. rewrite Ee in Sk'. destruct Sk' as (a & Ea & Ba).
      destruct (pfc H F s2 k) eqn:Ep; [discriminate| |].
      + inversion E3; subst d s3. unfold markd. rewrite Ck2.
        split; [|apply FrB_same; cbn; exact Ev2]. apply ADD; auto.
        * unfold shape. cbn. eauto.
        * cbn. discriminate.
        * intros _ _. destruct (pfc_fuel H F s2 k a Ea Ba) as [X|X]; rewrite Ep in X; [discriminate|].
          rewrite (pfc_vars H 4 s2 s2 (done_of k) k); auto.
      + inversion E3; subst d s3. split; [|exact Fr2]. rewrite <- Same. apply ADD; auto.
        * intros E'. congruence.
        * intros _ D'. congruence. }
  destruct GF as (G3 & F3'). auto.
Qed.

End NewC.

(* ------------------------------------------------------------------ *)
(* allocation of fresh variables                                        *)
(* ------------------------------------------------------------------ *)
Record AL (s s' : store) : Prop := mkAL {
  al_gi : GI H nop s';
  al_len : len s <= len s';
  al_cl : length (csets s) <= length (csets s');
  al_old : forall y, y < len s -> cell_of s' y = cell_of s y;
  al_new : forall y, len s <= y -> y < len s' -> length (csets s) <= cs s' y
}.

Lemma AL_refl s : GI H nop s -> AL s s.
Proof. intros G. constructor; auto. intros y L1 L2. lia. Qed.

Lemma AL_trans s1 s2 s3 : AL s1 s2 -> AL s2 s3 -> AL s1 s3.
Proof.
  intros [g1 a1 b1 c1 d1] [g2 a2 b2 c2 d2]. constructor; [exact g2|lia|lia| |].
  - intros y Ly. rewrite c2 by lia. apply c1. exact Ly.
  - intros y L1 L3. destruct (Nat.lt_ge_cases y (len s2)) as [L2|L2].
    + rewrite c2 by exact L2. apply d1; assumption.
    + pose proof (d2 y L2 L3). lia.
Qed.

Lemma AL_alloc s w : GI H nop s -> AL s (snd (alloc_var s w)).
Proof.
  intros G. constructor.
  - apply GI_alloc; assumption.
  - rewrite alloc_var_length. lia.
  - rewrite alloc_var_cslength. lia.
  - intros y Ly. unfold alloc_var, cell_of. cbn. apply app_nth1. exact Ly.
  - intros y L1 L2. rewrite alloc_var_length in L2. assert (y = len s) by lia. subst y.
    rewrite alloc_var_cs_new. lia.
Qed.

Lemma eval_sty_AL env : forall t s, GI H nop s -> tr (eval_sty env t) s (fun _ s' => AL s s').
Proof.
  induction t as [i| |o args IH] using sty_ind'; intros s G; cbn [eval_sty].
  - apply tr_gets_end. apply AL_refl. exact G.
  - apply tr_fresh. apply tr_ret. apply AL_alloc. exact G.
  - eapply tr_bind with (Q1 := fun _ s' => AL s s'); [|intros xs s1 A1; apply tr_ret; exact A1].
    revert s G. induction IH as [|a r Ha Hr IHr]; intros s G.
    + apply tr_ret. apply AL_refl. exact G.
    + eapply tr_bind; [apply (Ha s G)|]. cbv beta. intros x s1 A1.
      eapply tr_bind; [apply (IHr s1 (al_gi _ _ A1))|]. cbv beta. intros xs s2 A2.
      apply tr_ret. eapply AL_trans; eauto.
Qed.

Lemma fresh_list_AL : forall n s, GI H nop s -> tr (fresh_list n) s (fun _ s' => AL s s').
Proof.
  induction n as [|n IH]; intros s G; cbn [fresh_list].
  - apply tr_ret. apply AL_refl. exact G.
  - apply tr_fresh. eapply tr_bind; [apply (IH _ (GI_alloc H W s false G))|]. cbv beta. intros r s1 A1.
    apply tr_ret. eapply AL_trans; [apply AL_alloc; exact G|exact A1].
Qed.


(* ------------------------------------------------------------------ *)
(* the constraints of a schema instance being created                   *)
(* ------------------------------------------------------------------ *)
Record IG (n0 c0 nsc A cb : nat) (scs : list sconstr) (j : nat) (s : store) : Prop := mkIG {
  ig_gi : GI H nop s;
  ig_loc : forall i, i < nsc -> Loc H (n0 + i) (c0 + i) A (ownr scs cb j i) s;
  ig_k : length (constrs s) = cb + j;
  ig_rng : forall i, i < nsc -> n0 + i < len s;
  ig_uq : forall i y, i < nsc -> y < len s -> c_bound (cell_of s y) = None -> cs s y = c0 + i -> y = n0 + i
}.

Lemma eval_constr_IG F n0 c0 nsc A cb scs j s sc :
  IG n0 c0 nsc A cb scs j s -> nth j scs dsc = sc -> pscE H nsc sc -> nalts sc <= A ->
  tr (eval_constr H F (map V (seq n0 nsc)) sc) s (fun _ s' => IG n0 c0 nsc A cb scs (S j) s' /\ len s' = len s).
Proof.
  intros Ig Ej Pc La.
  assert (G : exists i k, i < nsc /\ sv sc = i /\
     eval_constr H F (map V (seq n0 nsc)) sc s = new_constraint H F k s /\
     k_ref k = follow s (follow s (V (n0 + i))) /\ shape H k /\ length (k_alts k) <= A /\
     k_done k = false).
  { destruct Pc as [Pc|Pc].
    - destruct sc as [r t strict|r alts]; cbn [psc] in Pc; [|tauto].
      destruct r as [i| |]; try tauto. destruct t as [| |a [|y ys]]; try tauto. destruct Pc as (Li & Va).
      exists i, (sub_constr s (map V (seq n0 nsc)) i a strict). split; [exact Li|split; [reflexivity|]].
      split; [apply SoundElimS.eval_constr_sub|]. unfold sub_constr. cbn [k_ref k_alts k_done k_elim].
      rewrite (nth_env n0 nsc i Li). split; [reflexivity|split; [|split; [exact La|reflexivity]]].
      unfold shape. cbn [k_elim k_alts]. exists a. split; [reflexivity|].
      unfold basic, arity. rewrite Va. reflexivity.
    - destruct sc as [r t strict|r alts]; cbn [pec] in Pc; [tauto|].
      destruct r as [i| |]; try tauto. destruct Pc as (Li & l & Gl & ->).
      exists i, (elim_constr s (map V (seq n0 nsc)) i l). split; [exact Li|split; [reflexivity|]].
      split; [apply SoundElimS.eval_constr_elimE|]. unfold elim_constr. cbn [k_ref k_alts k_done k_elim].
      rewrite (nth_env n0 nsc i Li). split; [reflexivity|split; [|split; [|reflexivity]]].
      + unfold shape. cbn [k_elim k_alts]. exists l. auto.
      + cbn [nalts] in La. unfold FL.obs. rewrite map_length in *. exact La. }
  destruct G as (i & k & Li & Si & Ee & Rk & Sk & Ak & Dk).
  destruct Ig as [Gi Lo Kj Rg Uq]. pose proof (Lo i Li) as Loi.
  intros u s' E. rewrite Ee in E.
  destruct (new_constraint_GI (n0 + i) (c0 + i) A (ownr scs cb j i) F k s Gi Loi (Rg i Li)
              (fun y Ly Uy Cy => Uq i y Li Ly Uy Cy)) with (a := u) (s' := s') as (G' & Nc & Fb); auto.
  { split; [rewrite Rk; eapply rf_ff; eauto|split; [exact Sk|exact Ak]]. }
  { intros Hx. rewrite Rk. apply ff_unb. exact Hx. }
  { intros o Hx. rewrite Rk. apply ff_base. exact Hx. }
  assert (OwnS : forall i' c, ownr scs cb (S j) i' c <-> (ownr scs cb j i' c \/ (c = cb + j /\ i' = i))).
  { intros i' c. unfold ownr. split.
    - intros (Rc & Sc). destruct (Nat.eq_dec c (cb + j)) as [->|Ne].
      + right. split; [reflexivity|]. replace (cb + j - cb) with j in Sc by lia. rewrite Ej, Si in Sc. auto.
      + left. split; [lia|exact Sc].
    - intros [(Rc & Sc)|(-> & ->)]; [split; [lia|exact Sc]|].
      split; [lia|]. replace (cb + j - cb) with j by lia. rewrite Ej. exact Si. }
  split; [|apply (nc_len _ _ _ _ _ _ _ Nc)]. constructor.
  - exact G'.
  - intros i' Li'. destruct (Nat.eq_dec i' i) as [->|Ne].
    + eapply Loc_ext; [|apply (nc_loc _ _ _ _ _ _ _ Nc)]. intros c. rewrite OwnS, Kj. cbv beta. tauto.
    + eapply Loc_ext with (own := ownr scs cb j i').
      { intros c. rewrite OwnS. tauto. }
      apply (Loc_transfer H 1 (le_n 1) _ _ _ _ s s' (Lo i' Li')).
      * apply (nc_cell _ _ _ _ _ _ _ Nc). lia.
      * apply (nc_cset _ _ _ _ _ _ _ Nc). lia.
      * intros c Oc. apply (nc_k _ _ _ _ _ _ _ Nc).
        -- intros [(_ & Sc)|Ec]; destruct Oc as (Rc & Sc'); [congruence|lia].
        -- destruct Oc as (Rc & _). lia.
      * rewrite (nc_kl _ _ _ _ _ _ _ Nc). lia.
  - rewrite (nc_kl _ _ _ _ _ _ _ Nc). lia.
  - intros i' Li'. rewrite (nc_len _ _ _ _ _ _ _ Nc). apply Rg. exact Li'.
  - intros i' y Li' Ly Uy Cy. destruct Fb as (Lb & Fb). destruct (Fb y) as (Cy' & By & _).
    rewrite Lb in Ly. rewrite Cy' in Cy. apply (Uq i' y Li' Ly); [|exact Cy].
    destruct (c_bound (cell_of s y)) as [t|] eqn:Hb; [|reflexivity]. rewrite (By t eq_refl) in Uy. discriminate.
Qed.

Lemma constr_loop_IG F n0 c0 nsc A cb scs : forall rest done s,
  scs = done ++ rest -> IG n0 c0 nsc A cb scs (length done) s ->
  Forall (pscE H nsc) rest -> Forall (fun sc => nalts sc <= A) rest ->
  tr (forM rest (eval_constr H F (map V (seq n0 nsc)))) s
     (fun _ s' => IG n0 c0 nsc A cb scs (length scs) s' /\ len s' = len s).
Proof.
  induction rest as [|sc rest IH]; intros done s Ecs Ig Pc Ac; cbn [forM].
  - apply tr_ret. rewrite app_nil_r in Ecs. subst done. split; [exact Ig|reflexivity].
  - inversion Pc as [|? ? Psc Pr]; inversion Ac as [|? ? Asc Ar]; subst.
    eapply tr_bind.
    + apply (eval_constr_IG F n0 c0 nsc A cb (done ++ sc :: rest) (length done) s sc Ig); auto.
      rewrite app_nth2 by lia. rewrite Nat.sub_diag. reflexivity.
    + cbv beta. intros _ s1 (Ig1 & L1). eapply tr_conseq; [apply (IH (done ++ [sc]) s1); auto|].
      * rewrite <- app_assoc. reflexivity.
      * rewrite app_length. cbn [length]. rewrite Nat.add_1_r. exact Ig1.
      * cbv beta. intros _ s2 (Ig2 & L2). split; [exact Ig2|congruence].
Qed.


(* ------------------------------------------------------------------ *)
(* TypeSchema.instance, commands, programs                              *)
(* ------------------------------------------------------------------ *)
Theorem instance_GI F sc s : GI H nop s -> styg H (s_n sc) (s_body sc) ->
  Forall (pscE H (s_n sc)) (s_constrs sc) ->
  tr (instance H F sc) s (fun _ s' => GI H nop s').
Proof.
  intros G Sb Pc r s' E. unfold instance, bindM in E.
  destruct (fresh_list_grows (s_n sc) s) as (s1 & E1 & G1 & C1). rewrite E1 in E.
  set (env := map V (seq (len s) (s_n sc))) in *.
  assert (Le : length env = s_n sc) by (unfold env; rewrite map_length, seq_length; reflexivity).
  assert (Ue1 : Forall (uvar s1) env).
  { eapply Forall_impl; [|apply seq_uvar]. intros t. apply uvar_grows with (k := s_n sc). exact G1. }
  assert (Wb : sty_wf (length env) (s_body sc)) by (rewrite Le; apply (styg_wf H); exact Sb).
  destruct (eval_sty_spec env (s_body sc) s1 Ue1 Wb) as (r2 & s2 & E2 & G2 & _). rewrite E2 in E.
  pose proof (fresh_list_AL (s_n sc) s G _ s1 E1) as A1.
  pose proof (eval_sty_AL env (s_body sc) s1 (al_gi _ _ A1) _ s2 E2) as A2.
  pose proof G as (J & I & _).
  destruct (fresh_list_goodE H (s_n sc) s J env s1 E1) as (J1 & _ & Fe & _ & _).
  assert (Fe1 : Forall (tg H (len s1)) env) by (eapply Forall_impl; [|exact Fe]; intros t; apply isvar_tg).
  assert (Sb' : styg H (length env) (s_body sc)) by (rewrite Le; exact Sb).
  destruct (eval_sty_goodE H env (s_body sc) s1 J1 Fe1 Sb' r2 s2 E2) as (_ & _ & Tr & _).
  set (scs := s_constrs sc) in *. set (A := amax scs).
  assert (Ig : IG (len s) (length (csets s)) (s_n sc) A (length (constrs s)) scs 0 s2).
  { constructor.
    - exact (al_gi _ _ A2).
    - intros i Li. constructor.
      + rewrite (g_old _ _ _ G2) by (rewrite (g_len _ _ _ G1); lia). rewrite C1 by exact Li. reflexivity.
      + left. rewrite (g_old _ _ _ G2) by (rewrite (g_len _ _ _ G1); lia). rewrite C1 by exact Li. reflexivity.
      + intros c (Rc & _). lia.
      + intros c Hc. rewrite (g_cset _ _ _ G2), (g_cset _ _ _ G1) in Hc.
        unfold cset_of in Hc. rewrite nth_overflow in Hc by lia. destruct Hc.
    - rewrite (g_constrs _ _ _ G2), (g_constrs _ _ _ G1). lia.
    - intros i Li. rewrite (g_len _ _ _ G2), (g_len _ _ _ G1). lia.
    - intros i y Li Ly Uy Cy.
      destruct (Nat.lt_ge_cases y (len s)) as [L0|L0].
      + exfalso. rewrite (g_old _ _ _ G2) in Cy by (rewrite (g_len _ _ _ G1); lia). rewrite (g_old _ _ _ G1) in Cy by exact L0.
        pose proof (sc_cs (proj2 I eq_refl) L0). lia.
      + destruct (Nat.lt_ge_cases y (len s1)) as [L1|L1].
        * rewrite (g_old _ _ _ G2) in Cy by exact L1. rewrite (g_len _ _ _ G1) in L1.
          replace y with (len s + (y - len s)) in Cy by lia. rewrite C1 in Cy by lia. cbn in Cy. lia.
        * exfalso. pose proof (al_new _ _ A2 y L1 Ly) as X. rewrite (g_cslen _ _ _ G1) in X. lia. }
  destruct (forM scs (eval_constr H F env) s2) as [u3 s3|e3 s3] eqn:E3; [|discriminate].
  destruct (constr_loop_IG F (len s) (length (csets s)) (s_n sc) A (length (constrs s)) scs scs [] s2 eq_refl Ig Pc ltac:(apply (amax_all 1 (le_n 1))) u3 s3 E3) as (Ig3 & L3).
  apply (GS_fix_all H W F true r2 s3 (ig_gi _ _ _ _ _ _ _ _ Ig3) ltac:(rewrite L3; exact Tr) r s' E).
Qed.

Theorem run_cmd_GI fuel c vals s : GI H nop s -> Forall (tg H (len s)) vals -> cmdE H (length vals) c ->
  tr (run_cmd H fuel c vals) s (fun vals' s' => GI H nop s' /\ Forall (tg H (len s')) vals').
Proof.
  intros G Fv Pc vals' s' E. pose proof G as (J & _).
  destruct (run_cmd_goodE H W fuel c vals s J Fv Pc vals' s' E) as (t & -> & Tt & _ & (Ls & _) & _).
  split.
  - destruct Pc as [sc Sb Pcs|f x b Lf Lx]; cbn [run_cmd] in E; unfold bindM in E.
    + destruct (instance H fuel sc s) as [t1 s1|e1 s1] eqn:E1; [|discriminate]. inversion E; subst.
      apply (instance_GI fuel sc s G Sb Pcs t1 s' E1).
    + destruct (apply H fuel (val vals f) (val vals x) b s) as [t1 s1|e1 s1] eqn:E1; [|discriminate]. inversion E; subst.
      apply (GS_apply H W fuel _ _ b s G (tg_val H _ _ _ Fv Lf) (tg_val H _ _ _ Fv Lx) t1 s' E1).
  - apply Forall_app. split; [|constructor; [exact Tt|constructor]].
    eapply Forall_impl; [|exact Fv]. intros y Hy. eapply tg_mono; [apply Ls|exact Hy].
Qed.

Theorem run_cmds_GI fuel : forall prog i vals s vals' s', GI H nop s -> Forall (tg H (len s)) vals ->
  progE H (length vals) prog -> run_cmds H fuel prog i vals s = (None, vals', s') ->
  GI H nop s' /\ Forall (tg H (len s')) vals'.
Proof.
  induction prog as [|c prog IH]; intros i vals s vals' s' G Fv Pp E; cbn [run_cmds] in E.
  - inversion E; subst. auto.
  - destruct Pp as (Pc & Pr).
    destruct (run_cmd H fuel c vals s) as [v1 s1|e1 s1] eqn:E1; [|discriminate].
    destruct (run_cmd_GI fuel c vals s G Fv Pc v1 s1 E1) as (G1 & F1).
    pose proof G as (J & _).
    destruct (run_cmd_goodE H W fuel c vals s J Fv Pc v1 s1 E1) as (t & -> & _).
    apply (IH (S i) _ s1 vals' s' G1 F1); [|exact E].
    rewrite app_length. cbn [length]. rewrite Nat.add_1_r. exact Pr.
Qed.

(* every store reached by a progE program satisfies the invariant *)
Theorem reach_GI fuel sc prog vals s : progE H 0 prog ->
  run_cmds H fuel prog 0 [] (empty_store sc) = (None, vals, s) -> GI H nop s.
Proof.
  intros Pp E. apply (run_cmds_GI fuel prog 0 [] (empty_store sc) vals s (GI_empty H sc) (Forall_nil _) Pp E).
Qed.

End I.
