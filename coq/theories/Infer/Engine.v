(* Faithful, fuelled model of the inference engine of transforge/type.py:
   follow, match (three-valued, with bounds and wildcards), occurs check,
   unify, bind, above, below, check_constraints, constraint fulfilment,
   minimize, fix, TypeSchema.instance, Type.apply.
   Every Python `assert` is a [Crash] outcome, fuel exhaustion is [EFuel]. *)
From Coq Require Import List Arith Bool Lia.
Import ListNotations.
From TF Require Import Base.Hier Base.Ty Infer.Store.

Inductive err :=
| ESubtypeMismatch | ETypeMismatch | EFunApp | ERecursive | EConstraintViolation
| ECrash (site : nat)     (* an internal assertion *)
| EFuel.

(* crash sites *)
Definition site_bind_twice := 1.       (* bind: assert not self.bound *)
Definition site_inform_bound := 4.     (* Constraint.inform: assert not v.bound *)
Definition site_elim_normalized := 5.  (* EliminationConstraint.fulfill: assert normalized *)
Definition site_arity := 6.            (* zip over mismatching arity / malformed type *)

Inductive res (A : Type) := Ok (a : A) | Er (e : err).
Arguments Ok {A}. Arguments Er {A}.

(* stateful computations keep the store on failure too: a Python exception
   leaves every mutation made so far in place *)
Inductive mres (A : Type) := MOk (a : A) (s : store) | MEr (e : err) (s : store).
Arguments MOk {A}. Arguments MEr {A}.
Definition M (A : Type) := store -> mres A.
Definition ret {A} (a : A) : M A := fun s => MOk a s.
Definition fail {A} (e : err) : M A := fun s => MEr e s.
Definition bindM {A B} (m : M A) (f : A -> M B) : M B :=
  fun s => match m s with MOk a s' => f a s' | MEr e s' => MEr e s' end.
Notation "x <- m ;; k" := (bindM m (fun x => k)) (at level 61, m at next level, right associativity).
Notation "m ;;; k" := (bindM m (fun _ => k)) (at level 61, right associativity).
Definition gets {A} (f : store -> A) : M A := fun s => MOk (f s) s.
Definition modify (f : store -> store) : M unit := fun s => MOk tt (f s).
Definition lift {A} (r : store -> res A) : M A :=
  fun s => match r s with Ok a => MOk a s | Er e => MEr e s end.
Definition when (b : bool) (m : M unit) : M unit := if b then m else ret tt.

Fixpoint forM {A} (l : list A) (f : A -> M unit) : M unit :=
  match l with [] => ret tt | x :: r => f x ;;; forM r f end.

Section Engine.
  Variable H : hier.

  Definition basic (o : nat) : bool := Nat.eqb (arity H o) 0.

  (* ---------- pure readers ---------- *)

  (* TypeInstance.follow.  Binding chains are acyclic and visit distinct
     variables, so |vars|+1 steps always suffice; a longer chain means a
     cyclic binding (the Python loop would not terminate). *)
  Fixpoint follow_f (fuel : nat) (s : store) (t : tyv) : tyv :=
    match t with
    | V v =>
        match c_bound (cell_of s v) with
        | Some t' => match fuel with 0 => t | S f => follow_f f s t' end
        | None => t
        end
    | _ => t
    end.
  Definition follow (s : store) (t : tyv) : tyv := follow_f (S (length (vars s))) s t.

  Definition osub (strict : bool) (a b : nat) : bool := op_subtype H strict a b.

  Definition tri_and (r acc : option bool) : option bool :=
    match r, acc with
    | Some false, _ => Some false
    | _, Some false => Some false
    | None, _ => None
    | _, None => None
    | Some true, Some true => Some true
    end.

  (* TypeInstance.match, lines 496-554 *)
  Fixpoint match_f (fuel : nat) (s : store) (sub aw : bool) (a0 b0 : tyv) : res (option bool) :=
    match fuel with
    | 0 => Er EFuel
    | S f =>
        let a := follow s a0 in
        let b := follow s b0 in
        match a, b with
        | O oa xs, O ob ys =>
            if sub && (Nat.eqb oa Bottom || Nat.eqb ob Top) then Ok (Some true)
            else if basic oa then Ok (Some (Nat.eqb oa ob || (sub && osub false oa ob)))
            else if negb (Nat.eqb oa ob) then Ok (Some false)
            else
              (fix go (vs : list bool) (xs ys : list tyv) (acc : option bool) : res (option bool) :=
                 match vs, xs, ys with
                 | v :: vs', x :: xs', y :: ys' =>
                     match (if v then match_f f s sub aw x y else match_f f s sub aw y x) with
                     | Er e => Er e
                     | Ok (Some false) => Ok (Some false)
                     | Ok r => go vs' xs' ys' (tri_and r acc)
                     end
                 | _, _, _ => Ok acc
                 end) (variance H oa) xs ys (Some true)
        | O oa xs, V vb =>
            let cb := cell_of s vb in
            if sub && Nat.eqb oa Bottom then Ok (Some true)
            else if (match c_upper cb, c_lower cb with None, None => false | _, _ => true end) && negb (basic oa)
            then Ok (Some false)
            else if (match c_upper cb with Some u => negb (osub false oa u) | None => false end) then Ok (Some false)
            else if (match c_lower cb with
                     | Some l => negb (osub false l oa) && negb (sub && osub false oa l)
                     | None => false end) then Ok (Some false)
            else if aw && c_wild cb then Ok (Some true)
            else Ok None
        | V va, O ob ys =>
            let ca := cell_of s va in
            if sub && Nat.eqb ob Top then Ok (Some true)
            else if (match c_upper ca, c_lower ca with None, None => false | _, _ => true end) && negb (basic ob)
            then Ok (Some false)
            else if (match c_lower ca with Some l => negb (osub false l ob) | None => false end) then Ok (Some false)
            else if (match c_upper ca with
                     | Some u => negb (osub false u ob) && negb (sub && osub false ob u)
                     | None => false end) then Ok (Some false)
            else if aw && c_wild ca then Ok (Some true)
            else Ok None
        | V va, V vb =>
            let ca := cell_of s va in
            let cb := cell_of s vb in
            if Nat.eqb va vb || (c_wild ca && c_wild cb) then Ok (Some true)
            else if aw && (c_wild ca || c_wild cb) then Ok (Some true)
            else match c_lower ca, c_upper cb with
                 | Some l, Some u => if osub true u l then Ok (Some false) else Ok None
                 | _, _ => Ok None
                 end
        end
    end.

  (* TypeInstance.__contains__: [occurs f s a b] is `b in a` *)
  Fixpoint occurs_f (fuel : nat) (s : store) (a0 b0 : tyv) : res bool :=
    match fuel with
    | 0 => Er EFuel
    | S f =>
        let a := follow s a0 in
        let b := follow s b0 in
        match match_f f s false false a b with
        | Er e => Er e
        | Ok (Some true) => Ok true
        | Ok _ =>
            match a with
            | O _ args =>
                (fix go (l : list tyv) : res bool :=
                   match l with
                   | [] => Ok false
                   | t :: r => match occurs_f f s t b with
                               | Er e => Er e
                               | Ok true => Ok true
                               | Ok false => go r
                               end
                   end) args
            | V _ => Ok false
            end
        end
    end.

  (* the distinct unbound variables of a type (TypeInstance.variables(indirect=False)) *)
  Fixpoint vars_f (fuel : nat) (s : store) (t0 : tyv) (acc : list nat) : res (list nat) :=
    match fuel with
    | 0 => Er EFuel
    | S f =>
        match follow s t0 with
        | V v => Ok (ins v acc)
        | O _ args =>
            (fix go (l : list tyv) (acc : list nat) : res (list nat) :=
               match l with
               | [] => Ok acc
               | t :: r => match vars_f f s t acc with Er e => Er e | Ok acc' => go r acc' end
               end) args acc
        end
    end.

  Definition constr_terms (k : constr) : list tyv := k_ref k :: k_alts k.

  (* Constraint.variables(indirect=True): closure through the constraint sets
     of the variables found *)
  Fixpoint closure_f (fuel : nat) (s : store) (todo : list tyv) (seen : list nat) : res (list nat) :=
    match fuel with
    | 0 => Er EFuel
    | S f =>
        match todo with
        | [] => Ok seen
        | t :: rest =>
            match vars_f fuel s t [] with
            | Er e => Er e
            | Ok vs =>
                let new := filter (fun v => negb (mem v seen)) vs in
                let seen' := union new seen in
                let more := flat_map (fun v =>
                              flat_map (fun c => constr_terms (constr_of s c))
                                       (cset_of s (c_cs (cell_of s v)))) new in
                closure_f f s (more ++ rest) seen'
            end
        end
    end.

  (* ---------- mutators ---------- *)

  Definition upd_cell (v : nat) (g : cell -> cell) : M unit :=
    modify (fun s => set_cell s v (g (cell_of s v))).
  Definition set_wild v b := upd_cell v (fun c => mkCell b (c_bound c) (c_lower c) (c_upper c) (c_cs c)).
  Definition set_bound v t := upd_cell v (fun c => mkCell (c_wild c) t (c_lower c) (c_upper c) (c_cs c)).
  Definition set_lower v o := upd_cell v (fun c => mkCell (c_wild c) (c_bound c) o (c_upper c) (c_cs c)).
  Definition set_upper v o := upd_cell v (fun c => mkCell (c_wild c) (c_bound c) (c_lower c) o (c_cs c)).
  Definition set_cs v i := upd_cell v (fun c => mkCell (c_wild c) (c_bound c) (c_lower c) (c_upper c) i).
  Definition upd_constr (i : nat) (g : constr -> constr) : M unit :=
    modify (fun s => set_constr s i (g (constr_of s i))).

  Definition fresh (wild : bool) : M nat :=
    fun s => let (v, s') := alloc_var s wild in MOk v s'.

  Fixpoint fresh_list (n : nat) : M (list tyv) :=
    match n with
    | 0 => ret []
    | S k => v <- fresh false ;; r <- fresh_list k ;; ret (V v :: r)
    end.

  (* take the next schedule entry (0 when the schedule is used up) *)
  Definition next_choice : M nat :=
    fun s => match sched s with
             | [] => MOk 0 s
             | r :: rest => MOk r (mkStore (vars s) (csets s) (constrs s) rest)
             end.

  Definition is_fun (t : tyv) : bool :=
    match t with O o _ => Nat.eqb o Function | V _ => false end.

  (* The mutually recursive core.  One fuel unit per nested call. *)
  Fixpoint unify (fuel : nat) (sub skb skw : bool) (a0 b0 : tyv) {struct fuel} : M unit :=
    match fuel with
    | 0 => fail EFuel
    | S f =>
        a <- gets (fun s => follow s a0) ;;
        b <- gets (fun s => follow s b0) ;;
        match a, b with
        | V va, V vb =>
            wa <- gets (fun s => c_wild (cell_of s va)) ;;
            wb <- gets (fun s => c_wild (cell_of s vb)) ;;
            if negb skw || negb (wa && wb) then bind f va b else ret tt
        | O oa xs, O ob ys =>
            if Nat.eqb oa Bottom || Nat.eqb ob Top then ret tt
            else if basic oa then
              if skb then ret tt
              else if sub && negb (osub false oa ob) then fail ESubtypeMismatch
              else if negb sub && negb (Nat.eqb oa ob) then fail ETypeMismatch
              else ret tt
            else if Nat.eqb oa ob then
              (fix go (vs : list bool) (xs ys : list tyv) : M unit :=
                 match vs, xs, ys with
                 | v :: vs', x :: xs', y :: ys' =>
                     (if v then unify f sub skb skw x y else unify f sub skb skw y x) ;;;
                     go vs' xs' ys'
                 | _, _, _ => ret tt
                 end) (variance H oa) xs ys
            else fail ETypeMismatch
        | V va, O ob ys =>
            if Nat.eqb ob Top then ret tt
            else
              oc <- lift (fun s => occurs_f f s b a) ;;
              if oc then fail ERecursive
              else if basic ob then
                wa <- gets (fun s => c_wild (cell_of s va)) ;;
                if skb || (skw && wa) then ret tt
                else if sub then below f va ob
                else bind f va b
              else if skw || skb then
                fr <- fresh_list (length ys) ;;
                bind f va (O ob fr) ;;;
                unify f sub skb skw a b
              else bind f va b
        | O oa xs, V vb =>
            if Nat.eqb oa Bottom then ret tt
            else
              oc <- lift (fun s => occurs_f f s a b) ;;
              if oc then fail ERecursive
              else if basic oa then
                wb <- gets (fun s => c_wild (cell_of s vb)) ;;
                if skb || (skw && wb) then ret tt
                else if sub then above f vb oa
                else bind f vb a
              else if skw || skb then
                fr <- fresh_list (length xs) ;;
                bind f vb (O oa fr) ;;;
                unify f sub skb skw b b          (* sic: line 627 unifies b with itself *)
              else bind f vb a
        end
    end

  with bind (fuel : nat) (v : nat) (t : tyv) {struct fuel} : M unit :=
    match fuel with
    | 0 => fail EFuel
    | S f =>
        c <- gets (fun s => cell_of s v) ;;
        match c_bound c with
        | Some _ => fail (ECrash site_bind_twice)
        | None =>
            set_wild v false ;;;
            match t with
            | V w =>
                if Nat.eqb v w then ret tt
                else
                  set_bound v (Some t) ;;;
                  (* t._constraints.update(self._constraints); self._constraints = t._constraints *)
                  modify (fun s =>
                    let iv := c_cs (cell_of s v) in
                    let iw := c_cs (cell_of s w) in
                    set_cset s iw (union (cset_of s iv) (cset_of s iw))) ;;;
                  iw <- gets (fun s => c_cs (cell_of s w)) ;;
                  set_cs v iw ;;;
                  set_wild w false ;;;
                  (match c_lower c with Some l => above f w l | None => ret tt end) ;;;
                  (match c_upper c with Some u => below f w u | None => ret tt end) ;;;
                  check_constraints f v
            | O o args =>
                set_bound v (Some t) ;;;
                (if basic o then
                   if (match c_lower c with Some l => osub true o l | None => false end)
                   then fail ESubtypeMismatch
                   else if (match c_upper c with Some u => osub true u o | None => false end)
                   then fail ESubtypeMismatch
                   else ret tt
                 else if (match c_lower c, c_upper c with None, None => false | _, _ => true end)
                 then fail ETypeMismatch      (* a variable bounded by base types is a base type *)
                 else
                   vs <- lift (fun s => vars_f f s t []) ;;
                   modify (fun s =>
                     let iv := c_cs (cell_of s v) in
                     let all := fold_right (fun w acc => union (cset_of s (c_cs (cell_of s w))) acc)
                                           (cset_of s iv) vs in
                     set_cset s iv all) ;;;
                   iv <- gets (fun s => c_cs (cell_of s v)) ;;
                   forM vs (fun w => set_cs w iv)) ;;;
                check_constraints f v
            end
        end
    end

  with above (fuel : nat) (v : nat) (new : nat) {struct fuel} : M unit :=
    match fuel with
    | 0 => fail EFuel
    | S f =>
        if Nat.eqb new Top then bind f v (O Top [])
        else
          set_wild v false ;;;
          c <- gets (fun s => cell_of s v) ;;
          match c_bound c with
          | Some t => unify f true false false (O new []) t   (* already resolved: check the resolved type *)
          | None =>
              (match c_upper c, c_lower c with
               | Some u, _ =>
                   if osub true u new then fail ESubtypeMismatch
                   else if negb (osub false new u) then fail ESubtypeMismatch
                   else match c_lower c with
                        | Some l =>
                            if osub true new l then ret tt
                            else if osub false l new then set_lower v (Some new) ;;; check_constraints f v
                            else fail ESubtypeMismatch
                        | None => set_lower v (Some new) ;;; check_constraints f v
                        end
               | None, Some l =>
                   if osub true new l then ret tt
                   else if osub false l new then set_lower v (Some new) ;;; check_constraints f v
                   else fail ESubtypeMismatch
               | None, None => set_lower v (Some new) ;;; check_constraints f v
               end) ;;;
              c' <- gets (fun s => cell_of s v) ;;
              match c_bound c', c_lower c', c_upper c' with
              | None, Some l, Some u => if Nat.eqb l u then bind f v (O l []) else ret tt
              | _, _, _ => ret tt
              end
          end
    end

  with below (fuel : nat) (v : nat) (new : nat) {struct fuel} : M unit :=
    match fuel with
    | 0 => fail EFuel
    | S f =>
        if Nat.eqb new Bottom then bind f v (O Bottom [])
        else
          set_wild v false ;;;
          c <- gets (fun s => cell_of s v) ;;
          match c_bound c with
          | Some t => unify f true false false t (O new [])
          | None =>
              (match c_lower c, c_upper c with
               | Some l, _ =>
                   if osub true new l then fail ESubtypeMismatch
                   else if negb (osub false l new) then fail ESubtypeMismatch
                   else match c_upper c with
                        | Some u =>
                            if osub true u new then ret tt
                            else if osub false new u then set_upper v (Some new) ;;; check_constraints f v
                            else fail ESubtypeMismatch
                        | None => set_upper v (Some new) ;;; check_constraints f v
                        end
               | None, Some u =>
                   if osub true u new then ret tt
                   else if osub false new u then set_upper v (Some new) ;;; check_constraints f v
                   else fail ESubtypeMismatch
               | None, None => set_upper v (Some new) ;;; check_constraints f v
               end) ;;;
              c' <- gets (fun s => cell_of s v) ;;
              match c_bound c', c_upper c', c_lower c' with
              | None, Some u, Some l => if Nat.eqb u l then bind f v (O u []) else ret tt
              | _, _, _ => ret tt
              end
          end
    end

  with check_constraints (fuel : nat) (v : nat) {struct fuel} : M unit :=
    match fuel with
    | 0 => fail EFuel
    | S f =>
        pending <- gets (fun s => cset_of s (c_cs (cell_of s v))) ;;
        order <- (if 2 <=? length pending
                  then r <- next_choice ;; ret (permute (length pending) r pending)
                  else ret pending) ;;
        forM order (fun c =>
          done <- fulfill f c ;;
          if done then
            modify (fun s => let i := c_cs (cell_of s v) in set_cset s i (remove_nat c (cset_of s i)))
          else ret tt)
    end

  with fulfill (fuel : nat) (c : nat) {struct fuel} : M bool :=
    match fuel with
    | 0 => fail EFuel
    | S f =>
        k <- gets (fun s => constr_of s c) ;;
        if k_elim k then
          if k_done k then ret true
          else
            minimize f c ;;;
            k1 <- gets (fun s => constr_of s c) ;;
            norm <- gets (fun s => forallb (fun t => match t with
                                                   | V v => match c_bound (cell_of s v) with Some _ => false | None => true end
                                                   | O _ _ => true end) (constr_terms k1)) ;;
            if negb norm then fail (ECrash site_elim_normalized)
            else
              alts <- lift (fun s =>
                (fix go (l : list tyv) : res (list tyv) :=
                   match l with
                   | [] => Ok []
                   | t :: r =>
                       match match_f f s true true (k_ref k1) t with
                       | Er e => Er e
                       | Ok (Some false) => go r
                       | Ok _ => match go r with Er e => Er e | Ok r' => Ok (t :: r') end
                       end
                   end) (k_alts k1)) ;;
              upd_constr c (fun k => mkConstr true (k_ref k) alts (k_strict k) (k_done k)) ;;;
              match alts with
              | [] => fail EConstraintViolation
              | [t] =>
                  upd_constr c (fun k => mkConstr true (k_ref k) (k_alts k) (k_strict k) true) ;;;
                  unify f true false false (k_ref k1) t ;;;
                  d <- gets (fun s => k_done (constr_of s c)) ;; ret d
              | _ => d <- gets (fun s => k_done (constr_of s c)) ;; ret d
              end
        else
          match k_alts k with
          | [target] =>
              unify f true true false (k_ref k) target ;;;
              r <- lift (fun s => match_f f s true false (k_ref k) target) ;;
              match r with
              | Some true =>
                  same <- (if k_strict k
                           then lift (fun s => match_f f s false false (k_ref k) target)
                           else ret (Some false)) ;;
                  match same with
                  | Some true => fail EConstraintViolation     (* strict excludes equality *)
                  | None => d <- gets (fun s => k_done (constr_of s c)) ;; ret d
                  | Some false =>
                      upd_constr c (fun k => mkConstr false (k_ref k) (k_alts k) (k_strict k) true) ;;;
                      ret true
                  end
              | Some false => fail EConstraintViolation
              | None => d <- gets (fun s => k_done (constr_of s c)) ;; ret d
              end
          | _ => fail (ECrash site_arity)
          end
    end

  (* EliminationConstraint.minimize, lines 1031-1049 *)
  with minimize (fuel : nat) (c : nat) {struct fuel} : M unit :=
    match fuel with
    | 0 => fail EFuel
    | S f =>
        k <- gets (fun s => constr_of s c) ;;
        mins <-
          (fix outer (objs : list tyv) (mins : list tyv) : M (list tyv) :=
             match objs with
             | [] => ret mins
             | obj :: rest =>
                 r <- (fix inner (pre post : list tyv) (add : bool) : M (list tyv * bool) :=
                         match post with
                         | [] => ret (pre, add)
                         | mi :: post' =>
                             r1 <- lift (fun s => match_f f s true false mi obj) ;;
                             mi' <- (match r1 with
                                     | Some true => gets (fun s => follow s obj)
                                     | _ => ret mi end) ;;
                             r2 <- lift (fun s => match_f f s true false obj mi') ;;
                             inner (pre ++ [mi']) post'
                                   (match r2 with Some true => false | _ => add end)
                         end) [] mins true ;;
                 let (mins', add) := r in
                 if add then
                   o <- gets (fun s => follow s obj) ;;
                   o' <- fix_ty f true o ;;
                   outer rest (mins' ++ [o'])
                 else outer rest mins'
             end) (k_alts k) [] ;;
        rf <- gets (fun s => follow s (k_ref k)) ;;
        mins' <- gets (fun s => map (follow s) mins) ;;
        upd_constr c (fun k => mkConstr (k_elim k) rf mins' (k_strict k) (k_done k))
    end

  (* TypeInstance.fix, lines 394-409 *)
  with fix_ty (fuel : nat) (prefer_lower : bool) (t : tyv) {struct fuel} : M tyv :=
    match fuel with
    | 0 => fail EFuel
    | S f =>
        a <- gets (fun s => follow s t) ;;
        (match a with
         | O o args =>
             (fix go (vs : list bool) (ps : list tyv) : M unit :=
                match vs, ps with
                | v :: vs', p :: ps' =>
                    fix_ty f (if v then prefer_lower else negb prefer_lower) p ;;; go vs' ps'
                | _, _ => ret tt
                end) (variance H o) args
         | V v =>
             c <- gets (fun s => cell_of s v) ;;
             if prefer_lower then
               match c_lower c with Some l => bind f v (O l []) | None => ret tt end
             else
               match c_upper c with Some u => bind f v (O u []) | None => ret tt end
         end) ;;;
        gets (fun s => follow s a)
    end.

  (* ---------- schemas ---------- *)

  (* schematic type expressions: SVar i = i-th schematic variable,
     SWild = `_` (a fresh wildcard variable per occurrence) *)
  Inductive sty := SVar (i : nat) | SWild | SOp (o : nat) (args : list sty).

  Inductive sconstr :=
  | SCSub (ref target : sty) (strict : bool)
  | SCElim (ref : sty) (alts : list sty).

  Record schema := mkSchema { s_n : nat; s_body : sty; s_constrs : list sconstr }.

  Fixpoint eval_sty (env : list tyv) (t : sty) : M tyv :=
    match t with
    | SVar i => gets (fun s => follow s (nth i env (V 0)))
    | SWild => v <- fresh true ;; ret (V v)
    | SOp o args =>
        xs <- (fix go (l : list sty) : M (list tyv) :=
                 match l with
                 | [] => ret []
                 | a :: r => x <- eval_sty env a ;; xs <- go r ;; ret (x :: xs)
                 end) args ;;
        ret (O o xs)
    end.

  (* Constraint.__init__: fulfilled = False; inform(); fulfill() *)
  Definition new_constraint (fuel : nat) (k : constr) : M unit :=
    c <- (fun s => let (c, s') := alloc_constr s k in MOk c s') ;;
    vs <- lift (fun s => closure_f fuel s (constr_terms k) []) ;;
    forM vs (fun v =>
      cv <- gets (fun s => cell_of s v) ;;
      match c_bound cv with
      | Some _ => fail (ECrash site_inform_bound)
      | None => modify (fun s => let i := c_cs (cell_of s v) in set_cset s i (ins c (cset_of s i)))
      end) ;;;
    _ <- fulfill fuel c ;; ret tt.

  Definition eval_constr (fuel : nat) (env : list tyv) (sc : sconstr) : M unit :=
    match sc with
    | SCSub r t strict =>
        r' <- eval_sty env r ;; t' <- eval_sty env t ;;
        r'' <- gets (fun s => follow s r') ;; t'' <- gets (fun s => follow s t') ;;
        new_constraint fuel (mkConstr false r'' [t''] strict false)
    | SCElim r alts =>
        r' <- eval_sty env r ;;
        alts' <- (fix go (l : list sty) : M (list tyv) :=
                    match l with
                    | [] => ret []
                    | a :: rest => x <- eval_sty env a ;; xs <- go rest ;; ret (x :: xs)
                    end) alts ;;
        r'' <- gets (fun s => follow s r') ;;
        alts'' <- gets (fun s => map (follow s) alts') ;;
        new_constraint fuel (mkConstr true r'' alts'' false false)
    end.

  (* TypeSchema.instance: the schema applied to fresh variables, then fix(prefer_lower=True) *)
  Definition instance (fuel : nat) (sc : schema) : M tyv :=
    env <- fresh_list (s_n sc) ;;
    body <- eval_sty env (s_body sc) ;;
    forM (s_constrs sc) (eval_constr fuel env) ;;;
    fix_ty fuel true body.

  (* Type.apply, lines 134-157 (both operands already instances) *)
  Definition apply (fuel : nat) (f0 x0 : tyv) (fixb : bool) : M tyv :=
    f <- gets (fun s => follow s f0) ;;
    x <- gets (fun s => follow s x0) ;;
    f' <- (match f with
           | V vf =>
               a <- fresh false ;; b <- fresh false ;;
               bind fuel vf (O Function [V a; V b]) ;;;
               gets (fun s => follow s f)
           | _ => ret f
           end) ;;
    match f' with
    | O o [lft; rgt] =>
        if Nat.eqb o Function then
          unify fuel true false false x lft ;;;
          if fixb && negb (is_fun rgt) then fix_ty fuel true rgt else ret rgt
        else if Nat.eqb o Top then ret (O Top [])
        else fail EFunApp
    | O o _ => if Nat.eqb o Top then ret (O Top []) else fail EFunApp
    | V _ => fail EFunApp
    end.
End Engine.
