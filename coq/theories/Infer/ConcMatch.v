(* C03 (concrete alternatives), part 0: facts about CONCRETE (variable-free)
   type instances [inj B] in the engine model.

     - follow / den / fix_ty / minimize leave a concrete type alone and never
       touch the store (closed form of minimize and of the filter loop of
       fulfill for constraints whose alternatives are concrete:
       [minimize_conc], [filt_conc], [fulfill_elim_conc]);
     - [match_true_sound]: when one side is concrete, the verdict
       match(a, b, subtype) = True is sound for EVERY grounding that satisfies
       the store;  [match_strict_sound]: together with the verdict
       match(a, b, subtype=False) = False it excludes equality (the strict
       check of SubtypeConstraint.fulfill);
     - [grd s t T]: t is fully resolved in s, with value T;
       [match_ground]: matching two fully resolved types is DECIDED (never
       None), and a positive verdict in subtype mode is sound. *)
From Coq Require Import List Arith Bool Lia.
Import ListNotations.
From TF Require Import Base.Hier Base.Ty Sub.SubSpec Infer.Store Infer.Engine Infer.Run
  Infer.Witness Infer.Check Infer.Inv Infer.Sound Infer.SchedIndep.
From TF Require Infer.Lub Infer.FitsEngineList Infer.FitsEnginePat.

Module FLc := TF.Infer.FitsEngineList.
Module FPc := TF.Infer.FitsEnginePat.

Unset Implicit Arguments.

Section ConcMatch.
Variable H : hier.
Hypothesis W : wf_hier H.
Local Notation ole := (Lub.ole H).
Local Notation sat := (Sound.sat H).
Local Notation tg := (Sound.tg H).

(* ------------------------------------------------------------------ *)
(* concrete type instances                                              *)
(* ------------------------------------------------------------------ *)
Definition conc (t : tyv) : Prop := exists B, t = inj B.

Lemma inj_unfold o args : inj (TOp o args) = O o (map inj args).
Proof. reflexivity. Qed.

Lemma follow_inj s B : follow s (inj B) = inj B.
Proof. destruct B as [o args]. reflexivity. Qed.

Lemma map_follow_inj s l : map (follow s) (map inj l) = map inj l.
Proof. rewrite map_map. apply map_ext. intros B. apply follow_inj. Qed.

Lemma den_inj th : forall B, den th (inj B) = B.
Proof.
  induction B as [o args IH] using ty_ind'. cbn [inj den]. f_equal.
  rewrite map_map. rewrite <- (map_id args) at 2. apply map_ext_in.
  intros x Hx. rewrite Forall_forall in IH. apply IH. exact Hx.
Qed.

Lemma tg_inj n : forall B, wf_ty H B -> tg n (inj B).
Proof.
  induction B as [o args IH] using ty_ind'. intros Wb. apply wf_ty_unfold in Wb. destruct Wb as [L F].
  cbn [inj]. constructor; [rewrite map_length; exact L|].
  rewrite Forall_forall in *. intros x Hx. apply in_map_iff in Hx. destruct Hx as (y & <- & Hy). auto.
Qed.

Lemma inj_inj : forall A B, inj A = inj B -> A = B.
Proof.
  induction A as [o args IH] using ty_ind'. intros [o' args'] E. cbn [inj] in E. injection E as -> E. f_equal.
  revert args' E. induction IH as [|a r Ha _ IHr]; intros [|b r'] E; cbn [map] in E; try discriminate; [reflexivity|].
  injection E as E1 E2. f_equal; auto.
Qed.

Lemma In_map_inj B l : In (inj B) (map inj l) <-> In B l.
Proof.
  rewrite in_map_iff. split.
  - intros (x & E & Hx). apply inj_inj in E. subst. exact Hx.
  - intros Hb. exists B. auto.
Qed.

Lemma conc_not_var v : ~ conc (V v).
Proof. intros ([o args] & E). discriminate. Qed.

Lemma conc_args o args : conc (O o args) -> Forall conc args.
Proof.
  intros ([o' args'] & E). cbn [inj] in E. injection E as -> ->.
  rewrite Forall_forall. intros x Hx. apply in_map_iff in Hx. destruct Hx as (y & <- & _). exists y. reflexivity.
Qed.

Lemma conc_follow s t : conc t -> follow s t = t.
Proof. intros (B & ->). apply follow_inj. Qed.

(* ------------------------------------------------------------------ *)
(* match_f with the parameter loop named                                *)
(* ------------------------------------------------------------------ *)
Definition margs (f : nat) (s : store) (sub aw : bool) :=
  fix go (vs : list bool) (xs ys : list tyv) (acc : option bool) : res (option bool) :=
    match vs, xs, ys with
    | v :: vs', x :: xs', y :: ys' =>
        match (if v then match_f H f s sub aw x y else match_f H f s sub aw y x) with
        | Er e => Er e
        | Ok (Some false) => Ok (Some false)
        | Ok r => go vs' xs' ys' (tri_and r acc)
        end
    | _, _, _ => Ok acc
    end.

Lemma match_f_OO f s sub aw a0 b0 oa xs ob ys : follow s a0 = O oa xs -> follow s b0 = O ob ys ->
  match_f H (S f) s sub aw a0 b0 =
    if sub && (Nat.eqb oa Bottom || Nat.eqb ob Top) then Ok (Some true)
    else if basic H oa then Ok (Some (Nat.eqb oa ob || (sub && osub H false oa ob)))
    else if negb (Nat.eqb oa ob) then Ok (Some false)
    else margs f s sub aw (variance H oa) xs ys (Some true).
Proof. intros Ea Eb. cbn [match_f]. rewrite Ea, Eb. reflexivity. Qed.

(* a positive final verdict needs a positive accumulator *)
Lemma margs_acc_true f s sub aw : forall vs xs ys acc,
  margs f s sub aw vs xs ys acc = Ok (Some true) -> acc = Some true.
Proof.
  induction vs as [|v vs IH]; intros xs ys acc E; cbn [margs] in E; [inversion E; reflexivity|].
  destruct xs as [|x xs]; [inversion E; reflexivity|]. destruct ys as [|y ys]; [inversion E; reflexivity|].
  destruct (if v then match_f H f s sub aw x y else match_f H f s sub aw y x) as [[[|]|]|e]; try discriminate.
  - apply IH in E. destruct acc as [[|]|]; cbn in E; congruence.
  - apply IH in E. destruct acc as [[|]|]; cbn in E; congruence.
Qed.

Lemma tri_and_true r acc : tri_and r acc = Some true -> r = Some true /\ acc = Some true.
Proof. destruct r as [[|]|], acc as [[|]|]; cbn; intros E; try discriminate; auto. Qed.

(* ------------------------------------------------------------------ *)
(* a positive verdict in subtype mode is sound when one side is concrete *)
(* ------------------------------------------------------------------ *)
Lemma wf_TOp_args o Ts : wf_ty H (TOp o Ts) -> length Ts = length (variance H o) /\ Forall (wf_ty H) Ts.
Proof. intros Wt. apply wf_ty_unfold in Wt. exact Wt. Qed.

Lemma wf_basic_nil o Ts : wf_ty H (TOp o Ts) -> variance H o = [] -> Ts = [].
Proof. intros Wt V0. apply wf_TOp_args in Wt. destruct Wt as [L _]. rewrite V0 in L. destruct Ts; [reflexivity|discriminate]. Qed.

Lemma Forall_wf_map_den th xs : Forall (wf_ty H) (map (den th) xs) -> Forall (fun x => wf_ty H (den th x)) xs.
Proof. rewrite !Forall_forall. intros F x Hx. apply F. apply in_map. exact Hx. Qed.

(* the verdict of the base-operator comparison *)
Lemma base_cmp_Sub oa ob Xs Ys : basic H oa = true -> oa <> Bottom -> ob <> Top ->
  wf_ty H (TOp oa Xs) -> wf_ty H (TOp ob Ys) ->
  Nat.eqb oa ob || osub H false oa ob = true -> Sub H (TOp oa Xs) (TOp ob Ys).
Proof.
  intros Ba NB NT Wa Wb E. pose proof (Sound.basic_var H oa Ba) as Va.
  rewrite (wf_basic_nil _ _ Wa Va).
  assert (A : Anc H oa ob).
  { apply orb_true_iff in E. destruct E as [E|E].
    - apply Nat.eqb_eq in E. subst. apply anc_refl.
    - apply (Lub.osubF_iff H W) in E. destruct E as [E|[E|E]]; congruence. }
  assert (Vb : variance H ob = []).
  { destruct (Anc_inv H W _ _ A) as [<-|(_ & Vb & _)]; auto. }
  rewrite (wf_basic_nil _ _ Wb Vb). apply SubBase; auto.
Qed.

Lemma osub_top st x : op_subtype H st x Top = true.
Proof. unfold op_subtype. replace (Top =? Top) with true by reflexivity. rewrite !orb_true_r. reflexivity. Qed.
Lemma osub_bot st x : op_subtype H st Bottom x = true.
Proof. unfold op_subtype. replace (Bottom =? Bottom) with true by reflexivity. rewrite orb_true_r. reflexivity. Qed.

Lemma basic_bot : basic H Bottom = true. Proof. apply Sound.var_basic. apply (SubSpec.var_bot H W). Qed.
Lemma basic_top : basic H Top = true. Proof. apply Sound.var_basic. apply (SubSpec.var_top H W). Qed.

Section TrueSound.
Variables (s : store) (th : nat -> ty).
Hypothesis S : sat th s.

Definition mts (f : nat) : Prop := forall a0 b0,
  wf_ty H (den th a0) -> wf_ty H (den th b0) -> (conc a0 \/ conc b0) ->
  match_f H f s true false a0 b0 = Ok (Some true) -> Sub H (den th a0) (den th b0).

Lemma margs_true_sound f : mts f -> forall vs xs ys acc,
  margs f s true false vs xs ys acc = Ok (Some true) ->
  length xs = length vs -> length ys = length vs ->
  Forall (fun x => wf_ty H (den th x)) xs -> Forall (fun x => wf_ty H (den th x)) ys ->
  (Forall conc xs \/ Forall conc ys) ->
  ArgsRel (Sub H) vs (map (den th) xs) (map (den th) ys).
Proof.
  intros IH. induction vs as [|v vs IHv]; intros xs ys acc E Lx Ly Fx Fy Cc.
  - destruct xs; [|discriminate]. destruct ys; [|discriminate]. constructor.
  - destruct xs as [|x xs]; [discriminate|]. destruct ys as [|y ys]; [discriminate|].
    cbn [margs] in E. inversion Fx as [|? ? Wx Fx']; subst. inversion Fy as [|? ? Wy Fy']; subst.
    assert (Cxy : conc x \/ conc y).
    { destruct Cc as [C|C]; inversion C; subst; auto. }
    assert (Cr : Forall conc xs \/ Forall conc ys).
    { destruct Cc as [C|C]; inversion C; subst; auto. }
    destruct (if v then match_f H f s true false x y else match_f H f s true false y x) as [r|e] eqn:Em; [|discriminate].
    assert (Er : r = Some true).
    { destruct r as [[|]|]; [reflexivity|discriminate|].
      apply margs_acc_true in E. destruct acc as [[|]|]; discriminate. }
    subst r. cbn [map]. apply AR_cons.
    + destruct v; apply IH; auto. tauto.
    + eapply IHv; eauto.
Qed.

Lemma match_true_sound_all : forall f, mts f.
Proof.
  induction f as [|f IH]; intros a0 b0 Wa Wb Cc E; [discriminate|].
  rewrite <- (den_follow H th s a0 S), <- (den_follow H th s b0 S) in *.
  assert (Cc' : conc (follow s a0) \/ conc (follow s b0)).
  { destruct Cc as [C|C]; [left|right]; rewrite (conc_follow s _ C); exact C. }
  clear Cc. revert E. cbn [match_f].
  destruct (follow s a0) as [va|oa xs] eqn:Ea; destruct (follow s b0) as [vb|ob ys] eqn:Eb; cbn [den] in *.
  - exfalso. destruct Cc' as [C|C]; eapply conc_not_var; eauto.
  - (* V, O *)
    cbn [andb]. destruct (Nat.eqb ob Top) eqn:Et.
    + intros _. apply Nat.eqb_eq in Et. subst ob.
      rewrite (wf_basic_nil _ _ Wb (SubSpec.var_top H W)). apply SubTop.
    + repeat match goal with |- (if ?c then _ else _) = _ -> _ => destruct c end; discriminate.
  - (* O, V *)
    cbn [andb]. destruct (Nat.eqb oa Bottom) eqn:Et.
    + intros _. apply Nat.eqb_eq in Et. subst oa.
      rewrite (wf_basic_nil _ _ Wa (SubSpec.var_bot H W)). apply SubBot.
    + repeat match goal with |- (if ?c then _ else _) = _ -> _ => destruct c end; discriminate.
  - cbn [andb]. destruct (Nat.eqb oa Bottom || Nat.eqb ob Top) eqn:E1.
    { intros _. apply orb_true_iff in E1. destruct E1 as [E1|E1]; apply Nat.eqb_eq in E1; subst.
      - rewrite (wf_basic_nil _ _ Wa (SubSpec.var_bot H W)). apply SubBot.
      - rewrite (wf_basic_nil _ _ Wb (SubSpec.var_top H W)). apply SubTop. }
    apply orb_false_iff in E1. destruct E1 as [NB NT]. apply Nat.eqb_neq in NB, NT.
    destruct (basic H oa) eqn:Ba.
    { intros E. injection E as E. apply base_cmp_Sub; auto. }
    destruct (negb (Nat.eqb oa ob)) eqn:Eab; [discriminate|].
    apply negb_false_iff, Nat.eqb_eq in Eab. subst ob. intros E.
    apply wf_TOp_args in Wa, Wb. destruct Wa as [La Fa], Wb as [Lb Fb]. rewrite map_length in La, Lb.
    apply SubComp.
    + intros V0. apply Sound.var_basic in V0. congruence.
    + apply (margs_true_sound f IH _ _ _ _ E); auto using Forall_wf_map_den.
      destruct Cc' as [C|C]; [left|right]; eapply conc_args; eauto.
Qed.
End TrueSound.

Theorem match_true_sound f s th a0 b0 : sat th s ->
  wf_ty H (den th a0) -> wf_ty H (den th b0) -> (conc a0 \/ conc b0) ->
  match_f H f s true false a0 b0 = Ok (Some true) -> Sub H (den th a0) (den th b0).
Proof. intros S. apply (match_true_sound_all s th S f). Qed.

(* ------------------------------------------------------------------ *)
(* the strict check: subtype verdict True and equality verdict False     *)
(* ------------------------------------------------------------------ *)
Section StrictSound.
Variables (s : store) (th : nat -> ty).
Hypothesis S : sat th s.
Hypothesis Ch : forall v, chain s (V v).

Lemma follow_nb_Ch t : nb s (follow s t).
Proof.
  apply follow_nb_chain. destruct t as [v|o args]; [apply Ch|exists []; constructor].
Qed.

Definition mss (f : nat) : Prop := forall a0 b0,
  wf_ty H (den th a0) -> wf_ty H (den th b0) -> (conc a0 \/ conc b0) ->
  match_f H f s true false a0 b0 = Ok (Some true) ->
  match_f H f s false false a0 b0 = Ok (Some false) -> den th a0 <> den th b0.

Lemma margs_strict_sound f : mss f -> forall vs xs ys acc acc',
  margs f s true false vs xs ys acc = Ok (Some true) ->
  margs f s false false vs xs ys acc' = Ok (Some false) -> acc' <> Some false ->
  Forall (fun x => wf_ty H (den th x)) xs -> Forall (fun x => wf_ty H (den th x)) ys ->
  (Forall conc xs \/ Forall conc ys) ->
  map (den th) xs <> map (den th) ys.
Proof.
  intros IH. induction vs as [|v vs IHv]; intros xs ys acc acc' E E' Na Fx Fy Cc.
  - cbn [margs] in E'. inversion E'; congruence.
  - destruct xs as [|x xs]; [cbn [margs] in E'; inversion E'; congruence|].
    destruct ys as [|y ys]; [cbn [margs] in E'; inversion E'; congruence|].
    cbn [margs] in E, E'. inversion Fx as [|? ? Wx Fx']; subst. inversion Fy as [|? ? Wy Fy']; subst.
    assert (Cxy : conc x \/ conc y).
    { destruct Cc as [C|C]; inversion C; subst; auto. }
    assert (Cr : Forall conc xs \/ Forall conc ys).
    { destruct Cc as [C|C]; inversion C; subst; auto. }
    destruct (if v then match_f H f s true false x y else match_f H f s true false y x) as [r|e] eqn:Em; [|discriminate].
    assert (Er : r = Some true).
    { destruct r as [[|]|]; [reflexivity|discriminate|].
      apply margs_acc_true in E. destruct acc as [[|]|]; discriminate. }
    subst r.
    destruct (if v then match_f H f s false false x y else match_f H f s false false y x) as [r'|e] eqn:Em'; [|discriminate].
    cbn [map]. intros Eq. injection Eq as E1 E2.
    destruct r' as [[|]|].
    + eapply (IHv xs ys); eauto. destruct acc' as [[|]|]; cbn; congruence.
    + destruct v; [eapply (IH x y)|eapply (IH y x)]; eauto; tauto.
    + eapply (IHv xs ys); eauto. destruct acc' as [[|]|]; cbn; congruence.
Qed.

Lemma match_strict_sound_all : forall f, mss f.
Proof.
  induction f as [|f IH]; intros a0 b0 Wa Wb Cc E E'; [discriminate|].
  rewrite <- (den_follow H th s a0 S), <- (den_follow H th s b0 S) in *.
  assert (Cc' : conc (follow s a0) \/ conc (follow s b0)).
  { destruct Cc as [C|C]; [left|right]; rewrite (conc_follow s _ C); exact C. }
  clear Cc. revert E E'. cbn [match_f].
  pose proof (follow_nb_Ch b0) as Nbb.
  destruct (follow s a0) as [va|oa xs] eqn:Ea; destruct (follow s b0) as [vb|ob ys] eqn:Eb; cbn [den] in *.
  - exfalso. destruct Cc' as [C|C]; eapply conc_not_var; eauto.
  - (* V, O: the subtype verdict is True only against Top, where the equality verdict is never False *)
    cbn [andb]. destruct (Nat.eqb ob Top) eqn:Et.
    + intros _. apply Nat.eqb_eq in Et. subst ob. rewrite basic_top. cbn [negb]. rewrite andb_false_r.
      destruct (c_lower (cell_of s va)) as [l|]; destruct (c_upper (cell_of s va)) as [u|];
        unfold osub; rewrite ?osub_top; cbn [negb andb]; discriminate.
    + repeat match goal with |- (if ?c then _ else _) = _ -> _ => destruct c end; discriminate.
  - (* O, V *)
    cbn [andb]. destruct (Nat.eqb oa Bottom) eqn:Et.
    + intros _. apply Nat.eqb_eq in Et. subst oa. rewrite basic_bot. cbn [negb]. rewrite andb_false_r.
      assert (Eu : match c_upper (cell_of s vb) with Some u => negb (osub H false Bottom u) | None => false end = false).
      { destruct (c_upper (cell_of s vb)); [unfold osub; rewrite osub_bot|]; reflexivity. }
      rewrite Eu. clear Eu.
      destruct (c_lower (cell_of s vb)) as [l|] eqn:El; [|discriminate].
      rewrite andb_true_r.
      destruct (negb (osub H false l Bottom)) eqn:Eo; [|discriminate].
      intros _ Eq. apply negb_true_iff in Eo.
      (* th vb = Bottom contradicts the lower bound l *)
      destruct (S vb) as [_ Sv].
      cbn [nb] in Nbb. rewrite Nbb in Sv. destruct Sv as [Sl _]. destruct (Sl l El) as (bb & Eb' & Lb).
      rewrite <- Eq in Eb'. injection Eb' as <-.
      apply (Lub.osubF_iff H W) in Lb. congruence.
    + repeat match goal with |- (if ?c then _ else _) = _ -> _ => destruct c end; discriminate.
  - cbn [andb].
    destruct (basic H oa) eqn:Ba.
    { intros _ E'. destruct (Nat.eqb oa Bottom || Nat.eqb ob Top); injection E' as E'.
      all: rewrite orb_false_r in E'; apply Nat.eqb_neq in E'; intros Eq; injection Eq as Eq _; congruence. }
    destruct (negb (Nat.eqb oa ob)) eqn:Eab.
    { intros _ _. apply negb_true_iff, Nat.eqb_neq in Eab. intros Eq. injection Eq as Eq _. congruence. }
    apply negb_false_iff, Nat.eqb_eq in Eab. subst ob.
    assert (E1 : Nat.eqb oa Bottom || Nat.eqb oa Top = false).
    { apply orb_false_iff. split; apply Nat.eqb_neq; intros ->; [rewrite basic_bot in Ba|rewrite basic_top in Ba]; discriminate. }
    rewrite E1. intros E E'.
    apply wf_TOp_args in Wa, Wb. destruct Wa as [La Fa], Wb as [Lb Fb].
    intros Eq. injection Eq as Eq. revert Eq.
    apply (margs_strict_sound f IH _ _ _ _ _ E E'); auto using Forall_wf_map_den; [discriminate|].
    destruct Cc' as [C|C]; [left|right]; eapply conc_args; eauto.
Qed.
End StrictSound.

Theorem match_strict_sound f s th a0 b0 : sat th s -> (forall v, chain s (V v)) ->
  wf_ty H (den th a0) -> wf_ty H (den th b0) -> (conc a0 \/ conc b0) ->
  match_f H f s true false a0 b0 = Ok (Some true) ->
  match_f H f s false false a0 b0 = Ok (Some false) -> den th a0 <> den th b0.
Proof. intros S Ch. apply (match_strict_sound_all s th S Ch f). Qed.

(* ------------------------------------------------------------------ *)
(* fully resolved types                                                 *)
(* ------------------------------------------------------------------ *)
Inductive grd (s : store) : tyv -> ty -> Prop :=
| gr_bnd v t T : c_bound (cell_of s v) = Some t -> grd s t T -> grd s (V v) T
| gr_op o args Ts : Forall2 (grd s) args Ts -> grd s (O o args) (TOp o Ts).

Section grd_ind'.
  Variable s : store.
  Variable P : tyv -> ty -> Prop.
  Hypothesis HB : forall v t T, c_bound (cell_of s v) = Some t -> grd s t T -> P t T -> P (V v) T.
  Hypothesis HO : forall o args Ts, Forall2 (grd s) args Ts -> Forall2 P args Ts -> P (O o args) (TOp o Ts).
  Fixpoint grd_ind' (t : tyv) (T : ty) (G : grd s t T) {struct G} : P t T :=
    match G in grd _ t T return P t T with
    | gr_bnd _ v t0 T0 Hb G0 => HB v t0 T0 Hb G0 (grd_ind' t0 T0 G0)
    | gr_op _ o args Ts F =>
        HO o args Ts F
          ((fix go (l : list tyv) (L : list ty) (F : Forall2 (grd s) l L) {struct F} : Forall2 P l L :=
              match F in Forall2 _ l L return Forall2 P l L with
              | Forall2_nil _ => Forall2_nil P
              | Forall2_cons x y Gx Fr => Forall2_cons x y (grd_ind' x y Gx) (go _ _ Fr)
              end) args Ts F)
    end.
End grd_ind'.

Lemma grd_inj s : forall B, grd s (inj B) B.
Proof.
  induction B as [o args IH] using ty_ind'. cbn [inj]. constructor.
  induction IH as [|a r Ha _ IHr]; cbn [map]; constructor; auto.
Qed.

Lemma grd_bound_eq s s' : (forall v, c_bound (cell_of s' v) = c_bound (cell_of s v)) ->
  forall t T, grd s t T -> grd s' t T.
Proof.
  intros E t T G. induction G as [v t T Hb G IH|o args Ts F IH] using grd_ind'.
  - econstructor; [rewrite E; exact Hb|exact IH].
  - constructor. exact IH.
Qed.

Lemma grd_det s t T : grd s t T -> forall T', grd s t T' -> T = T'.
Proof.
  intros G. induction G as [v t T Hb G IH|o args Ts F IH] using grd_ind'; intros T' G'.
  - inversion G' as [v' t' T'' Hb' G''|]; subst. rewrite Hb in Hb'. injection Hb' as <-. auto.
  - inversion G' as [|o' args' Ts' F']; subst. f_equal. clear G'. revert Ts' F'.
    induction IH as [|x y l L Pxy _ IHl]; intros Ts0 F0; inversion F0; subst; [reflexivity|].
    inversion F; subst. f_equal; auto.
Qed.

Lemma grd_follow_f s : forall fuel t T, grd s t T -> grd s (follow_f fuel s t) T.
Proof.
  induction fuel as [|f IH]; intros [v|o args] T G; cbn [follow_f]; auto.
  - destruct (c_bound (cell_of s v)); exact G.
  - inversion G as [v' t' T' Hb G'|]; subst. rewrite Hb. apply IH. exact G'.
Qed.

Lemma grd_follow s t T : grd s t T -> grd s (follow s t) T.
Proof. apply grd_follow_f. Qed.

(* the head of a fully resolved type, given that following terminates *)
Lemma grd_follow_O s t T : nb s (follow s t) -> grd s t T ->
  exists o args Ts, follow s t = O o args /\ T = TOp o Ts /\ Forall2 (grd s) args Ts.
Proof.
  intros N G. apply grd_follow in G. destruct (follow s t) as [v|o args].
  - inversion G as [v' t' T' Hb G'|]; subst. cbn [nb] in N. congruence.
  - inversion G as [|o' args' Ts' F']; subst. exists o, args, Ts'. auto.
Qed.

Lemma grd_den s th : sat th s -> forall t T, grd s t T -> den th t = T.
Proof.
  intros S t T G. induction G as [v t T Hb G IH|o args Ts F IH] using grd_ind'.
  - cbn [den]. destruct (S v) as [_ Sv]. rewrite Hb in Sv. rewrite Sv. exact IH.
  - cbn [den]. f_equal. induction IH as [|x y l L Pxy _ IHl]; [reflexivity|]. inversion F; subst.
    cbn [map]. f_equal; auto.
Qed.

(* ------------------------------------------------------------------ *)
(* matching two fully resolved types is decided                          *)
(* ------------------------------------------------------------------ *)
Section Ground.
Variable s : store.
Hypothesis Ch : forall v, chain s (V v).

Lemma follow_nb_C t : nb s (follow s t).
Proof.
  apply follow_nb_chain. destruct t as [v|o args]; [apply Ch|exists []; constructor].
Qed.

Definition mgr (f : nat) : Prop := forall sub aw a b Ta Tb r,
  grd s a Ta -> grd s b Tb -> wf_ty H Ta -> wf_ty H Tb ->
  match_f H f s sub aw a b = Ok r ->
  exists bb, r = Some bb /\ (sub = true -> bb = true -> Sub H Ta Tb).

Lemma margs_ground f sub aw : mgr f -> forall vs xs ys Xs Ys r,
  Forall2 (grd s) xs Xs -> Forall2 (grd s) ys Ys -> Forall (wf_ty H) Xs -> Forall (wf_ty H) Ys ->
  length Xs = length vs -> length Ys = length vs ->
  margs f s sub aw vs xs ys (Some true) = Ok r ->
  exists bb, r = Some bb /\ (sub = true -> bb = true -> ArgsRel (Sub H) vs Xs Ys).
Proof.
  intros IH. induction vs as [|v vs IHv]; intros xs ys Xs Ys r Fx Fy Wx Wy Lx Ly E.
  - destruct Xs; [|discriminate]. destruct Ys; [|discriminate].
    cbn [margs] in E. inversion E; subst. exists true. split; [reflexivity|]. intros _ _. constructor.
  - destruct Xs as [|X Xs]; [discriminate|]. destruct Ys as [|Y Ys]; [discriminate|].
    inversion Fx as [|x ? xs' ? Gx Fx']; subst. inversion Fy as [|y ? ys' ? Gy Fy']; subst.
    inversion Wx as [|? ? WX Wx']; subst. inversion Wy as [|? ? WY Wy']; subst.
    cbn [margs] in E.
    destruct (if v then match_f H f s sub aw x y else match_f H f s sub aw y x) as [r1|e] eqn:Em; [|discriminate].
    assert (D1 : exists bb, r1 = Some bb /\ (sub = true -> bb = true -> if v then Sub H X Y else Sub H Y X)).
    { destruct v; eapply IH; eauto. }
    destruct D1 as (b1 & -> & S1). destruct b1.
    + cbn [tri_and] in E. cbn in Lx, Ly.
      destruct (IHv xs' ys' Xs Ys r Fx' Fy' Wx' Wy') as (bb & -> & Sr); auto.
      exists bb. split; [reflexivity|]. intros Es Eb. apply AR_cons; [apply S1; auto|apply Sr; auto].
    + inversion E; subst. exists false. split; [reflexivity|]. intros _ [=].
Qed.

Lemma match_ground_all : forall f, mgr f.
Proof.
  induction f as [|f IH]; intros sub aw a b Ta Tb r Ga Gb Wa Wb E; [discriminate|].
  destruct (grd_follow_O s a Ta (follow_nb_C a) Ga) as (oa & xs & Xs & Ea & -> & Fa).
  destruct (grd_follow_O s b Tb (follow_nb_C b) Gb) as (ob & ys & Ys & Eb & -> & Fb).
  rewrite (match_f_OO f s sub aw a b oa xs ob ys Ea Eb) in E.
  destruct (sub && (Nat.eqb oa Bottom || Nat.eqb ob Top)) eqn:E1.
  { inversion E; subst. exists true. split; [reflexivity|]. intros _ _.
    apply andb_true_iff in E1. destruct E1 as [_ E1]. apply orb_true_iff in E1.
    destruct E1 as [E1|E1]; apply Nat.eqb_eq in E1; subst.
    - rewrite (wf_basic_nil _ _ Wa (SubSpec.var_bot H W)). apply SubBot.
    - rewrite (wf_basic_nil _ _ Wb (SubSpec.var_top H W)). apply SubTop. }
  destruct (basic H oa) eqn:Ba.
  { inversion E; subst. eexists. split; [reflexivity|]. intros -> Et. cbn [andb] in *.
    apply orb_false_iff in E1. destruct E1 as [NB NT]. apply Nat.eqb_neq in NB, NT.
    apply base_cmp_Sub; auto. }
  destruct (negb (Nat.eqb oa ob)) eqn:Eab.
  { inversion E; subst. exists false. split; [reflexivity|]. intros _ [=]. }
  apply negb_false_iff, Nat.eqb_eq in Eab. subst ob.
  apply wf_TOp_args in Wa, Wb. destruct Wa as [La Wxs], Wb as [Lb Wys].
  destruct (margs_ground f sub aw IH _ _ _ _ _ _ Fa Fb Wxs Wys La Lb E) as (bb & -> & Sr).
  exists bb. split; [reflexivity|]. intros Es Et. apply SubComp; auto.
  intros V0. apply Sound.var_basic in V0. congruence.
Qed.
End Ground.

Theorem match_ground s f sub aw a b Ta Tb r : (forall v, chain s (V v)) ->
  grd s a Ta -> grd s b Tb -> wf_ty H Ta -> wf_ty H Tb ->
  match_f H f s sub aw a b = Ok r ->
  exists bb, r = Some bb /\ (sub = true -> bb = true -> Sub H Ta Tb).
Proof. intros Ch. apply (match_ground_all s Ch f). Qed.

(* in equality mode a negative verdict on fully resolved types is sound *)
Section GroundNe.
Variable s : store.
Hypothesis Ch : forall v, chain s (V v).

Definition mgn (f : nat) : Prop := forall a b Ta Tb,
  grd s a Ta -> grd s b Tb ->
  match_f H f s false false a b = Ok (Some false) -> Ta <> Tb.

Lemma margs_ground_ne f : mgn f -> forall vs xs ys Xs Ys acc,
  Forall2 (grd s) xs Xs -> Forall2 (grd s) ys Ys -> acc <> Some false ->
  margs f s false false vs xs ys acc = Ok (Some false) -> Xs <> Ys.
Proof.
  intros IH. induction vs as [|v vs IHv]; intros xs ys Xs Ys acc Fx Fy Na E.
  - cbn [margs] in E. inversion E; congruence.
  - destruct xs as [|x xs]; [cbn [margs] in E; inversion E; congruence|].
    destruct ys as [|y ys]; [cbn [margs] in E; inversion E; congruence|].
    inversion Fx as [|? X ? Xs' Gx Fx']; subst. inversion Fy as [|? Y ? Ys' Gy Fy']; subst.
    cbn [margs] in E.
    destruct (if v then match_f H f s false false x y else match_f H f s false false y x) as [r1|e] eqn:Em; [|discriminate].
    intros Eq. injection Eq as E1 E2.
    destruct r1 as [[|]|].
    + eapply (IHv xs ys Xs' Ys' (tri_and (Some true) acc)); eauto. destruct acc as [[|]|]; cbn; congruence.
    + destruct v; [eapply (IH x y X Y)|eapply (IH y x Y X)]; eauto.
    + eapply (IHv xs ys Xs' Ys' (tri_and None acc)); eauto. destruct acc as [[|]|]; cbn; congruence.
Qed.

Lemma match_ground_ne_all : forall f, mgn f.
Proof.
  induction f as [|f IH]; intros a b Ta Tb Ga Gb E; [discriminate|].
  destruct (grd_follow_O s a Ta (follow_nb_C s Ch a) Ga) as (oa & xs & Xs & Ea & -> & Fa).
  destruct (grd_follow_O s b Tb (follow_nb_C s Ch b) Gb) as (ob & ys & Ys & Eb & -> & Fb).
  rewrite (match_f_OO f s false false a b oa xs ob ys Ea Eb) in E. cbn [andb] in E.
  destruct (basic H oa).
  { injection E as E. rewrite orb_false_r in E. apply Nat.eqb_neq in E. intros Eq. injection Eq as Eq _. congruence. }
  destruct (negb (Nat.eqb oa ob)) eqn:Eab.
  { apply negb_true_iff, Nat.eqb_neq in Eab. intros Eq. injection Eq as Eq _. congruence. }
  intros Eq. injection Eq as _ Eq. revert Eq.
  eapply (margs_ground_ne f IH); eauto. discriminate.
Qed.
End GroundNe.

Theorem match_ground_ne s f a b Ta Tb : (forall v, chain s (V v)) ->
  grd s a Ta -> grd s b Tb ->
  match_f H f s false false a b = Ok (Some false) -> Ta <> Tb.
Proof. intros Ch. apply (match_ground_ne_all s Ch f). Qed.

(* ------------------------------------------------------------------ *)
(* fixing / minimizing concrete alternatives                             *)
(* ------------------------------------------------------------------ *)
Lemma fix_ty_conc : forall B f pl s r s', fix_ty H f pl (inj B) s = MOk r s' -> r = inj B /\ s' = s.
Proof.
  induction B as [o args IH] using ty_ind'. intros f pl s r s' E.
  destruct f as [|f]; [rewrite fix_ty_0 in E; discriminate|].
  cbn [inj] in E. rewrite FPc.fix_ty_O in E.
  assert (G : forall vs u s1, FPc.fix_args H f pl vs (map inj args) s = MOk u s1 -> s1 = s).
  { clear E. induction IH as [|a l Ha _ IHl]; intros vs u s1 E.
    - destruct vs; cbn in E; inversion E; reflexivity.
    - destruct vs as [|v vs]; [cbn in E; inversion E; reflexivity|].
      cbn [map FPc.fix_args] in E. unfold bindM at 1 in E.
      destruct (fix_ty H f (if v then pl else negb pl) (inj a) s) as [r1 s2|e s2] eqn:E1; [|discriminate].
      destruct (Ha _ _ _ _ _ E1) as (_ & ->). eapply IHl. exact E. }
  destruct (FPc.fix_args H f pl (variance H o) (map inj args) s) as [u s1|e s1] eqn:Ef; [|discriminate].
  inversion E; subst. split; [reflexivity|]. eapply G. exact Ef.
Qed.

Lemma map_inj_snoc l x : map inj l ++ [inj x] = map inj (l ++ [x]).
Proof. rewrite map_app. reflexivity. Qed.

Lemma min_inner_conc f b s : forall post pre add r s',
  FLc.min_inner H f (inj b) (map inj pre) (map inj post) add s = MOk r s' ->
  s' = s /\ exists pre', fst r = map inj pre' /\ incl pre' (b :: pre ++ post) /\
    length pre' = length pre + length post /\ (snd r = false -> add = false \/ post <> []).
Proof.
  induction post as [|mi post IH]; intros pre add r s' E.
  - rewrite FLc.min_inner_nil in E. inversion E; subst. split; [reflexivity|]. exists pre. cbn [fst snd].
    split; [reflexivity|split; [|split; [cbn; lia|auto]]]. intros x Hx. right. rewrite app_nil_r. exact Hx.
  - cbn [map] in E. rewrite FLc.min_inner_cons in E.
    unfold bindM at 1 in E. unfold lift at 1 in E.
    destruct (match_f H f s true false (inj mi) (inj b)) as [r1|e]; [|discriminate].
    unfold bindM at 1 in E.
    assert (E1 : exists m', In m' [b; mi] /\
              (match r1 with Some true => gets (fun s0 => follow s0 (inj b)) | _ => ret (inj mi) end) s = MOk (inj m') s).
    { destruct r1 as [[|]|]; unfold gets, ret; rewrite ?follow_inj; eexists; split; try reflexivity; cbn; auto. }
    destruct E1 as (m' & Hm' & E1). rewrite E1 in E. clear E1.
    unfold bindM at 1 in E. unfold lift at 1 in E.
    destruct (match_f H f s true false (inj b) (inj m')) as [r2|e]; [|discriminate].
    rewrite map_inj_snoc in E. apply IH in E. destruct E as (-> & pre' & E1 & Il & Ln & Sa).
    split; [reflexivity|]. exists pre'. split; [exact E1|split; [|split]].
    + intros x Hx. apply Il in Hx. destruct Hx as [<-|Hx]; [left; reflexivity|].
      apply in_app_or in Hx. destruct Hx as [Hx|Hx].
      * apply in_app_or in Hx. destruct Hx as [Hx|[<-|[]]].
        -- right. apply in_or_app. left. exact Hx.
        -- destruct Hm' as [<-|[<-|[]]]; [left; reflexivity|right; apply in_or_app; right; left; reflexivity].
      * right. apply in_or_app. right. right. exact Hx.
    + rewrite Ln, app_length. cbn. lia.
    + intros _. right. discriminate.
Qed.

Lemma min_outer_conc f s : forall objs mins r s',
  FLc.min_outer H f (map inj objs) (map inj mins) s = MOk r s' ->
  s' = s /\ exists ms, r = map inj ms /\ incl ms (objs ++ mins) /\
    length mins <= length ms /\ (objs <> [] -> ms <> []).
Proof.
  induction objs as [|obj rest IH]; intros mins r s' E.
  - rewrite FLc.min_outer_nil in E. inversion E; subst. split; [reflexivity|]. exists mins.
    split; [reflexivity|split; [apply incl_refl|split; [lia|congruence]]].
  - cbn [map] in E. rewrite FLc.min_outer_cons in E. unfold bindM at 1 in E.
    change (@nil tyv) with (map inj []) in E.
    destruct (FLc.min_inner H f (inj obj) (map inj []) (map inj mins) true s) as [[mins' add] s1|e s1] eqn:Ei; [|discriminate].
    apply min_inner_conc in Ei. destruct Ei as (-> & pre' & E1 & Il & Ln & Sa). cbn [fst snd] in *. subst mins'.
    cbn [app length] in Il, Ln.
    destruct add.
    + unfold bindM at 1 in E. unfold gets at 1 in E. rewrite follow_inj in E.
      unfold bindM at 1 in E.
      destruct (fix_ty H f true (inj obj) s) as [o' s2|e s2] eqn:Ef; [|discriminate].
      apply fix_ty_conc in Ef. destruct Ef as (-> & ->).
      rewrite map_inj_snoc in E. apply IH in E. destruct E as (-> & ms & -> & Im & Lm & _).
      split; [reflexivity|]. exists ms. split; [reflexivity|split; [|split]].
      * intros x Hx. apply Im in Hx. apply in_app_or in Hx. destruct Hx as [Hx|Hx].
        -- right. apply in_or_app. left. exact Hx.
        -- apply in_app_or in Hx. destruct Hx as [Hx|[<-|[]]]; [|left; reflexivity].
           apply Il in Hx. destruct Hx as [<-|Hx]; [left; reflexivity|right; apply in_or_app; right; exact Hx].
      * rewrite app_length in Lm. cbn in Lm. lia.
      * intros _ ->. rewrite app_length in Lm. cbn in Lm. lia.
    + apply IH in E. destruct E as (-> & ms & -> & Im & Lm & _).
      split; [reflexivity|]. exists ms. split; [reflexivity|split; [|split]].
      * intros x Hx. apply Im in Hx. apply in_app_or in Hx. destruct Hx as [Hx|Hx].
        -- right. apply in_or_app. left. exact Hx.
        -- apply Il in Hx. destruct Hx as [<-|Hx]; [left; reflexivity|right; apply in_or_app; right; exact Hx].
      * lia.
      * intros _ ->. destruct (Sa eq_refl) as [?|Ne]; [discriminate|].
        destruct mins; [congruence|]. cbn in *. lia.
Qed.

(* minimize on a constraint with concrete alternatives: only the constraint
   object changes; the new alternatives are among the old ones *)
Lemma minimize_conc f c s l u s' : k_alts (constr_of s c) = map inj l ->
  minimize H f c s = MOk u s' ->
  exists l1, incl l1 l /\ (l <> [] -> l1 <> []) /\
    s' = set_constr s c (mkConstr (k_elim (constr_of s c)) (follow s (k_ref (constr_of s c)))
                                  (map inj l1) (k_strict (constr_of s c)) (k_done (constr_of s c))).
Proof.
  intros Ea E. destruct f as [|f]; [rewrite minimize_0 in E; discriminate|].
  rewrite FLc.minimize_S' in E. unfold bindM at 1 in E. unfold gets at 1 in E. rewrite Ea in E.
  unfold bindM at 1 in E. change (@nil tyv) with (map inj []) in E.
  destruct (FLc.min_outer H f (map inj l) (map inj []) s) as [mins s1|e s1] eqn:Eo; [|discriminate].
  apply min_outer_conc in Eo. destruct Eo as (-> & ms & -> & Im & _ & Ne).
  unfold bindM at 1 in E. unfold gets at 1 in E. unfold bindM at 1 in E. unfold gets at 1 in E.
  rewrite map_follow_inj in E. unfold upd_constr, modify in E. inversion E; subst.
  exists ms. split; [|split; [exact Ne|reflexivity]].
  intros x Hx. apply Im in Hx. rewrite app_nil_r in Hx. exact Hx.
Qed.

(* the filter loop of fulfill on concrete alternatives *)
Lemma filt_conc f s r : forall l l', FLc.filt H f s r (map inj l) = Ok l' ->
  exists l2, l' = map inj l2 /\ incl l2 l /\
    forall B, In B l2 -> exists x, match_f H f s true true r (inj B) = Ok x /\ x <> Some false.
Proof.
  induction l as [|b l IH]; intros l' E.
  - rewrite FLc.filt_nil in E. inversion E; subst. exists []. split; [reflexivity|split; [apply incl_refl|]].
    intros B [].
  - cbn [map] in E. rewrite FLc.filt_cons in E.
    destruct (match_f H f s true true r (inj b)) as [x|e] eqn:Em; [|discriminate].
    assert (Keep : x <> Some false -> match FLc.filt H f s r (map inj l) with Er e => Er e | Ok r' => Ok (inj b :: r') end = Ok l' ->
              exists l2, l' = map inj l2 /\ incl l2 (b :: l) /\
                forall B, In B l2 -> exists x, match_f H f s true true r (inj B) = Ok x /\ x <> Some false).
    { intros Nx E'. destruct (FLc.filt H f s r (map inj l)) as [r'|e]; [|discriminate].
      destruct (IH r' eq_refl) as (l2 & -> & Il & Hm). inversion E'; subst.
      exists (b :: l2). split; [reflexivity|split].
      - intros y [<-|Hy]; [left; reflexivity|right; apply Il; exact Hy].
      - intros B [<-|HB]; [eauto|apply Hm; exact HB]. }
    destruct x as [[|]|].
    + apply Keep; [discriminate|exact E].
    + destruct (IH l' E) as (l2 & -> & Il & Hm). exists l2. split; [reflexivity|split; [|exact Hm]].
      intros y Hy. right. apply Il. exact Hy.
    + apply Keep; [discriminate|exact E].
Qed.

Definition set_altsC (k : constr) (r : tyv) (alts : list tyv) (d : bool) : constr :=
  mkConstr true r alts (k_strict k) d.

(* what a successful fulfill of a pending elimination constraint with
   concrete alternatives did *)
Lemma fulfill_elim_conc f c s l b s' :
  k_elim (constr_of s c) = true -> k_done (constr_of s c) = false ->
  k_alts (constr_of s c) = map inj l -> c < length (constrs s) ->
  fulfill H (S f) c s = MOk b s' ->
  let k := constr_of s c in
  let r0 := follow s (k_ref k) in
  exists l1 l2, incl l1 l /\ incl l2 l1 /\
    (forall B, In B l2 -> exists x,
       match_f H f (set_constr s c (set_altsC k r0 (map inj l1) false)) true true r0 (inj B) = Ok x /\ x <> Some false) /\
    ((exists m1 m2 rest, l2 = m1 :: m2 :: rest /\
        s' = set_constr s c (set_altsC k r0 (map inj l2) false) /\ b = false) \/
     (exists m u, l2 = [m] /\
        unify H f true false false r0 (inj m) (set_constr s c (set_altsC k r0 [inj m] true)) = MOk u s' /\
        b = k_done (constr_of s' c))).
Proof.
  intros Ee Ed Ea Lc E k r0.
  rewrite FLc.fulfill_S' in E. unfold bindM at 1 in E. unfold gets at 1 in E.
  fold k in E. unfold k in E at 1 2. rewrite Ee, Ed in E. fold k in E.
  unfold bindM at 1 in E.
  destruct (minimize H f c s) as [u1 s1|e s1] eqn:Em; [|discriminate].
  destruct (minimize_conc f c s l u1 s1 Ea Em) as (l1 & Il1 & _ & ->). fold k in E. fold r0 in E.
  unfold k in E at 1 3. rewrite Ee, Ed in E. fold k in E.
  change (mkConstr true r0 (map inj l1) (k_strict k) false) with (set_altsC k r0 (map inj l1) false) in E.
  set (s1 := set_constr s c (set_altsC k r0 (map inj l1) false)) in *.
  assert (C1 : constr_of s1 c = set_altsC k r0 (map inj l1) false).
  { unfold s1. apply constr_of_set_constr_same. exact Lc. }
  unfold bindM at 1 in E. unfold gets at 1 in E. rewrite C1 in E.
  unfold bindM at 1 in E. unfold gets at 1 in E.
  match type of E with (if negb ?n then _ else _) _ = _ => destruct n end; [|discriminate].
  cbn [negb] in E. unfold bindM at 1 in E. unfold lift at 1 in E. cbn [set_altsC k_ref k_alts] in E.
  destruct (FLc.filt H f s1 r0 (map inj l1)) as [alts|e] eqn:Ef; [|discriminate].
  destruct (filt_conc f s1 r0 l1 alts Ef) as (l2 & -> & Il2 & Hm).
  exists l1, l2. split; [exact Il1|split; [exact Il2|split; [exact Hm|]]].
  unfold bindM at 1 in E. unfold upd_constr at 1 in E. unfold modify at 1 in E.
  rewrite C1 in E. cbn [set_altsC k_ref k_strict k_done] in E.
  assert (Es2 : set_constr s1 c (mkConstr true r0 (map inj l2) (k_strict k) false) =
                set_constr s c (set_altsC k r0 (map inj l2) false)).
  { unfold s1, set_constr, set_altsC. cbn [vars csets constrs sched]. rewrite si_upd_upd. reflexivity. }
  rewrite Es2 in E. set (s2 := set_constr s c (set_altsC k r0 (map inj l2) false)) in *.
  assert (C2 : constr_of s2 c = set_altsC k r0 (map inj l2) false).
  { unfold s2. apply constr_of_set_constr_same. exact Lc. }
  destruct l2 as [|m1 [|m2 rest]].
  - discriminate.
  - right. cbn [map] in E. unfold bindM at 1 in E. unfold upd_constr at 1 in E. unfold modify at 1 in E.
    rewrite C2 in E. cbn [set_altsC k_ref k_alts k_strict map] in E.
    assert (Es3 : set_constr s2 c (mkConstr true r0 [inj m1] (k_strict k) true) =
                  set_constr s c (set_altsC k r0 [inj m1] true)).
    { unfold s2, set_constr, set_altsC. cbn [vars csets constrs sched]. rewrite si_upd_upd. reflexivity. }
    rewrite Es3 in E. clear Es3.
    unfold bindM at 1 in E.
    destruct (unify H f true false false r0 (inj m1) _) as [u s4|e s4] eqn:Eu; [|discriminate].
    unfold bindM, gets, ret in E. inversion E; subst. exists m1, u. auto.
  - left. cbn [map] in E. unfold bindM, gets, ret in E. inversion E; subst.
    rewrite C2. cbn. eauto 6.
Qed.

End ConcMatch.
