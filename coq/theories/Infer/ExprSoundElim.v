(* C04 for languages whose operators carry ELIMINATION constraints over
   base-type alternatives (`x << [A, B]`) and/or pure subtype constraints
   (`x <= A`, `x < A`) - class [progE] of Infer/SoundElimS.v.

   Unlike a pure subtype constraint, an elimination constraint is REWRITTEN by
   the engine: minimize / fulfill replace its reference by what the reference
   follows to and filter its alternatives.  So the constraint frame of
   Infer/ExprSoundSub.v ("no operation changes reference, target, strictness")
   is replaced by

   Part 1  [kfr n s s']: from s to s' exactly n constraint objects were
           allocated, every binding of s is still there ([cellext]), and every
           old constraint object kept its kind and strictness, a subtype
           constraint also its target, and its new reference is REACHABLE from
           the old one along the bindings of s' ([reach]).  One induction on
           fuel over unify / bind / above / below / fix_ty / check_constraints
           / fulfill / minimize ([kq_all]); no invariant is needed.
   Part 2  allocation order: [instance] of a schema with m constraints of
           class [pscE] allocates exactly m constraint objects, in declaration
           order, the j-th one of the declared kind (and strictness, target),
           with a reference reachable from the fresh variable of the schematic
           variable it constrains ([instance_allocE]).
   Part 3  what an instance denotes, with the substitution explicit, on stores
           that carry constraints of both kinds ([instance_instE]).
   Part 4  programs of class [progEQ] = CInst over such schemas / CApply /
           CUnify (subtype mode) / CFix ([progE] of C03_elim is the sub-class
           without the last two): forward soundness with the semantic reading
           of every command ([run_cmds_goodEQ], from SoundElimS's per-operation
           specs unify_soundE / fix_soundE / apply_goodE / instance_goodE), the
           constraint invariant ([run_cmdsKQ], from SoundElimK's unifyK / fixK /
           applyK / instanceK), [progEQ_final]; the leaf facts along a run
           ([run_cmds_leavesE]): for the leaf instantiated by the CInst with
           value index k the j-th declared constraint is constraint object
           c0 + j of the FINAL store, entry c0 + j of [decls prog] is what it
           declares, and its reference is on the binding chain of the leaf's
           own variable.
   Part 5  the constraint clauses of C03_elim re-derived from the invariants
           alone ([finE]: [fin_constraints], [fin_constraints_hold],
           [fin_sub_constraints_hold], [fin_bounded], [fin_satisfiable]) so
           that they apply to [progEQ] programs.
   Part 6  [leaf_semE], [prog_leaves_elim], [prog_sem_elim]; expressions
           ([leaves_okE], [code_progE], [expr_elim]).
   Part 7  the full compiled program with inputs, annotations and the fix
           traversal ([xokE], [xprog_okE], [xexpr_elim]). *)
From Coq Require Import List Arith Bool Lia Permutation.
Import ListNotations.
From TF Require Import Base.Hier Base.Ty Sub.SubSpec Infer.Store Infer.Engine Infer.Run
  Infer.Witness Infer.Check Infer.Sched Infer.Inv Infer.Sound Infer.SchedIndep Infer.SoundSub
  Infer.SoundElimS Infer.SoundElimK Infer.SoundElim Infer.ExprSound Infer.ExprSoundSub.
From TF Require Infer.Lub Infer.FitsEngineList.

Unset Implicit Arguments.

(* ================================================================== *)
(* Part 1.  The constraint frame with rewritten references              *)
(* ================================================================== *)
Section Reach.

(* b is on the binding chain that starts at a *)
Inductive reach (s : store) : tyv -> tyv -> Prop :=
| reach_refl a : reach s a a
| reach_step v t b : c_bound (cell_of s v) = Some t -> reach s t b -> reach s (V v) b.

Lemma reach_trans s a b c : reach s a b -> reach s b c -> reach s a c.
Proof. induction 1 as [a|v t b Hv Hr IH]; intros R; [exact R|]. eapply reach_step; eauto. Qed.

(* every binding of s is a binding of s' *)
Definition cellext (s s' : store) : Prop :=
  forall v t, c_bound (cell_of s v) = Some t -> c_bound (cell_of s' v) = Some t.

Lemma cellext_refl s : cellext s s.
Proof. intros v t E. exact E. Qed.

Lemma cellext_trans s1 s2 s3 : cellext s1 s2 -> cellext s2 s3 -> cellext s1 s3.
Proof. intros A B v t E. apply B. apply A. exact E. Qed.

Lemma reach_mono s s' a b : cellext s s' -> reach s a b -> reach s' a b.
Proof.
  intros C. induction 1 as [a|v t b Hv Hr IH]; [apply reach_refl|].
  eapply reach_step; [apply C; exact Hv|exact IH].
Qed.

Lemma cellext_vars s s' : vars s' = vars s -> cellext s s'.
Proof. intros E v t Hv. unfold cell_of in *. rewrite E. exact Hv. Qed.

Lemma reach_follow_f s : forall n t, reach s t (follow_f n s t).
Proof.
  induction n as [|n IH]; intros [v|o args]; cbn [follow_f]; try apply reach_refl.
  - destruct (c_bound (cell_of s v)); apply reach_refl.
  - destruct (c_bound (cell_of s v)) as [t'|] eqn:Hv; [|apply reach_refl].
    eapply reach_step; [exact Hv|apply IH].
Qed.

Lemma reach_follow s t : reach s t (follow s t).
Proof. apply reach_follow_f. Qed.

(* what is reachable resolves to the same *)
Lemma reach_rsv s a b : reach s a b -> forall r, rsv s a r -> rsv s b r.
Proof.
  induction 1 as [a|v t b Hv Hr IH]; intros r R; [exact R|].
  apply IH. inversion R; subst; congruence.
Qed.

Lemma reach_follow_eq s a b : core s -> reach s a b -> follow s b = follow s a.
Proof.
  intros C R. apply rsv_follow. eapply reach_rsv; [exact R|]. apply follow_rsv. exact C.
Qed.

(* the frame of one old constraint object *)
Definition kkeep (s' : store) (k k' : constr) : Prop :=
  reach s' (k_ref k) (k_ref k') /\ k_elim k' = k_elim k /\ k_strict k' = k_strict k /\
  (k_elim k = false -> k_alts k' = k_alts k).

Lemma kkeep_refl s k : kkeep s k k.
Proof. split; [apply reach_refl|auto]. Qed.

Lemma kkeep_trans s2 s3 k1 k2 k3 : cellext s2 s3 -> kkeep s2 k1 k2 -> kkeep s3 k2 k3 -> kkeep s3 k1 k3.
Proof.
  intros C (R1 & E1 & S1 & A1) (R2 & E2 & S2 & A2).
  split; [eapply reach_trans; [eapply reach_mono; eauto|exact R2]|].
  split; [congruence|split; [congruence|]]. intros Ee. rewrite A2 by congruence. apply A1. exact Ee.
Qed.

Lemma kkeep_mono s s' k k' : cellext s s' -> kkeep s k k' -> kkeep s' k k'.
Proof. intros C (R & X). split; [eapply reach_mono; eauto|exact X]. Qed.

(* from s to s' exactly n constraint objects were allocated; bindings and old
   constraint objects are kept in the sense above *)
Definition kfr (n : nat) (s s' : store) : Prop :=
  cellext s s' /\ length (constrs s') = n + length (constrs s) /\
  forall c, c < length (constrs s) -> kkeep s' (constr_of s c) (constr_of s' c).

Lemma kfr_refl s : kfr 0 s s.
Proof. split; [apply cellext_refl|split; [reflexivity|]]. intros c _. apply kkeep_refl. Qed.

Lemma kfr_trans n m s1 s2 s3 : kfr n s1 s2 -> kfr m s2 s3 -> kfr (m + n) s1 s3.
Proof.
  intros (C1 & L1 & K1) (C2 & L2 & K2). split; [eapply cellext_trans; eauto|split; [lia|]].
  intros c Lc. eapply kkeep_trans; [exact C2|apply K1; exact Lc|apply K2; lia].
Qed.

Lemma kfr_trans0 s1 s2 s3 : kfr 0 s1 s2 -> kfr 0 s2 s3 -> kfr 0 s1 s3.
Proof. apply (kfr_trans 0 0). Qed.

(* stores with the same bindings and the same constraint objects *)
Lemma kfr_same s s' : (forall v, c_bound (cell_of s' v) = c_bound (cell_of s v)) ->
  constrs s' = constrs s -> kfr 0 s s'.
Proof.
  intros B E. split; [intros v t Hv; rewrite B; exact Hv|split; [rewrite E; reflexivity|]].
  intros c _. unfold constr_of. rewrite E. apply kkeep_refl.
Qed.

Lemma kfr_vars s s' : vars s' = vars s -> constrs s' = constrs s -> kfr 0 s s'.
Proof. intros Ev Ek. apply kfr_same; [|exact Ek]. intros v. unfold cell_of. rewrite Ev. reflexivity. Qed.

Lemma kfr_set_cell s v c' : c_bound c' = c_bound (cell_of s v) -> kfr 0 s (set_cell s v c').
Proof.
  intros E. apply kfr_same; [|reflexivity]. intros w.
  destruct (cell_of_set_cell s v c' w) as [(Ew & -> & _)|Ew]; rewrite Ew; auto.
Qed.

(* binding an unbound variable *)
Lemma kfr_bind_cell s v c' : c_bound (cell_of s v) = None -> kfr 0 s (set_cell s v c').
Proof.
  intros Hb. split; [|split; [reflexivity|intros c _; apply kkeep_refl]].
  intros w t Hw. destruct (cell_of_set_cell s v c' w) as [(Ew & -> & _)|Ew]; [congruence|].
  rewrite Ew. exact Hw.
Qed.

Lemma kfr_set_constr s c k' : kkeep s (constr_of s c) k' -> kfr 0 s (set_constr s c k').
Proof.
  intros Kk. split; [intros v t E; exact E|split; [cbn; apply upd_length|]].
  intros c' _. destruct (constr_of_set_constr s c k' c') as [(E & -> & _)|E]; rewrite E.
  - destruct Kk as (R & X). split; [|exact X]. eapply reach_mono; [|exact R]. intros v t Hv; exact Hv.
  - apply kkeep_refl.
Qed.

Lemma kfr_alloc_constr s k : kfr 1 s (snd (alloc_constr s k)).
Proof.
  split; [intros v t E; exact E|split; [apply alloc_constr_length|]].
  intros c Lc. rewrite alloc_constr_old by exact Lc. apply kkeep_refl.
Qed.

(* ---- the frame as a property of computations ---- *)
Definition kq {A} (m : M A) : Prop := forall s a s', m s = MOk a s' -> kfr 0 s s'.

Lemma kq_ret {A} (a : A) : kq (ret a).
Proof. intros s a' s' E. inversion E; subst. apply kfr_refl. Qed.

Lemma kq_fail {A} e : kq (@fail A e).
Proof. intros s a' s' E. discriminate. Qed.

Lemma kq_bind {A B} (m : M A) (k : A -> M B) : kq m -> (forall a, kq (k a)) -> kq (bindM m k).
Proof.
  intros Sm Sk s b s' E. unfold bindM in E.
  destruct (m s) as [a s1|e s1] eqn:Em; [|discriminate].
  eapply kfr_trans0; [apply (Sm s a s1 Em)|apply (Sk a s1 b s' E)].
Qed.

Lemma kq_gets {A} (g : store -> A) : kq (gets g).
Proof. intros s a s' E. inversion E; subst. apply kfr_refl. Qed.

Lemma kq_lift {A} (r : store -> res A) : kq (lift r).
Proof. intros s a s' E. unfold lift in E. destruct (r s); inversion E; subst. apply kfr_refl. Qed.

Lemma kq_modify (g : store -> store) : (forall s, vars (g s) = vars s /\ constrs (g s) = constrs s) ->
  kq (modify g).
Proof. intros G s a s' E. inversion E; subst. apply kfr_vars; apply G. Qed.

Lemma kq_upd_cell v g : (forall c, c_bound (g c) = c_bound c) -> kq (upd_cell v g).
Proof. intros G s a s' E. inversion E; subst. apply kfr_set_cell. apply G. Qed.

Lemma kq_upd_constr c g :
  (forall k, k_ref (g k) = k_ref k /\ k_elim (g k) = k_elim k /\ k_strict (g k) = k_strict k /\
             (k_elim k = false -> k_alts (g k) = k_alts k)) -> kq (upd_constr c g).
Proof.
  intros G s a s' E. inversion E; subst. apply kfr_set_constr.
  destruct (G (constr_of s c)) as (Er & X). split; [rewrite Er; apply reach_refl|exact X].
Qed.

Lemma kq_fresh w : kq (fresh w).
Proof.
  intros s a s' E. unfold fresh in E. destruct (alloc_var s w) as [v s0] eqn:Ea. inversion E; subst.
  replace s' with (snd (alloc_var s w)) by (rewrite Ea; reflexivity).
  apply kfr_same; [intros x; apply alloc_var_bound|reflexivity].
Qed.

Lemma kq_fresh_list : forall n, kq (fresh_list n).
Proof.
  induction n as [|n IH]; cbn [fresh_list]; [apply kq_ret|].
  apply kq_bind; [apply kq_fresh|]. intros v.
  apply kq_bind; [exact IH|]. intros r. apply kq_ret.
Qed.

Lemma kq_next_choice : kq next_choice.
Proof.
  intros s a s' E. unfold next_choice in E. destruct (sched s); inversion E; subst;
    [apply kfr_refl|apply kfr_vars; reflexivity].
Qed.

Lemma kq_forM {A} (f : A -> M unit) : (forall x, kq (f x)) -> forall l, kq (forM l f).
Proof.
  intros F. induction l as [|x l IH]; cbn [forM]; [apply kq_ret|].
  apply kq_bind; auto.
Qed.

End Reach.

Ltac kq_step :=
  first
    [ apply kq_ret
    | apply kq_fail
    | apply kq_fresh_list
    | apply kq_fresh
    | apply kq_next_choice
    | apply kq_gets
    | apply kq_lift
    | apply kq_upd_cell; reflexivity
    | apply kq_modify; intro; split; reflexivity
    | apply kq_upd_constr; intro; repeat split; reflexivity
    | apply kq_bind; [|intro]
    | apply kq_forM; intro
    | match goal with
      | |- kq (if ?c then _ else _) => destruct c
      | |- kq (match ?x with _ => _ end) => destruct x
      end ].

(* the frame under a store property that the frame itself preserves *)
Section Cond.
Variable P : store -> Prop.
Hypothesis Pcl : forall s s', P s -> kfr 0 s s' -> P s'.

Definition kqP {A} (m : M A) : Prop := forall s, P s -> forall a s', m s = MOk a s' -> kfr 0 s s'.

Lemma kqP_of_kq {A} (m : M A) : kq m -> kqP m.
Proof. intros K s _ a s' E. apply (K s a s' E). Qed.

Lemma kqP_bind {A B} (m : M A) (k : A -> M B) : kqP m -> (forall a, kqP (k a)) -> kqP (bindM m k).
Proof.
  intros Sm Sk s Ps b s' E. unfold bindM in E.
  destruct (m s) as [a s1|e s1] eqn:Em; [|discriminate].
  pose proof (Sm s Ps a s1 Em) as K1.
  eapply kfr_trans0; [exact K1|apply (Sk a s1 (Pcl s s1 Ps K1) b s' E)].
Qed.
End Cond.

(* the kind of constraint c is b *)
Definition kindis (c : nat) (b : bool) (s : store) : Prop := k_elim (constr_of s c) = b.

Lemma kindis_closed c b s s' : kindis c b s -> kfr 0 s s' -> kindis c b s'.
Proof.
  unfold kindis. intros E (_ & L & K).
  destruct (Nat.lt_ge_cases c (length (constrs s))) as [Lc|Lc].
  - destruct (K c Lc) as (_ & Ee & _). congruence.
  - rewrite constr_of_oob in E by exact Lc. rewrite constr_of_oob by lia. exact E.
Qed.

Lemma kqP_upd_constr c b g :
  (forall k, k_elim k = b -> k_ref (g k) = k_ref k /\ k_elim (g k) = k_elim k /\ k_strict (g k) = k_strict k /\
             (k_elim k = false -> k_alts (g k) = k_alts k)) -> kqP (kindis c b) (upd_constr c g).
Proof.
  intros G s Ps a s' E. inversion E; subst. apply kfr_set_constr.
  destruct (G (constr_of s c) Ps) as (Er & X). split; [rewrite Er; apply reach_refl|exact X].
Qed.

Section Frame.
Variable H : hier.
Local Notation min_outer := (FL.min_outer H).
Local Notation min_inner := (FL.min_inner H).

Definition kqs (f : nat) : Prop :=
  (forall sub skb skw a b, kq (unify H f sub skb skw a b)) /\
  (forall v t, kq (bind H f v t)) /\
  (forall v o, kq (above H f v o)) /\
  (forall v o, kq (below H f v o)) /\
  (forall pl t, kq (fix_ty H f pl t)) /\
  (forall v, kq (check_constraints H f v)) /\
  (forall c, kq (fulfill H f c)) /\
  (forall c s u s', k_elim (constr_of s c) = true -> minimize H f c s = MOk u s' -> kfr 0 s s').

Lemma kqs_0 : kqs 0.
Proof. unfold kqs. repeat apply conj; intros; try apply kq_fail. discriminate. Qed.


Lemma kq_min_inner f obj : forall post pre add, kq (min_inner f obj pre post add).
Proof.
  induction post as [|mi post IH]; intros pre add.
  - rewrite FL.min_inner_nil. apply kq_ret.
  - rewrite FL.min_inner_cons. repeat kq_step; apply IH.
Qed.

Lemma kq_min_outer f : (forall pl t, kq (fix_ty H f pl t)) -> forall objs mins, kq (min_outer f objs mins).
Proof.
  intros Fx. induction objs as [|obj rest IH]; intros mins.
  - apply kq_ret.
  - rewrite FL.min_outer_cons. apply kq_bind; [apply kq_min_inner|]. intros [mins' add].
    destruct add; [|apply IH]. repeat kq_step; auto.
Qed.

Lemma kqs_step f : kqs f -> kqs (S f).
Proof.
  intros (IHu & IHb & IHa & IHl & IHx & IHc & IHf & IHm).
  assert (Hb : forall v t, kq (bind H (S f) v t)).
  { intros v t s a s' E. rewrite bind_S in E.
    unfold bindM at 1 in E. unfold gets at 1 in E.
    destruct (c_bound (cell_of s v)) eqn:Hb; [discriminate|].
    unfold bindM at 1 in E. unfold set_wild at 1, upd_cell at 1, modify at 1 in E.
    set (s1 := set_cell s v _) in E.
    assert (K1 : kfr 0 s s1) by (apply kfr_set_cell; reflexivity).
    assert (B1 : c_bound (cell_of s1 v) = None).
    { destruct (cell_of_set_cell s v (mkCell false (c_bound (cell_of s v)) (c_lower (cell_of s v))
                  (c_upper (cell_of s v)) (c_cs (cell_of s v))) v) as [(Ew & _)|Ew];
        unfold s1; rewrite Ew; [cbn; exact Hb|exact Hb]. }
    clearbody s1.
    assert (Rest : forall (m : M unit) t0, (set_bound v (Some t0) ;;; m) s1 = MOk a s' -> kq m -> kfr 0 s s').
    { intros m t0 E0 Km. unfold bindM at 1 in E0. unfold set_bound at 1, upd_cell at 1, modify at 1 in E0.
      eapply kfr_trans0; [exact K1|]. eapply kfr_trans0; [eapply kfr_bind_cell; exact B1|].
      apply (Km _ _ _ E0). }
    destruct t as [w|o args].
    - destruct (Nat.eqb v w).
      + inversion E; subst. exact K1.
      + eapply Rest; [exact E|]. repeat kq_step; auto.
    - eapply Rest; [exact E|]. repeat kq_step; auto. }
  assert (Ha : forall v o, kq (above H (S f) v o)).
  { intros v o. rewrite above_S. unfold set_wild, set_lower. repeat kq_step; auto. }
  assert (Hl : forall v o, kq (below H (S f) v o)).
  { intros v o. rewrite below_S. unfold set_wild, set_upper. repeat kq_step; auto. }
  assert (Hx : forall pl t, kq (fix_ty H (S f) pl t)).
  { intros pl t. rewrite fix_ty_S. repeat kq_step; auto.
    generalize (variance H o) as vs.
    induction args as [|p ps IHp]; intros [|b0 vs]; repeat kq_step; auto. }
  assert (Hc : forall v, kq (check_constraints H (S f) v)).
  { intros v. rewrite check_constraints_S. repeat kq_step; auto. }
  assert (Hm : forall c s u s', k_elim (constr_of s c) = true -> minimize H (S f) c s = MOk u s' -> kfr 0 s s').
  { intros c s u s' Ee E. rewrite FL.minimize_S' in E.
    unfold bindM at 1 in E. unfold gets at 1 in E.
    unfold bindM at 1 in E.
    destruct (min_outer f (k_alts (constr_of s c)) [] s) as [mins s1|e s1] eqn:E1; [|discriminate].
    pose proof (kq_min_outer f IHx _ _ s mins s1 E1) as K1.
    unfold bindM, gets, upd_constr, modify in E. inversion E; subst s'. clear E.
    destruct K1 as (C1 & L1 & K1).
    split; [exact C1|split; [cbn; rewrite upd_length; exact L1|]].
    intros c' Lc'.
    destruct (constr_of_set_constr s1 c (mkConstr (k_elim (constr_of s1 c)) (follow s1 (k_ref (constr_of s c)))
                (map (follow s1) mins) (k_strict (constr_of s1 c)) (k_done (constr_of s1 c))) c')
      as [(E & -> & _)|E]; rewrite E.
    - destruct (K1 c Lc') as (_ & Ek & Es & _).
      split; [eapply reach_mono; [|apply (reach_follow s1)]; apply cellext_vars; reflexivity|].
      split; [exact Ek|split; [exact Es|]].
      intros Ef. congruence.
    - eapply kkeep_mono; [|apply (K1 c' Lc')]. apply cellext_vars. reflexivity. }
  assert (QT : forall c k, kqP (kindis c true)
        (if k_done k then ret true
         else minimize H f c ;;;
              k1 <- gets (fun s => constr_of s c) ;;
              norm <- gets (fun s => forallb (fun t => match t with
                         | V v => match c_bound (cell_of s v) with Some _ => false | None => true end
                         | O _ _ => true end) (constr_terms k1)) ;;
              if negb norm then fail (ECrash site_elim_normalized)
              else
                alts <- lift (fun s => FL.filt H f s (k_ref k1) (k_alts k1)) ;;
                upd_constr c (fun k => mkConstr true (k_ref k) alts (k_strict k) (k_done k)) ;;;
                match alts with
                | [] => fail EConstraintViolation
                | [t] =>
                    upd_constr c (fun k => mkConstr true (k_ref k) (k_alts k) (k_strict k) true) ;;;
                    unify H f true false false (k_ref k1) t ;;;
                    d <- gets (fun s => k_done (constr_of s c)) ;; ret d
                | _ => d <- gets (fun s => k_done (constr_of s c)) ;; ret d
                end)).
    { intros c k.
      pose proof (kindis_closed c true) as Cl.
      assert (U : forall g, (forall k, k_elim k = true -> k_ref (g k) = k_ref k /\ k_elim (g k) = true /\
                                       k_strict (g k) = k_strict k) ->
                  kqP (kindis c true) (upd_constr c g)).
      { intros g G. apply kqP_upd_constr. intros k0 E0. destruct (G k0 E0) as (A1 & A2 & A3).
        split; [exact A1|split; [congruence|split; [exact A3|congruence]]]. }
      destruct (k_done k); [apply kqP_of_kq; apply kq_ret|].
      apply kqP_bind; [exact Cl|intros s0 P0 u s1 E1; eapply IHm; eauto|intros _].
      apply kqP_bind; [exact Cl|apply kqP_of_kq; apply kq_gets|intros k1].
      apply kqP_bind; [exact Cl|apply kqP_of_kq; apply kq_gets|intros norm].
      destruct (negb norm); [apply kqP_of_kq; apply kq_fail|].
      apply kqP_bind; [exact Cl|apply kqP_of_kq; apply kq_lift|intros alts].
      apply kqP_bind; [exact Cl|apply U; intros k0 E0; repeat split|intros _].
      destruct alts as [|t [|t2 r]].
      + apply kqP_of_kq; apply kq_fail.
      + apply kqP_bind; [exact Cl|apply U; intros k0 E0; repeat split|intros _].
        apply kqP_of_kq. repeat kq_step; auto.
      + apply kqP_of_kq. repeat kq_step. }
  assert (QF : forall c k, kqP (kindis c false)
        (match k_alts k with
         | [target] =>
             unify H f true true false (k_ref k) target ;;;
             r <- lift (fun s => match_f H f s true false (k_ref k) target) ;;
             match r with
             | Some true =>
                 same <- (if k_strict k
                          then lift (fun s => match_f H f s false false (k_ref k) target)
                          else ret (Some false)) ;;
                 match same with
                 | Some true => fail EConstraintViolation
                 | None => d <- gets (fun s => k_done (constr_of s c)) ;; ret d
                 | Some false =>
                     upd_constr c (fun k => mkConstr false (k_ref k) (k_alts k) (k_strict k) true) ;;;
                     ret true
                 end
             | Some false => fail EConstraintViolation
             | None => d <- gets (fun s => k_done (constr_of s c)) ;; ret d
             end
         | _ => fail (ECrash site_arity)
         end)).
    { intros c k.
      pose proof (kindis_closed c false) as Cl.
      destruct (k_alts k) as [|target [|t2 r]]; try (apply kqP_of_kq; apply kq_fail).
      apply kqP_bind; [exact Cl|apply kqP_of_kq; apply IHu|intros _].
      apply kqP_bind; [exact Cl|apply kqP_of_kq; apply kq_lift|intros r].
      destruct r as [[|]|]; try (apply kqP_of_kq; repeat kq_step; fail).
      apply kqP_bind; [exact Cl|apply kqP_of_kq; repeat kq_step|intros same].
      destruct same as [[|]|]; try (apply kqP_of_kq; repeat kq_step; fail).
      apply kqP_bind; [exact Cl| |intros _; apply kqP_of_kq; apply kq_ret].
      apply kqP_upd_constr. intros k0 E0. cbn. repeat split; congruence. }
  assert (Hf : forall c, kq (fulfill H (S f) c)).
  { intros c s a s' E. rewrite FL.fulfill_S' in E.
    unfold bindM at 1 in E. unfold gets at 1 in E.
    destruct (k_elim (constr_of s c)) eqn:Ee; [exact (QT c _ s Ee a s' E)|exact (QF c _ s Ee a s' E)]. }
  unfold kqs. repeat apply conj; auto.
  intros sub skb skw a b. rewrite unify_S. repeat kq_step; auto.
  generalize (variance H o) as vs. revert args0.
  induction args as [|x xs IHxs]; intros [|y ys] [|b0 vs]; repeat kq_step; auto.
Qed.

Theorem kq_all : forall f, kqs f.
Proof. induction f as [|f IH]; [apply kqs_0|apply kqs_step; exact IH]. Qed.

Lemma kq_unify f sub skb skw a b : kq (unify H f sub skb skw a b).
Proof. apply kq_all. Qed.
Lemma kq_bind_var f v t : kq (bind H f v t).
Proof. apply kq_all. Qed.
Lemma kq_fix_ty f pl t : kq (fix_ty H f pl t).
Proof. apply kq_all. Qed.
Lemma kq_fulfill f c : kq (fulfill H f c).
Proof. apply kq_all. Qed.

Lemma kq_eval_sty env : forall t, kq (eval_sty env t).
Proof.
  induction t as [i| |o args IH] using sty_ind'; cbn [eval_sty]; repeat kq_step.
  induction IH as [|a r Ha Hr IHr]; repeat kq_step; auto.
Qed.

Lemma kq_apply fuel f x fixb : kq (apply H fuel f x fixb).
Proof.
  unfold apply. repeat kq_step; auto using kq_bind_var, kq_unify, kq_fix_ty.
Qed.

End Frame.

(* ================================================================== *)
(* Part 2.  Allocation order of the constraints of an instance          *)
(* ================================================================== *)
Section Alloc.
Variable H : hier.
Local Notation pscE := (SoundElimS.pscE H).

(* the schematic variable a declared constraint is about *)
Definition cvar (sc : sconstr) : nat :=
  match sc with
  | SCSub (SVar i) _ _ => i
  | SCElim (SVar i) _ => i
  | _ => 0
  end.

(* what the constraint object created for a declared constraint keeps for ever:
   its kind; a subtype constraint also its target and strictness *)
Definition kdecl (sc : sconstr) (k : constr) : Prop :=
  match sc with
  | SCSub _ (SOp a _) st => k_elim k = false /\ k_alts k = [O a []] /\ k_strict k = st
  | SCSub _ _ _ => True
  | SCElim _ _ => k_elim k = true
  end.

(* k is the constraint object of the declared constraint sc on the variable x *)
Definition cobj (s : store) (x : tyv) (sc : sconstr) (k : constr) : Prop :=
  reach s x (k_ref k) /\ kdecl sc k.

Lemma kdecl_keep sc s k k' : kdecl sc k -> kkeep s k k' -> kdecl sc k'.
Proof.
  intros D (_ & Ee & Es & Ea). destruct sc as [r t st|r alts]; cbn [kdecl] in *.
  - destruct t as [| |a args]; auto. destruct D as (De & Da & Ds).
    split; [congruence|split; [rewrite Ea; auto|congruence]].
  - congruence.
Qed.

Lemma cobj_keep s s' x sc k k' : cellext s s' -> cobj s x sc k -> kkeep s' k k' -> cobj s' x sc k'.
Proof.
  intros C (R & D) Kk. split; [|eapply kdecl_keep; eauto].
  eapply reach_trans; [eapply reach_mono; eauto|apply Kk].
Qed.

Lemma new_constraint_allocE fuel k s u s' : new_constraint H fuel k s = MOk u s' ->
  kfr 1 s s' /\ kkeep s' k (constr_of s' (length (constrs s))).
Proof.
  intros E. unfold new_constraint in E. unfold bindM at 1 in E.
  destruct (alloc_constr s k) as [c s1] eqn:Ea.
  assert (Es1 : s1 = snd (alloc_constr s k)) by (rewrite Ea; reflexivity).
  assert (Ec : c = length (constrs s)) by (unfold alloc_constr in Ea; inversion Ea; reflexivity).
  assert (Kr : kq (vs <- lift (fun s => closure_f fuel s (constr_terms k) []) ;;
                   forM vs (fun v =>
                     cv <- gets (fun s => cell_of s v) ;;
                     match c_bound cv with
                     | Some _ => fail (ECrash site_inform_bound)
                     | None => modify (fun s => let i := c_cs (cell_of s v) in set_cset s i (ins c (cset_of s i)))
                     end) ;;;
                   _ <- fulfill H fuel c ;; ret tt)).
  { repeat kq_step. apply kq_fulfill. }
  pose proof (Kr s1 u s' E) as K1.
  pose proof (kfr_alloc_constr s k) as K0. rewrite <- Es1 in K0.
  split; [apply (kfr_trans 1 0 s s1 s' K0 K1)|].
  destruct K1 as (_ & _ & K1). specialize (K1 (length (constrs s))).
  rewrite Es1 in K1 at 2. rewrite alloc_constr_new in K1. apply K1.
  rewrite Es1, alloc_constr_length. lia.
Qed.

Lemma eval_constr_allocE fuel env n sc s u s' : pscE n sc ->
  eval_constr H fuel env sc s = MOk u s' ->
  kfr 1 s s' /\ cobj s' (nth (cvar sc) env (V 0)) sc (constr_of s' (length (constrs s))).
Proof.
  intros Pc E.
  assert (G : forall k, new_constraint H fuel k s = MOk u s' ->
            reach s (nth (cvar sc) env (V 0)) (k_ref k) -> kdecl sc k ->
            kfr 1 s s' /\ cobj s' (nth (cvar sc) env (V 0)) sc (constr_of s' (length (constrs s)))).
  { intros k En R D. destruct (new_constraint_allocE fuel k s u s' En) as (K1 & Kk).
    split; [exact K1|]. eapply cobj_keep; [apply K1|split; [exact R|exact D]|exact Kk]. }
  assert (Rf : forall i, reach s (nth i env (V 0)) (follow s (follow s (nth i env (V 0))))).
  { intros i. eapply reach_trans; apply reach_follow. }
  destruct Pc as [Pc|Pc].
  - destruct sc as [r t st|r alts]; cbn [psc] in Pc; [|tauto].
    destruct r as [i| |]; try tauto. destruct t as [| |a [|x xs]]; try tauto.
    rewrite SoundElimS.eval_constr_sub in E. apply (G _ E); [apply Rf|].
    cbn. auto.
  - destruct sc as [r t st|r alts]; cbn [pec] in Pc; [tauto|].
    destruct r as [i| |]; try tauto. destruct Pc as (Li & l & Gl & ->).
    rewrite SoundElimS.eval_constr_elimE in E. apply (G _ E); [apply Rf|].
    reflexivity.
Qed.

Lemma constrs_allocE fuel env n : forall cs s u s', Forall (pscE n) cs ->
  forM cs (eval_constr H fuel env) s = MOk u s' ->
  kfr (length cs) s s' /\
  forall j sc, nth_error cs j = Some sc ->
    cobj s' (nth (cvar sc) env (V 0)) sc (constr_of s' (length (constrs s) + j)).
Proof.
  induction cs as [|sc cs IH]; intros s u s' Pc E; cbn [forM] in E.
  - inversion E; subst. split; [apply kfr_refl|]. intros j sc Hn. destruct j; discriminate.
  - inversion Pc as [|? ? Psc Pcs]; subst.
    unfold bindM at 1 in E.
    destruct (eval_constr H fuel env sc s) as [u1 s1|e1 s1] eqn:E1; [|discriminate].
    destruct (eval_constr_allocE fuel env n sc s u1 s1 Psc E1) as (K1 & O1).
    destruct (IH s1 u s' Pcs E) as (K2 & Hj).
    split.
    + replace (length (sc :: cs)) with (length cs + 1) by (cbn; lia). eapply kfr_trans; eauto.
    + intros j sc0 Hn. destruct j as [|j]; cbn [nth_error] in Hn.
      * inversion Hn; subst sc0. rewrite Nat.add_0_r.
        eapply cobj_keep; [apply K2|exact O1|]. apply K2. destruct K1 as (_ & L1 & _). lia.
      * replace (length (constrs s) + S j) with (length (constrs s1) + j)
          by (destruct K1 as (_ & L1 & _); lia).
        apply (Hj j sc0 Hn).
Qed.

(* an instance of a schema with m constraints of the class allocates exactly m
   constraint objects, in declaration order, the j-th of the declared kind
   (target, strictness) and with a reference on the binding chain of the fresh
   variable of the schematic variable it constrains *)
Theorem instance_allocE fuel sc s r s' : Forall (pscE (s_n sc)) (s_constrs sc) ->
  instance H fuel sc s = MOk r s' ->
  kfr (length (s_constrs sc)) s s' /\
  forall j scj, nth_error (s_constrs sc) j = Some scj ->
    cobj s' (nth (cvar scj) (envof s (s_n sc)) (V 0)) scj (constr_of s' (length (constrs s) + j)).
Proof.
  intros Pc E. destruct (instance_stages H fuel sc s r s' E) as (env & s1 & body & s2 & s3 & E1 & E2 & E3 & E4).
  pose proof (kq_fresh_list (s_n sc) s env s1 E1) as C1.
  destruct (fresh_list_env _ _ _ _ E1) as (Een & _ & _). fold (envof s (s_n sc)) in Een.
  pose proof (kq_eval_sty env (s_body sc) s1 body s2 E2) as C2.
  destruct (constrs_allocE fuel env (s_n sc) (s_constrs sc) s2 tt s3 Pc E3) as (C3 & Hj).
  pose proof (kq_fix_ty H fuel true body s3 r s' E4) as C4.
  pose proof (kfr_trans _ _ _ _ _ (kfr_trans _ _ _ _ _ (kfr_trans _ _ _ _ _ C1 C2) C3) C4) as C.
  replace (0 + (length (s_constrs sc) + (0 + 0))) with (length (s_constrs sc)) in C by lia.
  split; [exact C|]. intros j scj Hn.
  assert (Lj : j < length (s_constrs sc)) by (apply nth_error_Some; congruence).
  assert (L2 : length (constrs s2) = length (constrs s)).
  { destruct C1 as (_ & L1 & _). destruct C2 as (_ & L2 & _). lia. }
  pose proof (Hj j scj Hn) as Oj. rewrite L2, Een in Oj.
  eapply cobj_keep; [apply C4|exact Oj|]. apply C4. destruct C3 as (_ & L3 & _). lia.
Qed.

End Alloc.

(* ================================================================== *)
(* Part 3.  What an instance denotes, on stores with constraints of     *)
(* both kinds                                                           *)
(* ================================================================== *)
Section SemE.
Variable H : hier.
Hypothesis W : wf_hier H.
Local Notation len s := (length (vars s)).
Local Notation JE := (SoundElimS.JE H).
Local Notation lefE := (SoundElimS.lefE H).
Local Notation pscE := (SoundElimS.pscE H).

Lemma lefE_sat s s' th : lefE s s' -> sat H th s' -> sat H th s.
Proof. intros ((_ & M) & _). apply M. Qed.

Lemma eval_sty_instE env : forall t s, JE s -> Forall (tg H (len s)) env -> styg H (length env) t ->
  tr (eval_sty env t) s
     (fun r s' => forall th, sat H th s' -> sinst H (sig_of th env) t (den th r)).
Proof.
  induction t as [i| |o args IH] using sty_ind'; intros s I Fe St; cbn [eval_sty].
  - apply tr_gets_end. intros th S. rewrite (den_follow H th s _ S). apply si_var.
  - apply tr_fresh. apply tr_ret. intros th S. cbn [den]. apply si_wild. eapply sat_wf; eauto.
  - inversion St as [| |? ? La Fa]; subst.
    eapply tr_bind with (Q1 := fun xs s1 => forall th, sat H th s1 ->
                                 Forall2 (sinst H (sig_of th env)) args (map (den th) xs)).
    + clear La St. revert s I Fe.
      induction IH as [|a r Ha Hr IHr]; intros s I Fe.
      * apply tr_ret. intros th _. constructor.
      * inversion Fa as [|? ? Sa Sr]; subst.
        eapply tr_bind.
        { apply tr_conj; [apply (eval_sty_goodE H env a s I Fe Sa)|apply (Ha s I Fe Sa)]. }
        cbv beta. intros x s1 ((I1 & L1 & Tx & _) & Dx).
        assert (Fe1 : Forall (tg H (len s1)) env)
          by (eapply Forall_tg_mono; [apply (lefE_len H _ _ L1)|exact Fe]).
        eapply tr_bind with (Q1 := fun xs s2 => lefE s1 s2 /\ forall th, sat H th s2 ->
                                 Forall2 (sinst H (sig_of th env)) r (map (den th) xs)).
        { apply tr_conj; [|apply IHr; auto].
          clear - W I1 Fe1 Sr. revert s1 I1 Fe1.
          induction Sr as [|b r' Sb Sr' IHl]; intros s1 I1 Fe1.
          - apply tr_ret. apply lefE_refl.
          - eapply tr_bind; [apply (eval_sty_goodE H env b s1 I1 Fe1 Sb)|].
            cbv beta. intros y s2 (I2 & L2 & Ty & _).
            assert (Fe2 : Forall (tg H (len s2)) env)
              by (eapply Forall_tg_mono; [apply (lefE_len H _ _ L2)|exact Fe1]).
            eapply tr_bind; [apply IHl; auto|]. cbv beta. intros ys s3 L3.
            apply tr_ret. eapply lefE_trans; eauto. }
        cbv beta. intros xs s2 (L2 & Dxs). apply tr_ret. intros th S2. cbn [map]. constructor.
        -- apply Dx. eapply lefE_sat; eauto.
        -- apply Dxs. exact S2.
    + cbv beta. intros xs s1 Dxs. apply tr_ret. intros th S1. cbn [den]. apply si_op. apply Dxs. exact S1.
Qed.

Lemma constrs_goodE fuel env : forall cs s, JE s -> Forall (tg H (len s)) env ->
  Forall (pscE (length env)) cs ->
  tr (forM cs (eval_constr H fuel env)) s (fun _ s' => JE s' /\ lefE s s').
Proof.
  induction cs as [|c cs IH]; intros s I Fe Fc; cbn [forM].
  - apply tr_ret. split; [exact I|apply lefE_refl].
  - inversion Fc as [|? ? Pc1 Fc']; subst.
    eapply tr_bind; [apply (eval_constr_goodE H W); auto|].
    cbv beta. intros _ s1 (I1 & L1 & _).
    eapply tr_conseq; [apply IH; auto|].
    { eapply Forall_tg_mono; [apply (lefE_len H _ _ L1)|exact Fe]. }
    cbv beta. intros _ s2 (I2 & L2). split; [exact I2|eapply lefE_trans; eauto].
Qed.

(* the instance denotes its body under the substitution given by its own fresh
   variables *)
Theorem instance_instE fuel sc s r s' : JE s -> styg H (s_n sc) (s_body sc) ->
  Forall (pscE (s_n sc)) (s_constrs sc) ->
  instance H fuel sc s = MOk r s' -> inst_post_env H sc (envof s (s_n sc)) r s'.
Proof.
  intros I Sb Pc E.
  destruct (instance_stages H fuel sc s r s' E) as (env & s1 & body & s2 & s3 & E1 & E2 & E3 & E4).
  destruct (fresh_list_goodE H (s_n sc) s I env s1 E1) as (I1 & L1 & Fe & Ne & _).
  destruct (fresh_list_env _ _ _ _ E1) as (Een & _ & _). fold (envof s (s_n sc)) in Een.
  assert (Fe' : Forall (tg H (len s1)) env).
  { eapply Forall_impl; [|exact Fe]. intros t. apply isvar_tg. }
  assert (Sb' : styg H (length env) (s_body sc)) by (rewrite Ne; exact Sb).
  destruct (eval_sty_goodE H env _ s1 I1 Fe' Sb' body s2 E2) as (I2 & L2 & Tb & _).
  pose proof (eval_sty_instE env _ s1 I1 Fe' Sb' body s2 E2) as Db.
  assert (Fe2 : Forall (tg H (len s2)) env)
    by (eapply Forall_tg_mono; [apply (lefE_len H _ _ L2)|exact Fe']).
  assert (Pc' : Forall (pscE (length env)) (s_constrs sc)) by (rewrite Ne; exact Pc).
  destruct (constrs_goodE fuel env (s_constrs sc) s2 I2 Fe2 Pc' tt s3 E3) as (I3 & L3).
  assert (Tb3 : tg H (len s3) body) by (eapply tg_mono; [apply (lefE_len H _ _ L3)|exact Tb]).
  destruct (fix_soundE H W fuel true body s3 I3 Tb3 r s' E4) as (Tr & G4).
  pose proof (goodE_lefE H _ _ _ G4) as L4. destruct G4 as (_ & _ & _ & _ & R4).
  rewrite <- Een. intros th S4.
  assert (S3 : sat H th s3) by (eapply lefE_sat; eauto).
  assert (S2 : sat H th s2) by (eapply lefE_sat; eauto).
  split.
  - intros i. unfold sig_of. eapply wf_den with (n := S (len s')); [eapply sat_wf; eauto|].
    destruct (Nat.lt_ge_cases i (length env)) as [Li|Li].
    + rewrite Forall_forall in Fe'. eapply tg_mono; [|apply Fe'; apply nth_In; exact Li].
      pose proof (lefE_len H _ _ L2). pose proof (lefE_len H _ _ L3). pose proof (lefE_len H _ _ L4). lia.
    + rewrite nth_overflow by exact Li. constructor. lia.
  - rewrite (R4 th S4). apply Db. exact S2.
Qed.

End SemE.

(* ================================================================== *)
(* Part 4.  Programs of class progEQ = progE + CUnify (subtype) + CFix  *)
(* ================================================================== *)
Section ProgsEQ.
Variable H : hier.
Hypothesis W : wf_hier H.
Local Notation len s := (length (vars s)).
Local Notation inv := (invb true).
Local Notation JE := (SoundElimS.JE H).
Local Notation lefE := (SoundElimS.lefE H).
Local Notation pscE := (SoundElimS.pscE H).
Local Notation cmdE := (SoundElimS.cmdE H).
Local Notation progE := (SoundElimS.progE H).

(* CInst over schemas with constraints of both kinds, CApply, CUnify (subtype mode), CFix *)
Inductive cmdEQ (n : nat) : cmd -> Prop :=
| cEQ_inst sc : styg H (s_n sc) (s_body sc) -> Forall (pscE (s_n sc)) (s_constrs sc) -> cmdEQ n (CInst sc)
| cEQ_apply f x b : f < n -> x < n -> cmdEQ n (CApply f x b)
| cEQ_unify a b : a < n -> b < n -> cmdEQ n (CUnify a b true)
| cEQ_fix a pl : a < n -> cmdEQ n (CFix a pl).

Fixpoint progEQ (n : nat) (cs : list cmd) : Prop :=
  match cs with
  | [] => True
  | c :: r => cmdEQ n c /\ progEQ (nxt c n) r
  end.

Lemma progE_EQ : forall cs n, progE n cs -> progEQ n cs.
Proof.
  induction cs as [|c cs IH]; intros n P; cbn [progEQ]; [exact I|].
  destruct P as [Pc Pr]. destruct Pc as [sc Sb Pc|f x b Lf Lx]; (split; [constructor; auto|apply IH; exact Pr]).
Qed.

Lemma progEQ_app a : forall n b, progEQ n a -> progEQ (nxts a n) b -> progEQ n (a ++ b).
Proof.
  induction a as [|c a IH]; intros n b Pa Pb; cbn [List.app nxts] in *; [exact Pb|].
  destruct Pa as [Pc Pa]. split; [exact Pc|]. apply IH; auto.
Qed.

Lemma cmdEQ_erase n c : cmdEQ n c -> cmdQ H n (erase_cmd c).
Proof. intros [sc Sb _|f x b Lf Lx|a b La Lb|a pl La]; cbn [erase_cmd]; constructor; auto. Qed.

Lemma progEQ_erase : forall cs n, progEQ n cs -> progQ H n (map erase_cmd cs).
Proof.
  induction cs as [|c cs IH]; intros n P; cbn [map progQ]; [exact I|].
  destruct P as [Pc Pr]. split; [apply cmdEQ_erase; exact Pc|]. rewrite nxt_erase. apply IH. exact Pr.
Qed.

Lemma pscE_wf n sc : pscE n sc -> sconstr_wf n sc.
Proof.
  intros [Pc|Pc]; [apply (psc_wf H); exact Pc|].
  destruct sc as [r t st|r alts]; cbn [pec] in Pc; [tauto|].
  destruct r as [i| |]; try tauto. destruct Pc as (Li & l & _ & ->).
  split; [constructor; exact Li|]. rewrite Forall_forall. intros x Hx.
  apply in_map_iff in Hx. destruct Hx as (b & <- & _). constructor. constructor.
Qed.

Lemma progEQ_wf : forall cs n, progEQ n cs -> prog_wf n cs.
Proof.
  induction cs as [|c cs IH]; intros n P; cbn [prog_wf]; [exact I|].
  destruct P as [Pc Pr]. split; [|apply IH; destruct c; exact Pr].
  destruct Pc as [sc Sb Pc|f x b Lf Lx|a b La Lb|a pl La]; cbn [cmd_wf]; auto.
  split; [apply (styg_wf H); exact Sb|]. eapply Forall_impl; [|exact Pc]. intros a. apply pscE_wf.
Qed.

(* ---- forward soundness along a run, with the semantic reading of every command ---- *)
Lemma run_cmd_goodEQ fuel c vals s : JE s -> Forall (tg H (len s)) vals -> cmdEQ (length vals) c ->
  tr (run_cmd H fuel c vals) s
     (fun vals' s' => (exists ext, vals' = vals ++ ext) /\ length vals' = nxt c (length vals) /\
        Forall (tg H (len s')) vals' /\ JE s' /\ lefE s s' /\
        length (constrs s') = length (constrs s) + ncon c /\
        forall th, sat H th s' -> cmd_sem H th vals' (erase_cmd c) (length vals)).
Proof.
  intros I Fv Pc.
  assert (Push : forall t s', tg H (len s') t -> lefE s s' ->
            (exists ext, vals ++ [t] = vals ++ ext) /\ length (vals ++ [t]) = S (length vals) /\
            Forall (tg H (len s')) (vals ++ [t])).
  { intros t s' Tt L. split; [eexists; reflexivity|]. split; [rewrite app_length; cbn; lia|].
    apply Forall_app. split; [eapply Forall_tg_mono; [apply (lefE_len H _ _ L)|exact Fv]|constructor; auto]. }
  destruct Pc as [sc Sb Pcs|f x b Lf Lx|a b La Lb|a pl La]; cbn [run_cmd nxt cmd_sem erase_cmd ncon].
  - eapply tr_bind.
    { apply tr_conj; [apply (instance_goodE H W fuel sc s I Sb Pcs)
                     |intros t s1 E; exact (instance_instE H W fuel sc s t s1 I Sb Pcs E)]. }
    cbv beta. intros t s1 ((I1 & L1 & Tt & N1) & Pi). apply tr_ret.
    destruct (Push t s1 Tt L1) as (A & B & C). split; [exact A|split; [exact B|split; [exact C|]]].
    split; [exact I1|split; [exact L1|split; [exact N1|]]]. intros th S1. rewrite val_app_new.
    exists (sig_of th (envof s (s_n sc))). apply Pi. exact S1.
  - eapply tr_bind; [apply (apply_goodE H W); auto using tg_val|]. cbv beta. intros t s1 (Tt & G1).
    apply tr_ret. pose proof (goodE_lefE H _ _ _ G1) as L1.
    destruct (Push t s1 Tt L1) as (A & B & C). split; [exact A|split; [exact B|split; [exact C|]]].
    split; [apply G1|split; [exact L1|split; [rewrite (goodE_cnt H _ _ _ G1); lia|]]]. intros th S1.
    rewrite val_app_new, !val_app_l by lia. apply G1. exact S1.
  - eapply tr_bind; [apply (unify_soundE H W); auto using tg_val|]. cbv beta. intros _ s1 G1.
    apply tr_ret. pose proof (goodE_lefE H _ _ _ G1) as L1.
    split; [exists []; rewrite app_nil_r; reflexivity|split; [reflexivity|]].
    split; [eapply Forall_tg_mono; [apply (lefE_len H _ _ L1)|exact Fv]|].
    split; [apply G1|split; [exact L1|split; [rewrite (goodE_cnt H _ _ _ G1); lia|]]].
    intros th S1. apply G1. exact S1.
  - eapply tr_bind; [apply (fix_soundE H W); auto using tg_val|]. cbv beta. intros t s1 (Tt & G1).
    apply tr_ret. pose proof (goodE_lefE H _ _ _ G1) as L1.
    destruct (Push t s1 Tt L1) as (A & B & C). split; [exact A|split; [exact B|split; [exact C|]]].
    split; [apply G1|split; [exact L1|split; [rewrite (goodE_cnt H _ _ _ G1); lia|]]]. intros th S1.
    rewrite val_app_new, val_app_l by lia. apply G1. exact S1.
Qed.

Theorem run_cmds_goodEQ fuel : forall cs i vals s vals' s', JE s -> Forall (tg H (len s)) vals ->
  progEQ (length vals) cs -> run_cmds H fuel cs i vals s = (None, vals', s') ->
  JE s' /\ lefE s s' /\ Forall (tg H (len s')) vals' /\ (exists ext, vals' = vals ++ ext) /\
  length vals' = nxts cs (length vals) /\
  length (constrs s') = length (constrs s) + ncons cs /\
  forall th, sat H th s' -> prog_sem H th vals' (map erase_cmd cs) (length vals).
Proof.
  induction cs as [|c cs IH]; intros i vals s vals' s' I Fv P R; cbn [run_cmds] in R.
  - inversion R; subst. split; [auto|split; [apply lefE_refl|split; [auto|split]]].
    + exists []. rewrite app_nil_r. reflexivity.
    + split; [reflexivity|split; [cbn; lia|]]. intros th _. exact Logic.I.
  - destruct P as [Pc Pr].
    pose proof (run_cmd_goodEQ fuel c vals s I Fv Pc) as T. unfold tr in T.
    destruct (run_cmd H fuel c vals s) as [vals1 s1|e s1] eqn:Ec; [|discriminate].
    destruct (T vals1 s1 eq_refl) as ((ext1 & E1) & Ln & Fv1 & I1 & L1 & N1 & Sem1).
    rewrite <- Ln in Pr.
    destruct (IH (S i) vals1 s1 vals' s' I1 Fv1 Pr R) as (I' & L' & Fv' & (ext & ->) & Ln' & N' & Sem').
    split; [auto|split; [eapply lefE_trans; eauto|split; [auto|split]]].
    + exists (ext1 ++ ext). rewrite E1, app_assoc. reflexivity.
    + split; [cbn [nxts]; rewrite <- Ln; exact Ln'|split; [cbn [ncons]; lia|]].
      intros th S'. cbn [map prog_sem]. split.
      * apply (cmd_sem_ext H); [apply cmdEQ_erase; exact Pc|rewrite nxt_erase; lia|].
        apply Sem1. eapply lefE_sat; eauto.
      * rewrite nxt_erase, <- Ln. apply Sem'. exact S'.
Qed.

(* ---- the constraint invariant along a run ---- *)
Lemma decls_cmd_length c : length (decls_cmd c) = ncon c.
Proof. destruct c; cbn; try reflexivity. apply map_length. Qed.

Lemma run_cmdKQ fuel D c vals s : inv s -> JE s -> Kp H D none s -> length D = length (constrs s) ->
  Forall (tg H (len s)) vals -> cmdEQ (length vals) c ->
  ok true s (run_cmd H fuel c vals) (fun vals' s' => Kp H (D ++ decls_cmd c) none s') s.
Proof.
  intros I J0 Kk LD Fv Pc.
  destruct Pc as [sc Sb Pcs|f x b Lf Lx|a b La Lb|a pl La]; cbn [run_cmd decls_cmd]; rewrite ?app_nil_r.
  - eapply ok_bind; [apply (instanceK H W); eauto|]. intros t s1 I1 E1 (K1 & _). apply ok_ret; auto.
  - eapply ok_bind; [apply (applyK H W fuel D); auto; apply (tg_sct H); apply (tg_val H); auto|].
    intros t s1 I1 E1 (K1 & _). apply ok_ret; auto.
  - eapply ok_bind; [apply (unifyK H W fuel D none); auto; apply (tg_sct H); apply (tg_val H); auto|].
    intros u s1 I1 E1 K1. apply ok_ret; auto.
  - eapply ok_bind; [apply (fixK H W fuel D none); auto; apply (tg_sct H); apply (tg_val H); auto|].
    intros t s1 I1 E1 (K1 & _). apply ok_ret; auto.
Qed.

Theorem run_cmdsKQ fuel : forall cs i vals D s vals' s', inv s -> JE s -> Kp H D none s ->
  length D = length (constrs s) -> Forall (tg H (len s)) vals ->
  progEQ (length vals) cs -> run_cmds H fuel cs i vals s = (None, vals', s') ->
  inv s' /\ Kp H (D ++ decls cs) none s'.
Proof.
  induction cs as [|c cs IH]; intros i vals D s vals' s' I J0 Kk LD Fv P R; cbn [run_cmds decls] in *.
  - inversion R; subst. rewrite app_nil_r. auto.
  - destruct P as [Pc Pr].
    pose proof (run_cmdKQ fuel D c vals s I J0 Kk LD Fv Pc) as O. unfold ok in O.
    pose proof (run_cmd_goodEQ fuel c vals s J0 Fv Pc) as T. unfold tr in T.
    destruct (run_cmd H fuel c vals s) as [vals1 s1|e s1]; [|discriminate].
    destruct O as (I1 & E1 & K1).
    destruct (T vals1 s1 eq_refl) as (_ & Ln & Fv1 & J1 & _ & N1 & _).
    rewrite app_assoc.
    eapply (IH (S i) vals1 (D ++ decls_cmd c) s1); eauto.
    + rewrite app_length, decls_cmd_length. lia.
    + rewrite Ln. exact Pr.
Qed.

(* what holds of the final store of an accepted program of the class *)
Definition finE (D : list (list nat)) (s : store) : Prop :=
  inv s /\ Kp H D none s /\ JE s /\ dn H s.

Theorem progEQ_final fuel sc prog vals s : progEQ 0 prog ->
  run_cmds H fuel prog 0 [] (empty_store sc) = (None, vals, s) ->
  finE (decls prog) s /\ Forall (tg H (len s)) vals /\ length (constrs s) = ncons prog /\
  forall th, sat H th s -> prog_sem H th vals (map erase_cmd prog) 0.
Proof.
  intros P R.
  destruct (run_cmds_goodEQ fuel prog 0 [] (empty_store sc) vals s (JE_empty H sc) (Forall_nil _) P R)
    as (J0 & L & Fv & _ & _ & N & Sem).
  destruct (run_cmdsKQ fuel prog 0 [] [] (empty_store sc) vals s (inv_empty true sc) (JE_empty H sc)
              (Kp_empty H [] sc) eq_refl (Forall_nil _) P R) as (Iv & Kk).
  split; [|split; [exact Fv|split; [exact N|exact Sem]]].
  split; [exact Iv|split; [exact Kk|split; [exact J0|]]].
  eapply dn_lefE; [apply dn_empty|exact L].
Qed.

(* ---- the constraint frame along a run ---- *)
Lemma run_cmd_kfr fuel c vals s vals' s' : cmdEQ (length vals) c ->
  run_cmd H fuel c vals s = MOk vals' s' -> kfr (ncon c) s s'.
Proof.
  intros Pc E. destruct Pc as [sc Sb Pcs|f x b Lf Lx|a b La Lb|a pl La]; cbn [run_cmd ncon] in *; unfold bindM in E.
  - destruct (instance H fuel sc s) as [t s1|e s1] eqn:Ei; [|discriminate]. inversion E; subst.
    apply (instance_allocE H fuel sc s t s' Pcs Ei).
  - destruct (apply H fuel (val vals f) (val vals x) b s) as [t s1|e s1] eqn:Ei; [|discriminate].
    inversion E; subst. eapply kq_apply; eauto.
  - destruct (unify H fuel true false false (val vals a) (val vals b) s) as [t s1|e s1] eqn:Ei; [|discriminate].
    inversion E; subst. eapply kq_unify; eauto.
  - destruct (fix_ty H fuel pl (val vals a) s) as [t s1|e s1] eqn:Ei; [|discriminate].
    inversion E; subst. eapply kq_fix_ty; eauto.
Qed.

Lemma run_cmd_lenE fuel c vals s vals' s' : cmdEQ (length vals) c ->
  run_cmd H fuel c vals s = MOk vals' s' -> length vals' = nxt c (length vals).
Proof.
  intros Pc E. destruct Pc as [sc Sb Pcs|f x b Lf Lx|a b La Lb|a pl La]; cbn [run_cmd nxt] in *;
    unfold bindM in E;
    match type of E with match ?m with _ => _ end = _ => destruct m; [|discriminate] end;
    inversion E; subst; rewrite ?app_length; cbn; lia.
Qed.

Lemma run_cmds_kfr fuel : forall cs i vals s vals' s', progEQ (length vals) cs ->
  run_cmds H fuel cs i vals s = (None, vals', s') -> kfr (ncons cs) s s'.
Proof.
  induction cs as [|c cs IH]; intros i vals s vals' s' P R; cbn [run_cmds ncons] in *.
  - inversion R; subst. apply kfr_refl.
  - destruct P as [Pc Pr].
    destruct (run_cmd H fuel c vals s) as [vals1 s1|e s1] eqn:E1; [|discriminate].
    pose proof (run_cmd_kfr fuel c vals s vals1 s1 Pc E1) as K1.
    rewrite <- (run_cmd_lenE fuel c vals s vals1 s1 Pc E1) in Pr.
    pose proof (IH (S i) vals1 s1 vals' s' Pr R) as K2.
    replace (ncon c + ncons cs) with (ncons cs + ncon c) by lia. eapply kfr_trans; eauto.
Qed.

(* ---- the leaf instantiated by a CInst, in the final store ---- *)
(* n0 = number of the first fresh variable of its instantiation; its m declared
   constraints are the constraint objects c0 .. c0+m-1, entry c0+j of D is what
   the j-th one declares *)
Definition leaf_factE (D : list (list nat)) (n0 : nat) (s' : store) (vals' : list tyv)
  (k : nat) (sch : schema) : Prop :=
  Forall (pscE (s_n sch)) (s_constrs sch) /\
  exists c0,
    c0 + length (s_constrs sch) <= length (constrs s') /\
    (forall j scj, nth_error (s_constrs sch) j = Some scj ->
       cobj s' (nth (cvar scj) (map V (seq n0 (s_n sch))) (V 0)) scj (constr_of s' (c0 + j)) /\
       nth (c0 + j) D [] = decl scj) /\
    inst_post_env H sch (map V (seq n0 (s_n sch))) (val vals' k) s'.

Theorem run_cmds_leavesE fuel : forall cs i vals D0 s vals' s', JE s ->
  Forall (tg H (len s)) vals -> progEQ (length vals) cs -> length D0 = length (constrs s) ->
  run_cmds H fuel cs i vals s = (None, vals', s') ->
  forall k sch, In (k, sch) (insts_of cs (length vals)) ->
  exists n0, In (k, n0) (inst_trace H fuel cs vals s) /\ leaf_factE (D0 ++ decls cs) n0 s' vals' k sch.
Proof.
  induction cs as [|c cs IH]; intros i vals D0 s vals' s' I Fv Pc LD R k sch Hin; [destruct Hin|].
  destruct Pc as [Pc Pr]. cbn [run_cmds] in R.
  pose proof (run_cmd_goodEQ fuel c vals s I Fv Pc) as T. unfold tr in T.
  destruct (run_cmd H fuel c vals s) as [vals1 s1|e s1] eqn:E1; [|discriminate].
  destruct (T vals1 s1 eq_refl) as (_ & Ln1 & Fv1 & I1 & L1 & N1 & _).
  assert (Tr : inst_trace H fuel (c :: cs) vals s =
               match c with CInst _ => [(length vals, len s)] | _ => [] end ++ inst_trace H fuel cs vals1 s1)
    by (cbn [inst_trace]; rewrite E1; reflexivity).
  assert (Pr1 : progEQ (length vals1) cs) by (rewrite Ln1; exact Pr).
  assert (LD1 : length (D0 ++ decls_cmd c) = length (constrs s1)).
  { rewrite app_length, decls_cmd_length. lia. }
  assert (Rest : forall k sch, In (k, sch) (insts_of cs (nxt c (length vals))) ->
            exists n0, In (k, n0) (inst_trace H fuel (c :: cs) vals s) /\
                       leaf_factE (D0 ++ decls (c :: cs)) n0 s' vals' k sch).
  { intros k' sch' Hin'. rewrite <- Ln1 in Hin'.
    destruct (IH (S i) vals1 (D0 ++ decls_cmd c) s1 vals' s' I1 Fv1 Pr1 LD1 R k' sch' Hin') as (n0 & Hn0 & Lf).
    exists n0. split; [rewrite Tr; apply in_or_app; right; exact Hn0|].
    cbn [decls]. rewrite app_assoc. exact Lf. }
  destruct Pc as [sc Sb Pcs|f x b Lf Lx|a b La Lb|a pl La]; cbn [insts_of nxt] in Hin, Rest;
    try (apply Rest; exact Hin).
  destruct Hin as [[= <- <-]|Hin]; [|apply Rest; exact Hin].
  (* the leaf instantiated by this command *)
  exists (len s). split; [rewrite Tr; left; reflexivity|]. clear Tr Rest.
  cbn [run_cmd] in E1. unfold bindM in E1.
  destruct (instance H fuel sc s) as [t s0|e0 s0] eqn:Ei; [|discriminate].
  unfold ret in E1. inversion E1; subst s0 vals1. clear E1.
  destruct (instance_allocE H fuel sc s t s1 Pcs Ei) as (C1 & Hj).
  pose proof (instance_instE H W fuel sc s t s1 I Sb Pcs Ei) as Pi.
  destruct (run_cmds_goodEQ fuel cs (S i) (vals ++ [t]) s1 vals' s' I1 Fv1 Pr1 R)
    as (_ & L' & _ & (ext & Ext) & _).
  pose proof (run_cmds_kfr fuel cs (S i) (vals ++ [t]) s1 vals' s' Pr1 R) as C2.
  split; [exact Pcs|]. exists (length (constrs s)).
  destruct C1 as (_ & Lc1 & _). destruct C2 as (Ce2 & Lc2 & K2).
  split; [lia|split].
  - intros j scj Hn.
    assert (Lj : j < length (s_constrs sc)) by (apply nth_error_Some; congruence).
    split.
    + eapply cobj_keep; [exact Ce2|apply (Hj j scj Hn)|]. apply K2. lia.
    + cbn [decls decls_cmd]. rewrite app_nth2 by lia. rewrite LD.
      replace (length (constrs s) + j - length (constrs s)) with j by lia.
      rewrite app_nth1 by (rewrite map_length; exact Lj).
      rewrite (nth_indep _ [] (decl scj)) by (rewrite map_length; exact Lj).
      rewrite map_nth. f_equal. apply nth_error_nth. exact Hn.
  - rewrite Ext, <- app_assoc. change ([t] ++ ext) with (t :: ext). rewrite val_app_new.
    intros th S. apply Pi. eapply lefE_sat; eauto.
Qed.

(* the trace is a function of the value index *)
Lemma inst_trace_geE fuel : forall cs vals s, progEQ (length vals) cs ->
  forall k n0, In (k, n0) (inst_trace H fuel cs vals s) -> length vals <= k.
Proof.
  induction cs as [|c cs IH]; intros vals s Pc k n0 Hin; cbn [inst_trace] in Hin; [destruct Hin|].
  destruct Pc as [Pc Pr].
  destruct (run_cmd H fuel c vals s) as [vals1 s1|e s1] eqn:E1; [|destruct Hin].
  pose proof (run_cmd_lenE fuel c vals s vals1 s1 Pc E1) as Ln. rewrite <- Ln in Pr.
  apply in_app_or in Hin. destruct Hin as [Hin|Hin].
  - destruct c as [sc0|? ? ?|? ? ?|? ?]; [destruct Hin as [Hin|[]]|destruct Hin..]. inversion Hin; subst. lia.
  - apply (IH vals1 s1 Pr) in Hin. pose proof (nxt_le c (length vals)). lia.
Qed.

Lemma inst_trace_funE fuel : forall cs vals s, progEQ (length vals) cs ->
  forall k n0 n0', In (k, n0) (inst_trace H fuel cs vals s) -> In (k, n0') (inst_trace H fuel cs vals s) -> n0 = n0'.
Proof.
  induction cs as [|c cs IH]; intros vals s Pc k n0 n0' Hin Hin'; cbn [inst_trace] in Hin, Hin'; [destruct Hin|].
  destruct Pc as [Pc Pr].
  destruct (run_cmd H fuel c vals s) as [vals1 s1|e s1] eqn:E1; [|destruct Hin].
  pose proof (run_cmd_lenE fuel c vals s vals1 s1 Pc E1) as Ln. rewrite <- Ln in Pr.
  apply in_app_or in Hin. apply in_app_or in Hin'.
  assert (Hd : forall m, In (k, m) (match c with CInst _ => [(length vals, length (vars s))] | _ => [] end) ->
            k = length vals /\ m = length (vars s) /\ length vals1 = S (length vals)).
  { intros m Hm. destruct c as [sc0|? ? ?|? ? ?|? ?]; [destruct Hm as [Hm|[]]|destruct Hm..]. inversion Hm; subst.
    cbn [nxt] in Ln. auto. }
  destruct Hin as [Hin|Hin]; destruct Hin' as [Hin'|Hin'].
  - destruct (Hd _ Hin) as (_ & -> & _). destruct (Hd _ Hin') as (_ & -> & _). reflexivity.
  - destruct (Hd _ Hin) as (-> & _ & L1). apply (inst_trace_geE fuel cs vals1 s1 Pr) in Hin'. lia.
  - destruct (Hd _ Hin') as (-> & _ & L1). apply (inst_trace_geE fuel cs vals1 s1 Pr) in Hin. lia.
  - apply (IH vals1 s1 Pr k n0 n0' Hin Hin').
Qed.

End ProgsEQ.

(* ================================================================== *)
(* Part 5.  The constraint clauses of C03_elim from the invariants alone *)
(* (SoundElim.elim_constraints / _hold / _sub_constraints_hold, stated   *)
(* for any store that satisfies [finE])                                  *)
(* ================================================================== *)
Section Fin.
Variable H : hier.
Hypothesis W : wf_hier H.
Local Notation gd := (FL.good H).
Local Notation obs := FL.obs.
Local Notation len s := (length (vars s)).

Theorem fin_satisfiable D s : finE H D s ->
  exists th, sat H th s /\ forall v, c_bound (cell_of s v) = None -> th v = canon s v.
Proof. intros (I & _ & J0 & _). apply (JE_satisfiable H W s I J0). Qed.

Theorem fin_constraints D s : finE H D s ->
  forall c, c < length (constrs s) ->
  let k := constr_of s c in
  tg H (len s) (k_ref k) /\
  if k_elim k then
    (exists l, Forall gd l /\ k_alts k = obs l /\ incl l (nth c D [])) /\
    (k_done k = true ->
       exists a, k_alts k = [O a []] /\
         forall th, sat H th s -> Sub H (den th (k_ref k)) (TOp a [])) /\
    (k_done k = false ->
       (forall o args, follow s (k_ref k) = O o args ->
          k_alts k <> [] /\ forall m, In (O m []) (k_alts k) -> Sub H (TOp o []) (TOp m [])) /\
       (forall u, follow s (k_ref k) = V u -> In c (cset_of s (c_cs (cell_of s u)))))
  else
    exists a, k_alts k = [O a []] /\ variance H a = [] /\
      (forall o args, follow s (k_ref k) = O o args ->
         Sub H (TOp o []) (TOp a []) /\ (k_strict k = true -> o <> a)) /\
      (forall u, follow s (k_ref k) = V u ->
         if k_done k then a = Top /\ k_strict k = false
         else In c (cset_of s (c_cs (cell_of s u)))).
Proof.
  intros (I & Kk & (_ & Cw) & Dn) c Lc k.
  destruct (Cw c Lc) as (Tr & _). fold k in Tr. split; [exact Tr|].
  destruct (Kk c Lc) as (Sh & Hr). fold k in Sh, Hr.
  pose proof (follow_rsv s (k_ref k) (proj1 I)) as R0.
  unfold shp in Sh. destruct (k_elim k) eqn:Ee.
  - split; [exact Sh|]. split.
    + intros Ed. apply (Dn c Ee Ed).
    + intros Ed. split.
      * intros o args Ef. rewrite Ef in R0. specialize (Hr _ R0). cbn [rcl] in Hr.
        destruct Hr as [Ok|(_ & [])]. unfold okres in Ok. rewrite Ee in Ok.
        destruct Ok as [Ok|(Ne & Ok)]; [congruence|]. split; [exact Ne|].
        intros m Hm. apply (holdE_Sub H). apply Ok. exact Hm.
      * intros u Ef. rewrite Ef in R0. specialize (Hr _ R0). cbn [rcl] in Hr. rewrite Ed in Hr. exact Hr.
  - destruct Sh as (a & Ea & Ba). exists a. split; [exact Ea|]. split; [apply Lub.basic_iff; exact Ba|]. split.
    + intros o args Ef. rewrite Ef in R0. specialize (Hr _ R0). cbn [rcl] in Hr.
      destruct Hr as [Ok|(_ & [])]. unfold okres in Ok. rewrite Ee in Ok.
      destruct Ok as (a' & Ea' & (Ho & Hs)). rewrite Ea in Ea'. injection Ea' as <-.
      split; [|exact Hs].
      destruct Ho as [->|[->|(Bo & Lo)]]; [apply SubBot|apply SubTop|].
      apply ole_Sub; auto. apply Lub.basic_iff. exact Bo.
    + intros u Ef. rewrite Ef in R0. specialize (Hr _ R0). cbn [rcl] in Hr.
      destruct (k_done k); [|exact Hr]. unfold okvar in Hr. rewrite Ee in Hr.
      destruct Hr as (a' & Ea' & -> & Es). rewrite Ea in Ea'. injection Ea' as ->. auto.
Qed.

Theorem fin_constraints_hold D s : finE H D s ->
  forall c, c < length (constrs s) -> k_elim (constr_of s c) = true ->
  forall o args, follow s (k_ref (constr_of s c)) = O o args ->
  exists a, In a (nth c D []) /\ In (O a []) (k_alts (constr_of s c)) /\
            Sub H (TOp o []) (TOp a []).
Proof.
  intros F c Lc Ee o args Ef.
  destruct (fin_constraints D s F c Lc) as (_ & Hk). cbv zeta in Hk. rewrite Ee in Hk.
  destruct Hk as ((l & Gl & Ea & Il) & Hd & Hn).
  destruct (k_done (constr_of s c)) eqn:Ed.
  - destruct (Hd eq_refl) as (a & Ea' & Ha).
    assert (El : l = [a]) by (apply obs_inv1; congruence). subst l.
    assert (Ga : gd a) by (inversion Gl; assumption).
    destruct (fin_satisfiable D s F) as (th & S & _).
    pose proof (Ha th S) as Sb. rewrite <- (den_follow H th s _ S), Ef in Sb. cbn [den] in Sb.
    exists a. split; [apply Il; left; reflexivity|split; [rewrite Ea'; left; reflexivity|]].
    destruct Ga as (Va & Ta & Ba).
    inversion Sb as [t|t|a0 b0 Va0 A0|o0 xs ys Vo AR]; subst.
    + apply SubBot.
    + congruence.
    + apply SubBase; auto.
    + congruence.
  - destruct (Hn eq_refl) as (Hres & _). destruct (Hres o args Ef) as (Ne & Hm).
    destruct l as [|m l]; [rewrite Ea in Ne; cbn in Ne; congruence|].
    exists m. split; [apply Il; left; reflexivity|].
    assert (In (O m []) (k_alts (constr_of s c))) by (rewrite Ea; left; reflexivity).
    split; [assumption|apply Hm; assumption].
Qed.

Theorem fin_sub_constraints_hold D s : finE H D s ->
  forall c, c < length (constrs s) -> k_elim (constr_of s c) = false ->
  exists a, k_alts (constr_of s c) = [O a []] /\
    forall o args, follow s (k_ref (constr_of s c)) = O o args ->
      Sub H (TOp o []) (TOp a []) /\ (k_strict (constr_of s c) = true -> o <> a) /\
      (args = [] \/ a = Top).
Proof.
  intros F c Lc Ee.
  destruct (fin_constraints D s F c Lc) as (Tr & Hk). cbv zeta in Hk. rewrite Ee in Hk.
  destruct Hk as (a & Ea & Va & Hres & _). exists a. split; [exact Ea|].
  intros o args Ef. destruct (Hres o args Ef) as (Sb & St). split; [exact Sb|split; [exact St|]].
  destruct (Nat.eq_dec a Top) as [->|Na]; [right; reflexivity|left].
  destruct F as (_ & _ & J0 & _).
  pose proof (SoundElimS.tg_follow H s _ J0 Tr) as Tf. rewrite Ef in Tf.
  inversion Tf as [|? ? La _]; subst.
  assert (Vo : variance H o = []).
  { inversion Sb as [t|t|a0 b0 Va0 A0|o0 xs ys Vo AR]; subst; auto; try congruence.
    apply (var_bot H W). }
  rewrite Vo in La. destruct args; [reflexivity|discriminate].
Qed.

(* (iv) a variable that carries a bound is never resolved to a compound type *)
Theorem fin_bounded sc D s : finE H D s -> SoundElimS.lefE H (empty_store sc) s ->
  forall v t o args, c_bound (cell_of s v) = Some t ->
    (c_lower (cell_of s v) <> None \/ c_upper (cell_of s v) <> None) ->
    follow s t = O o args -> args = [].
Proof.
  intros F (_ & Fr & _) v t o args Hv Hb Ef.
  destruct (fin_satisfiable D s F) as (th & S & _).
  assert (B : isbase (th v)).
  { apply (fr_new _ _ _ Fr v); auto; [|congruence].
    unfold cell_of. cbn. destruct v; reflexivity. }
  destruct (S v) as [_ Sv]. rewrite Hv in Sv.
  rewrite <- (den_follow H th s t S), Ef in Sv. cbn [den] in Sv.
  destruct B as (b & Eb). rewrite Eb in Sv. injection Sv as _ Em.
  destruct args; [reflexivity|discriminate].
Qed.

End Fin.

(* ================================================================== *)
(* Part 6.  Leaves, expressions, the whole compiled program             *)
(* ================================================================== *)
Section ExprElim.
Variable H : hier.
Hypothesis W : wf_hier H.
Local Notation len s := (length (vars s)).
Local Notation pscE := (SoundElimS.pscE H).
Local Notation cmdE := (SoundElimS.cmdE H).
Local Notation progE := (SoundElimS.progE H).

(* ---- what is proved of a leaf (a CInst command) in the final store ----
   [env]: the leaf's own fresh variables, one per schematic variable.
   (1) under every satisfying grounding the leaf's value denotes its declared
       body under the substitution  i |-> den th (env_i);
   (2) every declared subtype constraint  x_i <= a  (x_i < a)  whose variable is
       resolved in the final store holds;
   (3) for every declared elimination constraint  x_i << alts  whose variable
       is resolved to O o args there is a DECLARED alternative a with o <= a;
       then args = [] and the substitution is below a under every grounding. *)
Definition leaf_semE (n0 : nat) (s : store) (vals : list tyv) (k : nat) (sch : schema) : Prop :=
  let env := map V (seq n0 (s_n sch)) in
    (forall th, sat H th s ->
       (forall i, wf_ty H (sig_of th env i)) /\
       sinst H (sig_of th env) (s_body sch) (den th (val vals k)) /\
       (nowild (s_body sch) = true -> den th (val vals k) = ssubst (sig_of th env) (s_body sch))) /\
    (forall i a st, In (SCSub (SVar i) (SOp a []) st) (s_constrs sch) ->
       forall o args, follow s (nth i env (V 0)) = O o args ->
         (Sub H (TOp o []) (TOp a []) /\ (st = true -> o <> a) /\ (args = [] \/ a = Top)) /\
         forall th, sat H th s ->
           Sub H (sig_of th env i) (TOp a []) /\ (st = true -> sig_of th env i <> TOp a [])) /\
    (forall i alts, In (SCElim (SVar i) alts) (s_constrs sch) ->
       forall o args, follow s (nth i env (V 0)) = O o args ->
         exists a, In (SOp a []) alts /\ Sub H (TOp o []) (TOp a []) /\ args = [] /\
           forall th, sat H th s -> Sub H (sig_of th env i) (TOp a [])).

Lemma leaf_semE_of_fact D s vals : finE H D s ->
  forall n0 k sch, leaf_factE H D n0 s vals k sch -> leaf_semE n0 s vals k sch.
Proof.
  intros F n0 k sch (Pcs & c0 & Lc & Hj & Pi). unfold leaf_semE.
  set (env := map V (seq n0 (s_n sch))) in *.
  pose proof (proj1 (proj1 F)) as Co.
  split; [|split].
  - intros th S. destruct (Pi th S) as (Ws & Si). split; [exact Ws|split; [exact Si|]].
    intros Nw. eapply sinst_nowild; eauto.
  - intros i a st Hin o args Ef.
    destruct (In_nth_error _ _ Hin) as (j & Hn).
    assert (Lj : j < length (s_constrs sch)) by (apply nth_error_Some; congruence).
    destruct (Hj j _ Hn) as ((Rc & Ke & Ka & Ks) & _). cbn [cvar] in Rc.
    pose proof (reach_follow_eq s _ _ Co Rc) as Efc. rewrite Ef in Efc.
    destruct (fin_sub_constraints_hold H W D s F (c0 + j)) as (a' & Ea & Hr); [lia|exact Ke|].
    rewrite Ka in Ea. inversion Ea; subst a'. rewrite Ks in Hr.
    destruct (Hr o args Efc) as (Sb & St & Ar).
    split; [split; [exact Sb|split; [exact St|exact Ar]]|].
    intros th S. unfold sig_of. rewrite <- (den_follow H th s _ S), Ef. cbn [den].
    destruct Ar as [->| ->].
    + cbn [map]. split; [exact Sb|]. intros Es E. apply (St Es). congruence.
    + split; [apply SubTop|]. intros Es E. apply (St Es). congruence.
  - intros i alts Hin o args Ef.
    destruct (In_nth_error _ _ Hin) as (j & Hn).
    assert (Lj : j < length (s_constrs sch)) by (apply nth_error_Some; congruence).
    destruct (Hj j _ Hn) as ((Rc & Ke) & Ed). cbn [cvar kdecl] in Rc, Ke. cbn [decl] in Ed.
    pose proof (reach_follow_eq s _ _ Co Rc) as Efc. rewrite Ef in Efc.
    assert (Lcj : c0 + j < length (constrs s)) by lia.
    destruct (fin_constraints_hold H W D s F (c0 + j) Lcj Ke o args Efc) as (a & Ia & _ & Sa).
    rewrite Ed in Ia.
    rewrite Forall_forall in Pcs. destruct (Pcs _ Hin) as [Pp|Pp]; [cbn in Pp; tauto|].
    cbn [pec] in Pp. destruct Pp as (Li & l & Gl & ->). rewrite map_sop_sb in Ia.
    assert (Ga : FL.good H a) by (rewrite Forall_forall in Gl; apply Gl; exact Ia).
    destruct Ga as (Va & Ta & Ba).
    assert (Vo : variance H o = []).
    { inversion Sa as [t|t|a0 b0 Va0 A0|o0 xs ys Vo AR]; subst; auto; try congruence.
      apply (var_bot H W). }
    assert (Ar : args = []).
    { destruct (fin_constraints H D s F (c0 + j) Lcj) as (Tr & _).
      destruct F as (_ & _ & J0 & _).
      pose proof (SoundElimS.tg_follow H s _ J0 Tr) as Tf. rewrite Efc in Tf.
      inversion Tf as [|? ? La _]; subst. rewrite Vo in La. destruct args; [reflexivity|discriminate]. }
    exists a. split; [apply in_map_iff; exists a; split; [reflexivity|exact Ia]|].
    split; [exact Sa|split; [exact Ar|]].
    intros th S. unfold sig_of. rewrite <- (den_follow H th s _ S), Ef, Ar. cbn [den map]. exact Sa.
Qed.

(* every CInst of an accepted program of the class *)
Theorem prog_leaves_elim fuel sc prog vals s : progEQ H 0 prog ->
  run_cmds H fuel prog 0 [] (empty_store sc) = (None, vals, s) ->
  forall k sch, In (k, sch) (insts_of prog 0) ->
  exists n0, In (k, n0) (prog_vars H fuel sc prog) /\ leaf_semE n0 s vals k sch.
Proof.
  intros P R k sch Hin.
  destruct (run_cmds_leavesE H W fuel prog 0 [] [] (empty_store sc) vals s (JE_empty H sc)
              (Forall_nil _) P eq_refl R k sch Hin) as (n0 & Hn0 & Lf).
  destruct (progEQ_final H W fuel sc prog vals s P R) as (F & _).
  exists n0. split; [exact Hn0|]. apply (leaf_semE_of_fact (decls prog) s vals F). exact Lf.
Qed.

(* the constraint objects of a leaf in the final store *)
Theorem prog_leaf_objects fuel sc prog vals s : progEQ H 0 prog ->
  run_cmds H fuel prog 0 [] (empty_store sc) = (None, vals, s) ->
  forall k sch, In (k, sch) (insts_of prog 0) ->
  exists n0 c0, In (k, n0) (prog_vars H fuel sc prog) /\
    c0 + length (s_constrs sch) <= length (constrs s) /\
    forall j scj, nth_error (s_constrs sch) j = Some scj ->
      let x := nth (cvar scj) (map V (seq n0 (s_n sch))) (V 0) in
      let kc := constr_of s (c0 + j) in
      follow s (k_ref kc) = follow s x /\ kdecl scj kc /\ nth (c0 + j) (decls prog) [] = decl scj.
Proof.
  intros P R k sch Hin.
  destruct (run_cmds_leavesE H W fuel prog 0 [] [] (empty_store sc) vals s (JE_empty H sc)
              (Forall_nil _) P eq_refl R k sch Hin) as (n0 & Hn0 & _ & c0 & Lc & Hj & _).
  destruct (progEQ_final H W fuel sc prog vals s P R) as ((Iv & _) & _).
  exists n0, c0. split; [exact Hn0|split; [exact Lc|]]. intros j scj Hn. cbv zeta.
  destruct (Hj j scj Hn) as ((Rc & Kd) & Ed).
  split; [apply (reach_follow_eq s _ _ (proj1 Iv) Rc)|split; [exact Kd|exact Ed]].
Qed.

(* the semantic reading of every command, as for the constraint-free class *)
Theorem prog_sem_elim fuel sc prog vals s : progEQ H 0 prog ->
  run_cmds H fuel prog 0 [] (empty_store sc) = (None, vals, s) ->
  forall th, sat H th s ->
  (forall f x r, In (f, x, r) (steps_of prog 0) ->
     StepSem H th (val vals f) (val vals x) (val vals r)) /\
  (forall a b, In (a, b) (unifs_of prog) -> Sub H (den th (val vals a)) (den th (val vals b))) /\
  (forall a r, In (a, r) (fixes_of prog 0) -> den th (val vals r) = den th (val vals a)).
Proof.
  intros P R th S.
  destruct (progEQ_final H W fuel sc prog vals s P R) as (_ & _ & _ & Sem).
  destruct (prog_sem_obs H th vals _ 0 (Sem th S)) as (A & _ & C & D).
  rewrite steps_erase' in A. rewrite unifs_erase in C. rewrite fixes_erase in D. auto.
Qed.

Theorem prog_satisfiable_elim fuel sc prog vals s : progEQ H 0 prog ->
  run_cmds H fuel prog 0 [] (empty_store sc) = (None, vals, s) ->
  exists th, sat H th s /\ forall v, c_bound (cell_of s v) = None -> th v = canon s v.
Proof.
  intros P R. destruct (progEQ_final H W fuel sc prog vals s P R) as (F & _).
  apply (fin_satisfiable H W _ s F).
Qed.

(* ---- expression trees ---- *)
(* operator leaves may carry elimination constraints over base alternatives
   and pure subtype constraints on their schematic variables *)
Fixpoint leaves_okE (e : expr) : Prop :=
  match e with
  | EOp sc => styg H (s_n sc) (s_body sc) /\ Forall (pscE (s_n sc)) (s_constrs sc)
  | ESrc t => styg H (sbound t) t
  | EApp f x => leaves_okE f /\ leaves_okE x
  end.

Lemma leaves_okS_okE e : leaves_okS H e -> leaves_okE e.
Proof.
  induction e as [sc|t|f IHf x IHx]; cbn [leaves_okS leaves_okE]; auto.
  - intros (Sb & Pc). split; [exact Sb|]. eapply Forall_impl; [|exact Pc]. intros a Pa. left. exact Pa.
  - intros (Lf & Lx). auto.
Qed.

Lemma progE_app : forall a n b, progE n a -> progE (n + length a) b -> progE n (a ++ b).
Proof.
  induction a as [|c a IH]; intros n b Pa Pb; cbn [List.app length] in *.
  - rewrite Nat.add_0_r in Pb. exact Pb.
  - destruct Pa as [Pc Pa]. split; [exact Pc|]. apply IH; [exact Pa|].
    replace (S n + length a) with (n + S (length a)) by lia. exact Pb.
Qed.

Lemma code_progE e : leaves_okE e -> forall n, progE n (code e n).
Proof.
  induction e as [sc|t|f IHf x IHx]; intros L n; cbn [code leaves_okE] in *.
  - destruct L as [Sb Pc]. split; [constructor; auto|exact I].
  - split; [constructor; [exact L|constructor]|exact I].
  - destruct L as [Lf Lx]. apply progE_app; [apply IHf; exact Lf|]. rewrite code_length.
    apply progE_app; [apply IHx; exact Lx|]. rewrite code_length.
    pose proof (size_pos f). pose proof (size_pos x).
    split; [|exact I]. unfold vidx. constructor; lia.
Qed.

Theorem compile_wfE e : leaves_okE e -> progE 0 (prog_of e) /\ prog_wf 0 (prog_of e).
Proof.
  intros L. rewrite prog_of_code. pose proof (code_progE e L 0) as P.
  split; [exact P|apply (progEQ_wf H); apply progE_EQ; exact P].
Qed.

Theorem expr_elim e fuel sc vals s : leaves_okE e ->
  run_cmds H fuel (prog_of e) 0 [] (empty_store sc) = (None, vals, s) ->
  (forall th, sat H th s -> forall f x r, In (f, x, r) (nodes e 0) ->
     StepSem H th (val vals f) (val vals x) (val vals r)) /\
  (forall k sch, In (k, sch) (leaves e 0) ->
     exists n0, In (k, n0) (prog_vars H fuel sc (prog_of e)) /\ leaf_semE n0 s vals k sch).
Proof.
  intros L R. rewrite prog_of_code in R.
  pose proof (code_progE e L 0) as P. split.
  - intros th S f x r Hin. rewrite <- steps_code0 in Hin.
    apply (elim_sound12 H W fuel sc _ vals s P R th S). exact Hin.
  - intros k sch Hin. rewrite <- insts_code0 in Hin. rewrite prog_of_code.
    apply (prog_leaves_elim fuel sc _ vals s (progE_EQ H _ _ P) R k sch Hin).
Qed.

Theorem expr_elim_satisfiable e fuel sc vals s : leaves_okE e ->
  run_cmds H fuel (prog_of e) 0 [] (empty_store sc) = (None, vals, s) ->
  exists th, sat H th s /\ forall v, c_bound (cell_of s v) = None -> th v = canon s v.
Proof.
  intros L R. rewrite prog_of_code in R.
  apply (elim_satisfiable H W fuel sc _ vals s (code_progE e L 0) R).
Qed.

End ExprElim.

(* ================================================================== *)
(* Part 7.  The whole compiled program: numbered inputs, annotations,   *)
(* typed-source self-unification, the fix traversal                     *)
(* ================================================================== *)
Section FullE.
Variable H : hier.
Hypothesis W : wf_hier H.
Local Notation pscE := (SoundElimS.pscE H).

(* k = number of inputs; operator leaves may carry constraints of both kinds *)
Fixpoint xokE (k : nat) (e : xexpr) : Prop :=
  match e with
  | XOp sc _ => styg H (s_n sc) (s_body sc) /\ Forall (pscE (s_n sc)) (s_constrs sc)
  | XSrc t => styg H (sbound t) t
  | XIn i => i < k
  | XApp f x => xokE k f /\ xokE k x
  | XAnn e T => xokE k e /\ styg H (sbound T) T
  end.

Lemma xokS_okE k e : xokS H k e -> xokE k e.
Proof.
  induction e as [sc data|t|i|f IHf x IHx|e IHe T]; cbn [xokS xokE]; auto.
  - intros (Sb & Pc). split; [exact Sb|]. eapply Forall_impl; [|exact Pc]. intros a Pa. left. exact Pa.
  - intros (Kf & Kx). auto.
  - intros (Ke & KT). auto.
Qed.

Lemma xokE_erase k e : xokE k e -> xok H k (xerase e).
Proof.
  induction e as [sc data|t|i|f IHf x IHx|e IHe T]; cbn [xok xokE xerase]; auto.
  - intros (Sb & _). split; [reflexivity|exact Sb].
  - intros (Kf & Kx). auto.
  - intros (Ke & KT). auto.
Qed.

(* the constraints of every CInst are of the class *)
Definition pscmdE (c : cmd) : Prop :=
  match c with CInst sc => Forall (pscE (s_n sc)) (s_constrs sc) | _ => True end.

Lemma progEQ_of_erase : forall cs n, progQ H n (map erase_cmd cs) -> Forall pscmdE cs -> progEQ H n cs.
Proof.
  induction cs as [|c cs IH]; intros n P F; cbn [map progQ progEQ] in *; [exact I|].
  destruct P as [Pc Pr]. inversion F as [|? ? Fc Fr]; subst. rewrite nxt_erase in Pr.
  split; [|apply IH; auto].
  destruct c as [sc|f x b|a b sub|a pl]; cbn [erase_cmd pscmdE] in *; inversion Pc; subst; constructor; auto.
Qed.

Lemma xcompile_pscmdE k e : xokE k e -> forall n, Forall pscmdE (fst (fst (xcompile e n))).
Proof.
  induction e as [sc data|t|i|f IHf x IHx|e IHe T]; intros K n; cbn [xcompile xokE] in *.
  - cbn. constructor; [apply K|constructor].
  - cbn [fst]. constructor; [constructor|]. destruct (is_wild t); repeat constructor.
  - constructor.
  - destruct K as [Kf Kx]. specialize (IHf Kf n). destruct (xcompile f n) as [[cf nf] n1].
    specialize (IHx Kx n1). destruct (xcompile x n1) as [[cx nx] n2]. cbn [fst snd] in *.
    apply Forall_app. split; [exact IHf|]. apply Forall_app. split; [exact IHx|repeat constructor].
  - destruct K as [Ke KT]. specialize (IHe Ke n). destruct (xcompile e n) as [[ce ne] n1]. cbn [fst snd] in *.
    apply Forall_app. split; [exact IHe|repeat constructor].
Qed.

Lemma fixc_pscmdE nd : Forall pscmdE (fixc nd).
Proof.
  induction nd as [v|v|v f IHf x IHx]; cbn [fixc]; repeat constructor.
  apply Forall_app. split; [exact IHf|]. apply Forall_app. split; [exact IHx|repeat constructor].
Qed.

Theorem xprog_okE inputs e : Forall (fun t => styg H (sbound t) t) inputs -> xokE (length inputs) e ->
  progEQ H 0 (xprog inputs e).
Proof.
  intros Fi K. apply progEQ_of_erase.
  - rewrite <- xprog_erase. apply xprog_ok; [exact Fi|apply xokE_erase; exact K].
  - unfold xprog. pose proof (xcompile_pscmdE _ e K (length inputs)) as Fc.
    destruct (xcompile e (length inputs)) as [[cs nd] n1]. cbn [fst] in Fc.
    apply Forall_app. split; [|apply Forall_app; split; [exact Fc|apply fixc_pscmdE]].
    unfold input_cmds. rewrite Forall_forall. intros c Hc. apply in_map_iff in Hc.
    destruct Hc as (t & <- & _). constructor.
Qed.

(* ExprSound.xexpr_sound from the semantic reading of the program alone *)
Lemma xsound_of_sem inputs e th vals : Forall (fun t => styg H (sbound t) t) inputs ->
  prog_sem H th vals (xprog inputs e) 0 ->
  let k := length inputs in
  let '(cs, nd, n1) := xcompile e k in
  (forall i t, nth_error inputs i = Some t -> is_inst H th (src_schema t) (val vals i)) /\
  xsem H th vals e k /\ nsem H th vals nd /\
  nsem H th vals (fst (fixed nd n1)) /\
  den th (val vals (nval (fst (fixed nd n1)))) = den th (val vals (nval nd)).
Proof.
  intros Fi Sem. cbv zeta. unfold xprog in Sem.
  pose proof (xcompile_nxts e (length inputs)) as Ne.
  pose proof (xsem_of_prog H th vals e (length inputs)) as Xs.
  destruct (xcompile e (length inputs)) as [[cs nd] n1]. cbn [fst snd length] in *.
  apply prog_sem_app in Sem. destruct Sem as [Si Sem].
  destruct (input_cmds_ok H inputs Fi 0) as [_ Ni]. cbn in Ni. rewrite Ni in Sem.
  apply Xs in Sem. destruct Sem as (Se & Nse & Sf).
  rewrite <- (app_nil_r (fixc nd)) in Sf.
  destruct (fixed_sem H th vals nd n1 [] Sf Nse) as (Nf & Df & _).
  split; [|tauto].
  intros i t Hn. apply (inputs_sem H th vals inputs 0 Si i t Hn).
Qed.

(* C04 for the whole compiled program over operators with constraints of both kinds *)
Theorem xexpr_elim inputs e fuel sc vals s :
  Forall (fun t => styg H (sbound t) t) inputs -> xokE (length inputs) e ->
  run_cmds H fuel (xprog inputs e) 0 [] (empty_store sc) = (None, vals, s) ->
  (forall th, sat H th s ->
     let k := length inputs in
     let '(cs, nd, n1) := xcompile e k in
     (forall i t, nth_error inputs i = Some t -> is_inst H th (src_schema t) (val vals i)) /\
     xsem H th vals e k /\ nsem H th vals nd /\
     nsem H th vals (fst (fixed nd n1)) /\
     den th (val vals (nval (fst (fixed nd n1)))) = den th (val vals (nval nd))) /\
  (forall k sch, In (k, sch) (insts_of (xprog inputs e) 0) ->
     exists n0, In (k, n0) (prog_vars H fuel sc (xprog inputs e)) /\ leaf_semE H n0 s vals k sch) /\
  (forall k sch, In (k, sch) (xleaves e (length inputs)) ->
     exists n0, In (k, n0) (prog_vars H fuel sc (xprog inputs e)) /\ leaf_semE H n0 s vals k sch).
Proof.
  intros Fi K R. pose proof (xprog_okE inputs e Fi K) as P.
  assert (Lf : forall k sch, In (k, sch) (insts_of (xprog inputs e) 0) ->
            exists n0, In (k, n0) (prog_vars H fuel sc (xprog inputs e)) /\ leaf_semE H n0 s vals k sch).
  { intros k sch Hin. apply (prog_leaves_elim H W fuel sc _ vals s P R k sch Hin). }
  split; [|split; [exact Lf|]].
  - intros th S. cbv zeta.
    destruct (progEQ_final H W fuel sc _ vals s P R) as (_ & _ & _ & Sem).
    specialize (Sem th S). rewrite <- xprog_erase in Sem.
    pose proof (xsound_of_sem inputs (xerase e) th vals Fi Sem) as X.
    cbv zeta in X. rewrite xcompile_erase in X.
    destruct (xcompile e (length inputs)) as [[cs nd] n1]. cbn [fst snd] in X.
    rewrite xsem_erase in X. exact X.
  - intros k sch Hin. apply Lf. apply (xleaves_xprog H inputs e Fi). exact Hin.
Qed.

Theorem xexpr_elim_satisfiable inputs e fuel sc vals s :
  Forall (fun t => styg H (sbound t) t) inputs -> xokE (length inputs) e ->
  run_cmds H fuel (xprog inputs e) 0 [] (empty_store sc) = (None, vals, s) ->
  exists th, sat H th s /\ forall v, c_bound (cell_of s v) = None -> th v = canon s v.
Proof.
  intros Fi K R. apply (prog_satisfiable_elim H W fuel sc _ vals s (xprog_okE inputs e Fi K) R).
Qed.

End FullE.
