(* C05 for ARBITRARY one-hole contexts.
   A context is a path through operators of any arity and variance; the
   sibling parameters along the path are fixed concrete types:

     octx := Hole | Node o before c after        c[x] = o(before.., c'[x], after..)

   The polarity [pol H c] of the hole is the xor of the contravariant steps on
   the path.  For the schema  c[x] ** ... ** c[x] ** x  applied to
   c[a1], ..., c[an]  (chain_prog_o c [a1;..;an]) we prove on the engine model:
     pol c = true    the result is the maximum of the a_i       (chain_o_lub..)
     pol c = false   x stays unresolved, upper bound = minimum  (chain_o_glb..)
   in every order (.._perm) and monotonically (.._mono).
   Reused from Lub.v: the argument-loop invariants Inv / Inv_d, unify_step /
   unify_step_d and the running extremum lub_from_g. *)
From Coq Require Import List Arith Bool Lia Permutation.
Import ListNotations.
From TF Require Import Base.Hier Base.Ty Infer.Store Infer.Engine Infer.Run Infer.Lub.

(* ------------------------------------------------------------------ *)
(* contexts                                                             *)

Inductive octx : Type :=
| Hole
| Node (o : nat) (before : list ty) (c : octx) (after : list ty).

(* concrete types as schematic type expressions *)
Fixpoint sinj (t : ty) : sty := match t with TOp o args => SOp o (map sinj args) end.

Fixpoint splug (c : octx) (t : sty) : sty :=
  match c with
  | Hole => t
  | Node o b c' a => SOp o (map sinj b ++ splug c' t :: map sinj a)
  end.

Fixpoint tplug (c : octx) (t : tyv) : tyv :=
  match c with
  | Hole => t
  | Node o b c' a => O o (map inj b ++ tplug c' t :: map inj a)
  end.

(* plugging a concrete type gives a concrete type *)
Fixpoint cplug (c : octx) (t : ty) : ty :=
  match c with
  | Hole => t
  | Node o b c' a => TOp o (b ++ cplug c' t :: a)
  end.

(* length of the path *)
Fixpoint octx_depth (c : octx) : nat :=
  match c with Hole => 0 | Node _ _ c' _ => S (octx_depth c') end.

(* height of a concrete type: a base type has height 1 *)
Fixpoint ty_height (t : ty) : nat :=
  match t with TOp _ args => S (fold_right (fun x acc => Nat.max (ty_height x) acc) 0 args) end.

Definition tys_height (l : list ty) : nat :=
  fold_right (fun x acc => Nat.max (ty_height x) acc) 0 l.

(* the highest sibling anywhere along the path (0 when there is none) *)
Fixpoint octx_sib (c : octx) : nat :=
  match c with
  | Hole => 0
  | Node _ b c' a => Nat.max (Nat.max (tys_height b) (tys_height a)) (octx_sib c')
  end.

(* arities match the variance table, siblings are well-formed concrete types *)
Fixpoint wf_octx (H : hier) (c : octx) : Prop :=
  match c with
  | Hole => True
  | Node o b c' a =>
      length b + S (length a) = length (variance H o) /\
      Forall (wf_ty H) b /\ Forall (wf_ty H) a /\ wf_octx H c'
  end.

(* polarity of the hole: true = covariant *)
Fixpoint pol (H : hier) (c : octx) : bool :=
  match c with
  | Hole => true
  | Node o b c' _ => if nth (length b) (variance H o) true then pol H c' else negb (pol H c')
  end.

Lemma tys_height_in l t : In t l -> ty_height t <= tys_height l.
Proof.
  induction l as [|x r IH]; intros Hin; [destruct Hin|]. cbn [tys_height fold_right].
  destruct Hin as [->|Hin]; [lia|]. specialize (IH Hin). unfold tys_height in IH. lia.
Qed.

Lemma inj_cplug c t : inj (cplug c t) = tplug c (inj t).
Proof.
  induction c as [|o b c IH a]; cbn [cplug tplug inj]; [reflexivity|].
  now rewrite map_app, map_cons, IH.
Qed.

Lemma wf_cplug H c t : wf_octx H c -> wf_ty H t -> wf_ty H (cplug c t).
Proof.
  induction c as [|o b c IH a]; cbn [cplug wf_octx]; [auto|].
  intros (L & Fb & Fa & Wc) Wt. apply wf_ty_unfold. split.
  - rewrite app_length. cbn [length]. lia.
  - apply Forall_app. split; auto.
Qed.

Lemma Forall2_In_r {A B} (R : A -> B -> Prop) l' l x :
  Forall2 R l' l -> In x l -> exists x', In x' l' /\ R x' x.
Proof.
  induction 1 as [|y' y r' r Hy _ IH]; intros Hx; [destruct Hx|].
  destruct Hx as [<-|Hx].
  - exists y'. split; [now left|auto].
  - destruct (IH Hx) as (x' & Hin & HR). exists x'. split; [now right|auto].
Qed.

Section LubCtx.
  Variable H : hier.

  (* ------------------------------------------------------------------ *)
  (* the argument loops of unify and fix_ty as named functions            *)

  Definition ugo (f : nat) (sub skb skw : bool) : list bool -> list tyv -> list tyv -> M unit :=
    fix go (vs : list bool) (xs ys : list tyv) : M unit :=
      match vs, xs, ys with
      | v :: vs', x :: xs', y :: ys' =>
          (if v then unify H f sub skb skw x y else unify H f sub skb skw y x) ;;;
          go vs' xs' ys'
      | _, _, _ => ret tt
      end.

  Definition fgo (f : nat) : bool -> list bool -> list tyv -> M unit :=
    fun pl => fix go (vs : list bool) (ps : list tyv) : M unit :=
      match vs, ps with
      | v :: vs', p :: ps' => fix_ty H f (if v then pl else negb pl) p ;;; go vs' ps'
      | _, _ => ret tt
      end.

  Lemma ugo_cons f sub skb skw v vs x xs y ys :
    ugo f sub skb skw (v :: vs) (x :: xs) (y :: ys) =
      ((if v then unify H f sub skb skw x y else unify H f sub skb skw y x) ;;;
       ugo f sub skb skw vs xs ys).
  Proof. reflexivity. Qed.

  Lemma fgo_cons f pl v vs p ps :
    fgo f pl (v :: vs) (p :: ps) =
      (fix_ty H f (if v then pl else negb pl) p ;;; fgo f pl vs ps).
  Proof. reflexivity. Qed.

  (* unify of two compound types with the same (non-basic) operator *)
  Lemma unify_node (W : wf_hier H) f sub skb skw o xs ys s :
    variance H o <> [] ->
    unify H (S f) sub skb skw (O o xs) (O o ys) s = ugo f sub skb skw (variance H o) xs ys s.
  Proof.
    intros Vo.
    assert (NB : Nat.eqb o Bottom = false).
    { apply Nat.eqb_neq. intros ->. destruct (wf_bot H W) as [_ E]. congruence. }
    assert (NT : Nat.eqb o Top = false).
    { apply Nat.eqb_neq. intros ->. destruct (wf_top H W) as [_ E]. congruence. }
    assert (Bo : basic H o = false).
    { unfold basic, arity. destruct (variance H o); [congruence|reflexivity]. }
    rewrite unify_S. unfold bindM at 1 2. unfold gets at 1 2. rewrite !follow_O.
    rewrite NB, NT, Bo, Nat.eqb_refl. reflexivity.
  Qed.

  Lemma fix_node f pl o args s :
    fix_ty H (S f) pl (O o args) s =
      (fgo f pl (variance H o) args ;;; gets (fun s => follow s (O o args))) s.
  Proof. rewrite fix_ty_S. unfold bindM at 1. unfold gets at 1. rewrite follow_O. reflexivity. Qed.

  (* ------------------------------------------------------------------ *)
  (* a concrete type unifies with itself and is its own fixed form,
     without touching the store                                          *)

  Lemma osubF_refl o : osub H false o o = true.
  Proof. unfold osub, op_subtype. cbn [negb andb]. now rewrite Nat.eqb_refl. Qed.

  Lemma unify_inj_refl t : forall f s, ty_height t <= f ->
    unify H f true false false (inj t) (inj t) s = MOk tt s.
  Proof.
    induction t as [o args IH] using ty_ind'. intros f s Hf.
    destruct f as [|f]; [cbn [ty_height] in Hf; lia|].
    cbn [inj]. rewrite unify_S. unfold bindM at 1 2. unfold gets at 1 2. rewrite !follow_O.
    destruct (Nat.eqb o Bottom || Nat.eqb o Top); [reflexivity|].
    destruct (basic H o).
    { rewrite osubF_refl. reflexivity. }
    rewrite Nat.eqb_refl.
    change (ugo f true false false (variance H o) (map inj args) (map inj args) s = MOk tt s).
    assert (Hh : tys_height args <= f) by (cbn [ty_height] in Hf; unfold tys_height; lia).
    clear Hf. revert s. generalize (variance H o) as vs.
    induction IH as [|x r Hx _ IHr]; intros vs s.
    - destruct vs; reflexivity.
    - destruct vs as [|v vs]; [reflexivity|]. cbn [map]. rewrite ugo_cons.
      cbn [tys_height fold_right] in Hh.
      unfold bindM. replace (if v then _ else _) with (unify H f true false false (inj x) (inj x))
        by now destruct v.
      rewrite Hx by lia. apply IHr. unfold tys_height. lia.
  Qed.

  Lemma fix_inj t : forall f pl s, ty_height t <= f ->
    fix_ty H f pl (inj t) s = MOk (inj t) s.
  Proof.
    induction t as [o args IH] using ty_ind'. intros f pl s Hf.
    destruct f as [|f]; [cbn [ty_height] in Hf; lia|].
    cbn [inj]. rewrite fix_node.
    assert (Hh : tys_height args <= f) by (cbn [ty_height] in Hf; unfold tys_height; lia).
    assert (E : forall vs s, fgo f pl vs (map inj args) s = MOk tt s).
    { clear Hf. induction IH as [|x r Hx _ IHr]; intros vs s'.
      - destruct vs; reflexivity.
      - destruct vs as [|v vs]; [reflexivity|]. cbn [map]. rewrite fgo_cons.
        cbn [tys_height fold_right] in Hh. unfold bindM. rewrite Hx by lia.
        apply IHr. unfold tys_height. lia. }
    unfold bindM. rewrite E. reflexivity.
  Qed.

  Lemma eval_sinj env t : forall s, eval_sty env (sinj t) s = MOk (inj t) s.
  Proof.
    induction t as [o args IH] using ty_ind'. intros s. cbn [sinj inj eval_sty].
    unfold bindM at 1.
    assert (E : forall s,
      (fix go (l : list sty) : M (list tyv) :=
         match l with
         | [] => ret []
         | a :: r => x <- eval_sty env a ;; xs <- go r ;; ret (x :: xs)
         end) (map sinj args) s = MOk (map inj args) s).
    { induction IH as [|x r Hx _ IHr]; intros s'; cbn [map]; [reflexivity|].
      unfold bindM at 1. rewrite Hx. unfold bindM at 1. rewrite IHr. reflexivity. }
    rewrite E. reflexivity.
  Qed.

  (* ------------------------------------------------------------------ *)
  (* the loops over   siblings ++ hole :: siblings                         *)

  Definition elist (env : list tyv) : list sty -> M (list tyv) :=
    fix go (l : list sty) : M (list tyv) :=
      match l with
      | [] => ret []
      | a :: r => x <- eval_sty env a ;; xs <- go r ;; ret (x :: xs)
      end.

  Lemma eval_sop env o args :
    eval_sty env (SOp o args) = (xs <- elist env args ;; ret (O o xs)).
  Proof. reflexivity. Qed.

  Lemma elist_sinj env ts s : elist env (map sinj ts) s = MOk (map inj ts) s.
  Proof.
    revert s. induction ts as [|t r IH]; intros s; cbn [map elist]; [reflexivity|].
    unfold bindM at 1. rewrite eval_sinj. unfold bindM at 1.
    fold (elist env (map sinj r)). rewrite IH. reflexivity.
  Qed.

  Lemma elist_hole env b a t x s :
    eval_sty env t s = MOk x s ->
    elist env (map sinj b ++ t :: map sinj a) s = MOk (map inj b ++ x :: map inj a) s.
  Proof.
    intros Et. induction b as [|t0 r IH]; cbn [map app elist].
    - unfold bindM at 1. rewrite Et. unfold bindM at 1.
      fold (elist env (map sinj a)). rewrite elist_sinj. reflexivity.
    - unfold bindM at 1. rewrite eval_sinj. unfold bindM at 1.
      fold (elist env (map sinj r ++ t :: map sinj a)). rewrite IH. reflexivity.
  Qed.

  Lemma eval_splug env c t x s :
    eval_sty env t s = MOk x s -> eval_sty env (splug c t) s = MOk (tplug c x) s.
  Proof.
    intros Et. induction c as [|o b c IH a]; cbn [splug tplug]; [exact Et|].
    rewrite eval_sop. unfold bindM. rewrite (elist_hole env b a _ _ s IH). reflexivity.
  Qed.

  Lemma ugo_sibs f vs ts s :
    tys_height ts <= f ->
    ugo f true false false vs (map inj ts) (map inj ts) s = MOk tt s.
  Proof.
    revert vs s. induction ts as [|t r IH]; intros vs s Hh.
    - destruct vs; reflexivity.
    - destruct vs as [|v vs]; [reflexivity|]. cbn [map]. rewrite ugo_cons.
      cbn [tys_height fold_right] in Hh. unfold bindM.
      replace (if v then _ else _) with (unify H f true false false (inj t) (inj t))
        by now destruct v.
      rewrite unify_inj_refl by lia. apply IH. unfold tys_height. lia.
  Qed.

  Lemma fgo_sibs f pl vs ts s :
    tys_height ts <= f -> fgo f pl vs (map inj ts) s = MOk tt s.
  Proof.
    revert vs s. induction ts as [|t r IH]; intros vs s Hh.
    - destruct vs; reflexivity.
    - destruct vs as [|v vs]; [reflexivity|]. cbn [map]. rewrite fgo_cons.
      cbn [tys_height fold_right] in Hh. unfold bindM.
      rewrite fix_inj by lia. apply IH. unfold tys_height. lia.
  Qed.

  (* the loop of unify reaches the hole, then runs over the rest *)
  Lemma ugo_hole f vs b a x y s :
    length b < length vs -> tys_height b <= f -> tys_height a <= f ->
    ugo f true false false vs (map inj b ++ x :: map inj a) (map inj b ++ y :: map inj a) s =
      (if nth (length b) vs true
       then unify H f true false false x y s
       else unify H f true false false y x s).
  Proof.
    revert vs s. induction b as [|t r IH]; intros vs s Hl Hb Ha.
    - destruct vs as [|v vs]; [cbn [length] in Hl; lia|]. cbn [map app length nth].
      rewrite ugo_cons. unfold bindM.
      destruct (if v then unify H f true false false x y else unify H f true false false y x)
        as [[] s'|e s'] eqn:E; destruct v; rewrite E; try reflexivity;
        now apply ugo_sibs.
    - destruct vs as [|v vs]; [cbn [length] in Hl; lia|]. cbn [map app length nth].
      rewrite ugo_cons. cbn [tys_height fold_right] in Hb. unfold bindM.
      replace (if v then unify H f true false false (inj t) (inj t) else _)
        with (unify H f true false false (inj t) (inj t)) by now destruct v.
      rewrite unify_inj_refl by lia. apply IH; [cbn [length] in Hl; lia| |auto].
      unfold tys_height. lia.
  Qed.

  Lemma fgo_hole f pl vs b a x s :
    length b < length vs -> tys_height b <= f -> tys_height a <= f ->
    (forall pl', fix_ty H f pl' x s = MOk x s) ->
    fgo f pl vs (map inj b ++ x :: map inj a) s = MOk tt s.
  Proof.
    intros Hl Hb Ha Hx. revert vs Hl. induction b as [|t r IH]; intros vs Hl.
    - destruct vs as [|v vs]; [cbn [length] in Hl; lia|]. cbn [map app].
      rewrite fgo_cons. unfold bindM. rewrite Hx. now apply fgo_sibs.
    - destruct vs as [|v vs]; [cbn [length] in Hl; lia|]. cbn [map app].
      rewrite fgo_cons. cbn [tys_height fold_right] in Hb. unfold bindM.
      rewrite fix_inj by lia. apply IH; [|cbn [length] in Hl; lia].
      unfold tys_height. lia.
  Qed.

  (* ------------------------------------------------------------------ *)
  (* unification descends through the context to the hole                 *)

  Lemma wf_octx_node_var o b c a :
    wf_octx H (Node o b c a) -> variance H o <> [] /\ length b < length (variance H o).
  Proof.
    cbn [wf_octx]. intros (L & _). split; [|lia].
    destruct (variance H o); [cbn [length] in L; lia|discriminate].
  Qed.

  Lemma unify_octx (W : wf_hier H) c :
    wf_octx H c ->
    forall fuel x y s, octx_depth c + octx_sib c <= fuel ->
      unify H fuel true false false (tplug c x) (tplug c y) s =
        (if pol H c
         then unify H (fuel - octx_depth c) true false false x y s
         else unify H (fuel - octx_depth c) true false false y x s).
  Proof.
    induction c as [|o b c IH a]; intros Wc fuel x y s Hf.
    - cbn [tplug pol octx_depth]. now rewrite Nat.sub_0_r.
    - destruct (wf_octx_node_var _ _ _ _ Wc) as (Vo & Lb).
      cbn [wf_octx] in Wc. destruct Wc as (_ & _ & _ & Wc).
      cbn [octx_depth octx_sib] in Hf.
      destruct fuel as [|f]; [lia|].
      cbn [tplug pol octx_depth Nat.sub].
      rewrite (unify_node W) by exact Vo.
      rewrite ugo_hole by (auto; lia).
      destruct (nth (length b) (variance H o) true).
      + rewrite (IH Wc) by lia. reflexivity.
      + rewrite (IH Wc) by lia. now destruct (pol H c).
  Qed.

  (* ------------------------------------------------------------------ *)
  (* fix is the identity on c[x] for an unconstrained variable or a base   *)

  Lemma fix_tplug c x :
    wf_octx H c ->
    forall f s, octx_depth c + octx_sib c < f ->
      (forall f' pl', 0 < f' -> fix_ty H f' pl' x s = MOk x s) ->
      forall pl, fix_ty H f pl (tplug c x) s = MOk (tplug c x) s.
  Proof.
    intros Wc. induction c as [|o b c IH a]; intros f s Hf Hx pl.
    - cbn [tplug]. apply Hx. lia.
    - destruct (wf_octx_node_var _ _ _ _ Wc) as (Vo & Lb).
      cbn [wf_octx] in Wc. destruct Wc as (_ & _ & _ & Wc).
      cbn [octx_depth octx_sib] in Hf.
      destruct f as [|f]; [lia|]. cbn [tplug]. rewrite fix_node.
      unfold bindM. rewrite fgo_hole; auto; try lia.
      intros pl'. apply (IH Wc); auto. lia.
  Qed.

  Lemma fix_var_free f pl v s :
    c_bound (cell_of s v) = None -> c_lower (cell_of s v) = None ->
    c_upper (cell_of s v) = None -> 0 < f ->
    fix_ty H f pl (V v) s = MOk (V v) s.
  Proof.
    intros Eb El Eu Hf. destruct f as [|f]; [lia|].
    destruct pl; [now apply fix_var_nolower | now apply fix_var_noupper].
  Qed.

  Lemma fix_base f pl a s : 0 < f -> fix_ty H f pl (O a []) s = MOk (O a []) s.
  Proof. intros Hf. destruct f as [|f]; [lia|]. now apply fix_to_basic. Qed.

  (* ------------------------------------------------------------------ *)
  (* schemas and programs                                                 *)

  Fixpoint sig_body_o (c : octx) (n : nat) : sty :=
    match n with 0 => SVar 0 | S k => SOp Function [splug c (SVar 0); sig_body_o c k] end.
  Definition sig_o (c : octx) (n : nat) : schema := mkSchema 1 (sig_body_o c n) [].
  Definition conc_o (c : octx) (a : nat) : schema := mkSchema 0 (splug c (SOp a [])) [].

  Fixpoint fchain_o (c : octx) (n : nat) (x : tyv) : tyv :=
    match n with 0 => x | S k => O Function [tplug c x; fchain_o c k x] end.

  Fixpoint chain_steps_o (c : octx) (args : list nat) (k : nat) : list cmd :=
    match args with
    | [] => []
    | a :: r => CInst (conc_o c a) :: CApply k (S k) true :: chain_steps_o c r (S (S k))
    end.

  Definition chain_prog_o (c : octx) (args : list nat) : list cmd :=
    CInst (sig_o c (length args)) :: chain_steps_o c args 0.

  Definition run_chain_o (c : octx) (fuel : nat) (args : list nat) :=
    run_cmds H fuel (chain_prog_o c args) 0 [] (empty_store []).

  Lemma eval_svar0 v s :
    c_bound (cell_of s v) = None -> eval_sty [V v] (SVar 0) s = MOk (V v) s.
  Proof.
    intros Eb. cbn [eval_sty]. unfold gets. cbn [nth]. now rewrite (follow_V_unbound _ _ Eb).
  Qed.

  Lemma eval_sig_body_o c n v s :
    c_bound (cell_of s v) = None ->
    eval_sty [V v] (sig_body_o c n) s = MOk (fchain_o c n (V v)) s.
  Proof.
    intros Eb. induction n as [|k IH]; cbn [sig_body_o fchain_o].
    - now apply eval_svar0.
    - rewrite eval_sop. cbn [elist]. unfold bindM at 1 2.
      rewrite (eval_splug [V v] c (SVar 0) (V v) s (eval_svar0 v s Eb)).
      unfold bindM at 1 2. rewrite IH. reflexivity.
  Qed.

  Lemma fix_fchain_o (W : wf_hier H) c v s :
    wf_octx H c ->
    c_bound (cell_of s v) = None -> c_lower (cell_of s v) = None ->
    c_upper (cell_of s v) = None ->
    forall n f pl, n + octx_depth c + octx_sib c < f ->
      fix_ty H f pl (fchain_o c n (V v)) s = MOk (fchain_o c n (V v)) s.
  Proof.
    intros Wc Eb El Eu. induction n as [|k IH]; intros f pl Hf.
    - cbn [fchain_o]. apply fix_var_free; auto. lia.
    - destruct f as [|f]; [lia|]. cbn [fchain_o]. rewrite fix_node, (wf_fun H W).
      rewrite !fgo_cons. unfold bindM.
      rewrite (fix_tplug c (V v) Wc) by (try lia; intros; now apply fix_var_free).
      rewrite (IH f pl) by lia. reflexivity.
  Qed.

  Lemma instance_sig_o (W : wf_hier H) c n fuel s :
    wf_octx H c -> n + octx_depth c + octx_sib c < fuel ->
    instance H fuel (sig_o c n) s = MOk (fchain_o c n (V (length (vars s)))) (fresh_store s).
  Proof.
    intros Wc Hf. unfold instance, sig_o. cbn [s_n s_body s_constrs fresh_list forM].
    unfold bindM at 1 2 3. unfold fresh at 1. cbn [alloc_var].
    unfold bindM at 1. unfold ret at 1 2.
    change (mkStore _ _ _ _) with (fresh_store s).
    assert (Eb : cell_of (fresh_store s) (length (vars s)) = _) by apply fresh_store_cell.
    rewrite eval_sig_body_o by now rewrite Eb.
    unfold bindM. unfold ret at 1.
    apply (fix_fchain_o W); auto; now rewrite Eb.
  Qed.

  Lemma instance_conc_o c a fuel s :
    wf_octx H c -> octx_depth c + octx_sib c < fuel ->
    instance H fuel (conc_o c a) s = MOk (tplug c (O a [])) s.
  Proof.
    intros Wc Hf.
    unfold instance, conc_o. cbn [s_n s_body s_constrs fresh_list forM].
    unfold bindM at 1 2. unfold ret at 1.
    rewrite (eval_splug [] c (SOp a []) (O a []) s) by reflexivity.
    unfold bindM, ret. apply fix_tplug; auto. intros. now apply fix_base.
  Qed.

  Lemma tplug_op_O c a : exists o xs, tplug c (O a []) = O o xs.
  Proof. destruct c; cbn [tplug]; eauto. Qed.

  (* ------------------------------------------------------------------ *)
  (* the argument loop                                                    *)

  Notation cmp := (cmp_g (ole H)).
  Notation acc_step := (acc_step_g (osub H false) Bottom).
  Notation lub_from := (lub_from_g (osub H false) Bottom).
  Notation lub_ops := (lub_ops_g (osub H false) Bottom).
  Notation Good := (Good_g H (ole H) Bottom).
  Notation chain_ok := (chain_ok_g H (ole H)).
  Notation acc_step_d := (acc_step_g (ogeb H) Top).
  Notation lub_from_d := (lub_from_g (ogeb H) Top).
  Notation lub_ops_d := (lub_ops_g (ogeb H) Top).
  Notation Good_d := (Good_g H (oge H) Top).
  Notation chain_ok_d := (chain_ok_g H (oge H)).

  (* one application  f.apply(c[a])  where f = c[x] ** rest *)
  Lemma apply_step_o (W : wf_hier H) c fuel a v rest s :
    wf_octx H c -> octx_depth c + octx_sib c <= fuel ->
    apply H fuel (O Function [tplug c (V v); rest]) (tplug c (O a [])) true s =
      ((if pol H c
        then unify H (fuel - octx_depth c) true false false (O a []) (V v)
        else unify H (fuel - octx_depth c) true false false (V v) (O a [])) ;;;
       if negb (is_fun rest) then fix_ty H fuel true rest else ret rest) s.
  Proof.
    intros Wc Hf. destruct (tplug_op_O c a) as (o & xs & Eo).
    rewrite Eo, apply_fun, <- Eo. unfold bindM.
    rewrite (unify_octx W c Wc) by exact Hf. now destruct (pol H c).
  Qed.

  Lemma run_chain_steps_o (W : wf_hier H) c fuel v i :
    wf_octx H c -> pol H c = true -> octx_depth c + octx_sib c + 4 <= fuel ->
    forall args acc vals s idx k,
      args <> [] -> length vals = S k ->
      nth k vals (V 0) = fchain_o c (length args) (V v) ->
      Inv s v i acc -> Good acc args ->
      exists vals' s',
        run_cmds H fuel (chain_steps_o c args k) idx vals s = (None, vals', s') /\
        follow s' (last vals' (V 0)) = result (lub_from acc args) v.
  Proof.
    intros Wc Hpol Hf.
    assert (Hf4 : exists f, fuel - octx_depth c = S (S (S (S f))))
      by (exists (fuel - octx_depth c - 4); lia).
    destruct Hf4 as (f & Ef).
    assert (Hf3 : exists f', fuel = S (S (S f'))) by (exists (fuel - 3); lia).
    destruct Hf3 as (f' & Ef').
    induction args as [|a r IH]; intros acc vals s idx k Hne Hlen Hnth HInv HGood; [congruence|].
    pose proof (Good_step _ _ _ _ HGood) as HGood1.
    assert (Va : variance H a = [])
      by (destruct HGood as (G1 & _); apply G1; destruct acc; cbn; auto).
    destruct (unify_step H W f s v i acc a HInv Va (fun m E => Good_acc _ _ _ _ _ HGood E))
      as (s1 & E1 & HInv1).
    cbn [chain_steps_o run_cmds]. unfold run_cmd at 1. unfold bindM at 1.
    rewrite instance_conc_o by (auto; lia). unfold ret at 1.
    cbn [run_cmds]. unfold run_cmd at 1. unfold val.
    rewrite app_nth1 by lia. rewrite Hnth.
    rewrite app_nth2 by lia. replace (S k - length vals) with 0 by lia.
    cbn [nth length fchain_o].
    unfold bindM at 1. rewrite (apply_step_o W) by (auto; lia).
    rewrite Hpol. unfold bindM at 1. rewrite Ef, E1.
    cbn [lub_from_g].
    destruct r as [|a' r'].
    - cbn [length fchain_o is_fun negb chain_steps_o lub_from_g].
      destruct HInv1 as (Hv1 & Hcs1 & Hcell1).
      destruct (acc_step acc a) as [m|] eqn:Eacc.
      + destruct (Nat.eqb m Top) eqn:ET.
        * apply Nat.eqb_eq in ET; subst m. destruct Hcell1 as (lo & Hc1).
          rewrite Ef'.
          rewrite (fix_to_basic H _ true (V v) Top s1)
            by (apply follow_V_bound_O; now rewrite Hc1).
          unfold ret. cbn [run_cmds]. do 2 eexists. split; [reflexivity|].
          now rewrite last_last.
        * destruct HGood1 as (G1 & _ & G3).
          assert (NBm : m <> Bottom) by now apply G3.
          assert (NTm : m <> Top) by now apply Nat.eqb_neq.
          assert (Vm : variance H m = []) by (apply G1; cbn; auto).
          rewrite Ef'.
          rewrite (fix_var_lower H f' v s1 false m None i); auto;
            [|now apply basic_iff|now apply osubT_irrefl].
          unfold ret. cbn [run_cmds]. do 2 eexists. split; [reflexivity|].
          now rewrite last_last.
      + rewrite Ef'. rewrite fix_var_nolower by now rewrite Hcell1.
        unfold ret. cbn [run_cmds]. do 2 eexists. split; [reflexivity|].
        rewrite last_last. cbn [result]. apply follow_V_unbound. now rewrite Hcell1.
    - cbn [length fchain_o is_fun negb Nat.eqb Function]. unfold ret at 1 2.
      apply IH; auto; try discriminate.
      + rewrite !app_length. cbn [length]. lia.
      + rewrite app_nth2 by (rewrite app_length; cbn [length]; lia).
        rewrite app_length. cbn [length].
        replace (S (S k) - (length vals + 1)) with 0 by lia. reflexivity.
  Qed.

  Lemma run_chain_steps_od (W : wf_hier H) c fuel v i :
    wf_octx H c -> pol H c = false -> octx_depth c + octx_sib c + 4 <= fuel ->
    forall args acc vals s idx k,
      args <> [] -> length vals = S k ->
      nth k vals (V 0) = fchain_o c (length args) (V v) ->
      Inv_d s v i acc -> Good_d acc args ->
      exists vals' s',
        run_cmds H fuel (chain_steps_o c args k) idx vals s = (None, vals', s') /\
        Inv_d s' v i (lub_from_d acc args) /\
        length vals' = S k + 2 * length args /\
        last vals' (V 0) = result_d (lub_from_d acc args) v /\
        follow s' (last vals' (V 0)) = result_d (lub_from_d acc args) v.
  Proof.
    intros Wc Hpol Hf.
    assert (Hf4 : exists f, fuel - octx_depth c = S (S (S (S f))))
      by (exists (fuel - octx_depth c - 4); lia).
    destruct Hf4 as (f & Ef).
    assert (Hf3 : exists f', fuel = S (S (S f'))) by (exists (fuel - 3); lia).
    destruct Hf3 as (f' & Ef').
    induction args as [|a r IH]; intros acc vals s idx k Hne Hlen Hnth HInv HGood; [congruence|].
    pose proof (Good_step_d _ _ _ _ HGood) as HGood1.
    assert (Va : variance H a = [])
      by (destruct HGood as (G1 & _); apply G1; destruct acc; cbn; auto).
    destruct (unify_step_d H W f s v i acc a HInv Va (fun m E => Good_acc_d _ _ _ _ _ HGood E))
      as (s1 & E1 & HInv1).
    cbn [chain_steps_o run_cmds]. unfold run_cmd at 1. unfold bindM at 1.
    rewrite instance_conc_o by (auto; lia). unfold ret at 1.
    cbn [run_cmds]. unfold run_cmd at 1. unfold val.
    rewrite app_nth1 by lia. rewrite Hnth.
    rewrite app_nth2 by lia. replace (S k - length vals) with 0 by lia.
    cbn [nth length fchain_o].
    unfold bindM at 1. rewrite (apply_step_o W) by (auto; lia).
    rewrite Hpol. unfold bindM at 1. rewrite Ef, E1.
    cbn [lub_from_g].
    destruct r as [|a' r'].
    - cbn [length fchain_o is_fun negb chain_steps_o lub_from_g].
      pose proof HInv1 as (Hv1 & Hcs1 & Hcell1).
      rewrite Ef'.
      destruct (acc_step_d acc a) as [m|] eqn:Eacc.
      + destruct (Nat.eqb m Bottom) eqn:EB.
        * destruct Hcell1 as (up & Hc1).
          rewrite (fix_to_basic H _ true (V v) Bottom s1)
            by (apply follow_V_bound_O; now rewrite Hc1).
          unfold ret. cbn [run_cmds]. do 2 eexists. split; [reflexivity|].
          split; auto. rewrite last_last, !app_length. cbn [result_d length]. rewrite EB.
          repeat split; auto; lia.
        * rewrite fix_var_nolower by now rewrite Hcell1.
          unfold ret. cbn [run_cmds]. do 2 eexists. split; [reflexivity|].
          split; auto. rewrite last_last, !app_length. cbn [result_d length]. rewrite EB.
          repeat split; auto; try lia.
          apply follow_V_unbound. now rewrite Hcell1.
      + rewrite fix_var_nolower by now rewrite Hcell1.
        unfold ret. cbn [run_cmds]. do 2 eexists. split; [reflexivity|].
        split; auto. rewrite last_last, !app_length. cbn [result_d length].
        repeat split; auto; try lia.
        apply follow_V_unbound. now rewrite Hcell1.
    - cbn [length fchain_o is_fun negb Nat.eqb Function]. unfold ret at 1 2.
      destruct (IH (acc_step_d acc a) ((vals ++ [tplug c (O a [])]) ++
                     [fchain_o c (length (a' :: r')) (V v)]) s1 (S (S idx)) (S (S k)))
        as (vals' & s' & Er & Hi & Hl & Hlast & Hfol); auto; try discriminate.
      + rewrite !app_length. cbn [length]. lia.
      + rewrite app_nth2 by (rewrite app_length; cbn [length]; lia).
        rewrite app_length. cbn [length].
        replace (S (S k) - (length vals + 1)) with 0 by lia. reflexivity.
      + exists vals', s'. split; [exact Er|]. split; [exact Hi|].
        split; [cbn [length] in Hl |- *; lia|]. split; assumption.
  Qed.

  (* ------------------------------------------------------------------ *)
  (* main theorems                                                        *)

  Section Ctx.
  Variable c : octx.
  Hypothesis Wc : wf_octx H c.

  Definition obound (n : nat) : nat := octx_depth c + octx_sib c + n + 3.

  Lemma run_chain_o_start (W : wf_hier H) args fuel :
    obound (length args) <= fuel ->
    run_chain_o c fuel args =
      run_cmds H fuel (chain_steps_o c args 0) 1 [fchain_o c (length args) (V 0)]
               (fresh_store (empty_store [])).
  Proof.
    intros Hf. unfold obound in Hf. unfold run_chain_o, chain_prog_o. cbn [run_cmds].
    unfold run_cmd at 1. unfold bindM at 1.
    rewrite (instance_sig_o W c) by (auto; lia). unfold ret at 1. reflexivity.
  Qed.

  Lemma Inv_start : Inv (fresh_store (empty_store [])) 0 0 None.
  Proof. split; [|split]; reflexivity || (cbn; lia). Qed.

  Lemma Inv_d_start : Inv_d (fresh_store (empty_store [])) 0 0 None.
  Proof. split; [|split]; reflexivity || (cbn; lia). Qed.

  (* ---------------- covariant hole ---------------- *)
  Section Pos.
  Hypothesis Hpol : pol H c = true.

  Theorem chain_o_lub_compute (W : wf_hier H) args fuel :
    args <> [] -> chain_ok args -> obound (length args) <= fuel ->
    exists vals s, run_chain_o c fuel args = (None, vals, s) /\
                   follow s (last vals (V 0)) = result (lub_ops args) 0.
  Proof.
    intros Hne HC Hf. rewrite (run_chain_o_start W) by exact Hf. unfold obound in Hf.
    apply (run_chain_steps_o W c fuel 0 0); auto.
    - destruct args; [congruence|]. cbn [length] in Hf. lia.
    - apply Inv_start.
    - now apply chain_ok_Good.
  Qed.

  Theorem chain_o_lub_ext (W : wf_hier H) args m fuel :
    chain_ok args -> In m args -> (forall a, In a args -> ole H a m) ->
    obound (length args) <= fuel ->
    exists vals s, run_chain_o c fuel args = (None, vals, s) /\
                   follow s (last vals (V 0)) = if Nat.eqb m Bottom then V 0 else O m [].
  Proof.
    intros HC Hm Hub Hf.
    assert (Hne : args <> []) by (intros ->; destruct Hm).
    destruct (chain_o_lub_compute W args fuel Hne HC Hf) as (vals & s & E & R).
    exists vals, s. split; auto. rewrite R, (lub_ops_spec H W args m HC Hm Hub).
    now destruct (Nat.eqb m Bottom).
  Qed.

  Theorem chain_o_lub (W : wf_hier H) args m fuel :
    user_chain H args -> In m args -> (forall a, In a args -> Anc H a m) ->
    obound (length args) <= fuel ->
    exists vals s, run_chain_o c fuel args = (None, vals, s) /\
                   follow s (last vals (V 0)) = O m [].
  Proof.
    intros HU Hm Hub Hf.
    destruct (chain_o_lub_ext W args m fuel (user_chain_ok _ _ HU) Hm) as (vals & s & E & R); auto.
    { intros a Ha. right; right; auto. }
    exists vals, s. split; auto. rewrite R.
    destruct HU as (U & _). destruct (U m Hm) as (_ & _ & NB).
    apply Nat.eqb_neq in NB. now rewrite NB.
  Qed.

  Theorem chain_o_perm_ext (W : wf_hier H) args args' fuel :
    args <> [] -> chain_ok args -> Permutation args args' -> obound (length args) <= fuel ->
    exists vals s vals' s',
      run_chain_o c fuel args = (None, vals, s) /\ run_chain_o c fuel args' = (None, vals', s') /\
      follow s (last vals (V 0)) = follow s' (last vals' (V 0)).
  Proof.
    intros Hne HC P Hf.
    assert (Hne' : args' <> []) by (intros ->; apply Permutation_sym, Permutation_nil in P; auto).
    destruct (chain_o_lub_compute W args fuel Hne HC Hf) as (vals & s & E & R).
    destruct (chain_o_lub_compute W args' fuel Hne' (chain_ok_perm_g _ _ _ _ P HC))
      as (vals' & s' & E' & R').
    { rewrite <- (Permutation_length P). exact Hf. }
    exists vals, s, vals', s'. repeat split; auto.
    rewrite R, R'. now rewrite (lub_ops_perm H W args args' HC P).
  Qed.

  Theorem chain_o_perm (W : wf_hier H) args args' fuel :
    args <> [] -> user_chain H args -> Permutation args args' -> obound (length args) <= fuel ->
    exists m vals s vals' s',
      In m args /\ (forall a, In a args -> Anc H a m) /\
      run_chain_o c fuel args = (None, vals, s) /\ follow s (last vals (V 0)) = O m [] /\
      run_chain_o c fuel args' = (None, vals', s') /\ follow s' (last vals' (V 0)) = O m [].
  Proof.
    intros Hne HU P Hf.
    destruct (user_chain_max_exists H W args Hne HU) as (m & Hm & Hub).
    destruct (chain_o_lub W args m fuel HU Hm Hub Hf) as (vals & s & E & R).
    destruct (chain_o_lub W args' m fuel (user_chain_perm _ _ _ P HU)) as (vals' & s' & E' & R').
    { eapply Permutation_in; eauto. }
    { intros x Hx. apply Hub. apply Permutation_sym in P. eapply Permutation_in; eauto. }
    { rewrite <- (Permutation_length P). exact Hf. }
    exists m, vals, s, vals', s'. repeat split; auto.
  Qed.

  Theorem chain_o_mono (W : wf_hier H) args args' fuel :
    args <> [] -> user_chain H args -> user_chain H args' ->
    Forall2 (fun x' x => Anc H x' x) args' args -> obound (length args) <= fuel ->
    exists m m' vals s vals' s',
      run_chain_o c fuel args = (None, vals, s) /\ follow s (last vals (V 0)) = O m [] /\
      run_chain_o c fuel args' = (None, vals', s') /\ follow s' (last vals' (V 0)) = O m' [] /\
      Anc H m' m.
  Proof.
    intros Hne HU HU' F Hf.
    assert (Hlen : length args' = length args) by (eapply Forall2_len; eauto).
    assert (Hne' : args' <> []) by (intros ->; destruct args; [congruence|discriminate]).
    destruct (user_chain_max_exists H W args Hne HU) as (m & Hm & Hub).
    destruct (user_chain_max_exists H W args' Hne' HU') as (m' & Hm' & Hub').
    destruct (chain_o_lub W args m fuel HU Hm Hub Hf) as (vals & s & E & R).
    destruct (chain_o_lub W args' m' fuel HU' Hm' Hub') as (vals' & s' & E' & R');
      [rewrite Hlen; exact Hf|].
    exists m, m', vals, s, vals', s'. repeat split; auto.
    destruct (Forall2_In_l _ _ _ _ F Hm') as (x & Hx & Hax).
    eapply Anc_trans; eauto.
  Qed.

  Theorem chain_o_mono_ext (W : wf_hier H) args args' fuel :
    args <> [] -> chain_ok args -> chain_ok args' ->
    Forall2 (ole H) args' args -> obound (length args) <= fuel ->
    exists vals s vals' s',
      run_chain_o c fuel args = (None, vals, s) /\ run_chain_o c fuel args' = (None, vals', s') /\
      (follow s' (last vals' (V 0)) = V 0 \/
       exists m m', follow s (last vals (V 0)) = O m [] /\
                    follow s' (last vals' (V 0)) = O m' [] /\ ole H m' m).
  Proof.
    intros Hne HC HC' F Hf.
    assert (Hlen : length args' = length args) by (eapply Forall2_len; eauto).
    assert (Hne' : args' <> []) by (intros ->; destruct args; [congruence|discriminate]).
    destruct (chain_max_exists H W args Hne HC) as (m & Hm & Hub).
    destruct (chain_max_exists H W args' Hne' HC') as (m' & Hm' & Hub').
    destruct (chain_o_lub_ext W args m fuel HC Hm Hub Hf) as (vals & s & E & R).
    destruct (chain_o_lub_ext W args' m' fuel HC' Hm' Hub') as (vals' & s' & E' & R');
      [rewrite Hlen; exact Hf|].
    exists vals, s, vals', s'. repeat split; auto.
    destruct (Nat.eqb m' Bottom) eqn:EB'; [now left|right].
    destruct (Forall2_In_l _ _ _ _ F Hm') as (x & Hx & Hax).
    assert (L : ole H m' m) by (eapply ole_trans; eauto).
    exists m, m'. repeat split; auto.
    destruct (Nat.eqb m Bottom) eqn:EB; auto.
    apply Nat.eqb_eq in EB. subst m. apply Nat.eqb_neq in EB'.
    destruct L as [L|[L|L]]; [congruence|discriminate|].
    apply (Anc_bot_inv H W) in L. congruence.
  Qed.
  End Pos.

  (* ---------------- contravariant hole ---------------- *)
  Section Neg.
  Hypothesis Hpol : pol H c = false.

  Theorem chain_o_glb_compute (W : wf_hier H) args fuel :
    args <> [] -> chain_ok_d args -> obound (length args) <= fuel ->
    exists vals s, run_chain_o c fuel args = (None, vals, s) /\
                   Inv_d s 0 0 (lub_ops_d args) /\
                   length vals = 1 + 2 * length args /\
                   last vals (V 0) = result_d (lub_ops_d args) 0 /\
                   follow s (last vals (V 0)) = result_d (lub_ops_d args) 0.
  Proof.
    intros Hne HC Hf. rewrite (run_chain_o_start W) by exact Hf. unfold obound in Hf.
    apply (run_chain_steps_od W c fuel 0 0); auto.
    - destruct args; [congruence|]. cbn [length] in Hf. lia.
    - apply Inv_d_start.
    - now apply chain_ok_Good_d.
  Qed.

  Theorem chain_o_glb_ext (W : wf_hier H) args m fuel :
    chain_ok args -> In m args -> (forall a, In a args -> ole H m a) ->
    obound (length args) <= fuel ->
    exists vals s, run_chain_o c fuel args = (None, vals, s) /\
      if Nat.eqb m Top
      then follow s (last vals (V 0)) = V 0 /\ cell_of s 0 = mkCell false None None None 0
      else if Nat.eqb m Bottom
      then follow s (last vals (V 0)) = O Bottom []
      else follow s (last vals (V 0)) = V 0 /\ cell_of s 0 = mkCell false None None (Some m) 0.
  Proof.
    intros HC Hm Hlb Hf.
    assert (Hne : args <> []) by (intros ->; destruct Hm).
    apply chain_ok_d_iff in HC.
    destruct (chain_o_glb_compute W args fuel Hne HC Hf) as (vals & s & E & HI & _ & _ & R).
    exists vals, s. split; auto.
    rewrite (lub_ops_spec_d H W args m HC Hm Hlb) in HI, R.
    destruct HI as (_ & _ & HI). destruct (Nat.eqb m Top); [now split|].
    cbn [result_d] in R. destruct (Nat.eqb m Bottom); [exact R|now split].
  Qed.

  Theorem chain_o_glb (W : wf_hier H) args m fuel :
    user_chain H args -> In m args -> (forall a, In a args -> Anc H m a) ->
    obound (length args) <= fuel ->
    exists vals s, run_chain_o c fuel args = (None, vals, s) /\
                   follow s (last vals (V 0)) = V 0 /\
                   cell_of s 0 = mkCell false None None (Some m) 0.
  Proof.
    intros HU Hm Hlb Hf.
    destruct (chain_o_glb_ext W args m fuel (user_chain_ok _ _ HU) Hm) as (vals & s & E & R); auto.
    { intros a Ha. right; right; auto. }
    exists vals, s. split; auto.
    destruct HU as (U & _). destruct (U m Hm) as (_ & NT & NB).
    apply Nat.eqb_neq in NT, NB. now rewrite NT, NB in R.
  Qed.

  Theorem chain_o_glb_fix (W : wf_hier H) args m fuel :
    user_chain H args -> In m args -> (forall a, In a args -> Anc H m a) ->
    obound (length args) <= fuel ->
    exists vals s,
      run_cmds H fuel (chain_prog_o c args ++ [CFix (2 * length args) false]) 0 []
               (empty_store []) = (None, vals, s) /\
      follow s (last vals (V 0)) = O m [].
  Proof.
    intros HU Hm Hlb Hf.
    assert (Hne : args <> []) by (intros ->; destruct Hm).
    assert (HC : chain_ok_d args) by (apply chain_ok_d_iff; now apply user_chain_ok).
    destruct (chain_o_glb_compute W args fuel Hne HC Hf)
      as (vals & s & E & HI & Hlen & Hlast & R).
    assert (Hlb' : forall a, In a args -> ole H m a) by (intros a Ha; right; right; auto).
    rewrite (lub_ops_spec_d H W args m HC Hm Hlb') in HI, Hlast.
    destruct HU as (U & _). destruct (U m Hm) as (Vm & NT & NB).
    pose proof NT as NT'. pose proof NB as NB'.
    apply Nat.eqb_neq in NT', NB'. rewrite NT' in HI, Hlast.
    cbn [result_d] in Hlast. rewrite NB' in Hlast.
    destruct HI as (Hv & Hcs & Hc). rewrite NB' in Hc.
    rewrite run_cmds_app. unfold run_chain_o in E. rewrite E.
    cbn [run_cmds]. unfold run_cmd, val.
    rewrite (nth_last_len (V 0) vals (2 * length args)) by lia. rewrite Hlast.
    unfold bindM at 1. unfold obound in Hf.
    destruct fuel as [|[|[|f]]]; try lia.
    rewrite (fix_var_upper H f 0 s false None m 0); auto;
      [|now apply basic_iff|now apply osubT_irrefl].
    unfold ret. do 2 eexists. split; [reflexivity|]. now rewrite last_last.
  Qed.

  Theorem chain_o_glb_perm (W : wf_hier H) args args' fuel :
    args <> [] -> user_chain H args -> Permutation args args' ->
    obound (length args) <= fuel ->
    exists m vals s vals' s',
      In m args /\ (forall a, In a args -> Anc H m a) /\
      run_chain_o c fuel args = (None, vals, s) /\
      follow s (last vals (V 0)) = V 0 /\
      cell_of s 0 = mkCell false None None (Some m) 0 /\
      run_chain_o c fuel args' = (None, vals', s') /\
      follow s' (last vals' (V 0)) = V 0 /\
      cell_of s' 0 = mkCell false None None (Some m) 0.
  Proof.
    intros Hne HU P Hf.
    destruct (user_chain_min_exists H W args Hne HU) as (m & Hm & Hlb).
    destruct (chain_o_glb W args m fuel HU Hm Hlb Hf) as (vals & s & E & R & C).
    destruct (chain_o_glb W args' m fuel (user_chain_perm _ _ _ P HU))
      as (vals' & s' & E' & R' & C').
    { eapply Permutation_in; eauto. }
    { intros x Hx. apply Hlb. apply Permutation_sym in P. eapply Permutation_in; eauto. }
    { rewrite <- (Permutation_length P). exact Hf. }
    exists m, vals, s, vals', s'. repeat split; auto.
  Qed.

  Theorem chain_o_glb_perm_ext (W : wf_hier H) args args' fuel :
    args <> [] -> chain_ok args -> Permutation args args' ->
    obound (length args) <= fuel ->
    exists g vals s vals' s',
      run_chain_o c fuel args = (None, vals, s) /\ Inv_d s 0 0 g /\
      follow s (last vals (V 0)) = result_d g 0 /\
      run_chain_o c fuel args' = (None, vals', s') /\ Inv_d s' 0 0 g /\
      follow s' (last vals' (V 0)) = result_d g 0.
  Proof.
    intros Hne HC P Hf. apply chain_ok_d_iff in HC.
    assert (Hne' : args' <> []) by (intros ->; apply Permutation_sym, Permutation_nil in P; auto).
    destruct (chain_o_glb_compute W args fuel Hne HC Hf) as (vals & s & E & HI & _ & _ & R).
    destruct (chain_o_glb_compute W args' fuel Hne' (chain_ok_perm_g _ _ _ _ P HC))
      as (vals' & s' & E' & HI' & _ & _ & R').
    { rewrite <- (Permutation_length P). exact Hf. }
    rewrite <- (lub_ops_perm_d H W args args' HC P) in HI', R'.
    exists (lub_ops_d args), vals, s, vals', s'.
    split; [exact E|]. split; [exact HI|]. split; [exact R|].
    split; [exact E'|]. split; [exact HI'|exact R'].
  Qed.

  (* specialising arguments: still succeeds, the upper limit can only go down *)
  Theorem chain_o_glb_mono (W : wf_hier H) args args' fuel :
    args <> [] -> user_chain H args -> user_chain H args' ->
    Forall2 (fun x' x => Anc H x' x) args' args -> obound (length args) <= fuel ->
    exists m m' vals s vals' s',
      run_chain_o c fuel args = (None, vals, s) /\
      follow s (last vals (V 0)) = V 0 /\
      cell_of s 0 = mkCell false None None (Some m) 0 /\
      run_chain_o c fuel args' = (None, vals', s') /\
      follow s' (last vals' (V 0)) = V 0 /\
      cell_of s' 0 = mkCell false None None (Some m') 0 /\
      Anc H m' m.
  Proof.
    intros Hne HU HU' F Hf.
    assert (Hlen : length args' = length args) by (eapply Forall2_len; eauto).
    assert (Hne' : args' <> []) by (intros ->; destruct args; [congruence|discriminate]).
    destruct (user_chain_min_exists H W args Hne HU) as (m & Hm & Hlb).
    destruct (user_chain_min_exists H W args' Hne' HU') as (m' & Hm' & Hlb').
    destruct (chain_o_glb W args m fuel HU Hm Hlb Hf) as (vals & s & E & R & C).
    destruct (chain_o_glb W args' m' fuel HU' Hm' Hlb') as (vals' & s' & E' & R' & C');
      [rewrite Hlen; exact Hf|].
    exists m, m', vals, s, vals', s'. repeat split; auto.
    destruct (Forall2_In_r _ _ _ _ F Hm) as (x & Hx & Hax).
    eapply Anc_trans; eauto.
  Qed.
  End Neg.
  End Ctx.
End LubCtx.

(* ---------------------------------------------------------------------- *)
(* c[a] is the concrete type obtained by plugging a into c                  *)

Lemma sinj_cplug c t : sinj (cplug c t) = splug c (sinj t).
Proof.
  induction c as [|o b c IH a]; cbn [cplug splug sinj]; [reflexivity|].
  now rewrite map_app, map_cons, IH.
Qed.

Lemma conc_o_cplug c a : conc_o c a = mkSchema 0 (sinj (cplug c (TOp a []))) [].
Proof. unfold conc_o. now rewrite sinj_cplug. Qed.

(* order independence with Top and Bottom, contravariant hole, spelled out *)
Lemma glb_perm_ext_obs s s' g vals vals' :
  Inv_d s 0 0 g -> follow s (last vals (V 0)) = result_d g 0 ->
  Inv_d s' 0 0 g -> follow s' (last vals' (V 0)) = result_d g 0 ->
  follow s (last vals (V 0)) = follow s' (last vals' (V 0)) /\
  (follow s (last vals (V 0)) = V 0 -> cell_of s 0 = cell_of s' 0).
Proof.
  intros (_ & _ & HI) R (_ & _ & HI') R'. split; [congruence|].
  rewrite R. destruct g as [m|]; cbn [result_d].
  - destruct (Nat.eqb m Bottom); [discriminate|]. congruence.
  - congruence.
Qed.

(* ---------------------------------------------------------------------- *)
(* spelled-out statements (no auxiliary predicates) exported by
   props/C05_ctx.v                                                         *)

Theorem lub_octx_stmt : forall H, wf_hier H ->
  forall (c : octx) (args : list nat) (m fuel : nat),
  wf_octx H c -> pol H c = true ->
  (forall a, In a args -> variance H a = []) ->
  (forall a b, In a args -> In b args ->
     (a = Bottom \/ b = Top \/ Anc H a b) \/ (b = Bottom \/ a = Top \/ Anc H b a)) ->
  In m args -> (forall a, In a args -> a = Bottom \/ m = Top \/ Anc H a m) ->
  octx_depth c + octx_sib c + length args + 3 <= fuel ->
  exists vals s,
    run_cmds H fuel (chain_prog_o c args) 0 [] (empty_store []) = (None, vals, s) /\
    follow s (last vals (V 0)) = if Nat.eqb m Bottom then V 0 else O m [].
Proof.
  intros H W c args m fuel Wc P U C Hm Hub Hf.
  exact (chain_o_lub_ext H c Wc P W args m fuel (conj U C) Hm Hub Hf).
Qed.

Theorem lub_octx_user_stmt : forall H, wf_hier H ->
  forall (c : octx) (args : list nat) (m fuel : nat),
  wf_octx H c -> pol H c = true ->
  (forall a, In a args -> variance H a = [] /\ a <> Top /\ a <> Bottom) ->
  (forall a b, In a args -> In b args -> Anc H a b \/ Anc H b a) ->
  In m args -> (forall a, In a args -> Anc H a m) ->
  octx_depth c + octx_sib c + length args + 3 <= fuel ->
  exists vals s,
    run_cmds H fuel (chain_prog_o c args) 0 [] (empty_store []) = (None, vals, s) /\
    follow s (last vals (V 0)) = O m [].
Proof.
  intros H W c args m fuel Wc P U C Hm Hub Hf.
  exact (chain_o_lub H c Wc P W args m fuel (conj U C) Hm Hub Hf).
Qed.

Theorem perm_octx_stmt : forall H, wf_hier H ->
  forall (c : octx) (args args' : list nat) (fuel : nat),
  wf_octx H c -> pol H c = true ->
  args <> [] ->
  (forall a, In a args -> variance H a = []) ->
  (forall a b, In a args -> In b args ->
     (a = Bottom \/ b = Top \/ Anc H a b) \/ (b = Bottom \/ a = Top \/ Anc H b a)) ->
  Permutation args args' ->
  octx_depth c + octx_sib c + length args + 3 <= fuel ->
  exists vals s vals' s',
    run_cmds H fuel (chain_prog_o c args) 0 [] (empty_store []) = (None, vals, s) /\
    run_cmds H fuel (chain_prog_o c args') 0 [] (empty_store []) = (None, vals', s') /\
    follow s (last vals (V 0)) = follow s' (last vals' (V 0)).
Proof.
  intros H W c args args' fuel Wc P Hne U C Pm Hf.
  exact (chain_o_perm_ext H c Wc P W args args' fuel Hne (conj U C) Pm Hf).
Qed.

Theorem perm_octx_user_stmt : forall H, wf_hier H ->
  forall (c : octx) (args args' : list nat) (fuel : nat),
  wf_octx H c -> pol H c = true ->
  args <> [] ->
  (forall a, In a args -> variance H a = [] /\ a <> Top /\ a <> Bottom) ->
  (forall a b, In a args -> In b args -> Anc H a b \/ Anc H b a) ->
  Permutation args args' ->
  octx_depth c + octx_sib c + length args + 3 <= fuel ->
  exists m vals s vals' s',
    In m args /\ (forall a, In a args -> Anc H a m) /\
    run_cmds H fuel (chain_prog_o c args) 0 [] (empty_store []) = (None, vals, s) /\
    follow s (last vals (V 0)) = O m [] /\
    run_cmds H fuel (chain_prog_o c args') 0 [] (empty_store []) = (None, vals', s') /\
    follow s' (last vals' (V 0)) = O m [].
Proof.
  intros H W c args args' fuel Wc P Hne U C Pm Hf.
  exact (chain_o_perm H c Wc P W args args' fuel Hne (conj U C) Pm Hf).
Qed.

Theorem mono_octx_stmt : forall H, wf_hier H ->
  forall (c : octx) (args args' : list nat) (fuel : nat),
  wf_octx H c -> pol H c = true ->
  args <> [] ->
  (forall a, In a args -> variance H a = []) ->
  (forall a b, In a args -> In b args ->
     (a = Bottom \/ b = Top \/ Anc H a b) \/ (b = Bottom \/ a = Top \/ Anc H b a)) ->
  (forall a, In a args' -> variance H a = []) ->
  (forall a b, In a args' -> In b args' ->
     (a = Bottom \/ b = Top \/ Anc H a b) \/ (b = Bottom \/ a = Top \/ Anc H b a)) ->
  Forall2 (fun x' x => x' = Bottom \/ x = Top \/ Anc H x' x) args' args ->
  octx_depth c + octx_sib c + length args + 3 <= fuel ->
  exists vals s vals' s',
    run_cmds H fuel (chain_prog_o c args) 0 [] (empty_store []) = (None, vals, s) /\
    run_cmds H fuel (chain_prog_o c args') 0 [] (empty_store []) = (None, vals', s') /\
    (follow s' (last vals' (V 0)) = V 0 \/
     exists m m', follow s (last vals (V 0)) = O m [] /\
                  follow s' (last vals' (V 0)) = O m' [] /\
                  (m' = Bottom \/ m = Top \/ Anc H m' m)).
Proof.
  intros H W c args args' fuel Wc P Hne U C U' C' F Hf.
  exact (chain_o_mono_ext H c Wc P W args args' fuel Hne (conj U C) (conj U' C') F Hf).
Qed.

Theorem mono_octx_user_stmt : forall H, wf_hier H ->
  forall (c : octx) (args args' : list nat) (fuel : nat),
  wf_octx H c -> pol H c = true ->
  args <> [] ->
  (forall a, In a args -> variance H a = [] /\ a <> Top /\ a <> Bottom) ->
  (forall a b, In a args -> In b args -> Anc H a b \/ Anc H b a) ->
  (forall a, In a args' -> variance H a = [] /\ a <> Top /\ a <> Bottom) ->
  (forall a b, In a args' -> In b args' -> Anc H a b \/ Anc H b a) ->
  Forall2 (fun x' x => Anc H x' x) args' args ->
  octx_depth c + octx_sib c + length args + 3 <= fuel ->
  exists m m' vals s vals' s',
    run_cmds H fuel (chain_prog_o c args) 0 [] (empty_store []) = (None, vals, s) /\
    follow s (last vals (V 0)) = O m [] /\
    run_cmds H fuel (chain_prog_o c args') 0 [] (empty_store []) = (None, vals', s') /\
    follow s' (last vals' (V 0)) = O m' [] /\
    Anc H m' m.
Proof.
  intros H W c args args' fuel Wc P Hne U C U' C' F Hf.
  exact (chain_o_mono H c Wc P W args args' fuel Hne (conj U C) (conj U' C') F Hf).
Qed.

Theorem glb_octx_stmt : forall H, wf_hier H ->
  forall (c : octx) (args : list nat) (m fuel : nat),
  wf_octx H c -> pol H c = false ->
  (forall a, In a args -> variance H a = [] /\ a <> Top /\ a <> Bottom) ->
  (forall a b, In a args -> In b args -> Anc H a b \/ Anc H b a) ->
  In m args -> (forall a, In a args -> Anc H m a) ->
  octx_depth c + octx_sib c + length args + 3 <= fuel ->
  exists vals s,
    run_cmds H fuel (chain_prog_o c args) 0 [] (empty_store []) = (None, vals, s) /\
    follow s (last vals (V 0)) = V 0 /\
    cell_of s 0 = mkCell false None None (Some m) 0.
Proof.
  intros H W c args m fuel Wc P U C Hm Hlb Hf.
  exact (chain_o_glb H c Wc P W args m fuel (conj U C) Hm Hlb Hf).
Qed.

Theorem glb_fix_octx_stmt : forall H, wf_hier H ->
  forall (c : octx) (args : list nat) (m fuel : nat),
  wf_octx H c -> pol H c = false ->
  (forall a, In a args -> variance H a = [] /\ a <> Top /\ a <> Bottom) ->
  (forall a b, In a args -> In b args -> Anc H a b \/ Anc H b a) ->
  In m args -> (forall a, In a args -> Anc H m a) ->
  octx_depth c + octx_sib c + length args + 3 <= fuel ->
  exists vals s,
    run_cmds H fuel (chain_prog_o c args ++ [CFix (2 * length args) false]) 0 []
             (empty_store []) = (None, vals, s) /\
    follow s (last vals (V 0)) = O m [].
Proof.
  intros H W c args m fuel Wc P U C Hm Hlb Hf.
  exact (chain_o_glb_fix H c Wc P W args m fuel (conj U C) Hm Hlb Hf).
Qed.

Theorem glb_octx_top_bottom_stmt : forall H, wf_hier H ->
  forall (c : octx) (args : list nat) (m fuel : nat),
  wf_octx H c -> pol H c = false ->
  (forall a, In a args -> variance H a = []) ->
  (forall a b, In a args -> In b args ->
     (a = Bottom \/ b = Top \/ Anc H a b) \/ (b = Bottom \/ a = Top \/ Anc H b a)) ->
  In m args -> (forall a, In a args -> m = Bottom \/ a = Top \/ Anc H m a) ->
  octx_depth c + octx_sib c + length args + 3 <= fuel ->
  exists vals s,
    run_cmds H fuel (chain_prog_o c args) 0 [] (empty_store []) = (None, vals, s) /\
    if Nat.eqb m Top
    then follow s (last vals (V 0)) = V 0 /\ cell_of s 0 = mkCell false None None None 0
    else if Nat.eqb m Bottom
    then follow s (last vals (V 0)) = O Bottom []
    else follow s (last vals (V 0)) = V 0 /\ cell_of s 0 = mkCell false None None (Some m) 0.
Proof.
  intros H W c args m fuel Wc P U C Hm Hlb Hf.
  exact (chain_o_glb_ext H c Wc P W args m fuel (conj U C) Hm Hlb Hf).
Qed.

Theorem glb_perm_octx_stmt : forall H, wf_hier H ->
  forall (c : octx) (args args' : list nat) (fuel : nat),
  wf_octx H c -> pol H c = false ->
  args <> [] ->
  (forall a, In a args -> variance H a = [] /\ a <> Top /\ a <> Bottom) ->
  (forall a b, In a args -> In b args -> Anc H a b \/ Anc H b a) ->
  Permutation args args' ->
  octx_depth c + octx_sib c + length args + 3 <= fuel ->
  exists m vals s vals' s',
    In m args /\ (forall a, In a args -> Anc H m a) /\
    run_cmds H fuel (chain_prog_o c args) 0 [] (empty_store []) = (None, vals, s) /\
    follow s (last vals (V 0)) = V 0 /\
    cell_of s 0 = mkCell false None None (Some m) 0 /\
    run_cmds H fuel (chain_prog_o c args') 0 [] (empty_store []) = (None, vals', s') /\
    follow s' (last vals' (V 0)) = V 0 /\
    cell_of s' 0 = mkCell false None None (Some m) 0.
Proof.
  intros H W c args args' fuel Wc P Hne U C Pm Hf.
  exact (chain_o_glb_perm H c Wc P W args args' fuel Hne (conj U C) Pm Hf).
Qed.

(* with Top and Bottom: same result in any order; when the variable stays
   unresolved its whole cell (upper limit included) is the same *)
Theorem glb_perm_octx_top_bottom_stmt : forall H, wf_hier H ->
  forall (c : octx) (args args' : list nat) (fuel : nat),
  wf_octx H c -> pol H c = false ->
  args <> [] ->
  (forall a, In a args -> variance H a = []) ->
  (forall a b, In a args -> In b args ->
     (a = Bottom \/ b = Top \/ Anc H a b) \/ (b = Bottom \/ a = Top \/ Anc H b a)) ->
  Permutation args args' ->
  octx_depth c + octx_sib c + length args + 3 <= fuel ->
  exists vals s vals' s',
    run_cmds H fuel (chain_prog_o c args) 0 [] (empty_store []) = (None, vals, s) /\
    run_cmds H fuel (chain_prog_o c args') 0 [] (empty_store []) = (None, vals', s') /\
    follow s (last vals (V 0)) = follow s' (last vals' (V 0)) /\
    (follow s (last vals (V 0)) = V 0 -> cell_of s 0 = cell_of s' 0).
Proof.
  intros H W c args args' fuel Wc P Hne U C Pm Hf.
  destruct (chain_o_glb_perm_ext H c Wc P W args args' fuel Hne (conj U C) Pm Hf)
    as (g & vals & s & vals' & s' & E & HI & R & E' & HI' & R').
  exists vals, s, vals', s'. split; [exact E|]. split; [exact E'|].
  exact (glb_perm_ext_obs s s' g vals vals' HI R HI' R').
Qed.

Theorem glb_mono_octx_stmt : forall H, wf_hier H ->
  forall (c : octx) (args args' : list nat) (fuel : nat),
  wf_octx H c -> pol H c = false ->
  args <> [] ->
  (forall a, In a args -> variance H a = [] /\ a <> Top /\ a <> Bottom) ->
  (forall a b, In a args -> In b args -> Anc H a b \/ Anc H b a) ->
  (forall a, In a args' -> variance H a = [] /\ a <> Top /\ a <> Bottom) ->
  (forall a b, In a args' -> In b args' -> Anc H a b \/ Anc H b a) ->
  Forall2 (fun x' x => Anc H x' x) args' args ->
  octx_depth c + octx_sib c + length args + 3 <= fuel ->
  exists m m' vals s vals' s',
    run_cmds H fuel (chain_prog_o c args) 0 [] (empty_store []) = (None, vals, s) /\
    follow s (last vals (V 0)) = V 0 /\
    cell_of s 0 = mkCell false None None (Some m) 0 /\
    run_cmds H fuel (chain_prog_o c args') 0 [] (empty_store []) = (None, vals', s') /\
    follow s' (last vals' (V 0)) = V 0 /\
    cell_of s' 0 = mkCell false None None (Some m') 0 /\
    Anc H m' m.
Proof.
  intros H W c args args' fuel Wc P Hne U C U' C' F Hf.
  exact (chain_o_glb_mono H c Wc P W args args' fuel Hne (conj U C) (conj U' C') F Hf).
Qed.

(* the sibling lemma of the task: a concrete type unifies with itself in
   subtype mode without touching the store, and fix leaves it alone *)
Theorem unify_concrete_refl_stmt : forall H (t : ty) (fuel : nat) (s : store),
  ty_height t <= fuel -> unify H fuel true false false (inj t) (inj t) s = MOk tt s.
Proof. intros H t fuel s Hf. now apply unify_inj_refl. Qed.

Theorem unify_octx_stmt : forall H, wf_hier H -> forall (c : octx),
  wf_octx H c ->
  forall (fuel : nat) (x y : tyv) (s : store), octx_depth c + octx_sib c <= fuel ->
    unify H fuel true false false (tplug c x) (tplug c y) s =
      (if pol H c
       then unify H (fuel - octx_depth c) true false false x y s
       else unify H (fuel - octx_depth c) true false false y x s).
Proof. exact unify_octx. Qed.

Theorem ctx_conc_stmt : forall (c : octx) (a : nat),
  conc_o c a = mkSchema 0 (sinj (cplug c (TOp a []))) [] /\
  inj (cplug c (TOp a [])) = tplug c (O a []).
Proof. intros c a. split; [apply conc_o_cplug|apply (inj_cplug c (TOp a []))]. Qed.

Theorem ctx_conc_wf_stmt : forall H (c : octx) (a : nat),
  wf_octx H c -> variance H a = [] -> wf_ty H (cplug c (TOp a [])).
Proof.
  intros H c a Wc Va. apply wf_cplug; auto. apply wf_ty_unfold. rewrite Va. split; auto.
Qed.
