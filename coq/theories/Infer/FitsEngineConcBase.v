(* C06, engine link for CONCRETE alternatives of any shape, part 0: forward
   (computational) closed forms of the engine model on concrete types.

     - [match_inj]: the engine's three-valued match on two concrete types
       computes Sub/Match.v's [m] (the code's match restricted to concrete
       types), for every fuel above the depth of the type that drives the
       recursion;  [unify_inj]: likewise unify computes [u] and never touches
       the store;
     - [cmins]: the pure description of EliminationConstraint.minimize on
       concrete alternatives ([minimize_conc_fwd]), with soundness ([cmins_in])
       and coverage ([cmins_cover]);
     - the filter loop of fulfill as a [filter] ([filt_keep]);
     - evaluation of concrete schematic alternatives, the closure computation
       of Constraint.__init__ over concrete alternatives. *)
From Coq Require Import List Arith Bool Lia.
Import ListNotations.
From TF Require Import Base.Hier Base.Ty Sub.Match Sub.SubSpec Sub.SubProofs
  Infer.Store Infer.Engine Infer.Run Infer.Fits Infer.FitsEngine Infer.FitsEngineList
  Infer.FitsEnginePat.

Local Arguments op_subtype : simpl never.

(* ------------------------------------------------------------------ *)
(* small facts about concrete instances                                 *)
(* ------------------------------------------------------------------ *)
Lemma cb_follow_inj s B : follow s (inj B) = inj B.
Proof. destruct B as [o args]. reflexivity. Qed.

Lemma cb_map_follow_inj s l : map (follow s) (map inj l) = map inj l.
Proof. rewrite map_map. apply map_ext. intros B. apply cb_follow_inj. Qed.

Definition tys_depth (l : list ty) : nat := fold_right (fun x acc => Nat.max (ty_depth x) acc) 0 l.

Lemma tys_depth_in l x : In x l -> ty_depth x <= tys_depth l.
Proof.
  induction l as [|y l IH]; intros I; [destruct I|]. cbn [tys_depth fold_right].
  destruct I as [->|I]; [lia|]. specialize (IH I). unfold tys_depth in IH. lia.
Qed.

Lemma tys_depth_Forall l n : tys_depth l < n -> Forall (fun x => ty_depth x < n) l.
Proof.
  intros L. apply Forall_forall. intros x I. apply tys_depth_in in I. lia.
Qed.

Lemma tri_and_same r acc : Engine.tri_and r acc = Match.tri_and r acc.
Proof. destruct r as [[|]|], acc as [[|]|]; reflexivity. Qed.

(* ------------------------------------------------------------------ *)
(* match on concrete types                                              *)
(* ------------------------------------------------------------------ *)
Section Bridge.
Variable H : hier.

Definition mloop (f : nat) (s : store) (sub aw : bool) :=
  fix go (vs : list bool) (xs ys : list tyv) (acc : option bool) : res (option bool) :=
    match vs, xs, ys with
    | v :: vs', x :: xs', y :: ys' =>
        match (if v then match_f H f s sub aw x y else match_f H f s sub aw y x) with
        | Er e => Er e
        | Ok (Some false) => Ok (Some false)
        | Ok r => go vs' xs' ys' (Engine.tri_and r acc)
        end
    | _, _, _ => Ok acc
    end.

Lemma match_f_OO' f s sub aw oa xs ob ys :
  match_f H (S f) s sub aw (O oa xs) (O ob ys) =
    if sub && (Nat.eqb oa Bottom || Nat.eqb ob Top) then Ok (Some true)
    else if basic H oa then Ok (Some (Nat.eqb oa ob || (sub && osub H false oa ob)))
    else if negb (Nat.eqb oa ob) then Ok (Some false)
    else mloop f s sub aw (variance H oa) xs ys (Some true).
Proof. reflexivity. Qed.

Lemma match_f_VO f s sub aw va ob ys : follow s (V va) = V va ->
  match_f H (S f) s sub aw (V va) (O ob ys) =
            let ca := cell_of s va in
            if sub && Nat.eqb ob Top then Ok (Some true)
            else if (match c_upper ca, c_lower ca with None, None => false | _, _ => true end) && negb (basic H ob)
            then Ok (Some false)
            else if (match c_lower ca with Some l => negb (osub H false l ob) | None => false end) then Ok (Some false)
            else if (match c_upper ca with
                     | Some u => negb (osub H false u ob) && negb (sub && osub H false ob u)
                     | None => false end) then Ok (Some false)
            else if aw && c_wild ca then Ok (Some true)
            else Ok None.
Proof. intros E. cbn [match_f]. rewrite E, follow_O. reflexivity. Qed.

Lemma match_f_OV f s sub aw oa xs vb : follow s (V vb) = V vb ->
  match_f H (S f) s sub aw (O oa xs) (V vb) =
            let cb := cell_of s vb in
            if sub && Nat.eqb oa Bottom then Ok (Some true)
            else if (match c_upper cb, c_lower cb with None, None => false | _, _ => true end) && negb (basic H oa)
            then Ok (Some false)
            else if (match c_upper cb with Some u => negb (osub H false oa u) | None => false end) then Ok (Some false)
            else if (match c_lower cb with
                     | Some l => negb (osub H false l oa) && negb (sub && osub H false oa l)
                     | None => false end) then Ok (Some false)
            else if aw && c_wild cb then Ok (Some true)
            else Ok None.
Proof. intros E. cbn [match_f]. rewrite E, follow_O. reflexivity. Qed.

(* the occurs check of a variable with a lower bound in a base type above it *)
Lemma occurs_base_lower n s hb v a : 2 <= n ->
  c_bound (cell_of s v) = None -> c_lower (cell_of s v) = Some a -> c_upper (cell_of s v) = None ->
  basic H hb = true -> op_subtype H false a hb = true ->
  occurs_f H n s (O hb []) (V v) = Ok false.
Proof.
  intros L B Lo Up Bh Le. destruct n as [|[|n]]; try lia.
  rewrite occurs_S, follow_O, (follow_unbound s v B).
  rewrite match_f_OV by (apply follow_unbound; exact B).
  cbn zeta. rewrite Lo, Up, Bh. unfold osub. rewrite Le. reflexivity.
Qed.

Definition mspec (f : nat) (s : store) (sub aw : bool) (x : ty) : Prop :=
  forall (d : bool) B, match_f H f s sub aw (if d then inj x else inj B) (if d then inj B else inj x)
              = Ok (m H sub d x B).

Lemma mloop_inj f s sub aw (d : bool) : forall xs, Forall (mspec f s sub aw) xs -> forall vs ys acc,
  mloop f s sub aw vs (if d then map inj xs else map inj ys) (if d then map inj ys else map inj xs) acc
  = Ok (Match.tri_and (Match.margs (fun d' x y => m H sub d' x y) d vs xs ys) acc).
Proof.
  induction 1 as [|x xs Hx _ IH]; intros vs ys acc.
  - destruct d, vs, ys; cbn [map mloop Match.margs]; destruct acc as [[|]|]; reflexivity.
  - destruct vs as [|v vs].
    { destruct d, ys; cbn [map mloop Match.margs]; destruct acc as [[|]|]; reflexivity. }
    destruct ys as [|y ys].
    { destruct d; cbn [map mloop Match.margs]; destruct acc as [[|]|]; reflexivity. }
    cbn [Match.margs].
    assert (E : mloop f s sub aw (v :: vs) (if d then map inj (x :: xs) else map inj (y :: ys))
                      (if d then map inj (y :: ys) else map inj (x :: xs)) acc =
                match match_f H f s sub aw (if (if v then d else negb d) then inj x else inj y)
                                           (if (if v then d else negb d) then inj y else inj x) with
                | Er e => Er e
                | Ok (Some false) => Ok (Some false)
                | Ok r => mloop f s sub aw vs (if d then map inj xs else map inj ys)
                                (if d then map inj ys else map inj xs) (Engine.tri_and r acc)
                end).
    { destruct d, v; reflexivity. }
    rewrite E. clear E. rewrite (Hx (if v then d else negb d) y).
    destruct (m H sub (if v then d else negb d) x y) as [[|]|].
    + rewrite IH. destruct (Match.margs _ d vs xs ys) as [[|]|], acc as [[|]|]; reflexivity.
    + reflexivity.
    + rewrite IH. destruct (Match.margs _ d vs xs ys) as [[|]|], acc as [[|]|]; reflexivity.
Qed.

Lemma tri_and_true_r r : Match.tri_and r (Some true) = r.
Proof. destruct r as [[|]|]; reflexivity. Qed.

Theorem match_inj : forall A f s sub aw, ty_depth A < f -> mspec f s sub aw A.
Proof.
  induction A as [oa xs IH] using ty_ind'. intros f s sub aw L d [ob ys].
  destruct f as [|f]; [lia|]. apply depth_args in L.
  assert (IH' : Forall (mspec f s sub aw) xs).
  { rewrite Forall_forall in *. intros x Hx. apply IH; auto. }
  cbn [inj]. destruct d.
  - rewrite match_f_OO'. cbn [m]. unfold basic, osub.
    destruct (sub && (Nat.eqb oa Bottom || Nat.eqb ob Top)); [reflexivity|].
    destruct (Nat.eqb (arity H oa) 0); [reflexivity|].
    destruct (negb (Nat.eqb oa ob)); [reflexivity|].
    rewrite (mloop_inj f s sub aw true xs IH' (variance H oa) ys (Some true)).
    now rewrite tri_and_true_r.
  - rewrite match_f_OO'. cbn [m]. unfold basic, osub.
    destruct (sub && (Nat.eqb ob Bottom || Nat.eqb oa Top)); [reflexivity|].
    destruct (Nat.eqb (arity H ob) 0); [reflexivity|].
    destruct (Nat.eqb_spec ob oa) as [->|N]; cbn [negb]; [|reflexivity].
    rewrite (mloop_inj f s sub aw false xs IH' (variance H oa) ys (Some true)).
    now rewrite tri_and_true_r.
Qed.

Corollary match_inj_fwd A B f s sub aw : ty_depth A < f ->
  match_f H f s sub aw (inj A) (inj B) = Ok (m H sub true A B).
Proof. intros L. exact (match_inj A f s sub aw L true B). Qed.

(* ------------------------------------------------------------------ *)
(* unify on concrete types                                              *)
(* ------------------------------------------------------------------ *)
Definition uloop (f : nat) (sub skb skw : bool) :=
  fix go (vs : list bool) (xs ys : list tyv) : M unit :=
    match vs, xs, ys with
    | v :: vs', x :: xs', y :: ys' =>
        (if v then unify H f sub skb skw x y else unify H f sub skb skw y x) ;;;
        go vs' xs' ys'
    | _, _, _ => ret tt
    end.

Lemma unify_OO f sub skb skw oa xs ob ys s :
  unify H (S f) sub skb skw (O oa xs) (O ob ys) s =
    (if Nat.eqb oa Bottom || Nat.eqb ob Top then ret tt
     else if basic H oa then
       if skb then ret tt
       else if sub && negb (osub H false oa ob) then fail ESubtypeMismatch
       else if negb sub && negb (Nat.eqb oa ob) then fail ETypeMismatch
       else ret tt
     else if Nat.eqb oa ob then uloop f sub skb skw (variance H oa) xs ys
     else fail ETypeMismatch) s.
Proof. rewrite unify_S. reflexivity. Qed.

Definition conv (e : Match.terr) : err :=
  match e with
  | Match.ESubtypeMismatch => ESubtypeMismatch
  | Match.ETypeMismatch => ETypeMismatch
  | Match.EFunctionApplication => EFunApp
  end.

Definition ures (r : option Match.terr) (s : store) : mres unit :=
  match r with None => MOk tt s | Some e => MEr (conv e) s end.

Definition uspec (f : nat) (x : ty) : Prop :=
  forall (d : bool) B s, unify H f true false false (if d then inj x else inj B) (if d then inj B else inj x) s
                = ures (u H true d x B) s.

Lemma uloop_inj f (d : bool) : forall xs, Forall (uspec f) xs -> forall vs ys s,
  uloop f true false false vs (if d then map inj xs else map inj ys) (if d then map inj ys else map inj xs) s
  = ures (uargs (fun d' x y => u H true d' x y) d vs xs ys) s.
Proof.
  induction 1 as [|x xs Hx _ IH]; intros vs ys s.
  - destruct d, vs, ys; reflexivity.
  - destruct vs as [|v vs]; [destruct d, ys; reflexivity|].
    destruct ys as [|y ys]; [destruct d; reflexivity|].
    cbn [uargs].
    assert (E : uloop f true false false (v :: vs) (if d then map inj (x :: xs) else map inj (y :: ys))
                      (if d then map inj (y :: ys) else map inj (x :: xs)) s =
                match unify H f true false false (if (if v then d else negb d) then inj x else inj y)
                                           (if (if v then d else negb d) then inj y else inj x) s with
                | MOk _ s' => uloop f true false false vs (if d then map inj xs else map inj ys)
                                (if d then map inj ys else map inj xs) s'
                | MEr e s' => MEr e s'
                end).
    { destruct d, v; reflexivity. }
    rewrite E. clear E. rewrite (Hx (if v then d else negb d) y s).
    destruct (u H true (if v then d else negb d) x y) as [e|]; cbn [ures seq_res]; [reflexivity|].
    apply IH.
Qed.

Theorem unify_inj : forall A f, ty_depth A < f -> uspec f A.
Proof.
  induction A as [oa xs IH] using ty_ind'. intros f L d [ob ys] s.
  destruct f as [|f]; [lia|]. apply depth_args in L.
  assert (IH' : Forall (uspec f) xs).
  { rewrite Forall_forall in *. intros x Hx. apply IH; auto. }
  cbn [inj]. destruct d.
  - rewrite unify_OO. cbn [u]. unfold basic, osub. cbn [andb negb].
    destruct (Nat.eqb oa Bottom || Nat.eqb ob Top); [reflexivity|].
    destruct (Nat.eqb (arity H oa) 0).
    { destruct (op_subtype H false oa ob); reflexivity. }
    destruct (Nat.eqb oa ob); [|reflexivity].
    exact (uloop_inj f true xs IH' (variance H oa) ys s).
  - rewrite unify_OO. cbn [u]. unfold basic, osub. cbn [andb negb].
    destruct (Nat.eqb ob Bottom || Nat.eqb oa Top); [reflexivity|].
    destruct (Nat.eqb (arity H ob) 0).
    { destruct (op_subtype H false ob oa); reflexivity. }
    destruct (Nat.eqb_spec ob oa) as [->|N]; [|reflexivity].
    exact (uloop_inj f false xs IH' (variance H oa) ys s).
Qed.

Corollary unify_inj_fwd A B f s : ty_depth A < f ->
  unify H f true false false (inj A) (inj B) s = ures (u H true true A B) s.
Proof. intros L. exact (unify_inj A f L true B s). Qed.

(* ------------------------------------------------------------------ *)
(* the pure description of minimize on concrete alternatives            *)
(* ------------------------------------------------------------------ *)
Definition subb (a b : ty) : bool :=
  match m H true true a b with Some true => true | _ => false end.

Definition crepl (b mi : ty) : ty := if subb mi b then b else mi.
Definition cmin_step (mins : list ty) (b : ty) : list ty :=
  let mins' := map (crepl b) mins in
  if existsb (subb b) mins' then mins' else mins' ++ [b].
Definition cmins (l : list ty) : list ty := fold_left cmin_step l [].

Lemma crepl_cases b mi : crepl b mi = b \/ crepl b mi = mi.
Proof. unfold crepl. destruct (subb mi b); auto. Qed.

Lemma cmin_step_in ms b x : In x (cmin_step ms b) -> x = b \/ In x ms.
Proof.
  unfold cmin_step. intros I.
  assert (In x (map (crepl b) ms) \/ x = b) as [I'|E]; auto.
  { destruct (existsb (subb b) (map (crepl b) ms)); auto.
    apply in_app_or in I. destruct I as [I|[E|[]]]; auto. }
  apply in_map_iff in I'. destruct I' as (mi & E & Im).
  destruct (crepl_cases b mi) as [R|R]; rewrite R in E; subst; auto.
Qed.

Lemma cfold_in l : forall ms x, In x (fold_left cmin_step l ms) -> In x l \/ In x ms.
Proof.
  induction l as [|b l IH]; cbn [fold_left]; intros ms x I; auto.
  apply IH in I. destruct I as [I|I]; [left; now right|].
  apply cmin_step_in in I. destruct I as [->|I]; [left; now left|now right].
Qed.

Lemma cmins_in l x : In x (cmins l) -> In x l.
Proof. intros I. apply cfold_in in I. destruct I as [I|[]]; auto. Qed.

Lemma cmins_Forall (P : ty -> Prop) l : Forall P l -> Forall P (cmins l).
Proof. rewrite !Forall_forall. intros G x I. apply G, cmins_in, I. Qed.

Hypothesis W : wf_hier H.

Lemma subb_spec a b : wf_ty H a -> wf_ty H b -> (subb a b = true <-> Sub H a b).
Proof.
  intros Wa Wb. unfold subb. rewrite <- (match3_exact H W a b Wa Wb). unfold match3.
  destruct (m H true true a b) as [[|]|]; split; congruence.
Qed.

Lemma m_keep a b : wf_ty H a -> wf_ty H b ->
  subb a b = match m H true true a b with Some false => false | _ => true end.
Proof.
  intros Wa Wb. unfold subb. destruct (m_decides H W a Wa true b Wb) as [[E _]|[E _]]; rewrite E; reflexivity.
Qed.

Lemma subb_refl a : wf_ty H a -> subb a a = true.
Proof. intros Wa. apply subb_spec; auto. now apply Sub_refl. Qed.

Lemma subb_trans a b c : wf_ty H a -> wf_ty H b -> wf_ty H c ->
  subb a b = true -> subb b c = true -> subb a c = true.
Proof.
  intros Wa Wb Wc. rewrite !subb_spec by assumption. intros S1 S2. eapply Sub_trans; eauto.
Qed.

Lemma subb_crepl b mi : wf_ty H mi -> subb mi (crepl b mi) = true.
Proof. intros Wm. unfold crepl. destruct (subb mi b) eqn:E; auto using subb_refl. Qed.

Lemma cmin_step_wf ms b : Forall (wf_ty H) ms -> wf_ty H b -> Forall (wf_ty H) (cmin_step ms b).
Proof.
  rewrite !Forall_forall. intros G Gb x I. apply cmin_step_in in I. destruct I as [->|I]; auto.
Qed.

Lemma cmin_step_cover ms b x : Forall (wf_ty H) ms -> wf_ty H b -> wf_ty H x ->
  (x = b \/ exists mi, In mi ms /\ subb x mi = true) ->
  exists mi, In mi (cmin_step ms b) /\ subb x mi = true.
Proof.
  intros Gm Gb Gx C. unfold cmin_step.
  assert (C' : (exists mi, In mi (map (crepl b) ms) /\ subb x mi = true) \/
               (x = b /\ existsb (subb b) (map (crepl b) ms) = false)).
  { destruct C as [->|(mi & Im & L)].
    - destruct (existsb (subb b) (map (crepl b) ms)) eqn:E; auto.
      apply existsb_exists in E. destruct E as (mi & Im & L). left; eauto.
    - left. exists (crepl b mi). split; [now apply in_map|].
      rewrite Forall_forall in Gm.
      assert (Gr : wf_ty H (crepl b mi)) by (destruct (crepl_cases b mi) as [-> | ->]; auto).
      eapply subb_trans; [| |exact Gr|exact L|apply subb_crepl]; auto. }
  destruct C' as [(mi & Im & L)|(-> & E)].
  - exists mi. split; auto.
    destruct (existsb (subb b) (map (crepl b) ms)); auto. apply in_or_app; auto.
  - rewrite E. exists b. split; [apply in_or_app; right; now left|now apply subb_refl].
Qed.

Lemma cfold_cover l : forall ms x, Forall (wf_ty H) l -> Forall (wf_ty H) ms -> wf_ty H x ->
  (In x l \/ exists mi, In mi ms /\ subb x mi = true) ->
  exists mi, In mi (fold_left cmin_step l ms) /\ subb x mi = true.
Proof.
  induction l as [|b l IH]; cbn [fold_left]; intros ms x Gl Gm Gx C.
  - destruct C as [[]|C]; auto.
  - inversion Gl as [|? ? Gb Gl']; subst.
    apply IH; auto using cmin_step_wf.
    destruct C as [[->|I]|C]; auto.
    + right. apply cmin_step_cover; auto.
    + right. apply cmin_step_cover; auto.
Qed.

Lemma cmins_cover l x : Forall (wf_ty H) l -> In x l ->
  exists mi, In mi (cmins l) /\ subb x mi = true.
Proof.
  intros G I. apply cfold_cover; auto. rewrite Forall_forall in G. auto.
Qed.

Lemma cmins_nonempty l : Forall (wf_ty H) l -> l <> [] -> cmins l <> [].
Proof.
  intros G N. destruct l as [|b l]; [congruence|].
  destruct (cmins_cover (b :: l) b G (or_introl eq_refl)) as (mi & I & _).
  intros E. rewrite E in I. exact I.
Qed.

(* the kept alternatives accept exactly what the given ones accept *)
Lemma cmins_exists a l : wf_ty H a -> Forall (wf_ty H) l ->
  existsb (subb a) (cmins l) = existsb (subb a) l.
Proof.
  intros Ga G. apply eq_true_iff_eq. rewrite !existsb_exists. split.
  - intros (mi & I & L). exists mi. split; auto using cmins_in.
  - intros (b & I & L). destruct (cmins_cover l b G I) as (mi & Im & Lm).
    exists mi. split; auto.
    pose proof (cmins_Forall _ l G) as Gm. rewrite Forall_forall in G, Gm.
    apply (subb_trans a b mi); auto.
Qed.

Lemma existsb_subb_iff a l : wf_ty H a -> Forall (wf_ty H) l ->
  (existsb (subb a) l = true <-> exists T, In T l /\ Sub H a T).
Proof.
  intros Wa Wl. rewrite existsb_exists. rewrite Forall_forall in Wl.
  split; intros (T & I & S); exists T; split; auto; apply (subb_spec a T); auto.
Qed.
End Bridge.

(* ------------------------------------------------------------------ *)
(* the loops of minimize / fulfill on concrete alternatives              *)
(* ------------------------------------------------------------------ *)
Local Arguments bindM {A B} m f s /.
Local Arguments gets {A} f s /.
Local Arguments ret {A} a s /.
Local Arguments fail {A} e s /.
Local Arguments modify f s /.
Local Arguments lift {A} r s /.
Local Arguments min_inner : simpl never.
Local Arguments min_outer : simpl never.
Local Arguments filt : simpl never.
Local Arguments eval_list : simpl never.
Local Arguments fix_ty : simpl never.
Local Arguments minimize : simpl never.

Section Loops.
Variable H : hier.
Local Notation subb := (subb H).
Local Notation crepl := (crepl H).
Local Notation cmin_step := (cmin_step H).
Local Notation cmins := (cmins H).

Lemma inner_conc f b s : ty_depth b < f -> forall post pre add, Forall (fun x => ty_depth x < f) post ->
  min_inner H f (inj b) pre (map inj post) add s =
  MOk (pre ++ map inj (map (crepl b) post), add && negb (existsb (subb b) (map (crepl b) post))) s.
Proof.
  intros Lb. induction post as [|mi post IH]; intros pre add G.
  - cbn [map existsb negb]. rewrite min_inner_nil, app_nil_r, andb_true_r. reflexivity.
  - inversion G as [|? ? Gm G']; subst.
    cbn [map]. rewrite min_inner_cons.
    rewrite bindM_eq. unfold lift at 1. rewrite (match_inj_fwd H mi b f s true false Gm). cbn beta iota.
    rewrite bindM_eq.
    assert (E : (match m H true true mi b with
                 | Some true => gets (fun s0 => follow s0 (inj b))
                 | _ => ret (inj mi) end) s = MOk (inj (crepl b mi)) s).
    { unfold FitsEngineConcBase.crepl, FitsEngineConcBase.subb.
      destruct (m H true true mi b) as [[|]|]; cbn [gets ret]; rewrite ?cb_follow_inj; reflexivity. }
    rewrite E. cbn beta iota.
    rewrite bindM_eq. unfold lift at 1. rewrite (match_inj_fwd H b (crepl b mi) f s true false Lb).
    cbn beta iota. rewrite IH by assumption.
    rewrite <- app_assoc. cbn [app existsb]. unfold FitsEngineConcBase.subb at 2.
    destruct (m H true true b (crepl b mi)) as [[|]|]; destruct add; reflexivity.
Qed.

Lemma map_inj_app l1 l2 : map inj (l1 ++ l2) = map inj l1 ++ map inj l2.
Proof. apply map_app. Qed.

Lemma cmin_step_depth f ms b : Forall (fun x => ty_depth x < f) ms -> ty_depth b < f ->
  Forall (fun x => ty_depth x < f) (cmin_step ms b).
Proof.
  rewrite !Forall_forall. intros G Gb x I. apply cmin_step_in in I. destruct I as [->|I]; auto.
Qed.

Lemma outer_conc f s : forall l ms, Forall (fun x => ty_depth x < f) l -> Forall (fun x => ty_depth x < f) ms ->
  min_outer H f (map inj l) (map inj ms) s = MOk (map inj (fold_left cmin_step l ms)) s.
Proof.
  induction l as [|b l IH]; intros ms Gl Gm.
  - reflexivity.
  - inversion Gl as [|? ? Gb Gl']; subst.
    cbn [map]. rewrite min_outer_cons.
    rewrite bindM_eq, (inner_conc f b s Gb ms [] true Gm).
    cbn [app andb]. cbn beta iota.
    cbn [fold_left]. pose proof (cmin_step_depth f ms b Gm Gb) as Gs.
    unfold FitsEngineConcBase.cmin_step at 2. unfold FitsEngineConcBase.cmin_step in Gs.
    destruct (existsb (subb b) (map (crepl b) ms)) eqn:E; cbn [negb].
    + apply IH; auto.
    + rewrite bindM_eq. unfold gets at 1. rewrite cb_follow_inj. cbn beta iota. rewrite bindM_eq.
      rewrite (fix_ty_inj H b f true s Gb). cbn beta iota.
      change [inj b] with (map inj [b]). rewrite <- map_inj_app. apply IH; auto.
Qed.

Lemma cmins_depth f l : Forall (fun x => ty_depth x < f) l -> Forall (fun x => ty_depth x < f) (cmins l).
Proof. apply cmins_Forall. Qed.

(* EliminationConstraint.minimize on concrete alternatives *)
Lemma minimize_conc_fwd f c s l : Forall (fun x => ty_depth x < f) l ->
  k_alts (constr_of s c) = map inj l ->
  minimize H (S f) c s =
  MOk tt (set_constr s c (mkConstr (k_elim (constr_of s c)) (follow s (k_ref (constr_of s c)))
                                   (map inj (cmins l)) (k_strict (constr_of s c)) (k_done (constr_of s c)))).
Proof.
  intros G E. rewrite minimize_S'. rewrite bindM_eq. unfold gets at 1. rewrite E.
  rewrite bindM_eq. change (@nil tyv) with (map inj []).
  rewrite outer_conc by auto.
  rewrite bindM_eq. unfold gets at 1. rewrite bindM_eq. unfold gets at 1.
  rewrite cb_map_follow_inj. reflexivity.
Qed.

(* the filter of fulfill *)
Lemma filt_keep f s ref (keep : ty -> bool) : forall l,
  Forall (fun B => exists r, match_f H f s true true ref (inj B) = Ok r /\
                             keep B = match r with Some false => false | _ => true end) l ->
  filt H f s ref (map inj l) = Ok (map inj (filter keep l)).
Proof.
  intros l G. induction G as [|B l GB G IH]; [reflexivity|].
  cbn [map filter]. rewrite filt_cons, IH.
  destruct GB as (r & -> & ->).
  destruct r as [[|]|]; reflexivity.
Qed.

Lemma filter_all' {A} (p : A -> bool) l : Forall (fun x => p x = true) l -> filter p l = l.
Proof. induction 1 as [|x l E _ IH]; cbn [filter]; [auto|now rewrite E, IH]. Qed.

(* reference variable without bounds, not a wildcard: every alternative stays *)
Lemma filt_unbounded_conc f s v l :
  c_wild (cell_of s v) = false -> c_bound (cell_of s v) = None ->
  c_lower (cell_of s v) = None -> c_upper (cell_of s v) = None ->
  filt H (S f) s (V v) (map inj l) = Ok (map inj l).
Proof.
  intros Cw Cb Cl Cu. rewrite (filt_keep (S f) s (V v) (fun _ => true)).
  - f_equal. f_equal. apply filter_all'. rewrite Forall_forall. auto.
  - rewrite Forall_forall. intros [ob ys] _.
    cbn [inj match_f]. rewrite follow_O, follow_unbound by assumption. cbn beta iota zeta.
    rewrite Cw, Cl, Cu. cbn [andb].
    destruct (Nat.eqb ob Top); eexists; split; reflexivity.
Qed.

(* reference resolved to the concrete type x *)
Lemma filt_resolved f s r x l : follow s r = inj x -> ty_depth x < f -> 0 < f ->
  filt H f s r (map inj l) =
  Ok (map inj (filter (fun B => match m H true true x B with Some false => false | _ => true end) l)).
Proof.
  intros Er Lx Lf. apply filt_keep. rewrite Forall_forall. intros B _.
  exists (m H true true x B). split; [|reflexivity].
  destruct f as [|f]; [lia|].
  rewrite <- (match_inj_fwd H x B (S f) s true true Lx).
  destruct B as [ob ys]. cbn [inj]. cbn [match_f]. rewrite Er. rewrite cb_follow_inj. reflexivity.
Qed.

(* evaluation of the alternatives of the schema *)
Lemma eval_list_sconc env s : forall l, eval_list env (map sconc l) s = MOk (map inj l) s.
Proof.
  induction l as [|b l IH]; [reflexivity|].
  cbn [map]. rewrite eval_list_cons, eval_sty_sconc, IH. reflexivity.
Qed.

Lemma forallb_inj (g : nat -> bool) l :
  forallb (fun t => match t with V v => g v | O _ _ => true end) (map inj l) = true.
Proof. induction l as [|[o args] l IH]; [reflexivity|exact IH]. Qed.

(* Constraint.variables(indirect=True) over concrete alternatives finds nothing new *)
Lemma closure_conc s seen : forall l fuel, length l + tys_depth l < fuel ->
  closure_f fuel s (map inj l) seen = Ok seen.
Proof.
  induction l as [|b l IH]; intros fuel L; (destruct fuel as [|fuel]; [cbn in L; lia|]).
  - apply closure_nil.
  - cbn [map]. rewrite closure_cons.
    cbn [tys_depth fold_right length] in L. fold (tys_depth l) in L.
    rewrite (vars_inj b (S fuel) s []) by lia.
    cbn [filter union fold_right flat_map app]. apply IH. lia.
Qed.

Lemma closure_start_conc s l fuel : length l + tys_depth l + 1 < fuel ->
  c_bound (cell_of s 0) = None -> cset_of s (c_cs (cell_of s 0)) = [] ->
  closure_f fuel s (V 0 :: map inj l) [] = Ok [0].
Proof.
  intros L B C. destruct fuel as [|fuel]; [lia|].
  assert (E : closure_f (S fuel) s (V 0 :: map inj l) [] = closure_f fuel s (map inj l) [0]).
  { rewrite closure_cons. cbn [vars_f]. rewrite (follow_unbound s 0 B).
    cbn [ins filter mem existsb negb union fold_right flat_map].
    rewrite C. reflexivity. }
  rewrite E. apply closure_conc. lia.
Qed.
End Loops.
