(* C18 for the class progE, part W: composition along a program.

   [RelCmd H]: the one statement that is NOT proved here - a single command of the
   class, started in two stores that are related by [eqr] (Infer/SchedIndepElimQ.v;
   any two schedules) and both satisfy the invariant GI, behaves alike: both
   succeed with the same value and [eqr]-related stores, or both fail, or one of
   the two runs is out of fuel.  (For a round this is [round_rel]; what is missing is
   the lifting of [round_rel] through bind / above / below / unify / fix_ty /
   instance / apply, i.e. the relational version of the unary proofs in
   Infer/SchedIndepElimP.v and Infer/SchedIndepElimI.v.)

   [whole_partial]: RelCmd H implies the whole-program statement: for a program of
   the class and fuel >= prog_fuelE prog, the runs under any two schedules both fail
   at the same command or both succeed with the same values and [eqr]-related
   stores.  The proof threads GI ([run_cmd_GI]) and excludes EFuel by
   [prog_term_elim]. *)
From Coq Require Import List Arith Bool Lia Permutation.
Import ListNotations.
From TF Require Import Base.Hier Base.Ty Sub.SubSpec Infer.Store Infer.Engine Infer.Run
  Infer.Sched Infer.Inv Infer.Sound Infer.FixLeast Infer.TermP Infer.SchedIndep Infer.SoundSub
  Infer.TermSub Infer.SoundElimS Infer.SoundElimK Infer.SoundElim Infer.TermElim
  Infer.SchedIndepElimA Infer.SchedIndepElimR Infer.SchedIndepElim Infer.SchedIndepElimP
  Infer.SchedIndepElimI Infer.SchedIndepElimQ.

Unset Implicit Arguments.

Definition outr {A} (r1 r2 : mres A) : Prop :=
  match r1, r2 with
  | MOk a t1, MOk b t2 => a = b /\ eqr t1 t2
  | MOk _ _, MEr e _ => e = EFuel
  | MEr e _, MOk _ _ => e = EFuel
  | MEr _ _, MEr _ _ => True
  end.

Section Wh.
Variable H : hier.
Hypothesis W : wf_hier H.
Local Notation len s := (length (vars s)).

Definition RelCmd : Prop :=
  forall fuel c vals s1 s2, cmdE H (length vals) c -> Forall (tg H (len s1)) vals ->
    eqr s1 s2 -> GI H nop s1 -> GI H nop s2 ->
    outr (run_cmd H fuel c vals s1) (run_cmd H fuel c vals s2).

Definition outp (r1 r2 : option (err * nat) * list tyv * store) : Prop :=
  match r1, r2 with
  | (None, v1, t1), (None, v2, t2) => v1 = v2 /\ eqr t1 t2
  | (Some (e1, i1), _, _), (Some (e2, i2), _, _) => i1 = i2 \/ e1 = EFuel \/ e2 = EFuel
  | (Some (e, _), _, _), (None, _, _) => e = EFuel
  | (None, _, _), (Some (e, _), _, _) => e = EFuel
  end.

Lemma rel_cmds (RC : RelCmd) fuel : forall prog i vals s1 s2,
  progE H (length vals) prog -> Forall (tg H (len s1)) vals -> eqr s1 s2 ->
  GI H nop s1 -> GI H nop s2 ->
  outp (run_cmds H fuel prog i vals s1) (run_cmds H fuel prog i vals s2).
Proof.
  induction prog as [|c prog IH]; intros i vals s1 s2 Pp Fv E G1 G2; cbn [run_cmds].
  - cbn. auto.
  - destruct Pp as (Pc & Pr).
    assert (Fv2 : Forall (tg H (len s2)) vals) by (destruct E as (Ev & _); rewrite <- Ev; exact Fv).
    pose proof (RC fuel c vals s1 s2 Pc Fv E G1 G2) as R. unfold outr in R.
    pose proof G1 as (J1 & _).
    destruct (run_cmd H fuel c vals s1) as [v1 t1|e1 t1] eqn:E1;
      destruct (run_cmd H fuel c vals s2) as [v2 t2|e2 t2] eqn:E2.
    + destruct R as (<- & E').
      destruct (run_cmd_GI H W fuel c vals s1 G1 Fv Pc v1 t1 E1) as (G1' & F1').
      destruct (run_cmd_GI H W fuel c vals s2 G2 Fv2 Pc v1 t2 E2) as (G2' & _).
      destruct (run_cmd_goodE H W fuel c vals s1 J1 Fv Pc v1 t1 E1) as (t & -> & _).
      apply IH; auto. rewrite app_length. cbn [length]. rewrite Nat.add_1_r. exact Pr.
    + subst e2. unfold outp.
      destruct (run_cmds H fuel prog (S i) v1 t1) as [[[[e j]|] ?] ?]; auto.
    + subst e1. unfold outp.
      destruct (run_cmds H fuel prog (S i) v2 t2) as [[[[e j]|] ?] ?]; auto.
    + cbn. auto.
Qed.

(* the whole-program statement, relative to RelCmd *)
Theorem whole_partial (RC : RelCmd) fuel prog sc1 sc2 : progE H 0 prog -> prog_fuelE prog <= fuel ->
  match run_cmds H fuel prog 0 [] (empty_store sc1), run_cmds H fuel prog 0 [] (empty_store sc2) with
  | (None, v1, t1), (None, v2, t2) => v1 = v2 /\ eqr t1 t2
  | (Some (e1, i1), _, _), (Some (e2, i2), _, _) => i1 = i2 /\ e1 <> EFuel /\ e2 <> EFuel
  | _, _ => False
  end.
Proof.
  intros Pp L.
  pose proof (rel_cmds RC fuel prog 0 [] (empty_store sc1) (empty_store sc2) Pp (Forall_nil _)) as R.
  assert (E0 : eqr (empty_store sc1) (empty_store sc2)).
  { unfold eqr, empty_store. cbn. split; [|split; [|split]]; auto. intros c. apply creq_refl. }
  specialize (R E0 (GI_empty H sc1) (GI_empty H sc2)).
  pose proof (prog_term_elim H W prog sc1 fuel Pp L) as N1.
  pose proof (prog_term_elim H W prog sc2 fuel Pp L) as N2.
  destruct (run_cmds H fuel prog 0 [] (empty_store sc1)) as [[[[e1 i1]|] v1] t1],
           (run_cmds H fuel prog 0 [] (empty_store sc2)) as [[[[e2 i2]|] v2] t2]; cbn [fst] in *; unfold outp in R.
  - assert (e1 <> EFuel) by (intros ->; decompose [or] N1; discriminate).
    assert (e2 <> EFuel) by (intros ->; decompose [or] N2; discriminate).
    repeat split; auto. destruct R as [R|[R|R]]; auto; contradiction.
  - subst e1. decompose [or] N1; discriminate.
  - subst e2. decompose [or] N2; discriminate.
  - exact R.
Qed.

(* every store reached by a program of the class satisfies the hypothesis of the
   one-round theorem, for every variable: a round started there is
   schedule-independent - also when compared with a round from an [eqr]-related
   reachable store *)
Theorem reach_RoundPre fuel sc prog vals s v : progE H 0 prog ->
  run_cmds H fuel prog 0 [] (empty_store sc) = (None, vals, s) -> RoundPre H s v.
Proof.
  intros Pp E. apply (GI_RoundPre H nop s v); [|apply share_nop].
  exact (reach_GI H W fuel sc prog vals s Pp E).
Qed.

Theorem reach_round_indep fuel sc prog vals s v f1 f2 sc1 sc2 : progE H 0 prog ->
  run_cmds H fuel prog 0 [] (empty_store sc) = (None, vals, s) ->
  match check_constraints H f1 v (with_sched s sc1), check_constraints H f2 v (with_sched s sc2) with
  | MOk _ t1, MOk _ t2 => eqk t1 t2
  | MOk _ _, MEr e _ => e = EFuel
  | MEr e _, MOk _ _ => e = EFuel
  | MEr _ _, MEr _ _ => True
  end.
Proof.
  intros Pp E. apply (round_indep H W). exact (reach_RoundPre fuel sc prog vals s v Pp E).
Qed.

Theorem reach_round_rel fuel fuel' sc sc' prog vals vals' s s' v f1 f2 : progE H 0 prog ->
  run_cmds H fuel prog 0 [] (empty_store sc) = (None, vals, s) ->
  run_cmds H fuel' prog 0 [] (empty_store sc') = (None, vals', s') ->
  eqr s s' ->
  match check_constraints H f1 v s, check_constraints H f2 v s' with
  | MOk _ t1, MOk _ t2 => eqr t1 t2
  | MOk _ _, MEr e _ => e = EFuel
  | MEr e _, MOk _ _ => e = EFuel
  | MEr _ _, MEr _ _ => True
  end.
Proof.
  intros Pp E E' R. apply (round_rel H W); [exact R|].
  exact (reach_RoundPre fuel' sc' prog vals' s' v Pp E').
Qed.

End Wh.
