(* C06, engine link for PATTERN alternatives (second sentence of the property:
   "when exactly one alternative fits, the variables it mentions are determined
   by it and the result is the correspondingly instantiated result type").

   On the faithful fuelled model of Infer/Engine.v, for every well-formed
   hierarchy, by symbolic execution (method of FitsEngine.v / FitsEngineList.v:
   fuel kept as a chain n0 = S n1, ..., only the call in head position is
   unfolded by one of the equations [unify_S] ... [fix_ty_S]):

   - the unary family   a ** b      [a << [F(b)]]             (F unary covariant)
   - the tutorial `keys` a ** C(b)  [a << [C(b); R(b, _)]]    (C unary, R binary, covariant)

   applied to concrete arguments.  The runs are cut in three stages (instance of
   the signature, instance of the argument, apply) with EXPLICIT intermediate and
   final stores ([st1u], [st3u], [st1k], [st3k_R], [st3k_C]), so that everything
   observable (result, bindings, bounds, what is left of the constraint) can be
   read off by computation.  The instance of an arbitrary concrete argument is
   handled by induction ([instance_conc]). *)
From Coq Require Import List Arith Bool Lia.
Import ListNotations.
From TF Require Import Base.Hier Base.Ty Sub.Match Sub.SubSpec Sub.SubProofs
  Infer.Store Infer.Engine Infer.Run Infer.Fits Infer.FitsEngine Infer.FitsEngineList.

(* evaluation control, as in FitsEngine.v *)
Local Arguments op_subtype : simpl never.
Local Arguments bindM {A B} m f s /.
Local Arguments gets {A} f s /.
Local Arguments ret {A} a s /.
Local Arguments fail {A} e s /.
Local Arguments modify f s /.
Local Arguments lift {A} r s /.
Local Arguments fresh wild s /.
Local Arguments next_choice s /.
Local Arguments unify : simpl never.
Local Arguments bind : simpl never.
Local Arguments above : simpl never.
Local Arguments below : simpl never.
Local Arguments check_constraints : simpl never.
Local Arguments fulfill : simpl never.
Local Arguments minimize : simpl never.
Local Arguments fix_ty : simpl never.

(* ---------- the programs ---------- *)

Definition unary_alts (F : nat) : list sty := [SOp F [SVar 1]].
Definition unary_schema (F : nat) : schema :=
  mkSchema 2 (SOp Function [SVar 0; SVar 1]) [SCElim (SVar 0) (unary_alts F)].
Definition keys_alts (C R : nat) : list sty := [SOp C [SVar 1]; SOp R [SVar 1; SWild]].
Definition keys_schema (C R : nat) : schema :=
  mkSchema 2 (SOp Function [SVar 0; SOp C [SVar 1]]) [SCElim (SVar 0) (keys_alts C R)].
(* the argument is the instance of a variable-free schema *)
Definition arg_schema (x : ty) : schema := mkSchema 0 (sconc x) [].
Definition app_prog (sig : schema) (x : ty) : list cmd :=
  [CInst sig; CInst (arg_schema x); CApply 0 1 true].

(* deep resolution of a value in a store (as in props/C18.v) *)
Fixpoint deep (fuel : nat) (s : store) (t : tyv) : tyv :=
  match fuel with
  | 0 => t
  | S f => match follow s t with
           | V v => V v
           | O o args => O o (map (deep f s) args)
           end
  end.

(* ---------- explicit stores ---------- *)

(* after instance() of the unary signature: the single alternative has been
   unified with a at once (a := F(b)), the constraint is fulfilled *)
Definition st1u (sc : list nat) (F : nat) : store :=
  mkStore [mkCell false (Some (O F [V 1])) None None 0; mkCell false None None None 0]
          [[]; [0]]
          [mkConstr true (V 0) [O F [V 1]] false true] sc.
(* after applying it to F(t): b has lower bound t (none for Top: above(Top)
   binds at once) and has been fixed to t *)
Definition st3u (sc : list nat) (F t : nat) : store :=
  mkStore [mkCell false (Some (O F [V 1])) None None 0;
           mkCell false (Some (O t [])) (if Nat.eqb t Top then None else Some t) None 0]
          [[]; [0]]
          [mkConstr true (V 0) [O F [V 1]] false true] sc.

(* after instance() of keys: a, b and the wildcard are unresolved and all three
   point to the pending constraint *)
Definition st1k (sc : list nat) (C R : nat) : store :=
  mkStore [mkCell false None None None 0; mkCell false None None None 1; mkCell true None None None 2]
          [[0]; [0]; [0]]
          [mkConstr true (V 0) [O C [V 1]; O R [V 1; V 2]] false false] sc.
(* after applying keys to R(t1, t2): only R(b, _) is left, a := R(t1, t2),
   b := t1, the wildcard has lower bound t2 *)
Definition st3k_R (sc : list nat) (R t1 t2 : nat) : store :=
  mkStore [mkCell false (Some (O R [O t1 []; O t2 []])) None None 0;
           mkCell false (Some (O t1 [])) (Some t1) None 1;
           mkCell false None (Some t2) None 2]
          [[]; []; []]
          [mkConstr true (O R [O t1 []; O t2 []]) [O R [V 1; V 2]] false true] sc.
(* after applying keys to C(t): only C(b) is left, a := C(t), b := t *)
Definition st3k_C (sc : list nat) (C t : nat) : store :=
  mkStore [mkCell false (Some (O C [O t []])) None None 0;
           mkCell false (Some (O t [])) (Some t) None 1;
           mkCell true None None None 2]
          [[]; []; [0]]
          [mkConstr true (O C [O t []]) [O C [V 1]] false true] sc.

(* ---------- concrete types: evaluation, fixing, instance ---------- *)
Section Conc.
  Variable H : hier.

  Definition fix_args (f : nat) :=
    fix go (pl : bool) (vs : list bool) (ps : list tyv) : M unit :=
      match vs, ps with
      | v :: vs', p :: ps' =>
          fix_ty H f (if v then pl else negb pl) p ;;; go pl vs' ps'
      | _, _ => ret tt
      end.

  Lemma fix_ty_O f pl o args s :
    fix_ty H (S f) pl (O o args) s =
    match fix_args f pl (variance H o) args s with
    | MOk _ s' => MOk (O o args) s'
    | MEr e s' => MEr e s'
    end.
  Proof.
    rewrite fix_ty_S. cbn [bindM gets follow follow_f].
    assert (E : forall vs ps s0,
      (fix go (vs : list bool) (ps : list tyv) : M unit :=
         match vs, ps with
         | v :: vs', p :: ps' => fix_ty H f (if v then pl else negb pl) p ;;; go vs' ps'
         | _, _ => ret tt
         end) vs ps s0 = fix_args f pl vs ps s0).
    { induction vs as [|v vs IH]; intros ps s0; [reflexivity|].
      destruct ps as [|p ps]; [reflexivity|]. cbn [fix_args bindM].
      destruct (fix_ty H f (if v then pl else negb pl) p s0); [apply IH|reflexivity]. }
    rewrite E. destruct (fix_args f pl (variance H o) args s); reflexivity.
  Qed.

  Lemma depth_args o args f : ty_depth (TOp o args) < S f -> Forall (fun a => ty_depth a < f) args.
  Proof.
    cbn [ty_depth]. induction args as [|a args IH]; cbn [fold_right]; intros L; constructor.
    - lia.
    - apply IH. lia.
  Qed.

  (* fixing a concrete type changes nothing *)
  Lemma fix_ty_inj x : forall fuel pl s, ty_depth x < fuel ->
    fix_ty H fuel pl (inj x) s = MOk (inj x) s.
  Proof.
    induction x as [o args IH] using ty_ind'. intros fuel pl s L.
    destruct fuel as [|f]; [lia|]. cbn [inj]. rewrite fix_ty_O.
    apply depth_args in L.
    assert (E : forall vs, fix_args f pl vs (map inj args) s = MOk tt s).
    { clear o. induction args as [|a args IHa]; intros vs.
      - destruct vs; reflexivity.
      - destruct vs as [|v vs]; [reflexivity|].
        inversion IH as [|? ? Ha IH']; subst. inversion L as [|? ? La L']; subst.
        cbn [map fix_args bindM]. rewrite Ha by exact La. apply IHa; assumption. }
    now rewrite E.
  Qed.

  Lemma eval_sty_SOp env o args s :
    eval_sty env (SOp o args) s =
    match eval_list env args s with
    | MOk xs s' => MOk (O o xs) s'
    | MEr e s' => MEr e s'
    end.
  Proof.
    cbn [eval_sty bindM]. unfold eval_list.
    match goal with |- match ?a with _ => _ end = match ?b with _ => _ end => change a with b; destruct b end;
      reflexivity.
  Qed.

  Lemma eval_list_cons env a rest s :
    eval_list env (a :: rest) s =
    match eval_sty env a s with
    | MOk x s' => match eval_list env rest s' with
                  | MOk xs s'' => MOk (x :: xs) s''
                  | MEr e s'' => MEr e s''
                  end
    | MEr e s' => MEr e s'
    end.
  Proof.
    unfold eval_list at 1. cbn [bindM]. fold (eval_list env).
    destruct (eval_sty env a s) as [x s'|e s']; [|reflexivity].
    destruct (eval_list env rest s'); reflexivity.
  Qed.

  (* a variable-free schematic type evaluates to the concrete type, store unchanged *)
  Lemma eval_sty_sconc env x : forall s, eval_sty env (sconc x) s = MOk (inj x) s.
  Proof.
    induction x as [o args IH] using ty_ind'. intros s. cbn [sconc inj]. rewrite eval_sty_SOp.
    assert (E : eval_list env (map sconc args) s = MOk (map inj args) s).
    { clear o. induction IH as [|a args Ha _ IHa]; [reflexivity|].
      cbn [map]. now rewrite eval_list_cons, Ha, IHa. }
    now rewrite E.
  Qed.

  (* x.instance() for a concrete x *)
  Lemma instance_conc x fuel s : ty_depth x < fuel ->
    instance H fuel (arg_schema x) s = MOk (inj x) s.
  Proof.
    intros L. unfold instance, arg_schema. cbn [s_n s_body s_constrs fresh_list forM bindM ret].
    rewrite eval_sty_sconc. now apply fix_ty_inj.
  Qed.
End Conc.

Local Arguments fix_args : simpl never.

Lemma run3' H n sig x s0 t1 s1 : ty_depth x < n ->
  instance H n sig s0 = MOk t1 s1 ->
  run_cmds H n (app_prog sig x) 0 [] s0 =
  match apply H n t1 (inj x) true s1 with
  | MOk r s3 => (None, [t1; inj x; r], s3)
  | MEr e s3 => (Some (e, 2), [t1; inj x], s3)
  end.
Proof.
  intros L E1. unfold app_prog. apply (run3 H n sig (arg_schema x) s0 t1 s1 (inj x) s1 E1). now apply instance_conc.
Qed.

(* ---------- the matcher on flat patterns G(v1, ..., vn), vi variables or wildcards ---------- *)
Definition flatp (p : sty) : Prop := match p with SOp _ _ => False | _ => True end.

Section Flat.
  Variable H : hier.
  Hypothesis W : wf_hier H.

  Lemma osub_base_comp t F : variance H t = [] -> t <> Bottom -> variance H F <> [] ->
    op_subtype H false t F = false.
  Proof.
    intros Vt NB VF. apply (osub_false H W); auto.
    - intros ->. now rewrite (var_top H W) in VF.
    - intros A. destruct (Anc_inv H W _ _ A) as [->|(_ & V & _)]; congruence.
  Qed.

  Lemma fargs_flat f d ps : Forall flatp ps ->
    (forall d x p, flatp p -> f d x p = true) ->
    forall vs xs, fargs f d vs xs ps = true.
  Proof.
    intros Fp Hf. induction Fp as [|p ps Hp _ IH]; intros vs xs; [reflexivity|].
    destruct vs as [|v vs]; [reflexivity|]. destruct xs as [|x xs]; [reflexivity|].
    cbn [fargs]. now rewrite Hf, IH.
  Qed.

  Lemma fitsb_dir_flat d x p : flatp p -> fitsb_dir H d x p = true.
  Proof. destruct p; cbn; [reflexivity|reflexivity|contradiction]. Qed.

  (* against a flat pattern with a compound head only the head operator counts *)
  Lemma fitsb_flat ox xs op ps : variance H op <> [] -> Forall flatp ps ->
    fitsb H (TOp ox xs) (SOp op ps) = Nat.eqb ox Bottom || Nat.eqb ox op.
  Proof.
    intros Vop Fp. unfold fitsb. cbn [fitsb_dir].
    assert (NT : Nat.eqb op Top = false).
    { apply Nat.eqb_neq. intros ->. now rewrite (var_top H W) in Vop. }
    rewrite NT, orb_false_r.
    destruct (Nat.eqb_spec ox Bottom) as [EB|NB]; [reflexivity|]. cbn [orb].
    unfold arity. destruct (Nat.eqb_spec (length (variance H ox)) 0) as [E0|N0].
    - assert (Vx : variance H ox = []) by (destruct (variance H ox); [reflexivity|discriminate]).
      rewrite (osub_base_comp ox op Vx NB Vop), orb_false_r. reflexivity.
    - destruct (Nat.eqb_spec ox op) as [->|N]; cbn [negb]; [|reflexivity].
      apply fargs_flat; auto. intros. now apply fitsb_dir_flat.
  Qed.
End Flat.

(* ---------- symbolic execution ---------- *)
Section Pat.
Variable H : hier.
Hypothesis W : wf_hier H.

Ltac facts :=
  progress (unfold osub, Top, Bottom;
    rewrite ?(strict_irrefl H W), ?(osub_top' H), ?(osub_bot' H), ?(osub_top_l' H W), ?(osub_to_bot' H W),
            ?(osub_strict_top_l' H W), ?(basic_top' H W), ?(basic_bot' H W), ?(vr_top' H W), ?(vr_bot' H W), ?Nat.eqb_refl;
    repeat match goal with
    | [E : variance _ _ = _ |- _] => rewrite E
    | [E : basic _ _ = _ |- _] => rewrite E
    | [E : op_subtype _ _ _ _ = _ |- _] => rewrite E
    | [E : Nat.eqb _ _ = _ |- _] => rewrite E
    end).
Ltac bump_any := match goal with [E : ?n = S ?m |- _] => is_var n; is_var m; c06_bump1 n (S m) E end.
Ltac run := cbn; repeat (first [bump_any|facts]; cbn).

Lemma nonbasic o : variance H o <> [] -> basic H o = false.
Proof. intros V. unfold basic, arity. destruct (variance H o); [congruence|reflexivity]. Qed.

(* a compound operator is none of Top, Bottom *)
Lemma comp_SS o : variance H o <> [] -> exists o', o = S (S o').
Proof.
  intros V. destruct o as [|[|o']]; [| |eauto].
  - now rewrite (vr_top' H W) in V.
  - now rewrite (vr_bot' H W) in V.
Qed.

(* ----- the unary family ----- *)

Lemma stage1u F n0 n1 n2 n3 n4 n5 n6 n7 n8 sc :
  variance H (S (S F)) = [true] ->
  n0 = S n1 -> n1 = S n2 -> n2 = S n3 -> n3 = S n4 -> n4 = S n5 -> n5 = S n6 -> n6 = S n7 -> n7 = S n8 ->
  instance H n0 (unary_schema (S (S F))) (empty_store sc) = MOk (O Function [V 0; V 1]) (st1u sc (S (S F))).
Proof.
  intros VF E0 E1 E2 E3 E4 E5 E6 E7. pose proof (wf_fun H W) as Vf.
  assert (BF : basic H (S (S F)) = false) by (apply nonbasic; rewrite VF; discriminate).
  unfold unary_schema, unary_alts.
  run. reflexivity.
Qed.

(* applied to F(t), t a base type other than Bottom *)
Lemma stage3u_ok F t n0 n1 n2 n3 n4 n5 n6 n7 n8 sc :
  variance H (S (S F)) = [true] -> variance H t = [] -> t <> Bottom ->
  n0 = S n1 -> n1 = S n2 -> n2 = S n3 -> n3 = S n4 -> n4 = S n5 -> n5 = S n6 -> n6 = S n7 -> n7 = S n8 ->
  apply H n0 (O Function [V 0; V 1]) (O (S (S F)) [O t []]) true (st1u sc (S (S F))) =
  MOk (O t []) (st3u sc (S (S F)) t).
Proof.
  intros VF Vt NB E0 E1 E2 E3 E4 E5 E6 E7. pose proof (wf_fun H W) as Vf.
  assert (BF : basic H (S (S F)) = false) by (apply nonbasic; rewrite VF; discriminate).
  pose proof (basic_of H _ Vt) as Bt.
  destruct t as [|[|t']]; [|now elim NB|]; unfold st1u; run; reflexivity.
Qed.

(* applied to F(Bottom): accepted, but b is NOT determined (unify skips Bottom) *)
Lemma stage3u_bot F n0 n1 n2 n3 n4 n5 n6 n7 n8 sc :
  variance H (S (S F)) = [true] ->
  n0 = S n1 -> n1 = S n2 -> n2 = S n3 -> n3 = S n4 -> n4 = S n5 -> n5 = S n6 -> n6 = S n7 -> n7 = S n8 ->
  apply H n0 (O Function [V 0; V 1]) (O (S (S F)) [O Bottom []]) true (st1u sc (S (S F))) =
  MOk (V 1) (st1u sc (S (S F))).
Proof.
  intros VF E0 E1 E2 E3 E4 E5 E6 E7. pose proof (wf_fun H W) as Vf.
  assert (BF : basic H (S (S F)) = false) by (apply nonbasic; rewrite VF; discriminate).
  unfold st1u; run; reflexivity.
Qed.

(* applied to anything whose head is a base type other than Bottom *)
Lemma stage3u_base F t xs n0 n1 n2 n3 n4 n5 n6 n7 n8 sc :
  variance H (S (S F)) = [true] -> variance H t = [] -> t <> Bottom ->
  n0 = S n1 -> n1 = S n2 -> n2 = S n3 -> n3 = S n4 -> n4 = S n5 -> n5 = S n6 -> n6 = S n7 -> n7 = S n8 ->
  apply H n0 (O Function [V 0; V 1]) (O t xs) true (st1u sc (S (S F))) =
  MEr ESubtypeMismatch (st1u sc (S (S F))).
Proof.
  intros VF Vt NB E0 E1 E2 E3 E4 E5 E6 E7. pose proof (wf_fun H W) as Vf.
  assert (BF : basic H (S (S F)) = false) by (apply nonbasic; rewrite VF; discriminate).
  pose proof (basic_of H _ Vt) as Bt.
  assert (NS : op_subtype H false t (S (S F)) = false)
    by (apply (osub_base_comp H W); auto; rewrite VF; discriminate).
  destruct t as [|[|t']]; [|now elim NB|]; unfold st1u; run; reflexivity.
Qed.

(* applied to anything whose head is another compound operator *)
Lemma stage3u_comp F g xs n0 n1 n2 n3 n4 n5 n6 n7 n8 sc :
  variance H (S (S F)) = [true] -> variance H g <> [] -> g <> S (S F) ->
  n0 = S n1 -> n1 = S n2 -> n2 = S n3 -> n3 = S n4 -> n4 = S n5 -> n5 = S n6 -> n6 = S n7 -> n7 = S n8 ->
  apply H n0 (O Function [V 0; V 1]) (O g xs) true (st1u sc (S (S F))) =
  MEr ETypeMismatch (st1u sc (S (S F))).
Proof.
  intros VF Vg NE E0 E1 E2 E3 E4 E5 E6 E7. pose proof (wf_fun H W) as Vf.
  assert (BF : basic H (S (S F)) = false) by (apply nonbasic; rewrite VF; discriminate).
  pose proof (nonbasic _ Vg) as Bg.
  destruct (comp_SS _ Vg) as (g' & ->).
  assert (NE' : Nat.eqb g' F = false) by (apply Nat.eqb_neq; congruence).
  unfold st1u; run; reflexivity.
Qed.

(* ----- keys ----- *)

Lemma stage1k C R n0 n1 n2 n3 n4 n5 n6 n7 n8 sc :
  variance H (S (S C)) = [true] -> variance H (S (S R)) = [true; true] ->
  Nat.eqb C R = false -> Nat.eqb R C = false ->
  n0 = S n1 -> n1 = S n2 -> n2 = S n3 -> n3 = S n4 -> n4 = S n5 -> n5 = S n6 -> n6 = S n7 -> n7 = S n8 ->
  instance H n0 (keys_schema (S (S C)) (S (S R))) (empty_store sc) =
  MOk (O Function [V 0; O (S (S C)) [V 1]]) (st1k sc (S (S C)) (S (S R))).
Proof.
  intros VC VR NCR NRC E0 E1 E2 E3 E4 E5 E6 E7. pose proof (wf_fun H W) as Vf.
  assert (BC : basic H (S (S C)) = false) by (apply nonbasic; rewrite VC; discriminate).
  assert (BR : basic H (S (S R)) = false) by (apply nonbasic; rewrite VR; discriminate).
  unfold keys_schema, keys_alts.
  run. reflexivity.
Qed.

Lemma stage3k_R C R t1 t2 n0 n1 n2 n3 n4 n5 n6 n7 n8 n9 sc :
  variance H (S (S C)) = [true] -> variance H (S (S R)) = [true; true] ->
  Nat.eqb C R = false -> Nat.eqb R C = false -> Nat.eqb C 1 = false ->
  variance H (S (S t1)) = [] -> variance H (S (S t2)) = [] ->
  n0 = S n1 -> n1 = S n2 -> n2 = S n3 -> n3 = S n4 -> n4 = S n5 -> n5 = S n6 -> n6 = S n7 -> n7 = S n8 -> n8 = S n9 ->
  apply H n0 (O Function [V 0; O (S (S C)) [V 1]]) (O (S (S R)) [O (S (S t1)) []; O (S (S t2)) []]) true
        (st1k sc (S (S C)) (S (S R))) =
  MOk (O (S (S C)) [V 1]) (st3k_R sc (S (S R)) (S (S t1)) (S (S t2))).
Proof.
  intros VC VR NCR NRC NCF Vt1 Vt2 E0 E1 E2 E3 E4 E5 E6 E7 E8. pose proof (wf_fun H W) as Vf.
  assert (BC : basic H (S (S C)) = false) by (apply nonbasic; rewrite VC; discriminate).
  assert (BR : basic H (S (S R)) = false) by (apply nonbasic; rewrite VR; discriminate).
  pose proof (basic_of H _ Vt1) as Bt1. pose proof (basic_of H _ Vt2) as Bt2.
  unfold st1k. run. reflexivity.
Qed.

Lemma stage3k_C C R t n0 n1 n2 n3 n4 n5 n6 n7 n8 n9 sc :
  variance H (S (S C)) = [true] -> variance H (S (S R)) = [true; true] ->
  Nat.eqb C R = false -> Nat.eqb R C = false -> Nat.eqb C 1 = false ->
  variance H (S (S t)) = [] ->
  n0 = S n1 -> n1 = S n2 -> n2 = S n3 -> n3 = S n4 -> n4 = S n5 -> n5 = S n6 -> n6 = S n7 -> n7 = S n8 -> n8 = S n9 ->
  apply H n0 (O Function [V 0; O (S (S C)) [V 1]]) (O (S (S C)) [O (S (S t)) []]) true
        (st1k sc (S (S C)) (S (S R))) =
  MOk (O (S (S C)) [V 1]) (st3k_C sc (S (S C)) (S (S t))).
Proof.
  intros VC VR NCR NRC NCF Vt E0 E1 E2 E3 E4 E5 E6 E7 E8. pose proof (wf_fun H W) as Vf.
  assert (BC : basic H (S (S C)) = false) by (apply nonbasic; rewrite VC; discriminate).
  assert (BR : basic H (S (S R)) = false) by (apply nonbasic; rewrite VR; discriminate).
  pose proof (basic_of H _ Vt) as Bt.
  unfold st1k. run. reflexivity.
Qed.

(* applied to a base type other than Bottom: no alternative survives the filter *)
Lemma stage3k_base C R t n0 n1 n2 n3 n4 n5 n6 n7 n8 n9 sc :
  variance H (S (S C)) = [true] -> variance H (S (S R)) = [true; true] ->
  Nat.eqb C R = false -> Nat.eqb R C = false -> Nat.eqb C 1 = false ->
  variance H t = [] -> t <> Bottom ->
  n0 = S n1 -> n1 = S n2 -> n2 = S n3 -> n3 = S n4 -> n4 = S n5 -> n5 = S n6 -> n6 = S n7 -> n7 = S n8 -> n8 = S n9 ->
  exists s', apply H n0 (O Function [V 0; O (S (S C)) [V 1]]) (O t []) true (st1k sc (S (S C)) (S (S R))) =
             MEr EConstraintViolation s'.
Proof.
  intros VC VR NCR NRC NCF Vt NB E0 E1 E2 E3 E4 E5 E6 E7 E8. pose proof (wf_fun H W) as Vf.
  assert (BC : basic H (S (S C)) = false) by (apply nonbasic; rewrite VC; discriminate).
  assert (BR : basic H (S (S R)) = false) by (apply nonbasic; rewrite VR; discriminate).
  pose proof (basic_of H _ Vt) as Bt.
  destruct t as [|[|t']]; [|now elim NB|]; eexists; unfold st1k; run; reflexivity.
Qed.

End Pat.
