(* C06, engine link for PATTERN alternatives (second sentence of the property:
   "when exactly one alternative fits, the variables it mentions are determined
   by it and the result is the correspondingly instantiated result type").

   On the faithful fuelled model of Infer/Engine.v, for every well-formed
   hierarchy, by symbolic execution (method of FitsEngine.v / FitsEngineList.v:
   fuel kept as a chain n0 = S n1, ..., only the call in head position is
   unfolded by one of the equations [unify_S] ... [fix_ty_S]):

   - the unary family   a ** b      [a << [F(b)]]             (F unary covariant)
   - the tutorial `keys` a ** C(b)  [a << [C(b); R(b, _)]]    (C unary, R binary, covariant)

   applied to concrete arguments.  The runs are cut in three stages (instance of
   the signature, instance of the argument, apply) with EXPLICIT intermediate and
   final stores ([st1u], [st3u], [st1k], [st3k_R], [st3k_C]), so that everything
   observable (result, bindings, bounds, what is left of the constraint) can be
   read off by computation.  The instance of an arbitrary concrete argument is
   handled by induction ([instance_conc]). *)
From Coq Require Import List Arith Bool Lia.
Import ListNotations.
From TF Require Import Base.Hier Base.Ty Sub.Match Sub.SubSpec Sub.SubProofs
  Infer.Store Infer.Engine Infer.Run Infer.Fits Infer.FitsEngine Infer.FitsEngineList.

(* evaluation control, as in FitsEngine.v *)
Local Arguments op_subtype : simpl never.
Local Arguments bindM {A B} m f s /.
Local Arguments gets {A} f s /.
Local Arguments ret {A} a s /.
Local Arguments fail {A} e s /.
Local Arguments modify f s /.
Local Arguments lift {A} r s /.
Local Arguments fresh wild s /.
Local Arguments next_choice s /.
Local Arguments unify : simpl never.
Local Arguments bind : simpl never.
Local Arguments above : simpl never.
Local Arguments below : simpl never.
Local Arguments check_constraints : simpl never.
Local Arguments fulfill : simpl never.
Local Arguments minimize : simpl never.
Local Arguments fix_ty : simpl never.
(* stores are kept in explicit form during the run: chains of set_* make the
   kernel's conversion check at Qed exponential *)
Local Arguments set_cell s v c /.
Local Arguments set_cset s i l /.
Local Arguments set_constr s i k /.

(* ---------- the programs ---------- *)

Definition unary_alts (F : nat) : list sty := [SOp F [SVar 1]].
Definition unary_schema (F : nat) : schema :=
  mkSchema 2 (SOp Function [SVar 0; SVar 1]) [SCElim (SVar 0) (unary_alts F)].
Definition keys_alts (C R : nat) : list sty := [SOp C [SVar 1]; SOp R [SVar 1; SWild]].
Definition keys_schema (C R : nat) : schema :=
  mkSchema 2 (SOp Function [SVar 0; SOp C [SVar 1]]) [SCElim (SVar 0) (keys_alts C R)].
(* the argument is the instance of a variable-free schema *)
Definition arg_schema (x : ty) : schema := mkSchema 0 (sconc x) [].
Definition app_prog (sig : schema) (x : ty) : list cmd :=
  [CInst sig; CInst (arg_schema x); CApply 0 1 true].

(* deep resolution of a value in a store (as in props/C18.v) *)
Fixpoint deep (fuel : nat) (s : store) (t : tyv) : tyv :=
  match fuel with
  | 0 => t
  | S f => match follow s t with
           | V v => V v
           | O o args => O o (map (deep f s) args)
           end
  end.

(* ---------- explicit stores ---------- *)

(* after instance() of the unary signature: the single alternative has been
   unified with a at once (a := F(b)), the constraint is fulfilled *)
Definition st1u (sc : list nat) (F : nat) : store :=
  mkStore [mkCell false (Some (O F [V 1])) None None 0; mkCell false None None None 0]
          [[]; [0]]
          [mkConstr true (V 0) [O F [V 1]] false true] sc.
(* after applying it to F(t): b has lower bound t (none for Top: above(Top)
   binds at once) and has been fixed to t *)
Definition st3u (sc : list nat) (F t : nat) : store :=
  mkStore [mkCell false (Some (O F [V 1])) None None 0;
           mkCell false (Some (O t [])) (if Nat.eqb t Top then None else Some t) None 0]
          [[]; [0]]
          [mkConstr true (V 0) [O F [V 1]] false true] sc.

(* after instance() of keys: a, b and the wildcard are unresolved and all three
   point to the pending constraint *)
Definition st1k (sc : list nat) (C R : nat) : store :=
  mkStore [mkCell false None None None 0; mkCell false None None None 1; mkCell true None None None 2]
          [[0]; [0]; [0]]
          [mkConstr true (V 0) [O C [V 1]; O R [V 1; V 2]] false false] sc.
(* after applying keys to R(t1, t2): only R(b, _) is left, a := R(t1, t2),
   b := t1, the wildcard has lower bound t2 *)
Definition st3k_R (sc : list nat) (R t1 t2 : nat) : store :=
  mkStore [mkCell false (Some (O R [O t1 []; O t2 []])) None None 0;
           mkCell false (Some (O t1 [])) (Some t1) None 1;
           mkCell false None (Some t2) None 2]
          [[]; []; []]
          [mkConstr true (O R [O t1 []; O t2 []]) [O R [V 1; V 2]] false true] sc.
(* after applying keys to C(t): only C(b) is left, a := C(t), b := t *)
Definition st3k_C (sc : list nat) (C t : nat) : store :=
  mkStore [mkCell false (Some (O C [O t []])) None None 0;
           mkCell false (Some (O t [])) (Some t) None 1;
           mkCell true None None None 2]
          [[]; []; [0]]
          [mkConstr true (O C [O t []]) [O C [V 1]] false true] sc.

(* ---------- concrete types: evaluation, fixing, instance ---------- *)
Section Conc.
  Variable H : hier.

  Definition fix_args (f : nat) :=
    fix go (pl : bool) (vs : list bool) (ps : list tyv) : M unit :=
      match vs, ps with
      | v :: vs', p :: ps' =>
          fix_ty H f (if v then pl else negb pl) p ;;; go pl vs' ps'
      | _, _ => ret tt
      end.

  Lemma fix_ty_O f pl o args s :
    fix_ty H (S f) pl (O o args) s =
    match fix_args f pl (variance H o) args s with
    | MOk _ s' => MOk (O o args) s'
    | MEr e s' => MEr e s'
    end.
  Proof.
    rewrite fix_ty_S. cbn [bindM gets follow follow_f].
    assert (E : forall vs ps s0,
      (fix go (vs : list bool) (ps : list tyv) : M unit :=
         match vs, ps with
         | v :: vs', p :: ps' => fix_ty H f (if v then pl else negb pl) p ;;; go vs' ps'
         | _, _ => ret tt
         end) vs ps s0 = fix_args f pl vs ps s0).
    { induction vs as [|v vs IH]; intros ps s0; [reflexivity|].
      destruct ps as [|p ps]; [reflexivity|]. cbn [fix_args bindM].
      destruct (fix_ty H f (if v then pl else negb pl) p s0); [apply IH|reflexivity]. }
    rewrite E. destruct (fix_args f pl (variance H o) args s); reflexivity.
  Qed.

  Lemma depth_args o args f : ty_depth (TOp o args) < S f -> Forall (fun a => ty_depth a < f) args.
  Proof.
    cbn [ty_depth]. induction args as [|a args IH]; cbn [fold_right]; intros L; constructor.
    - lia.
    - apply IH. lia.
  Qed.

  (* fixing a concrete type changes nothing *)
  Lemma fix_ty_inj x : forall fuel pl s, ty_depth x < fuel ->
    fix_ty H fuel pl (inj x) s = MOk (inj x) s.
  Proof.
    induction x as [o args IH] using ty_ind'. intros fuel pl s L.
    destruct fuel as [|f]; [lia|]. cbn [inj]. rewrite fix_ty_O.
    apply depth_args in L.
    assert (E : forall vs, fix_args f pl vs (map inj args) s = MOk tt s).
    { clear o. induction args as [|a args IHa]; intros vs.
      - destruct vs; reflexivity.
      - destruct vs as [|v vs]; [reflexivity|].
        inversion IH as [|? ? Ha IH']; subst. inversion L as [|? ? La L']; subst.
        cbn [map fix_args bindM]. rewrite Ha by exact La. apply IHa; assumption. }
    now rewrite E.
  Qed.

  Lemma eval_sty_SOp env o args s :
    eval_sty env (SOp o args) s =
    match eval_list env args s with
    | MOk xs s' => MOk (O o xs) s'
    | MEr e s' => MEr e s'
    end.
  Proof.
    cbn [eval_sty bindM]. unfold eval_list.
    match goal with |- match ?a with _ => _ end = match ?b with _ => _ end => change a with b; destruct b end;
      reflexivity.
  Qed.

  Lemma eval_list_cons env a rest s :
    eval_list env (a :: rest) s =
    match eval_sty env a s with
    | MOk x s' => match eval_list env rest s' with
                  | MOk xs s'' => MOk (x :: xs) s''
                  | MEr e s'' => MEr e s''
                  end
    | MEr e s' => MEr e s'
    end.
  Proof.
    unfold eval_list at 1. cbn [bindM]. fold (eval_list env).
    destruct (eval_sty env a s) as [x s'|e s']; [|reflexivity].
    destruct (eval_list env rest s'); reflexivity.
  Qed.

  (* a variable-free schematic type evaluates to the concrete type, store unchanged *)
  Lemma eval_sty_sconc env x : forall s, eval_sty env (sconc x) s = MOk (inj x) s.
  Proof.
    induction x as [o args IH] using ty_ind'. intros s. cbn [sconc inj]. rewrite eval_sty_SOp.
    assert (E : eval_list env (map sconc args) s = MOk (map inj args) s).
    { clear o. induction IH as [|a args Ha _ IHa]; [reflexivity|].
      cbn [map]. now rewrite eval_list_cons, Ha, IHa. }
    now rewrite E.
  Qed.

  (* x.instance() for a concrete x *)
  Lemma instance_conc x fuel s : ty_depth x < fuel ->
    instance H fuel (arg_schema x) s = MOk (inj x) s.
  Proof.
    intros L. unfold instance, arg_schema. cbn [s_n s_body s_constrs fresh_list forM bindM ret].
    rewrite eval_sty_sconc. now apply fix_ty_inj.
  Qed.
  (* the occurs check of an unresolved, unbounded variable in a concrete type *)
  Lemma match_OV_unbounded f s o xs v :
    c_bound (cell_of s v) = None -> c_lower (cell_of s v) = None -> c_upper (cell_of s v) = None ->
    match_f H (S f) s false false (O o xs) (V v) = Ok None.
  Proof.
    intros B Lo Up. cbn [match_f]. rewrite follow_O, (follow_unbound s v B). cbn beta iota zeta.
    rewrite Lo, Up. reflexivity.
  Qed.

  Definition occ_args (f : nat) (s : store) (b : tyv) :=
    fix go (l : list tyv) : res bool :=
      match l with
      | [] => Ok false
      | t :: r => match occurs_f H f s t b with
                  | Er e => Er e
                  | Ok true => Ok true
                  | Ok false => go r
                  end
      end.

  Lemma occurs_S f s a0 b0 :
    occurs_f H (S f) s a0 b0 =
    match match_f H f s false false (follow s a0) (follow s b0) with
    | Er e => Er e
    | Ok (Some true) => Ok true
    | Ok _ => match follow s a0 with
              | O _ args => occ_args f s (follow s b0) args
              | V _ => Ok false
              end
    end.
  Proof. reflexivity. Qed.

  Lemma occurs_inj x : forall fuel s v, ty_depth x + 2 <= fuel ->
    c_bound (cell_of s v) = None -> c_lower (cell_of s v) = None -> c_upper (cell_of s v) = None ->
    occurs_f H fuel s (inj x) (V v) = Ok false.
  Proof.
    induction x as [o args IH] using ty_ind'. intros fuel s v L B Lo Up.
    destruct fuel as [|[|f]]; try lia. cbn [inj].
    assert (LA : Forall (fun a => ty_depth a + 2 <= S f) args).
    { assert (LD : ty_depth (TOp o args) < S f) by lia.
      apply depth_args in LD. eapply Forall_impl; [|exact LD]. cbn beta. intros. lia. }
    rewrite occurs_S, follow_O, (follow_unbound s v B).
    rewrite match_OV_unbounded by assumption.
    clear L. induction args as [|a args IHa]; [reflexivity|].
    inversion IH as [|? ? Ha IH']; subst. inversion LA as [|? ? La LA']; subst.
    cbn [map occ_args]. rewrite Ha by assumption. apply IHa; assumption.
  Qed.

  Lemma vars_inj x : forall fuel s acc, ty_depth x < fuel -> vars_f fuel s (inj x) acc = Ok acc.
  Proof.
    induction x as [o args IH] using ty_ind'. intros fuel s acc L.
    destruct fuel as [|f]; [lia|]. apply depth_args in L. cbn [inj vars_f]. rewrite follow_O.
    revert acc. induction args as [|a args IHa]; intros acc; [reflexivity|].
    inversion IH as [|? ? Ha IH']; subst. inversion L as [|? ? La L']; subst.
    cbn [map]. rewrite Ha by assumption. apply IHa; assumption.
  Qed.

  Lemma occurs_inj' o args fuel s v : ty_depth (TOp o args) + 2 <= fuel ->
    c_bound (cell_of s v) = None -> c_lower (cell_of s v) = None -> c_upper (cell_of s v) = None ->
    occurs_f H fuel s (O o (map inj args)) (V v) = Ok false.
  Proof. exact (occurs_inj (TOp o args) fuel s v). Qed.

  Lemma vars_inj' o args fuel s acc : ty_depth (TOp o args) < fuel ->
    vars_f fuel s (O o (map inj args)) acc = Ok acc.
  Proof. exact (vars_inj (TOp o args) fuel s acc). Qed.
End Conc.

Local Arguments fix_args : simpl never.

Lemma run3' H n sig x s0 t1 s1 : ty_depth x < n ->
  instance H n sig s0 = MOk t1 s1 ->
  run_cmds H n (app_prog sig x) 0 [] s0 =
  match apply H n t1 (inj x) true s1 with
  | MOk r s3 => (None, [t1; inj x; r], s3)
  | MEr e s3 => (Some (e, 2), [t1; inj x], s3)
  end.
Proof.
  intros L E1. unfold app_prog. apply (run3 H n sig (arg_schema x) s0 t1 s1 (inj x) s1 E1). now apply instance_conc.
Qed.

(* ---------- the matcher on flat patterns G(v1, ..., vn), vi variables or wildcards ---------- *)
Definition flatp (p : sty) : Prop := match p with SOp _ _ => False | _ => True end.

Section Flat.
  Variable H : hier.
  Hypothesis W : wf_hier H.

  Lemma osub_base_comp t F : variance H t = [] -> t <> Bottom -> variance H F <> [] ->
    op_subtype H false t F = false.
  Proof.
    intros Vt NB VF. apply (osub_false H W); auto.
    - intros ->. now rewrite (var_top H W) in VF.
    - intros A. destruct (Anc_inv H W _ _ A) as [->|(_ & V & _)]; congruence.
  Qed.

  Lemma fargs_flat f d ps : Forall flatp ps ->
    (forall d x p, flatp p -> f d x p = true) ->
    forall vs xs, fargs f d vs xs ps = true.
  Proof.
    intros Fp Hf. induction Fp as [|p ps Hp _ IH]; intros vs xs; [reflexivity|].
    destruct vs as [|v vs]; [reflexivity|]. destruct xs as [|x xs]; [reflexivity|].
    cbn [fargs]. now rewrite Hf, IH.
  Qed.

  Lemma fitsb_dir_flat d x p : flatp p -> fitsb_dir H d x p = true.
  Proof. destruct p; cbn; [reflexivity|reflexivity|contradiction]. Qed.

  (* against a flat pattern with a compound head only the head operator counts *)
  Lemma fitsb_flat ox xs op ps : variance H op <> [] -> Forall flatp ps ->
    fitsb H (TOp ox xs) (SOp op ps) = Nat.eqb ox Bottom || Nat.eqb ox op.
  Proof.
    intros Vop Fp. unfold fitsb. cbn [fitsb_dir].
    assert (NT : Nat.eqb op Top = false).
    { apply Nat.eqb_neq. intros ->. now rewrite (var_top H W) in Vop. }
    rewrite NT, orb_false_r.
    destruct (Nat.eqb_spec ox Bottom) as [EB|NB]; [reflexivity|]. cbn [orb].
    unfold arity. destruct (Nat.eqb_spec (length (variance H ox)) 0) as [E0|N0].
    - assert (Vx : variance H ox = []) by (destruct (variance H ox); [reflexivity|discriminate]).
      rewrite (osub_base_comp ox op Vx NB Vop), orb_false_r. reflexivity.
    - destruct (Nat.eqb_spec ox op) as [->|N]; cbn [negb]; [|reflexivity].
      apply fargs_flat; auto. intros. now apply fitsb_dir_flat.
  Qed.
End Flat.

(* like c06_bump1, but the occurs check and the variable collection are left
   alone (they are rewritten with [occurs_inj'] / [vars_inj'] when the argument
   is an arbitrary concrete type) *)
Ltac c06p_bump1 n m En :=
  match goal with
  | |- context [unify ?H n ?a ?b ?c ?d ?e ?s] => replace (unify H n a b c d e s) with (unify H m a b c d e s) by (rewrite En; reflexivity); rewrite unify_S
  | |- context [bind ?H n ?a ?b ?s] => replace (bind H n a b s) with (bind H m a b s) by (rewrite En; reflexivity); rewrite bind_S
  | |- context [above ?H n ?a ?b ?s] => replace (above H n a b s) with (above H m a b s) by (rewrite En; reflexivity); rewrite above_S
  | |- context [below ?H n ?a ?b ?s] => replace (below H n a b s) with (below H m a b s) by (rewrite En; reflexivity); rewrite below_S
  | |- context [check_constraints ?H n ?a ?s] => replace (check_constraints H n a s) with (check_constraints H m a s) by (rewrite En; reflexivity); rewrite check_constraints_S
  | |- context [fulfill ?H n ?a ?s] => replace (fulfill H n a s) with (fulfill H m a s) by (rewrite En; reflexivity); rewrite fulfill_S
  | |- context [minimize ?H n ?a ?s] => replace (minimize H n a s) with (minimize H m a s) by (rewrite En; reflexivity); rewrite minimize_S
  | |- context [fix_ty ?H n ?a ?b ?s] => replace (fix_ty H n a b s) with (fix_ty H m a b s) by (rewrite En; reflexivity); rewrite fix_ty_S
  | |- context [match_f ?H n ?s ?a ?b ?c ?d] => replace (match_f H n s a b c d) with (match_f H m s a b c d) by (rewrite En; reflexivity)
  end.

(* ---------- symbolic execution ---------- *)
Section Pat.
Variable H : hier.
Hypothesis W : wf_hier H.

Ltac facts :=
  progress (unfold osub, Top, Bottom;
    rewrite ?(strict_irrefl H W), ?(osub_top' H), ?(osub_bot' H), ?(osub_top_l' H W), ?(osub_to_bot' H W),
            ?(osub_strict_top_l' H W), ?(basic_top' H W), ?(basic_bot' H W), ?(vr_top' H W), ?(vr_bot' H W), ?Nat.eqb_refl;
    repeat match goal with
    | [E : variance _ _ = _ |- _] => rewrite E
    | [E : basic _ _ = _ |- _] => rewrite E
    | [E : op_subtype _ _ _ _ = _ |- _] => rewrite E
    | [E : Nat.eqb _ _ = _ |- _] => rewrite E
    end).
Ltac bump_any := match goal with [E : ?n = S ?m |- _] => is_var n; is_var m; c06_bump1 n (S m) E end.
Ltac run := cbn; repeat (first [bump_any|facts]; cbn).
Ltac bump_any' := match goal with [E : ?n = S ?m |- _] => is_var n; is_var m; c06p_bump1 n (S m) E end.
Ltac run' := cbn; repeat (first [bump_any'|facts]; cbn).

Lemma nonbasic o : variance H o <> [] -> basic H o = false.
Proof. intros V. unfold basic, arity. destruct (variance H o); [congruence|reflexivity]. Qed.

(* a compound operator is none of Top, Bottom *)
Lemma comp_SS o : variance H o <> [] -> exists o', o = S (S o').
Proof.
  intros V. destruct o as [|[|o']]; [| |eauto].
  - now rewrite (vr_top' H W) in V.
  - now rewrite (vr_bot' H W) in V.
Qed.

(* ----- the unary family ----- *)

Lemma stage1u F n0 n1 n2 n3 n4 n5 n6 n7 n8 sc :
  variance H (S (S F)) = [true] ->
  n0 = S n1 -> n1 = S n2 -> n2 = S n3 -> n3 = S n4 -> n4 = S n5 -> n5 = S n6 -> n6 = S n7 -> n7 = S n8 ->
  instance H n0 (unary_schema (S (S F))) (empty_store sc) = MOk (O Function [V 0; V 1]) (st1u sc (S (S F))).
Proof.
  intros VF E0 E1 E2 E3 E4 E5 E6 E7. pose proof (wf_fun H W) as Vf.
  assert (BF : basic H (S (S F)) = false) by (apply nonbasic; rewrite VF; discriminate).
  unfold unary_schema, unary_alts.
  run. reflexivity.
Qed.

(* applied to F(t), t a base type other than Bottom *)
Lemma stage3u_ok F t n0 n1 n2 n3 n4 n5 n6 n7 n8 sc :
  variance H (S (S F)) = [true] -> variance H t = [] -> t <> Bottom ->
  n0 = S n1 -> n1 = S n2 -> n2 = S n3 -> n3 = S n4 -> n4 = S n5 -> n5 = S n6 -> n6 = S n7 -> n7 = S n8 ->
  apply H n0 (O Function [V 0; V 1]) (O (S (S F)) [O t []]) true (st1u sc (S (S F))) =
  MOk (O t []) (st3u sc (S (S F)) t).
Proof.
  intros VF Vt NB E0 E1 E2 E3 E4 E5 E6 E7. pose proof (wf_fun H W) as Vf.
  assert (BF : basic H (S (S F)) = false) by (apply nonbasic; rewrite VF; discriminate).
  pose proof (basic_of H _ Vt) as Bt.
  destruct t as [|[|t']]; [|now elim NB|]; unfold st1u; run; reflexivity.
Qed.

(* applied to F(Bottom): accepted, but b is NOT determined (unify skips Bottom) *)
Lemma stage3u_bot F n0 n1 n2 n3 n4 n5 n6 n7 n8 sc :
  variance H (S (S F)) = [true] ->
  n0 = S n1 -> n1 = S n2 -> n2 = S n3 -> n3 = S n4 -> n4 = S n5 -> n5 = S n6 -> n6 = S n7 -> n7 = S n8 ->
  apply H n0 (O Function [V 0; V 1]) (O (S (S F)) [O Bottom []]) true (st1u sc (S (S F))) =
  MOk (V 1) (st1u sc (S (S F))).
Proof.
  intros VF E0 E1 E2 E3 E4 E5 E6 E7. pose proof (wf_fun H W) as Vf.
  assert (BF : basic H (S (S F)) = false) by (apply nonbasic; rewrite VF; discriminate).
  unfold st1u; run; reflexivity.
Qed.

(* applied to anything whose head is a base type other than Bottom *)
Lemma stage3u_base F t xs n0 n1 n2 n3 n4 n5 n6 n7 n8 sc :
  variance H (S (S F)) = [true] -> variance H t = [] -> t <> Bottom ->
  n0 = S n1 -> n1 = S n2 -> n2 = S n3 -> n3 = S n4 -> n4 = S n5 -> n5 = S n6 -> n6 = S n7 -> n7 = S n8 ->
  apply H n0 (O Function [V 0; V 1]) (O t xs) true (st1u sc (S (S F))) =
  MEr ESubtypeMismatch (st1u sc (S (S F))).
Proof.
  intros VF Vt NB E0 E1 E2 E3 E4 E5 E6 E7. pose proof (wf_fun H W) as Vf.
  assert (BF : basic H (S (S F)) = false) by (apply nonbasic; rewrite VF; discriminate).
  pose proof (basic_of H _ Vt) as Bt.
  assert (NS : op_subtype H false t (S (S F)) = false)
    by (apply (osub_base_comp H W); auto; rewrite VF; discriminate).
  destruct t as [|[|t']]; [|now elim NB|]; unfold st1u; run; reflexivity.
Qed.

(* applied to anything whose head is another compound operator *)
Lemma stage3u_comp F g xs n0 n1 n2 n3 n4 n5 n6 n7 n8 sc :
  variance H (S (S F)) = [true] -> variance H g <> [] -> g <> S (S F) ->
  n0 = S n1 -> n1 = S n2 -> n2 = S n3 -> n3 = S n4 -> n4 = S n5 -> n5 = S n6 -> n6 = S n7 -> n7 = S n8 ->
  apply H n0 (O Function [V 0; V 1]) (O g xs) true (st1u sc (S (S F))) =
  MEr ETypeMismatch (st1u sc (S (S F))).
Proof.
  intros VF Vg NE E0 E1 E2 E3 E4 E5 E6 E7. pose proof (wf_fun H W) as Vf.
  assert (BF : basic H (S (S F)) = false) by (apply nonbasic; rewrite VF; discriminate).
  pose proof (nonbasic _ Vg) as Bg.
  destruct (comp_SS _ Vg) as (g' & ->).
  assert (NE' : Nat.eqb g' F = false) by (apply Nat.eqb_neq; congruence).
  unfold st1u; run; reflexivity.
Qed.

(* ----- keys ----- *)

Lemma stage1k C R n0 n1 n2 n3 n4 n5 n6 n7 n8 sc :
  variance H (S (S C)) = [true] -> variance H (S (S R)) = [true; true] ->
  Nat.eqb C R = false -> Nat.eqb R C = false ->
  n0 = S n1 -> n1 = S n2 -> n2 = S n3 -> n3 = S n4 -> n4 = S n5 -> n5 = S n6 -> n6 = S n7 -> n7 = S n8 ->
  instance H n0 (keys_schema (S (S C)) (S (S R))) (empty_store sc) =
  MOk (O Function [V 0; O (S (S C)) [V 1]]) (st1k sc (S (S C)) (S (S R))).
Proof.
  intros VC VR NCR NRC E0 E1 E2 E3 E4 E5 E6 E7. pose proof (wf_fun H W) as Vf.
  assert (BC : basic H (S (S C)) = false) by (apply nonbasic; rewrite VC; discriminate).
  assert (BR : basic H (S (S R)) = false) by (apply nonbasic; rewrite VR; discriminate).
  unfold keys_schema, keys_alts.
  run. reflexivity.
Qed.

Lemma stage3k_R C R t1 t2 n0 n1 n2 n3 n4 n5 n6 n7 n8 n9 sc :
  variance H (S (S C)) = [true] -> variance H (S (S R)) = [true; true] ->
  Nat.eqb C R = false -> Nat.eqb R C = false -> Nat.eqb C 1 = false ->
  variance H (S (S t1)) = [] -> variance H (S (S t2)) = [] ->
  n0 = S n1 -> n1 = S n2 -> n2 = S n3 -> n3 = S n4 -> n4 = S n5 -> n5 = S n6 -> n6 = S n7 -> n7 = S n8 -> n8 = S n9 ->
  apply H n0 (O Function [V 0; O (S (S C)) [V 1]]) (O (S (S R)) [O (S (S t1)) []; O (S (S t2)) []]) true
        (st1k sc (S (S C)) (S (S R))) =
  MOk (O (S (S C)) [V 1]) (st3k_R sc (S (S R)) (S (S t1)) (S (S t2))).
Proof.
  intros VC VR NCR NRC NCF Vt1 Vt2 E0 E1 E2 E3 E4 E5 E6 E7 E8. pose proof (wf_fun H W) as Vf.
  assert (BC : basic H (S (S C)) = false) by (apply nonbasic; rewrite VC; discriminate).
  assert (BR : basic H (S (S R)) = false) by (apply nonbasic; rewrite VR; discriminate).
  pose proof (basic_of H _ Vt1) as Bt1. pose proof (basic_of H _ Vt2) as Bt2.
  unfold st1k. run. reflexivity.
Qed.

Lemma stage3k_C C R t n0 n1 n2 n3 n4 n5 n6 n7 n8 n9 sc :
  variance H (S (S C)) = [true] -> variance H (S (S R)) = [true; true] ->
  Nat.eqb C R = false -> Nat.eqb R C = false -> Nat.eqb C 1 = false ->
  variance H (S (S t)) = [] ->
  n0 = S n1 -> n1 = S n2 -> n2 = S n3 -> n3 = S n4 -> n4 = S n5 -> n5 = S n6 -> n6 = S n7 -> n7 = S n8 -> n8 = S n9 ->
  apply H n0 (O Function [V 0; O (S (S C)) [V 1]]) (O (S (S C)) [O (S (S t)) []]) true
        (st1k sc (S (S C)) (S (S R))) =
  MOk (O (S (S C)) [V 1]) (st3k_C sc (S (S C)) (S (S t))).
Proof.
  intros VC VR NCR NRC NCF Vt E0 E1 E2 E3 E4 E5 E6 E7 E8. pose proof (wf_fun H W) as Vf.
  assert (BC : basic H (S (S C)) = false) by (apply nonbasic; rewrite VC; discriminate).
  assert (BR : basic H (S (S R)) = false) by (apply nonbasic; rewrite VR; discriminate).
  pose proof (basic_of H _ Vt) as Bt.
  unfold st1k. run. reflexivity.
Qed.

(* applied to a base type other than Bottom: no alternative survives the filter *)
Lemma stage3k_base C R t n0 n1 n2 n3 n4 n5 n6 n7 n8 n9 sc :
  variance H (S (S C)) = [true] -> variance H (S (S R)) = [true; true] ->
  Nat.eqb C R = false -> Nat.eqb R C = false -> Nat.eqb C 1 = false ->
  variance H t = [] -> t <> Bottom ->
  n0 = S n1 -> n1 = S n2 -> n2 = S n3 -> n3 = S n4 -> n4 = S n5 -> n5 = S n6 -> n6 = S n7 -> n7 = S n8 -> n8 = S n9 ->
  exists s', apply H n0 (O Function [V 0; O (S (S C)) [V 1]]) (O t []) true (st1k sc (S (S C)) (S (S R))) =
             MEr EConstraintViolation s'.
Proof.
  intros VC VR NCR NRC NCF Vt NB E0 E1 E2 E3 E4 E5 E6 E7 E8. pose proof (wf_fun H W) as Vf.
  assert (BC : basic H (S (S C)) = false) by (apply nonbasic; rewrite VC; discriminate).
  assert (BR : basic H (S (S R)) = false) by (apply nonbasic; rewrite VR; discriminate).
  pose proof (basic_of H _ Vt) as Bt.
  destruct t as [|[|t']]; [|now elim NB|]; eexists; unfold st1k; run; reflexivity.
Qed.


(* applied to Bottom: accepted, both alternatives stay, nothing is determined *)
Lemma stage3k_bottom C R xs n0 n1 n2 n3 n4 n5 n6 n7 n8 sc :
  variance H (S (S C)) = [true] -> variance H (S (S R)) = [true; true] ->
  Nat.eqb C R = false -> Nat.eqb R C = false -> Nat.eqb C 1 = false ->
  n0 = S n1 -> n1 = S n2 -> n2 = S n3 -> n3 = S n4 -> n4 = S n5 -> n5 = S n6 -> n6 = S n7 -> n7 = S n8 ->
  apply H n0 (O Function [V 0; O (S (S C)) [V 1]]) (O Bottom xs) true (st1k sc (S (S C)) (S (S R))) =
  MOk (O (S (S C)) [V 1]) (st1k sc (S (S C)) (S (S R))).
Proof.
  intros VC VR NCR NRC NCF E0 E1 E2 E3 E4 E5 E6 E7. pose proof (wf_fun H W) as Vf.
  assert (BC : basic H (S (S C)) = false) by (apply nonbasic; rewrite VC; discriminate).
  assert (BR : basic H (S (S R)) = false) by (apply nonbasic; rewrite VR; discriminate).
  unfold st1k. run. reflexivity.
Qed.

(* applied to a concrete type with another compound head: no alternative survives *)
Lemma stage3k_comp C R g args n0 n1 n2 n3 n4 n5 n6 n7 n8 n9 sc :
  variance H (S (S C)) = [true] -> variance H (S (S R)) = [true; true] ->
  Nat.eqb C R = false -> Nat.eqb R C = false -> Nat.eqb C 1 = false ->
  variance H g <> [] -> g <> S (S C) -> g <> S (S R) -> ty_depth (TOp g args) + 3 <= n0 ->
  n0 = S n1 -> n1 = S n2 -> n2 = S n3 -> n3 = S n4 -> n4 = S n5 -> n5 = S n6 -> n6 = S n7 -> n7 = S n8 -> n8 = S n9 ->
  exists s', apply H n0 (O Function [V 0; O (S (S C)) [V 1]]) (O g (map inj args)) true
                   (st1k sc (S (S C)) (S (S R))) = MEr EConstraintViolation s'.
Proof.
  intros VC VR NCR NRC NCF Vg NgC NgR LD E0 E1 E2 E3 E4 E5 E6 E7 E8. pose proof (wf_fun H W) as Vf.
  assert (BC : basic H (S (S C)) = false) by (apply nonbasic; rewrite VC; discriminate).
  assert (BR : basic H (S (S R)) = false) by (apply nonbasic; rewrite VR; discriminate).
  pose proof (nonbasic _ Vg) as Bg.
  destruct (comp_SS _ Vg) as (g' & ->).
  assert (NgC' : Nat.eqb g' C = false) by (apply Nat.eqb_neq; congruence).
  assert (NgR' : Nat.eqb g' R = false) by (apply Nat.eqb_neq; congruence).
  eexists. unfold st1k. run'.
  rewrite occurs_inj' by (try reflexivity; lia). run'.
  rewrite vars_inj' by lia. run'.
  reflexivity.
Qed.

(* applied to Bottom itself: accepted (Bottom is below everything), nothing is determined *)
Lemma stage3u_bottom F xs n0 n1 n2 n3 n4 n5 n6 n7 n8 sc :
  variance H (S (S F)) = [true] ->
  n0 = S n1 -> n1 = S n2 -> n2 = S n3 -> n3 = S n4 -> n4 = S n5 -> n5 = S n6 -> n6 = S n7 -> n7 = S n8 ->
  apply H n0 (O Function [V 0; V 1]) (O Bottom xs) true (st1u sc (S (S F))) =
  MOk (V 1) (st1u sc (S (S F))).
Proof.
  intros VF E0 E1 E2 E3 E4 E5 E6 E7. pose proof (wf_fun H W) as Vf.
  assert (BF : basic H (S (S F)) = false) by (apply nonbasic; rewrite VF; discriminate).
  unfold st1u; run; reflexivity.
Qed.

(* ---------- whole programs, any sufficient fuel ---------- *)

Lemma chain9 n0 : 9 <= n0 -> exists n1 n2 n3 n4 n5 n6 n7 n8 n9,
  n0 = S n1 /\ n1 = S n2 /\ n2 = S n3 /\ n3 = S n4 /\ n4 = S n5 /\ n5 = S n6 /\ n6 = S n7 /\
  n7 = S n8 /\ n8 = S n9.
Proof.
  intros L. exists (n0 - 1), (n0 - 2), (n0 - 3), (n0 - 4), (n0 - 5), (n0 - 6), (n0 - 7), (n0 - 8), (n0 - 9).
  repeat split; lia.
Qed.

Lemma unary_SS F : variance H F = [true] -> exists F', F = S (S F').
Proof. intros V. apply comp_SS. rewrite V. discriminate. Qed.

Definition good (b : nat) : Prop := variance H b = [] /\ b <> Top /\ b <> Bottom.

Lemma good_SS' b : good b -> exists b', b = S (S b').
Proof. apply (good_SS H). Qed.

(* the unary family applied to F(t) *)
Theorem engine_unary_ok F t fuel sc :
  variance H F = [true] -> variance H t = [] -> t <> Bottom -> 9 <= fuel ->
  run_cmds H fuel (app_prog (unary_schema F) (TOp F [TOp t []])) 0 [] (empty_store sc) =
  (None, [O Function [V 0; V 1]; O F [O t []]; O t []], st3u sc F t).
Proof.
  intros VF Vt NB L. destruct (unary_SS F VF) as (F' & ->).
  destruct (chain9 fuel L) as (n1 & n2 & n3 & n4 & n5 & n6 & n7 & n8 & n9 & E0 & E1 & E2 & E3 & E4 & E5 & E6 & E7 & E8).
  match goal with |- run_cmds _ _ (app_prog _ ?x) _ _ _ = _ =>
    assert (LD : ty_depth x < fuel) by (cbn; lia) end.
  rewrite (run3' H fuel _ _ _ _ _ LD
             (stage1u F' fuel n1 n2 n3 n4 n5 n6 n7 n8 sc VF E0 E1 E2 E3 E4 E5 E6 E7)).
  cbn [inj map].
  now rewrite (stage3u_ok F' t fuel n1 n2 n3 n4 n5 n6 n7 n8 sc VF Vt NB E0 E1 E2 E3 E4 E5 E6 E7).
Qed.

Theorem engine_unary_bot F fuel sc :
  variance H F = [true] -> 9 <= fuel ->
  run_cmds H fuel (app_prog (unary_schema F) (TOp F [TOp Bottom []])) 0 [] (empty_store sc) =
  (None, [O Function [V 0; V 1]; O F [O Bottom []]; V 1], st1u sc F).
Proof.
  intros VF L. destruct (unary_SS F VF) as (F' & ->).
  destruct (chain9 fuel L) as (n1 & n2 & n3 & n4 & n5 & n6 & n7 & n8 & n9 & E0 & E1 & E2 & E3 & E4 & E5 & E6 & E7 & E8).
  match goal with |- run_cmds _ _ (app_prog _ ?x) _ _ _ = _ =>
    assert (LD : ty_depth x < fuel) by (cbn; lia) end.
  rewrite (run3' H fuel _ _ _ _ _ LD
             (stage1u F' fuel n1 n2 n3 n4 n5 n6 n7 n8 sc VF E0 E1 E2 E3 E4 E5 E6 E7)).
  cbn [inj map].
  now rewrite (stage3u_bot F' fuel n1 n2 n3 n4 n5 n6 n7 n8 sc VF E0 E1 E2 E3 E4 E5 E6 E7).
Qed.

Theorem engine_unary_bottom F xs fuel sc :
  variance H F = [true] -> 9 <= fuel -> ty_depth (TOp Bottom xs) < fuel ->
  run_cmds H fuel (app_prog (unary_schema F) (TOp Bottom xs)) 0 [] (empty_store sc) =
  (None, [O Function [V 0; V 1]; inj (TOp Bottom xs); V 1], st1u sc F).
Proof.
  intros VF L LD. destruct (unary_SS F VF) as (F' & ->).
  destruct (chain9 fuel L) as (n1 & n2 & n3 & n4 & n5 & n6 & n7 & n8 & n9 & E0 & E1 & E2 & E3 & E4 & E5 & E6 & E7 & E8).
  rewrite (run3' H fuel _ _ _ _ _ LD
             (stage1u F' fuel n1 n2 n3 n4 n5 n6 n7 n8 sc VF E0 E1 E2 E3 E4 E5 E6 E7)).
  cbn [inj].
  now rewrite (stage3u_bottom F' _ fuel n1 n2 n3 n4 n5 n6 n7 n8 sc VF E0 E1 E2 E3 E4 E5 E6 E7).
Qed.

(* ... applied to any concrete type with another head *)
Theorem engine_unary_reject F x fuel sc :
  variance H F = [true] -> ty_op x <> Bottom -> ty_op x <> F -> 9 <= fuel -> ty_depth x < fuel ->
  run_cmds H fuel (app_prog (unary_schema F) x) 0 [] (empty_store sc) =
  (Some (if basic H (ty_op x) then ESubtypeMismatch else ETypeMismatch, 2),
   [O Function [V 0; V 1]; inj x], st1u sc F).
Proof.
  intros VF NB NF L LD. destruct (unary_SS F VF) as (F' & ->).
  destruct (chain9 fuel L) as (n1 & n2 & n3 & n4 & n5 & n6 & n7 & n8 & n9 & E0 & E1 & E2 & E3 & E4 & E5 & E6 & E7 & E8).
  rewrite (run3' H fuel _ _ _ _ _ LD
             (stage1u F' fuel n1 n2 n3 n4 n5 n6 n7 n8 sc VF E0 E1 E2 E3 E4 E5 E6 E7)).
  destruct x as [g xs]. cbn [inj ty_op] in *.
  destruct (variance H g) as [|v vs] eqn:Vg.
  - rewrite (basic_of H _ Vg).
    now rewrite (stage3u_base F' g _ fuel n1 n2 n3 n4 n5 n6 n7 n8 sc VF Vg NB E0 E1 E2 E3 E4 E5 E6 E7).
  - assert (Vg' : variance H g <> []) by (rewrite Vg; discriminate).
    rewrite (nonbasic _ Vg').
    now rewrite (stage3u_comp F' g _ fuel n1 n2 n3 n4 n5 n6 n7 n8 sc VF Vg' NF E0 E1 E2 E3 E4 E5 E6 E7).
Qed.

(* keys *)
Lemma keys_ops C R : variance H C = [true] -> variance H R = [true; true] ->
  exists C' R', C = S (S C') /\ R = S (S R') /\
    Nat.eqb C' R' = false /\ Nat.eqb R' C' = false /\ Nat.eqb C' 1 = false.
Proof.
  intros VC VR. destruct (unary_SS C VC) as (C' & ->).
  destruct (comp_SS R) as (R' & ->); [rewrite VR; discriminate|].
  exists C', R'. repeat split; apply Nat.eqb_neq; intros E; subst.
  - rewrite VC in VR. discriminate.
  - rewrite VC in VR. discriminate.
  - change (S (S 1)) with Function in VC. rewrite (wf_fun H W) in VC. discriminate.
Qed.

Theorem engine_keys_R C R t1 t2 fuel sc :
  variance H C = [true] -> variance H R = [true; true] -> good t1 -> good t2 -> 9 <= fuel ->
  run_cmds H fuel (app_prog (keys_schema C R) (TOp R [TOp t1 []; TOp t2 []])) 0 [] (empty_store sc) =
  (None, [O Function [V 0; O C [V 1]]; O R [O t1 []; O t2 []]; O C [V 1]], st3k_R sc R t1 t2).
Proof.
  intros VC VR G1 G2 L.
  destruct (keys_ops C R VC VR) as (C' & R' & -> & -> & NCR & NRC & NCF).
  destruct (good_SS' t1 G1) as (t1' & ->). destruct (good_SS' t2 G2) as (t2' & ->).
  destruct (chain9 fuel L) as (n1 & n2 & n3 & n4 & n5 & n6 & n7 & n8 & n9 & E0 & E1 & E2 & E3 & E4 & E5 & E6 & E7 & E8).
  match goal with |- run_cmds _ _ (app_prog _ ?x) _ _ _ = _ =>
    assert (LD : ty_depth x < fuel) by (cbn; lia) end.
  rewrite (run3' H fuel _ _ _ _ _ LD
             (stage1k C' R' fuel n1 n2 n3 n4 n5 n6 n7 n8 sc VC VR NCR NRC E0 E1 E2 E3 E4 E5 E6 E7)).
  cbn [inj map].
  now rewrite (stage3k_R C' R' t1' t2' fuel n1 n2 n3 n4 n5 n6 n7 n8 n9 sc VC VR NCR NRC NCF
                 (proj1 G1) (proj1 G2) E0 E1 E2 E3 E4 E5 E6 E7 E8).
Qed.

Theorem engine_keys_C C R t fuel sc :
  variance H C = [true] -> variance H R = [true; true] -> good t -> 9 <= fuel ->
  run_cmds H fuel (app_prog (keys_schema C R) (TOp C [TOp t []])) 0 [] (empty_store sc) =
  (None, [O Function [V 0; O C [V 1]]; O C [O t []]; O C [V 1]], st3k_C sc C t).
Proof.
  intros VC VR G1 L.
  destruct (keys_ops C R VC VR) as (C' & R' & -> & -> & NCR & NRC & NCF).
  destruct (good_SS' t G1) as (t' & ->).
  destruct (chain9 fuel L) as (n1 & n2 & n3 & n4 & n5 & n6 & n7 & n8 & n9 & E0 & E1 & E2 & E3 & E4 & E5 & E6 & E7 & E8).
  match goal with |- run_cmds _ _ (app_prog _ ?x) _ _ _ = _ =>
    assert (LD : ty_depth x < fuel) by (cbn; lia) end.
  rewrite (run3' H fuel _ _ _ _ _ LD
             (stage1k C' R' fuel n1 n2 n3 n4 n5 n6 n7 n8 sc VC VR NCR NRC E0 E1 E2 E3 E4 E5 E6 E7)).
  cbn [inj map].
  now rewrite (stage3k_C C' R' t' fuel n1 n2 n3 n4 n5 n6 n7 n8 n9 sc VC VR NCR NRC NCF
                 (proj1 G1) E0 E1 E2 E3 E4 E5 E6 E7 E8).
Qed.

Theorem engine_keys_base C R t fuel sc :
  variance H C = [true] -> variance H R = [true; true] -> variance H t = [] -> t <> Bottom -> 9 <= fuel ->
  exists s', run_cmds H fuel (app_prog (keys_schema C R) (TOp t [])) 0 [] (empty_store sc) =
  (Some (EConstraintViolation, 2), [O Function [V 0; O C [V 1]]; O t []], s').
Proof.
  intros VC VR Vt NB L.
  destruct (keys_ops C R VC VR) as (C' & R' & -> & -> & NCR & NRC & NCF).
  destruct (chain9 fuel L) as (n1 & n2 & n3 & n4 & n5 & n6 & n7 & n8 & n9 & E0 & E1 & E2 & E3 & E4 & E5 & E6 & E7 & E8).
  assert (LD : ty_depth (TOp t []) < fuel) by (cbn; lia).
  destruct (stage3k_base C' R' t fuel n1 n2 n3 n4 n5 n6 n7 n8 n9 sc VC VR NCR NRC NCF
                 Vt NB E0 E1 E2 E3 E4 E5 E6 E7 E8) as (s' & E3k).
  eexists. rewrite (run3' H fuel _ _ _ _ _ LD
             (stage1k C' R' fuel n1 n2 n3 n4 n5 n6 n7 n8 sc VC VR NCR NRC E0 E1 E2 E3 E4 E5 E6 E7)).
  cbn [inj map]. rewrite E3k. reflexivity.
Qed.

Theorem engine_keys_bottom C R fuel sc :
  variance H C = [true] -> variance H R = [true; true] -> 9 <= fuel ->
  run_cmds H fuel (app_prog (keys_schema C R) (TOp Bottom [])) 0 [] (empty_store sc) =
  (None, [O Function [V 0; O C [V 1]]; O Bottom []; O C [V 1]], st1k sc C R).
Proof.
  intros VC VR L.
  destruct (keys_ops C R VC VR) as (C' & R' & -> & -> & NCR & NRC & NCF).
  destruct (chain9 fuel L) as (n1 & n2 & n3 & n4 & n5 & n6 & n7 & n8 & n9 & E0 & E1 & E2 & E3 & E4 & E5 & E6 & E7 & E8).
  assert (LD : ty_depth (TOp Bottom []) < fuel) by (cbn; lia).
  rewrite (run3' H fuel _ _ _ _ _ LD
             (stage1k C' R' fuel n1 n2 n3 n4 n5 n6 n7 n8 sc VC VR NCR NRC E0 E1 E2 E3 E4 E5 E6 E7)).
  cbn [inj map].
  now rewrite (stage3k_bottom C' R' [] fuel n1 n2 n3 n4 n5 n6 n7 n8 sc VC VR NCR NRC NCF
                 E0 E1 E2 E3 E4 E5 E6 E7).
Qed.

(* keys applied to any well-formed concrete type whose head is none of Bottom, C, R *)
Theorem engine_keys_reject C R x fuel sc :
  variance H C = [true] -> variance H R = [true; true] -> wf_ty H x ->
  ty_op x <> Bottom -> ty_op x <> C -> ty_op x <> R -> 9 <= fuel -> ty_depth x + 3 <= fuel ->
  exists s', run_cmds H fuel (app_prog (keys_schema C R) x) 0 [] (empty_store sc) =
  (Some (EConstraintViolation, 2), [O Function [V 0; O C [V 1]]; inj x], s').
Proof.
  intros VC VR Wx NB NC NR L LD3. destruct x as [g args]. cbn [ty_op] in *.
  destruct (variance H g) as [|v vs] eqn:Vg.
  - apply wf_ty_unfold in Wx. destruct Wx as (La & _). rewrite Vg in La.
    destruct args; [|discriminate]. now apply engine_keys_base.
  - assert (Vg' : variance H g <> []) by (rewrite Vg; discriminate).
    destruct (keys_ops C R VC VR) as (C' & R' & -> & -> & NCR & NRC & NCF).
    destruct (chain9 fuel L) as (n1 & n2 & n3 & n4 & n5 & n6 & n7 & n8 & n9 & E0 & E1 & E2 & E3 & E4 & E5 & E6 & E7 & E8).
    assert (LD : ty_depth (TOp g args) < fuel) by lia.
    destruct (stage3k_comp C' R' g args fuel n1 n2 n3 n4 n5 n6 n7 n8 n9 sc VC VR NCR NRC NCF
                 Vg' NC NR LD3 E0 E1 E2 E3 E4 E5 E6 E7 E8) as (s' & E3k).
    eexists. rewrite (run3' H fuel _ _ _ _ _ LD
               (stage1k C' R' fuel n1 n2 n3 n4 n5 n6 n7 n8 sc VC VR NCR NRC E0 E1 E2 E3 E4 E5 E6 E7)).
    cbn [inj]. rewrite E3k. reflexivity.
Qed.

(* ---------- the specification side ---------- *)

Lemma flat_var i : flatp (SVar i). Proof. exact Logic.I. Qed.
Lemma flat_wild : flatp SWild. Proof. exact Logic.I. Qed.

Lemma wf_base t : variance H t = [] -> wf_ty H (TOp t []).
Proof. intros V. apply wf_ty_unfold. rewrite V. auto. Qed.

(* unary: F(y) fits F(b) *)
Lemma spec_unary_ok F y : variance H F = [true] -> wf_ty H y ->
  accept_spec H (TOp F [y]) (unary_alts F) = true /\ Fits H (TOp F [y]) (SOp F [SVar 1]).
Proof.
  intros VF Wy.
  assert (VF' : variance H F <> []) by (rewrite VF; discriminate).
  assert (E : fitsb H (TOp F [y]) (SOp F [SVar 1]) = true).
  { rewrite (fitsb_flat H W) by (auto using flat_var). now rewrite Nat.eqb_refl, orb_true_r. }
  split.
  - unfold accept_spec, unary_alts. cbn [existsb]. now rewrite E.
  - apply (fitsb_spec H W); auto.
    + apply wf_ty_unfold. rewrite VF. auto.
    + apply wf_sty_unfold. rewrite VF. split; auto. constructor; [exact Logic.I|constructor].
    + unfold linear. cbn. constructor; [intros []|constructor].
Qed.

Lemma spec_unary_bottom F xs : variance H F = [true] ->
  accept_spec H (TOp Bottom xs) (unary_alts F) = true.
Proof.
  intros VF. unfold accept_spec, unary_alts. cbn [existsb].
  rewrite (fitsb_flat H W) by (auto using flat_var; rewrite VF; discriminate). reflexivity.
Qed.

Lemma spec_unary_reject F x : variance H F = [true] -> ty_op x <> Bottom -> ty_op x <> F ->
  accept_spec H x (unary_alts F) = false /\ ~ Fits H x (SOp F [SVar 1]).
Proof.
  intros VF NB NF. destruct x as [g xs]. cbn [ty_op] in *.
  assert (E : fitsb H (TOp g xs) (SOp F [SVar 1]) = false).
  { rewrite (fitsb_flat H W) by (auto using flat_var; rewrite VF; discriminate).
    apply Nat.eqb_neq in NB, NF. now rewrite NB, NF. }
  split.
  - unfold accept_spec, unary_alts. cbn [existsb]. now rewrite E.
  - intros Ft. apply (fitsb_complete H W) in Ft. congruence.
Qed.

Lemma Fits_iff_fitsb x alt (b : bool) : wf_ty H x -> wf_sty H alt -> linear alt ->
  fitsb H x alt = b -> (Fits H x alt <-> b = true).
Proof. intros Wx Wa La <-. symmetry. now apply (fitsb_spec H W). Qed.

Lemma wf_alt_C C : variance H C = [true] -> wf_sty H (SOp C [SVar 1]) /\ linear (SOp C [SVar 1]).
Proof.
  intros VC. split.
  - apply wf_sty_unfold. rewrite VC. split; auto. constructor; [exact Logic.I|constructor].
  - unfold linear. cbn. constructor; [intros []|constructor].
Qed.
Lemma wf_alt_R R : variance H R = [true; true] ->
  wf_sty H (SOp R [SVar 1; SWild]) /\ linear (SOp R [SVar 1; SWild]).
Proof.
  intros VR. split.
  - apply wf_sty_unfold. rewrite VR. split; auto. repeat constructor.
  - unfold linear. cbn. constructor; [intros []|constructor].
Qed.

(* keys: which alternatives a concrete argument fits depends on its head only *)
Lemma spec_keys C R x : variance H C = [true] -> variance H R = [true; true] -> wf_ty H x ->
  let fC := Nat.eqb (ty_op x) Bottom || Nat.eqb (ty_op x) C in
  let fR := Nat.eqb (ty_op x) Bottom || Nat.eqb (ty_op x) R in
  accept_spec H x (keys_alts C R) = fC || fR /\
  filter (fitsb H x) (keys_alts C R) =
    (if fC then [SOp C [SVar 1]] else []) ++ (if fR then [SOp R [SVar 1; SWild]] else []) /\
  (Fits H x (SOp C [SVar 1]) <-> fC = true) /\
  (Fits H x (SOp R [SVar 1; SWild]) <-> fR = true).
Proof.
  intros VC VR Wx. destruct x as [g xs]. cbn [ty_op].
  assert (EC : fitsb H (TOp g xs) (SOp C [SVar 1]) = Nat.eqb g Bottom || Nat.eqb g C)
    by (apply (fitsb_flat H W); auto using flat_var; rewrite VC; discriminate).
  assert (ER : fitsb H (TOp g xs) (SOp R [SVar 1; SWild]) = Nat.eqb g Bottom || Nat.eqb g R)
    by (apply (fitsb_flat H W); auto using flat_var, flat_wild; rewrite VR; discriminate).
  cbv zeta. unfold accept_spec, keys_alts. cbn [existsb filter]. rewrite EC, ER, orb_false_r.
  destruct (wf_alt_C C VC) as (WC & LC). destruct (wf_alt_R R VR) as (WR & LR).
  split; [reflexivity|]. split.
  - destruct (Nat.eqb g Bottom || Nat.eqb g C), (Nat.eqb g Bottom || Nat.eqb g R); reflexivity.
  - split; apply Fits_iff_fitsb; auto.
Qed.

End Pat.

(* ---------- the exported statements (programs written out) ---------- *)

Definition result3 (r : option (err * nat) * list tyv * store) : option (err * nat) * list tyv :=
  (fst (fst r), map (deep 3 (snd r)) (snd (fst r))).

Theorem unary_pattern_stmt : forall H, wf_hier H -> forall F t fuel sc,
  variance H F = [true] -> variance H t = [] -> t <> Bottom -> 9 <= fuel ->
  let alts := [SOp F [SVar 1]] in
  let x := TOp F [TOp t []] in
  let r := run_cmds H fuel
             [CInst (mkSchema 2 (SOp Function [SVar 0; SVar 1]) [SCElim (SVar 0) alts]);
              CInst (mkSchema 0 (SOp F [SOp t []]) []);
              CApply 0 1 true] 0 [] (empty_store sc) in
  fst (fst r) = None /\
  map (follow (snd r)) (snd (fst r)) = [O Function [V 0; V 1]; O F [O t []]; O t []] /\
  map (deep 3 (snd r)) (snd (fst r)) =
    [O Function [O F [O t []]; O t []]; O F [O t []]; O t []] /\
  c_bound (cell_of (snd r) 1) = Some (O t []) /\
  accept_spec H x alts = true /\
  (forall alt, In alt alts -> Fits H x alt).
Proof.
  intros H W F t fuel sc VF Vt NB L. cbv zeta.
  change (run_cmds H fuel _ 0 [] (empty_store sc))
    with (run_cmds H fuel (app_prog (unary_schema F) (TOp F [TOp t []])) 0 [] (empty_store sc)).
  rewrite (engine_unary_ok H W F t fuel sc VF Vt NB L). cbn [fst snd].
  destruct (spec_unary_ok H W F (TOp t []) VF (wf_base H t Vt)) as (A & Ft).
  repeat split; try reflexivity; try exact A.
  intros alt [<-|[]]. exact Ft.
Qed.

(* F(Bottom) and Bottom itself are accepted as well (they fit), but then b is
   NOT determined: the result is the unresolved, unbounded variable b *)
Theorem unary_pattern_bottom_stmt : forall H, wf_hier H -> forall F fuel sc,
  variance H F = [true] -> 9 <= fuel ->
  let alts := [SOp F [SVar 1]] in
  let sig := mkSchema 2 (SOp Function [SVar 0; SVar 1]) [SCElim (SVar 0) alts] in
  let r1 := run_cmds H fuel [CInst sig; CInst (mkSchema 0 (SOp F [SOp Bottom []]) []); CApply 0 1 true]
                     0 [] (empty_store sc) in
  let r2 := run_cmds H fuel [CInst sig; CInst (mkSchema 0 (SOp Bottom []) []); CApply 0 1 true]
                     0 [] (empty_store sc) in
  (fst r1 = (None, [O Function [V 0; V 1]; O F [O Bottom []]; V 1]) /\
   cell_of (snd r1) 1 = mkCell false None None None 0 /\
   accept_spec H (TOp F [TOp Bottom []]) alts = true) /\
  (fst r2 = (None, [O Function [V 0; V 1]; O Bottom []; V 1]) /\
   cell_of (snd r2) 1 = mkCell false None None None 0 /\
   accept_spec H (TOp Bottom []) alts = true).
Proof.
  intros H W F fuel sc VF L. cbv zeta. split.
  - change (run_cmds H fuel _ 0 [] (empty_store sc))
      with (run_cmds H fuel (app_prog (unary_schema F) (TOp F [TOp Bottom []])) 0 [] (empty_store sc)).
    rewrite (engine_unary_bot H W F fuel sc VF L). cbn [fst snd].
    repeat split; try reflexivity.
    apply (spec_unary_ok H W F (TOp Bottom []) VF). apply wf_base. apply (var_bot H W).
  - change (run_cmds H fuel _ 0 [] (empty_store sc))
      with (run_cmds H fuel (app_prog (unary_schema F) (TOp Bottom [])) 0 [] (empty_store sc)).
    rewrite (engine_unary_bottom H W F [] fuel sc VF L) by (cbn; lia). cbn [fst snd].
    repeat split; try reflexivity.
    all: try apply (spec_unary_bottom H W F [] VF).
Qed.

Theorem unary_pattern_reject_stmt : forall H, wf_hier H -> forall F x fuel sc,
  variance H F = [true] -> ty_op x <> Bottom -> ty_op x <> F -> 9 <= fuel -> ty_depth x < fuel ->
  let alts := [SOp F [SVar 1]] in
  let r := run_cmds H fuel
             [CInst (mkSchema 2 (SOp Function [SVar 0; SVar 1]) [SCElim (SVar 0) alts]);
              CInst (mkSchema 0 (sconc x) []);
              CApply 0 1 true] 0 [] (empty_store sc) in
  fst r = (Some (if basic H (ty_op x) then ESubtypeMismatch else ETypeMismatch, 2),
           [O Function [V 0; V 1]; inj x]) /\
  accept_spec H x alts = false /\
  (forall alt, In alt alts -> ~ Fits H x alt).
Proof.
  intros H W F x fuel sc VF NB NF L LD. cbv zeta.
  change (run_cmds H fuel _ 0 [] (empty_store sc))
    with (run_cmds H fuel (app_prog (unary_schema F) x) 0 [] (empty_store sc)).
  rewrite (engine_unary_reject H W F x fuel sc VF NB NF L LD). cbn [fst snd].
  destruct (spec_unary_reject H W F x VF NB NF) as (A & NFt).
  repeat split; try reflexivity; try exact A.
  intros alt [<-|[]]. exact NFt.
Qed.

Section KeysStmt.
  Variable H : hier.
  Hypothesis W : wf_hier H.
  Variables C R : nat.
  Hypothesis VC : variance H C = [true].
  Hypothesis VR : variance H R = [true; true].

  Let altC := SOp C [SVar 1].
  Let altR := SOp R [SVar 1; SWild].

  Lemma keys_uniq x (fC fR : bool) : wf_ty H x ->
    Nat.eqb (ty_op x) Bottom || Nat.eqb (ty_op x) C = fC ->
    Nat.eqb (ty_op x) Bottom || Nat.eqb (ty_op x) R = fR ->
    accept_spec H x [altC; altR] = fC || fR /\
    filter (fitsb H x) [altC; altR] = (if fC then [altC] else []) ++ (if fR then [altR] else []) /\
    (Fits H x altC <-> fC = true) /\ (Fits H x altR <-> fR = true).
  Proof. intros Wx <- <-. exact (spec_keys H W C R x VC VR Wx). Qed.

  Lemma altC_ne_altR : altC <> altR.
  Proof. discriminate. Qed.
End KeysStmt.

Theorem keys_R_stmt : forall H, wf_hier H -> forall C R t1 t2 fuel sc,
  variance H C = [true] -> variance H R = [true; true] ->
  (variance H t1 = [] /\ t1 <> Top /\ t1 <> Bottom) ->
  (variance H t2 = [] /\ t2 <> Top /\ t2 <> Bottom) -> 9 <= fuel ->
  let alts := [SOp C [SVar 1]; SOp R [SVar 1; SWild]] in
  let x := TOp R [TOp t1 []; TOp t2 []] in
  let r := run_cmds H fuel
             [CInst (mkSchema 2 (SOp Function [SVar 0; SOp C [SVar 1]]) [SCElim (SVar 0) alts]);
              CInst (mkSchema 0 (SOp R [SOp t1 []; SOp t2 []]) []);
              CApply 0 1 true] 0 [] (empty_store sc) in
  fst (fst r) = None /\
  map (deep 3 (snd r)) (snd (fst r)) =
    [O Function [O R [O t1 []; O t2 []]; O C [O t1 []]]; O R [O t1 []; O t2 []]; O C [O t1 []]] /\
  c_bound (cell_of (snd r) 1) = Some (O t1 []) /\
  accept_spec H x alts = true /\
  filter (fitsb H x) alts = [SOp R [SVar 1; SWild]] /\
  (forall alt, In alt alts -> (Fits H x alt <-> alt = SOp R [SVar 1; SWild])).
Proof.
  intros H W C R t1 t2 fuel sc VC VR G1 G2 L. cbv zeta.
  change (run_cmds H fuel _ 0 [] (empty_store sc))
    with (run_cmds H fuel (app_prog (keys_schema C R) (TOp R [TOp t1 []; TOp t2 []])) 0 [] (empty_store sc)).
  rewrite (engine_keys_R H W C R t1 t2 fuel sc VC VR G1 G2 L). cbn [fst snd].
  destruct (keys_ops H W C R VC VR) as (C' & R' & EC & ER & NCR & NRC & NCF).
  assert (Wx : wf_ty H (TOp R [TOp t1 []; TOp t2 []])).
  { apply wf_ty_unfold. rewrite VR. split; auto.
    repeat constructor; apply wf_base; [apply G1|apply G2]. }
  destruct (keys_uniq H W C R VC VR _ false true Wx) as (A & Fl & FC & FR).
  { subst. cbn [ty_op]. cbn. exact NRC. }
  { subst. cbn [ty_op]. cbn. apply Nat.eqb_refl. }
  split; [reflexivity|]. split; [reflexivity|]. split; [reflexivity|].
  split; [exact A|]. split; [exact Fl|].
  intros alt [<-|[<-|[]]]; split.
  - intros Ft. apply FC in Ft. discriminate.
  - intros E. now apply altC_ne_altR in E.
  - reflexivity.
  - intros _. now apply FR.
Qed.

Theorem keys_C_stmt : forall H, wf_hier H -> forall C R t fuel sc,
  variance H C = [true] -> variance H R = [true; true] ->
  (variance H t = [] /\ t <> Top /\ t <> Bottom) -> 9 <= fuel ->
  let alts := [SOp C [SVar 1]; SOp R [SVar 1; SWild]] in
  let x := TOp C [TOp t []] in
  let r := run_cmds H fuel
             [CInst (mkSchema 2 (SOp Function [SVar 0; SOp C [SVar 1]]) [SCElim (SVar 0) alts]);
              CInst (mkSchema 0 (SOp C [SOp t []]) []);
              CApply 0 1 true] 0 [] (empty_store sc) in
  fst (fst r) = None /\
  map (deep 3 (snd r)) (snd (fst r)) =
    [O Function [O C [O t []]; O C [O t []]]; O C [O t []]; O C [O t []]] /\
  c_bound (cell_of (snd r) 1) = Some (O t []) /\
  accept_spec H x alts = true /\
  filter (fitsb H x) alts = [SOp C [SVar 1]] /\
  (forall alt, In alt alts -> (Fits H x alt <-> alt = SOp C [SVar 1])).
Proof.
  intros H W C R t fuel sc VC VR G1 L. cbv zeta.
  change (run_cmds H fuel _ 0 [] (empty_store sc))
    with (run_cmds H fuel (app_prog (keys_schema C R) (TOp C [TOp t []])) 0 [] (empty_store sc)).
  rewrite (engine_keys_C H W C R t fuel sc VC VR G1 L). cbn [fst snd].
  destruct (keys_ops H W C R VC VR) as (C' & R' & EC & ER & NCR & NRC & NCF).
  assert (Wx : wf_ty H (TOp C [TOp t []])).
  { apply wf_ty_unfold. rewrite VC. split; auto.
    repeat constructor; apply wf_base; apply G1. }
  destruct (keys_uniq H W C R VC VR _ true false Wx) as (A & Fl & FC & FR).
  { subst. cbn [ty_op]. cbn. apply Nat.eqb_refl. }
  { subst. cbn [ty_op]. cbn. exact NCR. }
  split; [reflexivity|]. split; [reflexivity|]. split; [reflexivity|].
  split; [exact A|]. split; [exact Fl|].
  intros alt [<-|[<-|[]]]; split.
  - reflexivity.
  - intros _. now apply FC.
  - intros Ft. apply FR in Ft. discriminate.
  - intros E. symmetry in E. now apply altC_ne_altR in E.
Qed.

Theorem keys_base_stmt : forall H, wf_hier H -> forall C R t fuel sc,
  variance H C = [true] -> variance H R = [true; true] ->
  variance H t = [] -> t <> Bottom -> 9 <= fuel ->
  let alts := [SOp C [SVar 1]; SOp R [SVar 1; SWild]] in
  let x := TOp t [] in
  let r := run_cmds H fuel
             [CInst (mkSchema 2 (SOp Function [SVar 0; SOp C [SVar 1]]) [SCElim (SVar 0) alts]);
              CInst (mkSchema 0 (SOp t []) []);
              CApply 0 1 true] 0 [] (empty_store sc) in
  fst r = (Some (EConstraintViolation, 2), [O Function [V 0; O C [V 1]]; O t []]) /\
  accept_spec H x alts = false /\
  filter (fitsb H x) alts = [] /\
  (forall alt, In alt alts -> ~ Fits H x alt).
Proof.
  intros H W C R t fuel sc VC VR Vt NB L. cbv zeta.
  change (run_cmds H fuel _ 0 [] (empty_store sc))
    with (run_cmds H fuel (app_prog (keys_schema C R) (TOp t [])) 0 [] (empty_store sc)).
  destruct (engine_keys_base H W C R t fuel sc VC VR Vt NB L) as (s' & ->). cbn [fst snd].
  assert (NC : Nat.eqb t C = false) by (apply Nat.eqb_neq; intros ->; rewrite VC in Vt; discriminate).
  assert (NR : Nat.eqb t R = false) by (apply Nat.eqb_neq; intros ->; rewrite VR in Vt; discriminate).
  apply Nat.eqb_neq in NB.
  destruct (keys_uniq H W C R VC VR _ false false (wf_base H t Vt)) as (A & Fl & FC & FR).
  { cbn [ty_op]. now rewrite NB, NC. }
  { cbn [ty_op]. now rewrite NB, NR. }
  repeat split; try reflexivity; try exact A; try exact Fl.
  intros alt [<-|[<-|[]]] Ft.
  - apply FC in Ft. discriminate.
  - apply FR in Ft. discriminate.
Qed.

(* keys applied to any other well-formed concrete type (base types other than
   Bottom, compound types with a head other than C and R) *)
Theorem keys_reject_stmt : forall H, wf_hier H -> forall C R x fuel sc,
  variance H C = [true] -> variance H R = [true; true] -> wf_ty H x ->
  ty_op x <> Bottom -> ty_op x <> C -> ty_op x <> R -> 9 <= fuel -> ty_depth x + 3 <= fuel ->
  let alts := [SOp C [SVar 1]; SOp R [SVar 1; SWild]] in
  let r := run_cmds H fuel
             [CInst (mkSchema 2 (SOp Function [SVar 0; SOp C [SVar 1]]) [SCElim (SVar 0) alts]);
              CInst (mkSchema 0 (sconc x) []);
              CApply 0 1 true] 0 [] (empty_store sc) in
  fst r = (Some (EConstraintViolation, 2), [O Function [V 0; O C [V 1]]; inj x]) /\
  accept_spec H x alts = false /\
  filter (fitsb H x) alts = [] /\
  (forall alt, In alt alts -> ~ Fits H x alt).
Proof.
  intros H W C R x fuel sc VC VR Wx NB NC NR L LD. cbv zeta.
  change (run_cmds H fuel _ 0 [] (empty_store sc))
    with (run_cmds H fuel (app_prog (keys_schema C R) x) 0 [] (empty_store sc)).
  destruct (engine_keys_reject H W C R x fuel sc VC VR Wx NB NC NR L LD) as (s' & ->). cbn [fst snd].
  apply Nat.eqb_neq in NB, NC, NR.
  destruct (keys_uniq H W C R VC VR _ false false Wx) as (A & Fl & FC & FR).
  { now rewrite NB, NC. }
  { now rewrite NB, NR. }
  split; [reflexivity|]. split; [exact A|]. split; [exact Fl|].
  intros alt [<-|[<-|[]]] Ft.
  - apply FC in Ft. discriminate.
  - apply FR in Ft. discriminate.
Qed.

(* keys applied to Bottom: accepted, BOTH alternatives fit, nothing is determined *)
Theorem keys_bottom_stmt : forall H, wf_hier H -> forall C R fuel sc,
  variance H C = [true] -> variance H R = [true; true] -> 9 <= fuel ->
  let alts := [SOp C [SVar 1]; SOp R [SVar 1; SWild]] in
  let x := TOp Bottom [] in
  let r := run_cmds H fuel
             [CInst (mkSchema 2 (SOp Function [SVar 0; SOp C [SVar 1]]) [SCElim (SVar 0) alts]);
              CInst (mkSchema 0 (SOp Bottom []) []);
              CApply 0 1 true] 0 [] (empty_store sc) in
  fst r = (None, [O Function [V 0; O C [V 1]]; O Bottom []; O C [V 1]]) /\
  cell_of (snd r) 1 = mkCell false None None None 1 /\
  accept_spec H x alts = true /\ filter (fitsb H x) alts = alts.
Proof.
  intros H W C R fuel sc VC VR L. cbv zeta.
  change (run_cmds H fuel _ 0 [] (empty_store sc))
    with (run_cmds H fuel (app_prog (keys_schema C R) (TOp Bottom [])) 0 [] (empty_store sc)).
  rewrite (engine_keys_bottom H W C R fuel sc VC VR L). cbn [fst snd].
  destruct (keys_uniq H W C R VC VR (TOp Bottom []) true true) as (A & Fl & _).
  { apply wf_base. apply (var_bot H W). }
  { reflexivity. }
  { reflexivity. }
  repeat split; try reflexivity; assumption.
Qed.
