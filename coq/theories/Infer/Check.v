(* Runs a command program and applies the verified witness checker
   (Infer/Witness.v) to the final state: the per-case part of C03/C04. *)
From Coq Require Import List Arith Bool.
Import ListNotations.
From TF Require Import Base.Hier Base.Ty Sub.Match Infer.Store Infer.Engine Infer.Run Infer.Witness.

Section Check.
  Variable H : hier.

  (* value indices of the (function, argument, result) of every apply command *)
  Fixpoint steps_of (cs : list cmd) (n : nat) : list (nat * nat * nat) :=
    match cs with
    | [] => []
    | CInst _ :: r => steps_of r (S n)
    | CApply f x _ :: r => (f, x, n) :: steps_of r (S n)
    | CUnify _ _ _ :: r => steps_of r n
    | CFix _ _ :: r => steps_of r (S n)
    end.

  Fixpoint resolved (fuel : nat) (s : store) (t : tyv) : bool :=
    match fuel with
    | 0 => false
    | S f => match follow s t with
             | V _ => false
             | O _ args => forallb (resolved f s) args
             end
    end.

  (* candidate instantiations of an unresolved variable: every listed type
     within its reported bounds (all of them when it has no bounds) *)
  Definition cands (pool : list ty) (s : store) (v : nat) : list ty :=
    let c := cell_of s v in
    filter (fun t =>
      match t with
      | TOp b [] =>
          (match c_lower c with Some l => op_subtype H false l b | None => true end) &&
          (match c_upper c with Some u => op_subtype H false b u | None => true end)
      | _ => match c_lower c, c_upper c with None, None => true | _, _ => false end
      end) pool.

  (* at most [cap] groundings; truncated after every variable so that the
     product is never built in full *)
  Fixpoint assignments (cap : nat) (vs : list nat) (cand : nat -> list ty) : list theta :=
    match vs with
    | [] => [[]]
    | v :: r => firstn cap (flat_map (fun th => map (fun t => (v, t) :: th) (cand v))
                                     (assignments cap r cand))
    end.

  Definition all_vars (fuel : nat) (s : store) (vals : list tyv) : list nat :=
    fold_left (fun acc t => match vars_f fuel s t acc with Ok l => l | Er _ => acc end) vals [].

  Definition constraints_ok (fuel : nat) (s : store) : bool :=
    forallb (fun k =>
      if forallb (resolved fuel s) (constr_terms k) then
        if k_elim k then elim_constr_ok H fuel s k else sub_constr_ok H fuel s k
      else true) (constrs s).

  Definition n_resolved_constraints (fuel : nat) (s : store) : nat :=
    length (filter (fun k => forallb (resolved fuel s) (constr_terms k)) (constrs s)).

  (* [40; steps ok; constraints ok; bounded ok; #groundings; #steps; #resolved constraints] *)
  Definition check_row (fuel cap : nat) (pool : list ty) (cs : list cmd)
      (r : (option (err * nat)) * list tyv * store) : list nat :=
    let '(e, vals, s) := r in
    match e with
    | Some _ => [40; 2; 2; 2; 0; 0; 0]
    | None =>
        let steps := map (fun '(f, x, n) => (val vals f, val vals x, val vals n)) (steps_of cs 0) in
        let vs := all_vars fuel s vals in
        let ths := assignments cap vs (cands pool s) in
        [40;
         Nat.b2n (all_steps_ok H fuel s ths (TOp Top []) steps);
         Nat.b2n (constraints_ok fuel s);
         Nat.b2n (bounded_ok s);
         length ths; length steps; n_resolved_constraints fuel s]
    end.

  Definition run_check (fuel cap : nat) (pool : list ty) (sc : list nat) (cs : list cmd)
    : list (list nat) :=
    let r := run_cmds H fuel cs 0 [] (empty_store sc) in
    dump r ++ [check_row fuel cap pool cs r].
End Check.
