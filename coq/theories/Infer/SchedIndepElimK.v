(* C18 for the class progE, part K: the two final stores also agree on the FOLLOWED
   reference of every constraint ([eqk] instead of [eqr]).

   Along two successful runs of a progE program under two schedules, the raw
   references of constraint number c in the two stores have a common origin ([org]):
   a term r from which both are reachable through bindings ([reach] of
   Infer/ExprSoundElim.v).  At creation r is the schematic variable of the declared
   constraint ([instance_allocE]; the two runs allocate the same variables because
   their stores agree on all cells at every command boundary, [RelCmd_all]);
   afterwards every operation only replaces a reference by something reachable
   from it and keeps bindings ([kfr], [run_cmd_kfr]).  Reachable terms follow to the
   same type ([reach_follow_eq]), and the cells are equal. *)
From Coq Require Import List Arith Bool Lia.
Import ListNotations.
From TF Require Import Base.Hier Base.Ty Infer.Store Infer.Engine Infer.Run Infer.Inv Infer.Sound
  Infer.SchedIndep Infer.SoundElimS Infer.TermElim Infer.ExprSoundSub Infer.ExprSoundElim
  Infer.SchedIndepElimA Infer.SchedIndepElimR Infer.SchedIndepElim Infer.SchedIndepElimP
  Infer.SchedIndepElimI Infer.SchedIndepElimQ Infer.SchedIndepElimW Infer.SchedIndepElimR2.

Unset Implicit Arguments.

Definition org (s1 s2 : store) : Prop :=
  forall c, c < length (constrs s1) ->
    exists r, reach s1 r (k_ref (constr_of s1 c)) /\ reach s2 r (k_ref (constr_of s2 c)).

Section K.
Variable H : hier.
Hypothesis W : wf_hier H.
Local Notation len s := (length (vars s)).

Lemma cmdE_EQ n c : cmdE H n c -> cmdEQ H n c.
Proof. intros [sc Sb Pc|f x b Lf Lx]; constructor; auto. Qed.

Lemma org_step fuel c vals s1 s2 v1 t1 v2 t2 : cmdE H (length vals) c ->
  eqr s1 s2 -> org s1 s2 ->
  run_cmd H fuel c vals s1 = MOk v1 t1 -> run_cmd H fuel c vals s2 = MOk v2 t2 -> org t1 t2.
Proof.
  intros Pc E O E1 E2. pose proof E as (Ev & _ & El & _).
  pose proof (run_cmd_kfr H fuel c vals s1 v1 t1 (cmdE_EQ _ _ Pc) E1) as (Ce1 & Lc1 & K1).
  pose proof (run_cmd_kfr H fuel c vals s2 v2 t2 (cmdE_EQ _ _ Pc) E2) as (Ce2 & Lc2 & K2).
  intros c' Lc'. destruct (Nat.lt_ge_cases c' (length (constrs s1))) as [Lo|Ln].
  - destruct (O c' Lo) as (r & R1 & R2). exists r. split.
    + eapply reach_trans; [eapply reach_mono; [exact Ce1|exact R1]|]. apply (K1 c' Lo).
    + eapply reach_trans; [eapply reach_mono; [exact Ce2|exact R2]|]. apply (K2 c'). lia.
  - destruct Pc as [sc Sb Pcs|f x b Lf Lx]; cbn [ncon] in *; [|lia].
    cbn [run_cmd] in E1, E2. unfold bindM in E1, E2.
    destruct (instance H fuel sc s1) as [r1 u1|e1 u1] eqn:Ei1; [|discriminate].
    destruct (instance H fuel sc s2) as [r2 u2|e2 u2] eqn:Ei2; [|discriminate].
    inversion E1; subst. inversion E2; subst.
    destruct (instance_allocE H fuel sc s1 r1 t1 Pcs Ei1) as (_ & Hj1).
    destruct (instance_allocE H fuel sc s2 r2 t2 Pcs Ei2) as (_ & Hj2).
    set (j := c' - length (constrs s1)).
    assert (Lj : j < length (s_constrs sc)) by (unfold j; lia).
    destruct (nth_error (s_constrs sc) j) as [scj|] eqn:En; [|apply nth_error_None in En; lia].
    destruct (Hj1 j scj En) as (R1 & _). destruct (Hj2 j scj En) as (R2 & _).
    replace (length (constrs s1) + j) with c' in R1 by (unfold j; lia).
    replace (length (constrs s2) + j) with c' in R2 by (unfold j; lia).
    assert (Ee : envof s2 (s_n sc) = envof s1 (s_n sc)) by (unfold envof; rewrite Ev; reflexivity).
    rewrite Ee in R2. eexists. split; [exact R1|exact R2].
Qed.

Lemma org_cmds fuel : forall prog i vals s1 s2 v1 t1 v2 t2,
  progE H (length vals) prog -> Forall (tg H (len s1)) vals -> eqr s1 s2 ->
  GI H nop s1 -> GI H nop s2 -> org s1 s2 ->
  run_cmds H fuel prog i vals s1 = (None, v1, t1) ->
  run_cmds H fuel prog i vals s2 = (None, v2, t2) ->
  eqr t1 t2 /\ org t1 t2 /\ GI H nop t1 /\ GI H nop t2.
Proof.
  induction prog as [|c prog IH]; intros i vals s1 s2 v1 t1 v2 t2 Pp Fv E G1 G2 O R1 R2; cbn [run_cmds] in R1, R2.
  - inversion R1; inversion R2; subst. auto.
  - destruct Pp as (Pc & Pr).
    assert (Fv2 : Forall (tg H (len s2)) vals) by (rewrite <- (proj1 E); exact Fv).
    pose proof (RelCmd_all H W fuel c vals s1 s2 Pc Fv E G1 G2) as R. unfold outr in R.
    destruct (run_cmd H fuel c vals s1) as [w1 u1|e1 u1] eqn:E1; [|discriminate].
    destruct (run_cmd H fuel c vals s2) as [w2 u2|e2 u2] eqn:E2; [|discriminate].
    destruct R as (<- & Eu).
    destruct (run_cmd_GI H W fuel c vals s1 G1 Fv Pc w1 u1 E1) as (G1' & F1').
    destruct (run_cmd_GI H W fuel c vals s2 G2 Fv2 Pc w1 u2 E2) as (G2' & _).
    pose proof (org_step fuel c vals s1 s2 w1 u1 w1 u2 Pc E O E1 E2) as O'.
    pose proof G1 as (J1 & _).
    destruct (run_cmd_goodE H W fuel c vals s1 J1 Fv Pc w1 u1 E1) as (t & -> & _).
    apply (IH (S i) (vals ++ [t]) u1 u2 v1 t1 v2 t2); auto.
    rewrite app_length. cbn [length]. rewrite Nat.add_1_r. exact Pr.
Qed.

Lemma eqr_org_eqk t1 t2 : core t1 -> core t2 -> eqr t1 t2 -> org t1 t2 -> eqk t1 t2.
Proof.
  intros C1 C2 (Ev & Ec & El & Ed) O. unfold eqk. split; [exact Ev|split; [exact Ec|split; [exact El|]]].
  intros c. cbv zeta. destruct (Ed c) as (D1 & D2 & D3 & D4 & D5).
  split; [exact D1|split; [exact D2|split; [exact D3|split; [exact D4|split; [|exact D5]]]]].
  destruct (Nat.lt_ge_cases c (length (constrs t1))) as [Lc|Lc].
  - destruct (O c Lc) as (r & R1 & R2).
    rewrite (reach_follow_eq t1 _ _ C1 R1), (reach_follow_eq t2 _ _ C2 R2). apply follow_vars. exact Ev.
  - unfold constr_of. rewrite !nth_overflow by lia. apply follow_vars. exact Ev.
Qed.

(* the whole-program theorem with [eqk] *)
Theorem final_k fuel prog sc1 sc2 : progE H 0 prog -> prog_fuelE prog <= fuel ->
  match run_cmds H fuel prog 0 [] (empty_store sc1), run_cmds H fuel prog 0 [] (empty_store sc2) with
  | (None, v1, t1), (None, v2, t2) => v1 = v2 /\ eqk t1 t2
  | (Some (e1, i1), _, _), (Some (e2, i2), _, _) => i1 = i2 /\ e1 <> EFuel /\ e2 <> EFuel
  | _, _ => False
  end.
Proof.
  intros Pp L. pose proof (final H W fuel prog sc1 sc2 Pp L) as F.
  destruct (run_cmds H fuel prog 0 [] (empty_store sc1)) as [[[[e1 i1]|] v1] t1] eqn:R1;
    destruct (run_cmds H fuel prog 0 [] (empty_store sc2)) as [[[[e2 i2]|] v2] t2] eqn:R2; auto.
  destruct F as (Ev & _). split; [exact Ev|].
  assert (E0 : eqr (empty_store sc1) (empty_store sc2)).
  { unfold eqr, empty_store. cbn. split; [|split; [|split]]; auto. intros c. apply creq_refl. }
  assert (O0 : org (empty_store sc1) (empty_store sc2)) by (intros c Lc; cbn in Lc; lia).
  destruct (org_cmds fuel prog 0 [] (empty_store sc1) (empty_store sc2) v1 t1 v2 t2 Pp (Forall_nil _) E0
              (GI_empty H sc1) (GI_empty H sc2) O0 R1 R2) as (Et & Ot & G1 & G2).
  apply eqr_org_eqk; auto; [apply G1|apply G2].
Qed.

Corollary final_follow fuel prog sc1 sc2 v1 t1 v2 t2 : progE H 0 prog -> prog_fuelE prog <= fuel ->
  run_cmds H fuel prog 0 [] (empty_store sc1) = (None, v1, t1) ->
  run_cmds H fuel prog 0 [] (empty_store sc2) = (None, v2, t2) ->
  map (fun k => follow t1 (k_ref k)) (constrs t1) = map (fun k => follow t2 (k_ref k)) (constrs t2).
Proof.
  intros Pp L R1 R2. pose proof (final_k fuel prog sc1 sc2 Pp L) as F. rewrite R1, R2 in F.
  destruct F as (_ & (_ & _ & El & Ek)).
  apply nth_ext with (d := follow t1 (k_ref dconstr)) (d' := follow t2 (k_ref dconstr)).
  - rewrite !map_length. exact El.
  - intros n _.
    rewrite (map_nth (fun k => follow t1 (k_ref k)) (constrs t1) dconstr n).
    rewrite (map_nth (fun k => follow t2 (k_ref k)) (constrs t2) dconstr n).
    apply (Ek n).
Qed.

End K.
