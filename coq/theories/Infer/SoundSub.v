(* C03 (pure subtype constraints): soundness of the inference-engine model for
   schemas with READ-ONLY subtype constraints  x <= A / x < A  (x a schematic
   variable, A a base operator): class [progS] = [SchedIndep.pure_prog]
   restricted to well-scoped CInst / CApply commands.

   Part 1-2 (erasure).  Re-checking such a constraint never writes a variable
   cell (SchedIndep.fulfill_pure), so a successful run of a pure program is
   simulated, on the [vars] component and on the values, by the run of the
   program with every constraint erased ([sims_all]: one relational induction
   on fuel over unify/bind/above/below/fix_ty; [sim_run_cmds]).  [sat], [den],
   [follow] and the bounds only read [vars], hence clauses (i), (ii), (iv) of
   C03 transfer verbatim from Infer/Sound.v ([sub_sound12], [sub_bounded],
   [sub_satisfiable]): soundness is not weakened by read-only constraints.

   Part 3-6 (the constraints themselves).  [rsv s t r]: fuel-free resolution of
   t through the bindings.  Invariant [K s]: every constraint c is pure, its
   reference is a variable, and with r the resolution of its reference
     - r = O o args (resolved): the constraint HOLDS ([hold]: o <= target in the
       operator order, o <> target when strict);
     - r = V u (unresolved), not done: c is a member of the constraint set the
       unbound variable u points to (ATTACHMENT - what Constraint.inform
       establishes and bind's set merging preserves);
     - r = V u, done: target = Top and not strict (true whatever u becomes).
   [Kp pend s] is K with "holds" weakened to "holds or is not done and in
   [pend]", the state in the middle of [bind] between recording the binding
   and the re-check round; [cc_K]: a successful check_constraints over
   [pend] = the set of v turns Kp into K (closed form of the round: [loop_lrel]).
   [Kp_rebind]: what binding an unbound variable does to K.  The induction on
   fuel ([specsK_all]) runs in the program logic [ok] of Infer/Inv.v, which
   threads the store invariant [inv] (acyclic, well-scoped) and [ext].
   Result: [sub_constraints_hold] (clause (iii) + the invariant of the
   unresolved constraints), [sub_constraints_sem] (read with a grounding). *)
From Coq Require Import List Arith Bool Lia Permutation.
Import ListNotations.
From TF Require Import Base.Hier Base.Ty Sub.SubSpec Infer.Store Infer.Engine Infer.Run
  Infer.Witness Infer.Check Infer.Sched Infer.Inv Infer.Sound Infer.SchedIndep.
From TF Require Infer.Lub.

Unset Implicit Arguments.


(* ================================================================== *)
(* Part 1.  Read-only constraints do not influence the variable cells:  *)
(* a run of a pure program is simulated, on the [vars] component, by    *)
(* the run of the same program with all constraints erased.             *)
(* ================================================================== *)
Section Erase.
Variable H : hier.

(* s: the store of the real run; s0: the store of the constraint-free run *)
Definition Rv (s s0 : store) : Prop :=
  vars s0 = vars s /\ nocs s0 /\ allpure H s /\ length (csets s0) = length (csets s).

Definition sim2 {A} (m m0 : M A) : Prop :=
  forall s s0, Rv s s0 -> forall a s', m s = MOk a s' ->
    exists s0', m0 s0 = MOk a s0' /\ Rv s' s0'.

Notation sim m := (sim2 m m).

Lemma sim_ret {A} (a : A) : sim (ret a).
Proof. intros s s0 R a' s' E. inversion E; subst. exists s0. split; [reflexivity|exact R]. Qed.

Lemma sim_fail {A} e : sim (@fail A e).
Proof. intros s s0 R a' s' E. discriminate. Qed.

Lemma sim_bind {A B} (m m0 : M A) (k k0 : A -> M B) :
  sim2 m m0 -> (forall a, sim2 (k a) (k0 a)) -> sim2 (bindM m k) (bindM m0 k0).
Proof.
  intros Sm Sk s s0 R b s' E. unfold bindM in *.
  destruct (m s) as [a s1|e s1] eqn:Em; [|discriminate].
  destruct (Sm s s0 R a s1 Em) as (s01 & -> & R1).
  apply (Sk a s1 s01 R1 b s' E).
Qed.

Lemma sim_gets {A} (g : store -> A) :
  (forall s s0, vars s0 = vars s -> g s = g s0) -> sim (gets g).
Proof.
  intros G s s0 R a s' E. inversion E; subst. exists s0. split; [|exact R].
  unfold gets. rewrite (G s' s0 (proj1 R)). reflexivity.
Qed.

Lemma sim_lift {A} (r : store -> res A) :
  (forall s s0, vars s0 = vars s -> r s = r s0) -> sim (lift r).
Proof.
  intros G s s0 R a s' E. unfold lift in *. rewrite <- (G s s0 (proj1 R)).
  destruct (r s); inversion E; subst. exists s0. split; [reflexivity|exact R].
Qed.

Lemma sim_modify (g : store -> store) :
  (forall s s0, Rv s s0 -> Rv (g s) (g s0)) -> sim (modify g).
Proof.
  intros G s s0 R a s' E. inversion E; subst. exists (g s0). split; [reflexivity|auto].
Qed.

Lemma Rv_cell s s0 v : Rv s s0 -> cell_of s0 v = cell_of s v.
Proof. intros R. apply cell_of_vars. apply R. Qed.

Lemma sim_upd_cell v g : sim (upd_cell v g).
Proof.
  unfold upd_cell. apply sim_modify. intros s s0 R. rewrite (Rv_cell s s0 v R).
  destruct R as (Ev & N & P & Lc). split; [|split; [|split]].
  - unfold set_cell. cbn [vars]. rewrite Ev. reflexivity.
  - apply nocs_set_cell. exact N.
  - eapply allpure_constrs; [|exact P]. reflexivity.
  - exact Lc.
Qed.

Lemma sim_fresh w : sim (fresh w).
Proof.
  intros s s0 (Ev & N & P & Lc) a s' E. unfold fresh, alloc_var in *. inversion E; subst. clear E.
  eexists. split; [rewrite Ev; reflexivity|]. split; [|split; [|split]].
  - cbn [vars]. rewrite Lc. reflexivity.
  - intros i. unfold cset_of. cbn [csets].
    destruct (Nat.lt_ge_cases i (length (csets s0))) as [L|L].
    + rewrite app_nth1 by exact L. apply N.
    + destruct (Nat.eq_dec i (length (csets s0))) as [->|Ne].
      * rewrite app_nth2 by lia. rewrite Nat.sub_diag. reflexivity.
      * rewrite nth_overflow; [reflexivity|]. rewrite app_length. cbn. lia.
  - eapply allpure_constrs; [|exact P]. reflexivity.
  - cbn [csets]. rewrite !app_length. rewrite Lc. reflexivity.
Qed.

Lemma sim_fresh_list : forall n, sim (fresh_list n).
Proof.
  induction n as [|n IH]; cbn [fresh_list]; [apply sim_ret|].
  apply sim_bind; [apply sim_fresh|]. intros v.
  apply sim_bind; [exact IH|]. intros r. apply sim_ret.
Qed.

Lemma sim_forM {A} (f : A -> M unit) : (forall x, sim (f x)) -> forall l, sim (forM l f).
Proof.
  intros F. induction l as [|x l IH]; cbn [forM]; [apply sim_ret|].
  apply sim_bind; auto.
Qed.

Lemma loop_cslen n v : forall l s u s', allpure H s -> loop H n v l s = MOk u s' ->
  length (csets s') = length (csets s).
Proof.
  induction l as [|x l IH]; intros s u s' P; [intros X; inversion X; reflexivity|].
  rewrite (loop_cons H n v x l s (allpure_lpure H s _ P)).
  destruct (act_of H n s x) eqn:Ea; try discriminate; intros X;
    (apply IH in X; [rewrite X|apply allpure_app; exact P]); cbn [app]; try reflexivity;
    unfold rmc, set_cset; cbn [csets markd set_constr]; apply upd_length.
Qed.

(* a re-check round: only csets / constrs / sched change in the real run,
   nothing happens in the constraint-free run *)
Lemma cc_vars n v s u s' : allpure H s -> check_constraints H n v s = MOk u s' ->
  vars s' = vars s /\ allpure H s' /\ length (csets s') = length (csets s).
Proof.
  intros P. destruct n as [|f]; [discriminate|]. rewrite cc_S_eq. cbv zeta.
  set (p := cset_of s (c_cs (cell_of s v))).
  assert (G : forall l s1, vars s1 = vars s -> constrs s1 = constrs s -> csets s1 = csets s ->
            loop H f v l s1 = MOk u s' ->
            vars s' = vars s /\ allpure H s' /\ length (csets s') = length (csets s)).
  { intros l s1 Ev Ek Ec E. assert (P1 : allpure H s1) by (eapply allpure_constrs; eauto).
    split; [|split].
    - rewrite <- Ev. eapply loop_vars; [|exact E]. apply allpure_lpure. exact P1.
    - eapply loop_allpure; eauto.
    - rewrite <- Ec. eapply loop_cslen; eauto. }
  destruct (2 <=? length p); [destruct (sched s)|]; apply G; reflexivity.
Qed.

Lemma cc_nocs n v s0 : nocs s0 -> check_constraints H (S n) v s0 = MOk tt s0.
Proof.
  intros N. rewrite check_constraints_S. unfold bindM at 1. unfold gets at 1. rewrite N.
  reflexivity.
Qed.

Lemma sim_cc n v : sim (check_constraints H n v).
Proof.
  intros s s0 R [] s' E. destruct n as [|n]; [discriminate|].
  destruct (cc_vars _ _ _ _ _ (proj1 (proj2 (proj2 R))) E) as (Ev & P' & Lc').
  exists s0. split; [apply cc_nocs; apply R|].
  destruct R as (Ev0 & N & P & Lc). split; [congruence|split; [auto|split; [auto|congruence]]].
Qed.

Ltac sim_rd :=
  let s := fresh "s" in let s0 := fresh "s0" in let E := fresh "E" in
  intros s s0 E; symmetry in E;
  first [ apply occurs_f_vars; exact E
        | apply vars_f_vars; exact E
        | rewrite ?(follow_vars s s0 _ E); rewrite ?(cell_of_vars s s0 _ E); reflexivity ].

Lemma Rv_set_cset_union s s0 iv iw : Rv s s0 ->
  Rv (set_cset s (c_cs (cell_of s iw)) (union (cset_of s (c_cs (cell_of s iv))) (cset_of s (c_cs (cell_of s iw)))))
     (set_cset s0 (c_cs (cell_of s0 iw)) (union (cset_of s0 (c_cs (cell_of s0 iv))) (cset_of s0 (c_cs (cell_of s0 iw))))).
Proof.
  intros (Ev & N & P & Lc). rewrite !N. cbn [union fold_right]. split; [exact Ev|split; [|split]].
  - apply nocs_set_cset. exact N.
  - eapply allpure_constrs; [|exact P]. reflexivity.
  - unfold set_cset. cbn [csets]. rewrite !upd_length. exact Lc.
Qed.

Lemma Rv_set_cset_fold s s0 v vs : Rv s s0 ->
  Rv (set_cset s (c_cs (cell_of s v))
        (fold_right (fun w acc => union (cset_of s (c_cs (cell_of s w))) acc) (cset_of s (c_cs (cell_of s v))) vs))
     (set_cset s0 (c_cs (cell_of s0 v))
        (fold_right (fun w acc => union (cset_of s0 (c_cs (cell_of s0 w))) acc) (cset_of s0 (c_cs (cell_of s0 v))) vs)).
Proof.
  intros (Ev & N & P & Lc). rewrite (fold_union_nocs s0 _ vs N). split; [exact Ev|split; [|split]].
  - apply nocs_set_cset. exact N.
  - eapply allpure_constrs; [|exact P]. reflexivity.
  - unfold set_cset. cbn [csets]. rewrite !upd_length. exact Lc.
Qed.

Ltac sim_step :=
  first
    [ apply sim_ret
    | apply sim_fail
    | apply sim_fresh_list
    | apply sim_fresh
    | apply sim_cc
    | apply sim_upd_cell
    | apply sim_gets; sim_rd
    | apply sim_lift; sim_rd
    | apply sim_bind; [|intro]
    | apply sim_forM; intro
    | match goal with
      | |- sim2 (if ?c then _ else _) _ => destruct c
      | |- sim2 (match ?x with _ => _ end) _ => destruct x
      end ].

Definition sims (f : nat) : Prop :=
  (forall sub skb skw a b, sim (unify H f sub skb skw a b)) /\
  (forall v t, sim (bind H f v t)) /\
  (forall v o, sim (above H f v o)) /\
  (forall v o, sim (below H f v o)) /\
  (forall pl t, sim (fix_ty H f pl t)).

Lemma sims_0 : sims 0.
Proof. repeat split; intros; apply sim_fail. Qed.

Lemma sims_step f : sims f -> sims (S f).
Proof.
  intros (IHu & IHb & IHa & IHl & IHx).
  assert (Hb : forall v t, sim (bind H (S f) v t)).
  { intros v t. rewrite bind_S. unfold set_wild, set_bound, set_cs.
    repeat sim_step; auto.
    - apply sim_modify. intros s s0 R. apply Rv_set_cset_union. exact R.
    - apply sim_modify. intros s s0 R. apply Rv_set_cset_fold. exact R. }
  assert (Ha : forall v o, sim (above H (S f) v o)).
  { intros v o. rewrite above_S. unfold set_wild, set_lower. repeat sim_step; auto. }
  assert (Hl : forall v o, sim (below H (S f) v o)).
  { intros v o. rewrite below_S. unfold set_wild, set_upper. repeat sim_step; auto. }
  assert (Hx : forall pl t, sim (fix_ty H (S f) pl t)).
  { intros pl t. rewrite fix_ty_S. repeat sim_step; auto.
    generalize (variance H o) as vs.
    induction args as [|p ps IHp]; intros [|b0 vs]; repeat sim_step; auto. }
  repeat split; auto.
  intros sub skb skw a b. rewrite unify_S. repeat sim_step; auto.
  generalize (variance H o) as vs. revert args0.
  induction args as [|x xs IHxs]; intros [|y ys] [|b0 vs]; repeat sim_step; auto.
Qed.

Theorem sims_all : forall f, sims f.
Proof. induction f as [|f IH]; [apply sims_0|apply sims_step; exact IH]. Qed.

Lemma sim_unify f sub skb skw a b : sim (unify H f sub skb skw a b).
Proof. apply sims_all. Qed.
Lemma sim_bind_var f v t : sim (bind H f v t).
Proof. apply sims_all. Qed.
Lemma sim_fix_ty f pl t : sim (fix_ty H f pl t).
Proof. apply sims_all. Qed.

Lemma sim_eval_sty env : forall t, sim (eval_sty env t).
Proof.
  induction t as [i| |o args IH] using sty_ind'; cbn [eval_sty]; repeat sim_step.
  induction IH as [|a r Ha Hr IHr]; repeat sim_step; auto.
Qed.

Lemma sim_apply fuel f x fixb : sim (apply H fuel f x fixb).
Proof.
  unfold apply. repeat sim_step; auto using sim_bind_var, sim_unify, sim_fix_ty.
Qed.

(* ---- operations of the real run that the constraint-free run skips ---- *)
Definition vq (s s1 : store) : Prop :=
  vars s1 = vars s /\ allpure H s1 /\ length (csets s1) = length (csets s).

Lemma vq_trans s s1 s2 : vq s s1 -> vq s1 s2 -> vq s s2.
Proof. intros (a & b & c) (a' & b' & c'). split; [congruence|split; [auto|congruence]]. Qed.

Lemma vq_refl s : allpure H s -> vq s s.
Proof. intros P. split; [reflexivity|split; [exact P|reflexivity]]. Qed.

Lemma Rv_vq s s0 s1 : Rv s s0 -> vq s s1 -> Rv s1 s0.
Proof.
  intros (Ev & N & P & Lc) (a & b & c). split; [congruence|split; [exact N|split; [exact b|congruence]]].
Qed.

Definition quiet {A} (m : M A) : Prop :=
  forall s, allpure H s -> forall a s', m s = MOk a s' -> vq s s'.

Lemma sim_quiet_l {A B} (m : M A) (k : A -> M B) (k0 : M B) :
  quiet m -> (forall a, sim2 (k a) k0) -> sim2 (bindM m k) k0.
Proof.
  intros Q K s s0 R b s' E. unfold bindM in E.
  destruct (m s) as [a s1|e s1] eqn:Em; [|discriminate].
  apply (K a s1 s0); [|exact E]. eapply Rv_vq; [exact R|]. eapply Q; eauto. apply R.
Qed.

Lemma quiet_forM_inform c : forall vs,
  quiet (forM vs (fun v =>
      cv <- gets (fun s => cell_of s v) ;;
      match c_bound cv with
      | Some _ => fail (ECrash site_inform_bound)
      | None => modify (fun s => let i := c_cs (cell_of s v) in set_cset s i (ins c (cset_of s i)))
      end)).
Proof.
  induction vs as [|v vs IH]; intros s P a s' E; cbn [forM] in E.
  - inversion E; subst. apply vq_refl. exact P.
  - unfold bindM at 1 in E. unfold bindM at 1 in E. unfold gets at 1 in E.
    destruct (c_bound (cell_of s v)); [discriminate|]. unfold modify at 1 in E.
    match type of E with forM _ _ ?sx = _ => set (s1 := sx) in * end.
    assert (Q1 : vq s s1).
    { split; [reflexivity|split]; [eapply allpure_constrs; [|exact P]; reflexivity|].
      unfold s1, set_cset. cbn [csets]. apply upd_length. }
    eapply vq_trans; [exact Q1|]. eapply IH; [apply Q1|exact E].
Qed.

Lemma quiet_new_constraint fuel k : pureK H k -> quiet (new_constraint H fuel k).
Proof.
  intros Pk s P a s' E. unfold new_constraint in E.
  unfold bindM at 1 in E. cbn [alloc_constr] in E.
  set (s1 := {| vars := vars s; csets := csets s; constrs := constrs s ++ [k]; sched := sched s |}) in *.
  assert (P1 : allpure H s1) by (apply (allpure_alloc_constr H s k P Pk)).
  assert (Q1 : vq s s1) by (split; [reflexivity|split; [exact P1|reflexivity]]).
  unfold bindM at 1 in E. unfold lift at 1 in E.
  destruct (closure_f fuel s1 (constr_terms k) []) as [vs|e]; [|discriminate].
  unfold bindM at 1 in E.
  match type of E with match forM ?vs ?f ?s with _ => _ end = _ =>
    destruct (forM vs f s) as [u s2|e s2] eqn:E2; [|discriminate] end.
  pose proof (quiet_forM_inform _ vs s1 P1 u s2 E2) as Q2.
  unfold bindM at 1 in E.
  rewrite (fulfill_pure H fuel (length (constrs s)) s2) in E by apply Q2.
  eapply vq_trans; [exact Q1|]. eapply vq_trans; [exact Q2|].
  destruct (pfc H fuel s2 (constr_of s2 (length (constrs s)))); inversion E; subst.
  - split; [reflexivity|split; [apply allpure_markd; apply Q2|reflexivity]].
  - apply vq_refl. apply Q2.
Qed.

Lemma quiet_eval_constr fuel env sc : pure_sconstr H sc -> quiet (eval_constr H fuel env sc).
Proof.
  destruct sc as [r t strict|r alts]; cbn [pure_sconstr]; [|tauto].
  destruct r as [i| |]; try tauto. destruct t as [| |a [|x xs]]; try tauto. intros Va.
  cbn [eval_constr eval_sty]. intros s P u s'. unfold bindM, gets, ret.
  apply quiet_new_constraint; auto.
  split; [reflexivity|]. cbn [k_alts]. intros t Et. inversion Et; subst. rewrite follow_O.
  exists a. split; [reflexivity|]. unfold Engine.basic, arity. rewrite Va. reflexivity.
Qed.

Lemma sim_forM_quiet {A B} (Q : A -> Prop) (f : A -> M unit) (k : M B) (k0 : M B) :
  (forall x, Q x -> quiet (f x)) -> sim2 k k0 ->
  forall l, Forall Q l -> sim2 (forM l f ;;; k) k0.
Proof.
  intros F K. induction 1 as [|x l Hx Hl IH]; cbn [forM].
  - intros s s0 R b s' E. apply (K s s0 R b s' E).
  - intros s s0 R b s' E. unfold bindM at 1 2 in E.
    destruct (f x s) as [u s1|e s1] eqn:E1; [|discriminate].
    apply (IH s1 s0); [|exact E]. eapply Rv_vq; [exact R|]. eapply F; eauto. apply R.
Qed.

Definition erase_schema (sc : schema) : schema := mkSchema (s_n sc) (s_body sc) [].
Definition erase_cmd (c : cmd) : cmd :=
  match c with CInst sc => CInst (erase_schema sc) | _ => c end.

Lemma sim_instance fuel sc : pure_schema H sc ->
  sim2 (instance H fuel sc) (instance H fuel (erase_schema sc)).
Proof.
  intros Ps. unfold instance. cbn [erase_schema s_n s_body s_constrs forM].
  apply sim_bind; [apply sim_fresh_list|]. intros env.
  apply sim_bind; [apply sim_eval_sty|]. intros body0.
  apply (sim_forM_quiet (pure_sconstr H)); [|apply sim_fix_ty|exact Ps].
  intros x Hx. apply quiet_eval_constr. exact Hx.
Qed.

Lemma sim_run_cmd fuel c vals : pure_cmd H c ->
  sim2 (run_cmd H fuel c vals) (run_cmd H fuel (erase_cmd c) vals).
Proof.
  destruct c as [sc|f x fixb|a b sub|a pl]; cbn [pure_cmd run_cmd erase_cmd]; intros Pc.
  - apply sim_bind; [apply sim_instance; exact Pc|intro; apply sim_ret].
  - apply sim_bind; [apply sim_apply|intro; apply sim_ret].
  - apply sim_bind; [apply sim_unify|intro; apply sim_ret].
  - apply sim_bind; [apply sim_fix_ty|intro; apply sim_ret].
Qed.

Lemma sim_run_cmds fuel : forall cs i vals s s0 vals' s', Forall (pure_cmd H) cs ->
  Rv s s0 -> run_cmds H fuel cs i vals s = (None, vals', s') ->
  exists s0', run_cmds H fuel (map erase_cmd cs) i vals s0 = (None, vals', s0') /\ Rv s' s0'.
Proof.
  induction cs as [|c cs IH]; intros i vals s s0 vals' s' Pc R E; cbn [run_cmds map] in *.
  - inversion E; subst. eauto.
  - inversion Pc as [|c' cs' Hc Hcs]; subst.
    destruct (run_cmd H fuel c vals s) as [v1 s1|e1 s1] eqn:E1; [|discriminate].
    destruct (sim_run_cmd fuel c vals Hc) with (s := s) (s0 := s0) (a := v1) (s' := s1)
      as (s01 & -> & R1); auto.
    eapply IH; eauto.
Qed.

Lemma Rv_empty sc : Rv (empty_store sc) (empty_store sc).
Proof.
  split; [reflexivity|split; [|split; [apply allpure_empty|reflexivity]]].
  intros i. unfold cset_of. cbn. destruct i; reflexivity.
Qed.

End Erase.


(* ================================================================== *)
(* Part 2.  The program class and clauses (i), (ii), (iv)               *)
(* ================================================================== *)
Section Class.
Variable H : hier.
Hypothesis W : wf_hier H.

(* x <= A / x < A with x a schematic variable of the schema, A a base operator *)
Definition psc (n : nat) (sc : sconstr) : Prop :=
  match sc with
  | SCSub (SVar i) (SOp a []) _ => i < n /\ variance H a = []
  | _ => False
  end.

Inductive cmdS (n : nat) : cmd -> Prop :=
| cS_inst sc : styg H (s_n sc) (s_body sc) -> Forall (psc (s_n sc)) (s_constrs sc) -> cmdS n (CInst sc)
| cS_apply f x b : f < n -> x < n -> cmdS n (CApply f x b).

(* n = number of values pushed so far *)
Fixpoint progS (n : nat) (cs : list cmd) : Prop :=
  match cs with
  | [] => True
  | c :: r => cmdS n c /\ progS (S n) r
  end.

Lemma psc_pure n sc : psc n sc -> pure_sconstr H sc.
Proof.
  destruct sc as [r t st|r alts]; cbn; [|tauto].
  destruct r as [i| |]; try tauto. destruct t as [| |a [|x xs]]; tauto.
Qed.

Lemma cmdS_pure n c : cmdS n c -> pure_cmd H c.
Proof.
  intros [sc _ Pc|f x b _ _]; cbn; [|exact I].
  eapply Forall_impl; [|exact Pc]. intros a. apply psc_pure.
Qed.

Lemma progS_pure : forall cs n, progS n cs -> pure_prog H cs.
Proof.
  induction cs as [|c cs IH]; intros n P; [constructor|].
  destruct P as [Pc Pr]. constructor; [eapply cmdS_pure; eauto|eapply IH; eauto].
Qed.

Lemma progS_erase : forall cs n, progS n cs -> progP H n (map erase_cmd cs).
Proof.
  induction cs as [|c cs IH]; intros n P; cbn [map progP]; [exact I|].
  destruct P as [Pc Pr]. split; [|apply IH; exact Pr].
  destruct Pc as [sc Sb _|f x b Lf Lx]; cbn [erase_cmd]; constructor; auto.
Qed.

Lemma steps_erase : forall cs n, steps_of (map erase_cmd cs) n = steps_of cs n.
Proof.
  induction cs as [|c cs IH]; intros n; [reflexivity|].
  destruct c; cbn [map erase_cmd steps_of]; rewrite IH; reflexivity.
Qed.

Lemma semeq_vars s s0 : vars s0 = vars s -> semeq s s0.
Proof.
  intros E. split; [rewrite E; reflexivity|]. intros v.
  rewrite (cell_of_vars s0 s v E). repeat split.
Qed.

Lemma sat_vars th s s0 : vars s0 = vars s -> sat H th s0 <-> sat H th s.
Proof.
  intros E. split.
  - apply sat_semeq. apply semeq_vars. exact E.
  - apply sat_semeq'. apply semeq_vars. exact E.
Qed.

(* the run of a pure program agrees, on the variable cells and the values,
   with the run of the program whose schemas have their constraints erased *)
Theorem sub_erase fuel sc prog vals s : progS 0 prog ->
  run_cmds H fuel prog 0 [] (empty_store sc) = (None, vals, s) ->
  exists s0, run_cmds H fuel (map erase_cmd prog) 0 [] (empty_store sc) = (None, vals, s0) /\
             vars s0 = vars s /\ progP H 0 (map erase_cmd prog).
Proof.
  intros P R.
  destruct (sim_run_cmds H fuel prog 0 [] _ _ vals s (progS_pure _ _ P) (Rv_empty H sc) R)
    as (s0 & R0 & Ev & _).
  exists s0. split; [exact R0|split; [exact Ev|apply progS_erase; exact P]].
Qed.

Theorem sub_sound12 fuel sc prog vals s : progS 0 prog ->
  run_cmds H fuel prog 0 [] (empty_store sc) = (None, vals, s) ->
  forall th, sat H th s -> forall f x r, In (f, x, r) (steps_of prog 0) ->
    StepSem H th (val vals f) (val vals x) (val vals r).
Proof.
  intros P R th S f x r Hin.
  destruct (sub_erase fuel sc prog vals s P R) as (s0 & R0 & Ev & P0).
  apply (core_sound H W fuel sc _ vals s0 P0 R0 th); [apply (sat_vars th s s0 Ev); exact S|].
  rewrite steps_erase. exact Hin.
Qed.

Theorem sub_satisfiable fuel sc prog vals s : progS 0 prog ->
  run_cmds H fuel prog 0 [] (empty_store sc) = (None, vals, s) ->
  exists th, sat H th s /\ forall v, c_bound (cell_of s v) = None -> th v = canon s v.
Proof.
  intros P R.
  destruct (sub_erase fuel sc prog vals s P R) as (s0 & R0 & Ev & P0).
  destruct (core_satisfiable H W fuel sc _ vals s0 P0 R0) as (th & S & C).
  exists th. split; [apply (sat_vars th s s0 Ev); exact S|].
  intros v Hv. unfold canon. rewrite <- !(cell_of_vars s0 s v Ev). apply C.
  rewrite (cell_of_vars s0 s v Ev). exact Hv.
Qed.

Theorem sub_bounded fuel sc prog vals s : progS 0 prog ->
  run_cmds H fuel prog 0 [] (empty_store sc) = (None, vals, s) ->
  forall v t o args, c_bound (cell_of s v) = Some t ->
    (c_lower (cell_of s v) <> None \/ c_upper (cell_of s v) <> None) ->
    follow s t = O o args -> args = [].
Proof.
  intros P R v t o args Hv Hb Ef.
  destruct (sub_erase fuel sc prog vals s P R) as (s0 & R0 & Ev & P0).
  apply (core_bounded H W fuel sc _ vals s0 P0 R0 v t o args).
  - rewrite (cell_of_vars s0 s v Ev). exact Hv.
  - rewrite (cell_of_vars s0 s v Ev). exact Hb.
  - rewrite (follow_vars s0 s t Ev). exact Ef.
Qed.

(* the forward invariant of Sound.v holds of the variable cells *)
Theorem sub_final_cells fuel sc prog vals s : progS 0 prog ->
  run_cmds H fuel prog 0 [] (empty_store sc) = (None, vals, s) ->
  (forall v t, c_bound (cell_of s v) = Some t -> tg H (length (vars s)) t) /\
  (forall v, bok H (cell_of s v)) /\ Forall (tg H (length (vars s))) vals.
Proof.
  intros P R.
  destruct (sub_erase fuel sc prog vals s P R) as (s0 & R0 & Ev & P0).
  destruct (core_final H W fuel sc _ vals s0 P0 R0) as (J0 & _ & Fv).
  rewrite <- Ev. split; [|split; [|exact Fv]].
  - intros v t. rewrite <- (cell_of_vars s0 s v Ev). apply (J_sc H s0 J0).
  - intros v. rewrite <- (cell_of_vars s0 s v Ev). apply (J_b H s0 J0).
Qed.

End Class.


(* ================================================================== *)
(* Part 3.  Resolution of a term through the bindings, fuel-free        *)
(* ================================================================== *)
Inductive rsv (s : store) : tyv -> tyv -> Prop :=
| rsv_unb v : c_bound (cell_of s v) = None -> rsv s (V v) (V v)
| rsv_bnd v t r : c_bound (cell_of s v) = Some t -> rsv s t r -> rsv s (V v) r
| rsv_op o args : rsv s (O o args) (O o args).

Lemma rsv_det s t r1 : rsv s t r1 -> forall r2, rsv s t r2 -> r1 = r2.
Proof.
  induction 1 as [v Hv|v t r Hv Hr IH|o args]; intros r2 R2; inversion R2; subst; auto; try congruence.
  apply IH. rewrite Hv in *. match goal with E : Some _ = Some _ |- _ => inversion E; subst end. assumption.
Qed.

Lemma rsv_nb s t r : rsv s t r -> nb s r.
Proof. induction 1; cbn; auto. Qed.

Lemma rsv_chainl s t r : rsv s t r ->
  exists l, chainl s t l /\ forall fuel, length l <= fuel -> follow_f fuel s t = r.
Proof.
  induction 1 as [v Hv|v t r Hv Hr (l & C & F)|o args].
  - exists []. split; [constructor; exact Hv|]. intros fuel _. destruct fuel; cbn; rewrite Hv; reflexivity.
  - exists (v :: l). split; [econstructor; eauto|]. intros fuel L. destruct fuel as [|f]; cbn in L; [lia|].
    cbn. rewrite Hv. apply F. lia.
  - exists []. split; [constructor|]. intros fuel _. destruct fuel; reflexivity.
Qed.

Lemma rsv_follow s t r : rsv s t r -> follow s t = r.
Proof.
  intros R. destruct (rsv_chainl s t r R) as (l & C & F). unfold follow. apply F.
  pose proof (chainl_length C). lia.
Qed.

Lemma chainl_rsv s t l : chainl s t l -> exists r, rsv s t r.
Proof.
  induction 1 as [v Hv|v t l Hv Hc (r & R)|o args].
  - exists (V v). constructor. exact Hv.
  - exists r. econstructor; eauto.
  - exists (O o args). constructor.
Qed.

Lemma rsv_total s t : core s -> exists r, rsv s t r.
Proof.
  intros C. destruct t as [v|o args]; [|exists (O o args); constructor].
  destruct (core_chain C v) as (l & Cl). eapply chainl_rsv; eauto.
Qed.

Lemma follow_rsv s t : core s -> rsv s t (follow s t).
Proof.
  intros C. destruct (rsv_total s t C) as (r & R). rewrite (rsv_follow s t r R). exact R.
Qed.

Lemma rsv_bound_eq s s' : (forall v, c_bound (cell_of s' v) = c_bound (cell_of s v)) ->
  forall t r, rsv s t r -> rsv s' t r.
Proof.
  intros E t r R. induction R as [v Hv|v t r Hv Hr IH|o args].
  - constructor. rewrite E. exact Hv.
  - econstructor; eauto. rewrite E. exact Hv.
  - constructor.
Qed.

Lemma rsv_tsc s n : wsc s -> n = length (vars s) -> forall t r, rsv s t r -> tsc n t -> tsc n r.
Proof.
  intros Ws -> t r R. induction R as [v Hv|v t r Hv Hr IH|o args]; auto.
  intros _. apply IH. eapply sc_bound; eauto.
Qed.

(* what a term resolves to after the unbound variable v has been bound to a
   term that resolves to rt *)
Definition sw (v : nat) (rt r : tyv) : tyv :=
  match r with V u => if Nat.eqb u v then rt else r | O _ _ => r end.

Lemma rsv_rebind s s2 v t rt :
  c_bound (cell_of s v) = None -> c_bound (cell_of s2 v) = Some t ->
  (forall y, y <> v -> c_bound (cell_of s2 y) = c_bound (cell_of s y)) ->
  rsv s2 t rt ->
  forall x r, rsv s x r -> rsv s2 x (sw v rt r).
Proof.
  intros Hv Ht Ho Rt x r R. induction R as [u Hu|u t' r Hu Hr IH|o args].
  - cbn [sw]. destruct (Nat.eqb u v) eqn:E.
    + apply Nat.eqb_eq in E. subst u. econstructor; eauto.
    + apply Nat.eqb_neq in E. constructor. rewrite Ho by exact E. exact Hu.
  - assert (Ne : u <> v) by (intros ->; congruence).
    econstructor; [rewrite Ho by exact Ne; exact Hu|exact IH].
  - constructor.
Qed.

(* ---- sorted sets ---- *)
Lemma In_ins x y l : In x (ins y l) <-> x = y \/ In x l.
Proof.
  induction l as [|z l IH]; cbn [ins]; [cbn; intuition congruence|].
  destruct (y <? z); [cbn; intuition congruence|]. destruct (y =? z) eqn:E.
  - apply Nat.eqb_eq in E. subst. cbn. intuition congruence.
  - cbn [In]. rewrite IH. tauto.
Qed.

Lemma In_union x a b : In x (union a b) <-> In x a \/ In x b.
Proof.
  unfold union. induction a as [|y a IH]; cbn [fold_right]; [cbn; tauto|].
  rewrite In_ins, IH. cbn. intuition congruence.
Qed.

Lemma In_remove_nat x y l : In x (remove_nat y l) <-> In x l /\ x <> y.
Proof.
  unfold remove_nat. rewrite filter_In. rewrite negb_true_iff, Nat.eqb_neq. split; intros [A B]; split; auto.
Qed.

Lemma In_fold_union (g : nat -> list nat) base vs x :
  In x (fold_right (fun w acc => union (g w) acc) base vs) <-> In x base \/ exists w, In w vs /\ In x (g w).
Proof.
  induction vs as [|w vs IH]; cbn [fold_right].
  - split; [auto|]. intros [A|(w & [] & _)]; auto.
  - rewrite In_union, IH. split.
    + intros [A|[A|(w' & A & B)]]; auto; right; [exists w|exists w']; cbn; auto.
    + intros [A|(w' & [<-|A] & B)]; auto. right; right. eauto.
Qed.

(* ================================================================== *)
(* Part 4.  The constraint invariant K                                  *)
(* ================================================================== *)
Section KInv.
Variable H : hier.
Hypothesis W : wf_hier H.
Local Notation inv := (invb true).
Local Notation ole := (Lub.ole H).

(* the constraint  o <= a  (o < a when st) between operators holds *)
Definition hold (o a : nat) (st : bool) : Prop :=
  (o = Bottom \/ a = Top \/ (basic H o = true /\ ole o a)) /\ (st = true -> o <> a).

(* the state of constraint number c (object k) in store s; [pend] lists the
   constraints that are about to be re-checked *)
Definition kst (s : store) (pend : list nat) (c : nat) (k : constr) : Prop :=
  k_elim k = false /\ (exists x, k_ref k = V x) /\
  exists a, k_alts k = [O a []] /\ basic H a = true /\
    forall r, rsv s (k_ref k) r ->
      match r with
      | O o args => hold o a (k_strict k) \/ (k_done k = false /\ In c pend)
      | V u => if k_done k then a = Top /\ k_strict k = false
               else In c (cset_of s (c_cs (cell_of s u)))
      end.

Definition Kp (pend : list nat) (s : store) : Prop :=
  forall c, c < length (constrs s) -> kst s pend c (constr_of s c).
Definition K : store -> Prop := Kp [].

Lemma kst_pureK s pend c k : kst s pend c k -> pureK H k.
Proof.
  intros (El & _ & a & Ea & Ba & _). split; [exact El|]. intros t Et. rewrite Ea in Et.
  inversion Et; subst. eauto.
Qed.

Lemma Kp_allpure pend s : Kp pend s -> allpure H s.
Proof.
  intros Kk c. destruct (Nat.lt_ge_cases c (length (constrs s))) as [L|L].
  - eapply kst_pureK. apply Kk. exact L.
  - rewrite constr_of_oob by exact L. split; [reflexivity|]. intros t Et. discriminate.
Qed.

Lemma K_Kp pend s : K s -> Kp pend s.
Proof.
  intros Kk c Lc. destruct (Kk c Lc) as (El & Ex & a & Ea & Ba & Hr). split; [exact El|split; [exact Ex|]].
  exists a. split; [exact Ea|split; [exact Ba|]]. intros r R. specialize (Hr r R).
  destruct r as [u|o args]; [exact Hr|]. destruct Hr as [Hh|(_ & [])]. left. exact Hh.
Qed.

(* ---- the verdict of a re-check, read back ---- *)
Lemma basic_top : basic H Top = true.
Proof. apply Lub.basic_iff. apply (wf_top H W). Qed.

Lemma osub_top x : osub H false x Top = true.
Proof. apply Lub.osubF_iff; auto. right; left; reflexivity. Qed.

Lemma pfc_hold n s k a o args : k_alts k = [O a []] -> basic H a = true ->
  follow s (k_ref k) = O o args -> (forall e, pfc H n s k <> PErr e) -> hold o a (k_strict k).
Proof.
  intros Ea Ba Ef Ne. destruct n as [|f]; [exfalso; eapply Ne; reflexivity|].
  cbn [pfc] in Ne. rewrite Ea in Ne.
  destruct (ubase H f s (k_ref k) a) as [e|]; [exfalso; eapply Ne; reflexivity|].
  destruct f as [|f]; [exfalso; eapply Ne; reflexivity|].
  cbn [match_f] in Ne. rewrite follow_O, Ef in Ne. cbn [andb] in Ne.
  assert (Nab : basic H o = false -> (o =? a) = false).
  { intros Bo. apply Nat.eqb_neq. intros ->. congruence. }
  assert (St : k_strict k = true -> o <> a).
  { intros Es. rewrite Es in Ne. intros ->.
    destruct ((a =? Bottom) || (a =? Top)) eqn:E1.
    - rewrite Ba, Nat.eqb_refl in Ne. cbn in Ne. eapply Ne. reflexivity.
    - rewrite Ba, Nat.eqb_refl in Ne. cbn in Ne. eapply Ne. reflexivity. }
  split; [|exact St].
  destruct ((o =? Bottom) || (a =? Top)) eqn:E1.
  - apply orb_true_iff in E1. destruct E1 as [E|E]; apply Nat.eqb_eq in E; auto.
  - right; right. destruct (basic H o) eqn:Bo.
    + split; [reflexivity|].
      destruct ((o =? a) || osub H false o a) eqn:E2; [|exfalso; eapply Ne; reflexivity].
      apply orb_true_iff in E2. destruct E2 as [E|E].
      * apply Nat.eqb_eq in E. subst. apply Lub.ole_refl.
      * apply Lub.osubF_iff in E; auto.
    + rewrite (Nab eq_refl) in Ne. cbn in Ne. exfalso. eapply Ne. reflexivity.
Qed.
Lemma pfc_done_var n s k a u : k_alts k = [O a []] ->
  follow s (k_ref k) = V u -> pfc H n s k = PDone -> a = Top /\ k_strict k = false.
Proof.
  intros Ea Ef Ep. destruct n as [|f]; [discriminate|].
  cbn [pfc] in Ep. rewrite Ea in Ep.
  destruct (ubase H f s (k_ref k) a) as [e|]; [discriminate|].
  destruct f as [|f]; [discriminate|].
  cbn [match_f] in Ep. rewrite follow_O, Ef in Ep. cbn [andb] in Ep.
  destruct (a =? Top) eqn:Et.
  - apply Nat.eqb_eq in Et. subst a. split; [reflexivity|].
    destruct (k_strict k); [|reflexivity]. exfalso.
    rewrite basic_top in Ep. cbn [negb] in Ep. rewrite andb_false_r in Ep.
    destruct (c_lower (cell_of s u)) as [l|]; destruct (c_upper (cell_of s u)) as [up|];
      rewrite ?osub_top in Ep; cbn in Ep; discriminate.
  - exfalso. revert Ep.
    repeat match goal with |- context[if ?c then _ else _] => destruct c end; discriminate.
Qed.

(* ---- stores that agree on what K reads ---- *)
Lemma Kp_eq pend s s' : inv s ->
  (forall y, c_bound (cell_of s' y) = c_bound (cell_of s y)) ->
  length (constrs s') = length (constrs s) ->
  (forall c, c < length (constrs s) -> constr_of s' c = constr_of s c) ->
  (forall u, u < length (vars s) -> c_bound (cell_of s u) = None ->
     incl (cset_of s (c_cs (cell_of s u))) (cset_of s' (c_cs (cell_of s' u)))) ->
  Kp pend s -> Kp pend s'.
Proof.
  intros I Eb El Ek Ec Kk c Lc. rewrite El in Lc. rewrite (Ek c Lc).
  destruct (Kk c Lc) as (Ee & Ex & a & Ea & Ba & Hr). split; [exact Ee|split; [exact Ex|]].
  exists a. split; [exact Ea|split; [exact Ba|]]. intros r R.
  assert (R0 : rsv s (k_ref (constr_of s c)) r).
  { eapply rsv_bound_eq; [|exact R]. intros v. symmetry. apply Eb. }
  specialize (Hr r R0). destruct r as [u|o args]; [|exact Hr].
  destruct (k_done (constr_of s c)); [exact Hr|].
  apply Ec; [|apply (rsv_nb _ _ _ R0)|exact Hr].
  assert (Ts : tsc (length (vars s)) (V u)).
  { eapply (rsv_tsc s); [apply (proj2 I eq_refl)|reflexivity|exact R0|].
    pose proof (sc_constr (proj2 I eq_refl) Lc) as F. inversion F; assumption. }
  inversion Ts; assumption.
Qed.

(* ---- binding an unbound variable ---- *)
Lemma Kp_rebind pend s s2 v t rt : inv s -> K s ->
  c_bound (cell_of s v) = None -> c_bound (cell_of s2 v) = Some t ->
  (forall y, y <> v -> c_bound (cell_of s2 y) = c_bound (cell_of s y)) ->
  rsv s2 t rt ->
  length (constrs s2) = length (constrs s) ->
  (forall c, c < length (constrs s) -> constr_of s2 c = constr_of s c) ->
  (forall u, u < length (vars s) -> u <> v -> c_bound (cell_of s u) = None ->
     incl (cset_of s (c_cs (cell_of s u))) (cset_of s2 (c_cs (cell_of s2 u)))) ->
  match rt with
  | V w => incl (cset_of s (c_cs (cell_of s v))) (cset_of s2 (c_cs (cell_of s2 w)))
  | O _ _ => incl (cset_of s (c_cs (cell_of s v))) pend
  end ->
  Kp pend s2.
Proof.
  intros I Kk Hv Ht Ho Rt El Ek Ec Ev c Lc. rewrite El in Lc. rewrite (Ek c Lc).
  destruct (Kk c Lc) as (Ee & Ex & a & Ea & Ba & Hr). split; [exact Ee|split; [exact Ex|]].
  exists a. split; [exact Ea|split; [exact Ba|]]. intros r R2.
  destruct (rsv_total s (k_ref (constr_of s c)) (proj1 I)) as (r0 & R0).
  pose proof (rsv_rebind s s2 v t rt Hv Ht Ho Rt _ _ R0) as R2'.
  rewrite (rsv_det _ _ _ R2 _ R2'). clear R2 R2' r.
  specialize (Hr r0 R0). destruct r0 as [u|o args]; cbn [sw].
  - assert (Lu : u < length (vars s)).
    { assert (Ts : tsc (length (vars s)) (V u)).
      { eapply (rsv_tsc s); [apply (proj2 I eq_refl)|reflexivity|exact R0|].
        pose proof (sc_constr (proj2 I eq_refl) Lc) as F. inversion F; assumption. }
      inversion Ts; assumption. }
    destruct (Nat.eqb u v) eqn:E.
    + apply Nat.eqb_eq in E. subst u. destruct rt as [w|o args].
      * destruct (k_done (constr_of s c)); [exact Hr|]. apply Ev. exact Hr.
      * destruct (k_done (constr_of s c)).
        -- destruct Hr as (-> & Es). left. split; [right; left; reflexivity|]. rewrite Es. discriminate.
        -- right. split; [reflexivity|]. apply Ev. exact Hr.
    + apply Nat.eqb_neq in E. destruct (k_done (constr_of s c)); [exact Hr|].
      apply Ec; auto. apply (rsv_nb _ _ _ R0).
  - destruct Hr as [Hh|(_ & [])]. left. exact Hh.
Qed.

(* ---- one re-check round, in closed form ---- *)
Definition noerr (n : nat) (s : store) (k : constr) : Prop := forall e, pfc H n s k <> PErr e.

Record lrel (n i : nat) (l : list nat) (s s' : store) : Prop := mkLrel {
  lr_vars : vars s' = vars s;
  lr_len : length (constrs s') = length (constrs s);
  lr_cs : forall j, j <> i -> cset_of s' j = cset_of s j;
  lr_ok : forall c, In c l -> noerr n s (constr_of s c);
  lr_k : forall c, constr_of s' c = constr_of s c \/
            (pfc H n s (constr_of s c) = PDone /\ constr_of s' c = done_of (constr_of s c));
  lr_att : forall c, In c (cset_of s i) -> In c (cset_of s' i) \/ k_done (constr_of s' c) = true
}.

Lemma lrel_refl n i s : lrel n i [] s s.
Proof. constructor; auto. intros c []. Qed.

Lemma pfc_app_any n v x a s c :
  pfc H n (app v x a s) (constr_of (app v x a s) c) = pfc H n s (constr_of s c).
Proof.
  destruct (Nat.eq_dec x c) as [->|N]; [apply pfc_app_same|].
  rewrite (constr_of_app v x a s c N). apply pfc_vars; auto using vars_app.
Qed.

Lemma cset_of_rmc_other v x s j : j <> c_cs (cell_of s v) -> cset_of (rmc v x s) j = cset_of s j.
Proof.
  intros N. unfold rmc. destruct (cset_of_set_cset s (c_cs (cell_of s v))
    (remove_nat x (cset_of s (c_cs (cell_of s v)))) j) as [(_ & E & _)|E]; [congruence|exact E].
Qed.

Lemma cset_of_rmc_in v x s c : In c (cset_of s (c_cs (cell_of s v))) -> c <> x ->
  In c (cset_of (rmc v x s) (c_cs (cell_of s v))).
Proof.
  intros Hc N. unfold rmc. destruct (cset_of_set_cset s (c_cs (cell_of s v))
    (remove_nat x (cset_of s (c_cs (cell_of s v)))) (c_cs (cell_of s v))) as [(E & _)|E]; rewrite E.
  - apply In_remove_nat. auto.
  - exact Hc.
Qed.

Lemma done_of_idem k : done_of (done_of k) = done_of k.
Proof. reflexivity. Qed.

Lemma app_cset_other v x a s j : j <> c_cs (cell_of s v) -> cset_of (app v x a s) j = cset_of s j.
Proof.
  intros N. destruct a; cbn [app]; auto.
  - change (cset_of s j) with (cset_of (markd x s) j). apply cset_of_rmc_other. exact N.
  - apply cset_of_rmc_other. exact N.
Qed.

Lemma app_cset_in v x a s c : In c (cset_of s (c_cs (cell_of s v))) -> c <> x ->
  In c (cset_of (app v x a s) (c_cs (cell_of s v))).
Proof.
  intros Hc N. destruct a; cbn [app]; auto.
  - apply (cset_of_rmc_in v x (markd x s) c); auto.
  - apply cset_of_rmc_in; auto.
Qed.

Lemma app_constr_len v x a s : length (constrs (app v x a s)) = length (constrs s).
Proof.
  destruct a; cbn [app]; try reflexivity.
  unfold rmc, markd, set_cset, set_constr; cbn [constrs]. apply upd_length.
Qed.

Lemma app_constr v x a s c : constr_of (app v x a s) c = constr_of s c \/
  (a = AMark /\ c = x /\ constr_of (app v x a s) c = done_of (constr_of s x)).
Proof.
  destruct a; cbn [app]; auto.
  change (constr_of (rmc v x (markd x s)) c) with (constr_of (markd x s) c).
  destruct (constr_of_markd x s c) as [E0|(-> & E0)]; auto.
Qed.

Lemma act_mark n s x : act_of H n s x = AMark -> pfc H n s (constr_of s x) = PDone.
Proof.
  unfold act_of. destruct (pfc H n s (constr_of s x)); auto; try discriminate.
  destruct (k_done (constr_of s x)); discriminate.
Qed.

Lemma act_noerr n s x a : act_of H n s x = a -> (forall e, a <> AErr e) -> noerr n s (constr_of s x).
Proof.
  intros Ea Na e Ep. unfold act_of in Ea. rewrite Ep in Ea. apply (Na e). congruence.
Qed.

(* after a Mark or Rm step the constraint is done *)
Lemma app_done n v x a s : x < length (constrs s) -> act_of H n s x = a -> a = AMark \/ a = ARm ->
  k_done (constr_of (app v x a s) x) = true.
Proof.
  intros Lx Ea [->| ->]; cbn [app].
  - change (constr_of (rmc v x (markd x s)) x) with (constr_of (markd x s) x).
    unfold markd. rewrite constr_of_set_constr_same by exact Lx. reflexivity.
  - change (constr_of (rmc v x s) x) with (constr_of s x). unfold act_of in Ea.
    destruct (pfc H n s (constr_of s x)); try discriminate.
    destruct (k_done (constr_of s x)); [reflexivity|discriminate].
Qed.

Lemma loop_lrel n v : forall l s u s', allpure H s ->
  Forall (fun c => c < length (constrs s)) l ->
  loop H n v l s = MOk u s' -> lrel n (c_cs (cell_of s v)) l s s'.
Proof.
  induction l as [|x l IH]; intros s u s' P Fl E.
  - inversion E; subst. apply lrel_refl.
  - rewrite (loop_cons H n v x l s (allpure_lpure H s _ P)) in E.
    inversion Fl as [|? ? Lx Fl']; subst.
    set (i := c_cs (cell_of s v)).
    assert (G : forall a, act_of H n s x = a -> (forall e, a <> AErr e) ->
              loop H n v l (app v x a s) = MOk u s' -> lrel n i (x :: l) s s').
    { intros a Ea Na E1.
      assert (P1 : allpure H (app v x a s)) by (apply allpure_app; exact P).
      pose proof (app_constr_len v x a s) as L1.
      assert (Fl1 : Forall (fun c => c < length (constrs (app v x a s))) l) by (rewrite L1; exact Fl').
      pose proof (IH _ u s' P1 Fl1 E1) as R.
      assert (Ei : c_cs (cell_of (app v x a s) v) = i).
      { unfold i. f_equal. apply cell_of_vars. apply vars_app. }
      rewrite Ei in R. destruct R as [Rv Rl Rc Ro Rk Ra].
      pose proof (act_noerr n s x a Ea Na) as Px.
      constructor.
      - rewrite Rv. apply vars_app.
      - congruence.
      - intros j Nj. rewrite (Rc j Nj). apply app_cset_other. exact Nj.
      - intros c [<-|Hc]; [exact Px|]. intros e. rewrite <- (pfc_app_any n v x a s c). apply Ro. exact Hc.
      - intros c. destruct (Rk c) as [E0|(Ep & E0)]; destruct (app_constr v x a s c) as [E2|(-> & -> & E2)].
        + left. congruence.
        + right. split; [apply act_mark; exact Ea|congruence].
        + right. rewrite pfc_app_any in Ep. split; [exact Ep|congruence].
        + right. rewrite pfc_app_any in Ep. split; [exact Ep|]. rewrite E0, E2. reflexivity.
      - intros c Hc. destruct (Nat.eq_dec c x) as [->|Nc].
        + destruct a as [e| | |].
          * exfalso. eapply Na. reflexivity.
          * right. destruct (Rk x) as [E0|(_ & E0)]; rewrite E0; [|reflexivity].
            eapply app_done; eauto.
          * right. destruct (Rk x) as [E0|(_ & E0)]; rewrite E0; [|reflexivity].
            eapply app_done; eauto.
          * apply Ra. exact Hc.
        + apply Ra. apply app_cset_in; auto. }
    destruct (act_of H n s x) eqn:Ea; [discriminate| | |]; eapply G; eauto; discriminate.
Qed.

Lemma lrel_sched n i l s rest s' :
  lrel n i l (mkStore (vars s) (csets s) (constrs s) rest) s' -> lrel n i l s s'.
Proof.
  intros [Rv Rl Rc Ro Rk Ra]. constructor; auto.
  - intros c Hc e. rewrite (pfc_vars H n s (mkStore (vars s) (csets s) (constrs s) rest)
      (constr_of s c) (constr_of s c)) by reflexivity. apply (Ro c Hc).
  - intros c. destruct (Rk c) as [E0|(Ep & E0)]; [left; exact E0|right]. split; [|exact E0].
    rewrite (pfc_vars H n s (mkStore (vars s) (csets s) (constrs s) rest)
      (constr_of s c) (constr_of s c)) by reflexivity. exact Ep.
Qed.

Lemma cc_lrel n v s u s' : allpure H s -> core s -> check_constraints H n v s = MOk u s' ->
  exists f l, (forall c, In c (cset_of s (c_cs (cell_of s v))) -> In c l) /\
              lrel f (c_cs (cell_of s v)) l s s'.
Proof.
  intros P C E. destruct n as [|f]; [discriminate|]. rewrite cc_S_eq in E. cbv zeta in E.
  set (i := c_cs (cell_of s v)) in *. set (p := cset_of s i) in *.
  assert (Fp : Forall (fun c => c < length (constrs s)) p).
  { rewrite Forall_forall. intros c Hc. eapply (core_cs C); eauto. }
  assert (Pm : forall r, Permutation (permute (length p) r p) p) by (intros r; apply permute_perm; lia).
  assert (Fq : forall r, Forall (fun c => c < length (constrs s)) (permute (length p) r p)).
  { intros r. rewrite Forall_forall in *. intros c Hc. apply Fp. eapply Permutation_in; [apply Pm|exact Hc]. }
  assert (Iq : forall r c, In c p -> In c (permute (length p) r p)).
  { intros r c Hc. eapply Permutation_in; [apply Permutation_sym; apply Pm|exact Hc]. }
  exists f. destruct (2 <=? length p).
  - destruct (sched s) as [|r rest].
    + exists (permute (length p) 0 p). split; [apply Iq|]. eapply loop_lrel; eauto.
    + exists (permute (length p) r p). split; [apply Iq|]. apply (lrel_sched f i _ s rest s').
      apply (loop_lrel f v _ (mkStore (vars s) (csets s) (constrs s) rest) u s'); auto.
  - exists p. split; [auto|]. eapply loop_lrel; eauto.
Qed.

Lemma lrel_K n l s s' v : inv s ->
  (forall c, In c (cset_of s (c_cs (cell_of s v))) -> In c l) ->
  Kp (cset_of s (c_cs (cell_of s v))) s -> lrel n (c_cs (cell_of s v)) l s s' -> K s'.
Proof.
  intros I Il Kk [Rv Rl Rc Ro Rk Ra] c Lc. rewrite Rl in Lc.
  set (i := c_cs (cell_of s v)) in *.
  destruct (Kk c Lc) as (Ee & Ex & a & Ea & Ba & Hr).
  assert (Sh : k_elim (constr_of s' c) = false /\ k_alts (constr_of s' c) = k_alts (constr_of s c) /\
               k_ref (constr_of s' c) = k_ref (constr_of s c) /\
               k_strict (constr_of s' c) = k_strict (constr_of s c)).
  { destruct (Rk c) as [E0|(_ & E0)]; rewrite E0; auto. }
  destruct Sh as (Ee' & Ea' & Er' & Es'). split; [exact Ee'|split; [rewrite Er'; exact Ex|]].
  exists a. split; [congruence|split; [exact Ba|]]. rewrite Er', Es'. intros r R'.
  assert (Ec : forall y, cell_of s' y = cell_of s y) by (intros y; apply cell_of_vars; exact Rv).
  assert (R : rsv s (k_ref (constr_of s c)) r).
  { eapply rsv_bound_eq; [|exact R']. intros y. rewrite Ec. reflexivity. }
  pose proof (rsv_follow _ _ _ R) as Ef.
  specialize (Hr r R). destruct r as [u|o args].
  - rewrite Ec. destruct (Rk c) as [E0|(Ep & E0)]; rewrite E0.
    + destruct (k_done (constr_of s c)) eqn:Ed; [exact Hr|].
      destruct (Nat.eq_dec (c_cs (cell_of s u)) i) as [Ei|Ni].
      * rewrite Ei in *. destruct (Ra c Hr) as [A|A]; [exact A|]. rewrite E0 in A. congruence.
      * rewrite (Rc _ Ni). exact Hr.
    + cbn [done_of k_done]. eapply pfc_done_var; eauto.
  - left. destruct Hr as [Hh|(_ & Hp)]; [exact Hh|].
    eapply pfc_hold; eauto. apply Ro. apply Il. exact Hp.
Qed.

Theorem cc_K n v s u s' : inv s -> Kp (cset_of s (c_cs (cell_of s v))) s ->
  check_constraints H n v s = MOk u s' -> K s'.
Proof.
  intros I Kk E.
  destruct (cc_lrel n v s u s' (Kp_allpure _ _ Kk) (proj1 I) E) as (f & l & Il & R).
  eapply lrel_K; eauto.
Qed.

(* ================================================================== *)
(* Part 5.  K is preserved by the engine: one induction on fuel, in the *)
(* program logic [ok] of Infer/Inv.v (which threads [inv] and [ext])    *)
(* ================================================================== *)
Definition KQ {A} : A -> store -> Prop := fun _ s => K s.

#[local] Hint Resolve not_crash_EFuel not_crash_sub not_crash_ty not_crash_rec not_crash_cv
  not_crash_fun : core.

Lemma ok_and {A} s0 (m : M A) (Q Q' : A -> store -> Prop) s :
  ok true s0 m Q s -> (forall a s', m s = MOk a s' -> Q' a s') ->
  ok true s0 m (fun a s' => Q a s' /\ Q' a s') s.
Proof.
  unfold ok. intros O1 O2. destruct (m s) as [a s1|e s1]; [|exact O1].
  destruct O1 as (I1 & E1 & Q1). auto.
Qed.

Ltac done_ret := apply ok_ret; unfold KQ; auto using ext_refl.
Ltac done_fail := apply ok_fail; auto using ext_refl.
Ltac useK X := eapply ok_conseq;
  [apply ok_use; [first [eassumption|apply ext_refl]|apply X; auto]
  |cbv beta; unfold KQ; intros ? ? ? ? (? & ?); auto].
Ltac break_if := repeat match goal with |- context[if ?c then _ else _] => destruct c eqn:? end.

Lemma cc_okK f v s0 s : inv s -> ext s0 s -> Kp (cset_of s (c_cs (cell_of s v))) s ->
  ok true s0 (check_constraints H f v) KQ s.
Proof.
  intros I E Kk. eapply ok_conseq.
  - apply ok_use; [exact E|]. apply ok_and; [apply (@cc_ok H true f v s I)|].
    intros a s' Ec. exact (cc_K f v s a s' I Kk Ec).
  - cbv beta. unfold KQ. intros a s1 _ _ ((_ & Kk') & _). exact Kk'.
Qed.

Definition spec_unifyK f := forall a b0 s, inv s -> K s -> sct true s a -> sct true s b0 ->
  ok true s (unify H f true false false a b0) KQ s.
Definition spec_bindK f := forall v t s, inv s -> K s ->
  c_bound (cell_of s v) = None -> nb s t -> scv true s v -> sct true s t -> noccb true s v t ->
  ok true s (bind H f v t) KQ s.
Definition spec_aboveK f := forall v new s, inv s -> K s ->
  (new = Top -> c_bound (cell_of s v) = None) -> scv true s v -> ok true s (above H f v new) KQ s.
Definition spec_belowK f := forall v new s, inv s -> K s ->
  (new = Bottom -> c_bound (cell_of s v) = None) -> scv true s v -> ok true s (below H f v new) KQ s.
Definition spec_fixK f := forall pl t s, inv s -> K s -> sct true s t ->
  ok true s (fix_ty H f pl t) (fun r s' => K s' /\ nb s' r /\ sct true s' r) s.

Definition specsK f :=
  spec_unifyK f /\ spec_bindK f /\ spec_aboveK f /\ spec_belowK f /\ spec_fixK f.

Lemma specsK_0 : specsK 0.
Proof.
  unfold specsK, spec_unifyK, spec_bindK, spec_aboveK, spec_belowK, spec_fixK.
  repeat apply conj; intros; apply ok_fail; auto using ext_refl.
Qed.

(* ---- fix_ty ---- *)
Lemma fixK_step f : spec_bindK f -> spec_fixK f -> spec_fixK (S f).
Proof.
  intros B Fx pl t s I Kk St. rewrite fix_ty_S. apply ok_gets.
  pose proof (follow_unbound t I) as N. pose proof (follow_sct I St) as Sa.
  destruct (follow s t) as [v|o args] eqn:Ef.
  - eapply ok_bind with (Q1 := KQ).
    + apply ok_gets. destruct pl.
      * destruct (c_lower (cell_of s v)); [apply B; cbn; auto using sct_V, sct_O0, noccb_O0|done_ret].
      * destruct (c_upper (cell_of s v)); [apply B; cbn; auto using sct_V, sct_O0, noccb_O0|done_ret].
    + intros u s1 I1 E1 K1. apply ok_gets_end; auto. split; [exact K1|split].
      * apply (follow_unbound _ I1).
      * apply follow_sct; auto. eapply sct_ext; eauto.
  - eapply ok_bind with (Q1 := KQ).
    + apply sct_args in Sa. clear Ef N St.
      assert (G : forall vs s1, inv s1 -> K s1 -> ext s s1 ->
                ok true s1 ((fix go (vs : list bool) (ps : list tyv) : M unit :=
                   match vs, ps with
                   | v :: vs', p :: ps' =>
                       Engine.fix_ty H f (if v then pl else negb pl) p ;;; go vs' ps'
                   | _, _ => ret tt
                   end) vs args) KQ s1); [|apply G; auto using ext_refl].
      induction args as [|p ps IHp]; intros vs s1 I1 K1 E1; destruct vs as [|b' vs]; try done_ret.
      inversion Sa; subst.
      eapply ok_bind with (Q1 := KQ).
      { eapply ok_conseq; [apply Fx; auto; eapply sct_ext; eauto|].
        cbv beta. unfold KQ. intros ? ? ? ? (? & ?). auto. }
      intros r s2 I2 E2 K2.
      useK IHp. eapply ext_trans; eauto.
    + intros u s1 I1 E1 K1. apply ok_gets_end; auto. split; [exact K1|split; [exact Logic.I|]].
      apply follow_sct; auto. eapply sct_ext; eauto.
Qed.

Lemma Kp_set_cell pend s v c' : inv s ->
  c_bound c' = c_bound (cell_of s v) -> c_cs c' = c_cs (cell_of s v) ->
  Kp pend s -> Kp pend (set_cell s v c').
Proof.
  intros I Gb Gc. apply Kp_eq; auto.
  - intros y. destruct (cell_of_set_cell s v c' y) as [(E & -> & L)|E]; rewrite E; auto.
  - intros u _ _. change (cset_of (set_cell s v c')) with (cset_of s).
    destruct (cell_of_set_cell s v c' u) as [(E & -> & L)|E]; rewrite E; [rewrite Gc|];
      apply incl_refl.
Qed.

(* ---- above / below ---- *)
Lemma aboveK_step f : spec_unifyK f -> spec_bindK f -> spec_aboveK (S f).
Proof.
  intros U B v new s I Kk P Sv. rewrite above_S. destruct (Nat.eqb new Top) eqn:Et.
  - apply Nat.eqb_eq in Et. apply B; cbn; auto using sct_O0, noccb_O0.
  - apply Nat.eqb_neq in Et. unfold set_wild.
    apply ok_upd_cell; auto using ext_refl; cbn [c_lower c_upper]; try apply (inv_lo I); try apply (inv_up I).
    intros s1 Es1 I1 E1 _.
    assert (K1 : K s1) by (subst s1; apply Kp_set_cell; auto).
    apply ok_gets.
    destruct (c_bound (cell_of s1 v)) as [t|] eqn:Eb; [useK U; eauto using sct_O0, sct_of_bound|].
    assert (SL : ok true s (set_lower v (Some new);;; Engine.check_constraints H f v) KQ s1).
    { unfold set_lower. apply ok_upd_cell; auto; cbn [c_lower c_upper]; try apply (inv_up I1); try congruence.
      intros s2 Es2 I2 E2 _. apply cc_okK; auto. apply K_Kp. subst s2. apply Kp_set_cell; auto. }
    eapply ok_bind with (Q1 := KQ).
    + destruct (c_upper (cell_of s1 v)), (c_lower (cell_of s1 v)); break_if;
        try exact SL; try done_ret; try done_fail.
    + intros u s2 I2 E2 K2. apply ok_gets.
      destruct (c_bound (cell_of s2 v)) eqn:Eb2; try done_ret.
      destruct (c_lower (cell_of s2 v)); try done_ret.
      destruct (c_upper (cell_of s2 v)); try done_ret.
      break_if; try done_ret. useK B; cbn; eauto using sct_O0, scv_ext, noccb_O0.
Qed.

Lemma belowK_step f : spec_unifyK f -> spec_bindK f -> spec_belowK (S f).
Proof.
  intros U B v new s I Kk P Sv. rewrite below_S. destruct (Nat.eqb new Bottom) eqn:Et.
  - apply Nat.eqb_eq in Et. apply B; cbn; auto using sct_O0, noccb_O0.
  - apply Nat.eqb_neq in Et. unfold set_wild.
    apply ok_upd_cell; auto using ext_refl; cbn [c_lower c_upper]; try apply (inv_lo I); try apply (inv_up I).
    intros s1 Es1 I1 E1 _.
    assert (K1 : K s1) by (subst s1; apply Kp_set_cell; auto).
    apply ok_gets.
    destruct (c_bound (cell_of s1 v)) as [t|] eqn:Eb; [useK U; eauto using sct_O0, sct_of_bound|].
    assert (SL : ok true s (set_upper v (Some new);;; Engine.check_constraints H f v) KQ s1).
    { unfold set_upper. apply ok_upd_cell; auto; cbn [c_lower c_upper]; try apply (inv_lo I1); try congruence.
      intros s2 Es2 I2 E2 _. apply cc_okK; auto. apply K_Kp. subst s2. apply Kp_set_cell; auto. }
    eapply ok_bind with (Q1 := KQ).
    + destruct (c_upper (cell_of s1 v)), (c_lower (cell_of s1 v)); break_if;
        try exact SL; try done_ret; try done_fail.
    + intros u s2 I2 E2 K2. apply ok_gets.
      destruct (c_bound (cell_of s2 v)) eqn:Eb2; try done_ret.
      destruct (c_upper (cell_of s2 v)); try done_ret.
      destruct (c_lower (cell_of s2 v)); try done_ret.
      break_if; try done_ret. useK B; cbn; eauto using sct_O0, scv_ext, noccb_O0.
Qed.

(* set_cs with the new store exposed (Inv.ok_set_cs hides it) *)
Definition cs_cell (s : store) (v i : nat) : cell :=
  mkCell (c_wild (cell_of s v)) (c_bound (cell_of s v)) (c_lower (cell_of s v)) (c_upper (cell_of s v)) i.

Lemma ok_set_cs' {B} s0 v i (k : unit -> M B) (Q : B -> store -> Prop) s :
  inv s -> ext s0 s -> i < length (csets s) ->
  (forall s1, s1 = set_cell s v (cs_cell s v i) -> inv s1 -> ext s0 s1 -> ext s s1 -> ok true s0 (k tt) Q s1) ->
  ok true s0 (bindM (set_cs v i) k) Q s.
Proof.
  intros I E Hi HK. unfold set_cs, upd_cell. apply ok_modify.
  assert (E1 : ext s (set_cell s v (cs_cell s v i))).
  { apply ext_set_cell. cbn. auto. }
  apply HK; auto.
  - apply inv_set_cs; auto.
  - eapply ext_trans; eauto.
Qed.

Lemma ok_set_cs_end' s0 v i (Q : unit -> store -> Prop) s :
  inv s -> ext s0 s -> i < length (csets s) ->
  (forall s1, s1 = set_cell s v (cs_cell s v i) -> inv s1 -> ext s0 s1 -> ext s s1 -> Q tt s1) ->
  ok true s0 (set_cs v i) Q s.
Proof.
  intros I E Hi HK. unfold set_cs, upd_cell.
  assert (E1 : ext s (set_cell s v (cs_cell s v i))).
  { apply ext_set_cell. cbn. auto. }
  assert (I1 : inv (set_cell s v (cs_cell s v i))) by (apply inv_set_cs; auto).
  apply ok_modify_end; auto.
  - eapply ext_trans; eauto.
  - apply HK; auto. eapply ext_trans; eauto.
Qed.

Lemma cset_set_cset_incl s i l j : incl (cset_of s i) l ->
  incl (cset_of s j) (cset_of (set_cset s i l) j).
Proof.
  intros Hi. destruct (cset_of_set_cset s i l j) as [(E & -> & L)|E]; rewrite E; [exact Hi|apply incl_refl].
Qed.

Lemma cset_set_cset_same s i l : i < length (csets s) -> cset_of (set_cset s i l) i = l.
Proof. intros L. unfold cset_of, set_cset; cbn. apply nth_upd_same. exact L. Qed.

(* changing the constraint-set pointer of a BOUND variable is invisible to K *)
Lemma Kp_set_cell_bound pend s v c' : inv s ->
  c_bound c' = c_bound (cell_of s v) -> c_bound (cell_of s v) <> None ->
  Kp pend s -> Kp pend (set_cell s v c').
Proof.
  intros I Gb Nb. apply Kp_eq; auto.
  - intros y. destruct (cell_of_set_cell s v c' y) as [(E & -> & L)|E]; rewrite E; auto.
  - intros u _ Hu. change (cset_of (set_cell s v c')) with (cset_of s).
    rewrite cell_of_set_cell_other by (intros ->; congruence). apply incl_refl.
Qed.

(* ---- bind ---- *)
Lemma bindK_step f : spec_aboveK f -> spec_belowK f -> spec_bindK (S f).
Proof.
  intros Ab Be v t s I Kk Hv Nt Sv St No. rewrite bind_S. apply ok_gets. rewrite Hv.
  unfold set_wild at 1.
  apply ok_upd_cell; auto using ext_refl; cbn [c_lower c_upper]; try apply (inv_lo I); try apply (inv_up I).
  intros s1 Es1 I1 E1 _.
  assert (K1 : K s1) by (subst s1; apply Kp_set_cell; auto).
  assert (B1 : forall w, c_bound (cell_of s1 w) = c_bound (cell_of s w)).
  { subst s1. apply bound_set_cell_same. reflexivity. }
  assert (Hv1 : c_bound (cell_of s1 v) = None) by (rewrite B1; exact Hv).
  assert (Nt1 : nb s1 t) by (eapply nb_bound_eq; [exact B1|exact Nt]).
  assert (Sv1 : scv true s1 v) by (eapply scv_ext; eauto).
  assert (St1 : sct true s1 t) by (eapply sct_ext; eauto).
  assert (No1 : t <> V v -> nocc s1 v t).
  { intros Ne. destruct (No eq_refl) as [->|N]; [congruence|].
    eapply nocc_bound_eq; [exact B1|exact N]. }
  assert (Lv1 : v < length (vars s1)) by (apply Sv1; reflexivity).
  clear Es1.
  assert (SB : forall wld, let s2 := set_cell s1 v (mkCell wld (Some t) (c_lower (cell_of s1 v))
                                  (c_upper (cell_of s1 v)) (c_cs (cell_of s1 v))) in
               t <> V v -> inv s2 /\ ext s1 s2).
  { intros wld s2 Ne. split.
    - apply inv_set_cell; auto; cbn [c_lower c_upper c_bound c_cs]; try apply (inv_lo I1); try apply (inv_up I1).
      + right. split; auto. exists t. split; [reflexivity|split; [exact Nt1|split; [exact Ne|auto]]].
      + intros t' Ht'. inversion Ht'; subst. exact St1.
      + intros Bt L. apply (sc_cs (proj2 I1 Bt)). exact L.
    - apply ext_set_cell. intros t'. rewrite Hv1. discriminate. }
  (* the cells of s2 *)
  assert (C2 : forall wld, let s2 := set_cell s1 v (mkCell wld (Some t) (c_lower (cell_of s1 v))
                                  (c_upper (cell_of s1 v)) (c_cs (cell_of s1 v))) in
               c_bound (cell_of s2 v) = Some t /\ c_cs (cell_of s2 v) = c_cs (cell_of s1 v) /\
               forall y, y <> v -> cell_of s2 y = cell_of s1 y).
  { intros wld s2. unfold s2. rewrite cell_of_set_cell_same by exact Lv1. cbn [c_bound c_cs].
    split; [reflexivity|split; [reflexivity|]]. intros y Ny. apply cell_of_set_cell_other. exact Ny. }
  destruct t as [w|o args].
  - destruct (Nat.eqb v w) eqn:Evw; [done_ret|]. apply Nat.eqb_neq in Evw.
    unfold set_bound, upd_cell. apply ok_modify.
    match goal with |- ok _ _ _ _ ?s' => set (s2 := s') end.
    destruct (SB (c_wild (cell_of s1 v))) as (I2 & E12); [congruence|]. fold s2 in I2, E12.
    destruct (C2 (c_wild (cell_of s1 v))) as (Cb2 & Cc2 & Co2). fold s2 in Cb2, Cc2, Co2.
    assert (E2 : ext s s2) by (eapply ext_trans; eauto).
    assert (Lw1 : w < length (vars s1)) by (apply (sct_V St1); reflexivity).
    assert (Ek2 : constrs s2 = constrs s1) by reflexivity.
    assert (Ec2 : forall j, cset_of s2 j = cset_of s1 j) by reflexivity.
    assert (Lc2 : length (csets s2) = length (csets s1)) by reflexivity.
    clearbody s2.
    apply ok_modify.
    match goal with |- ok _ _ _ _ ?s' => set (s3 := s') end.
    assert (I3 : inv s3).
    { apply inv_set_cset; auto. apply Forall_union; apply (inv_cs_Forall _ I2). }
    assert (E3 : ext s s3) by (eapply ext_trans; [exact E2|apply ext_set_cset]).
    assert (Liw : c_cs (cell_of s1 w) < length (csets s1)) by (apply (sc_cs (proj2 I1 eq_refl)); exact Lw1).
    assert (K3 : K s3).
    { apply (Kp_rebind [] s1 s3 v (V w) (V w) I1 K1 Hv1 Cb2).
      - intros y Ny. change (cell_of s3 y) with (cell_of s2 y). rewrite (Co2 y Ny). reflexivity.
      - constructor. change (cell_of s3 w) with (cell_of s2 w). rewrite Co2 by congruence. exact Nt1.
      - change (constrs s3) with (constrs s2). rewrite Ek2. reflexivity.
      - intros c _. change (constr_of s3 c) with (constr_of s2 c). unfold constr_of. rewrite Ek2. reflexivity.
      - intros u _ Nu _. change (cell_of s3 u) with (cell_of s2 u). rewrite (Co2 u Nu).
        rewrite <- Ec2. unfold s3. apply cset_set_cset_incl. intros x Hx. apply In_union. right. exact Hx.
      - change (cell_of s3 w) with (cell_of s2 w). rewrite Co2 by congruence.
        unfold s3. rewrite Cc2. rewrite (Co2 w) by congruence.
        rewrite cset_set_cset_same by (rewrite Lc2; exact Liw).
        rewrite !Ec2. intros x Hx. apply In_union. left. exact Hx. }
    assert (Cb3 : forall y, cell_of s3 y = cell_of s2 y) by reflexivity.
    clearbody s3.
    assert (Sw3 : scv true s3 w) by (apply sct_V; eapply sct_ext; eauto).
    apply ok_gets.
    apply ok_set_cs'; auto. { apply (sc_cs (proj2 I3 eq_refl)). apply Sw3. reflexivity. }
    intros s4 Es4 I4 E4 _. unfold set_wild.
    assert (K4 : K s4).
    { subst s4. apply Kp_set_cell_bound; auto. rewrite Cb3, Cb2. discriminate. }
    apply ok_upd_cell; auto; cbn [c_lower c_upper]; try apply (inv_lo I4); try apply (inv_up I4).
    intros s5 Es5 I5 E5 _.
    assert (K5 : K s5) by (subst s5; apply Kp_set_cell; auto).
    assert (Sw5 : scv true s5 w) by (apply sct_V; eapply sct_ext; eauto).
    eapply ok_bind with (Q1 := KQ).
    { destruct (c_lower (cell_of s v)) as [l|] eqn:El; [|done_ret].
      useK Ab. intros ->. exfalso. eapply (inv_lo I); eauto. }
    intros u s6 I6 E6 K6.
    eapply ok_bind with (Q1 := KQ).
    { destruct (c_upper (cell_of s v)) as [l|] eqn:El; [|done_ret].
      useK Be. intros ->. exfalso. eapply (inv_up I); eauto.
      apply sct_V; eapply sct_ext; eauto. }
    intros u' s7 I7 E7 K7. apply cc_okK; auto. apply K_Kp. exact K7.
  - unfold set_bound, upd_cell. apply ok_modify.
    match goal with |- ok _ _ _ _ ?s' => set (s2 := s') end.
    destruct (SB (c_wild (cell_of s1 v))) as (I2 & E12); [discriminate|]. fold s2 in I2, E12.
    destruct (C2 (c_wild (cell_of s1 v))) as (Cb2 & Cc2 & Co2). fold s2 in Cb2, Cc2, Co2.
    assert (E2 : ext s s2) by (eapply ext_trans; eauto).
    assert (Ek2 : constrs s2 = constrs s1) by reflexivity.
    assert (Ec2 : forall j, cset_of s2 j = cset_of s1 j) by reflexivity.
    assert (Lc2 : length (csets s2) = length (csets s1)) by reflexivity.
    assert (Lv2 : length (vars s2) = length (vars s1)) by (unfold s2; cbn; apply upd_length).
    clearbody s2.
    eapply ok_bind with (Q1 := fun _ s3 => Kp (cset_of s3 (c_cs (cell_of s3 v))) s3);
      [|intros u s3 I3 E3 K3; apply cc_okK; auto].
    destruct (Engine.basic H o).
    + assert (K2 : Kp (cset_of s2 (c_cs (cell_of s2 v))) s2).
      { apply (Kp_rebind _ s1 s2 v (O o args) (O o args) I1 K1 Hv1 Cb2).
        - intros y Ny. rewrite (Co2 y Ny). reflexivity.
        - constructor.
        - rewrite Ek2. reflexivity.
        - intros c _. unfold constr_of. rewrite Ek2. reflexivity.
        - intros u _ Nu _. rewrite (Co2 u Nu). rewrite Ec2. apply incl_refl.
        - rewrite Cc2, Ec2. apply incl_refl. }
      break_if; try done_fail; apply ok_ret; auto.
    + match goal with |- context[if ?c then _ else _] => destruct c end; [done_fail|].
      apply ok_lift; auto; [intros e; apply vars_f_err|]. intros vs Hvs.
      apply ok_modify.
      match goal with |- ok _ _ _ _ ?s' => set (s3 := s') end.
      assert (I3 : inv s3).
      { apply inv_set_cset; auto. apply Forall_fold_union with (g := fun w => cset_of s2 (c_cs (cell_of s2 w)));
          intros; apply (inv_cs_Forall _ I2). }
      assert (E3 : ext s s3) by (eapply ext_trans; [exact E2|apply ext_set_cset]).
      assert (Li : c_cs (cell_of s3 v) < length (csets s3)).
      { apply (sc_cs (proj2 I3 eq_refl)). eapply scv_ext; eauto. }
      set (iv := c_cs (cell_of s2 v)) in *.
      assert (Liv : iv < length (csets s2)).
      { apply (sc_cs (proj2 I2 eq_refl)). rewrite Lv2. exact Lv1. }
      assert (C3 : cset_of s3 iv = fold_right (fun w acc => union (cset_of s2 (c_cs (cell_of s2 w))) acc)
                                              (cset_of s2 iv) vs).
      { unfold s3. apply cset_set_cset_same. exact Liv. }
      assert (K3 : Kp (cset_of s3 iv) s3).
      { apply (Kp_rebind _ s1 s3 v (O o args) (O o args) I1 K1 Hv1 Cb2).
        - intros y Ny. change (cell_of s3 y) with (cell_of s2 y). rewrite (Co2 y Ny). reflexivity.
        - constructor.
        - change (constrs s3) with (constrs s2). rewrite Ek2. reflexivity.
        - intros c _. change (constr_of s3 c) with (constr_of s2 c). unfold constr_of. rewrite Ek2. reflexivity.
        - intros u _ Nu _. change (cell_of s3 u) with (cell_of s2 u). rewrite (Co2 u Nu). rewrite <- Ec2.
          unfold s3. apply cset_set_cset_incl. intros x Hx. apply In_fold_union. left. exact Hx.
        - rewrite C3. intros x Hx. apply In_fold_union. left. rewrite Cc2, Ec2. exact Hx. }
      assert (Mg : forall w, In w vs -> incl (cset_of s3 (c_cs (cell_of s3 w))) (cset_of s3 iv)).
      { intros w Hw. change (cell_of s3 w) with (cell_of s2 w). rewrite C3. intros x Hx.
        apply In_fold_union.
        destruct (cset_of_set_cset s2 iv
                    (fold_right (fun w acc => union (cset_of s2 (c_cs (cell_of s2 w))) acc) (cset_of s2 iv) vs)
                    (c_cs (cell_of s2 w))) as [(E0 & E1' & _)|E0]; unfold s3 in Hx; rewrite E0 in Hx.
        - apply In_fold_union in Hx. exact Hx.
        - right. exists w. auto. }
      assert (Cv3 : c_cs (cell_of s3 v) = iv) by reflexivity.
      clearbody s3.
      apply ok_gets. rewrite Cv3.
      eapply ok_conseq;
        [apply ok_forM with (J := fun s4 => ext s3 s4 /\ Kp (cset_of s3 iv) s4 /\
              (forall j, cset_of s4 j = cset_of s3 j) /\ c_cs (cell_of s4 v) = iv /\
              (forall y, c_cs (cell_of s4 y) = c_cs (cell_of s3 y) \/ c_cs (cell_of s4 y) = iv));
           auto using ext_refl|].
      * split; [apply ext_refl|split; [exact K3|split; [reflexivity|split; [exact Cv3|auto]]]].
      * intros w s4 Hw I4 E4 (E34 & K4 & C4 & Cv4 & Cy4).
        apply ok_set_cs_end'; auto.
        { pose proof (ext_csets E34). rewrite Cv3 in Li. lia. }
        intros s5 Es5 I5 E5 E45. split; [eapply ext_trans; eauto|]. subst s5.
        split; [|split; [|split]].
        -- apply Kp_eq with (s := s4); auto.
           ++ intros y. apply bound_set_cell_same. reflexivity.
           ++ intros u Lu Hu. change (cset_of (set_cell s4 w (cs_cell s4 w iv))) with (cset_of s4).
              destruct (cell_of_set_cell s4 w (cs_cell s4 w iv) u) as [(E0 & -> & L)|E0]; rewrite E0;
                [|apply incl_refl].
              cbn [cs_cell c_cs]. rewrite !C4. destruct (Cy4 w) as [E1'|E1']; rewrite E1'.
              ** apply Mg. exact Hw.
              ** apply incl_refl.
        -- intros j. change (cset_of (set_cell s4 w (cs_cell s4 w iv)) j) with (cset_of s4 j). apply C4.
        -- destruct (cell_of_set_cell s4 w (cs_cell s4 w iv) v) as [(E0 & _)|E0]; rewrite E0; auto.
        -- intros y. destruct (cell_of_set_cell s4 w (cs_cell s4 w iv) y) as [(E0 & _)|E0]; rewrite E0; auto.
      * cbv beta. intros _ s4 _ _ (_ & K4 & C4 & Cv4 & _). rewrite Cv4, C4. exact K4.
Qed.

(* ---- unify (subtype mode, no skip flags) ---- *)
Lemma unifyK_step f :
  spec_unifyK f -> spec_bindK f -> spec_aboveK f -> spec_belowK f -> spec_unifyK (S f).
Proof.
  intros U B Ab Be a0 b0 s I Kk Sa0 Sb0. rewrite unify_S. apply ok_gets. apply ok_gets.
  pose proof (follow_unbound a0 I) as Na. pose proof (follow_unbound b0 I) as Nb.
  pose proof (follow_sct I Sa0) as Sa. pose proof (follow_sct I Sb0) as Sb.
  destruct (follow s a0) as [va|oa xs]; destruct (follow s b0) as [vb|ob ys].
  - apply ok_gets. apply ok_gets. cbn [negb orb]. apply B; auto using sct_V, noccb_var.
  - destruct (Nat.eqb ob Top); [done_ret|].
    apply ok_lift; auto using ext_refl; [intros e; apply occurs_f_err|]. intros oc Hoc.
    destruct oc; [done_fail|].
    assert (No : noccb true s va (O ob ys)).
    { intros _. right. eapply occurs_false_nocc; eauto. apply I. }
    destruct (Engine.basic H ob).
    + apply ok_gets. cbn [orb andb]. apply Be; auto using sct_V; intros ->; exact Na.
    + cbn [orb]. apply B; auto using sct_V.
  - destruct (Nat.eqb oa Bottom); [done_ret|].
    apply ok_lift; auto using ext_refl; [intros e; apply occurs_f_err|]. intros oc Hoc.
    destruct oc; [done_fail|].
    assert (No : noccb true s vb (O oa xs)).
    { intros _. right. eapply occurs_false_nocc; eauto. apply I. }
    destruct (Engine.basic H oa).
    + apply ok_gets. cbn [orb andb]. apply Ab; auto using sct_V; intros ->; exact Nb.
    + cbn [orb]. apply B; auto using sct_V.
  - break_if; try done_ret; try done_fail.
    apply sct_args in Sa. apply sct_args in Sb.
    clear Na Nb Sa0 Sb0.
    assert (G : forall vs ys s1, inv s1 -> K s1 -> ext s s1 -> Forall (sct true s) ys ->
              ok true s1 ((fix go (vs : list bool) (xs ys : list tyv) : M unit :=
                 match vs, xs, ys with
                 | v :: vs', x :: xs', y :: ys' =>
                     (if v then Engine.unify H f true false false x y else Engine.unify H f true false false y x) ;;;
                     go vs' xs' ys'
                 | _, _, _ => ret tt
                 end) vs xs ys) KQ s1); [|apply G; auto using ext_refl].
    induction xs as [|x xs IHx]; intros vs ys' s1 I1 K1 E1 Sy; destruct vs as [|b' vs]; try done_ret;
      destruct ys' as [|y ys']; try done_ret.
    inversion Sa; subst. inversion Sy; subst.
    eapply ok_bind with (Q1 := KQ).
    + destruct b'; apply U; auto; eapply sct_ext; eauto.
    + intros u s2 I2 E2 K2. useK IHx. eapply ext_trans; eauto.
Qed.

Theorem specsK_all : forall f, specsK f.
Proof.
  induction f as [|f (U & B & Ab & Be & Fx)]; [apply specsK_0|].
  unfold specsK. repeat apply conj.
  - apply unifyK_step; auto.
  - apply bindK_step; auto.
  - apply aboveK_step; auto.
  - apply belowK_step; auto.
  - apply fixK_step; auto.
Qed.

Lemma unifyK f : spec_unifyK f. Proof. apply specsK_all. Qed.
Lemma bindK f : spec_bindK f. Proof. apply specsK_all. Qed.
Lemma fixK f : spec_fixK f. Proof. apply specsK_all. Qed.

(* ================================================================== *)
(* Part 6.  Allocation, new constraints, instance, apply, programs      *)
(* ================================================================== *)
Lemma kst_mono pend s s' c k :
  (forall y, c_bound (cell_of s' y) = c_bound (cell_of s y)) ->
  (forall u, rsv s (k_ref k) (V u) ->
     incl (cset_of s (c_cs (cell_of s u))) (cset_of s' (c_cs (cell_of s' u)))) ->
  kst s pend c k -> kst s' pend c k.
Proof.
  intros Eb Ec (Ee & Ex & a & Ea & Ba & Hr). split; [exact Ee|split; [exact Ex|]].
  exists a. split; [exact Ea|split; [exact Ba|]]. intros r R.
  assert (R0 : rsv s (k_ref k) r).
  { eapply rsv_bound_eq; [|exact R]. intros v. symmetry. apply Eb. }
  specialize (Hr r R0). destruct r as [u|o args]; [|exact Hr].
  destruct (k_done k); [exact Hr|]. apply (Ec u R0). exact Hr.
Qed.

Lemma K_alloc_var s w : inv s -> K s -> K (snd (alloc_var s w)).
Proof.
  intros I. apply Kp_eq; auto.
  - intros y. apply alloc_var_bound.
  - intros u Lu _. rewrite alloc_var_cs_old by exact Lu. intros x Hx. rewrite alloc_var_cset. exact Hx.
Qed.

Lemma closure_mono s : forall fuel todo seen r, closure_f fuel s todo seen = Ok r -> incl seen r.
Proof.
  induction fuel as [|f IH]; intros todo seen r E; [discriminate|].
  cbn [closure_f] in E. destruct todo as [|t rest]; [inversion E; subst; apply incl_refl|].
  destruct (vars_f (S f) s t []) as [vs|e]; [|discriminate].
  apply IH in E. intros x Hx. apply E. apply In_union. right. exact Hx.
Qed.

Lemma closure_has fuel s t rest vs u : closure_f fuel s (t :: rest) [] = Ok vs ->
  follow s t = V u -> In u vs.
Proof.
  intros E Ef. destruct fuel as [|f]; [discriminate|]. cbn [closure_f] in E.
  cbn [vars_f] in E. rewrite Ef in E. cbn [ins filter mem existsb negb] in E.
  apply closure_mono in E. apply E. apply In_union. left. left. reflexivity.
Qed.

Definition inform (c : nat) (v : nat) : M unit :=
  cv <- gets (fun s => cell_of s v) ;;
  match c_bound cv with
  | Some _ => fail (ECrash site_inform_bound)
  | None => modify (fun s => let i := c_cs (cell_of s v) in set_cset s i (ins c (cset_of s i)))
  end.

Lemma inform_facts c : forall vs s u s', forM vs (inform c) s = MOk u s' ->
  vars s' = vars s /\ constrs s' = constrs s /\ (forall j, incl (cset_of s j) (cset_of s' j)) /\
  forall v, In v vs -> c_cs (cell_of s v) < length (csets s) -> In c (cset_of s' (c_cs (cell_of s' v))).
Proof.
  induction vs as [|v vs IH]; intros s u s' E; cbn [forM] in E.
  - inversion E; subst. split; [reflexivity|split; [reflexivity|split; [intros j; apply incl_refl|intros v []]]].
  - unfold bindM at 1 in E. unfold inform at 1 in E. unfold bindM at 1 in E. unfold gets at 1 in E.
    destruct (c_bound (cell_of s v)); [discriminate|]. unfold modify at 1 in E.
    match type of E with forM _ _ ?sx = _ => set (s1 := sx) in * end.
    destruct (IH s1 u s' E) as (Ev & Ek & Ec & Hin).
    assert (Ec1 : forall j, incl (cset_of s j) (cset_of s1 j)).
    { intros j. unfold s1. apply cset_set_cset_incl. intros x Hx. apply In_ins. right. exact Hx. }
    split; [exact Ev|split; [exact Ek|split]].
    + intros j x Hx. apply Ec. apply Ec1. exact Hx.
    + intros v' [<-|Hv'] Lv.
      * rewrite (cell_of_vars s' s1 v Ev). change (cell_of s1 v) with (cell_of s v).
        apply Ec. unfold s1. rewrite cset_set_cset_same by exact Lv. apply In_ins. left. reflexivity.
      * apply Hin; [exact Hv'|]. unfold s1, set_cset. cbn [csets]. rewrite upd_length. exact Lv.
Qed.

Lemma new_constraint_K fuel k s u s' : inv s -> K s ->
  k_elim k = false -> (exists x, k_ref k = V x) ->
  (exists a, k_alts k = [O a []] /\ basic H a = true) -> k_done k = false ->
  Forall (sct true s) (constr_terms k) ->
  new_constraint H fuel k s = MOk u s' -> K s'.
Proof.
  intros I Kk Ee Ex (a & Ea & Ba) Ed Sk E. unfold new_constraint in E.
  unfold bindM at 1 in E. cbn [alloc_constr] in E.
  set (c := length (constrs s)) in *.
  set (s1 := {| vars := vars s; csets := csets s; constrs := constrs s ++ [k]; sched := sched s |}) in *.
  unfold bindM at 1 in E. unfold lift at 1 in E.
  destruct (closure_f fuel s1 (constr_terms k) []) as [vs|e] eqn:Ecl; [|discriminate].
  unfold bindM at 1 in E.
  match type of E with match forM ?vs ?f ?s with _ => _ end = _ =>
    change f with (inform c) in E; destruct (forM vs (inform c) s) as [u2 s2|e s2] eqn:E2; [|discriminate] end.
  destruct (inform_facts c vs s1 u2 s2 E2) as (Ev2 & Ek2 & Ec2 & Hin).
  assert (Ck : constr_of s2 c = k).
  { unfold constr_of. rewrite Ek2. unfold s1, c. cbn [constrs]. rewrite app_nth2 by lia.
    rewrite Nat.sub_diag. reflexivity. }
  assert (Pk : pureK H (constr_of s2 c)).
  { rewrite Ck. split; [exact Ee|]. intros t Et. rewrite Ea in Et. inversion Et; subst. eauto. }
  unfold bindM at 1 in E. rewrite (fulfill_pure H fuel c s2 Pk) in E. rewrite Ck in E.
  (* what the final store looks like *)
  assert (G : exists k', (k' = k \/ (k' = done_of k /\ pfc H fuel s2 k = PDone)) /\
                (forall e, pfc H fuel s2 k <> PErr e) /\
                vars s' = vars s /\ length (constrs s') = S c /\ constr_of s' c = k' /\
                (forall c', c' < c -> constr_of s' c' = constr_of s c') /\
                (forall j, cset_of s' j = cset_of s2 j)).
  { assert (Old : forall c', c' < c -> constr_of s2 c' = constr_of s c').
    { intros c' L. unfold constr_of. rewrite Ek2. unfold s1. cbn [constrs]. apply app_nth1. exact L. }
    assert (Len2 : length (constrs s2) = S c).
    { rewrite Ek2. unfold s1. cbn [constrs]. rewrite app_length. cbn. unfold c. lia. }
    destruct (pfc H fuel s2 k) eqn:Ep; [discriminate| |].
    - inversion E; subst s'. exists (done_of k). split; [right; auto|]. split; [discriminate|].
      split; [exact Ev2|split; [|split; [|split]]].
      + unfold markd, set_constr. cbn [constrs]. rewrite upd_length. exact Len2.
      + unfold markd. rewrite constr_of_set_constr_same by lia. rewrite Ck. reflexivity.
      + intros c' L. rewrite <- (Old c' L). unfold markd.
        destruct (constr_of_set_constr s2 c (done_of (constr_of s2 c)) c') as [(_ & -> & _)|E0]; [lia|exact E0].
      + reflexivity.
    - inversion E; subst s'. exists k. split; [left; reflexivity|]. split; [discriminate|].
      split; [exact Ev2|split; [exact Len2|split; [exact Ck|split; [exact Old|reflexivity]]]]. }
  destruct G as (k' & Hk' & Ne & Ev & Len & Ck' & Old & Ecs).
  assert (Ecell : forall y, cell_of s' y = cell_of s y) by (intros y; apply cell_of_vars; exact Ev).
  intros c' Lc'. rewrite Len in Lc'.
  destruct (Nat.eq_dec c' c) as [->|Nc].
  - rewrite Ck'.
    assert (Sh : k_elim k' = false /\ k_alts k' = k_alts k /\ k_ref k' = k_ref k /\ k_strict k' = k_strict k).
    { destruct Hk' as [->|(-> & _)]; auto. }
    destruct Sh as (Ee' & Ea' & Er' & Es'). split; [exact Ee'|split; [rewrite Er'; exact Ex|]].
    exists a. split; [congruence|split; [exact Ba|]]. rewrite Er', Es'. intros r R'.
    assert (R : rsv s (k_ref k) r).
    { eapply rsv_bound_eq; [|exact R']. intros y. rewrite Ecell. reflexivity. }
    assert (Ef2 : follow s2 (k_ref k) = r).
    { rewrite (follow_vars s2 s) by exact Ev2. apply rsv_follow. exact R. }
    destruct r as [x|o args].
    + destruct Hk' as [->|(-> & Ep)].
      * rewrite Ed. rewrite Ecell, Ecs.
        assert (Lx : x < length (vars s)).
        { assert (Ts : tsc (length (vars s)) (V x)).
          { eapply (rsv_tsc s); [apply (proj2 I eq_refl)|reflexivity|exact R|].
            inversion Sk as [|? ? Sr _]; subst. apply Sr. reflexivity. }
          inversion Ts; assumption. }
        change (cell_of s x) with (cell_of s1 x). rewrite <- (cell_of_vars s2 s1 x Ev2).
        apply Hin.
        -- eapply closure_has; [exact Ecl|]. rewrite <- (follow_vars s2 s1) by exact Ev2. exact Ef2.
        -- change (cell_of s1 x) with (cell_of s x). change (csets s1) with (csets s).
           apply (sc_cs (proj2 I eq_refl)). exact Lx.
      * cbn [done_of k_done]. eapply pfc_done_var; eauto.
    + left. eapply pfc_hold; eauto.
  - assert (L : c' < c) by lia. rewrite (Old c' L).
    apply (kst_mono [] s s'); [intros y; rewrite Ecell; reflexivity| |apply Kk; exact L].
    intros x _ z Hz. rewrite Ecell, Ecs. apply Ec2. exact Hz.
Qed.


(* an unbound variable *)
Definition uv (s : store) (t : tyv) : Prop := exists x, t = V x /\ c_bound (cell_of s x) = None.

Lemma uv_bound_eq s s' : (forall w, c_bound (cell_of s' w) = c_bound (cell_of s w)) ->
  forall l, Forall (uv s) l -> Forall (uv s') l.
Proof.
  intros E l. apply Forall_impl. intros t (x & -> & Hx). exists x. split; [reflexivity|]. rewrite E. exact Hx.
Qed.

Lemma fresh_listK n : forall s, inv s -> K s ->
  ok true s (fresh_list n)
     (fun fr s1 => K s1 /\ Forall (sct true s1) fr /\ length fr = n /\
                   (forall w, c_bound (cell_of s1 w) = c_bound (cell_of s w)) /\ Forall (uv s1) fr) s.
Proof.
  induction n as [|n IH]; intros s I Kk; cbn [fresh_list].
  - apply ok_ret; auto using ext_refl.
  - apply ok_fresh; auto using ext_refl. intros s1 Es1 I1 E1 _.
    assert (K1 : K s1) by (subst s1; apply K_alloc_var; auto).
    eapply ok_bind; [apply ok_use; [exact E1|apply IH; auto]|].
    intros r s2 I2 E2 ((K2 & S2 & L2 & B2 & U2) & E12). apply ok_ret; auto.
    assert (B02 : forall w, c_bound (cell_of s2 w) = c_bound (cell_of s w)).
    { intros w. rewrite B2. subst s1. apply alloc_var_bound. }
    split; [exact K2|split; [|split; [|split]]].
    + constructor; auto. apply scv_V. intros _.
      pose proof (ext_vars E12) as Lv. subst s1. rewrite alloc_var_length in Lv. lia.
    + cbn. lia.
    + exact B02.
    + constructor; [|exact U2]. exists (length (vars s)). split; [reflexivity|].
      rewrite B02. rewrite cell_of_oob by lia. reflexivity.
Qed.

Lemma eval_styK env : forall t s, inv s -> K s -> Forall (sct true s) env -> sty_wf (length env) t ->
  ok true s (eval_sty env t)
     (fun r s1 => K s1 /\ sct true s1 r /\ forall w, c_bound (cell_of s1 w) = c_bound (cell_of s w)) s.
Proof.
  induction t as [i| |o args IH] using sty_ind'; intros s I Kk Se Wf; cbn [eval_sty].
  - apply ok_gets_end; auto using ext_refl. split; [exact Kk|split; [|reflexivity]]. apply follow_sct; auto.
    inversion Wf; subst. rewrite Forall_forall in Se. apply Se; auto. apply nth_In. auto.
  - apply ok_fresh; auto using ext_refl. intros s1 Es1 I1 E1 _. apply ok_ret; auto. split; [|split].
    + subst s1. apply K_alloc_var; auto.
    + apply scv_V. intros _. subst s1. rewrite alloc_var_length. lia.
    + intros w. subst s1. apply alloc_var_bound.
  - eapply ok_bind with (Q1 := fun xs s1 => K s1 /\ Forall (sct true s1) xs /\
                                forall w, c_bound (cell_of s1 w) = c_bound (cell_of s w));
      [|intros xs s1 I1 E1 (K1 & Sx & B1); apply ok_ret; auto using sct_O].
    assert (Wa : Forall (sty_wf (length env)) args) by (inversion Wf; auto).
    clear Wf. revert s I Kk Se. induction IH as [|a r Ha Hr IHr]; intros s I Kk Se; [apply ok_ret; auto using ext_refl|].
    inversion Wa as [|? ? Wa1 Wr]; subst.
    eapply ok_bind; [apply Ha; auto|].
    intros x s1 I1 E1 (K1 & Sx & B1).
    assert (Se1 : Forall (sct true s1) env) by (eapply scts_ext; eauto).
    eapply ok_bind with (Q1 := fun xs s2 => (K s2 /\ Forall (sct true s2) xs /\
                                forall w, c_bound (cell_of s2 w) = c_bound (cell_of s1 w)) /\ ext s1 s2).
    + apply ok_use; [exact E1|]. apply IHr; auto.
    + intros xs s2 I2 E2 ((K2 & Sxs & B2) & E12). apply ok_ret; auto. split; [exact K2|split].
      * constructor; auto. eapply sct_ext; eauto.
      * intros w. rewrite B2. apply B1.
Qed.

Lemma eval_constrK fuel env sc s : inv s -> K s -> Forall (sct true s) env -> Forall (uv s) env ->
  psc H (length env) sc ->
  ok true s (eval_constr H fuel env sc) (fun _ s1 => K s1 /\ vars s1 = vars s) s.
Proof.
  intros I Kk Se Ue Pc.
  assert (Pp : pure_sconstr H sc) by (eapply psc_pure; eauto).
  destruct sc as [r t strict|r alts]; cbn [psc] in Pc; [|tauto].
  destruct r as [i| |]; try tauto. destruct t as [| |a [|x xs]]; try tauto. destruct Pc as (Li & Va).
  set (k := mkConstr false (follow s (follow s (nth i env (V 0)))) [O a []] strict false).
  assert (Em : eval_constr H fuel env (SCSub (SVar i) (SOp a []) strict) s = new_constraint H fuel k s).
  { cbn [eval_constr eval_sty]. unfold bindM, gets, ret. rewrite follow_O. reflexivity. }
  assert (Sk : Forall (sct true s) (constr_terms k)).
  { unfold constr_terms, k; cbn [k_ref k_alts]. constructor; [|constructor; [apply sct_O0|constructor]].
    apply follow_sct; auto. apply follow_sct; auto.
    rewrite Forall_forall in Se. apply Se. apply nth_In. exact Li. }
  assert (Xk : exists x, k_ref k = V x).
  { rewrite Forall_forall in Ue. destruct (Ue (nth i env (V 0))) as (x & Ex & Hx); [apply nth_In; exact Li|].
    exists x. unfold k; cbn [k_ref]. rewrite Ex. rewrite !(follow_of_nb s (V x)) by exact Hx. reflexivity. }
  eapply ok_conseq.
  - apply ok_and with (Q' := fun _ s' => K s' /\ vars s' = vars s).
    + unfold ok. rewrite Em. apply new_constraint_ok; auto.
    + intros u s' E. split.
      * rewrite Em in E. eapply (new_constraint_K fuel k s u s' I Kk); auto.
        exists a. split; [reflexivity|]. apply Lub.basic_iff. exact Va.
      * apply (quiet_eval_constr H fuel env _ Pp s (Kp_allpure _ _ Kk) u s' E).
  - cbv beta. intros u s1 _ _ (_ & K1). exact K1.
Qed.

Lemma psc_wf n sc : psc H n sc -> sconstr_wf n sc.
Proof.
  destruct sc as [r t strict|r alts]; cbn; [|tauto].
  destruct r as [i| |]; try tauto. destruct t as [| |a [|x xs]]; try tauto. intros (Li & _).
  split; constructor; auto.
Qed.

Lemma instanceK fuel sc s : inv s -> K s ->
  styg H (s_n sc) (s_body sc) -> Forall (psc H (s_n sc)) (s_constrs sc) ->
  ok true s (instance H fuel sc) (fun r s1 => K s1 /\ sct true s1 r) s.
Proof.
  intros I Kk Sb Pc. unfold instance.
  eapply ok_bind; [apply fresh_listK; auto|]. intros env s1 I1 E1 (K1 & Se & Le & _ & Ue).
  eapply ok_bind with (Q1 := fun t' s2 => (K s2 /\ sct true s2 t' /\
                           forall w, c_bound (cell_of s2 w) = c_bound (cell_of s1 w)) /\ ext s1 s2).
  { apply ok_use; [exact E1|]. apply eval_styK; auto. rewrite Le. apply (styg_wf H). exact Sb. }
  intros body s2 I2 E2 ((K2 & Sbd & B2) & E12).
  assert (Ue2 : Forall (uv s2) env) by (eapply uv_bound_eq; eauto).
  eapply ok_bind with (Q1 := fun _ s3 => K s3 /\ ext s2 s3 /\ vars s3 = vars s2).
  - apply ok_forM with (J := fun s3 => K s3 /\ ext s2 s3 /\ vars s3 = vars s2); auto using ext_refl.
    intros c s3 Hc I3 E3 (K3 & E23 & V3).
    assert (Se3 : Forall (sct true s3) env).
    { eapply scts_ext; [|exact Se]. eapply ext_trans; eauto. }
    assert (Ue3 : Forall (uv s3) env).
    { eapply uv_bound_eq; [|exact Ue2]. intros w. rewrite (cell_of_vars s3 s2 w V3). reflexivity. }
    eapply ok_conseq; [apply ok_use; [exact E3|apply eval_constrK; auto]|].
    + rewrite Le. rewrite Forall_forall in Pc. apply Pc. exact Hc.
    + cbv beta. intros u s4 _ _ ((K4 & V4) & E34).
      split; [exact K4|split; [eapply ext_trans; eauto|congruence]].
  - intros u s3 I3 E3 (K3 & E23 & _).
    assert (Sb3 : sct true s3 body) by (eapply sct_ext; eauto).
    eapply ok_conseq; [apply ok_use; [exact E3|apply fixK; auto]|].
    cbv beta. intros r s4 _ _ ((K4 & _ & Sr) & _). auto.
Qed.

Lemma applyK fuel f0 x0 fixb s : inv s -> K s -> sct true s f0 -> sct true s x0 ->
  ok true s (apply H fuel f0 x0 fixb) (fun r s1 => K s1 /\ sct true s1 r) s.
Proof.
  intros I Kk Sf0 Sx0. unfold apply. apply ok_gets. apply ok_gets.
  pose proof (follow_unbound f0 I) as Nf.
  pose proof (follow_sct I Sf0) as Sf. pose proof (follow_sct I Sx0) as Sx.
  eapply ok_bind with (Q1 := fun f' s1 => K s1 /\ sct true s1 f').
  - destruct (follow s f0) as [vf|o args]; [|apply ok_ret; auto using ext_refl].
    apply ok_fresh; auto using ext_refl. intros s1 Es1 I1 E1 _.
    assert (K1 : K s1) by (subst s1; apply K_alloc_var; auto).
    apply ok_fresh; auto. intros s2 Es2 I2 E2 E12.
    assert (K2 : K s2) by (subst s2; apply K_alloc_var; auto).
    eapply ok_bind with (Q1 := KQ).
    + useK bindK.
      5:{ intros Bt. right. pose proof (sct_V Sf Bt) as Lvf.
          apply nocc_op. intros x [<-|[<-|[]]];
            (apply nocc_unb; [|subst s2 s1; rewrite !alloc_var_bound; rewrite cell_of_oob; [reflexivity|]]);
            try (subst s1; rewrite alloc_var_length); try rewrite alloc_var_length; lia. }
      * subst s2 s1. rewrite !alloc_var_bound. exact Nf.
      * exact Logic.I.
      * apply sct_V. eapply sct_ext; [exact E2|exact Sf].
      * apply sct_O. constructor; [|constructor; [|constructor]]; apply scv_V; intros _.
        -- pose proof (ext_vars E12) as L. subst s1. rewrite alloc_var_length in L. lia.
        -- subst s2. rewrite alloc_var_length. lia.
    + intros u s3 I3 E3 K3. apply ok_gets_end; auto. split; [exact K3|].
      apply follow_sct; auto. eapply sct_ext; eauto.
  - intros f' s1 I1 E1 (K1 & Sf').
    destruct f' as [v|o [|lft [|rgt [|z r]]]]; try done_fail; break_if; try done_fail;
      try (apply ok_ret; auto using sct_O0; fail).
    + apply sct_args in Sf'. inversion Sf' as [|? ? Sl Sr']; subst. inversion Sr' as [|? ? Sr _]; subst.
      assert (Sx1 : sct true s1 (follow s x0)) by (eapply sct_ext; eauto).
      eapply ok_bind with (Q1 := fun _ s2 => K s2 /\ ext s1 s2).
      { eapply ok_conseq; [apply ok_use; [exact E1|apply unifyK; auto]|]. cbv beta. auto. }
      intros u s2 I2 E2 (K2 & E12).
      assert (Sr2 : sct true s2 rgt) by (eapply sct_ext; eauto).
      eapply ok_conseq; [apply ok_use; [exact E2|apply fixK; auto]|].
      cbv beta. intros r s4 _ _ ((K4 & _ & Sr4) & _). auto.
    + apply sct_args in Sf'. inversion Sf' as [|? ? Sl Sr']; subst. inversion Sr' as [|? ? Sr _]; subst.
      assert (Sx1 : sct true s1 (follow s x0)) by (eapply sct_ext; eauto).
      eapply ok_bind with (Q1 := fun _ s2 => K s2 /\ ext s1 s2).
      { eapply ok_conseq; [apply ok_use; [exact E1|apply unifyK; auto]|]. cbv beta. auto. }
      intros u s2 I2 E2 (K2 & E12). apply ok_ret; auto. split; [exact K2|]. eapply sct_ext; eauto.
Qed.

Lemma run_cmdK fuel c vals s : inv s -> K s -> Forall (sct true s) vals -> cmdS H (length vals) c ->
  ok true s (run_cmd H fuel c vals)
     (fun vals' s1 => K s1 /\ Forall (sct true s1) vals' /\ length vals' = S (length vals)) s.
Proof.
  intros I Kk Sv Pc. destruct Pc as [sc Sb Pcs|f x b Lf Lx]; cbn [run_cmd].
  - eapply ok_bind; [apply instanceK; auto|]. intros t s1 I1 E1 (K1 & St). apply ok_ret; auto.
    split; [exact K1|split]; [apply Forall_app; split; [eapply scts_ext; eauto|constructor; auto]|
                              rewrite app_length; cbn; lia].
  - eapply ok_bind; [apply applyK; auto; apply sct_val; auto|].
    intros t s1 I1 E1 (K1 & St). apply ok_ret; auto.
    split; [exact K1|split]; [apply Forall_app; split; [eapply scts_ext; eauto|constructor; auto]|
                              rewrite app_length; cbn; lia].
Qed.

Theorem run_cmdsK fuel : forall cs i vals s vals' s', inv s -> K s -> Forall (sct true s) vals ->
  progS H (length vals) cs -> run_cmds H fuel cs i vals s = (None, vals', s') -> inv s' /\ K s'.
Proof.
  induction cs as [|c cs IH]; intros i vals s vals' s' I Kk Sv P R; cbn [run_cmds] in R.
  - inversion R; subst. auto.
  - destruct P as [Pc Pr].
    pose proof (run_cmdK fuel c vals s I Kk Sv Pc) as O. unfold ok in O.
    destruct (run_cmd H fuel c vals s) as [vals1 s1|e s1]; [|discriminate].
    destruct O as (I1 & E1 & K1 & Sv1 & L1).
    eapply (IH (S i) vals1 s1); eauto. rewrite L1. exact Pr.
Qed.

Lemma K_empty sc : K (empty_store sc).
Proof. intros c Lc. cbn in Lc. lia. Qed.

(* clause (iii), with the rest of the invariant for the unresolved constraints *)
Theorem sub_constraints_hold fuel sc prog vals s : progS H 0 prog ->
  run_cmds H fuel prog 0 [] (empty_store sc) = (None, vals, s) ->
  forall c, c < length (constrs s) ->
  let k := constr_of s c in
  k_elim k = false /\ (exists x, k_ref k = V x) /\
  exists a, k_alts k = [O a []] /\ variance H a = [] /\
    (forall o args, follow s (k_ref k) = O o args ->
       Sub H (TOp o []) (TOp a []) /\ (k_strict k = true -> o <> a) /\ (args = [] \/ a = Top)) /\
    (forall u, follow s (k_ref k) = V u ->
       if k_done k then a = Top /\ k_strict k = false
       else In c (cset_of s (c_cs (cell_of s u)))).
Proof.
  intros P R c Lc k.
  destruct (run_cmdsK fuel prog 0 [] (empty_store sc) vals s (inv_empty true sc) (K_empty sc)
              (Forall_nil _) P R) as (I & Kk).
  destruct (Kk c Lc) as (Ee & (x & Ex) & a & Ea & Ba & Hr). fold k in Ee, Ex, Ea, Hr.
  split; [exact Ee|]. split; [exists x; exact Ex|].
  exists a. split; [exact Ea|]. split; [apply Lub.basic_iff; exact Ba|]. split.
  - intros o args Ef.
    assert (R0 : rsv s (k_ref k) (O o args)) by (rewrite <- Ef; apply follow_rsv; apply I).
    destruct (Hr _ R0) as [(Ho & Hs)|(_ & [])].
    split; [|split; [exact Hs|]].
    + destruct Ho as [->|[->|(Bo & Lo)]]; [apply SubBot|apply SubTop|].
      apply ole_Sub; auto. apply Lub.basic_iff. exact Bo.
    + destruct (Nat.eq_dec a Top) as [->|Na]; [right; reflexivity|left].
      assert (Bo : basic H o = true).
      { destruct Ho as [->|[->|(Bo & _)]]; [|congruence|exact Bo].
        apply Lub.basic_iff. apply (wf_bot H W). }
      destruct (sub_final_cells H W fuel sc prog vals s P R) as (Jsc & _ & _).
      assert (Tr : forall t r, rsv s t r -> tg H (length (vars s)) t -> tg H (length (vars s)) r).
      { intros t r Rr. induction Rr as [v Hv|v t r Hv Hr' IH|o' args']; auto.
        intros _. apply IH. eapply Jsc; eauto. }
      rewrite Ex in R0. inversion R0 as [|? t ? Hx Rt|]; subst.
      assert (Tg : tg H (length (vars s)) (O o args)) by (eapply Tr; [exact Rt|eapply Jsc; eauto]).
      inversion Tg as [|? ? La _]; subst.
      apply Lub.basic_iff in Bo. rewrite Bo in La. destruct args; [reflexivity|discriminate].
  - intros u Ef.
    assert (R0 : rsv s (k_ref k) (V u)) by (rewrite <- Ef; apply follow_rsv; apply I).
    exact (Hr _ R0).
Qed.

(* the same, read with a grounding *)
Theorem sub_constraints_sem fuel sc prog vals s : progS H 0 prog ->
  run_cmds H fuel prog 0 [] (empty_store sc) = (None, vals, s) ->
  forall c, c < length (constrs s) ->
  let k := constr_of s c in
  exists a, k_alts k = [O a []] /\
    forall o args, follow s (k_ref k) = O o args ->
    forall th, sat H th s ->
      Sub H (den th (k_ref k)) (TOp a []) /\ (k_strict k = true -> den th (k_ref k) <> TOp a []).
Proof.
  intros P R c Lc k.
  destruct (sub_constraints_hold fuel sc prog vals s P R c Lc) as (_ & _ & a & Ea & Va & Hr & _).
  fold k in Ea, Hr. exists a. split; [exact Ea|]. intros o args Ef th S.
  destruct (Hr o args Ef) as (Sb & St & Ar).
  rewrite <- (den_follow H th s (k_ref k) S), Ef. cbn [den].
  destruct Ar as [->| ->].
  - cbn [map]. split; [exact Sb|]. intros Es E. apply (St Es). congruence.
  - split; [apply SubTop|]. intros Es E. apply (St Es). congruence.
Qed.

End KInv.

(* ================================================================== *)
(* Part 7.  C03 for pure programs, all clauses                          *)
(* ================================================================== *)
Section Main.
Variable H : hier.
Hypothesis W : wf_hier H.

Theorem sub_sound fuel sc prog vals s : progS H 0 prog ->
  run_cmds H fuel prog 0 [] (empty_store sc) = (None, vals, s) ->
  (* (i)+(ii) every application step is well typed under every grounding *)
  (forall th, sat H th s -> forall f x r, In (f, x, r) (steps_of prog 0) ->
     StepSem H th (val vals f) (val vals x) (val vals r)) /\
  (* (iii) every resolved constraint holds *)
  (forall c, c < length (constrs s) ->
     exists a, k_alts (constr_of s c) = [O a []] /\
       forall o args, follow s (k_ref (constr_of s c)) = O o args ->
         Sub H (TOp o []) (TOp a []) /\ (k_strict (constr_of s c) = true -> o <> a) /\
         (args = [] \/ a = Top)) /\
  (* (iv) a variable that carries a bound is never resolved to a compound type *)
  (forall v t o args, c_bound (cell_of s v) = Some t ->
     (c_lower (cell_of s v) <> None \/ c_upper (cell_of s v) <> None) ->
     follow s t = O o args -> args = []).
Proof.
  intros P R. split; [exact (sub_sound12 H W fuel sc prog vals s P R)|split].
  - intros c Lc.
    destruct (sub_constraints_hold H W fuel sc prog vals s P R c Lc) as (_ & _ & a & Ea & _ & Hr & _).
    exists a. split; [exact Ea|exact Hr].
  - exact (sub_bounded H W fuel sc prog vals s P R).
Qed.
End Main.

(* ================================================================== *)
(* Part 8.  The per-operation soundness statements of Infer/Sound.v on  *)
(* stores WITH (pure) constraints: check_constraints / fulfill now run, *)
(* but only re-check.  Forward invariant: [Jv] (the cell part of        *)
(* Sound.J) + [allpure]; obtained from Sound.specs_all through the      *)
(* erasure simulation of Part 1.                                        *)
(* ================================================================== *)
Section PerOp.
Variable H : hier.
Hypothesis W : wf_hier H.
Local Notation len s := (length (vars s)).

Definition Jv (s : store) : Prop :=
  (forall v t, c_bound (cell_of s v) = Some t -> tg H (len s) t) /\ (forall v, bok H (cell_of s v)).

(* the same cells, no constraints *)
Definition strip (s : store) : store := mkStore (vars s) (map (fun _ => []) (csets s)) [] (sched s).

Lemma Rv_strip s : allpure H s -> Rv H s (strip s).
Proof.
  intros P. split; [reflexivity|split; [|split; [exact P|apply map_length]]].
  intros i. unfold cset_of, strip. cbn [csets]. revert i.
  induction (csets s) as [|x l IH]; intros [|i]; cbn; auto.
Qed.

Lemma J_of_Jv s s0 : Jv s -> vars s0 = vars s -> nocs s0 -> J H s0.
Proof.
  intros (A & B) E N. constructor; [exact N| |].
  - intros v t. rewrite E, (cell_of_vars s0 s v E). apply A.
  - intros v. rewrite (cell_of_vars s0 s v E). apply B.
Qed.

Lemma Jv_of_J s s0 : J H s0 -> vars s0 = vars s -> Jv s.
Proof.
  intros J0 E. split.
  - intros v t. rewrite <- E, <- (cell_of_vars s0 s v E). apply (J_sc H s0 J0).
  - intros v. rewrite <- (cell_of_vars s0 s v E). apply (J_b H s0 J0).
Qed.

Lemma le_vars s s' s0 s0' : vars s0 = vars s -> vars s0' = vars s' -> le H s0 s0' -> le H s s'.
Proof.
  intros E E' [L M]. split; [rewrite <- E, <- E'; exact L|].
  intros th S. apply (sat_vars H th s s0 E). apply M. apply (sat_vars H th s' s0' E'). exact S.
Qed.

Lemma fr_vars s s' s0 s0' : vars s0 = vars s -> vars s0' = vars s' -> fr H s0 s0' -> fr H s s'.
Proof.
  intros E E' [Kp0 F N]. constructor.
  - intros x. rewrite <- (cell_of_vars s0 s x E), <- (cell_of_vars s0' s' x E'). apply Kp0.
  - intros x. rewrite <- (cell_of_vars s0 s x E), <- (cell_of_vars s0' s' x E'). apply F.
  - intros x. rewrite <- (cell_of_vars s0 s x E), <- (cell_of_vars s0' s' x E').
    intros A B C th S. apply (N x A B C th). apply (sat_vars H th s' s0' E'). exact S.
Qed.

(* the common shape of the postconditions *)
Definition goodv (s : store) (R : (nat -> ty) -> Prop) (s' : store) : Prop :=
  Jv s' /\ allpure H s' /\ le H s s' /\ fr H s s' /\ forall th, sat H th s' -> R th.

Lemma goodv_of s s' s0 s0' R : vars s0 = vars s -> Rv H s' s0' -> good H s0 R s0' -> goodv s R s'.
Proof.
  intros E (E' & _ & P' & _) (J0 & L & F & HR).
  split; [eapply Jv_of_J; eauto|split; [exact P'|split; [eapply le_vars; eauto|split; [eapply fr_vars; eauto|]]]].
  intros th S. apply HR. apply (sat_vars H th s' s0' E'). exact S.
Qed.

Theorem unify_sound_sub fuel a b s s' : Jv s -> allpure H s -> tg H (len s) a -> tg H (len s) b ->
  unify H fuel true false false a b s = MOk tt s' ->
  goodv s (fun th => Sub H (den th a) (den th b)) s'.
Proof.
  intros Jvs P Ta Tb E.
  destruct (sim_unify H fuel true false false a b s (strip s) (Rv_strip s P) tt s' E) as (s0' & E0 & R').
  assert (J0 : J H (strip s)) by (apply (J_of_Jv s (strip s) Jvs eq_refl); apply (Rv_strip s P)).
  eapply (goodv_of s s' (strip s) s0'); [reflexivity|exact R'|].
  exact (unify_sound H W fuel a b (strip s) J0 Ta Tb tt s0' E0).
Qed.

Theorem bind_sound_sub fuel v t s s' : Jv s -> allpure H s -> v < len s -> tg H (len s) t ->
  (forall o args, t = O o args -> basic H o = true -> cmpb H (cell_of s v) o) ->
  bind H fuel v t s = MOk tt s' -> goodv s (fun th => th v = den th t) s'.
Proof.
  intros Jvs P Lv Tt C E.
  destruct (sim_bind_var H fuel v t s (strip s) (Rv_strip s P) tt s' E) as (s0' & E0 & R').
  assert (J0 : J H (strip s)) by (apply (J_of_Jv s (strip s) Jvs eq_refl); apply (Rv_strip s P)).
  eapply (goodv_of s s' (strip s) s0'); [reflexivity|exact R'|].
  exact (bind_sound H W fuel v t (strip s) J0 Lv Tt C tt s0' E0).
Qed.

Theorem above_sound_sub fuel v new s s' : Jv s -> allpure H s -> v < len s ->
  variance H new = [] -> new <> Bottom ->
  above H fuel v new s = MOk tt s' -> goodv s (fun th => lbo H new (th v)) s'.
Proof.
  intros Jvs P Lv Vn Nb E.
  destruct (proj1 (proj2 (proj2 (sims_all H fuel))) v new s (strip s) (Rv_strip s P) tt s' E) as (s0' & E0 & R').
  assert (J0 : J H (strip s)) by (apply (J_of_Jv s (strip s) Jvs eq_refl); apply (Rv_strip s P)).
  eapply (goodv_of s s' (strip s) s0'); [reflexivity|exact R'|].
  exact (above_sound H W fuel v new (strip s) J0 Lv Vn Nb tt s0' E0).
Qed.

Theorem below_sound_sub fuel v new s s' : Jv s -> allpure H s -> v < len s ->
  variance H new = [] -> new <> Top ->
  below H fuel v new s = MOk tt s' -> goodv s (fun th => ubo H new (th v)) s'.
Proof.
  intros Jvs P Lv Vn Nb E.
  destruct (proj1 (proj2 (proj2 (proj2 (sims_all H fuel)))) v new s (strip s) (Rv_strip s P) tt s' E) as (s0' & E0 & R').
  assert (J0 : J H (strip s)) by (apply (J_of_Jv s (strip s) Jvs eq_refl); apply (Rv_strip s P)).
  eapply (goodv_of s s' (strip s) s0'); [reflexivity|exact R'|].
  exact (below_sound H W fuel v new (strip s) J0 Lv Vn Nb tt s0' E0).
Qed.

Theorem fix_sound_sub fuel pl t s r s' : Jv s -> allpure H s -> tg H (len s) t ->
  fix_ty H fuel pl t s = MOk r s' ->
  tg H (len s') r /\ goodv s (fun th => den th r = den th t) s'.
Proof.
  intros Jvs P Tt E.
  destruct (sim_fix_ty H fuel pl t s (strip s) (Rv_strip s P) r s' E) as (s0' & E0 & R').
  assert (J0 : J H (strip s)) by (apply (J_of_Jv s (strip s) Jvs eq_refl); apply (Rv_strip s P)).
  destruct (fix_sound H W fuel pl t (strip s) J0 Tt r s0' E0) as (Tr & G).
  split; [rewrite <- (proj1 R'); exact Tr|].
  eapply (goodv_of s s' (strip s) s0'); [reflexivity|exact R'|exact G].
Qed.

Theorem apply_sound_sub fuel f x fixb s r s' : Jv s -> allpure H s -> tg H (len s) f -> tg H (len s) x ->
  apply H fuel f x fixb s = MOk r s' ->
  tg H (len s') r /\ goodv s (fun th => StepSem H th f x r) s'.
Proof.
  intros Jvs P Tf Tx E.
  destruct (sim_apply H fuel f x fixb s (strip s) (Rv_strip s P) r s' E) as (s0' & E0 & R').
  assert (J0 : J H (strip s)) by (apply (J_of_Jv s (strip s) Jvs eq_refl); apply (Rv_strip s P)).
  destruct (apply_good H W fuel f x fixb (strip s) J0 Tf Tx r s0' E0) as (Tr & G).
  split; [rewrite <- (proj1 R'); exact Tr|].
  eapply (goodv_of s s' (strip s) s0'); [reflexivity|exact R'|exact G].
Qed.

End PerOp.

(* every reachable store satisfies the hypotheses of the per-operation statements *)
Theorem sub_final (H : hier) (W : wf_hier H) fuel sc prog vals s : progS H 0 prog ->
  run_cmds H fuel prog 0 [] (empty_store sc) = (None, vals, s) ->
  invb true s /\ K H s /\ Jv H s /\ allpure H s /\ Forall (tg H (length (vars s))) vals.
Proof.
  intros P R.
  destruct (run_cmdsK H W fuel prog 0 [] (empty_store sc) vals s (inv_empty true sc) (K_empty H sc)
              (Forall_nil _) P R) as (I & Kk).
  destruct (sub_final_cells H W fuel sc prog vals s P R) as (A & B & C).
  split; [exact I|split; [exact Kk|split; [split; [exact A|exact B]|split; [|exact C]]]].
  eapply Kp_allpure. exact Kk.
Qed.
