(* C03 (elimination constraints over base alternatives), part S: forward
   soundness of the inference-engine model on stores that carry pure subtype
   constraints  x <= A / x < A  AND elimination constraints  x << [A1..An]
   whose alternatives are user base operators.

   Unlike a pure subtype constraint, fulfilling an elimination constraint
   WRITES variable cells: when one alternative is left it calls
   unify(ref, alt, subtype) = below(ref, alt).  So the erasure argument of
   Infer/SoundSub.v does not apply; instead the induction on fuel of
   Infer/Sound.v is redone over unify / bind / above / below / fix_ty /
   check_constraints / fulfill with check_constraints no longer a no-op
   (minimize and the filter loop are used in closed form: FitsEngineList.v).

   Forward invariant [JE] = [Jv] (cells: bindings well-scoped and arity-correct,
   bounds proper base operators, lower <= upper) + [CW] (every constraint
   object: reference well-scoped; a subtype constraint has one base target, an
   elimination constraint a list of user base operators as alternatives).
   Postcondition [goodE s R s']: JE s', [le]/[fr] of Sound.v (every grounding
   satisfying s' satisfies s; frame), [cfr] (no constraint created, kinds fixed,
   a fulfilled elimination constraint is never touched again), [nd] (every
   elimination constraint fulfilled on the way satisfies its DONE CLAUSE
   [dcl]: one alternative a left and every satisfying grounding puts the
   reference below a), and R for every satisfying grounding. *)
From Coq Require Import List Arith Bool Lia Permutation.
Import ListNotations.
From TF Require Import Base.Hier Base.Ty Sub.SubSpec Infer.Store Infer.Engine Infer.Run
  Infer.Witness Infer.Check Infer.Sched Infer.Inv Infer.Sound Infer.SchedIndep Infer.SoundSub.
From TF Require Infer.Lub Infer.FitsEngineList.

Module FL := TF.Infer.FitsEngineList.

Unset Implicit Arguments.

(* ================================================================== *)
(* Part 0.  Closed form of fulfilling an elimination constraint whose   *)
(* alternatives are user base operators                                 *)
(* ================================================================== *)
Section Forms.
Variable H : hier.
Hypothesis W : wf_hier H.
Local Notation gd := (FL.good H).
Local Notation ob := FL.ob.
Local Notation obs := FL.obs.
Local Notation mins_of := (FL.mins_of H).

Lemma obs_cons b l : obs (b :: l) = ob b :: obs l.
Proof. reflexivity. Qed.

(* FitsEngineList.outer_bases with one unit of fuel less *)
Lemma outer_bases1 g s : forall l ms, Forall gd l -> Forall gd ms ->
  FL.min_outer H (S g) (obs l) (obs ms) s = MOk (obs (fold_left (FL.min_step H) l ms)) s.
Proof.
  induction l as [|b l IH]; intros ms Gl Gm.
  - reflexivity.
  - inversion Gl as [|? ? Gb Gl']; subst.
    rewrite obs_cons, FL.min_outer_cons. unfold bindM at 1.
    rewrite (FL.inner_bases H g b s Gb ms [] true Gm).
    cbn [andb]. change (fold_left (FL.min_step H) (b :: l) ms) with (fold_left (FL.min_step H) l (FL.min_step H ms b)).
    pose proof (FL.min_step_good H ms b Gm Gb) as G.
    assert (Ems : FL.min_step H ms b =
                  if existsb (FL.le H b) (map (FL.repl H b) ms) then map (FL.repl H b) ms
                  else map (FL.repl H b) ms ++ [b]) by reflexivity.
    rewrite Ems in *. clear Ems. rewrite app_nil_l.
    destruct (existsb (FL.le H b) (map (FL.repl H b) ms)) eqn:E; cbn [negb].
    + apply IH; auto.
    + unfold bindM at 1. unfold gets at 1. unfold FL.ob at 1. rewrite follow_O.
      unfold bindM at 1. rewrite (FL.fix_base H g s b) by apply Gb.
      change [O b []] with (obs [b]). unfold obs. rewrite <- map_app. apply IH; auto.
Qed.

Lemma minimize_bases1 g c s l : Forall gd l -> k_alts (constr_of s c) = obs l ->
  minimize H (S (S g)) c s =
  MOk tt (set_constr s c (mkConstr (k_elim (constr_of s c)) (follow s (k_ref (constr_of s c)))
                                   (obs (mins_of l)) (k_strict (constr_of s c)) (k_done (constr_of s c)))).
Proof.
  intros G E. rewrite FL.minimize_S'. unfold bindM at 1. unfold gets at 1. rewrite E.
  unfold bindM at 1. change (@nil tyv) with (obs []).
  rewrite outer_bases1 by auto.
  unfold bindM at 1. unfold gets at 1. unfold bindM at 1. unfold gets at 1.
  rewrite FL.follow_obs. reflexivity.
Qed.

Lemma minimize_nil g c s : k_alts (constr_of s c) = [] ->
  minimize H (S g) c s =
  MOk tt (set_constr s c (mkConstr (k_elim (constr_of s c)) (follow s (k_ref (constr_of s c)))
                                   [] (k_strict (constr_of s c)) (k_done (constr_of s c)))).
Proof.
  intros E. rewrite FL.minimize_S'. unfold bindM at 1. unfold gets at 1. rewrite E. reflexivity.
Qed.

(* with one unit of fuel minimize succeeds only on the empty list *)
Lemma minimize_1 c s u s' : minimize H 1 c s = MOk u s' -> k_alts (constr_of s c) = [].
Proof.
  rewrite FL.minimize_S'. unfold bindM at 1. unfold gets at 1.
  destruct (k_alts (constr_of s c)) as [|t r]; [reflexivity|].
  unfold bindM at 1. rewrite FL.min_outer_cons. unfold bindM at 1.
  rewrite FL.min_inner_nil. unfold ret at 1. unfold bindM at 1. unfold gets at 1.
  unfold bindM at 1. rewrite fix_ty_0. unfold fail. discriminate.
Qed.

(* matching anything against a base operation never runs out of fuel *)
Lemma match_base_total f s sub aw r m : gd m ->
  exists x, match_f H (S f) s sub aw r (O m []) = Ok x.
Proof.
  intros (Vm & _ & _). cbn [match_f]. rewrite follow_O.
  destruct (follow s r) as [v|o args].
  - repeat match goal with |- context[if ?c then _ else _] => destruct c end; eauto.
  - destruct (sub && ((o =? Bottom) || (m =? Top))); [eauto|].
    destruct (basic H o) eqn:Bo; [eauto|].
    destruct (negb (o =? m)) eqn:En; [eauto|].
    exfalso. apply negb_false_iff, Nat.eqb_eq in En. subst o.
    unfold basic, arity in Bo. rewrite Vm in Bo. discriminate.
Qed.

(* the verdict of the filter of fulfill on one alternative *)
Definition keep (f : nat) (s : store) (r : tyv) (m : nat) : bool :=
  match match_f H f s true true r (O m []) with Ok (Some false) => false | _ => true end.

Lemma filt_keep f s r l : Forall gd l ->
  FL.filt H (S f) s r (obs l) = Ok (obs (filter (keep (S f) s r) l)).
Proof.
  intros G. apply FL.filt_bases; auto. intros m Gm.
  destruct (match_base_total f s true true r m Gm) as (x & Ex). exists x. split; [exact Ex|].
  unfold keep. rewrite Ex. reflexivity.
Qed.

(* a kept alternative of a RESOLVED reference is above it *)
Lemma keep_resolved f s r o args m : gd m -> follow s r = O o args -> keep (S f) s r m = true ->
  o = Bottom \/ (basic H o = true /\ Lub.ole H o m).
Proof.
  intros (Vm & Tm & _) Er. unfold keep. cbn [match_f]. rewrite follow_O, Er. cbn [andb].
  apply Nat.eqb_neq in Tm. rewrite Tm, orb_false_r.
  destruct (o =? Bottom) eqn:Eb; [apply Nat.eqb_eq in Eb; auto|].
  destruct (basic H o) eqn:Bo.
  - destruct ((o =? m) || osub H false o m) eqn:E; [|discriminate]. intros _. right. split; [reflexivity|].
    apply orb_true_iff in E. destruct E as [E|E].
    + apply Nat.eqb_eq in E. subst. apply Lub.ole_refl.
    + apply Lub.osubF_iff in E; auto.
  - destruct (negb (o =? m)) eqn:En; [discriminate|].
    apply negb_false_iff, Nat.eqb_eq in En. subst o.
    unfold basic, arity in Bo. rewrite Vm in Bo. discriminate.
Qed.

Definition set_alts (k : constr) (r : tyv) (alts : list tyv) (d : bool) : constr :=
  mkConstr true r alts (k_strict k) d.

(* what a successful fulfill of a pending elimination constraint did *)
Lemma fulfill_elim_form f c s l b s' :
  k_elim (constr_of s c) = true -> k_done (constr_of s c) = false ->
  Forall gd l -> k_alts (constr_of s c) = obs l -> c < length (constrs s) ->
  fulfill H (S f) c s = MOk b s' ->
  let k := constr_of s c in
  let r0 := follow s (k_ref k) in
  let s1 := set_constr s c (set_alts k r0 (obs (mins_of l)) false) in
  let l2 := filter (keep f s1 r0) (mins_of l) in
  let s2 := set_constr s c (set_alts k r0 (obs l2) false) in
  (exists g, f = S (S g)) /\
  ((exists m1 m2 rest, l2 = m1 :: m2 :: rest /\ s' = s2 /\ b = false) \/
   (exists m u, l2 = [m] /\
     unify H f true false false r0 (ob m) (set_constr s c (set_alts k r0 [ob m] true)) = MOk u s' /\
     b = k_done (constr_of s' c))).
Proof.
  intros Ee Ed G Ea Lc E k r0 s1 l2 s2.
  rewrite FL.fulfill_S' in E. unfold bindM at 1 in E. unfold gets at 1 in E.
  fold k in E. unfold k in E at 1 2. rewrite Ee, Ed in E. fold k in E.
  unfold bindM at 1 in E.
  destruct f as [|[|g]].
  - rewrite minimize_0 in E. discriminate.
  - destruct (minimize H 1 c s) as [u1 s1'|e s1'] eqn:Em; [|discriminate].
    pose proof (minimize_1 c s u1 s1' Em) as En. rewrite Ea in En.
    destruct l as [|x l]; [|discriminate].
    rewrite (minimize_nil 0 c s Ea) in Em. inversion Em; subst s1'. clear Em.
    exfalso. unfold bindM at 1 in E. unfold gets at 1 in E.
    rewrite constr_of_set_constr_same in E by exact Lc.
    unfold bindM at 1 in E. unfold gets at 1 in E.
    match type of E with (if negb ?n then _ else _) _ = _ => destruct n end; [|discriminate].
    cbn [negb] in E. unfold bindM at 1 in E. unfold lift at 1 in E. cbn [k_alts] in E.
    rewrite FL.filt_nil in E.
    unfold bindM at 1 in E. unfold upd_constr at 1 in E. unfold modify at 1 in E. discriminate.
  - split; [exists g; reflexivity|].
    rewrite (minimize_bases1 g c s l G Ea) in E. rewrite Ee, Ed in E. fold k in E.
    change (set_constr s c (mkConstr true (follow s (k_ref k)) (obs (mins_of l)) (k_strict k) false)) with s1 in E.
    assert (C1 : constr_of s1 c = set_alts k r0 (obs (mins_of l)) false).
    { unfold s1. apply constr_of_set_constr_same. exact Lc. }
    unfold bindM at 1 in E. unfold gets at 1 in E. rewrite C1 in E.
    unfold bindM at 1 in E. unfold gets at 1 in E.
    match type of E with (if negb ?n then _ else _) _ = _ => destruct n end; [|discriminate].
    cbn [negb] in E. unfold bindM at 1 in E. unfold lift at 1 in E. cbn [set_alts k_ref k_alts] in E.
    rewrite (filt_keep (S g) s1 r0 (mins_of l)) in E by (apply FL.mins_of_good; exact G).
    fold l2 in E. unfold bindM at 1 in E. unfold upd_constr at 1 in E. unfold modify at 1 in E.
    rewrite C1 in E. cbn [set_alts k_ref k_strict k_done] in E.
    assert (Es2 : set_constr s1 c (mkConstr true r0 (obs l2) (k_strict k) false) = s2).
    { unfold s1, s2, set_constr. cbn [vars csets constrs sched]. rewrite si_upd_upd. reflexivity. }
    rewrite Es2 in E.
    assert (C2 : constr_of s2 c = set_alts k r0 (obs l2) false).
    { unfold s2. apply constr_of_set_constr_same. exact Lc. }
    destruct l2 as [|m1 [|m2 rest]] eqn:El2.
    + discriminate.
    + right. cbn [FL.obs map] in E. unfold bindM at 1 in E. unfold upd_constr at 1 in E. unfold modify at 1 in E.
      rewrite C2 in E. cbn [set_alts k_ref k_alts k_strict] in E.
      assert (Es3 : set_constr s2 c (mkConstr true r0 (obs [m1]) (k_strict k) true) =
                    set_constr s c (set_alts k r0 [ob m1] true)).
      { unfold s2, set_constr. cbn [vars csets constrs sched]. rewrite si_upd_upd. reflexivity. }
      rewrite Es3 in E. clear Es3.
      unfold bindM at 1 in E.
      destruct (unify H (S (S g)) true false false r0 (ob m1) _) as [u s4|e s4] eqn:Eu; [|discriminate].
      unfold bindM, gets, ret in E. inversion E; subst. exists m1, u. auto.
    + left. cbn [FL.obs map] in E. unfold bindM, gets, ret in E. inversion E; subst.
      rewrite C2. cbn. eauto 6.
Qed.

End Forms.


(* ================================================================== *)
(* Part 1.  Invariant, refinement relations                             *)
(* ================================================================== *)
Section SoundE.
Variable H : hier.
Hypothesis W : wf_hier H.
Local Notation gd := (FL.good H).
Local Notation ob := FL.ob.
Local Notation obs := FL.obs.
Local Notation mins_of := (FL.mins_of H).
Local Notation ole := (Lub.ole H).
Local Notation len s := (length (vars s)).
Local Notation tg := (Sound.tg H).
Local Notation sat := (Sound.sat H).
Local Notation le := (Sound.le H).
Local Notation fr := (Sound.fr H).
Local Notation bok := (Sound.bok H).
Local Notation lbo := (Sound.lbo H).
Local Notation ubo := (Sound.ubo H).
Local Notation inb := (Sound.inb H).
Local Notation cmpb := (Sound.cmpb H).
Local Notation osubF_true := (Sound.osubF_true H W).
Local Notation osubF_neg := (Sound.osubF_neg H W).
Local Notation ole_trans := (Sound.ole_trans H W).
Local Notation osubT_false_cmp := (Sound.osubT_false_cmp H W).
Local Notation osubT_true_ole := (Sound.osubT_true_ole H W).
Local Notation lbo_trans := (Sound.lbo_trans H W).
Local Notation ubo_trans := (Sound.ubo_trans H W).
Local Notation var_top := (SubSpec.var_top H W).
Local Notation var_bot := (SubSpec.var_bot H W).
Local Notation var_fun := (Sound.var_fun H W).

(* shape of a constraint object: reference well-scoped; one base target
   (subtype constraint) / user base operators (elimination constraint) *)
Definition cw (n : nat) (k : constr) : Prop :=
  tg n (k_ref k) /\
  if k_elim k then exists l, Forall gd l /\ k_alts k = obs l
  else exists a, k_alts k = [O a []] /\ basic H a = true.

Definition CW (s : store) : Prop := forall c, c < length (constrs s) -> cw (len s) (constr_of s c).

Definition JE (s : store) : Prop := Jv H s /\ CW s.

Lemma JE_sc s : JE s -> forall v t, c_bound (cell_of s v) = Some t -> tg (len s) t.
Proof. intros I. apply (proj1 (proj1 I)). Qed.

Lemma JE_b s : JE s -> forall v, bok (cell_of s v).
Proof. intros I. apply (proj2 (proj1 I)). Qed.

Lemma cw_mono n m k : n <= m -> cw n k -> cw m k.
Proof. intros L (T & S). split; [eapply tg_mono; eauto|exact S]. Qed.

Lemma JE_semeq s s' : semeq s s' -> constrs s' = constrs s -> JE s -> JE s'.
Proof.
  intros [L C] Ek ((A & B) & Cw). split; [split|].
  - intros v t Hv. destruct (C v) as (Eb & _). rewrite Eb in Hv. rewrite L. eapply A; eauto.
  - intros v. destruct (C v) as (_ & El & Eu). pose proof (B v) as Bv.
    unfold Sound.bok in *. rewrite El, Eu. exact Bv.
  - intros c Lc. unfold constr_of. rewrite Ek, L. apply Cw. rewrite <- Ek. exact Lc.
Qed.

Lemma tg_followE_f s : JE s -> forall fuel t, tg (len s) t -> tg (len s) (follow_f fuel s t).
Proof.
  intros I. induction fuel as [|f IH]; intros [v|o args] Ht; cbn [follow_f]; auto.
  - destruct (c_bound (cell_of s v)); auto.
  - destruct (c_bound (cell_of s v)) as [t'|] eqn:Hv; auto. apply IH. eapply JE_sc; eauto.
Qed.

Lemma tg_follow s t : JE s -> tg (len s) t -> tg (len s) (follow s t).
Proof. intros I. apply tg_followE_f. exact I. Qed.

(* the done clause of a fulfilled elimination constraint *)
Definition dcl (s : store) (c : nat) : Prop :=
  exists a, k_alts (constr_of s c) = [O a []] /\
    forall th, sat th s -> Sub H (den th (k_ref (constr_of s c))) (TOp a []).

Record cfr (s s' : store) : Prop := mkCfr {
  cfr_len : length (constrs s) <= length (constrs s');
  cfr_kind : forall c, c < length (constrs s) -> k_elim (constr_of s' c) = k_elim (constr_of s c);
  cfr_frz : forall c, k_elim (constr_of s c) = true -> k_done (constr_of s c) = true ->
              constr_of s' c = constr_of s c
}.

Definition nd (s s' : store) : Prop :=
  forall c, k_elim (constr_of s' c) = true -> k_done (constr_of s' c) = true ->
            k_done (constr_of s c) = false -> dcl s' c.

(* what a step does to the constraint objects *)
Definition cx (s s' : store) : Prop := cfr s s' /\ nd s s'.

Lemma cfr_refl s : cfr s s.
Proof. constructor; auto. Qed.

Lemma cfr_trans s1 s2 s3 : cfr s1 s2 -> cfr s2 s3 -> cfr s1 s3.
Proof.
  intros [L1 K1 F1] [L2 K2 F2]. constructor.
  - lia.
  - intros c Lc. rewrite K2 by lia. apply K1. exact Lc.
  - intros c Ee Ed. pose proof (F1 c Ee Ed) as E1. rewrite <- E1 in Ee, Ed. rewrite (F2 c Ee Ed). exact E1.
Qed.

Lemma cx_same s s' : constrs s' = constrs s -> cx s s'.
Proof.
  intros E. assert (Ec : forall c, constr_of s' c = constr_of s c) by (intros c; unfold constr_of; rewrite E; reflexivity).
  split.
  - constructor; [rewrite E; auto| |]; intros c; rewrite Ec; auto.
  - intros c _ Ed Ed'. rewrite Ec in Ed. congruence.
Qed.

Lemma cx_refl s : cx s s.
Proof. apply cx_same. reflexivity. Qed.

Lemma done_in_range s c : k_done (constr_of s c) = true -> c < length (constrs s).
Proof.
  intros E. destruct (Nat.lt_ge_cases c (length (constrs s))) as [L|L]; [exact L|].
  rewrite constr_of_oob in E by exact L. discriminate.
Qed.

Lemma cx_trans s1 s2 s3 : cx s1 s2 -> cx s2 s3 -> (forall th, sat th s3 -> sat th s2) -> cx s1 s3.
Proof.
  intros [C1 N1] [C2 N2] M. split; [eapply cfr_trans; eauto|].
  intros c Ee Ed Ed1. destruct (k_done (constr_of s2 c)) eqn:D2.
  - pose proof (done_in_range _ _ D2) as Lc.
    assert (Ee2 : k_elim (constr_of s2 c) = true) by (rewrite <- (cfr_kind _ _ C2 c Lc); exact Ee).
    destruct (N1 c Ee2 D2 Ed1) as (a & Ea & Ha).
    pose proof (cfr_frz _ _ C2 c Ee2 D2) as E23.
    exists a. rewrite E23. split; [exact Ea|]. intros th S3. apply Ha. apply M. exact S3.
  - apply N2; auto.
Qed.

(* the standard postcondition *)
Definition goodE (s : store) (R : (nat -> ty) -> Prop) (s' : store) : Prop :=
  JE s' /\ le s s' /\ fr s s' /\ (cx s s' /\ length (constrs s') = length (constrs s)) /\
  forall th, sat th s' -> R th.

Lemma goodE_refl s (R : (nat -> ty) -> Prop) : JE s -> (forall th, sat th s -> R th) -> goodE s R s.
Proof.
  intros I HR. split; [auto|split; [apply le_refl|split; [apply fr_refl|split; [split; [apply cx_refl|reflexivity]|auto]]]].
Qed.

Lemma goodE_trans s s1 s2 (R1 R2 R : (nat -> ty) -> Prop) :
  goodE s R1 s1 -> goodE s1 R2 s2 ->
  (forall th, sat th s2 -> sat th s1 -> sat th s -> R1 th -> R2 th -> R th) -> goodE s R s2.
Proof.
  intros (I1 & L1 & F1 & (X1 & N1) & H1) (I2 & L2 & F2 & (X2 & N2) & H2) K.
  split; [auto|split; [eapply le_trans; eauto|split; [eapply fr_trans; eauto; apply L2|split]]].
  - split; [eapply cx_trans; eauto; apply L2|congruence].
  - intros th S2. pose proof (proj2 L2 th S2) as S1. pose proof (proj2 L1 th S1) as S0. apply K; auto.
Qed.

Lemma goodE_semeq s s' (R : (nat -> ty) -> Prop) :
  JE s -> semeq s s' -> constrs s' = constrs s -> (forall th, sat th s -> R th) -> goodE s R s'.
Proof.
  intros I E Ek HR.
  split; [eapply JE_semeq; eauto|split; [apply le_semeq; auto|split; [apply fr_semeq; auto|split]]].
  - split; [apply cx_same; exact Ek|rewrite Ek; reflexivity].
  - intros th S. apply HR. eapply sat_semeq; eauto.
Qed.

Lemma goodE_weaken s s' (R1 R : (nat -> ty) -> Prop) :
  goodE s R1 s' -> (forall th, sat th s' -> R1 th -> R th) -> goodE s R s'.
Proof. intros (I & L & F & X & HR) K. split; [auto|split; [auto|split; [auto|split; [auto|]]]]. intros th S. apply K; auto. Qed.

Lemma JE_set_cell s v c' : JE s -> bok c' ->
  (forall t, c_bound c' = Some t -> tg (len s) t) -> JE (set_cell s v c').
Proof.
  intros ((A & B) & Cw) Bc Ht. split; [split|].
  - intros w t. cbn [vars set_cell]. rewrite upd_length.
    destruct (cell_of_set_cell s v c' w) as [(E & -> & L)|E]; rewrite E; auto. apply A.
  - intros w. destruct (cell_of_set_cell s v c' w) as [(E & -> & L)|E]; rewrite E; auto.
  - intros c Lc. cbn [vars set_cell]. rewrite upd_length. apply Cw. exact Lc.
Qed.

Lemma forM_set_csE iv : forall vs s,
  tr (forM vs (fun w => set_cs w iv)) s (fun _ s' => semeq s s' /\ constrs s' = constrs s).
Proof.
  induction vs as [|w vs IH]; intros s; cbn [forM].
  - apply tr_ret. split; [apply semeq_refl|reflexivity].
  - unfold set_cs at 1. apply tr_upd_cell.
    eapply tr_conseq; [apply IH|]. cbv beta. intros _ s1 [E C]. split.
    + eapply semeq_trans; [|exact E]. apply semeq_set_cell. repeat split.
    + rewrite C. reflexivity.
Qed.

(* ------------------------------------------------------------------ *)
(* specifications                                                       *)
(* ------------------------------------------------------------------ *)
Definition spec_unify f := forall a b s, JE s -> tg (len s) a -> tg (len s) b ->
  tr (unify H f true false false a b) s
     (fun _ s' => goodE s (fun th => Sub H (den th a) (den th b)) s').

Definition spec_bind f := forall v t s, JE s -> v < len s -> tg (len s) t ->
  (forall o args, t = O o args -> basic H o = true -> cmpb (cell_of s v) o) ->
  tr (bind H f v t) s (fun _ s' => goodE s (fun th => th v = den th t) s').

Definition spec_above f := forall v new s, JE s -> v < len s -> variance H new = [] -> new <> Bottom ->
  tr (above H f v new) s (fun _ s' => goodE s (fun th => lbo new (th v)) s').

Definition spec_below f := forall v new s, JE s -> v < len s -> variance H new = [] -> new <> Top ->
  tr (below H f v new) s (fun _ s' => goodE s (fun th => ubo new (th v)) s').

Definition spec_fix f := forall pl t s, JE s -> tg (len s) t ->
  tr (fix_ty H f pl t) s
     (fun r s' => tg (len s') r /\ goodE s (fun th => den th r = den th t) s').

Definition spec_cc f := forall v s, JE s ->
  tr (check_constraints H f v) s (fun _ s' => goodE s (fun _ => True) s').

Definition spec_fulfill f := forall c s, JE s ->
  tr (fulfill H f c) s (fun _ s' => goodE s (fun _ => True) s').

Definition specs f := spec_unify f /\ spec_bind f /\ spec_above f /\ spec_below f /\ spec_fix f /\
  spec_cc f /\ spec_fulfill f.

Lemma specs_0 : specs 0.
Proof.
  unfold specs, spec_unify, spec_bind, spec_above, spec_below, spec_fix, spec_cc, spec_fulfill.
  repeat apply conj; intros; intros ? ? E; inversion E.
Qed.

(* ---- bind ---- *)
Lemma bind_step f : spec_above f -> spec_below f -> spec_cc f -> spec_bind (S f).
Proof.
  intros Ab Be CC v t s I Lv Tt Cmp. rewrite bind_S. apply tr_gets.
  destruct (c_bound (cell_of s v)) eqn:Hb; [apply tr_fail|].
  unfold set_wild at 1. apply tr_upd_cell. rewrite Hb.
  set (c := cell_of s v) in *.
  set (s1 := set_cell s v (mkCell false None (c_lower c) (c_upper c) (c_cs c))).
  assert (E1 : semeq s s1). { apply semeq_set_cell. unfold cell_sem. cbn [c_bound c_lower c_upper]. fold c. rewrite Hb. auto. }
  assert (K1 : constrs s1 = constrs s) by reflexivity.
  assert (I1 : JE s1). { eapply JE_semeq; eauto. }
  assert (L1 : len s1 = len s) by apply E1.
  assert (C1 : cell_of s1 v = mkCell false None (c_lower c) (c_upper c) (c_cs c)).
  { unfold s1. rewrite cell_of_set_cell_same by exact Lv. reflexivity. }
  assert (BS : forall wld cs th, sat th (set_cell s1 v (mkCell wld (Some t) (c_lower c) (c_upper c) cs)) ->
               th v = den th t /\ (inb c (th v) -> sat th s)).
  { intros wld cs th S2. split.
    - apply sat_at_set_cell in S2; [exact S2|lia].
    - intros Hin. eapply sat_semeq; [exact E1|]. eapply sat_set_cell_back; [exact S2|].
      rewrite C1. cbn [c_bound]. exact Hin. }
  assert (IS : forall wld cs, JE (set_cell s1 v (mkCell wld (Some t) (c_lower c) (c_upper c) cs))).
  { intros wld cs. apply JE_set_cell; auto.
    - pose proof (JE_b s I v) as B. exact B.
    - cbn [c_bound]. intros t' [= <-]. rewrite L1. exact Tt. }
  assert (CS : forall wld cs, let s2 := set_cell s1 v (mkCell wld (Some t) (c_lower c) (c_upper c) cs) in
               (forall x, x <> v -> cell_sem (cell_of s x) (cell_of s2 x)) /\
               c_bound (cell_of s2 v) = Some t /\ c_lower (cell_of s2 v) = c_lower c /\
               c_upper (cell_of s2 v) = c_upper c).
  { intros wld cs s2. split; [|unfold s2; rewrite cell_of_set_cell_same by lia; cbn; auto].
    intros x Ne. unfold s2. rewrite cell_of_set_cell_other by exact Ne. apply (proj2 E1). }
  clearbody s1.
  destruct t as [w|o args].
  - destruct (Nat.eqb v w) eqn:Evw.
    + apply tr_ret. apply Nat.eqb_eq in Evw. subst w.
      apply goodE_semeq; auto.
    + apply Nat.eqb_neq in Evw. unfold set_bound. apply tr_upd_cell. rewrite C1. cbn [c_wild c_lower c_upper c_cs].
      set (s2 := set_cell s1 v (mkCell false (Some (V w)) (c_lower c) (c_upper c) (c_cs c))).
      specialize (BS false (c_cs c)). specialize (IS false (c_cs c)). fold s2 in BS, IS.
      specialize (CS false (c_cs c)). cbv zeta in CS. fold s2 in CS. destruct CS as (Cx & Cb & Clo & Cup).
      assert (L2 : len s2 = len s1) by (unfold s2; cbn; apply upd_length).
      assert (K2 : constrs s2 = constrs s) by (rewrite <- K1; reflexivity).
      clearbody s2.
      apply tr_modify.
      set (s3 := set_cset s2 _ _).
      assert (E3 : semeq s2 s3) by apply semeq_set_cset.
      assert (K3 : constrs s3 = constrs s) by (rewrite <- K2; reflexivity).
      clearbody s3. apply tr_gets. unfold set_cs. apply tr_upd_cell.
      set (s4 := set_cell s3 v _).
      assert (E4 : semeq s3 s4) by (apply semeq_set_cell; repeat split).
      assert (K4 : constrs s4 = constrs s) by (rewrite <- K3; reflexivity).
      clearbody s4. unfold set_wild. apply tr_upd_cell.
      set (s5 := set_cell s4 w _).
      assert (E5 : semeq s4 s5) by (apply semeq_set_cell; repeat split).
      assert (K5 : constrs s5 = constrs s) by (rewrite <- K4; reflexivity).
      clearbody s5.
      assert (E25 : semeq s2 s5) by (eapply semeq_trans; [exact E3|eapply semeq_trans; eauto]).
      assert (I5 : JE s5) by (eapply JE_semeq; [exact E25|congruence|exact IS]).
      assert (L5 : len s5 = len s) by (destruct E25 as [L _]; lia).
      assert (Lw : w < len s) by (inversion Tt; auto).
      pose proof (JE_b s I v) as (Bl & Bu & _). fold c in Bl, Bu.
      eapply tr_bind with (Q1 := fun _ s6 => goodE s5 (fun th => forall l, c_lower c = Some l -> lbo l (th w)) s6).
      { destruct (c_lower c) as [l|] eqn:El.
        - destruct (Bl l eq_refl) as (Vl & NB & _).
          eapply tr_conseq; [apply Ab; auto; lia|]. cbv beta. intros _ s6 G.
          eapply goodE_weaken; [exact G|]. intros th _ Hl l' [= <-]. exact Hl.
        - apply tr_ret. apply goodE_refl; auto. intros th _ l' [=]. }
      intros _ s6 G6.
      eapply tr_bind with (Q1 := fun _ s7 => goodE s6 (fun th => forall u, c_upper c = Some u -> ubo u (th w)) s7).
      { destruct G6 as (I6 & [L6 _] & _). destruct (c_upper c) as [u|] eqn:Eu.
        - destruct (Bu u eq_refl) as (Vu & NT & _).
          eapply tr_conseq; [apply Be; auto; lia|]. cbv beta. intros _ s7 G.
          eapply goodE_weaken; [exact G|]. intros th _ Hu u' [= <-]. exact Hu.
        - apply tr_ret. apply goodE_refl; auto. intros th _ u' [=]. }
      intros _ s7 G7.
      eapply tr_conseq; [apply CC; apply G7|]. cbv beta. intros _ s8 G8.
      pose proof (goodE_trans _ _ _ _ _ (fun th => (forall l, c_lower c = Some l -> lbo l (th w)) /\
                                               (forall u, c_upper c = Some u -> ubo u (th w)))
                             G6 G7) as G57.
      assert (G58 : goodE s5 (fun th => (forall l, c_lower c = Some l -> lbo l (th w)) /\
                                        (forall u, c_upper c = Some u -> ubo u (th w))) s8).
      { eapply goodE_trans; [apply G57; intros; split; assumption|exact G8|]. cbv beta. intros; assumption. }
      clear G57. destruct G58 as (I7 & [L7 M7] & F57 & (X57 & N57) & R7).
      assert (M07 : forall th, sat th s8 -> sat th s).
      { intros th S7. pose proof (M7 th S7) as S5. destruct (R7 th S7) as [Rl Ru].
        assert (S2 : sat th s2) by (eapply sat_semeq; eauto).
        destruct (BS th S2) as [Ev Back]. apply Back. cbn [den] in Ev. rewrite Ev.
        split; assumption. }
      split; [exact I7|split; [split; [lia|exact M07]|split; [|split]]].
      * apply (fr_bind H s s2 s5 s8 v (V w) Hb Cx Cb Clo Cup E25 F57 M07).
      * split; [|congruence]. eapply cx_trans; [apply cx_same; exact K5|exact X57|exact M7].
      * intros th S7. pose proof (M7 th S7) as S5.
        assert (S2 : sat th s2) by (eapply sat_semeq; eauto).
        destruct (BS th S2) as [Ev _]. exact Ev.
  - unfold set_bound. apply tr_upd_cell. rewrite C1. cbn [c_wild c_lower c_upper c_cs].
    set (s2 := set_cell s1 v (mkCell false (Some (O o args)) (c_lower c) (c_upper c) (c_cs c))).
    specialize (BS false (c_cs c)). specialize (IS false (c_cs c)). fold s2 in BS, IS.
    specialize (CS false (c_cs c)). cbv zeta in CS. fold s2 in CS. destruct CS as (Cx & Cb & Clo & Cup).
    assert (L2 : len s2 = len s1) by (unfold s2; cbn; apply upd_length).
    assert (K2 : constrs s2 = constrs s) by (rewrite <- K1; reflexivity).
    clearbody s2.
    eapply tr_bind with (Q1 := fun _ s3 => JE s3 /\ semeq s2 s3 /\ constrs s3 = constrs s /\
                                           forall th, inb c (den th (O o args))).
    + destruct (basic H o) eqn:Eb.
      * destruct (Cmp o args eq_refl Eb) as [Cl Cu]. fold c in Cl, Cu.
        destruct (match c_lower c with Some l => osub H true o l | None => false end) eqn:Kl; [apply tr_fail|].
        destruct (match c_upper c with Some u => osub H true u o | None => false end) eqn:Ku; [apply tr_fail|].
        apply tr_ret. split; [exact IS|split; [apply semeq_refl|split; [exact K2|]]]. intros th.
        inversion Tt as [|? ? La _]; subst. rewrite (basic_var H o Eb) in La.
        destruct args; [|discriminate]. cbn [den map]. split.
        -- intros l El. rewrite El in Kl. exists o. split; [reflexivity|].
           apply osubT_false_cmp; auto.
        -- intros u Eu. rewrite Eu in Ku. exists o. split; [reflexivity|].
           destruct (Cu u Eu) as [C|C]; [|exact C].
           apply osubT_false_cmp; auto.
      * destruct (c_lower c) eqn:El; [apply tr_fail|].
        destruct (c_upper c) eqn:Eu; [apply tr_fail|].
        apply tr_lift. intros vs _. apply tr_modify.
        set (s3 := set_cset s2 _ _).
        assert (E3 : semeq s2 s3) by apply semeq_set_cset.
        assert (K3 : constrs s3 = constrs s) by (rewrite <- K2; reflexivity).
        clearbody s3. apply tr_gets.
        eapply tr_conseq; [apply forM_set_csE|]. cbv beta. intros _ s4 [E4 C4].
        assert (E24 : semeq s2 s4) by (eapply semeq_trans; eauto).
        split; [eapply JE_semeq; [exact E24|congruence|exact IS]|].
        split; [exact E24|split; [congruence|]]. intros th. split; intros x Hx; congruence.
    + intros _ s3 (I3 & E23 & K3 & Hin).
      eapply tr_conseq; [apply CC; exact I3|]. cbv beta. intros _ s4 G4.
      destruct G4 as (I4 & [L4 M4] & F4 & (X4 & N4) & _).
      assert (M03 : forall th, sat th s4 -> sat th s).
      { intros th S4. pose proof (M4 th S4) as S3. assert (S2 : sat th s2) by (eapply sat_semeq; eauto).
        destruct (BS th S2) as [Ev Back]. apply Back. rewrite Ev. apply Hin. }
      split; [exact I4|split; [split; [destruct E23 as [L _]; lia|exact M03]|split; [|split]]].
      * apply (fr_bind H s s2 s3 s4 v (O o args) Hb Cx Cb Clo Cup E23 F4 M03).
      * split; [|congruence]. eapply cx_trans; [apply cx_same; exact K3|exact X4|exact M4].
      * intros th S4. pose proof (M4 th S4) as S3. assert (S2 : sat th s2) by (eapply sat_semeq; eauto).
        destruct (BS th S2) as [Ev _]. exact Ev.
Qed.

(* ---- above ---- *)
Lemma set_lower_good f v new s : spec_cc f -> JE s -> v < len s ->
  variance H new = [] -> new <> Bottom -> new <> Top -> c_bound (cell_of s v) = None ->
  (forall l, c_lower (cell_of s v) = Some l -> ole l new) ->
  (forall u, c_upper (cell_of s v) = Some u -> ole new u) ->
  tr (set_lower v (Some new) ;;; check_constraints H f v) s
     (fun _ s' => goodE s (fun th => lbo new (th v)) s').
Proof.
  intros CC I Lv Vn NB NT Hb Hl Hu. unfold set_lower. apply tr_upd_cell.
  set (c := cell_of s v) in *. rewrite Hb.
  set (s1 := set_cell s v _).
  assert (I1 : JE s1).
  { apply JE_set_cell; auto; [|cbn; discriminate].
    pose proof (JE_b s I v) as (Bl & Bu & Bc). fold c in Bl, Bu, Bc.
    split; [|split]; cbn [c_lower c_upper].
    - intros l [= <-]. auto.
    - exact Bu.
    - intros l u [= <-] Eu. auto. }
  assert (K : forall th, sat th s1 -> lbo new (th v)).
  { intros th S1. apply sat_at_set_cell in S1; [|exact Lv]. cbn [c_bound] in S1.
    destruct S1 as [Sl _]. apply Sl. reflexivity. }
  assert (G1 : goodE s (fun th => lbo new (th v)) s1).
  { split; [exact I1|split; [split|split; [apply fr_set_cell_unb; auto|split; [split; [apply cx_same; reflexivity|reflexivity]|exact K]]]].
    - unfold s1; cbn; rewrite upd_length; lia.
    - intros th S1. eapply sat_set_cell_back; [exact S1|]. fold c. rewrite Hb.
      pose proof (K th S1) as Kl. apply sat_at_set_cell in S1; [|exact Lv]. cbn [c_bound] in S1.
      destruct S1 as [_ Su]. split.
      + intros l El. eapply lbo_trans; [apply Hl; exact El|exact Kl].
      + exact Su. }
  eapply tr_conseq; [apply CC; exact I1|]. cbv beta. intros _ s' G.
  eapply goodE_trans; [exact G1|exact G|]. cbv beta. auto.
Qed.

Lemma keep_lower_good v new l s : JE s -> c_bound (cell_of s v) = None ->
  c_lower (cell_of s v) = Some l -> osub H true new l = true ->
  goodE s (fun th => lbo new (th v)) s.
Proof.
  intros I Hb El Eo. apply goodE_refl; auto. intros th S.
  destruct (S v) as [_ Sv]. rewrite Hb in Sv. destruct Sv as [Sl _].
  eapply lbo_trans; [|apply Sl; exact El]. apply osubT_true_ole. exact Eo.
Qed.

Lemma above_step f : spec_unify f -> spec_bind f -> spec_cc f -> spec_above (S f).
Proof.
  intros U B CC v new s I Lv Vn NB. rewrite above_S.
  destruct (Nat.eqb new Top) eqn:Et.
  - apply Nat.eqb_eq in Et. subst new.
    eapply tr_conseq; [apply B; auto|].
    + apply tg_O0. exact Vn.
    + intros o args [= <- <-] _. split; intros x _; left; apply ole_top.
    + cbv beta. intros _ s' G. eapply goodE_weaken; [exact G|]. intros th _ E. cbn in E.
      exists Top. split; [exact E|apply ole_refl].
  - apply Nat.eqb_neq in Et. unfold set_wild. apply tr_upd_cell.
    set (c := cell_of s v).
    set (s1 := set_cell s v _).
    assert (E1 : semeq s s1). { apply semeq_set_cell. unfold cell_sem. cbn. auto. }
    assert (I1 : JE s1). { eapply JE_semeq; [exact E1|reflexivity|exact I]. }
    assert (L1 : len s1 = len s) by apply E1.
    assert (G01 : goodE s (fun _ => True) s1) by (apply goodE_semeq; auto).
    clearbody s1. apply tr_gets.
    destruct (c_bound (cell_of s1 v)) as [t|] eqn:Hb.
    + eapply tr_conseq; [apply U; auto|].
      * apply tg_O0. exact Vn.
      * eapply JE_sc; eauto.
      * cbv beta. intros _ s' G. eapply goodE_trans; [exact G01|exact G|]. cbv beta.
        intros th _ S1 _ _ Sb. cbn [den map] in Sb.
        destruct (S1 v) as [_ Sv]. rewrite Hb in Sv. rewrite Sv.
        apply Sub_lbo; auto.
    + eapply tr_bind with (Q1 := fun _ s2 => goodE s1 (fun th => lbo new (th v)) s2).
      * pose proof (set_lower_good f v new s1 CC I1) as SL.
        pose proof (keep_lower_good v new) as KL.
        destruct (c_upper (cell_of s1 v)) as [u|] eqn:Eu; destruct (c_lower (cell_of s1 v)) as [l|] eqn:El;
          repeat match goal with |- tr (if ?c then _ else _) _ _ => destruct c eqn:? end;
          try apply tr_fail; try (apply tr_ret; eapply KL; eauto; fail);
          apply SL; auto; try lia; try (intros x [= <-]); try (intros x [=]);
          try (apply osubF_true; assumption); try (apply osubF_neg; assumption).
      * intros _ s2 G2. apply tr_gets. pose proof G2 as (I2 & [L2 M2] & _).
        assert (Gret : goodE s (fun th => lbo new (th v)) s2).
        { eapply goodE_trans; [exact G01|exact G2|]. cbv beta. auto. }
        destruct (c_bound (cell_of s2 v)) eqn:Hb2; [apply tr_ret; exact Gret|].
        destruct (c_lower (cell_of s2 v)) as [l|] eqn:El2; [|apply tr_ret; exact Gret].
        destruct (c_upper (cell_of s2 v)) as [u|] eqn:Eu2; [|apply tr_ret; exact Gret].
        destruct (Nat.eqb l u) eqn:Elu; [|apply tr_ret; exact Gret].
        apply Nat.eqb_eq in Elu. subst u.
        pose proof (JE_b s2 I2 v) as (Bl & _). destruct (Bl l El2) as (Vl & _).
        eapply tr_conseq; [apply B; auto; try lia|].
        -- apply tg_O0. exact Vl.
        -- intros o args [= <- <-] _. split; intros x Ex; left.
           ++ rewrite El2 in Ex. injection Ex as <-. apply ole_refl.
           ++ rewrite Eu2 in Ex. injection Ex as <-. apply ole_refl.
        -- cbv beta. intros _ s' G. eapply goodE_trans; [exact Gret|exact G|]. cbv beta. auto.
Qed.

(* ---- below ---- *)
Lemma set_upper_good f v new s : spec_cc f -> JE s -> v < len s ->
  variance H new = [] -> new <> Top -> new <> Bottom -> c_bound (cell_of s v) = None ->
  (forall l, c_lower (cell_of s v) = Some l -> ole l new) ->
  (forall u, c_upper (cell_of s v) = Some u -> ole new u) ->
  tr (set_upper v (Some new) ;;; check_constraints H f v) s
     (fun _ s' => goodE s (fun th => ubo new (th v)) s').
Proof.
  intros CC I Lv Vn NT NB Hb Hl Hu. unfold set_upper. apply tr_upd_cell.
  set (c := cell_of s v) in *. rewrite Hb.
  set (s1 := set_cell s v _).
  assert (I1 : JE s1).
  { apply JE_set_cell; auto; [|cbn; discriminate].
    pose proof (JE_b s I v) as (Bl & Bu & Bc). fold c in Bl, Bu, Bc.
    split; [|split]; cbn [c_lower c_upper].
    - exact Bl.
    - intros u [= <-]. auto.
    - intros l u El [= <-]. auto. }
  assert (K : forall th, sat th s1 -> ubo new (th v)).
  { intros th S1. apply sat_at_set_cell in S1; [|exact Lv]. cbn [c_bound] in S1.
    destruct S1 as [_ Su]. apply Su. reflexivity. }
  assert (G1 : goodE s (fun th => ubo new (th v)) s1).
  { split; [exact I1|split; [split|split; [apply fr_set_cell_unb; auto|split; [split; [apply cx_same; reflexivity|reflexivity]|exact K]]]].
    - unfold s1; cbn; rewrite upd_length; lia.
    - intros th S1. eapply sat_set_cell_back; [exact S1|]. fold c. rewrite Hb.
      pose proof (K th S1) as Ku. apply sat_at_set_cell in S1; [|exact Lv]. cbn [c_bound] in S1.
      destruct S1 as [Sl _]. split.
      + exact Sl.
      + intros u Eu. eapply ubo_trans; [apply Hu; exact Eu|exact Ku]. }
  eapply tr_conseq; [apply CC; exact I1|]. cbv beta. intros _ s' G.
  eapply goodE_trans; [exact G1|exact G|]. cbv beta. auto.
Qed.

Lemma keep_upper_good v new u s : JE s -> c_bound (cell_of s v) = None ->
  c_upper (cell_of s v) = Some u -> osub H true u new = true ->
  goodE s (fun th => ubo new (th v)) s.
Proof.
  intros I Hb Eu Eo. apply goodE_refl; auto. intros th S.
  destruct (S v) as [_ Sv]. rewrite Hb in Sv. destruct Sv as [_ Su].
  eapply ubo_trans; [|apply Su; exact Eu]. apply osubT_true_ole. exact Eo.
Qed.

Lemma below_step f : spec_unify f -> spec_bind f -> spec_cc f -> spec_below (S f).
Proof.
  intros U B CC v new s I Lv Vn NT. rewrite below_S.
  destruct (Nat.eqb new Bottom) eqn:Et.
  - apply Nat.eqb_eq in Et. subst new.
    eapply tr_conseq; [apply B; auto|].
    + apply tg_O0. exact Vn.
    + intros o args [= <- <-] _. split; intros x _; right; apply ole_bot.
    + cbv beta. intros _ s' G. eapply goodE_weaken; [exact G|]. intros th _ E. cbn in E.
      exists Bottom. split; [exact E|apply ole_refl].
  - apply Nat.eqb_neq in Et. unfold set_wild. apply tr_upd_cell.
    set (c := cell_of s v).
    set (s1 := set_cell s v _).
    assert (E1 : semeq s s1). { apply semeq_set_cell. unfold cell_sem. cbn. auto. }
    assert (I1 : JE s1). { eapply JE_semeq; [exact E1|reflexivity|exact I]. }
    assert (L1 : len s1 = len s) by apply E1.
    assert (G01 : goodE s (fun _ => True) s1) by (apply goodE_semeq; auto).
    clearbody s1. apply tr_gets.
    destruct (c_bound (cell_of s1 v)) as [t|] eqn:Hb.
    + eapply tr_conseq; [apply U; auto|].
      * eapply JE_sc; eauto.
      * apply tg_O0. exact Vn.
      * cbv beta. intros _ s' G. eapply goodE_trans; [exact G01|exact G|]. cbv beta.
        intros th _ S1 _ _ Sb. cbn [den map] in Sb.
        destruct (S1 v) as [_ Sv]. rewrite Hb in Sv. rewrite Sv.
        apply Sub_ubo; auto.
    + eapply tr_bind with (Q1 := fun _ s2 => goodE s1 (fun th => ubo new (th v)) s2).
      * pose proof (set_upper_good f v new s1 CC I1) as SL.
        pose proof (keep_upper_good v new) as KL.
        destruct (c_lower (cell_of s1 v)) as [l|] eqn:El; destruct (c_upper (cell_of s1 v)) as [u|] eqn:Eu;
          repeat match goal with |- tr (if ?c then _ else _) _ _ => destruct c eqn:? end;
          try apply tr_fail; try (apply tr_ret; eapply KL; eauto; fail);
          apply SL; auto; try lia; try (intros x [= <-]); try (intros x [=]);
          try (apply osubF_true; assumption); try (apply osubF_neg; assumption).
      * intros _ s2 G2. apply tr_gets. pose proof G2 as (I2 & [L2 M2] & _).
        assert (Gret : goodE s (fun th => ubo new (th v)) s2).
        { eapply goodE_trans; [exact G01|exact G2|]. cbv beta. auto. }
        destruct (c_bound (cell_of s2 v)) eqn:Hb2; [apply tr_ret; exact Gret|].
        destruct (c_upper (cell_of s2 v)) as [u|] eqn:Eu2; [|apply tr_ret; exact Gret].
        destruct (c_lower (cell_of s2 v)) as [l|] eqn:El2; [|apply tr_ret; exact Gret].
        destruct (Nat.eqb u l) eqn:Elu; [|apply tr_ret; exact Gret].
        apply Nat.eqb_eq in Elu. subst l.
        pose proof (JE_b s2 I2 v) as (_ & Bu & _). destruct (Bu u Eu2) as (Vu & _).
        eapply tr_conseq; [apply B; auto; try lia|].
        -- apply tg_O0. exact Vu.
        -- intros o args [= <- <-] _. split; intros x Ex; left.
           ++ rewrite El2 in Ex. injection Ex as <-. apply ole_refl.
           ++ rewrite Eu2 in Ex. injection Ex as <-. apply ole_refl.
        -- cbv beta. intros _ s' G. eapply goodE_trans; [exact Gret|exact G|]. cbv beta. auto.
Qed.

(* ---- fix_ty ---- *)
Lemma fix_args f pl : spec_fix f -> forall ps vs s, JE s -> Forall (tg (len s)) ps ->
  tr ((fix go (vs : list bool) (ps : list tyv) : M unit :=
         match vs, ps with
         | v :: vs', p :: ps' =>
             fix_ty H f (if v then pl else negb pl) p ;;; go vs' ps'
         | _, _ => ret tt
         end) vs ps) s (fun _ s' => goodE s (fun _ => True) s').
Proof.
  intros Fx. induction ps as [|p ps IH]; intros vs s I Fp; destruct vs as [|b vs];
    try (apply tr_ret; apply goodE_refl; auto).
  inversion Fp as [|? ? Tp Fp']; subst.
  eapply tr_bind; [apply Fx; auto|]. cbv beta. intros r s1 (_ & G1).
  pose proof G1 as (I1 & [L1 M1] & _).
  eapply tr_conseq; [apply IH; auto; eapply Forall_tg_mono; eauto|].
  cbv beta. intros _ s2 G2.
  eapply goodE_trans; [exact G1|exact G2|auto].
Qed.

Lemma fix_step f : spec_bind f -> spec_fix f -> spec_fix (S f).
Proof.
  intros B Fx pl t s I Tt. rewrite fix_ty_S. apply tr_gets.
  pose proof (tg_follow s t I Tt) as Ta.
  assert (Da : forall th, sat th s -> den th (follow s t) = den th t) by (intros; apply (den_follow H); auto).
  set (a := follow s t) in *. clearbody a.
  eapply tr_bind with (Q1 := fun _ s1 => goodE s (fun _ => True) s1).
  - destruct a as [v|o args].
    + apply tr_gets. assert (Lv : v < len s) by (inversion Ta; auto).
      pose proof (JE_b s I v) as (Bl & Bu & Bc).
      destruct pl.
      * destruct (c_lower (cell_of s v)) as [l|] eqn:El; [|apply tr_ret; apply goodE_refl; auto].
        destruct (Bl l eq_refl) as (Vl & _).
        eapply tr_conseq; [apply B; auto|].
        -- apply tg_O0. exact Vl.
        -- intros o args [= <- <-] _. split; intros x Ex.
           ++ rewrite El in Ex. injection Ex as <-. left. apply ole_refl.
           ++ right. apply Bc; auto.
        -- cbv beta. intros _ s1 G. eapply goodE_weaken; [exact G|auto].
      * destruct (c_upper (cell_of s v)) as [u|] eqn:Eu; [|apply tr_ret; apply goodE_refl; auto].
        destruct (Bu u eq_refl) as (Vu & _).
        eapply tr_conseq; [apply B; auto|].
        -- apply tg_O0. exact Vu.
        -- intros o args [= <- <-] _. split; intros x Ex.
           ++ left. apply Bc; auto.
           ++ rewrite Eu in Ex. injection Ex as <-. left. apply ole_refl.
        -- cbv beta. intros _ s1 G. eapply goodE_weaken; [exact G|auto].
    + apply fix_args; auto. apply (tg_args H _ _ _ Ta).
  - intros _ s1 G1. apply tr_gets_end. pose proof G1 as (I1 & [L1 M1] & F1 & X1 & _).
    split.
    + apply tg_follow; auto. eapply tg_mono; eauto.
    + split; [auto|split; [split; auto|split; [auto|split; [auto|]]]]. intros th S1.
      rewrite (den_follow H) by exact S1. apply Da. auto.
Qed.

(* ---- unify ---- *)
Lemma unify_args f : spec_unify f -> forall vs xs ys s, JE s ->
  Forall (tg (len s)) xs -> Forall (tg (len s)) ys -> length xs = length vs -> length ys = length vs ->
  tr ((fix go (vs : list bool) (xs ys : list tyv) : M unit :=
         match vs, xs, ys with
         | v :: vs', x :: xs', y :: ys' =>
             (if v then unify H f true false false x y else unify H f true false false y x) ;;;
             go vs' xs' ys'
         | _, _, _ => ret tt
         end) vs xs ys) s
     (fun _ s' => goodE s (fun th => ArgsRel (Sub H) vs (map (den th) xs) (map (den th) ys)) s').
Proof.
  intros U. induction vs as [|v vs IH]; intros xs ys s I Fx Fy Lx Ly.
  - destruct xs; [|discriminate]. destruct ys; [|discriminate].
    apply tr_ret. apply goodE_refl; auto. intros th _. constructor.
  - destruct xs as [|x xs]; [discriminate|]. destruct ys as [|y ys]; [discriminate|].
    inversion Fx as [|? ? Tx Fx']; subst. inversion Fy as [|? ? Ty Fy']; subst.
    eapply tr_bind with (Q1 := fun _ s1 => goodE s (fun th => if v then Sub H (den th x) (den th y)
                                                         else Sub H (den th y) (den th x)) s1).
    + destruct v; apply U; auto.
    + intros _ s1 G1. pose proof G1 as (I1 & [L1 M1] & R1).
      eapply tr_conseq; [apply IH; auto; try (eapply Forall_tg_mono; eauto); cbn in *; lia|].
      cbv beta. intros _ s2 G2. eapply goodE_trans; [exact G1|exact G2|]. cbv beta.
      intros th _ _ _ Hv Hr. cbn [map]. apply AR_cons; auto.
Qed.

Lemma unify_step f : spec_unify f -> spec_bind f -> spec_above f -> spec_below f -> spec_unify (S f).
Proof.
  intros U B Ab Be a0 b0 s I Ta0 Tb0. rewrite unify_S. apply tr_gets. apply tr_gets.
  pose proof (tg_follow s a0 I Ta0) as Ta. pose proof (tg_follow s b0 I Tb0) as Tb.
  assert (Da : forall th, sat th s -> den th (follow s a0) = den th a0) by (intros; apply (den_follow H); auto).
  assert (Db : forall th, sat th s -> den th (follow s b0) = den th b0) by (intros; apply (den_follow H); auto).
  set (a := follow s a0) in *. set (b := follow s b0) in *. clearbody a b.
  assert (Fin : forall s' (R : (nat -> ty) -> Prop), goodE s R s' ->
            (forall th, sat th s' -> R th -> Sub H (den th a) (den th b)) ->
            goodE s (fun th => Sub H (den th a0) (den th b0)) s').
  { intros s' R G K. eapply goodE_weaken; [exact G|]. intros th S' HR.
    destruct G as (_ & [_ M] & _). rewrite <- Da, <- Db by auto. auto. }
  destruct a as [va|oa xs]; destruct b as [vb|ob ys].
  - apply tr_gets. apply tr_gets. cbn [negb orb].
    eapply tr_conseq; [apply B; auto; [inversion Ta; auto|intros; discriminate]|].
    cbv beta. intros _ s' G. eapply Fin; [exact G|]. cbv beta. intros th S' E. cbn [den] in *.
    rewrite E. apply Sub_refl; auto. apply (sat_wf H th s' S').
  - destruct (Nat.eqb ob Top) eqn:Et.
    + apply Nat.eqb_eq in Et. subst ob. apply tr_ret. eapply Fin; [apply (goodE_refl s (fun _ => True)); auto|].
      cbv beta. intros th S _. erewrite (den_O_wf H th _ Top ys); eauto using sat_wf, var_top. apply SubTop.
    + apply Nat.eqb_neq in Et. apply tr_lift. intros oc _. destruct oc; [apply tr_fail|].
      assert (Lv : va < len s) by (inversion Ta; auto).
      destruct (basic H ob) eqn:Eb.
      * apply tr_gets. cbn [orb andb].
        eapply tr_conseq; [apply Be; auto; apply basic_var; auto|].
        cbv beta. intros _ s' G. eapply Fin; [exact G|]. cbv beta. intros th S' (bb & E & Lb).
        erewrite (den_O_wf H th _ ob ys); eauto using sat_wf, basic_var. cbn [den]. rewrite E.
        apply ole_Sub; auto. apply wf_base. rewrite <- E. apply (sat_wf H th s' S').
      * cbn [orb].
        eapply tr_conseq; [apply B; auto; intros o args [= <- <-]; congruence|].
        cbv beta. intros _ s' G. eapply Fin; [exact G|]. cbv beta. intros th S' E.
        change (den th (V va)) with (th va). rewrite E. apply Sub_refl; auto.
        rewrite <- E. apply (sat_wf H th s' S').
  - destruct (Nat.eqb oa Bottom) eqn:Et.
    + apply Nat.eqb_eq in Et. subst oa. apply tr_ret. eapply Fin; [apply (goodE_refl s (fun _ => True)); auto|].
      cbv beta. intros th S _. erewrite (den_O_wf H th _ Bottom xs); eauto using sat_wf, var_bot. apply SubBot.
    + apply Nat.eqb_neq in Et. apply tr_lift. intros oc _. destruct oc; [apply tr_fail|].
      assert (Lv : vb < len s) by (inversion Tb; auto).
      destruct (basic H oa) eqn:Eb.
      * apply tr_gets. cbn [orb andb].
        eapply tr_conseq; [apply Ab; auto; apply basic_var; auto|].
        cbv beta. intros _ s' G. eapply Fin; [exact G|]. cbv beta. intros th S' (bb & E & Lb).
        erewrite (den_O_wf H th _ oa xs); eauto using sat_wf, basic_var. cbn [den]. rewrite E.
        apply ole_Sub; auto. apply basic_var; auto.
      * cbn [orb].
        eapply tr_conseq; [apply B; auto; intros o args [= <- <-]; congruence|].
        cbv beta. intros _ s' G. eapply Fin; [exact G|]. cbv beta. intros th S' E.
        change (den th (V vb)) with (th vb). rewrite E. apply Sub_refl; auto.
        rewrite <- E. apply (sat_wf H th s' S').
  - destruct (Nat.eqb oa Bottom || Nat.eqb ob Top) eqn:E1.
    { apply tr_ret. eapply Fin; [apply (goodE_refl s (fun _ => True)); auto|]. cbv beta. intros th S _.
      apply orb_true_iff in E1. destruct E1 as [E|E]; apply Nat.eqb_eq in E; subst.
      - erewrite (den_O_wf H th _ Bottom xs); eauto using sat_wf, var_bot. apply SubBot.
      - erewrite (den_O_wf H th _ Top ys); eauto using sat_wf, var_top. apply SubTop. }
    apply orb_false_iff in E1. destruct E1 as [NB NT]. apply Nat.eqb_neq in NB, NT.
    destruct (basic H oa) eqn:Eb.
    { cbn [negb andb orb].
      destruct (negb (osub H false oa ob)) eqn:Eo; [apply tr_fail|].
      apply tr_ret. eapply Fin; [apply (goodE_refl s (fun _ => True)); auto|]. cbv beta. intros th S _.
      apply osubF_neg in Eo. destruct Eo as [E|[E|A]]; try congruence.
      pose proof (basic_var H oa Eb) as Va.
      assert (Vb : variance H ob = []).
      { destruct (Anc_inv H W _ _ A) as [<-|(_ & Vb & _)]; auto. }
      erewrite (den_O_wf H th _ oa xs); eauto using sat_wf.
      erewrite (den_O_wf H th _ ob ys); eauto using sat_wf.
      apply SubBase; auto. }
    destruct (Nat.eqb oa ob) eqn:Eab; [|apply tr_fail].
    apply Nat.eqb_eq in Eab. subst ob.
    destruct (tg_args H _ _ _ Ta) as [Lx Fx]. destruct (tg_args H _ _ _ Tb) as [Ly Fy].
    eapply tr_conseq; [apply unify_args; auto|].
    cbv beta. intros _ s' G. eapply Fin; [exact G|]. cbv beta. intros th S' AR. cbn [den].
    apply SubComp; auto. intros V0. apply var_basic in V0. congruence.
Qed.

(* ---- stores that differ in one constraint object ---- *)
Lemma semeq_vars_eq s s' : vars s' = vars s -> semeq s s'.
Proof.
  intros E. split; [rewrite E; reflexivity|]. intros v. unfold cell_of. rewrite E. repeat split.
Qed.

Lemma JE_set_constr s c k' : JE s -> cw (len s) k' -> JE (set_constr s c k').
Proof.
  intros (Jv0 & Cw) Ck. split; [exact Jv0|]. intros c' Lc'.
  change (len (set_constr s c k')) with (len s).
  destruct (constr_of_set_constr s c k' c') as [(E & -> & L)|E]; rewrite E; [exact Ck|].
  apply Cw. unfold set_constr in Lc'. cbn [constrs] in Lc'. rewrite upd_length in Lc'. exact Lc'.
Qed.

Lemma cfr_set_constr s c k' : k_elim k' = k_elim (constr_of s c) ->
  (k_elim (constr_of s c) = true -> k_done (constr_of s c) = false) ->
  cfr s (set_constr s c k').
Proof.
  intros Ek Nd. constructor.
  - unfold set_constr. cbn [constrs]. rewrite upd_length. auto.
  - intros c' _. destruct (constr_of_set_constr s c k' c') as [(E & -> & L)|E]; rewrite E; auto.
  - intros c' Ee Ed. destruct (constr_of_set_constr s c k' c') as [(E & -> & L)|E]; [|exact E].
    rewrite (Nd Ee) in Ed. discriminate.
Qed.

Lemma nd_set_constr s c k' : (k_elim k' = true -> k_done k' = true -> False) -> nd s (set_constr s c k').
Proof.
  intros Nk c' Ee Ed Ed0. exfalso.
  destruct (constr_of_set_constr s c k' c') as [(E & -> & L)|E]; rewrite E in Ee, Ed; [auto|congruence].
Qed.

Lemma goodE_set_constr s c k' : JE s -> cw (len s) k' -> k_elim k' = k_elim (constr_of s c) ->
  (k_elim (constr_of s c) = true -> k_done (constr_of s c) = false) ->
  (k_elim k' = true -> k_done k' = true -> False) ->
  goodE s (fun _ => True) (set_constr s c k').
Proof.
  intros I Ck Ek Nd Nk.
  assert (E : semeq s (set_constr s c k')) by (apply semeq_vars_eq; reflexivity).
  split; [apply JE_set_constr; auto|split; [apply le_semeq; exact E|split; [apply fr_semeq; exact E|split; [|auto]]]].
  split; [split; [apply cfr_set_constr; auto|apply nd_set_constr; auto]|].
  unfold set_constr. cbn [constrs]. apply upd_length.
Qed.

(* ---- check_constraints ---- *)
Lemma body_good f v c : spec_fulfill f -> forall s, JE s ->
  tr (body H f v c) s (fun _ s' => goodE s (fun _ => True) s').
Proof.
  intros F s I. unfold body. eapply tr_bind; [apply F; exact I|]. cbv beta. intros d s1 G1.
  destruct d.
  - apply tr_modify_end. eapply (goodE_trans _ _ _ _ (fun _ => True)); [exact G1| |auto].
    apply goodE_semeq; [apply G1|apply semeq_set_cset|reflexivity|auto].
  - apply tr_ret. exact G1.
Qed.

Lemma loop_good f v : spec_fulfill f -> forall l s, JE s ->
  tr (loop H f v l) s (fun _ s' => goodE s (fun _ => True) s').
Proof.
  intros F. induction l as [|c l IH]; intros s I; unfold loop; cbn [forM].
  - apply tr_ret. apply goodE_refl; auto.
  - eapply tr_bind; [apply body_good; auto|]. cbv beta. intros _ s1 G1.
    change (forM l (body H f v)) with (loop H f v l).
    eapply tr_conseq; [apply IH; apply G1|]. cbv beta. intros _ s2 G2.
    eapply goodE_trans; [exact G1|exact G2|auto].
Qed.

Lemma cc_step f : spec_fulfill f -> spec_cc (S f).
Proof.
  intros F v s I a s' E. rewrite cc_S_eq in E. cbv zeta in E.
  destruct (2 <=? length (cset_of s (c_cs (cell_of s v)))).
  - destruct (sched s) as [|r rest].
    + eapply loop_good; eauto.
    + set (s0 := mkStore (vars s) (csets s) (constrs s) rest) in *.
      assert (G0 : goodE s (fun _ => True) s0).
      { apply goodE_semeq; auto. apply semeq_vars_eq. reflexivity. }
      eapply goodE_trans; [exact G0|eapply loop_good; [exact F|apply G0|exact E]|auto].
  - eapply loop_good; eauto.
Qed.

(* ---- fulfill ---- *)
Lemma JE_markd s c : JE s -> k_elim (constr_of s c) = false -> JE (markd c s).
Proof.
  intros I Ee. destruct (Nat.lt_ge_cases c (length (constrs s))) as [L|L].
  - apply JE_set_constr; auto. destruct I as (_ & Cw). destruct (Cw c L) as (Tr & Sh).
    rewrite Ee in Sh. split; [exact Tr|]. exact Sh.
  - unfold markd, set_constr. rewrite si_upd_oob by exact L. destruct s; exact I.
Qed.

Lemma goodE_markd s c : JE s -> k_elim (constr_of s c) = false -> goodE s (fun _ => True) (markd c s).
Proof.
  intros I Ee.
  assert (E : semeq s (markd c s)) by (apply semeq_vars_eq; reflexivity).
  split; [apply JE_markd; auto|split; [apply le_semeq; exact E|split; [apply fr_semeq; exact E|split; [|auto]]]].
  split; [split|].
  - apply cfr_set_constr; [exact (eq_sym Ee)|]. intros X. congruence.
  - apply nd_set_constr. cbn. discriminate.
  - unfold markd, set_constr. cbn [constrs]. apply upd_length.
Qed.

Lemma CW_pureK s c : JE s -> k_elim (constr_of s c) = false -> pureK H (constr_of s c).
Proof.
  intros (_ & Cw) Ee. split; [exact Ee|]. intros t Et.
  destruct (Nat.lt_ge_cases c (length (constrs s))) as [L|L].
  - destruct (Cw c L) as (_ & Sh). rewrite Ee in Sh. destruct Sh as (a & Ea & Ba).
    rewrite Ea in Et. inversion Et; subst. eauto.
  - rewrite constr_of_oob in Et by exact L. discriminate.
Qed.

Lemma fulfill_step f : spec_unify f -> spec_fulfill (S f).
Proof.
  intros U c s I b s' E.
  destruct (k_elim (constr_of s c)) eqn:Ee.
  - pose proof (@elim_in_range s c Ee) as Lc.
    pose proof I as (Jv0 & Cw). destruct (Cw c Lc) as (Tr & Sh). rewrite Ee in Sh. destruct Sh as (l & Gl & Ea).
    destruct (k_done (constr_of s c)) eqn:Ed.
    + rewrite FL.fulfill_S' in E. unfold bindM at 1 in E. unfold gets at 1 in E. rewrite Ee, Ed in E.
      inversion E; subst. apply goodE_refl; auto.
    + pose proof (tg_follow s _ I Tr) as Tr0.
      destruct (fulfill_elim_form H f c s l b s' Ee Ed Gl Ea Lc E)
        as (_ & [(m1 & m2 & rest & El2 & -> & ->)|(m & u & El2 & Eu & ->)]).
      * apply goodE_set_constr; auto.
        -- split; [exact Tr0|]. cbn [set_alts k_elim k_alts]. eexists. split; [|reflexivity].
           apply incl_Forall with (l1 := mins_of l); [|apply FL.mins_of_good; exact Gl].
           intros x Hx. apply filter_In in Hx. apply Hx.
        -- cbn. discriminate.
      * set (k := constr_of s c) in *. set (r0 := follow s (k_ref k)) in *.
        set (s3 := set_constr s c (set_alts k r0 [ob m] true)) in *.
        assert (Gm : gd m).
        { assert (Hm : In m (filter (keep H f (set_constr s c (set_alts k r0 (obs (mins_of l)) false)) r0) (mins_of l)))
            by (rewrite El2; left; reflexivity).
          apply filter_In in Hm. destruct Hm as (Hm & _).
          pose proof (FL.mins_of_good H l Gl) as Gs. rewrite Forall_forall in Gs. apply Gs. exact Hm. }
        assert (E3 : semeq s s3) by (apply semeq_vars_eq; reflexivity).
        assert (I3 : JE s3).
        { apply JE_set_constr; auto. split; [exact Tr0|]. cbn [set_alts k_elim k_alts].
          exists [m]. split; [constructor; [exact Gm|constructor]|reflexivity]. }
        assert (C3 : constr_of s3 c = set_alts k r0 [ob m] true).
        { unfold s3. apply constr_of_set_constr_same. exact Lc. }
        assert (Tm : tg (len s3) (ob m)) by (apply tg_O0; apply Gm).
        pose proof (U r0 (ob m) s3 I3 Tr0 Tm u s' Eu) as (I' & L' & F' & ((Cf' & Nd') & Ln') & R').
        assert (Cf3 : cfr s s3) by (apply cfr_set_constr; [fold k; rewrite Ee; reflexivity|intros _; exact Ed]).
        split; [exact I'|split; [eapply le_trans; [apply le_semeq; exact E3|exact L']|split; [|split; [|auto]]]].
        -- eapply fr_trans; [apply fr_semeq; exact E3|exact F'|apply L'].
        -- split; [split; [eapply cfr_trans; eauto|]|].
           ++ intros c' Ee' Ed' Ed0. destruct (Nat.eq_dec c' c) as [->|Nc].
              ** assert (E' : constr_of s' c = constr_of s3 c).
                 { apply (cfr_frz _ _ Cf'); rewrite C3; reflexivity. }
                 exists m. rewrite E', C3. cbn [set_alts k_alts k_ref]. split; [reflexivity|].
                 intros th S'. apply (R' th S').
              ** apply Nd'; auto.
                 destruct (constr_of_set_constr s c (set_alts k r0 [ob m] true) c') as [(_ & X & _)|X]; [congruence|].
                 unfold s3. rewrite X. exact Ed0.
           ++ rewrite Ln'. unfold s3, set_constr. cbn [constrs]. apply upd_length.
  - rewrite (fulfill_pure H (S f) c s (CW_pureK s c I Ee)) in E.
    destruct (pfc H (S f) s (constr_of s c)); [discriminate| |]; inversion E; subst.
    + apply goodE_markd; auto.
    + apply goodE_refl; auto.
Qed.

(* ---- the induction on fuel ---- *)
Theorem specs_all : forall f, specs f.
Proof.
  induction f as [|f (U & B & Ab & Be & Fx & CC & Fu)]; [apply specs_0|].
  unfold specs. repeat apply conj.
  - apply unify_step; auto.
  - apply bind_step; auto.
  - apply above_step; auto.
  - apply below_step; auto.
  - apply fix_step; auto.
  - apply cc_step; auto.
  - apply fulfill_step; auto.
Qed.

Lemma unify_soundE f : spec_unify f. Proof. apply specs_all. Qed.
Lemma bind_soundE f : spec_bind f. Proof. apply specs_all. Qed.
Lemma above_soundE f : spec_above f. Proof. apply specs_all. Qed.
Lemma below_soundE f : spec_below f. Proof. apply specs_all. Qed.
Lemma fix_soundE f : spec_fix f. Proof. apply specs_all. Qed.
Lemma cc_soundE f : spec_cc f. Proof. apply specs_all. Qed.
Lemma fulfill_soundE f : spec_fulfill f. Proof. apply specs_all. Qed.

(* ------------------------------------------------------------------ *)
(* allocation, schemas, instance, apply                                 *)
(* ------------------------------------------------------------------ *)
(* refinement with frame, for the operations that allocate *)
Definition lefE (s s' : store) : Prop := le s s' /\ fr s s' /\ cx s s'.

Lemma lefE_refl s : lefE s s.
Proof. split; [apply le_refl|split; [apply fr_refl|apply cx_refl]]. Qed.

Lemma lefE_trans s1 s2 s3 : lefE s1 s2 -> lefE s2 s3 -> lefE s1 s3.
Proof.
  intros (L1 & F1 & X1) (L2 & F2 & X2).
  split; [eapply le_trans; eauto|split; [eapply fr_trans; eauto; apply L2|eapply cx_trans; eauto; apply L2]].
Qed.

Lemma lefE_len s s' : lefE s s' -> len s <= len s'.
Proof. intros ([L _] & _). exact L. Qed.

Lemma goodE_lefE s R s' : goodE s R s' -> lefE s s'.
Proof. intros (_ & L & F & (X & _) & _). split; [auto|split; auto]. Qed.

Lemma goodE_cnt s R s' : goodE s R s' -> length (constrs s') = length (constrs s).
Proof. intros (_ & _ & _ & (_ & N) & _). exact N. Qed.

Lemma JE_alloc s w : JE s -> JE (snd (alloc_var s w)).
Proof.
  intros ((A & B) & Cw). split; [split|].
  - intros v t. rewrite alloc_var_bound, alloc_var_length. intros Hv.
    eapply tg_mono; [|eapply A; eauto]. lia.
  - intros v. pose proof (B v) as Bv. unfold Sound.bok in *.
    rewrite alloc_var_lower, alloc_var_upper. exact Bv.
  - intros c Lc. rewrite alloc_var_length. eapply cw_mono; [|apply (Cw c Lc)]. lia.
Qed.

Lemma lefE_alloc s w : lefE s (snd (alloc_var s w)).
Proof. split; [apply le_alloc|split; [apply fr_alloc|apply cx_same; reflexivity]]. Qed.

Lemma fresh_list_goodE n : forall s, JE s ->
  tr (fresh_list n) s (fun env s' => JE s' /\ lefE s s' /\ Forall (isvar (len s')) env /\ length env = n /\
                                     constrs s' = constrs s).
Proof.
  induction n as [|n IH]; intros s I; cbn [fresh_list].
  - apply tr_ret. split; [auto|split; [apply lefE_refl|split; [constructor|split; reflexivity]]].
  - apply Sound.tr_fresh. pose proof (JE_alloc s false I) as I1. pose proof (lefE_alloc s false) as L1.
    pose proof (alloc_var_length s false) as Ln.
    assert (K1 : constrs (snd (alloc_var s false)) = constrs s) by reflexivity.
    set (s1 := snd (alloc_var s false)) in *. clearbody s1.
    eapply tr_bind; [apply IH; exact I1|]. cbv beta. intros r s2 (I2 & L2 & F2 & N2 & K2).
    apply tr_ret. split; [auto|split; [eapply lefE_trans; eauto|split; [|split]]].
    + constructor; auto. exists (len s). split; [reflexivity|]. apply lefE_len in L2. lia.
    + cbn. lia.
    + congruence.
Qed.

Definition ev_postE (s : store) : tyv -> store -> Prop :=
  fun r s' => JE s' /\ lefE s s' /\ tg (len s') r /\ constrs s' = constrs s.

Lemma eval_sty_goodE env : forall t s, JE s -> Forall (tg (len s)) env -> styg H (length env) t ->
  tr (eval_sty env t) s (ev_postE s).
Proof.
  induction t as [i| |o args IH] using sty_ind'; intros s I Fe St; cbn [eval_sty].
  - apply tr_gets_end. split; [auto|split; [apply lefE_refl|split; [|reflexivity]]]. apply tg_follow; auto.
    inversion St; subst. rewrite Forall_forall in Fe. apply Fe. apply nth_In. auto.
  - apply Sound.tr_fresh. apply tr_ret. split; [apply JE_alloc; auto|split; [apply lefE_alloc|split; [|reflexivity]]].
    constructor. rewrite alloc_var_length. lia.
  - inversion St as [| |? ? La Fa]; subst.
    eapply tr_bind with (Q1 := fun xs s1 => JE s1 /\ lefE s s1 /\ Forall (tg (len s1)) xs /\
                                            length xs = length args /\ constrs s1 = constrs s).
    + clear La St. revert s I Fe.
      induction IH as [|a r Ha Hr IHr]; intros s I Fe;
        [apply tr_ret; split; [auto|split; [apply lefE_refl|split; [constructor|split; reflexivity]]]|].
      inversion Fa as [|? ? Sa Sr]; subst.
      eapply tr_bind; [apply Ha; auto|]. cbv beta. intros x s1 (I1 & L1 & Tx & K1).
      assert (Fe1 : Forall (tg (len s1)) env) by (eapply Forall_tg_mono; [apply (lefE_len _ _ L1)|exact Fe]).
      eapply tr_bind; [apply IHr; auto|]. cbv beta. intros xs s2 (I2 & L2 & Fx & Nx & K2).
      apply tr_ret. split; [auto|split; [eapply lefE_trans; eauto|split; [|split]]].
      * constructor; auto. eapply tg_mono; [apply (lefE_len _ _ L2)|exact Tx].
      * cbn. lia.
      * congruence.
    + cbv beta. intros xs s1 (I1 & L1 & Fx & Nx & K1). apply tr_ret.
      split; [auto|split; [auto|split; [|exact K1]]]. constructor; auto. congruence.
Qed.

(* ---- new constraints ---- *)
Lemma alloc_constr_JE s k : JE s -> cw (len s) k -> JE (snd (alloc_constr s k)).
Proof.
  intros (Jv0 & Cw) Ck. split; [exact Jv0|]. intros c Lc.
  change (len (snd (alloc_constr s k))) with (len s).
  rewrite alloc_constr_length in Lc.
  destruct (Nat.eq_dec c (length (constrs s))) as [->|Nc].
  - rewrite alloc_constr_new. exact Ck.
  - rewrite alloc_constr_old by lia. apply Cw. lia.
Qed.

Lemma alloc_constr_lefE s k : k_done k = false -> lefE s (snd (alloc_constr s k)).
Proof.
  intros Dk. assert (E : semeq s (snd (alloc_constr s k))) by (apply semeq_vars_eq; reflexivity).
  split; [apply le_semeq; exact E|split; [apply fr_semeq; exact E|split]].
  - constructor.
    + rewrite alloc_constr_length. lia.
    + intros c Lc. rewrite alloc_constr_old by exact Lc. reflexivity.
    + intros c Ee _. rewrite alloc_constr_old; [reflexivity|]. apply elim_in_range. exact Ee.
  - intros c Ee Ed Ed0. exfalso.
    destruct (Nat.lt_ge_cases c (length (constrs s))) as [L|L].
    + rewrite alloc_constr_old in Ed by exact L. congruence.
    + destruct (Nat.eq_dec c (length (constrs s))) as [->|Nc].
      * rewrite alloc_constr_new in Ed. congruence.
      * rewrite constr_of_oob in Ed; [discriminate|]. rewrite alloc_constr_length. lia.
Qed.

Lemma new_constraint_goodE fuel k s : JE s -> cw (len s) k -> k_done k = false ->
  tr (new_constraint H fuel k) s
     (fun _ s' => JE s' /\ lefE s s' /\ length (constrs s') = S (length (constrs s))).
Proof.
  intros I Ck Dk u s' E. unfold new_constraint in E.
  unfold bindM at 1 in E. cbn [alloc_constr] in E.
  set (c := length (constrs s)) in *.
  set (s1 := {| vars := vars s; csets := csets s; constrs := constrs s ++ [k]; sched := sched s |}) in *.
  assert (I1 : JE s1) by (apply (alloc_constr_JE s k I Ck)).
  assert (L1 : lefE s s1) by (apply (alloc_constr_lefE s k Dk)).
  assert (N1 : length (constrs s1) = S c) by (unfold s1, c; cbn [constrs]; rewrite app_length; cbn; lia).
  unfold bindM at 1 in E. unfold lift at 1 in E.
  destruct (closure_f fuel s1 (constr_terms k) []) as [vs|e]; [|discriminate].
  unfold bindM at 1 in E.
  match type of E with match forM ?vs ?f ?s with _ => _ end = _ =>
    change f with (inform c) in E; destruct (forM vs (inform c) s) as [u2 s2|e s2] eqn:E2; [|discriminate] end.
  destruct (inform_facts c vs s1 u2 s2 E2) as (Ev2 & Ek2 & _ & _).
  assert (E12 : semeq s1 s2) by (apply semeq_vars_eq; exact Ev2).
  assert (G12 : goodE s1 (fun _ => True) s2) by (apply goodE_semeq; auto).
  unfold bindM at 1 in E.
  destruct (fulfill H fuel c s2) as [d s3|e s3] eqn:E3; [|discriminate].
  inversion E; subst s'. clear E.
  pose proof (fulfill_soundE fuel c s2 (proj1 G12) d s3 E3) as G23.
  pose proof (goodE_trans _ _ _ _ _ (fun _ => True) G12 G23 (fun _ _ _ _ _ _ => Logic.I)) as G13.
  split; [apply G13|split; [eapply lefE_trans; [exact L1|eapply goodE_lefE; exact G13]|]].
  rewrite (goodE_cnt _ _ _ G13). exact N1.
Qed.

(* ---- the program class ---- *)
(* x << [A1; ...; An] with x a schematic variable of the schema and every Ai a
   user base operator (no parameters, neither Top nor Bottom) *)
Definition pec (n : nat) (sc : sconstr) : Prop :=
  match sc with
  | SCElim (SVar i) alts => i < n /\ exists l, Forall gd l /\ alts = map FL.sb l
  | _ => False
  end.

Definition pscE (n : nat) (sc : sconstr) : Prop := psc H n sc \/ pec n sc.

Inductive cmdE (n : nat) : cmd -> Prop :=
| cE_inst sc : styg H (s_n sc) (s_body sc) -> Forall (pscE (s_n sc)) (s_constrs sc) -> cmdE n (CInst sc)
| cE_apply f x b : f < n -> x < n -> cmdE n (CApply f x b).

(* n = number of values pushed so far *)
Fixpoint progE (n : nat) (cs : list cmd) : Prop :=
  match cs with
  | [] => True
  | c :: r => cmdE n c /\ progE (S n) r
  end.

(* the constraint object a schema constraint creates *)
Definition sub_constr (s : store) (env : list tyv) (i a : nat) (strict : bool) : constr :=
  mkConstr false (follow s (follow s (nth i env (V 0)))) [O a []] strict false.
Definition elim_constr (s : store) (env : list tyv) (i : nat) (l : list nat) : constr :=
  mkConstr true (follow s (follow s (nth i env (V 0)))) (obs l) false false.

Lemma eval_constr_sub fuel env i a strict s :
  eval_constr H fuel env (SCSub (SVar i) (SOp a []) strict) s = new_constraint H fuel (sub_constr s env i a strict) s.
Proof. cbn [eval_constr eval_sty]. unfold bindM, gets, ret. rewrite follow_O. reflexivity. Qed.

Lemma eval_constr_elimE fuel env i l s :
  eval_constr H fuel env (SCElim (SVar i) (map FL.sb l)) s = new_constraint H fuel (elim_constr s env i l) s.
Proof.
  rewrite FL.eval_constr_elim. cbn [eval_sty]. unfold bindM at 1. unfold gets at 1.
  unfold bindM at 1. rewrite FL.eval_list_bases. unfold bindM at 1. unfold gets at 1.
  unfold bindM at 1. unfold gets at 1. rewrite FL.follow_obs. reflexivity.
Qed.

Lemma eval_constr_goodE fuel env sc s : JE s -> Forall (tg (len s)) env -> pscE (length env) sc ->
  tr (eval_constr H fuel env sc) s
     (fun _ s' => JE s' /\ lefE s s' /\ length (constrs s') = S (length (constrs s))).
Proof.
  intros I Fe Pc.
  assert (Tn : forall i, i < length env -> tg (len s) (follow s (follow s (nth i env (V 0))))).
  { intros i Li. apply tg_follow; auto. apply tg_follow; auto.
    rewrite Forall_forall in Fe. apply Fe. apply nth_In. exact Li. }
  destruct Pc as [Pc|Pc].
  - destruct sc as [r t strict|r alts]; cbn [psc] in Pc; [|tauto].
    destruct r as [i| |]; try tauto. destruct t as [| |a [|x xs]]; try tauto. destruct Pc as (Li & Va).
    intros u s' E. rewrite eval_constr_sub in E. revert u s' E. apply new_constraint_goodE; auto.
    split; [apply Tn; exact Li|]. cbn [sub_constr k_elim k_alts]. exists a. split; [reflexivity|].
    apply var_basic. exact Va.
  - destruct sc as [r t strict|r alts]; cbn [pec] in Pc; [tauto|].
    destruct r as [i| |]; try tauto. destruct Pc as (Li & l & Gl & ->).
    intros u s' E. rewrite eval_constr_elimE in E. revert u s' E. apply new_constraint_goodE; auto.
    split; [apply Tn; exact Li|]. cbn [elim_constr k_elim k_alts]. exists l. auto.
Qed.

Definition ncon (c : cmd) : nat := match c with CInst sc => length (s_constrs sc) | _ => 0 end.

Lemma instance_goodE fuel sc s : JE s -> styg H (s_n sc) (s_body sc) -> Forall (pscE (s_n sc)) (s_constrs sc) ->
  tr (instance H fuel sc) s
     (fun r s' => JE s' /\ lefE s s' /\ tg (len s') r /\
                  length (constrs s') = length (constrs s) + length (s_constrs sc)).
Proof.
  intros I Sb Pc. unfold instance.
  eapply tr_bind; [apply fresh_list_goodE; auto|]. cbv beta. intros env s1 (I1 & L1 & Fe & Ne & K1).
  assert (Fe1 : Forall (tg (len s1)) env).
  { eapply Forall_impl; [|exact Fe]. intros t. apply isvar_tg. }
  eapply tr_bind; [apply eval_sty_goodE; auto|].
  { rewrite Ne. exact Sb. }
  cbv beta. intros body s2 (I2 & L2 & Tb & K2).
  assert (G : forall cs s3, JE s3 -> len s2 <= len s3 -> Forall (pscE (length env)) cs ->
            tr (forM cs (eval_constr H fuel env)) s3
               (fun _ s4 => JE s4 /\ lefE s3 s4 /\ length (constrs s4) = length (constrs s3) + length cs)).
  { induction cs as [|c cs IH]; intros s3 I3 L3 Fc; cbn [forM].
    - apply tr_ret. split; [auto|split; [apply lefE_refl|cbn; lia]].
    - inversion Fc as [|? ? Pc1 Fc']; subst.
      eapply tr_bind; [apply eval_constr_goodE; auto|].
      { eapply Forall_tg_mono; [|exact Fe1]. pose proof (lefE_len _ _ L2). lia. }
      cbv beta. intros _ s4 (I4 & L4 & N4).
      eapply tr_conseq; [apply IH; auto|].
      { pose proof (lefE_len _ _ L4). lia. }
      cbv beta. intros _ s5 (I5 & L5 & N5).
      split; [auto|split; [eapply lefE_trans; eauto|cbn; lia]]. }
  eapply tr_bind; [apply G; auto|].
  { rewrite Ne. exact Pc. }
  cbv beta. intros _ s3 (I3 & L3 & N3).
  eapply tr_conseq; [apply fix_soundE; auto|].
  { eapply tg_mono; [apply (lefE_len _ _ L3)|exact Tb]. }
  cbv beta. intros r s4 (Tr & G4).
  split; [apply G4|split; [|split; [exact Tr|]]].
  - eapply lefE_trans; [exact L1|]. eapply lefE_trans; [exact L2|]. eapply lefE_trans; [exact L3|].
    eapply goodE_lefE; eauto.
  - rewrite (goodE_cnt _ _ _ G4). rewrite N3. congruence.
Qed.

Lemma goodE_of_lefE s s' (R : (nat -> ty) -> Prop) :
  JE s' -> lefE s s' -> length (constrs s') = length (constrs s) ->
  (forall th, sat th s' -> R th) -> goodE s R s'.
Proof. intros I (L & F & X) N HR. split; [auto|split; [auto|split; [auto|split; auto]]]. Qed.

Local Notation StepSem := (Sound.StepSem H).

Lemma apply_goodE fuel f0 x0 fixb s : JE s -> tg (len s) f0 -> tg (len s) x0 ->
  tr (apply H fuel f0 x0 fixb) s
     (fun r s' => tg (len s') r /\ goodE s (fun th => StepSem th f0 x0 r) s').
Proof.
  intros I Tf0 Tx0. unfold apply. apply tr_gets. apply tr_gets.
  pose proof (tg_follow s f0 I Tf0) as Tf. pose proof (tg_follow s x0 I Tx0) as Tx.
  assert (Df : forall th, sat th s -> den th (follow s f0) = den th f0) by (intros; apply (den_follow H); auto).
  assert (Dx : forall th, sat th s -> den th (follow s x0) = den th x0) by (intros; apply (den_follow H); auto).
  set (f := follow s f0) in *. set (x := follow s x0) in *. clearbody f x.
  eapply tr_bind with (Q1 := fun f' s1 => tg (len s1) f' /\ goodE s (fun th => den th f' = den th f) s1).
  - destruct f as [vf|o args]; [|apply tr_ret; split; [auto|apply goodE_refl; auto]].
    apply Sound.tr_fresh. pose proof (JE_alloc s false I) as I1. pose proof (lefE_alloc s false) as L1.
    pose proof (alloc_var_length s false) as N1.
    assert (K1 : constrs (snd (alloc_var s false)) = constrs s) by reflexivity.
    set (s1 := snd (alloc_var s false)) in *. clearbody s1.
    apply Sound.tr_fresh. pose proof (JE_alloc s1 false I1) as I2. pose proof (lefE_alloc s1 false) as L2.
    pose proof (alloc_var_length s1 false) as N2.
    assert (K2 : constrs (snd (alloc_var s1 false)) = constrs s1) by reflexivity.
    set (s2 := snd (alloc_var s1 false)) in *. clearbody s2.
    assert (Lv : vf < len s) by (inversion Tf; auto).
    eapply tr_bind; [apply bind_soundE; auto; try lia|].
    + constructor; [rewrite var_fun; reflexivity|].
      constructor; [constructor; lia|constructor; [constructor; lia|constructor]].
    + intros o args [= <- <-] Eb. apply basic_var in Eb. rewrite var_fun in Eb. discriminate.
    + cbv beta. intros _ s3 G3. apply tr_gets_end.
      assert (L03 : lefE s s3) by (eapply lefE_trans; [exact L1|eapply lefE_trans; [exact L2|eapply goodE_lefE; eauto]]).
      split.
      * apply tg_follow; [apply G3|]. constructor. apply lefE_len in L03. lia.
      * apply goodE_of_lefE; [apply G3|exact L03|rewrite (goodE_cnt _ _ _ G3); congruence|].
        intros th S3. apply (den_follow H). exact S3.
  - cbv beta. intros f' s1 (Tf' & G1). pose proof G1 as (I1 & [L1 M1] & F1 & X1 & R1).
    assert (Tx1 : tg (len s1) x) by (eapply tg_mono; eauto).
    assert (TopCase : forall args, tg (len s1) (O Top args) -> f' = O Top args ->
              tg (len s1) (O Top []) /\ goodE s (fun th => StepSem th f0 x0 (O Top [])) s1).
    { intros args Ta ->. split; [apply tg_O0; apply var_top; auto|].
      eapply goodE_weaken; [exact G1|]. intros th S1 E. right. split; [|reflexivity].
      rewrite <- Df, <- E by auto. eapply den_O_wf; eauto using sat_wf, var_top. }
    destruct f' as [v|o [|lft [|rgt [|z r]]]]; try apply tr_fail.
    + destruct (Nat.eqb o Top) eqn:Et; [|apply tr_fail]. apply Nat.eqb_eq in Et. subst o.
      apply tr_ret. eapply TopCase; eauto.
    + destruct (Nat.eqb o Top) eqn:Et; [|apply tr_fail]. apply Nat.eqb_eq in Et. subst o.
      apply tr_ret. eapply TopCase; eauto.
    + destruct (Nat.eqb o Function) eqn:Ef.
      * apply Nat.eqb_eq in Ef. subst o.
        destruct (tg_args H _ _ _ Tf') as [_ Fa]. inversion Fa as [|? ? Tl Fa']; subst.
        inversion Fa' as [|? ? Tr _]; subst.
        eapply tr_bind; [apply unify_soundE; auto|]. cbv beta. intros _ s2 G2.
        pose proof G2 as (I2 & [L2 M2] & F2 & X2 & R2).
        assert (Fin : forall r s3, tg (len s3) r -> goodE s2 (fun th => den th r = den th rgt) s3 ->
                  tg (len s3) r /\ goodE s (fun th => StepSem th f0 x0 r) s3).
        { intros r s3 Trr G3. split; [exact Trr|].
          eapply goodE_trans; [exact G1|eapply goodE_trans; [exact G2|exact G3|]|].
          - cbv beta. intros th _ _ _ A B. exact (conj A B).
          - cbv beta. intros th _ S1 S0 E [Sb Er]. left.
            exists (den th lft), (den th rgt). rewrite <- Df, <- E by auto. split; [reflexivity|].
            split; [|exact Er]. rewrite <- Dx by auto. exact Sb. }
        destruct (fixb && negb (is_fun rgt)).
        -- eapply tr_conseq; [apply fix_soundE; auto; eapply tg_mono; eauto|].
           cbv beta. intros r s3 (Trr & G3). apply Fin; auto.
        -- apply tr_ret. apply Fin; [eapply tg_mono; eauto|]. apply goodE_refl; auto.
      * destruct (Nat.eqb o Top) eqn:Et; [|apply tr_fail]. apply Nat.eqb_eq in Et. subst o.
        apply tr_ret. eapply TopCase; eauto.
    + destruct (Nat.eqb o Top) eqn:Et; [|apply tr_fail]. apply Nat.eqb_eq in Et. subst o.
      apply tr_ret. eapply TopCase; eauto.
Qed.

(* ------------------------------------------------------------------ *)
(* command programs                                                     *)
(* ------------------------------------------------------------------ *)
Lemma run_cmd_goodE fuel c vals s : JE s -> Forall (tg (len s)) vals -> cmdE (length vals) c ->
  tr (run_cmd H fuel c vals) s
     (fun vals' s' => exists t, vals' = vals ++ [t] /\ tg (len s') t /\ JE s' /\ lefE s s' /\
        length (constrs s') = length (constrs s) + ncon c /\
        forall th, sat th s' -> forall f x r, In (f, x, r) (step_of_cmd c (length vals)) ->
                            StepSem th (val vals f) (val vals x) t).
Proof.
  intros I Fv Pc. destruct Pc as [sc Sb Pcs|f x b Lf Lx]; cbn [run_cmd].
  - eapply tr_bind; [apply instance_goodE; auto|]. cbv beta. intros t s1 (I1 & L1 & Tt & N1).
    apply tr_ret. exists t. split; [reflexivity|split; [exact Tt|split; [exact I1|split; [exact L1|split; [exact N1|]]]]].
    intros th _ f x r [].
  - eapply tr_bind; [apply apply_goodE; auto using tg_val|]. cbv beta. intros t s1 (Tt & G1).
    apply tr_ret. exists t. split; [reflexivity|split; [exact Tt|split; [apply G1|split; [eapply goodE_lefE; eauto|split]]]].
    + rewrite (goodE_cnt _ _ _ G1). cbn. lia.
    + destruct G1 as (_ & _ & _ & _ & R1). intros th S1 f' x' r' [[= <- <- <-]|[]]. apply R1. exact S1.
Qed.

Lemma steps_of_consE c cs n : cmdE n c ->
  steps_of (c :: cs) n = step_of_cmd c n ++ steps_of cs (S n).
Proof. intros [sc _ _|f x b _ _]; reflexivity. Qed.

Fixpoint ncons (cs : list cmd) : nat := match cs with [] => 0 | c :: r => ncon c + ncons r end.

Theorem run_cmds_goodE fuel : forall cs i vals s vals' s', JE s -> Forall (tg (len s)) vals ->
  progE (length vals) cs -> run_cmds H fuel cs i vals s = (None, vals', s') ->
  JE s' /\ lefE s s' /\ Forall (tg (len s')) vals' /\ (exists ext, vals' = vals ++ ext) /\
  length (constrs s') = length (constrs s) + ncons cs /\
  forall th, sat th s' -> forall f x r, In (f, x, r) (steps_of cs (length vals)) ->
    StepSem th (val vals' f) (val vals' x) (val vals' r).
Proof.
  induction cs as [|c cs IH]; intros i vals s vals' s' I Fv P R; cbn [run_cmds] in R.
  - inversion R; subst. split; [auto|split; [apply lefE_refl|split; [auto|split; [|split]]]].
    + exists []. rewrite app_nil_r. reflexivity.
    + cbn. lia.
    + intros th _ f x r [].
  - destruct P as [Pc Pr].
    pose proof (run_cmd_goodE fuel c vals s I Fv Pc) as T. unfold tr in T.
    destruct (run_cmd H fuel c vals s) as [vals1 s1|e s1] eqn:Ec; [|discriminate].
    destruct (T vals1 s1 eq_refl) as (t & -> & Tt & I1 & L1 & N1 & R1).
    assert (Fv1 : Forall (tg (len s1)) (vals ++ [t])).
    { apply Forall_app. split; [eapply Forall_tg_mono; [apply (lefE_len _ _ L1)|exact Fv]|constructor; auto]. }
    assert (Pr1 : progE (length (vals ++ [t])) cs) by (rewrite app_length; cbn; rewrite Nat.add_1_r; exact Pr).
    destruct (IH (S i) (vals ++ [t]) s1 vals' s' I1 Fv1 Pr1 R) as (I' & L' & Fv' & (ext & ->) & N' & R').
    split; [auto|split; [eapply lefE_trans; eauto|split; [auto|split; [|split]]]].
    + exists ([t] ++ ext). rewrite app_assoc. reflexivity.
    + cbn [ncons]. lia.
    + intros th S' f x r Hin. rewrite steps_of_consE in Hin by exact Pc.
      apply in_app_or in Hin. destruct Hin as [Hin|Hin].
      * pose proof (proj2 (proj1 L') th S') as S1. specialize (R1 th S1 f x r Hin).
        destruct Pc as [sc _ _|f' x' b Lf Lx]; cbn in Hin; [destruct Hin|].
        destruct Hin as [[= <- <- <-]|[]].
        rewrite <- app_assoc. change ([t] ++ ext) with (t :: ext). rewrite !val_app_l by lia. rewrite val_app_new. exact R1.
      * apply R'; [exact S'|]. rewrite app_length. cbn. rewrite Nat.add_1_r. exact Hin.
Qed.

(* every fulfilled elimination constraint satisfies its done clause *)
Definition dn (s : store) : Prop :=
  forall c, k_elim (constr_of s c) = true -> k_done (constr_of s c) = true -> dcl s c.

Lemma dn_lefE s s' : dn s -> lefE s s' -> dn s'.
Proof.
  intros D (L & _ & (Cf & Nd)) c Ee Ed. destruct (k_done (constr_of s c)) eqn:D0.
  - pose proof (done_in_range _ _ D0) as Lc.
    assert (Ee0 : k_elim (constr_of s c) = true) by (rewrite <- (cfr_kind _ _ Cf c Lc); exact Ee).
    destruct (D c Ee0 D0) as (a & Ea & Ha). pose proof (cfr_frz _ _ Cf c Ee0 D0) as E'.
    exists a. rewrite E'. split; [exact Ea|]. intros th S'. apply Ha. apply L. exact S'.
  - apply Nd; auto.
Qed.

Lemma JE_empty sc : JE (empty_store sc).
Proof.
  split; [split|].
  - intros v t. unfold cell_of. cbn. destruct v; discriminate.
  - intros v. unfold cell_of. cbn. split; [|split]; intros; destruct v; discriminate.
  - intros c Lc. cbn in Lc. lia.
Qed.

Lemma dn_empty sc : dn (empty_store sc).
Proof. intros c Ee. unfold constr_of in Ee. cbn in Ee. destruct c; discriminate. Qed.

Theorem elimS_final fuel sc prog vals s : progE 0 prog ->
  run_cmds H fuel prog 0 [] (empty_store sc) = (None, vals, s) ->
  JE s /\ lefE (empty_store sc) s /\ dn s /\ Forall (tg (len s)) vals /\
  length (constrs s) = ncons prog /\
  forall th, sat th s -> forall f x r, In (f, x, r) (steps_of prog 0) ->
    StepSem th (val vals f) (val vals x) (val vals r).
Proof.
  intros P R.
  destruct (run_cmds_goodE fuel prog 0 [] (empty_store sc) vals s (JE_empty sc) (Forall_nil _) P R)
    as (I & L & Fv & _ & N & St).
  split; [exact I|split; [exact L|split; [|split; [exact Fv|split; [exact N|exact St]]]]].
  eapply dn_lefE; [apply dn_empty|exact L].
Qed.

End SoundE.
